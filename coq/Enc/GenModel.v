(* Executable model of generate_prefix_code() of src/encode.c (l.1006-1130) and of the functions it calls:
     generate_initial_trees()  (l.770)   initial equivalence classes of symbols
     find_best_tree()          (l.848)   packed 6 x 10-bit cost comparison
     make_code_lengths()       (l.717)   sort_alphabet + build_tree (l.580) + compute_depths (l.620): plain Huffman
                                          construction with depth <= MAX_HUFF_CODE_LENGTH, used ONLY inside the EM
                                          iterations (its lengths are never transmitted)
     assign_codes()            (l.882)   reused from Enc/PmModel.v ([assign_lengths])
   No proofs in this file (Enc/GenProofs.v).

   Input: mtfv[0..nm-1] (MTF/zero-run symbols, the last one is EOB = as-1) and s->cluster_factor (set once in
   encoder_init(), l.126, which asserts 0 < cluster_factor <= 65535).
   The symbol frequencies that do_mtf() leaves in s->u.s.code[0][0..as-1] (read by generate_initial_trees) are
   COMPUTED here from mtfv ([sym_freq]: code[0][v] = number of v among mtfv[0..nm-1]; do_mtf increments
   mtffreq[x] exactly when it stores x).

   Conventions (as in PmModel.v).  Data are N, indices/counters that drive recursion are nat.  Every C array is a
   list whose length is the number of entries the C code may legally touch - in most cases a TIGHTER bound than
   the C declaration, so "no error value" is stronger than "no out-of-bounds access in C":
     code[0] (symbol frequencies)  as entries                       (C: MAX_ALPHA_SIZE+1)
     length[t], t < MAX_TREES      MAX_TREES rows of as entries     (C: MAX_TREES rows of MAX_ALPHA_SIZE+1;
                                   the stores length[t][as] = 0 / code[t][as] = 0 of l.1093-1094 concern the
                                   sentinel column, which is not part of the model; code[] is modelled in EncModel.v)
     frequency[t], t < nt          nt rows of as+1 entries (column as = the dummy symbol completing the last group)
     len_pack                      as+1 entries
     selector                      enc_selector_size entries: ngroups + 1 (sentinel) must fit
     tmap_old2new, tmap_new2old    MAX_TREES entries; old2new is a list of OPTIONS: None = never written (the C array
                                   holds garbage there); reading None is the error GUnset
     weight, V (make_code_lengths) as entries                       (C: MAX_ALPHA_SIZE)
     count (make_code_lengths)     MAX_HUFF_CODE_LENGTH+2 entries
   A miss of a bounds-checked accessor is GErr (GOob ..) (GErr (GMcl (MOob ..)) inside make_code_lengths); a failed
   assert() is GErr (GAssert ..) / GErr (GMcl (MAssert ..)); errors of assign_codes are GErr (GPm ..).
   uint32_t arithmetic that can wrap is written with [u32]/[sub32] (exact C semantics), uint64_t with [u64].
   Not wrapped (cannot reach 2^32 for nm < 2^32): the increments of frequency[][] and code[0][] entries.
   uint8_t length[][] entries: the model stores what make_code_lengths/assign_codes computed (<= 30), no truncation.

   The EM loop is parametric in the function [mcl] standing for make_code_lengths (old row, frequencies) so that
   the theorems can quantify over it; [make_code_lengths] below is the exact model, [gen_prefix_code] the instance. *)
From Coq Require Import List NArith Arith Bool.
From LBZ Require Import Gen.Consts Enc.PmModel.
Import ListNotations.
Local Open Scope N_scope.

Inductive mcl_err :=
| MOob (id : N)        (* 1: weight[] read, 2: weight[] write, 3: V[] read, 4: V[] write, 5: count[], 6: length[] write *)
| MUnderflow (id : N)  (* 1: r < 2 when two internal nodes are taken, 2: r < 1 / s < 1, 3: MAX_ALPHA_SIZE - (w & 0xFFFF), 4: s < 2 *)
| MAssert (id : N).    (* 1: MIN_ALPHA_SIZE <= as <= MAX_ALPHA_SIZE, 2: r == 2, 3: s == 0, 4: avail > used, 5: avail == 0,
                          6: i < as, 7: c == 1 << (MAX_HUFF_CODE_LENGTH+1), 8: i == as *)

Inductive gen_err :=
| GOob (id : N)        (* 1: code[0] (sym_freq), 2: code[0] first scan, 3: code[0] class growth, 4: code[0] class start,
                          5: len_pack[], 6: frequency[t], 7: frequency[t][v], 8: length[t] row, 9: selector[] capacity,
                          10: tmap_new2old[], 11: tmap_old2new[], 12: length[t][a..b) memset, 13: length[dummy][v] *)
| GAssert (id : N)     (* 1: nm >= 2, 2: cum == nm, 3: nm > 0, 4: as >= nt, 5: a < b, 6: cum > 0, 7: cum <= nm, 8: as >= nt-1,
                          9: as == 0, 10: nm == 0, 11: t < nt, 12: sp - selector == num_selectors, 13: nt >= 1 *)
| GUnset (id : N)      (* 1: selector[] never written (cluster_factor = 0), 2: tmap_old2new[c] never written *)
| GPm (e : pm_err)
| GMcl (e : mcl_err).

Inductive gres (A : Type) := GOk (a : A) | GErr (e : gen_err).
Arguments GOk {A} a.
Arguments GErr {A} e.

Definition gbind {A B} (x : gres A) (f : A -> gres B) : gres B :=
  match x with GOk a => f a | GErr e => GErr e end.
Notation "'gdo' x <- e ; f" := (gbind e (fun x => f)) (at level 200, x pattern, e at level 100, f at level 200).

Definition u32 (x : N) : N := N.land x MAX32.
Definition u64 (x : N) : N := N.land x MAXW.
(* a - b in uint32_t, for a, b < 2^32 *)
Definition sub32 (a b : N) : N := u32 (a + U32 - b).

Definition NTREES : nat := N.to_nat MAX_TREES.                 (* 6 *)

Definition grd {A} (id : N) (l : list A) (i : nat) : gres A :=
  match nth_error l i with Some x => GOk x | None => GErr (GOob id) end.
Definition gwr {A} (id : N) (l : list A) (i : nat) (v : A) : gres (list A) :=
  if (i <? length l)%nat then GOk (upd l i v) else GErr (GOob id).

(* l[i]++ with bounds check *)
Fixpoint bump (id : N) (l : list N) (i : nat) : gres (list N) :=
  match l, i with
  | [], _ => GErr (GOob id)
  | x :: r, O => GOk (x + 1 :: r)
  | x :: r, S j => match bump id r j with GOk r' => GOk (x :: r') | GErr e => GErr e end
  end.

Fixpoint bump_all (id : N) (row : list N) (syms : list N) : gres (list N) :=
  match syms with
  | [] => GOk row
  | s :: r => gdo row' <- bump id row (N.to_nat s); bump_all id row' r
  end.

(* what do_mtf leaves in code[0][0..as-1] *)
Definition sym_freq (mtfv : list N) (as_ : nat) : gres (list N) := bump_all 1 (repeat 0 as_) mtfv.

(* ---- number of trees ------------------------------------------------------------------------------------ *)
Fixpoint choose_nt (ths : list (N * N)) (nm : N) : N :=
  match ths with
  | [] => nt_default
  | (th, v) :: r => if th <? nm then v else choose_nt r nm
  end.

(* ---- generate_initial_trees ------------------------------------------------------------------------------ *)
(* for (a = 0, cum = 0; cum < nm; a++) { freq = code[0][a]; cum += freq; as += min(freq, 1); }   -> (cum, as) *)
Fixpoint git_scan (F : list N) (nm cum ase : N) : gres (N * N) :=
  match F with
  | [] => if cum <? nm then GErr (GOob 2) else GOk (cum, ase)
  | f :: r => if cum <? nm then git_scan r nm (u32 (cum + f)) (u32 (ase + N.min f 1)) else GOk (cum, ase)
  end.

(* while (as > nt-1 && cum * nt < nm) { freq = code[0][b]; cum += freq; as -= min(freq, 1); b++; }
   [rest] = code[0][b..], k = b - a.  Result (as, cum, freq, k). *)
Fixpoint ec_grow (rest : list N) (nt nm ase cum freq : N) (k : nat) : gres (N * N * N * nat) :=
  let cont := (sub32 nt 1 <? ase) && (u32 (cum * nt) <? nm) in
  match rest with
  | [] => if cont then GErr (GOob 3) else GOk (ase, cum, freq, k)
  | f :: r => if cont then ec_grow r nt nm (sub32 ase (N.min f 1)) (u32 (cum + f)) f (S k)
              else GOk (ase, cum, freq, k)
  end.

(* for (t = 0; nt > 0; t++, nt--) { ... }: [n] = nt as recursion counter, [cur] = code[0][a..].
   Result: the classes (a, b-a) in order, and the final (nm, as). *)
Fixpoint git_classes (n : nat) (as_ : nat) (cur : list N) (a : nat) (nt nm ase : N)
  : gres (list (nat * nat) * N * N) :=
  match n with
  | O => GOk ([], nm, ase)
  | S n' =>
    if nm =? 0 then GErr (GAssert 3)
    else if ase <? nt then GErr (GAssert 4)
    else match cur with
    | [] => GErr (GOob 4)
    | f0 :: r0 =>
      gdo g <- ec_grow r0 nt nm (sub32 ase (N.min f0 1)) f0 f0 1%nat;
      let '(ase1, cum1, freq1, k1) := g in
      (* if (cum > freq && (2*cum - freq) * nt > 2*nm) { cum -= freq; as += min(freq, 1); b--; } *)
      let retreat := (freq1 <? cum1) && (u32 (2 * nm) <? u32 (sub32 (u32 (2 * cum1)) freq1 * nt)) in
      let cum2 := if retreat then sub32 cum1 freq1 else cum1 in
      let ase2 := if retreat then u32 (ase1 + N.min freq1 1) else ase1 in
      let k2 := if retreat then pred k1 else k1 in
      if (k2 =? 0)%nat then GErr (GAssert 5)
      else if cum2 =? 0 then GErr (GAssert 6)
      else if nm <? cum2 then GErr (GAssert 7)
      else if ase2 <? sub32 nt 1 then GErr (GAssert 8)
      else if (as_ <? a + k2)%nat then GErr (GOob 12)
      else
        gdo r <- git_classes n' as_ (skipn k2 cur) (a + k2)%nat (sub32 nt 1) (sub32 nm cum2) ase2;
        let '(cls, nmf, asef) := r in
        GOk ((a, k2) :: cls, nmf, asef)
    end
  end.

(* memset(length, 1, sizeof length); then memset(&length[t][a], 0, b - a) per class *)
Definition class_row (as_ : nat) (c : nat * nat) : list N :=
  repeat 1 (fst c) ++ repeat 0 (snd c) ++ repeat 1 (as_ - fst c - snd c).

Definition init_lengths (as_ : nat) (cls : list (nat * nat)) : list (list N) :=
  map (class_row as_) cls ++ repeat (repeat 1 as_) (NTREES - length cls).

Definition generate_initial_trees (F : list N) (as_ : nat) (nm nt : N) : gres (list (list N)) :=
  gdo sc <- git_scan F nm 0 0;
  let '(cum, ase) := sc in
  if negb (cum =? nm) then GErr (GAssert 2)
  else
    let nt' := N.min nt ase in
    gdo r <- git_classes (N.to_nat nt') as_ F 0%nat nt' nm ase;
    let '(cls, nmf, asef) := r in
    if negb (asef =? 0) then GErr (GAssert 9)
    else if negb (nmf =? 0) then GErr (GAssert 10)
    else if (NTREES <? length cls)%nat then GErr (GOob 8)
    else GOk (init_lengths as_ cls).

(* ---- len_pack and find_best_tree -------------------------------------------------------------------------- *)
Fixpoint zip_pack (row acc : list N) : list N :=
  match row, acc with
  | l :: r, a :: c => u64 (l + N.shiftl a 10) :: zip_pack r c
  | _, _ => []
  end.

(* len_pack[v] = sum_t length[t][v] << (10 t), v < as;  len_pack[as] = 0 *)
Definition len_pack (lens : list (list N)) (as_ : nat) : list N :=
  fold_right zip_pack (repeat 0 as_) lens ++ [0].

(* cp = 0; for (i = 0; i < GROUP_SIZE; i++) cp += len_pack[gs[i]]; *)
Fixpoint sum_pack (lp : list N) (g : list N) (cp : N) : gres N :=
  match g with
  | [] => GOk cp
  | s :: r => match nth_error lp (N.to_nat s) with
              | Some x => sum_pack lp r (u64 (cp + x))
              | None => GErr (GOob 5)
              end
  end.

(* for (t = 1; t < nt; t++) { cp >>= 10; c = cp & 0x3ff; if (c < bc) bc = c, bt = t; }   [n] = nt - t *)
Fixpoint best_loop (n : nat) (t cp bc bt : N) : N :=
  match n with
  | O => bt
  | S n' => let cp' := N.shiftr cp 10 in
            let c := N.land cp' 1023 in
            if c <? bc then best_loop n' (t + 1) cp' c t else best_loop n' (t + 1) cp' bc bt
  end.

Definition find_best_tree (g : list N) (nt : nat) (lp : list N) : gres N :=
  gdo cp <- sum_pack lp g 0;
  GOk (best_loop (nt - 1) 1 cp (N.land cp 1023) 0).

(* ---- the groups ------------------------------------------------------------------------------------------- *)
Definition GS : nat := N.to_nat GROUP_SIZE.                    (* 50 *)

Fixpoint chunk (n : nat) (l : list N) : list (list N) :=
  match n with
  | O => []
  | S n' => firstn GS l :: chunk n' (skipn GS l)
  end.

Definition num_groups (nm : N) : N := (nm + GROUP_SIZE - 1) / GROUP_SIZE.

(* mtfv completed with the dummy symbol `as` up to num_selectors * GROUP_SIZE, cut into groups *)
Definition groups_of (mtfv : list N) (as_ : N) : list (list N) :=
  let nm := N.of_nat (length mtfv) in
  let ng := num_groups nm in
  chunk (N.to_nat ng) (mtfv ++ repeat as_ (N.to_nat (ng * GROUP_SIZE - nm))).

(* ---- one EM iteration ------------------------------------------------------------------------------------- *)
(* (E) for every group: t = find_best_tree(); assert(t < nt); *sp++ = t; frequency[t][gs[i]]++ *)
Fixpoint e_step (nt : nat) (lp : list N) (groups : list (list N)) (fr : list (list N))
  : gres (list N * list (list N)) :=
  match groups with
  | [] => GOk ([], fr)
  | g :: r =>
    gdo t <- find_best_tree g nt lp;
    if negb (t <? N.of_nat nt) then GErr (GAssert 11)
    else
      gdo row <- grd 6 fr (N.to_nat t);
      gdo row' <- bump_all 7 row g;
      gdo x <- e_step nt lp r (upd fr (N.to_nat t) row');
      let '(sels, fr') := x in
      GOk (t :: sels, fr')
  end.

Section WithMcl.
(* make_code_lengths(length[t], frequency[t], as): old content of length[t][0..as-1], frequency[t][0..as-1] *)
Variable mcl : list N -> list N -> gres (list N).

(* (M) for (t = 0; t < nt; t++) make_code_lengths(length[t], frequency[t], as);  [fr] has nt rows *)
Fixpoint m_step (as_ : nat) (lens fr : list (list N)) : gres (list (list N)) :=
  match fr with
  | [] => GOk lens
  | f :: fr' =>
    match lens with
    | [] => GErr (GOob 8)
    | l :: lens' =>
      gdo l' <- mcl l (firstn as_ f);
      gdo rest <- m_step as_ lens' fr';
      GOk (l' :: rest)
    end
  end.

(* state between iterations: length[][], and (selector[], frequency[][]) once written *)
Definition em_state := (list (list N) * option (list N * list (list N)))%type.

Definition em_iter (as_ nt : nat) (groups : list (list N)) (st : gres em_state) : gres em_state :=
  gdo s <- st;
  let lens := fst s in
  let lp := len_pack lens as_ in
  gdo x <- e_step nt lp groups (repeat (repeat 0 (S as_)) nt);
  let '(sels, fr) := x in
  if negb (length sels =? length groups)%nat then GErr (GAssert 12)
  else
    gdo lens' <- m_step as_ lens fr;
    GOk (lens', Some (sels, fr)).

(* ---- tree reordering --------------------------------------------------------------------------------------- *)
Record ro_st := mkro {
  ro_not_seen : N;
  ro_nt : N;                        (* the new nt *)
  ro_o2n : list (option N);         (* tmap_old2new *)
  ro_n2o : list N;                  (* tmap_new2old[0..nt-1] *)
  ro_lens : list (list N);
  ro_cost : N
}.

(* while (not_seen > 0 && (t = *sp++) < MAX_TREES) { if (not_seen & (1 << t)) { ... } }
   the list ends where the sentinel MAX_TREES stands *)
Fixpoint reorder (as_ : nat) (fr : list (list N)) (sels : list N) (s : ro_st) : gres ro_st :=
  if ro_not_seen s =? 0 then GOk s
  else match sels with
  | [] => GOk s
  | t :: r =>
    if negb (t <? MAX_TREES) then GOk s
    else if negb (N.land (ro_not_seen s) (N.shiftl 1 t) =? 0) then
      gdo o2n' <- gwr 11 (ro_o2n s) (N.to_nat t) (Some (ro_nt s));
      if negb (ro_nt s <? MAX_TREES) then GErr (GOob 10)
      else
        gdo len0 <- grd 8 (ro_lens s) (N.to_nat t);
        gdo f <- grd 6 fr (N.to_nat t);
        match assign_lengths len0 (firstn as_ f) with
        | Err e => GErr (GPm e)
        | Ok res =>
          reorder as_ fr r
            (mkro (ro_not_seen s - N.shiftl 1 t) (ro_nt s + 1) o2n' (ro_n2o s ++ [t])
                  (upd (ro_lens s) (N.to_nat t) (r_lengths res)) (u32 (ro_cost s + r_cost res)))
        end
    else reorder as_ fr r s
  end.

(* cl0 = (((0xffffaa50 >> ((as < 0x20 ? as : (as >> 4)) & 0x1e)) & 0x3) + (as < 0x20 ? 1 : 5)) *)
Definition cl0_of (as_ : N) : N :=
  N.land (N.shiftr 4294945360 (N.land (if as_ <? 32 then as_ else N.shiftr as_ 4) 30)) 3
  + (if as_ <? 32 then 1 else 5).

(* for (v = 0; v < (2 << cl0) - as; v++) length[t][v] = cl0;  for (; v < as; v++) length[t][v] = cl0 + 1; *)
Definition dummy_count (as_ : N) : N := sub32 (u32 (N.shiftl 2 (cl0_of as_))) as_.
Definition dummy_row (as_ : nat) : list N :=
  let c := cl0_of (N.of_nat as_) in
  let k := N.to_nat (dummy_count (N.of_nat as_)) in
  repeat c k ++ repeat (c + 1) (as_ - k).

Record gen_result := mkgen {
  g_num_trees : N;
  g_sels_old : list N;              (* selector[0..num_selectors-1], old numbering *)
  g_o2n : list (option N);          (* tmap_old2new *)
  g_n2o : list N;                   (* tmap_new2old[0..num_trees-1] *)
  g_sels : list N;                  (* tmap_old2new[selector[i]]: what encode()/transmit() use *)
  g_tables : list (list N);         (* length[tmap_new2old[i]][0..as-1], i < num_trees: what transmit() sends *)
  g_cost : N
}.

Fixpoint remap (o2n : list (option N)) (sels : list N) : gres (list N) :=
  match sels with
  | [] => GOk []
  | t :: r =>
    gdo c <- grd 11 o2n (N.to_nat t);
    match c with
    | None => GErr (GUnset 2)
    | Some c' => gdo r' <- remap o2n r; GOk (c' :: r')
    end
  end.

Fixpoint tables_of (lens : list (list N)) (n2o : list N) : gres (list (list N)) :=
  match n2o with
  | [] => GOk []
  | t :: r => gdo row <- grd 8 lens (N.to_nat t); gdo rest <- tables_of lens r; GOk (row :: rest)
  end.

Definition gen_prefix_code_with (cluster_factor : N) (mtfv : list N) : gres gen_result :=
  let nm := N.of_nat (length mtfv) in
  if nm <? 2 then GErr (GAssert 1)
  else
    let asN := last mtfv 0 + 1 in                 (* as = mtfv[nm - 1] + 1 *)
    let as_ := N.to_nat asN in
    let ng := num_groups nm in
    if enc_selector_size <? ng + 1 then GErr (GOob 9)       (* selector[0..ng-1] and the sentinel *)
    else
      let nt0 := choose_nt nt_thresholds nm in
      let groups := groups_of mtfv asN in
      gdo F <- sym_freq mtfv as_;
      gdo lens0 <- generate_initial_trees F as_ nm nt0;
      gdo st <- N.iter cluster_factor (em_iter as_ (N.to_nat nt0) groups) (GOk (lens0, None));
      let '(lens, sf) := st in
      match sf with
      | None => GErr (GUnset 1)
      | Some (sels, fr) =>
        gdo ro <- reorder as_ fr sels
                   (mkro (u32 (N.shiftl 1 nt0) - 1) 0 (repeat None NTREES) [] lens 0);
        if ro_nt ro <? 1 then GErr (GAssert 13)
        else
          gdo ro2 <-
            (if ro_nt ro =? 1 then
               (* the dummy second tree *)
               let t := N.lxor (hd 0 (ro_n2o ro)) 1 in
               gdo o2n' <- gwr 11 (ro_o2n ro) (N.to_nat t) (Some 1);
               if asN <? dummy_count asN then GErr (GOob 13)
               else
                 gdo lens' <- gwr 8 (ro_lens ro) (N.to_nat t) (dummy_row as_);
                 GOk (mkro (ro_not_seen ro) 2 o2n' (ro_n2o ro ++ [t]) lens'
                           (u32 (u32 (ro_cost ro + (if dummy_count asN <? asN then 2 else 0)) + asN + 5)))
             else GOk ro);
          gdo sels' <- remap (ro_o2n ro2) sels;
          gdo tabs <- tables_of (ro_lens ro2) (ro_n2o ro2);
          GOk (mkgen (ro_nt ro2) sels (ro_o2n ro2) (ro_n2o ro2) sels' tabs (ro_cost ro2))
      end.
End WithMcl.

(* ---- make_code_lengths: the exact model -------------------------------------------------------------------- *)
Definition mrd (id : N) (l : list N) (i : nat) : gres N :=
  match nth_error l i with Some x => GOk x | None => GErr (GMcl (MOob id)) end.
Definition mwr (id : N) (l : list N) (i : nat) (v : N) : gres (list N) :=
  if (i <? length l)%nat then GOk (upd l i v) else GErr (GMcl (MOob id)).

(* ((uint64_t)max(frequency[i], 1u) << 32) | 0x10000 | (MAX_ALPHA_SIZE - i) *)
Fixpoint mcl_label_from (i : N) (freq : list N) : list N :=
  match freq with
  | [] => []
  | f :: r => N.lor (N.lor (N.shiftl (N.max f 1) 32) 65536) (MAX_ALPHA_SIZE - i) :: mcl_label_from (i + 1) r
  end.

(* (weight[t] & 0xFFFF) + ((w1 + w2) & ~(uint64_t)0xFF00FFFF) + max(w1 & 0xFF000000, w2 & 0xFF000000) + 0x01000000 *)
Definition bt_weight (wt w1 w2 : N) : N :=
  u64 (N.land wt 65535 + N.land (u64 (w1 + w2)) 18446744069431296000
       + N.max (depth_field w1) (depth_field w2) + 16777216).

(* for (t = as-1; t > 0; t--) { ... }   [t] counts down; state (weight, V, r, s) *)
Fixpoint bt_loop (t : nat) (W V : list N) (r s : nat) : gres (list N * list N * nat * nat) :=
  match t with
  | O => GOk (W, V, r, s)
  | S t' =>
    gdo c1 <- (if (s <? 1)%nat then GOk true
               else if (t + 2 <? r)%nat then
                 gdo a <- mrd 1 W (r - 2); gdo b <- mrd 1 W (s - 1); GOk (a <? b)
               else GOk false);
    gdo sel <-
      (if (c1 : bool) then
         (* two internal nodes *)
         if (r <? 2)%nat then GErr (GMcl (MUnderflow 1))
         else
           gdo V1 <- mwr 4 V (r - 1) (N.of_nat t);
           gdo V2 <- mwr 4 V1 (r - 2) (N.of_nat t);
           gdo w1 <- mrd 1 W (r - 1);
           gdo w2 <- mrd 1 W (r - 2);
           GOk (V2, w1, w2, (r - 2)%nat, s)
       else
         gdo c2 <- (if (r <? t + 2)%nat then GOk true
                    else if (1 <? s)%nat then
                      gdo a <- mrd 1 W (s - 2); gdo b <- mrd 1 W (r - 1); GOk (a <=? b)
                    else GOk false);
         if (c2 : bool) then
           (* two leaves *)
           if (s <? 2)%nat then GErr (GMcl (MUnderflow 4))
           else
             gdo w1 <- mrd 1 W (s - 1);
             gdo w2 <- mrd 1 W (s - 2);
             GOk (V, w1, w2, r, (s - 2)%nat)
         else
           (* one internal node and one leaf *)
           if ((r <? 1) || (s <? 1))%nat then GErr (GMcl (MUnderflow 2))
           else
             gdo V1 <- mwr 4 V (r - 1) (N.of_nat t);
             gdo w1 <- mrd 1 W (r - 1);
             gdo w2 <- mrd 1 W (s - 1);
             GOk (V1, w1, w2, (r - 1)%nat, (s - 1)%nat));
    let '(V', w1, w2, r', s') := sel in
    gdo wt <- mrd 1 W t;
    gdo W' <- mwr 2 W t (bt_weight wt w1 w2);
    bt_loop t' W' V' r' s'
  end.

(* while (node < as && tree[tree[node]] + 1 == depth) { assert(avail > used); used++; tree[node++] = depth; }
   [fuel] = as - node *)
Fixpoint cd_inner (fuel : nat) (V : list N) (node : nat) (depth avail used : N) : gres (list N * nat * N) :=
  match fuel with
  | O => GOk (V, node, used)
  | S f =>
    gdo p <- mrd 3 V node;
    gdo dp <- mrd 3 V (N.to_nat p);
    if u32 (dp + 1) =? depth then
      if avail <=? used then GErr (GMcl (MAssert 4))
      else
        gdo V' <- mwr 4 V node depth;
        cd_inner f V' (S node) depth avail (u32 (used + 1))
    else GOk (V, node, used)
  end.

(* while (depth <= MAX_HUFF_CODE_LENGTH) { ... }   [n] = MAX_HUFF_CODE_LENGTH + 1 - depth *)
Fixpoint cd_outer (n : nat) (as_ : nat) (V count : list N) (node : nat) (depth avail : N)
  : gres (list N * N) :=
  match n with
  | O => GOk (count, avail)
  | S n' =>
    gdo x <- cd_inner (as_ - node) V node depth avail 0;
    let '(V', node', used) := x in
    gdo count' <- mwr 5 count (N.to_nat depth) (sub32 avail used);
    cd_outer n' as_ V' count' node' (depth + 1) (u32 (N.shiftl used 1))
  end.

Definition compute_depths (V : list N) (as_ : nat) : gres (list N) :=
  gdo V1 <- mwr 4 V 1 0;
  gdo c0 <- mwr 5 (repeat 0 COUNT_LEN) 0 0;
  gdo x <- cd_outer (N.to_nat MAX_HUFF_CODE_LENGTH) as_ V1 c0 2 1 2;
  let '(count, avail) := x in
  if negb (avail =? 0) then GErr (GMcl (MAssert 5)) else GOk count.

(* while (k != 0) { assert(i < as); length[MAX_ALPHA_SIZE - (weight[i] & 0xFFFF)] = d; i++; k--; }   [fuel] = as - i *)
Fixpoint gl_inner (fuel : nat) (W len : list N) (i : nat) (k d : N) : gres (list N * nat) :=
  if k =? 0 then GOk (len, i)
  else match fuel with
  | O => GErr (GMcl (MAssert 6))
  | S f =>
    gdo w <- mrd 1 W i;
    let low := N.land w 65535 in
    if MAX_ALPHA_SIZE <? low then GErr (GMcl (MUnderflow 3))
    else
      gdo len' <- mwr 6 len (N.to_nat (MAX_ALPHA_SIZE - low)) d;
      gl_inner f W len' (S i) (k - 1) d
  end.

(* for (d = 0; d <= MAX_HUFF_CODE_LENGTH; d++) { k = count[d]; c = (c + k) << 1; ... }   [n] = remaining values of d *)
Fixpoint gl_outer (n : nat) (as_ : nat) (W count len : list N) (i : nat) (c d : N) : gres (list N * nat * N) :=
  match n with
  | O => GOk (len, i, c)
  | S n' =>
    gdo k <- mrd 5 count (N.to_nat d);
    gdo x <- gl_inner (as_ - i) W len i k d;
    let '(len', i') := x in
    gl_outer n' as_ W count len' i' (u32 (N.shiftl (u32 (c + k)) 1)) (d + 1)
  end.

Definition make_code_lengths (old freq : list N) : gres (list N) :=
  let as_ := length freq in
  let asN := N.of_nat as_ in
  if (asN <? MIN_ALPHA_SIZE) || (MAX_ALPHA_SIZE <? asN) then GErr (GMcl (MAssert 1))
  else
    let W0 := sort_desc (mcl_label_from 0 freq) in
    gdo b <- bt_loop (as_ - 1) W0 (repeat 0 as_) as_ as_;
    let '(W, V, r, s) := b in
    if negb (r =? 2)%nat then GErr (GMcl (MAssert 2))
    else if negb (s =? 0)%nat then GErr (GMcl (MAssert 3))
    else
      gdo count <- compute_depths V as_;
      gdo x <- gl_outer (S (N.to_nat MAX_HUFF_CODE_LENGTH)) as_ W count old 0 0 0;
      let '(len, i, c) := x in
      if negb (c =? N.shiftl 1 (MAX_HUFF_CODE_LENGTH + 1)) then GErr (GMcl (MAssert 7))
      else if negb (i =? as_)%nat then GErr (GMcl (MAssert 8))
      else GOk len.

(* ---- the instance ------------------------------------------------------------------------------------------ *)
Definition gen_prefix_code (cluster_factor : N) (mtfv : list N) : gres gen_result :=
  gen_prefix_code_with make_code_lengths cluster_factor mtfv.
