(* Canonical prefix codes: what the encoder model writes for a symbol
   ([sym_bits]) is read back by the decoder model ([decode_sym]) as that
   symbol, consuming exactly those bits.  Only "lengths in 1..20" and
   "Kraft sum <= full" are used (see [sym_roundtrip_le]); completeness of the
   code is not needed for this direction. *)
From Coq Require Import List NArith Arith Bool Lia.
From LBZ Require Import Common.Bits Dec.Prog Dec.Sim Dec.Format Enc.EncModel.
Import ListNotations.
Local Open Scope N_scope.

(* ---- counts, first codes, index offsets -------------------------------------------------- *)
Definition cnt (lens : list N) (j : nat) : N := count_len lens (N.of_nat j).

(* FF lens n = first code of length n+1 *)
Definition FF (lens : list N) (n : nat) : N :=
  fold_left (fun acc k => 2 * (acc + count_len lens k)) (map N.of_nat (seq 1 n)) 0.

Lemma FF_S lens n : FF lens (S n) = 2 * (FF lens n + cnt lens (S n)).
Proof. unfold FF. rewrite seq_S, map_app, fold_left_app. reflexivity. Qed.

Lemma FF_mono lens k j : 2 ^ N.of_nat j * FF lens k <= FF lens (k + j).
Proof.
  induction j as [|j IH].
  - rewrite Nat.add_0_r. cbn [N.of_nat]. rewrite N.pow_0_r. lia.
  - rewrite Nat.add_succ_r, FF_S, Nat2N.inj_succ, N.pow_succ_r'.
    rewrite <- N.mul_assoc. lia.
Qed.

(* weighted number of codes of length <= n, in units of 2^-n *)
Fixpoint W (lens : list N) (n : nat) : N :=
  match lens with
  | [] => 0
  | x :: r => (if (1 <=? x) && (x <=? N.of_nat n) then 2 ^ (N.of_nat n - x) else 0) + W r n
  end.

Lemma count_len_cons x r l :
  count_len (x :: r) l = (if N.eqb l x then 1 else 0) + count_len r l.
Proof. unfold count_len. cbn [filter]. destruct (N.eqb l x); cbn [length]; lia. Qed.

Lemma W_0 lens : W lens 0 = 0.
Proof.
  induction lens as [|x r IH]; [reflexivity|]. cbn [W]. rewrite IH.
  destruct (N.leb_spec 1 x) as [H1|H1]; cbn [andb]; [|reflexivity].
  destruct (N.leb_spec x (N.of_nat 0)) as [H2|H2]; [|reflexivity].
  cbn [N.of_nat] in H2. lia.
Qed.

Lemma W_S lens n : W lens (S n) = 2 * W lens n + cnt lens (S n).
Proof.
  induction lens as [|x r IH]; [reflexivity|].
  unfold cnt in *. cbn [W]. rewrite count_len_cons, IH.
  destruct (N.leb_spec 1 x) as [H1|H1]; cbn [andb].
  - destruct (N.leb_spec x (N.of_nat n)) as [H2|H2].
    + assert (E1 : x <=? N.of_nat (S n) = true) by (apply N.leb_le; lia). rewrite E1.
      assert (E2 : N.of_nat (S n) =? x = false) by (apply N.eqb_neq; lia). rewrite E2.
      replace (N.of_nat (S n) - x) with (N.succ (N.of_nat n - x)) by lia.
      rewrite N.pow_succ_r'. lia.
    + destruct (N.eqb_spec (N.of_nat (S n)) x) as [E|E].
      * subst x. rewrite N.leb_refl, N.sub_diag, N.pow_0_r. lia.
      * assert (E1 : x <=? N.of_nat (S n) = false) by (apply N.leb_gt; lia). rewrite E1. lia.
  - assert (E2 : N.of_nat (S n) =? x = false) by (apply N.eqb_neq; lia). rewrite E2. lia.
Qed.

Lemma FF_W lens n : FF lens n = 2 * W lens n.
Proof.
  induction n as [|n IH]; [rewrite W_0; reflexivity|].
  rewrite FF_S, W_S, IH. lia.
Qed.

Fixpoint ksum (lens : list N) : N :=
  match lens with [] => 0 | x :: r => N.shiftl 1 (20 - x) + ksum r end.

Lemma kraft_ksum lens : kraft lens = ksum lens.
Proof.
  unfold kraft.
  assert (G : forall a, fold_left (fun acc l => acc + N.shiftl 1 (20 - l)) lens a = a + ksum lens).
  { induction lens as [|x r IH]; intros a; cbn [fold_left ksum]; [lia|]. rewrite IH. lia. }
  rewrite G. lia.
Qed.

Lemma W_ksum lens n : (n <= 20)%nat -> W lens n * 2 ^ (20 - N.of_nat n) <= ksum lens.
Proof.
  intros Hn. induction lens as [|x r IH]; cbn [W ksum]; [lia|].
  rewrite N.mul_add_distr_r, N.shiftl_1_l.
  destruct (N.leb_spec 1 x) as [H1|H1]; cbn [andb]; [|lia].
  destruct (N.leb_spec x (N.of_nat n)) as [H2|H2]; [|lia].
  rewrite <- N.pow_add_r. replace (N.of_nat n - x + (20 - N.of_nat n)) with (20 - x) by lia. lia.
Qed.

(* no over-subscription up to length n: first_n + count_n <= 2^n *)
Lemma W_bound lens n : (n <= 20)%nat -> kraft lens <= kraft_full -> W lens n <= 2 ^ N.of_nat n.
Proof.
  intros Hn HK. pose proof (W_ksum lens n Hn) as H. rewrite <- kraft_ksum in H.
  unfold kraft_full in HK. rewrite N.shiftl_1_l in HK.
  assert (E : 2 ^ 20 = 2 ^ N.of_nat n * 2 ^ (20 - N.of_nat n)).
  { rewrite <- N.pow_add_r. f_equal. lia. }
  rewrite E in HK.
  assert (P : 0 < 2 ^ (20 - N.of_nat n)) by (apply N.neq_0_lt_0, N.pow_nonzero; discriminate).
  apply N.mul_le_mono_pos_r with (p := 2 ^ (20 - N.of_nat n)); [exact P|]. lia.
Qed.

(* ---- the sorted symbol list ---------------------------------------------------------------- *)
Lemma filter_combine_length (f : N -> bool) (lens : list N) : forall a,
  length (filter (fun p : nat * N => f (snd p)) (combine (seq a (length lens)) lens)) = length (filter f lens).
Proof.
  induction lens as [|x r IH]; intros a; [reflexivity|].
  cbn [length seq combine filter snd]. destruct (f x); cbn [length]; rewrite IH; reflexivity.
Qed.

Lemma syms_of_len_length lens l : N.of_nat (length (syms_of_len lens l)) = count_len lens l.
Proof. unfold syms_of_len, count_len. rewrite map_length, filter_combine_length. reflexivity. Qed.

Definition IDX (lens : list N) (k : nat) : N :=
  N.of_nat (length (flat_map (syms_of_len lens) (map N.of_nat (seq 1 k)))).

Lemma IDX_S lens k : IDX lens (S k) = IDX lens k + cnt lens (S k).
Proof.
  unfold IDX, cnt. rewrite seq_S, map_app, flat_map_app, app_length.
  cbn [map flat_map]. rewrite app_nil_r, Nat2N.inj_add, syms_of_len_length. reflexivity.
Qed.

Lemma nth_syms (lens : list N) : forall a s l, (s < length lens)%nat -> nth s lens 0 = l ->
  nth (length (filter (N.eqb l) (firstn s lens)))
      (map (fun p : nat * N => N.of_nat (fst p))
           (filter (fun p : nat * N => N.eqb l (snd p)) (combine (seq a (length lens)) lens))) 0
  = N.of_nat (a + s).
Proof.
  induction lens as [|x r IH]; intros a s l Hs Hl; [cbn [length] in Hs; lia|].
  destruct s as [|s].
  - cbn [nth] in Hl. subst x. cbn [firstn filter length seq combine snd].
    rewrite N.eqb_refl. cbn [map nth fst]. rewrite Nat.add_0_r. reflexivity.
  - cbn [nth] in Hl. cbn [length] in Hs.
    cbn [firstn filter length seq combine snd].
    replace (a + S s)%nat with (S a + s)%nat by lia.
    destruct (N.eqb l x); cbn [length map nth]; apply IH; try lia; exact Hl.
Qed.

Lemma rank_lt (f : N -> bool) (lens : list N) : forall s, (s < length lens)%nat ->
  f (nth s lens 0) = true ->
  (length (filter f (firstn s lens)) < length (filter f lens))%nat.
Proof.
  induction lens as [|x r IH]; intros s Hs Hf; [cbn [length] in Hs; lia|].
  destruct s as [|s].
  - cbn [nth] in Hf. cbn [firstn filter]. rewrite Hf. cbn [length]. lia.
  - cbn [nth] in Hf. cbn [length] in Hs. cbn [firstn filter].
    assert (H := IH s ltac:(lia) Hf).
    destruct (f x); cbn [length]; lia.
Qed.

Lemma seq_split ln : (1 <= ln <= 20)%nat ->
  seq 1 20 = seq 1 (ln - 1) ++ [ln] ++ seq (S ln) (20 - ln).
Proof.
  intros H. transitivity (seq 1 ((ln - 1) + S (20 - ln))); [f_equal; lia|].
  rewrite seq_app. cbn [seq app]. replace (1 + (ln - 1))%nat with ln by lia. reflexivity.
Qed.

Lemma sorted_nth lens s : (s < length lens)%nat ->
  let l := nth s lens 0 in
  (1 <= N.to_nat l <= 20)%nat ->
  nth (N.to_nat (IDX lens (N.to_nat l - 1) + N.of_nat (length (filter (N.eqb l) (firstn s lens)))))
      (sorted_syms lens) 0 = N.of_nat s.
Proof.
  intros Hs l Hl. unfold sorted_syms, len_range, max_len, IDX.
  rewrite (seq_split (N.to_nat l) Hl), !map_app, !flat_map_app.
  rewrite <- Nat2N.inj_add, Nat2N.id, app_nth2_plus.
  cbn [map flat_map]. rewrite app_nil_r, N2Nat.id.
  rewrite app_nth1.
  - unfold syms_of_len. apply (nth_syms lens 0%nat s l Hs eq_refl).
  - pose proof (syms_of_len_length lens l) as E. unfold count_len in E.
    pose proof (rank_lt (N.eqb l) lens s Hs (N.eqb_refl _)) as R. lia.
Qed.

(* ---- bits ------------------------------------------------------------------------------------ *)
Lemma shiftr_step C m :
  N.shiftr C (N.of_nat m) =
  2 * N.shiftr C (N.of_nat (S m)) + (if N.testbit C (N.of_nat m) then 1 else 0).
Proof.
  rewrite Nat2N.inj_succ, <- N.add_1_r, <- N.shiftr_shiftr, <- N.div2_spec.
  set (D := N.shiftr C (N.of_nat m)).
  assert (E : N.testbit C (N.of_nat m) = N.odd D).
  { unfold D. rewrite <- N.bit0_odd, N.shiftr_spec'. reflexivity. }
  rewrite E. rewrite (N.div2_odd D) at 1. destruct (N.odd D); reflexivity.
Qed.

(* ---- the decoder loop ------------------------------------------------------------------------ *)
Lemma dsym_run lens sorted C ln rest :
  (ln <= 20)%nat ->
  FF lens (ln - 1) <= C < FF lens (ln - 1) + cnt lens ln ->
  forall m k, (k + m = ln)%nat -> (1 <= m)%nat ->
  run (dsym (map (cnt lens) (seq (S k) (20 - k))) sorted
            (2 * N.shiftr C (N.of_nat m)) (FF lens k) (IDX lens k))
      (bits_msb m C ++ rest)
  = Ok (nth (N.to_nat (IDX lens (ln - 1) + (C - FF lens (ln - 1)))) sorted 0, rest).
Proof.
  intros Hln HC. induction m as [|m IH]; intros k Hk Hm; [lia|].
  replace (20 - k)%nat with (S (19 - k)) by lia.
  cbn [seq map dsym bits_msb app run].
  rewrite <- shiftr_step.
  destruct m as [|m'].
  - cbn [N.of_nat]. rewrite N.shiftr_0_r.
    replace (ln - 1)%nat with k in * by lia. replace ln with (S k) in HC by lia.
    assert (E : C <? FF lens k + cnt lens (S k) = true) by (apply N.ltb_lt; lia).
    rewrite E. cbn [run bits_msb app]. reflexivity.
  - assert (E : N.shiftr C (N.of_nat (S m')) <? FF lens k + cnt lens (S k) = false).
    { apply N.ltb_ge. rewrite N.shiftr_div_pow2.
      apply N.div_le_lower_bound; [apply N.pow_nonzero; discriminate|].
      pose proof (FF_mono lens (S k) m') as M.
      replace (S k + m')%nat with (ln - 1)%nat in M by lia.
      rewrite FF_S in M. rewrite Nat2N.inj_succ, N.pow_succ_r'.
      rewrite N.mul_assoc, (N.mul_comm (2 ^ N.of_nat m') 2) in M. lia. }
    rewrite E.
    replace (2 * (FF lens k + cnt lens (S k))) with (FF lens (S k)) by (rewrite FF_S; reflexivity).
    rewrite <- IDX_S.
    replace (19 - k)%nat with (20 - S k)%nat by lia.
    apply IH; lia.
Qed.

Lemma counts_cnt lens : counts lens = map (cnt lens) (seq 1 20).
Proof. unfold counts, len_range, max_len. rewrite map_map. reflexivity. Qed.

(* ---- one symbol -------------------------------------------------------------------------------- *)
Theorem sym_roundtrip_le : forall (lens : list N) (s : N) (rest : list bool),
  forallb (fun l => (1 <=? l) && (l <=? 20)) lens = true -> kraft lens <= kraft_full ->
  (N.to_nat s < length lens)%nat ->
  run (decode_sym lens) (sym_bits lens s ++ rest) = Ok (s, rest).
Proof.
  intros lens s rest Hr HK Hs.
  set (sn := N.to_nat s) in *.
  set (l := nth sn lens 0).
  assert (Hl : 1 <= l <= 20).
  { rewrite forallb_forall in Hr. specialize (Hr l (nth_In lens 0 Hs)).
    apply andb_true_iff in Hr as [A B]. apply N.leb_le in A, B. lia. }
  set (ln := N.to_nat l).
  assert (Hln : (1 <= ln <= 20)%nat) by (unfold ln; lia).
  set (rk := N.of_nat (length (filter (N.eqb l) (firstn sn lens)))).
  assert (Hrk : rk < cnt lens ln).
  { unfold rk, cnt, ln. rewrite N2Nat.id. unfold count_len.
    pose proof (rank_lt (N.eqb l) lens sn Hs (N.eqb_refl _)) as R. lia. }
  assert (EC : code_of lens sn = FF lens (ln - 1) + rk) by reflexivity.
  set (C := code_of lens sn) in *.
  assert (HC2 : C < 2 ^ N.of_nat ln).
  { pose proof (W_bound lens ln ltac:(lia) HK) as B.
    replace ln with (S (ln - 1)) in B at 1 by lia. rewrite W_S in B.
    replace (S (ln - 1)) with ln in B by lia.
    rewrite FF_W in EC. lia. }
  unfold decode_sym, sym_bits. fold sn. fold l. fold ln. fold C.
  rewrite counts_cnt.
  pose proof (dsym_run lens (sorted_syms lens) C ln rest ltac:(lia) ltac:(lia) ln 0%nat
                ltac:(lia) ltac:(lia)) as R.
  assert (Z : N.shiftr C (N.of_nat ln) = 0).
  { rewrite N.shiftr_div_pow2. apply N.div_small. exact HC2. }
  rewrite Z in R. cbn [N.mul] in R.
  change (FF lens 0) with 0 in R. change (IDX lens 0) with 0 in R.
  change (20 - 0)%nat with 20%nat in R.
  rewrite R. f_equal. f_equal.
  replace (C - FF lens (ln - 1)) with rk by lia.
  unfold rk, ln, l. rewrite sorted_nth; [apply N2Nat.id|exact Hs|exact Hln].
Qed.

Theorem sym_roundtrip : forall (alpha : nat) (lens : list N) (s : N) (rest : list bool),
  table_ok alpha lens = true -> (N.to_nat s < alpha)%nat ->
  run (decode_sym lens) (sym_bits lens s ++ rest) = Ok (s, rest).
Proof.
  intros alpha lens s rest Hok Hs. unfold table_ok in Hok.
  apply andb_true_iff in Hok as [Hok HK]. apply andb_true_iff in Hok as [HL HR].
  apply Nat.eqb_eq in HL. apply N.eqb_eq in HK.
  apply sym_roundtrip_le; [exact HR|lia|lia].
Qed.

(* ---- sequences of symbols ---------------------------------------------------------------------- *)
Lemma syms_roundtrip : forall alpha lens syms rest,
  table_ok alpha lens = true -> Forall (fun s => (N.to_nat s < alpha)%nat) syms ->
  run (repeat_prog (length syms) (decode_sym lens)) (flat_map (sym_bits lens) syms ++ rest)
  = Ok (syms, rest).
Proof.
  intros alpha lens syms rest Hok. induction syms as [|a r IH]; intros HF; [reflexivity|].
  inversion HF as [|? ? Ha Hr]; subst.
  cbn [length repeat_prog flat_map]. rewrite <- app_assoc, run_bind.
  rewrite (sym_roundtrip alpha lens a _ Hok Ha), run_bind, (IH Hr). reflexivity.
Qed.

(* a group that ends with the end-of-block symbol before its size limit *)
Lemma read_group_eob : forall alpha lens eob syms rest n,
  table_ok alpha lens = true -> (N.to_nat eob < alpha)%nat ->
  Forall (fun s => (N.to_nat s < alpha)%nat) syms -> Forall (fun s => s <> eob) syms ->
  (length syms < n)%nat ->
  run (read_group lens eob n) (flat_map (sym_bits lens) (syms ++ [eob]) ++ rest)
  = Ok ((syms, true), rest).
Proof.
  intros alpha lens eob syms rest n Hok He. revert n.
  induction syms as [|a r IH]; intros n HF HN Hn.
  - destruct n as [|n]; [cbn [length] in Hn; lia|].
    cbn [app flat_map read_group]. rewrite app_nil_r, run_bind.
    rewrite (sym_roundtrip alpha lens eob _ Hok He), N.eqb_refl. reflexivity.
  - destruct n as [|n]; [cbn [length] in Hn; lia|].
    inversion HF as [|? ? Ha Hr]; subst. inversion HN as [|? ? Na Nr]; subst.
    cbn [length] in Hn.
    cbn [app flat_map read_group]. rewrite <- app_assoc, run_bind.
    rewrite (sym_roundtrip alpha lens a _ Hok Ha).
    apply N.eqb_neq in Na. rewrite Na, run_bind.
    rewrite (IH n Hr Nr ltac:(lia)). reflexivity.
Qed.

(* a full group: exactly n symbols, none of them end-of-block *)
Lemma read_group_full : forall alpha lens eob syms rest,
  table_ok alpha lens = true ->
  Forall (fun s => (N.to_nat s < alpha)%nat) syms -> Forall (fun s => s <> eob) syms ->
  run (read_group lens eob (length syms)) (flat_map (sym_bits lens) syms ++ rest)
  = Ok ((syms, false), rest).
Proof.
  intros alpha lens eob syms rest Hok.
  induction syms as [|a r IH]; intros HF HN; [reflexivity|].
  inversion HF as [|? ? Ha Hr]; subst. inversion HN as [|? ? Na Nr]; subst.
  cbn [length flat_map read_group]. rewrite <- app_assoc, run_bind.
  rewrite (sym_roundtrip alpha lens a _ Hok Ha).
  apply N.eqb_neq in Na. rewrite Na, run_bind.
  rewrite (IH Hr Nr). reflexivity.
Qed.

Print Assumptions sym_roundtrip.
Print Assumptions syms_roundtrip.
Print Assumptions read_group_eob.
Print Assumptions read_group_full.
