(* Small facts about the encoder-side model used by the Properties files. *)
From Coq Require Import List NArith Arith Bool Lia.
From LBZ Require Import Common.Bits Dec.Prog Dec.Format Enc.EncModel Gen.Consts.
Import ListNotations.
Local Open Scope N_scope.

Lemma table_ok_spec alpha lens : table_ok alpha lens = true ->
  length lens = alpha /\ Forall (fun l => 1 <= l <= 20) lens /\ kraft lens = kraft_full.
Proof.
  unfold table_ok. intro H. apply andb_true_iff in H as [H H3]. apply andb_true_iff in H as [H1 H2].
  split; [apply Nat.eqb_eq; exact H1|]. split; [|apply N.eqb_eq; exact H3].
  rewrite forallb_forall in H2. apply Forall_forall. intros l Hl. specialize (H2 l Hl).
  apply andb_true_iff in H2 as [A B]. apply N.leb_le in A. apply N.leb_le in B. lia.
Qed.

(* what witness_ok says about the strict-format items of property C02 *)
Lemma witness_ok_spec M w : witness_ok M w = true ->
  w_blk w <> [] /\ N.of_nat (length (w_blk w)) <= M /\
  valid_idx (w_blk w) (w_idx w) /\
  (2 <= length (w_tables w) <= 6)%nat /\
  Forall (fun lens => Forall (fun l => 1 <= l <= 20) lens /\ kraft lens = kraft_full) (w_tables w) /\
  Forall (fun s => s < N.of_nat (length (w_tables w))) (w_sels w) /\
  N.of_nat (length (w_sels w)) + (if w_extra_sel w then 1 else 0) <= 18002 /\
  w_pad w <= 3.
Proof.
  unfold witness_ok. intro H.
  repeat match goal with H : (_ && _)%bool = true |- _ => apply andb_true_iff in H as [H ?] end.
  repeat split.
  - intro E. rewrite E in H. discriminate.
  - apply N.leb_le. assumption.
  - unfold valid_idxb in *. unfold valid_idx.
    match goal with X : (match nth_error _ _ with _ => _ end) = true |- _ => rename X into V end.
    destruct (nth_error (sorted_rots (w_blk w)) (N.to_nat (w_idx w))) as [r|]; [|discriminate].
    destruct (list_eq_dec N.eq_dec r (w_blk w)); [subst; reflexivity|discriminate].
  - apply Nat.leb_le. assumption.
  - apply Nat.leb_le. assumption.
  - match goal with X : forallb (table_ok _) _ = true |- _ => rename X into T end.
    rewrite forallb_forall in T. apply Forall_forall. intros lens Hl. specialize (T lens Hl).
    apply table_ok_spec in T. tauto.
  - match goal with X : forallb (fun s => s <? _) (w_sels w) = true |- _ => rename X into S end.
    rewrite forallb_forall in S. apply Forall_forall. intros s Hs. apply N.ltb_lt. apply S. exact Hs.
  - match goal with X : (_ <=? enc_selector_size) = true |- _ => rename X into E end.
    apply N.leb_le in E.
    match goal with X : (length (w_sels w) =? _)%nat = true |- _ => apply Nat.eqb_eq in X; rewrite X end.
    assert (enc_selector_size = 18002) by reflexivity. lia.
  - apply N.leb_le. assumption.
Qed.

Lemma header_rand_facts level ws :
  firstn 32 (write_stream level ws) = put 24 0x425A68 ++ put 8 (0x30 + level) /\
  forall w, firstn 1 (write_body w) = [false].
Proof.
  split.
  - unfold write_stream. rewrite app_assoc. rewrite firstn_app.
    assert (L : length (put 24 4348520 ++ put 8 (48 + level)) = 32%nat)
      by (rewrite app_length; unfold put; rewrite !bits_msb_length; reflexivity).
    rewrite L. rewrite Nat.sub_diag. simpl firstn at 2. rewrite app_nil_r. rewrite <- L at 1. apply firstn_all.
  - intro w. reflexivity.
Qed.
