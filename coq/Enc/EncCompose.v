(* Corollaries combining the block/stream round trips for the Properties files. *)
From Coq Require Import List NArith Arith Bool Lia.
From LBZ Require Rle.RleModel.
From LBZ Require Import Common.Bits Dec.Prog Dec.Format Dec.Policies Dec.DecProofs Dec.CrcProofs
  Enc.EncModel Enc.BlockProofs Enc.StreamProofs.
Import ListNotations.
Local Open Scope N_scope.

Lemma block_roundtrip_both M level w x fuel rest :
  1 <= level <= 9 -> M = 100000 * level -> witness_ok M w = true -> (64 <= fuel)%nat ->
  Forall (fun c => c < 256) x -> x <> [] -> w_blk w = RleModel.rle1 x ->
  run (read_block ref_noexc_policy fuel) (write_body w ++ rest) = Ok (raw_of w, rest) /\
  decode_block ref_noexc_policy level (raw_of w) = Ok x.
Proof.
  intros Hl HM Hw Hf Hx Hne Hb. split.
  - apply (body_roundtrip M); auto. subst M. lia.
  - eapply block_decodes; eauto.
Qed.

Lemma stream_strict_both level (ws : list witness) (xs : list (list N)) :
  1 <= level <= 9 ->
  Forall2 (fun w x => witness_ok (100000 * level) w = true /\ Forall (fun c => c < 256) x /\ x <> [] /\
                      w_blk w = RleModel.rle1 x /\ w_crc w = N.lxor (crc_bytes mask32 x) mask32) ws xs ->
  ref_noexc_decode (bytes_of_bits (pad_to_byte (write_stream level ws))) = Ok (concat xs) /\
  ref_decode (bytes_of_bits (pad_to_byte (write_stream level ws))) = Ok (concat xs).
Proof.
  intros Hl H. pose proof (stream_roundtrip level ws xs Hl H) as R. split; [exact R|]. apply noexc_sound. exact R.
Qed.
