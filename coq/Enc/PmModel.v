(* C20 - executable model of the length-limited prefix-code construction of src/encode.c:
     sort_alphabet()  (l.553)   insertion sort, descending
     weight_add()     (l.652)   macro on packed 64-bit weights
     package_merge()  (l.660)   lazy ("boundary") Package-Merge for all heights 1..MAX_CODE_LENGTH at once
     assign_codes()   (l.882)   up to the point where length[] is final (the canonical code values
                                 code[] = base_code[length]++ are NOT modelled here; see Enc/EncModel.v)

   Conventions.  Data are N, indices/depths/fuel are nat.  Every C array is a list whose length is the
   number of entries the C code may legally touch:
     leaf_weight : as+1 entries (the C array has MAX_ALPHA_SIZE+1; the model bound is the tighter one)
     tree        : (MAX_CODE_LENGTH+1) rows of (MAX_CODE_LENGTH+1) entries (uint16_t, no wrap modelled:
                   PmProofs shows every entry is <= as)
     pkg_weight, prev_weight, curr_weight : MAX_CODE_LENGTH+1 entries (uint64_t, arithmetic mod 2^64)
     count       : MAX_HUFF_CODE_LENGTH+2 entries (the explicit stack of package_merge)
     length      : as entries (the C array has MAX_ALPHA_SIZE+1)
   Every access goes through a bounds-checked accessor; a miss is the value Err (Oob..).  Unsigned
   subtractions that would wrap in C and then be used as an index or loop count (as - tree[depth][0],
   depth - 1, tree[h][d-1] - tree[h][d], MAX_ALPHA_SIZE - (w & 0xFFFF)) are checked: a wrap is
   Err (Underflow ..).  The two assert()s of assign_codes are checked (Err (AssertFail ..)).
   The inner `for (;;)` of package_merge runs on binary fuel: [iter2 k] performs at most 2^k
   iterations, running out is Err OutOfFuel.

   What is abstracted: (1) the initial content of length[] (whatever the caller left there) is a
   parameter [len0] of [assign_lengths]; [pm_lengths] instantiates it with zeros.  (2) frequency[] entries
   are uint32_t: the model takes arbitrary N and the theorems assume < 2^32.  (3) uint32_t `cost`
   arithmetic is mod 2^32 as in C; the (int) casts in the transmission cost are exact because
   length[] entries are <= 20.  No proofs in this file. *)
From Coq Require Import List NArith Arith Bool.
From LBZ Require Import Gen.Consts.
Import ListNotations.
Local Open Scope N_scope.

Inductive pm_arr := ALeaf | ATree | ARow | APkg | APrev | ACurr | ACount | ALength | AFreq.

Inductive pm_err :=
| OobRead (a : pm_arr)
| OobWrite (a : pm_arr)
| Underflow (id : N)     (* 1: depth-1, 2: as - tree[depth][0], 3: tree[h][d-1]-tree[h][d], 4: MAX_ALPHA_SIZE-(w&0xFFFF), 5: as-1/as-2 *)
| AssertFail (id : N)    (* 1: leaf < as, 2: next_code == 1 << (best_height+1), 3: leaf == as *)
| OutOfFuel.

Inductive res (A : Type) := Ok (a : A) | Err (e : pm_err).
Arguments Ok {A} a.
Arguments Err {A} e.

Definition bind {A B} (x : res A) (f : A -> res B) : res B :=
  match x with Ok a => f a | Err e => Err e end.
Notation "'do' x <- e ; f" := (bind e (fun x => f)) (at level 200, x pattern, e at level 100, f at level 200).

(* ---- checked array accessors ------------------------------------------------------------------ *)
Definition rd {A} (a : pm_arr) (l : list A) (i : nat) : res A :=
  match nth_error l i with Some x => Ok x | None => Err (OobRead a) end.

Fixpoint upd {A} (l : list A) (i : nat) (v : A) : list A :=
  match l, i with
  | [], _ => []
  | _ :: r, O => v :: r
  | x :: r, S j => x :: upd r j v
  end.

Definition wr {A} (a : pm_arr) (l : list A) (i : nat) (v : A) : res (list A) :=
  if (i <? length l)%nat then Ok (upd l i v) else Err (OobWrite a).

(* ---- constants ---------------------------------------------------------------------------------- *)
Definition MCL : nat := N.to_nat MAX_CODE_LENGTH.              (* 20 *)
Definition COUNT_LEN : nat := N.to_nat (MAX_HUFF_CODE_LENGTH + 2).
Definition U64 : N := 18446744073709551616.                     (* 2^64 *)
Definition U32 : N := 4294967296.                               (* 2^32 *)
Definition MAXW : N := 18446744073709551615.                    (* (uint64_t)-1 = 2^64 - 1 = N.ones 64 *)
Definition MAX32 : N := 4294967295.                             (* 2^32 - 1 = N.ones 32 *)

(* ---- weights ------------------------------------------------------------------------------------ *)
(* ((uint64_t)frequency[leaf] << 32) | 0x10000 | (MAX_ALPHA_SIZE - leaf) *)
Definition leaf_label (f : N) (leaf : N) : N :=
  N.lor (N.lor (N.shiftl f 32) 65536) (MAX_ALPHA_SIZE - leaf).

(* w & 0xFF000000 *)
Definition depth_field (w : N) : N := N.land w 4278190080.

(* ((w1 + w2) & ~0xFFFFFFFF) + max(w1 & 0xFF000000, w2 & 0xFF000000) + 0x01000000, in uint64_t *)
Definition weight_add (w1 w2 : N) : N :=
  N.land (N.shiftl (N.shiftr (N.land (w1 + w2) MAXW) 32) 32 + N.max (depth_field w1) (depth_field w2) + 16777216) MAXW.

(* ---- sort_alphabet: insertion sort, descending ------------------------------------------------- *)
(* [insert_desc t l]: l is the already sorted (descending) part; the C loop moves t to the left past
   every element strictly smaller than t.  On a descending l this is: put t in front of the first x < t. *)
Fixpoint insert_desc (t : N) (l : list N) : list N :=
  match l with
  | [] => [t]
  | x :: r => if x <? t then t :: x :: r else x :: insert_desc t r
  end.

Definition sort_desc (l : list N) : list N := fold_left (fun acc t => insert_desc t acc) l [].

Fixpoint label_from (leaf : N) (freq : list N) : list N :=
  match freq with [] => [] | f :: r => leaf_label f leaf :: label_from (leaf + 1) r end.

(* leaf_weight[0..as] as assign_codes hands it to package_merge *)
Definition make_leaf_weight (freq : list N) : list N := MAXW :: sort_desc (label_from 0 freq).

(* ---- package_merge ------------------------------------------------------------------------------ *)
Record pm_st := mkst {
  tree : list (list N);
  pkgw : list N;
  prevw : list N;
  currw : list N;
  cnt : list N
}.

Definition zero_tree : list (list N) := repeat (repeat 0 (S MCL)) (S MCL).

Definition rd2 (t : list (list N)) (i j : nat) : res N :=
  do row <- rd ATree t i; rd ARow row j.

Definition wr2 (t : list (list N)) (i j : nat) (v : N) : res (list (list N)) :=
  do row <- rd ATree t i; do row' <- wr ARow row j v; wr ATree t i row'.

(* memcpy(&tree[depth][1], &tree[depth-1][0], MAX_CODE_LENGTH * sizeof(uint16_t)) *)
Definition copy_row (t : list (list N)) (depth d1 : nat) : res (list (list N)) :=
  do src <- rd ATree t d1;
  do dst <- rd ATree t depth;
  if (MCL <=? length src)%nat then
    match dst with
    | [] => Err (OobWrite ARow)
    | x :: tl => if (MCL <=? length tl)%nat
                 then wr ATree t depth (x :: firstn MCL src ++ skipn MCL tl)
                 else Err (OobWrite ARow)
    end
  else Err (OobRead ARow).

(* first loop: for (depth = 1; depth <= MAX_CODE_LENGTH; depth++) { ... } *)
Fixpoint pm_init_loop (n : nat) (depth : nat) (lw : list N) (as_ : nat) (s : pm_st) : res pm_st :=
  match n with
  | O => Ok s
  | S n' =>
    match as_ with
    | S (S as2) =>
      do t' <- wr2 (tree s) depth 0 2;
      do wa <- rd ALeaf lw as_;
      do wb <- rd ALeaf lw (S as2);
      do wc <- rd ALeaf lw as2;
      do p' <- wr APkg (pkgw s) depth (weight_add wa wb);
      do v' <- wr APrev (prevw s) depth wb;
      do c' <- wr ACurr (currw s) depth wc;
      pm_init_loop n' (S depth) lw as_ (mkst t' p' v' c' (cnt s))
    | _ => Err (Underflow 5)
    end
  end.

Definition pm_init (lw : list N) (as_ : nat) (t0 : list (list N)) : res pm_st :=
  let z := repeat 0 (S MCL) in
  do p0 <- wr APkg z 0 MAXW;                        (* pkg_weight[0] = -1 *)
  pm_init_loop MCL 1 lw as_ (mkst t0 p0 z z (repeat 0 COUNT_LEN)).

(* loop state of the inner for(;;): (arrays, depth, next_depth) *)
Definition pm_loop := (pm_st * nat * nat)%type.

(* the tail of the loop body: if (next_depth == 0) break; next_depth--; depth = count[next_depth]; *)
Definition pm_pop (s : pm_st) (nd : nat) : res (pm_loop + pm_st) :=
  match nd with
  | O => Ok (inr s)
  | S nd' => do d <- rd ACount (cnt s) nd'; Ok (inl (s, N.to_nat d, nd'))
  end.

Definition set_cnt (s : pm_st) (c : list N) : pm_st := mkst (tree s) (pkgw s) (prevw s) (currw s) c.

(* the `if (likely(depth != 1)) { memcpy; pkg_weight[depth] = ...; prev_weight[depth] = ...; }` part *)
Definition pm_take_pkg (s : pm_st) (depth d1 : nat) (pw : N) : res pm_st :=
  do t' <- copy_row (tree s) depth d1;
  do vw <- rd APrev (prevw s) depth;
  do p' <- wr APkg (pkgw s) depth (weight_add vw pw);
  do v' <- wr APrev (prevw s) depth pw;
  Ok (mkst t' p' v' (currw s) (cnt s)).

(* the else part: tree[depth][0]++; pkg_weight[depth] = ...; prev_weight[depth] = ...; curr_weight[depth] = ... *)
Definition pm_take_leaf (lw : list N) (as_ : N) (s : pm_st) (depth : nat) (cw : N) : res pm_st :=
  do t0 <- rd2 (tree s) depth 0;
  do t' <- wr2 (tree s) depth 0 (t0 + 1);
  do vw <- rd APrev (prevw s) depth;
  do p' <- wr APkg (pkgw s) depth (weight_add vw cw);
  do v' <- wr APrev (prevw s) depth cw;
  if t0 + 1 <=? as_ then
    do nw <- rd ALeaf lw (N.to_nat (as_ - (t0 + 1)));
    do c' <- wr ACurr (currw s) depth nw;
    Ok (mkst t' p' v' c' (cnt s))
  else Err (Underflow 2).

(* one iteration of the inner for(;;) *)
Definition pm_iter (lw : list N) (as_ : N) (x : pm_loop) : res (pm_loop + pm_st) :=
  let '(s, depth, nd) := x in
  match depth with
  | O => Err (Underflow 1)
  | S d1 =>
    do pw <- rd APkg (pkgw s) d1;
    do cw <- rd ACurr (currw s) depth;
    if pw <=? cw then
      match d1 with
      | O => pm_pop s nd                                           (* depth == 1: nothing happens *)
      | S _ =>
        do s1 <- pm_take_pkg s depth d1 pw;
        do c' <- wr ACount (cnt s1) nd (N.of_nat d1);              (* count[next_depth++] = depth (after depth--) *)
        Ok (inl (set_cnt s1 c', d1, S nd))
      end
    else
      do s1 <- pm_take_leaf lw as_ s depth cw;
      pm_pop s1 nd
  end.

(* at most 2^k iterations of a step function *)
Fixpoint iter2 {X R} (k : nat) (f : X -> res (X + R)) (x : X) : res (X + R) :=
  match k with
  | O => f x
  | S k' => match iter2 k' f x with
            | Ok (inl x') => iter2 k' f x'
            | r => r
            end
  end.

Definition PM_FUEL : nat := S (S MCL).     (* 2^22 iterations per value of width; 2^21 - 2 are enough *)

(* body of: for (width = 2; width < as; width++) *)
Definition pm_width (lw : list N) (as_ : N) (s : pm_st) : res pm_st :=
  do c' <- wr ACount (cnt s) 0 MAX_CODE_LENGTH;                   (* count[0] = MAX_CODE_LENGTH *)
  match iter2 PM_FUEL (pm_iter lw as_) (set_cnt s c', MCL, 1%nat) with
  | Ok (inr s') => Ok s'
  | Ok (inl _) => Err OutOfFuel
  | Err e => Err e
  end.

Fixpoint pm_widths (n : nat) (lw : list N) (as_ : N) (s : pm_st) : res pm_st :=
  match n with
  | O => Ok s
  | S n' => do s' <- pm_width lw as_ s; pm_widths n' lw as_ s'
  end.

(* package_merge(tree, count, leaf_weight, as) on a zeroed tree; returns the final arrays *)
Definition package_merge (lw : list N) (as_ : nat) : res pm_st :=
  do s0 <- pm_init lw as_ zero_tree;
  pm_widths (as_ - 2) lw (N.of_nat as_) s0.

(* ---- assign_codes -------------------------------------------------------------------------------- *)
(* for (avail = tree[h][depth-1] - tree[h][depth]; avail > 0; avail--) { assert(leaf < as); ... leaf++ }
   returns (length[], cost, leaf) *)
Fixpoint give_lengths (avail : nat) (lw : list N) (as_ : nat) (depth : N) (len : list N) (cost : N) (leaf : nat)
  : res (list N * N * nat) :=
  match avail with
  | O => Ok (len, cost, leaf)
  | S a' =>
    if (leaf <? as_)%nat then
      do w <- rd ALeaf lw (S leaf);
      let low := N.land w 65535 in
      if low <=? MAX_ALPHA_SIZE then
        do len' <- wr ALength len (N.to_nat (MAX_ALPHA_SIZE - low)) depth;
        give_lengths a' lw as_ depth len' (N.land (cost + N.land (N.shiftr w 32) MAX32 * depth) MAX32) (S leaf)
      else Err (Underflow 4)
    else Err (AssertFail 1)
  end.

(* for (depth = 1; depth <= height; depth++) ...   (n = number of depths still to do) *)
Fixpoint per_depth (n : nat) (depth : nat) (row : list N) (lw : list N) (as_ : nat) (len : list N) (cost : N) (leaf : nat)
  : res (list N * N * nat) :=
  match n with
  | O => Ok (len, cost, leaf)
  | S n' =>
    match depth with
    | O => Err (Underflow 1)
    | S d1 =>
      do hi <- rd ARow row d1;
      do lo <- rd ARow row depth;
      if lo <=? hi then
        do r <- give_lengths (N.to_nat (hi - lo)) lw as_ (N.of_nat depth) len cost leaf;
        let '(len', cost', leaf') := r in
        per_depth n' (S depth) row lw as_ len' cost' leaf'
      else Err (Underflow 3)
    end
  end.

(* for (symbol = 1; symbol < as; symbol++) cost += 2 * |length[symbol-1] - length[symbol]| *)
Fixpoint delta_cost (len : list N) (cost : N) : N :=
  match len with
  | a :: ((b :: _) as r) => delta_cost r (N.land (cost + 2 * (N.max a b - N.min a b)) MAX32)
  | _ => cost
  end.

Definition height_cost (height : nat) (row : list N) (lw : list N) (as_ : nat) (len : list N)
  : res (list N * N * nat) :=
  do r <- per_depth height 1 row lw as_ len 0 0%nat;
  let '(len', cost, leaf) := r in
  Ok (len', N.land (delta_cost len' cost + 5 + N.of_nat as_) MAX32, leaf).

(* for (height = 2; height <= MAX_CODE_LENGTH; height++) { ... }   state: (length[], best_cost, best_height) *)
Fixpoint heights_loop (n : nat) (height : nat) (t : list (list N)) (lw : list N) (as_ : nat)
  (len : list N) (best_cost : N) (best_height : nat) : res (list N * N * nat) :=
  match n with
  | O => Ok (len, best_cost, best_height)
  | S n' =>
    if N.shiftl 1 (N.of_nat height) <? N.of_nat as_
    then heights_loop n' (S height) t lw as_ len best_cost best_height          (* continue *)
    else
      do row <- rd ATree t height;
      do top <- rd ARow row (height - 1);
      if top =? 0 then Ok (len, best_cost, best_height)                          (* break *)
      else
        do r <- height_cost height row lw as_ len;
        let '(len', cost, _) := r in
        if cost <? best_cost
        then heights_loop n' (S height) t lw as_ len' cost height
        else heights_loop n' (S height) t lw as_ len' best_cost best_height
  end.

Record pm_result := mkres { r_lengths : list N; r_height : nat; r_cost : N; r_tree : list (list N); r_lw : list N }.

(* assign_codes(code, length, frequency, as) up to (and including) the two assert()s that follow the
   final length assignment.  [len0] is the content of length[0..as-1] on entry. *)
Definition assign_lengths (len0 : list N) (freq : list N) : res pm_result :=
  let as_ := length freq in
  let lw := make_leaf_weight freq in
  do s <- package_merge lw as_;
  do r <- heights_loop (MCL - 1) 2 (tree s) lw as_ len0 MAX32 MCL;
  let '(len1, best_cost, best_height) := r in
  do row <- rd ATree (tree s) best_height;
  do r2 <- per_depth best_height 1 row lw as_ len1 0 0%nat;
  let '(len2, _, leaf) := r2 in
  (* next_code after the loop is 2 * sum_{depth} avail_depth * 2^(best_height - depth)  (uint32_t) *)
  let next_code :=
    fold_left (fun nc depth => N.land ((nc + (nth (depth - 1) row 0 - nth depth row 0)) * 2) MAX32)
              (seq 1 best_height) 0 in
  if negb (next_code =? N.shiftl 1 (N.of_nat (S best_height))) then Err (AssertFail 2)
  else if negb (leaf =? as_)%nat then Err (AssertFail 3)
  else Ok (mkres len2 best_height best_cost (tree s) lw).

Definition pm_lengths_res (freq : list N) : res pm_result :=
  assign_lengths (repeat 0 (length freq)) freq.

Definition pm_lengths (freq : list N) : option (list N) :=
  match pm_lengths_res freq with Ok r => Some (r_lengths r) | Err _ => None end.
