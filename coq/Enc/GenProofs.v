(* Proofs about Enc/GenModel.v, part 4: the theorem gen_witness_ok.
   For every symbol vector generate_prefix_code() can be called on, every cluster_factor >= 1 and EVERY
   function standing for make_code_lengths (keeping row lengths; its own error values allowed), the model
   either returns that function's error or a result satisfying the table/selector conjuncts of
   EncModel.witness_ok. *)
From Coq Require Import List NArith Arith Bool Lia.
From LBZ Require Import Gen.Consts Dec.Format Enc.EncModel Enc.PmModel Enc.PmBasics Enc.PmReal Enc.PmProofs
  Enc.GenModel Enc.GenInit Enc.GenEm Enc.GenReorder.
Import ListNotations.
Local Open Scope N_scope.

(* ---- statement ---------------------------------------------------------------------------------------------------- *)
Definition GEN_MAX_NM : N := MAX_BLOCK_SIZE + GROUP_SIZE.       (* 900050; encode() produces nm <= MAX_BLOCK_SIZE + 1 *)

Definition gen_input_ok (mtfv : list N) : Prop :=
  let asN := last mtfv 0 + 1 in
  2 <= N.of_nat (length mtfv) <= GEN_MAX_NM /\ 2 <= asN <= MAX_ALPHA_SIZE /\ Forall (fun s => s < asN) mtfv.

Record gen_result_ok (mtfv : list N) (r : gen_result) : Prop := {
  go_nt : 2 <= g_num_trees r <= 6;
  go_ntabs : N.of_nat (length (g_tables r)) = g_num_trees r;
  go_tabs : forallb (table_ok (N.to_nat (last mtfv 0 + 1))) (g_tables r) = true;
  go_nsel : N.of_nat (length (g_sels r)) = num_groups (N.of_nat (length mtfv));
  go_sels : Forall (fun s => s < g_num_trees r) (g_sels r);
  go_cap : num_groups (N.of_nat (length mtfv)) + 1 <= enc_selector_size;
  go_old : length (g_sels_old r) = length (g_sels r);
  go_n2o : N.of_nat (length (g_n2o r)) = g_num_trees r
}.

(* ---- side conditions on regenerated constants ----------------------------------------------------------------------- *)
Lemma choose_nt_range_gen ths nm : Forall (fun p => 1 <= snd p <= 6) ths -> 1 <= nt_default <= 6 ->
  1 <= choose_nt ths nm <= 6.
Proof.
  intros H D. induction H as [|[th v] ths Hp Hr IH]; cbn [choose_nt]; [exact D|].
  destruct (th <? nm); [exact Hp|exact IH].
Qed.

Lemma choose_nt_range nm : 1 <= choose_nt nt_thresholds nm <= 6.
Proof.
  apply choose_nt_range_gen; [|vm_compute; split; discriminate].
  unfold nt_thresholds. repeat constructor; cbn; lia.
Qed.

Lemma cap_ok nm : nm <= GEN_MAX_NM -> num_groups nm + 1 <= enc_selector_size.
Proof.
  intro H. pose proof (num_groups_mono nm GEN_MAX_NM H) as M.
  assert (E : num_groups GEN_MAX_NM + 1 <= enc_selector_size) by (vm_compute; discriminate). lia.
Qed.

Lemma total_ok nm : nm <= GEN_MAX_NM -> MAX_ALPHA_SIZE * (nm + GROUP_SIZE - 1) < 2 ^ 32.
Proof.
  intro H. assert (E : MAX_ALPHA_SIZE * (GEN_MAX_NM + GROUP_SIZE - 1) < 2 ^ 32) by (vm_compute; reflexivity).
  change MAX_ALPHA_SIZE with 258 in *. change GROUP_SIZE with 50 in *. lia.
Qed.

Lemma nm_lim nm : nm <= GEN_MAX_NM -> nm < NM_LIM.
Proof. intro H. assert (GEN_MAX_NM < NM_LIM) by (vm_compute; reflexivity). lia. Qed.

(* ---- remap / tables_of ------------------------------------------------------------------------------------------------ *)
Lemma remap_ok o2n K sels :
  Forall (fun t => exists c, nth_error o2n (N.to_nat t) = Some (Some c) /\ c < K) sels ->
  exists sels', remap o2n sels = GOk sels' /\ length sels' = length sels /\ Forall (fun c => c < K) sels'.
Proof.
  induction 1 as [|t r [c [E Hc]] Hr IH]; cbn [remap].
  - exists []. repeat split. constructor.
  - destruct IH as [r' [E' [L' F']]]. unfold grd. rewrite E. cbn [gbind]. rewrite E'. cbn [gbind].
    exists (c :: r'). repeat split; [cbn [length]; lia|constructor; assumption].
Qed.

Lemma tables_of_ok as_ lens n2o :
  Forall (fun t => (N.to_nat t < length lens)%nat /\ table_ok as_ (nth (N.to_nat t) lens []) = true) n2o ->
  exists tabs, tables_of lens n2o = GOk tabs /\ length tabs = length n2o /\ forallb (table_ok as_) tabs = true.
Proof.
  induction 1 as [|t r [Hl Ht] Hr IH]; cbn [tables_of].
  - exists []. repeat split.
  - destruct IH as [tabs [E [L F]]]. unfold grd.
    destruct (nth_error lens (N.to_nat t)) as [row|] eqn:En; [|apply nth_error_None in En; lia].
    cbn [gbind]. rewrite E. cbn [gbind]. exists (row :: tabs). split; [reflexivity|]. split; [cbn [length]; lia|].
    cbn [forallb]. rewrite F, andb_true_r. rewrite (nth_error_nth _ _ [] En) in Ht. exact Ht.
Qed.

(* ---- the theorem -------------------------------------------------------------------------------------------------------- *)
Theorem gen_witness_ok_gen : forall E mcl cf mtfv,
  mcl_wf E mcl -> 1 <= cf -> gen_input_ok mtfv ->
  err_only E (gen_prefix_code_with mcl cf mtfv) (gen_result_ok mtfv).
Proof.
  intros E mcl cf mtfv W Hcf [Hnm [Has Hsym]]. unfold gen_prefix_code_with.
  set (nm := N.of_nat (length mtfv)) in *. set (asN := last mtfv 0 + 1) in *. set (as_ := N.to_nat asN).
  assert (HasN : N.of_nat as_ = asN) by (unfold as_; apply N2Nat.id).
  assert (Has' : (2 <= as_ <= 258)%nat) by (unfold as_; change MAX_ALPHA_SIZE with 258 in Has; lia).
  replace (nm <? 2) with false by (symmetry; apply N.ltb_ge; lia).
  pose proof (cap_ok nm ltac:(lia)) as Hcap.
  replace (enc_selector_size <? num_groups nm + 1) with false by (symmetry; apply N.ltb_ge; exact Hcap).
  (* symbol frequencies *)
  destruct (sym_freq_ok mtfv as_) as [F [EqF [LF SF]]].
  { eapply Forall_impl; [|exact Hsym]. cbn beta. intros a Ha. unfold as_. lia. }
  rewrite EqF. cbn [gbind]. fold nm in SF.
  (* initial trees *)
  pose proof (choose_nt_range nm) as Hnt0. set (nt0 := choose_nt nt_thresholds nm) in *.
  destruct (generate_initial_trees_ok F as_ nm nt0 LF SF ltac:(lia) (nm_lim nm ltac:(lia)) Hnt0) as [lens0 [E0 S0]].
  { rewrite HasN. change MAX_ALPHA_SIZE with 258 in Has. change (2 ^ 31) with 2147483648. lia. }
  rewrite E0. cbn [gbind].
  (* the groups *)
  pose proof (groups_of_spec mtfv asN Hsym) as G. cbv zeta in G. set (groups := groups_of mtfv asN) in *.
  destruct G as [G1 [G2 G3]]. fold nm in G1, G3.
  (* EM iterations *)
  pose proof (em_loop_ok E mcl as_ (N.to_nat nt0) groups cf lens0 W) as EM.
  specialize (EM ltac:(change NTREES with 6%nat; lia) Hcf).
  rewrite HasN in EM. specialize (EM G2 S0).
  destruct (N.iter cf (em_iter mcl as_ (N.to_nat nt0) groups) (GOk (lens0, None))) as [[lens sf]|e]; cbn [gbind];
    [|exact EM].
  cbv beta iota delta [err_only] in EM. destruct EM as [Sh [sf' [Esf [Q1 [Q2 [Q3 Q4]]]]]].
  cbn [fst snd] in Sh, Esf. subst sf. destruct sf' as [sels fr]. cbn [fst snd] in Q1, Q2, Q3, Q4.
  rewrite N2Nat.id in Q2.
  (* reordering *)
  assert (Hb : MAX_ALPHA_SIZE * lsum (concat fr) < 2 ^ 32).
  { pose proof (total_ok nm ltac:(lia)). rewrite Q4. change MAX_ALPHA_SIZE with 258 in *. lia. }
  destruct (reorder_spec as_ nt0 fr ltac:(lia) Has' Q3 Hb sels _ Q2 (ro_init_inv as_ nt0 lens Hnt0 Sh))
    as [ro [Ero [I [Fin _]]]].
  fold (init_mask nt0). rewrite Ero. cbn [gbind].
  assert (Hsne : sels <> []).
  { intro Z. subst sels. cbn [length] in Q1. rewrite G1 in Q1.
    pose proof (num_groups_ge nm). change GROUP_SIZE with 50 in *. lia. }
  assert (Hn1 : (1 <= length (ro_n2o ro))%nat).
  { destruct sels as [|t0 r0]; [contradiction|]. inversion Fin as [|? ? H0 _]; subst.
    destruct (ro_n2o ro); [contradiction|cbn [length]; lia]. }
  assert (Hn6 : (length (ro_n2o ro) <= 6)%nat).
  { pose proof (nodup_bound _ (N.to_nat nt0) (ri_nodup _ _ _ I)) as B. rewrite N2Nat.id in B.
    specialize (B (ri_old _ _ _ I)). lia. }
  rewrite (ri_cnt _ _ _ I).
  replace (N.of_nat (length (ro_n2o ro)) <? 1) with false by (symmetry; apply N.ltb_ge; lia).
  (* every selector has been given a new number *)
  assert (Hmap : Forall (fun t => exists c, nth_error (ro_o2n ro) (N.to_nat t) = Some (Some c) /\
                                            c < N.of_nat (length (ro_n2o ro))) sels).
  { eapply Forall_impl; [|exact Fin]. cbn beta. intros t Ht. apply In_nth_error in Ht. destruct Ht as [j Hj].
    exists (N.of_nat j). split; [apply (ri_inv _ _ _ I); exact Hj|].
    assert (j < length (ro_n2o ro))%nat by (apply nth_error_Some; rewrite Hj; discriminate). lia. }
  assert (Htab : Forall (fun t => (N.to_nat t < length (ro_lens ro))%nat /\
                                  table_ok as_ (nth (N.to_nat t) (ro_lens ro) []) = true) (ro_n2o ro)).
  { pose proof (ri_tabs _ _ _ I) as T. pose proof (ri_old _ _ _ I) as O. destruct (ri_shape _ _ _ I) as [L1 _].
    rewrite Forall_forall in *. intros t Ht. split; [|apply T; exact Ht].
    specialize (O t Ht). rewrite L1. change NTREES with 6%nat. lia. }
  destruct (N.eqb_spec (N.of_nat (length (ro_n2o ro))) 1) as [One|NotOne].
  - (* a single tree: create the dummy one *)
    destruct (ro_n2o ro) as [|first [|]] eqn:En; cbn [length] in One, Hn1; try lia. clear One Hn1 Hn6.
    cbn [hd]. pose proof (ri_old _ _ _ I) as O. rewrite En in O. inversion O as [|? ? Hfirst _]; subst.
    destruct (lxor1_fact first ltac:(lia)) as [X1 X2]. set (td := N.lxor first 1) in *.
    unfold gwr. rewrite (ri_o2n_len _ _ _ I).
    replace (N.to_nat td <? NTREES)%nat with true by (symmetry; apply Nat.ltb_lt; change NTREES with 6%nat; lia).
    cbn [gbind]. destruct (dummy_fact as_ Has') as [_ [D2 D3]]. rewrite HasN in D2.
    replace (asN <? dummy_count asN) with false by (symmetry; apply N.ltb_ge; exact D2).
    destruct (ri_shape _ _ _ I) as [L1 L2]. rewrite L1.
    replace (N.to_nat td <? NTREES)%nat with true by (symmetry; apply Nat.ltb_lt; change NTREES with 6%nat; lia).
    cbn [gbind ro_o2n ro_lens ro_n2o ro_nt ro_cost].
    destruct (remap_ok (upd (ro_o2n ro) (N.to_nat td) (Some 1)) 2 sels) as [sels' [Er [Lr Fr]]].
    { eapply Forall_impl; [|exact Fin]. cbn beta. intros t Ht. destruct Ht as [<-|[]].
      exists 0. split; [|lia]. rewrite nth_error_upd_other by lia.
      apply (ri_inv _ _ _ I 0%nat first). rewrite En. reflexivity. }
    rewrite Er. cbn [gbind].
    destruct (tables_of_ok as_ (upd (ro_lens ro) (N.to_nat td) (dummy_row as_)) [first; td]) as [tabs [Et [Lt Ft]]].
    { inversion Htab as [|? ? [H1 H2] _]; subst. rewrite upd_length.
      constructor; [|constructor; [|constructor]].
      - split; [exact H1|]. rewrite upd_nth_other by lia. exact H2.
      - split; [rewrite L1; change NTREES with 6%nat; lia|].
        rewrite upd_nth_same by (rewrite L1; change NTREES with 6%nat; lia). exact D3. }
    cbn [app]. rewrite Et. cbn [gbind]. cbv beta iota delta [err_only].
    constructor; cbn [g_num_trees g_sels_old g_o2n g_n2o g_sels g_tables g_cost].
    + lia.
    + rewrite Lt. reflexivity.
    + exact Ft.
    + rewrite Lr, Q1, G1. apply N2Nat.id.
    + exact Fr.
    + exact Hcap.
    + symmetry. exact Lr.
    + reflexivity.
  - (* two or more trees *)
    cbn [gbind].
    destruct (remap_ok (ro_o2n ro) (N.of_nat (length (ro_n2o ro))) sels Hmap) as [sels' [Er [Lr Fr]]].
    rewrite Er. cbn [gbind].
    destruct (tables_of_ok as_ (ro_lens ro) (ro_n2o ro) Htab) as [tabs [Et [Lt Ft]]].
    rewrite Et. cbn [gbind]. cbv beta iota delta [err_only].
    constructor; cbn [g_num_trees g_sels_old g_o2n g_n2o g_sels g_tables g_cost]; rewrite ?(ri_cnt _ _ _ I).
    + lia.
    + rewrite Lt. reflexivity.
    + exact Ft.
    + rewrite Lr, Q1, G1. apply N2Nat.id.
    + exact Fr.
    + exact Hcap.
    + symmetry. exact Lr.
    + reflexivity.
Qed.

(* THE THEOREM: whatever make_code_lengths returns (row length kept; its own error values allowed) *)
Theorem gen_witness_ok : forall mcl cf mtfv,
  mcl_wf is_mcl_err mcl -> 1 <= cf -> gen_input_ok mtfv ->
  match gen_prefix_code_with mcl cf mtfv with
  | GOk r => gen_result_ok mtfv r
  | GErr e => exists m, e = GMcl m
  end.
Proof. intros mcl cf mtfv W Hcf Hin. exact (gen_witness_ok_gen is_mcl_err mcl cf mtfv W Hcf Hin). Qed.

(* when make_code_lengths never fails the model never returns an error value *)
Corollary gen_witness_ok_total : forall mcl cf mtfv,
  (forall old f, exists l, mcl old f = GOk l /\ length l = length old) ->
  1 <= cf -> gen_input_ok mtfv ->
  exists r, gen_prefix_code_with mcl cf mtfv = GOk r /\ gen_result_ok mtfv r.
Proof.
  intros mcl cf mtfv T Hcf Hin.
  assert (W : mcl_wf (fun _ => False) mcl).
  { split.
    - intros old f l E. destruct (T old f) as [l' [E' L']]. rewrite E in E'. inversion E'; subst. exact L'.
    - intros old f e E. destruct (T old f) as [l' [E' _]]. rewrite E in E'. discriminate. }
  pose proof (gen_witness_ok_gen _ mcl cf mtfv W Hcf Hin) as G.
  destruct (gen_prefix_code_with mcl cf mtfv) as [r|e]; cbv beta iota delta [err_only] in G; [|contradiction].
  exists r. split; [reflexivity|exact G].
Qed.
