(* Proofs about Enc/GenModel.v, part 5: the exact model of make_code_lengths() is an admissible instance of the
   parameter [mcl] of gen_witness_ok: it keeps the length of the row it is given and all its error values are
   its own (GMcl ..).  NOT proved here: that it never returns an error value (that the Huffman tree is at most
   MAX_HUFF_CODE_LENGTH = 30 deep because the frequencies sum to at most ~900000 - the Fibonacci argument of the
   comment at encode.c l.55 - and the queue discipline of build_tree). *)
From Coq Require Import List NArith Arith Bool Lia.
From LBZ Require Import Gen.Consts Enc.PmModel Enc.PmBasics Enc.GenModel Enc.GenInit Enc.GenEm.
Import ListNotations.
Local Open Scope N_scope.

Definition mcl_only {A} (x : gres A) : Prop := match x with GOk _ => True | GErr e => is_mcl_err e end.

Lemma mo_ok {A} (a : A) : mcl_only (GOk a). Proof. exact I. Qed.
Lemma mo_err {A} m : mcl_only (@GErr A (GMcl m)). Proof. exists m. reflexivity. Qed.
Lemma mo_bind {A B} (x : gres A) (f : A -> gres B) : mcl_only x -> (forall a, mcl_only (f a)) -> mcl_only (gbind x f).
Proof. destruct x as [a|e]; cbn [gbind]; intros H1 H2; [apply H2|exact H1]. Qed.
Lemma mo_mrd id l i : mcl_only (mrd id l i).
Proof. unfold mrd. destruct (nth_error l i); [apply mo_ok|apply mo_err]. Qed.
Lemma mo_mwr id l i v : mcl_only (mwr id l i v).
Proof. unfold mwr. destruct (i <? length l)%nat; [apply mo_ok|apply mo_err]. Qed.

Ltac mo_step :=
  first [ apply mo_ok | apply mo_err | apply mo_mrd | apply mo_mwr
        | apply mo_bind; [|intros ?]
        | match goal with
          | |- mcl_only (if ?c then _ else _) => destruct c
          | |- mcl_only (match ?x with pair _ _ => _ end) => destruct x
          end ].
Ltac mo := repeat mo_step.

Lemma mo_bt_loop t : forall W V r s, mcl_only (bt_loop t W V r s).
Proof. induction t as [|t IH]; intros W V r s; cbn [bt_loop]; repeat first [apply IH | mo_step]. Qed.

Lemma mo_cd_inner fuel : forall V node depth avail used, mcl_only (cd_inner fuel V node depth avail used).
Proof. induction fuel as [|f IH]; intros; cbn [cd_inner]; repeat first [apply IH | mo_step]. Qed.

Lemma mo_cd_outer n : forall as_ V count node depth avail, mcl_only (cd_outer n as_ V count node depth avail).
Proof. induction n as [|n IH]; intros; cbn [cd_outer]; repeat first [apply mo_cd_inner | apply IH | mo_step]. Qed.

Lemma mo_compute_depths V as_ : mcl_only (compute_depths V as_).
Proof. unfold compute_depths. repeat first [apply mo_cd_outer | mo_step]. Qed.

Lemma mo_gl_inner fuel : forall W len i k d, mcl_only (gl_inner fuel W len i k d).
Proof. induction fuel as [|f IH]; intros; cbn [gl_inner]; repeat first [apply IH | mo_step]. Qed.

Lemma mo_gl_outer n : forall as_ W count len i c d, mcl_only (gl_outer n as_ W count len i c d).
Proof. induction n as [|n IH]; intros; cbn [gl_outer]; repeat first [apply mo_gl_inner | apply IH | mo_step]. Qed.

Lemma mo_make_code_lengths old f : mcl_only (make_code_lengths old f).
Proof.
  unfold make_code_lengths. repeat first [apply mo_bt_loop | apply mo_compute_depths | apply mo_gl_outer | mo_step].
Qed.

(* ---- the row keeps its length ------------------------------------------------------------------------------------ *)
Lemma gbind_ok {A B} (x : gres A) (f : A -> gres B) b : gbind x f = GOk b -> exists a, x = GOk a /\ f a = GOk b.
Proof. destruct x as [a|e]; cbn [gbind]; intro H; [exists a; auto|discriminate]. Qed.

Lemma gl_inner_length fuel : forall W len i k d len' i', gl_inner fuel W len i k d = GOk (len', i') -> length len' = length len.
Proof.
  induction fuel as [|f IH]; intros W len i k d len' i' H; cbn [gl_inner] in H.
  - destruct (k =? 0); [inversion H; reflexivity|discriminate].
  - destruct (k =? 0); [inversion H; reflexivity|].
    apply gbind_ok in H. destruct H as [w [_ H]]. cbv zeta in H.
    destruct (MAX_ALPHA_SIZE <? N.land w 65535); [discriminate|].
    apply gbind_ok in H. destruct H as [len1 [E1 H]]. apply IH in H. rewrite H.
    unfold mwr in E1. destruct (_ <? _)%nat; [|discriminate]. inversion E1. apply upd_length.
Qed.

Lemma gl_outer_length n : forall as_ W count len i c d len' i' c',
  gl_outer n as_ W count len i c d = GOk (len', i', c') -> length len' = length len.
Proof.
  induction n as [|n IH]; intros as_ W count len i c d len' i' c' H; cbn [gl_outer] in H.
  - inversion H. reflexivity.
  - apply gbind_ok in H. destruct H as [k [_ H]]. apply gbind_ok in H. destruct H as [[len1 i1] [E1 H]].
    apply IH in H. rewrite H. eapply gl_inner_length; eauto.
Qed.

Lemma make_code_lengths_length old f l : make_code_lengths old f = GOk l -> length l = length old.
Proof.
  unfold make_code_lengths. intro H. destruct (_ || _); [discriminate|].
  apply gbind_ok in H. destruct H as [[[[W V] r] s] [_ H]].
  destruct (negb (r =? 2)%nat); [discriminate|]. destruct (negb (s =? 0)%nat); [discriminate|].
  apply gbind_ok in H. destruct H as [count [_ H]]. apply gbind_ok in H. destruct H as [[[len i] c] [E H]].
  destruct (negb (c =? _)); [discriminate|]. destruct (negb (i =? _)%nat); [discriminate|]. inversion H; subst.
  eapply gl_outer_length; eauto.
Qed.

Theorem make_code_lengths_wf : mcl_wf is_mcl_err make_code_lengths.
Proof.
  split.
  - exact make_code_lengths_length.
  - intros old f e H. pose proof (mo_make_code_lengths old f) as M. rewrite H in M. exact M.
Qed.
