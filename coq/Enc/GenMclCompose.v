(* generate_prefix_code() never fails, PROVIDED make_code_lengths() is total on the inputs admitted by
   GenMclDefs.mcl_input_ok (proved elsewhere) and the alphabet has at least MIN_ALPHA_SIZE = 3 symbols.

   Enc/GenProofs.gen_witness_ok_total needs a function [mcl] total on ALL inputs; the exact model
   [make_code_lengths] is total only on admissible inputs.  Bridge: the patched function
     mcl' old f = if mcl_input_okb old f then make_code_lengths old f else GOk old
   is total, and inside gen_prefix_code_with every call of [mcl] has an admissible input (rows of as entries,
   3 <= as <= 258, frequency total = number of padded symbols <= 900099 <= MCL_SUM_MAX), so that
     gen_prefix_code_with mcl' cf mtfv = gen_prefix_code_with make_code_lengths cf mtfv. *)
From Coq Require Import List NArith Arith Bool Lia.
From LBZ Require Import Gen.Consts Enc.PmModel Enc.PmBasics Enc.PmReal Enc.GenModel Enc.GenInit Enc.GenEm Enc.GenReorder
  Enc.GenProofs Enc.GenMcl Enc.GenMclDefs.
Import ListNotations.
Local Open Scope N_scope.

(* ---- decidable admissibility ------------------------------------------------------------------------------------ *)
Definition mcl_input_okb (old f : list N) : bool :=
  (length f <=? length old)%nat && (3 <=? length f)%nat && (length f <=? 258)%nat && (lsum f <=? MCL_SUM_MAX).

Lemma mcl_input_okb_spec old f : mcl_input_okb old f = true <-> mcl_input_ok old f.
Proof.
  unfold mcl_input_okb, mcl_input_ok. rewrite !andb_true_iff, !Nat.leb_le, N.leb_le. tauto.
Qed.

(* ---- the patched function ------------------------------------------------------------------------------------------ *)
Definition mcl' (old f : list N) : gres (list N) :=
  if mcl_input_okb old f then make_code_lengths old f else GOk old.

Definition mcl_total_on_ok : Prop :=
  forall old f, mcl_input_ok old f -> exists l, make_code_lengths old f = GOk l /\ length l = length old.

Lemma mcl'_total : mcl_total_on_ok -> forall old f, exists l, mcl' old f = GOk l /\ length l = length old.
Proof.
  intros T old f. unfold mcl'. destruct (mcl_input_okb old f) eqn:B.
  - apply T. apply mcl_input_okb_spec. exact B.
  - exists old. split; reflexivity.
Qed.

(* without the totality premise: mcl' keeps the row length (any error value allowed) *)
Lemma mcl'_wf : mcl_wf (fun _ => True) mcl'.
Proof.
  split; [|intros; exact I].
  intros old f l. unfold mcl'. destruct (mcl_input_okb old f).
  - apply make_code_lengths_length.
  - intro H. inversion H; subst. reflexivity.
Qed.

(* ---- the M step ------------------------------------------------------------------------------------------------------ *)
Lemma m_step_eq as_ : (3 <= as_ <= 258)%nat -> forall fr lens,
  Forall (fun l => length l = as_) lens ->
  Forall (fun f => length f = S as_ /\ lsum f <= MCL_SUM_MAX) fr ->
  m_step mcl' as_ lens fr = m_step make_code_lengths as_ lens fr.
Proof.
  intros Has. induction fr as [|f fr IH]; intros lens Hl Hf; [destruct lens; reflexivity|].
  destruct lens as [|l lens]; [reflexivity|].
  pose proof (Forall_inv Hl) as Hl1. pose proof (Forall_inv_tail Hl) as Hl2.
  pose proof (Forall_inv Hf) as [Hf1 Hf2]. pose proof (Forall_inv_tail Hf) as Hf3.
  cbn beta in Hl1.
  cbn [m_step]. rewrite (IH lens Hl2 Hf3).
  assert (B : mcl_input_okb l (firstn as_ f) = true).
  { apply mcl_input_okb_spec. unfold mcl_input_ok. rewrite firstn_length, Hf1, Hl1.
    pose proof (lsum_firstn_le as_ f). repeat split; lia. }
  unfold mcl' at 1. rewrite B. reflexivity.
Qed.

(* ---- one EM iteration -------------------------------------------------------------------------------------------------- *)
Lemma em_iter_eq as_ nt groups : (3 <= as_ <= 258)%nat -> (1 <= nt)%nat ->
  Forall (Forall (fun s => s <= N.of_nat as_)) groups ->
  N.of_nat (length (concat groups)) <= MCL_SUM_MAX ->
  forall st, em_pre as_ st ->
  em_iter mcl' as_ nt groups (GOk st) = em_iter make_code_lengths as_ nt groups (GOk st).
Proof.
  intros Has Hnt Hg Hsum [lens o] Hst. unfold em_pre in Hst. cbn [fst] in Hst. destruct Hst as [Hs1 Hs2].
  unfold em_iter. cbn [gbind fst].
  destruct (e_step_ok as_ nt (len_pack lens as_) Hnt (len_pack_length as_ lens Hs2) groups
              (repeat (repeat 0 (S as_)) nt) Hg) as [sels [fr [Ee [L1 [L2 [[L3 L3'] L4]]]]]].
  { split; [apply repeat_length|]. apply Forall_forall. intros x Hx. apply repeat_spec in Hx. subst x.
    apply repeat_length. }
  rewrite Ee. cbn [gbind]. destruct (negb (length sels =? length groups)%nat); [reflexivity|].
  rewrite (m_step_eq as_ Has fr lens Hs2); [reflexivity|].
  rewrite concat_repeat_zero in L4.
  apply Forall_forall. intros f Hin. split.
  - rewrite Forall_forall in L3'. apply L3'. exact Hin.
  - pose proof (lsum_concat_In fr f Hin). lia.
Qed.

(* ---- the EM loop ---------------------------------------------------------------------------------------------------------- *)
Lemma em_loop_eq as_ nt groups lens0 : (3 <= as_ <= 258)%nat -> (1 <= nt <= NTREES)%nat ->
  Forall (Forall (fun s => s <= N.of_nat as_)) groups ->
  N.of_nat (length (concat groups)) <= MCL_SUM_MAX ->
  lens_shape as_ lens0 ->
  forall k,
    N.iter k (em_iter mcl' as_ nt groups) (GOk (lens0, None)) =
    N.iter k (em_iter make_code_lengths as_ nt groups) (GOk (lens0, None)) /\
    err_only (fun _ => True) (N.iter k (em_iter mcl' as_ nt groups) (GOk (lens0, None))) (em_pre as_).
Proof.
  intros Has Hnt Hg Hsum H0 k. induction k as [|k [IH1 IH2]] using N.peano_ind.
  - split; [reflexivity|]. exact H0.
  - rewrite !N.iter_succ. rewrite <- IH1. split.
    + destruct (N.iter k (em_iter mcl' as_ nt groups) (GOk (lens0, None))) as [st|e]; [|reflexivity].
      cbv beta iota delta [err_only] in IH2. apply em_iter_eq; auto. lia.
    + pose proof (em_iter_ok _ mcl' as_ nt groups mcl'_wf Hnt Hg _ IH2) as P.
      destruct (em_iter mcl' as_ nt groups (N.iter k (em_iter mcl' as_ nt groups) (GOk (lens0, None)))) as [st|e];
        cbv beta iota delta [err_only] in *; [apply P|exact I].
Qed.

(* ---- generate_prefix_code ---------------------------------------------------------------------------------------------------- *)
Lemma sum_bound nm : nm <= GEN_MAX_NM -> nm + GROUP_SIZE - 1 <= MCL_SUM_MAX.
Proof.
  intro H. assert (E : GEN_MAX_NM + GROUP_SIZE - 1 <= MCL_SUM_MAX) by (vm_compute; discriminate).
  change GROUP_SIZE with 50 in *. lia.
Qed.

Lemma gen_with_eq cf mtfv : gen_input_ok mtfv -> 3 <= last mtfv 0 + 1 ->
  gen_prefix_code_with mcl' cf mtfv = gen_prefix_code_with make_code_lengths cf mtfv.
Proof.
  intros [Hnm [Has Hsym]] H3. unfold gen_prefix_code_with.
  set (nm := N.of_nat (length mtfv)) in *. set (asN := last mtfv 0 + 1) in *. set (as_ := N.to_nat asN).
  assert (HasN : N.of_nat as_ = asN) by (unfold as_; apply N2Nat.id).
  assert (Has' : (3 <= as_ <= 258)%nat) by (unfold as_; change MAX_ALPHA_SIZE with 258 in Has; lia).
  destruct (nm <? 2); [reflexivity|].
  destruct (enc_selector_size <? num_groups nm + 1); [reflexivity|].
  destruct (sym_freq_ok mtfv as_) as [F [EqF [LF SF]]].
  { eapply Forall_impl; [|exact Hsym]. cbn beta. intros a Ha. unfold as_. lia. }
  rewrite EqF. cbn [gbind]. fold nm in SF.
  pose proof (choose_nt_range nm) as Hnt0. set (nt0 := choose_nt nt_thresholds nm) in *.
  destruct (generate_initial_trees_ok F as_ nm nt0 LF SF ltac:(lia) (nm_lim nm ltac:(lia)) Hnt0) as [lens0 [E0 S0]].
  { rewrite HasN. change MAX_ALPHA_SIZE with 258 in Has. change (2 ^ 31) with 2147483648. lia. }
  rewrite E0. cbn [gbind].
  pose proof (groups_of_spec mtfv asN Hsym) as G. cbv zeta in G. set (groups := groups_of mtfv asN) in *.
  destruct G as [G1 [G2 G3]]. fold nm in G1, G3. rewrite <- HasN in G2.
  pose proof (sum_bound nm ltac:(lia)) as SB.
  destruct (em_loop_eq as_ (N.to_nat nt0) groups lens0 Has' ltac:(change NTREES with 6%nat; lia) G2 ltac:(lia) S0 cf)
    as [EQ _].
  rewrite EQ. reflexivity.
Qed.

(* ---- THE THEOREM ------------------------------------------------------------------------------------------------------------------ *)
Theorem gen_total_from :
  (forall old f, mcl_input_ok old f -> exists l, make_code_lengths old f = GOk l /\ length l = length old) ->
  forall cf mtfv, 1 <= cf -> gen_input_ok mtfv -> 3 <= last mtfv 0 + 1 ->
  exists r, gen_prefix_code cf mtfv = GOk r /\ gen_result_ok mtfv r.
Proof.
  intros T cf mtfv Hcf Hin H3. unfold gen_prefix_code.
  rewrite <- (gen_with_eq cf mtfv Hin H3).
  apply gen_witness_ok_total; [|exact Hcf|exact Hin].
  apply mcl'_total. exact T.
Qed.

Print Assumptions gen_total_from.
