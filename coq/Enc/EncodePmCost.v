(* The value RETURNED by the model of assign_codes() (PmModel.assign_lengths, r_cost): for every admissible frequency
   vector with at least 3 entries it is exactly
       5 + as + 2 * sum |length[v-1] - length[v]|  +  sum frequency[v] * length[v]
   over the FINAL lengths (no uint32_t wrap) - the number of bits transmit() needs for the table and for the symbols
   coded with it.  (The C loop evaluates this cost for every admissible height, keeps the minimum and re-derives the
   lengths of the best height afterwards.) *)
From Coq Require Import List NArith ZArith Arith Bool Lia ZifyBool ZifyNat Sorting.Permutation.
From LBZ Require Import Gen.Consts Dec.Format Enc.EncModel Enc.HuffProofs Enc.PmModel Enc.PmBasics Enc.PmLoop
  Enc.PmIdeal Enc.PmReal Enc.PmRefine Enc.PmAssign Enc.PmProofs Enc.PmOpt Enc.PmCost Enc.PmOptimal.
Import ListNotations.
Local Open Scope N_scope.

(* ---- the transmission cost of a table ------------------------------------------------------------------------- *)
Fixpoint sdelta (l : list N) : N :=
  match l with
  | a :: ((b :: _) as r) => (N.max a b - N.min a b) + sdelta r
  | _ => 0
  end.

Definition tree_cost (lens : list N) : N := 5 + N.of_nat (length lens) + 2 * sdelta lens.

Definition M32 : N := 2 ^ 32.

Lemma land_M32 x : N.land x MAX32 = x mod M32.
Proof. change MAX32 with (N.ones 32). apply N.land_ones. Qed.

Lemma M32_pos : M32 <> 0. Proof. discriminate. Qed.

Lemma delta_cost_cons2 a b r cost :
  delta_cost (a :: b :: r) cost = delta_cost (b :: r) (N.land (cost + 2 * (N.max a b - N.min a b)) MAX32).
Proof. reflexivity. Qed.

Lemma sdelta_cons2 a b r : sdelta (a :: b :: r) = (N.max a b - N.min a b) + sdelta (b :: r).
Proof. reflexivity. Qed.

Lemma delta_cost_mod : forall len cost, delta_cost len cost mod M32 = (cost + 2 * sdelta len) mod M32.
Proof.
  induction len as [|a r IH]; intro cost.
  - cbn. f_equal. lia.
  - destruct r as [|b r].
    + cbn. f_equal. lia.
    + rewrite delta_cost_cons2, sdelta_cons2, IH, land_M32.
      rewrite N.add_mod_idemp_l by exact M32_pos. f_equal. lia.
Qed.

Lemma sdelta_bound b : forall l, Forall (fun v => v <= b) l -> sdelta l <= b * N.of_nat (length l).
Proof.
  induction l as [|a r IH]; intro H; [cbn; lia|].
  destruct r as [|c r]; [cbn; lia|].
  inversion H as [|? ? Ha H']; subst. inversion H' as [|? ? Hc _]; subst.
  specialize (IH H'). rewrite sdelta_cons2. cbn [length] in *. lia.
Qed.

Lemma dot_le b : forall f l, Forall (fun v => v <= b) l -> dot f l <= lsum f * b.
Proof.
  induction f as [|x f IH]; intros [|v l] H; cbn [dot lsum]; try lia.
  inversion H; subst. specialize (IH l ltac:(assumption)). nia.
Qed.

Lemma skipn_nth_error {A} (l : list A) : forall i x, nth_error l i = Some x -> skipn i l = x :: skipn (S i) l.
Proof.
  induction l as [|y l IH]; intros [|i] x H; cbn [nth_error] in H; try discriminate.
  - inversion H; subst. reflexivity.
  - cbn [skipn]. rewrite (IH i x H). reflexivity.
Qed.

Lemma rd_inv {A} a (l : list A) i x : rd a l i = Ok x -> nth_error l i = Some x.
Proof. unfold rd. destruct (nth_error l i); intro H; inversion H; reflexivity. Qed.

(* the frequency field as give_lengths reads it *)
Definition Fq (w : N) : N := N.land (N.shiftr w 32) MAX32.

(* ---- the cost accumulated by give_lengths / per_depth ------------------------------------------------------------ *)
Section Acc.
Variable lw : list N.
Variable n : nat.

Lemma give_lengths_cost depth : forall avail leaf len cost len' cost' leaf',
  give_lengths avail lw n depth len cost leaf = Ok (len', cost', leaf') ->
  leaf' = (leaf + avail)%nat /\ length (firstn avail (skipn (S leaf) lw)) = avail /\
  cost' mod M32 = (cost + lsum (map Fq (firstn avail (skipn (S leaf) lw))) * depth) mod M32.
Proof.
  induction avail as [|a IH]; intros leaf len cost len' cost' leaf' H; cbn [give_lengths] in H.
  - inversion H; subst. cbn [firstn map lsum length]. repeat split; try lia. f_equal. lia.
  - destruct (leaf <? n)%nat; [|discriminate].
    destruct (rd ALeaf lw (S leaf)) as [w|] eqn:Er; [|discriminate]. cbn [bind] in H. cbv zeta in H.
    destruct (N.land w 65535 <=? MAX_ALPHA_SIZE); [|discriminate].
    destruct (wr ALength len _ depth) as [len1|]; [|discriminate]. cbn [bind] in H.
    apply IH in H. destruct H as [H1 [H2 H3]].
    apply rd_inv in Er. rewrite (skipn_nth_error _ _ _ Er). cbn [firstn map lsum length].
    split; [lia|]. split; [rewrite H2; reflexivity|].
    rewrite H3. rewrite land_M32. rewrite N.add_mod_idemp_l by exact M32_pos. fold (Fq w). f_equal. lia.
Qed.

Lemma firstn_add {A} (l : list A) a b : firstn (a + b) l = firstn a l ++ firstn b (skipn a l).
Proof.
  revert l. induction a as [|a IH]; intro l; [reflexivity|].
  destruct l as [|x l]; cbn [Nat.add firstn skipn app]; [rewrite firstn_nil; reflexivity|]. rewrite IH. reflexivity.
Qed.

Lemma skipn_skipn' {A} (l : list A) a b : skipn a (skipn b l) = skipn (b + a) l.
Proof.
  revert l. induction b as [|b IH]; intro l; [reflexivity|].
  destruct l as [|x l]; cbn [Nat.add skipn]; [apply skipn_nil|]. apply IH.
Qed.

Lemma step_arith (cost c1 X Y d : N) : c1 mod M32 = (cost + X * d) mod M32 ->
  (c1 + Y) mod M32 = (cost + (X * d + Y)) mod M32.
Proof.
  intro H. rewrite <- N.add_mod_idemp_l by exact M32_pos. rewrite H. rewrite N.add_mod_idemp_l by exact M32_pos.
  f_equal. lia.
Qed.

Lemma dlist_S row d1 k : dlist row (S d1) (S k) =
  repeat (N.of_nat (S d1)) (N.to_nat (nth d1 row 0 - nth (S d1) row 0)) ++ dlist row (S (S d1)) k.
Proof. cbn [dlist]. rewrite Nat.sub_succ, Nat.sub_0_r. reflexivity. Qed.

Lemma per_depth_cost row : forall k depth len cost leaf len' cost' leaf',
  per_depth k depth row lw n len cost leaf = Ok (len', cost', leaf') ->
  leaf' = (leaf + length (dlist row depth k))%nat /\
  cost' mod M32 =
    (cost + dot (map Fq (firstn (length (dlist row depth k)) (skipn (S leaf) lw))) (dlist row depth k)) mod M32.
Proof.
  induction k as [|k IH]; intros depth len cost leaf len' cost' leaf' H.
  - cbn [per_depth] in H. inversion H; subst. cbn [dlist length firstn map dot]. split; [lia|]. f_equal. lia.
  - destruct depth as [|d1]; [discriminate|].
    cbn [per_depth] in H.
    destruct (rd ARow row d1) as [hi|] eqn:Ehi; [|discriminate]. cbn [bind] in H.
    destruct (rd ARow row (S d1)) as [lo|] eqn:Elo; [|discriminate]. cbn [bind] in H.
    destruct (lo <=? hi); [|discriminate].
    destruct (give_lengths (N.to_nat (hi - lo)) lw n (N.of_nat (S d1)) len cost leaf) as [[[len1 c1] leaf1]|] eqn:Eg;
      [|discriminate]. cbn [bind] in H.
    apply give_lengths_cost in Eg. destruct Eg as [G1 [G2 G3]].
    apply IH in H. destruct H as [H1 H2].
    apply rd_inv in Ehi. apply rd_inv in Elo.
    rewrite dlist_S.
    rewrite (nth_error_nth _ _ 0 Ehi), (nth_error_nth _ _ 0 Elo).
    set (av := N.to_nat (hi - lo)) in *. set (rest := dlist row (S (S d1)) k) in *.
    rewrite app_length, repeat_length. split; [lia|].
    rewrite firstn_add, map_app.
    rewrite dot_app by (rewrite map_length, repeat_length; exact G2).
    assert (E : dot (map Fq (firstn av (skipn (S leaf) lw))) (repeat (N.of_nat (S d1)) av)
                = (lsum (map Fq (firstn av (skipn (S leaf) lw))) * N.of_nat (S d1))%N).
    { rewrite <- G2 at 2. rewrite <- (map_length Fq). apply dot_repeat. }
    rewrite E. rewrite skipn_skipn'. rewrite H2. subst leaf1.
    replace (S leaf + av)%nat with (S (leaf + av)) by lia.
    apply step_arith. exact G3.
Qed.
End Acc.

(* ---- helpers ----------------------------------------------------------------------------------------------------- *)
Lemma Fq_shaped w : leaf_shaped w -> Fq w = Fof w.
Proof.
  intros [F [L [-> [HF [HL1 HL2]]]]]. unfold Fq. rewrite land_M32, N.shiftr_div_pow2.
  change (2 ^ 32) with U32. fold (Fof (enc F L)). rewrite Fof_enc by (unfold U32; lia).
  apply N.mod_small. exact HF.
Qed.

Lemma val_snoc : forall d row, val (S d) row = 2 * val d row + nth d row 0.
Proof.
  induction d as [|d IH]; intro row.
  - rewrite val_S. cbn [val N.of_nat]. destruct row; cbn [hd nth]; lia.
  - rewrite val_S. rewrite (IH (tl row)). rewrite (val_S d row).
    rewrite (Nnat.Nat2N.inj_succ d), N.pow_succ_r'. destruct row as [|x r]; cbn [hd tl nth]; [destruct d; lia|]. lia.
Qed.

Lemma val_bound nn : forall d row, (forall i, nth i row 0 <= nn) -> val d row + nn <= nn * 2 ^ N.of_nat d.
Proof.
  induction d as [|d IH]; intros row H.
  - cbn [val N.of_nat]. change (2 ^ 0) with 1. lia.
  - rewrite val_snoc. specialize (IH row H). pose proof (H d).
    rewrite (Nnat.Nat2N.inj_succ d), N.pow_succ_r'. lia.
Qed.

(* the first height with as <= 2^height never hits the `break` *)
Lemma top_nonzero n h row : good_row n h row -> (1 <= h)%nat -> (2 ^ (h - 1) < n)%nat -> nth (h - 1) row 0 <> 0.
Proof.
  intros G H1 Hp Z. destruct h as [|d]; [lia|]. replace (S d - 1)%nat with d in * by lia.
  pose proof (g_val _ _ _ G) as V. rewrite val_snoc, Z in V. replace (S d - 1)%nat with d in V by lia.
  assert (B : forall i, nth i row 0 <= N.of_nat n).
  { intro i. induction i as [|i IHi]; [rewrite (g_top _ _ _ G); lia|].
    pose proof (g_mono _ _ _ G (S i) ltac:(lia)) as M. replace (S i - 1)%nat with i in M by lia. lia. }
  pose proof (val_bound (N.of_nat n) d row B) as VB.
  assert (E : N.of_nat (2 ^ d) = 2 ^ N.of_nat d) by (rewrite Nnat.Nat2N.inj_pow; reflexivity).
  assert (N.of_nat (2 ^ d) < N.of_nat n) by lia. nia.
Qed.

Lemma mod_chain X c D s k : X mod M32 = (c + s) mod M32 -> c mod M32 = D mod M32 ->
  (X + 5 + k) mod M32 = (D + s + (5 + k)) mod M32.
Proof.
  intros H1 H2. rewrite <- N.add_assoc. rewrite <- N.add_mod_idemp_l by exact M32_pos. rewrite H1.
  rewrite N.add_mod_idemp_l by exact M32_pos. rewrite <- !N.add_assoc.
  rewrite <- N.add_mod_idemp_l by exact M32_pos. rewrite H2. rewrite N.add_mod_idemp_l by exact M32_pos. reflexivity.
Qed.

(* ---- the height loop with its cost ----------------------------------------------------------------------------- *)
Section HeightCost.
Variable f : list N.
Notation n := (length f).
Hypothesis Hn3 : (3 <= n)%nat.
Hypothesis Hnmax : (n <= N.to_nat MAX_ALPHA_SIZE)%nat.
Hypothesis Hf : Forall (fun x => x < U32) f.
Hypothesis HB : MAX_ALPHA_SIZE * lsum f < 2 ^ 32.
Let lw := make_leaf_weight f.
Variable t : list (list N).
Hypothesis Ht : length t = S MCL.
Hypothesis Hgood : forall h, (1 <= h)%nat -> (h <= 20)%nat -> (n <= 2 ^ h)%nat -> good_row n h (nth h t []).

Let Hn2 : (2 <= n)%nat. Proof. lia. Qed.
Let Hlw : length lw = S n := lw_length f.
Let Hlow := sym_low f Hnmax.
Let Hsym := sym_lt f Hnmax.
Let Hinj := sym_inj f Hnmax.

(* the lengths assign_codes derives for height h, and their cost *)
Definition Lc (h : nat) : list N := apply_writes lw (combine (seq 0 n) (dlist (nth h t []) 1 h)) (repeat 0 n).
Definition HC (h : nat) : N := dot f (Lc h) + tree_cost (Lc h).

Lemma writes_indep dl len len' : length dl = n -> length len = n -> length len' = n ->
  apply_writes lw (combine (seq 0 n) dl) len = apply_writes lw (combine (seq 0 n) dl) len'.
Proof.
  intros Hd H1 H2. apply nth_ext with (d := 0) (d' := 0); [rewrite !apply_writes_length; lia|].
  intros s Hs. rewrite apply_writes_length, H1 in Hs.
  pose proof (sigma_perm lw n Hlw Hlow Hsym Hinj) as P.
  assert (Hin : In s (map (symj lw) (seq 0 n))).
  { apply (Permutation_in _ (Permutation_sym P)). apply in_seq. lia. }
  apply in_map_iff in Hin. destruct Hin as [j [<- Hj]]. apply in_seq in Hj.
  rewrite !(full_writes_nth lw n Hlw Hlow Hsym Hinj) by (auto; lia). reflexivity.
Qed.

Section OneHeight.
Variable h : nat.
Hypothesis H1 : (1 <= h)%nat.
Hypothesis H20 : (h <= 20)%nat.
Hypothesis Hp : (n <= 2 ^ h)%nat.

Let dl := dlist (nth h t []) 1 h.
Let Hdl : length dl = n.
Proof. apply (good_dlist_length n h _ (Hgood h H1 H20 Hp) H1 H20 ltac:(lia) MCL_20). Qed.

Lemma Lc_length : length (Lc h) = n.
Proof. unfold Lc. rewrite apply_writes_length. apply repeat_length. Qed.

Lemma Lc_perm : Permutation (Lc h) dl.
Proof. unfold Lc. apply full_writes_perm; auto. apply repeat_length. Qed.

Lemma Lc_range : Forall (fun l => 1 <= l <= N.of_nat h) (Lc h).
Proof.
  apply Forall_forall. intros l Hl. apply (Permutation_in _ Lc_perm) in Hl.
  pose proof (dlist_range (nth h t []) h 1) as DR. rewrite Forall_forall in DR. specialize (DR l Hl). lia.
Qed.

(* the accumulated frequency * depth sum is the dot product with the final lengths *)
Lemma D_eq : dot (map Fq (firstn n (skipn 1 lw))) dl = dot f (Lc h).
Proof.
  assert (E : map Fq (firstn n (skipn 1 lw)) = rev (xs_of f)).
  { unfold lw, make_leaf_weight. cbn [skipn]. fold (labels f).
    rewrite firstn_all2 by (rewrite (sorted_len f); lia).
    rewrite rev_xs_of. apply map_ext_in. intros w Hw.
    pose proof (sorted_shaped f Hnmax Hf) as S. rewrite Forall_forall in S. apply Fq_shaped. apply S. exact Hw. }
  rewrite E. symmetry.
  apply (dot_reindex n f (Lc h) (rev (xs_of f)) dl (symj lw)); try reflexivity.
  - apply Lc_length.
  - rewrite rev_length. apply xs_length.
  - exact Hdl.
  - apply sigma_perm; auto.
  - intros j Hj. split.
    + rewrite rev_xs_of. rewrite (nth_indep _ 0 (Fof 0)) by (rewrite map_length, sorted_len; exact Hj).
      rewrite map_nth. apply Fof_sorted; assumption.
    + unfold Lc. symmetry. apply full_writes_nth; auto. apply repeat_length.
Qed.

Lemma HC_bound2 : HC h <= 20 * lsum f + 10583.
Proof.
  unfold HC, tree_cost. rewrite Lc_length.
  assert (R : Forall (fun v => v <= 20) (Lc h)).
  { eapply Forall_impl; [|apply Lc_range]. cbn beta. intros; lia. }
  pose proof (dot_le 20 f (Lc h) R) as B1. pose proof (sdelta_bound 20 (Lc h) R) as B2. rewrite Lc_length in B2.
  pose proof Hnmax as Hnm. clear - Hnm B1 B2.
  rewrite MAS_258 in Hnm. lia.
Qed.

Lemma HC_bound : HC h < MAX32.
Proof.
  pose proof HC_bound2 as B. pose proof HB as HB'. clear - B HB'.
  change MAX_ALPHA_SIZE with 258 in HB'. change (2 ^ 32) with 4294967296 in HB'.
  change MAX32 with 4294967295. lia.
Qed.

Lemma height_cost_val len : length len = n ->
  height_cost h (nth h t []) lw n len = Ok (Lc h, HC h, n).
Proof.
  intro Hlen. unfold height_cost.
  destruct (row_lengths_ok f Hn2 Hnmax t Ht Hgood h len 0 H1 H20 Hp Hlen) as [c [E _]].
  fold lw in E. fold dl in E. rewrite E. cbn [bind].
  apply per_depth_cost in E. destruct E as [_ E]. fold dl in E. rewrite Hdl in E. rewrite N.add_0_l in E.
  rewrite (writes_indep dl len (repeat 0 n) Hdl Hlen (repeat_length _ _)).
  change (apply_writes lw (combine (seq 0 n) dl) (repeat 0 n)) with (Lc h).
  f_equal. f_equal. f_equal.
  rewrite land_M32.
  rewrite (mod_chain _ c (dot (map Fq (firstn n (skipn 1 lw))) dl) (2 * sdelta (Lc h)) (N.of_nat n)
             (delta_cost_mod _ _) E).
  rewrite D_eq. pose proof HC_bound as B. unfold HC, tree_cost in *. rewrite Lc_length in *.
  rewrite N.mod_small; [lia|]. change M32 with 4294967296. change MAX32 with 4294967295 in B. lia.
Qed.
End OneHeight.

Definition hinv (bc : N) (bh : nat) : Prop := (2 <= bh)%nat /\ (bh <= 20)%nat /\ (n <= 2 ^ bh)%nat /\ bc = HC bh.

Lemma heights_rest : forall k height len bc bh len' bc' bh', (height + k = S MCL)%nat -> (2 <= height)%nat ->
  length len = n -> hinv bc bh ->
  heights_loop k height t lw n len bc bh = Ok (len', bc', bh') -> hinv bc' bh'.
Proof.
  induction k as [|k IH]; intros height len bc bh len' bc' bh' Hk Hh Hlen I H; cbn [heights_loop] in H.
  - inversion H; subst. exact I.
  - rewrite MCL_20 in Hk.
    destruct (N.shiftl 1 (N.of_nat height) <? N.of_nat n) eqn:Ecmp.
    + eapply IH; [| |exact Hlen|exact I|exact H]; [rewrite MCL_20|]; lia.
    + apply (shift_cmp f Hn2 Hnmax t Ht Hgood) in Ecmp.
      rewrite (rd_ok ATree t height []) in H by (rewrite Ht, MCL_20; lia). cbn [bind] in H.
      pose proof (Hgood height ltac:(lia) ltac:(lia) Ecmp) as G.
      rewrite (rd_ok ARow (nth height t []) (height - 1) 0) in H by (rewrite (g_len _ _ _ G), MCL_20; lia).
      cbn [bind] in H.
      destruct (nth (height - 1) (nth height t []) 0 =? 0); [inversion H; subst; exact I|].
      rewrite (height_cost_val height ltac:(lia) ltac:(lia) Ecmp len Hlen) in H. cbn [bind] in H.
      destruct (HC height <? bc).
      * eapply IH; [| | | |exact H]; [rewrite MCL_20; lia|lia|apply Lc_length; lia|].
        unfold hinv. repeat split; lia || assumption.
      * eapply IH; [| | |exact I|exact H]; [rewrite MCL_20; lia|lia|apply Lc_length; lia].
Qed.

Lemma heights_first : forall k height len len' bc' bh', (height + k = S MCL)%nat -> (2 <= height)%nat ->
  length len = n -> (2 ^ (height - 1) < n)%nat ->
  heights_loop k height t lw n len MAX32 MCL = Ok (len', bc', bh') -> hinv bc' bh'.
Proof.
  induction k as [|k IH]; intros height len len' bc' bh' Hk Hh Hlen Hlow' H; cbn [heights_loop] in H.
  - exfalso. rewrite MCL_20 in Hk. assert (height = 21)%nat by lia. subst height.
    pose proof Hnmax as Hnm. rewrite MAS_258 in Hnm.
    assert (P9 : (2 ^ 9 <= 2 ^ (21 - 1))%nat) by (apply Nat.pow_le_mono_r; lia).
    change (2 ^ 9)%nat with 512%nat in P9. lia.
  - rewrite MCL_20 in Hk.
    destruct (N.shiftl 1 (N.of_nat height) <? N.of_nat n) eqn:Ecmp.
    + assert (Hlt : (2 ^ height < n)%nat).
      { destruct (Nat.lt_ge_cases (2 ^ height) n) as [L|L]; [exact L|].
        apply (shift_cmp f Hn2 Hnmax t Ht Hgood) in L. rewrite L in Ecmp. discriminate. }
      eapply IH; [| |exact Hlen| |exact H]; [rewrite MCL_20; lia|lia|].
      replace (S height - 1)%nat with height by lia. exact Hlt.
    + apply (shift_cmp f Hn2 Hnmax t Ht Hgood) in Ecmp.
      rewrite (rd_ok ATree t height []) in H by (rewrite Ht, MCL_20; lia). cbn [bind] in H.
      pose proof (Hgood height ltac:(lia) ltac:(lia) Ecmp) as G.
      rewrite (rd_ok ARow (nth height t []) (height - 1) 0) in H by (rewrite (g_len _ _ _ G), MCL_20; lia).
      cbn [bind] in H.
      pose proof (top_nonzero n height _ G ltac:(lia) Hlow') as NZ.
      replace (nth (height - 1) (nth height t []) 0 =? 0) with false in H by (symmetry; apply N.eqb_neq; exact NZ).
      rewrite (height_cost_val height ltac:(lia) ltac:(lia) Ecmp len Hlen) in H. cbn [bind] in H.
      pose proof (HC_bound height ltac:(lia) ltac:(lia) Ecmp) as B.
      replace (HC height <? MAX32) with true in H by (symmetry; apply N.ltb_lt; exact B).
      eapply (heights_rest k (S height)); [| | | |exact H]; [rewrite MCL_20; lia|lia|apply Lc_length; lia|].
      unfold hinv. repeat split; lia || assumption.
Qed.
End HeightCost.

(* ---- the theorem ---------------------------------------------------------------------------------------------------- *)
Theorem assign_lengths_cost f len0 r : pm_input_ok f -> (3 <= length f)%nat -> length len0 = length f ->
  assign_lengths len0 f = Ok r ->
  r_cost r = dot f (r_lengths r) + tree_cost (r_lengths r) /\ r_cost r <= 20 * lsum f + 10583.
Proof.
  intros Hin Hn3 Hlen0 H. pose proof (pm_input_bound f Hin) as HB. destruct Hin as [H2 [Hm [Hf HB']]].
  destruct (package_merge_rows f H2 Hm Hf HB ltac:(rewrite MCL_20; lia)) as [s [EP [Wf Rows]]].
  assert (Hgood : forall h, (1 <= h)%nat -> (h <= 20)%nat -> (length f <= 2 ^ h)%nat ->
                            good_row (length f) h (nth h (tree s) [])).
  { intros h H1 H20 Hp. rewrite Rows by (rewrite ?MCL_20; lia). apply ideal_row_good; assumption. }
  pose proof (wf_tree s Wf) as Ht.
  unfold assign_lengths in H. rewrite EP in H. cbn [bind] in H.
  destruct (heights_loop_ok f H2 Hm (tree s) Ht Hgood (MCL - 1) 2 len0 MAX32 MCL
              ltac:(rewrite MCL_20; lia) ltac:(lia) Hlen0) as [len1 [bc [bh [EH [L1 _]]]]].
  rewrite EH in H. cbn [bind] in H.
  pose proof (heights_first f Hn3 Hm Hf HB' (tree s) Ht Hgood (MCL - 1) 2 len0 len1 bc bh
                ltac:(rewrite MCL_20; lia) ltac:(lia) Hlen0 ltac:(cbn; lia) EH) as [B2 [B20 [Bp Ebc]]].
  rewrite (rd_ok ATree (tree s) bh []) in H by (rewrite Ht, MCL_20; lia). cbn [bind] in H.
  destruct (row_lengths_ok f H2 Hm (tree s) Ht Hgood bh len1 0 ltac:(lia) B20 Bp L1) as [c [E DL]].
  rewrite E in H. cbn [bind] in H.
  destruct (negb _) in H; [discriminate|]. destruct (negb _) in H; [discriminate|].
  inversion H; subst r. cbn [r_cost r_lengths].
  rewrite (writes_indep f Hn3 Hm HB' (tree s) Ht Hgood _ len1 (repeat 0 (length f)) DL L1 (repeat_length _ _)).
  fold (Lc f (tree s) bh). split; [exact Ebc|].
  rewrite Ebc. apply (HC_bound2 f Hn3 Hm HB' (tree s) Ht Hgood bh); lia || assumption.
Qed.

Print Assumptions assign_lengths_cost.
