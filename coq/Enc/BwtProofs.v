(* ibwt (the linked-list inverse BWT of decode()) inverts the specification-level
   BWT (last column of the sorted rotation matrix). *)
From Coq Require Import List NArith Arith Bool Lia Sorting.Mergesort Orders Sorted Permutation.
From LBZ Require Import Common.Bits Dec.Format Enc.EncModel.
Import ListNotations.
Local Open Scope N_scope.

(* ====================================================================================== *)
(* Group 1: lex_leb is a transitive, antisymmetric order; sorted + permutation => equal  *)
(* ====================================================================================== *)
Definition lle (a b : list N) : Prop := is_true (lex_leb a b).

Lemma lex_leb_trans : forall a b c, lex_leb a b = true -> lex_leb b c = true -> lex_leb a c = true.
Proof.
  induction a as [|x a IH]; intros [|y b] [|z c]; cbn [lex_leb]; auto; try discriminate.
  destruct (N.ltb_spec x y) as [Hxy|Hxy].
  - intros _. destruct (N.ltb_spec y z) as [Hyz|Hyz].
    + intros _. destruct (N.ltb_spec x z); auto. lia.
    + destruct (N.ltb_spec z y) as [Hzy|Hzy]; [discriminate|].
      intros _. destruct (N.ltb_spec x z); auto. lia.
  - destruct (N.ltb_spec y x) as [Hyx|Hyx]; [discriminate|].
    assert (x = y) by lia. subst y. intros Hab.
    destruct (N.ltb_spec x z) as [Hxz|Hxz]; auto.
    destruct (N.ltb_spec z x) as [Hzx|Hzx]; [discriminate|].
    intros Hbc. eapply IH; eauto.
Qed.

Lemma lex_leb_antisym : forall a b, lex_leb a b = true -> lex_leb b a = true -> a = b.
Proof.
  induction a as [|x a IH]; intros [|y b]; cbn [lex_leb]; auto; try discriminate.
  destruct (N.ltb_spec x y) as [Hxy|Hxy].
  - intros _. destruct (N.ltb_spec y x) as [Hyx|Hyx]; [lia|discriminate].
  - destruct (N.ltb_spec y x) as [Hyx|Hyx]; [discriminate|].
    intros H1 H2. assert (x = y) by lia. subst y. f_equal. auto.
Qed.

Lemma lle_trans : Relations_1.Transitive lle.
Proof. intros a b c. unfold lle, is_true. apply lex_leb_trans. Qed.

Lemma lex_leb_cons_same : forall c a b, lex_leb (c :: a) (c :: b) = lex_leb a b.
Proof. intros. cbn [lex_leb]. rewrite N.ltb_irrefl. reflexivity. Qed.

Lemma lex_leb_cons_lt : forall c d a b, c < d -> lex_leb (c :: a) (d :: b) = true.
Proof. intros c d a b H. cbn [lex_leb]. apply N.ltb_lt in H. rewrite H. reflexivity. Qed.

Lemma lex_leb_snoc : forall c a b, length a = length b ->
  lex_leb (a ++ [c]) (b ++ [c]) = true -> lex_leb a b = true.
Proof.
  induction a as [|x a IH]; intros [|y b] Hlen; cbn [length] in Hlen; try discriminate; auto.
  cbn [app lex_leb].
  destruct (x <? y); auto. destruct (y <? x); auto.
Qed.

Section Unique.
  Variable A : Type.
  Variable le : A -> A -> Prop.
  Hypothesis le_antisym : forall a b, le a b -> le b a -> a = b.

  Lemma sorted_perm_eq : forall l1 l2,
    StronglySorted le l1 -> StronglySorted le l2 -> Permutation l1 l2 -> l1 = l2.
  Proof.
    induction l1 as [|a l1 IH]; intros l2 S1 S2 HP.
    - apply Permutation_nil in HP. auto.
    - destruct l2 as [|b l2]; [apply Permutation_sym, Permutation_nil in HP; discriminate|].
      apply StronglySorted_inv in S1. destruct S1 as [S1 F1].
      apply StronglySorted_inv in S2. destruct S2 as [S2 F2].
      assert (Hab : a = b).
      { assert (Ia : In a (b :: l2)) by (eapply Permutation_in; [exact HP|left; reflexivity]).
        assert (Ib : In b (a :: l1)) by (eapply Permutation_in; [apply Permutation_sym; exact HP|left; reflexivity]).
        destruct Ia as [Ia|Ia]; [auto|]. destruct Ib as [Ib|Ib]; [auto|].
        rewrite Forall_forall in F1, F2. apply le_antisym; auto. }
      subst b. f_equal. apply IH; auto. eapply Permutation_cons_inv; eauto.
  Qed.

  Lemma SS_app : forall l1 l2, StronglySorted le l1 -> StronglySorted le l2 ->
    (forall a b, In a l1 -> In b l2 -> le a b) -> StronglySorted le (l1 ++ l2).
  Proof.
    induction l1 as [|a l1 IH]; intros l2 S1 S2 H; cbn [app]; auto.
    apply StronglySorted_inv in S1. destruct S1 as [S1 F1].
    constructor.
    - apply IH; auto. intros; apply H; auto. right; auto.
    - apply Forall_app. split; auto. apply Forall_forall. intros b Hb. apply H; auto. left; auto.
  Qed.

  Lemma SS_filter : forall (f : A -> bool) l, StronglySorted le l -> StronglySorted le (filter f l).
  Proof.
    induction l as [|a l IH]; intros S; cbn [filter]; auto.
    apply StronglySorted_inv in S. destruct S as [S F].
    destruct (f a); auto. constructor; auto.
    rewrite Forall_forall in *. intros x Hx. apply filter_In in Hx. apply F, Hx.
  Qed.

  Lemma SS_map_in : forall (g : A -> A) l,
    (forall a b, In a l -> In b l -> le a b -> le (g a) (g b)) ->
    StronglySorted le l -> StronglySorted le (map g l).
  Proof.
    induction l as [|a l IH]; intros Hg S; cbn [map]; [constructor|].
    apply StronglySorted_inv in S. destruct S as [S F].
    constructor.
    - apply IH; auto. intros; apply Hg; auto; right; auto.
    - rewrite Forall_forall in *. intros y Hy. apply in_map_iff in Hy. destruct Hy as [x [<- Hx]].
      apply Hg; auto; [left; auto|right; auto].
  Qed.
End Unique.

(* ====================================================================================== *)
(* Group 2: rotation algebra                                                             *)
(* ====================================================================================== *)
Definition rotr (r : list N) : list N := last r 0 :: removelast r.

Lemma rot_app : forall (l1 l2 : list N), rot (length l1) (l1 ++ l2) = l2 ++ l1.
Proof.
  intros. unfold rot. rewrite skipn_app, firstn_app, skipn_all, firstn_all, Nat.sub_diag.
  cbn [skipn firstn app]. rewrite app_nil_r. reflexivity.
Qed.

Lemma rot_0 : forall (l : list N), rot 0 l = l.
Proof. intros. unfold rot. cbn [skipn firstn]. apply app_nil_r. Qed.

Lemma rotr_snoc : forall l x, rotr (l ++ [x]) = x :: l.
Proof. intros. unfold rotr. rewrite last_last, removelast_last. reflexivity. Qed.

Lemma rotr_rot_S : forall i (l : list N), (i < length l)%nat -> rotr (rot (S i) l) = rot i l.
Proof.
  intros i l Hi.
  assert (Hsplit : exists l1 x l2, l = l1 ++ x :: l2 /\ length l1 = i).
  { exists (firstn i l). destruct (skipn i l) as [|x l2] eqn:Hs.
    - apply (f_equal (@length N)) in Hs. rewrite skipn_length in Hs. cbn [length] in Hs. lia.
    - exists x, l2. split.
      + rewrite <- Hs. symmetry. apply firstn_skipn.
      + apply firstn_length_le. lia. }
  destruct Hsplit as [l1 [x [l2 [-> Hl1]]]]. subst i.
  rewrite rot_app.
  replace (S (length l1)) with (length (l1 ++ [x])) by (rewrite app_length; cbn [length]; lia).
  replace (l1 ++ x :: l2) with ((l1 ++ [x]) ++ l2) by (rewrite <- app_assoc; reflexivity).
  rewrite rot_app, app_assoc, rotr_snoc. reflexivity.
Qed.

Lemma rot_length : forall i (l : list N), length (rot i l) = length l.
Proof.
  intros. unfold rot. rewrite app_length, Nat.add_comm, <- app_length, firstn_skipn. reflexivity.
Qed.

Lemma rot_In : forall i (l : list N) x, In x (rot i l) -> In x l.
Proof.
  intros i l x H. unfold rot in H. rewrite <- (firstn_skipn i l).
  apply in_app_or in H. apply in_or_app. tauto.
Qed.

Lemma rotations_length : forall (l : list N), length (rotations l) = length l.
Proof. intros. unfold rotations. rewrite map_length, seq_length. reflexivity. Qed.

Lemma rotations_rotr_perm : forall (l : list N), Permutation (map rotr (rotations l)) (rotations l).
Proof.
  intros l. destruct l as [|y l0]; [constructor|].
  destruct (@exists_last _ (y :: l0)) as [l1 [x Hl]]; [discriminate|].
  rewrite Hl. clear Hl y l0. unfold rotations. rewrite map_map.
  rewrite app_length. cbn [length]. rewrite Nat.add_1_r.
  set (l := l1 ++ [x]). set (m := length l1).
  assert (Hlen : length l = S m) by (unfold l, m; rewrite app_length; cbn [length]; lia).
  rewrite seq_S at 2. cbn [seq map]. rewrite map_app. cbn [map Nat.add].
  assert (H0 : rotr (rot 0 l) = rot m l).
  { rewrite rot_0. unfold l, m. rewrite rot_app, rotr_snoc. reflexivity. }
  rewrite H0. rewrite <- seq_shift, map_map.
  rewrite (map_ext_in (fun i => rotr (rot (S i) l)) (fun i => rot i l)).
  - apply Permutation_cons_append.
  - intros i Hi. apply in_seq in Hi. apply rotr_rot_S. lia.
Qed.

(* ====================================================================================== *)
(* Group 3: the stable counting sort by last byte, on rows and as stable_perm             *)
(* ====================================================================================== *)
Definition bytes : list N := map N.of_nat (seq 0 256).
Definition lastb (r : list N) : N := last r 0.

(* rows of R bucketed by their last byte (stable), last byte moved to the front *)
Definition stab (R : list (list N)) : list (list N) :=
  flat_map (fun c => map rotr (filter (fun r => N.eqb c (lastb r)) R)) bytes.

(* stable_perm with nat indices *)
Definition Pn (tt : list N) : list nat :=
  flat_map (fun c => map fst (filter (fun p : nat * N => N.eqb c (snd p)) (combine (seq 0 (length tt)) tt))) bytes.

Lemma map_flat_map : forall (A B C : Type) (f : B -> C) (g : A -> list B) l,
  map f (flat_map g l) = flat_map (fun x => map f (g x)) l.
Proof.
  induction l as [|a l IH]; cbn [flat_map map]; auto. rewrite map_app, IH. reflexivity.
Qed.

Lemma stable_perm_Pn : forall tt, stable_perm tt = map N.of_nat (Pn tt).
Proof.
  intros. unfold stable_perm, Pn, bytes. rewrite map_flat_map.
  apply flat_map_ext. intros c. rewrite map_map. reflexivity.
Qed.

Lemma Pn_bound : forall tt i, In i (Pn tt) -> (i < length tt)%nat.
Proof.
  intros tt i H. unfold Pn in H. apply in_flat_map in H. destruct H as [c [_ H]].
  apply in_map_iff in H. destruct H as [[i' v] [Hi H]]. cbn [fst] in Hi. subst i'.
  apply filter_In in H. destruct H as [H _]. apply in_combine_l in H. apply in_seq in H. lia.
Qed.

Lemma idx_filter : forall (f : N -> bool) (g : list N -> N) (R : list (list N)) k,
  map (fun p : nat * N => nth (fst p - k) R [])
      (filter (fun p => f (snd p)) (combine (seq k (length R)) (map g R)))
  = filter (fun r => f (g r)) R.
Proof.
  intros f g. induction R as [|r R IH]; intros k; [reflexivity|].
  cbn [length seq map combine filter snd].
  assert (Hrest : map (fun p : nat * N => nth (fst p - k) (r :: R) [])
                    (filter (fun p => f (snd p)) (combine (seq (S k) (length R)) (map g R)))
                  = filter (fun r => f (g r)) R).
  { rewrite <- (IH (S k)). apply map_ext_in. intros p Hp.
    apply filter_In in Hp. destruct Hp as [Hp _]. destruct p as [i v].
    apply in_combine_l in Hp. apply in_seq in Hp. cbn [fst].
    replace (i - k)%nat with (S (i - S k)) by lia. reflexivity. }
  destruct (f (g r)).
  - cbn [map fst]. rewrite Nat.sub_diag. cbn [nth]. f_equal. exact Hrest.
  - exact Hrest.
Qed.

Lemma stab_Pn : forall R, map (fun i => rotr (nth i R [])) (Pn (map lastb R)) = stab R.
Proof.
  intros R. unfold Pn, stab. rewrite map_flat_map. apply flat_map_ext. intros c.
  rewrite map_map, map_length.
  rewrite <- (idx_filter (N.eqb c) lastb R 0), map_map.
  apply map_ext. intros p. rewrite Nat.sub_0_r. reflexivity.
Qed.

Lemma bytes_In : forall c, In c bytes <-> c < 256.
Proof.
  intros c. unfold bytes. rewrite in_map_iff. split.
  - intros [i [<- Hi]]. apply in_seq in Hi. lia.
  - intros H. exists (N.to_nat c). split; [apply N2Nat.id|]. apply in_seq. lia.
Qed.

Lemma SS_lt_of_nat_seq : forall n a, StronglySorted N.lt (map N.of_nat (seq a n)).
Proof.
  induction n as [|n IH]; intros a; cbn [seq map]; constructor; auto.
  apply Forall_forall. intros y Hy. apply in_map_iff in Hy. destruct Hy as [i [<- Hi]].
  apply in_seq in Hi. lia.
Qed.

Lemma bytes_SS : StronglySorted N.lt bytes.
Proof. apply SS_lt_of_nat_seq. Qed.

Lemma flat_map_ext_in : forall {A B : Type} (f g : A -> list B) l,
  (forall a, In a l -> f a = g a) -> flat_map f l = flat_map g l.
Proof.
  induction l as [|a l IH]; intros H; cbn [flat_map]; auto.
  rewrite H by (left; auto). rewrite IH; auto. intros; apply H; right; auto.
Qed.

(* bucketing by key is a permutation *)
Lemma bucket_perm_cons : forall (key : list N -> N) (x : list N) (X : list (list N)) ks,
  StronglySorted N.lt ks -> In (key x) ks ->
  Permutation (flat_map (fun c => filter (fun r => N.eqb c (key r)) (x :: X)) ks)
              (x :: flat_map (fun c => filter (fun r => N.eqb c (key r)) X) ks).
Proof.
  intros key x X. induction ks as [|k ks IH]; intros SS Hin; [destruct Hin|].
  apply StronglySorted_inv in SS. destruct SS as [SS Fk].
  cbn [flat_map filter]. destruct (N.eqb_spec k (key x)) as [E|E].
  - cbn [app]. constructor. apply Permutation_app_head.
    rewrite (flat_map_ext_in (fun c => filter (fun r => N.eqb c (key r)) (x :: X))
                             (fun c => filter (fun r => N.eqb c (key r)) X)); [reflexivity|].
    intros c Hc. cbn [filter]. rewrite Forall_forall in Fk. specialize (Fk c Hc).
    destruct (N.eqb_spec c (key x)); [lia|reflexivity].
  - destruct Hin as [Hin|Hin]; [congruence|].
    eapply Permutation_trans; [apply Permutation_app_head; apply IH; auto|].
    apply Permutation_sym, Permutation_middle.
Qed.

Lemma bucket_perm : forall (key : list N -> N) ks (X : list (list N)),
  StronglySorted N.lt ks -> (forall x, In x X -> In (key x) ks) ->
  Permutation (flat_map (fun c => filter (fun r => N.eqb c (key r)) X) ks) X.
Proof.
  intros key ks X SS. induction X as [|x X IH]; intros Hin.
  - cbn [filter]. clear. induction ks as [|k ks IHk]; cbn [flat_map app]; auto.
  - eapply Permutation_trans; [apply bucket_perm_cons; auto; apply Hin; left; auto|].
    constructor. apply IH. intros; apply Hin; right; auto.
Qed.

Lemma stab_perm : forall R, (forall r, In r R -> lastb r < 256) -> Permutation (stab R) (map rotr R).
Proof.
  intros R H. unfold stab. rewrite <- map_flat_map. apply Permutation_map.
  apply bucket_perm; [apply bytes_SS|]. intros x Hx. apply bytes_In. auto.
Qed.

Lemma rotr_mono : forall a b, a <> [] -> b <> [] -> length a = length b -> lastb a = lastb b ->
  lex_leb a b = true -> lex_leb (rotr a) (rotr b) = true.
Proof.
  intros a b Ha Hb Hlen Hlast Hle.
  destruct (exists_last Ha) as [a' [x ->]]. destruct (exists_last Hb) as [b' [y ->]].
  unfold lastb in Hlast. rewrite !last_last in Hlast. subst y.
  rewrite !rotr_snoc, lex_leb_cons_same. apply lex_leb_snoc with (c := x); auto.
  rewrite !app_length in Hlen. cbn [length] in Hlen. lia.
Qed.

Lemma stab_sorted_gen : forall n R ks,
  StronglySorted lle R -> (forall r, In r R -> length r = S n) ->
  StronglySorted N.lt ks ->
  StronglySorted lle (flat_map (fun c => map rotr (filter (fun r => N.eqb c (lastb r)) R)) ks).
Proof.
  intros n R ks SR Hlen. induction ks as [|c ks IH]; intros SS; cbn [flat_map]; [constructor|].
  apply StronglySorted_inv in SS. destruct SS as [SS Fc].
  assert (Hne : forall r, In r R -> r <> []).
  { intros r Hr E. apply Hlen in Hr. subst r. discriminate. }
  apply SS_app; auto.
  - apply SS_map_in; [|apply SS_filter; exact SR].
    intros a b Ia Ib Hab. apply filter_In in Ia, Ib. destruct Ia as [Ia Ea], Ib as [Ib Eb].
    apply N.eqb_eq in Ea, Eb. unfold lle, is_true in *.
    apply rotr_mono; auto; try congruence. rewrite (Hlen a Ia), (Hlen b Ib). reflexivity.
  - intros a b Ia Ib. apply in_map_iff in Ia. destruct Ia as [ra [<- Ia]].
    apply filter_In in Ia. destruct Ia as [Ia Ea]. apply N.eqb_eq in Ea.
    apply in_flat_map in Ib. destruct Ib as [d [Hd Ib]].
    apply in_map_iff in Ib. destruct Ib as [rb [<- Ib]].
    apply filter_In in Ib. destruct Ib as [Ib Eb]. apply N.eqb_eq in Eb.
    rewrite Forall_forall in Fc. specialize (Fc d Hd).
    unfold lle, is_true, rotr. fold (lastb ra). fold (lastb rb). rewrite <- Ea, <- Eb.
    apply lex_leb_cons_lt. exact Fc.
Qed.

Lemma stab_sorted : forall n R,
  StronglySorted lle R -> (forall r, In r R -> length r = S n) -> StronglySorted lle (stab R).
Proof. intros. eapply stab_sorted_gen; eauto. apply bytes_SS. Qed.

(* ====================================================================================== *)
(* Group 4: the sorted rotation matrix is a fixpoint of [stab]; walking the linked list  *)
(* ====================================================================================== *)
Lemma sorted_rots_SS : forall blk, StronglySorted lle (sorted_rots blk).
Proof.
  intros. apply Sorted_StronglySorted; [apply lle_trans|]. apply LexSort.Sorted_sort.
Qed.

Lemma sorted_rots_length : forall blk, length (sorted_rots blk) = length blk.
Proof.
  intros. unfold sorted_rots. rewrite <- (Permutation_length (LexSort.Permuted_sort _)).
  apply rotations_length.
Qed.

Lemma sorted_rots_row : forall blk r, In r (sorted_rots blk) ->
  length r = length blk /\ (forall x, In x r -> In x blk).
Proof.
  intros blk r H. unfold sorted_rots in H.
  apply (Permutation_in _ (Permutation_sym (LexSort.Permuted_sort _))) in H.
  unfold rotations in H. apply in_map_iff in H. destruct H as [i [<- _]].
  split; [apply rot_length|apply rot_In].
Qed.

Lemma last_In : forall (r : list N), r <> [] -> In (lastb r) r.
Proof.
  intros r H. destruct (exists_last H) as [r' [x ->]]. unfold lastb. rewrite last_last.
  apply in_or_app. right. left. reflexivity.
Qed.

Lemma sorted_rots_fix : forall blk, blk <> [] -> Forall (fun c => c < 256) blk ->
  stab (sorted_rots blk) = sorted_rots blk.
Proof.
  intros blk Hne Hb.
  assert (Hlen : exists n, length blk = S n).
  { destruct blk as [|x b]; [congruence|]. exists (length b). reflexivity. }
  destruct Hlen as [n Hn].
  apply sorted_perm_eq with (le := lle).
  - intros a b. unfold lle, is_true. apply lex_leb_antisym.
  - apply stab_sorted with (n := n); [apply sorted_rots_SS|].
    intros r Hr. apply sorted_rots_row in Hr. lia.
  - apply sorted_rots_SS.
  - eapply Permutation_trans; [apply stab_perm|].
    + intros r Hr. apply sorted_rots_row in Hr. destruct Hr as [Hl Hin].
      rewrite Forall_forall in Hb. apply Hb, Hin, last_In. intros ->. cbn [length] in Hl. lia.
    + unfold sorted_rots.
      eapply Permutation_trans;
        [apply Permutation_map, Permutation_sym, LexSort.Permuted_sort|].
      eapply Permutation_trans; [apply rotations_rotr_perm|apply LexSort.Permuted_sort].
Qed.

Lemma bwt_last_lastb : forall blk, bwt_last blk = map lastb (sorted_rots blk).
Proof. reflexivity. Qed.

Section Walk.
  Variable blk : list N.
  Hypothesis Hne : blk <> [].
  Hypothesis Hb : Forall (fun c => c < 256) blk.

  Let R := sorted_rots blk.
  Let L := bwt_last blk.
  Let n := length blk.

  Lemma Pn_map_R : map (fun i => rotr (nth i R [])) (Pn L) = R.
  Proof.
    unfold L. rewrite bwt_last_lastb. fold R. rewrite stab_Pn. apply sorted_rots_fix; auto.
  Qed.

  Lemma Pn_length : length (Pn L) = n.
  Proof.
    rewrite <- (map_length (fun i => rotr (nth i R [])) (Pn L)), Pn_map_R.
    apply sorted_rots_length.
  Qed.

  Lemma L_length : length L = n.
  Proof. unfold L, bwt_last. rewrite map_length. apply sorted_rots_length. Qed.

  Lemma row_step : forall j, (j < n)%nat ->
    (nth j (Pn L) 0 < n)%nat /\ nth j R [] = rotr (nth (nth j (Pn L) 0%nat) R []).
  Proof.
    intros j Hj. split.
    - rewrite <- L_length. apply Pn_bound. apply nth_In. rewrite Pn_length. exact Hj.
    - transitivity (nth j (map (fun i => rotr (nth i R [])) (Pn L)) []).
      { rewrite Pn_map_R. reflexivity. }
      rewrite (nth_indep _ [] (rotr (nth 0%nat R [])))
        by (rewrite map_length, Pn_length; exact Hj).
      exact (map_nth (fun i => rotr (nth i R [])) (Pn L) 0%nat j).
  Qed.

  Lemma follow_rows : forall k j, (N.to_nat j < n)%nat -> (k <= n)%nat ->
    follow k (stable_perm L) L j = firstn k (nth (N.to_nat j) R []).
  Proof.
    induction k as [|k IH]; intros j Hj Hk; [reflexivity|].
    cbn [follow].
    destruct (row_step (N.to_nat j) Hj) as [Hj1 Hrow].
    set (j1 := nth (N.to_nat j) (Pn L) 0%nat) in *.
    assert (E1 : nth (N.to_nat j) (stable_perm L) 0 = N.of_nat j1).
    { rewrite stable_perm_Pn. change 0 with (N.of_nat 0). rewrite map_nth. reflexivity. }
    rewrite E1, Nat2N.id.
    assert (E2 : nth j1 L 0 = lastb (nth j1 R [])).
    { unfold L. rewrite bwt_last_lastb. fold R. change 0 with (lastb []). rewrite map_nth. reflexivity. }
    rewrite E2, Hrow.
    assert (Hr1 : In (nth j1 R []) R).
    { apply nth_In. unfold R. rewrite sorted_rots_length. exact Hj1. }
    apply sorted_rots_row in Hr1. destruct Hr1 as [Hl1 _]. fold n in Hl1.
    assert (Hne1 : nth j1 R [] <> []).
    { intros E. rewrite E in Hl1. cbn [length] in Hl1. lia. }
    rewrite (IH (N.of_nat j1)) by (rewrite ?Nat2N.id; lia). rewrite Nat2N.id.
    destruct (exists_last Hne1) as [r1 [x Er]]. rewrite Er in *.
    rewrite rotr_snoc. unfold lastb. rewrite last_last. cbn [firstn]. f_equal.
    rewrite app_length in Hl1. cbn [length] in Hl1.
    rewrite firstn_app. replace (k - length r1)%nat with 0%nat by lia.
    cbn [firstn]. apply app_nil_r.
  Qed.
End Walk.

Theorem ibwt_bwt : forall (blk : list N) (i : N),
  blk <> [] -> Forall (fun c => (c < 256)%N) blk -> valid_idx blk i ->
  ibwt (bwt_last blk) i = blk.
Proof.
  intros blk i Hne Hb Hv. unfold ibwt. unfold valid_idx in Hv.
  assert (Hi : (N.to_nat i < length blk)%nat).
  { rewrite <- (sorted_rots_length blk). apply nth_error_Some. rewrite Hv. discriminate. }
  rewrite L_length.
  rewrite follow_rows; auto.
  rewrite (nth_error_nth _ _ _ Hv). apply firstn_all.
Qed.

Print Assumptions ibwt_bwt.
