(* C20 - the explicit-stack loop of package_merge() is the recursive procedure [take]:
   one "take the next item at level d" = compare the next package of level d-1 with the next leaf;
   a package costs two further takes at level d-1.  Also: fuel and stack bounds of the loop. *)
From Coq Require Import List NArith Arith Bool Lia ZifyBool.
From LBZ Require Import Gen.Consts Enc.PmModel Enc.PmBasics.
Import ListNotations.
Local Open Scope N_scope.

Fixpoint take (lw : list N) (as_ : N) (d : nat) (s : pm_st) : res pm_st :=
  match d with
  | O => Err (Underflow 1)
  | S d1 =>
    do pw <- rd APkg (pkgw s) d1;
    do cw <- rd ACurr (currw s) (S d1);
    if pw <=? cw then
      match d1 with
      | O => Ok s
      | S _ => do s1 <- pm_take_pkg s (S d1) d1 pw; do s2 <- take lw as_ d1 s1; take lw as_ d1 s2
      end
    else pm_take_leaf lw as_ s (S d1) cw
  end.

(* body of the width loop, recursive form *)
Definition width_spec (lw : list N) (as_ : N) (s : pm_st) : res pm_st :=
  do s1 <- take lw as_ MCL s; take lw as_ MCL s1.

Fixpoint widths_spec (n : nat) (lw : list N) (as_ : N) (s : pm_st) : res pm_st :=
  match n with
  | O => Ok s
  | S n' => do s' <- width_spec lw as_ s; widths_spec n' lw as_ s'
  end.

(* ---- set_cnt ------------------------------------------------------------------------------------- *)
Lemma set_cnt_set_cnt s c c' : set_cnt (set_cnt s c) c' = set_cnt s c'.
Proof. reflexivity. Qed.

Lemma pm_take_pkg_cnt s c depth d1 pw :
  pm_take_pkg (set_cnt s c) depth d1 pw = do s1 <- pm_take_pkg s depth d1 pw; Ok (set_cnt s1 c).
Proof.
  unfold pm_take_pkg, set_cnt. cbn [tree pkgw prevw currw cnt].
  destruct (copy_row (tree s) depth d1) as [t'|e]; cbn [bind]; [|reflexivity].
  destruct (rd APrev (prevw s) depth) as [vw|e]; cbn [bind]; [|reflexivity].
  destruct (wr APkg (pkgw s) depth (weight_add vw pw)) as [p'|e]; cbn [bind]; [|reflexivity].
  destruct (wr APrev (prevw s) depth pw) as [v'|e]; cbn [bind]; reflexivity.
Qed.

Lemma pm_take_leaf_cnt lw as_ s c depth cw :
  pm_take_leaf lw as_ (set_cnt s c) depth cw = do s1 <- pm_take_leaf lw as_ s depth cw; Ok (set_cnt s1 c).
Proof.
  unfold pm_take_leaf, set_cnt. cbn [tree pkgw prevw currw cnt].
  destruct (rd2 (tree s) depth 0) as [t0|e]; cbn [bind]; [|reflexivity].
  destruct (wr2 (tree s) depth 0 (t0 + 1)) as [t'|e]; cbn [bind]; [|reflexivity].
  destruct (rd APrev (prevw s) depth) as [vw|e]; cbn [bind]; [|reflexivity].
  destruct (wr APkg (pkgw s) depth (weight_add vw cw)) as [p'|e]; cbn [bind]; [|reflexivity].
  destruct (wr APrev (prevw s) depth cw) as [v'|e]; cbn [bind]; [|reflexivity].
  destruct (t0 + 1 <=? as_); [|reflexivity].
  destruct (rd ALeaf lw (N.to_nat (as_ - (t0 + 1)))) as [nw|e]; cbn [bind]; [|reflexivity].
  destruct (wr ACurr (currw s) depth nw) as [c'|e]; cbn [bind]; reflexivity.
Qed.

Lemma pm_take_pkg_keeps_cnt s depth d1 pw s1 : pm_take_pkg s depth d1 pw = Ok s1 -> cnt s1 = cnt s.
Proof.
  unfold pm_take_pkg. intro H.
  apply bind_ok in H as [t' [_ H]]. apply bind_ok in H as [vw [_ H]].
  apply bind_ok in H as [p' [_ H]]. apply bind_ok in H as [v' [_ H]].
  inversion H; subst. reflexivity.
Qed.

(* ---- the loop performs [take] --------------------------------------------------------------------- *)
Section Exec.
Variable lw : list N.
Variable as_ : N.
Notation STEP := (pm_iter lw as_).

Lemma exec : forall d s s', take lw as_ d s = Ok s' ->
  forall c nd, (nd + d <= length c)%nat ->
  exists m c', (1 <= m)%nat /\ (m + 1 <= 2 ^ d)%nat /\ length c' = length c /\
    (forall i, (i < nd)%nat -> nth i c' 0 = nth i c 0) /\
    forall j, run (m + j) STEP (set_cnt s c, d, nd) =
              match pm_pop (set_cnt s' c') nd with Ok (inl x') => run j STEP x' | r => r end.
Proof.
  induction d as [|d1 IH]; intros s s' HT c nd Hnd; [discriminate|].
  cbn [take] in HT.
  apply bind_ok in HT as [pw [Epw HT]]. apply bind_ok in HT as [cw [Ecw HT]].
  assert (STEP1 : forall X (k : N -> N -> res X),
            (do pw0 <- rd APkg (pkgw (set_cnt s c)) d1; do cw0 <- rd ACurr (currw (set_cnt s c)) (S d1); k pw0 cw0) = k pw cw).
  { intros X k. unfold set_cnt; cbn [pkgw currw]. rewrite Epw; cbn [bind]. rewrite Ecw; cbn [bind]. reflexivity. }
  destruct (pw <=? cw) eqn:Ecmp.
  - destruct d1 as [|d2].
    + (* depth 1: nothing happens *)
      inversion HT; subst s'. exists 1%nat, c.
      split; [lia|]. split; [cbn [Nat.pow]; lia|]. split; [reflexivity|]. split; [auto|].
      intro j. cbn [run Nat.add]. unfold pm_iter at 1. rewrite STEP1, Ecmp. reflexivity.
    + (* package: two takes one level down *)
      apply bind_ok in HT as [s1 [E1 HT]]. apply bind_ok in HT as [s2 [E2 E3]].
      set (c1 := upd c nd (N.of_nat (S d2))).
      assert (Lc1 : length c1 = length c) by apply upd_length.
      destruct (IH s1 s2 E2 c1 (S nd)) as [m1 [c2 [M1 [B1 [L2 [A2 R1]]]]]]; [lia|].
      destruct (IH s2 s' E3 c2 nd) as [m2 [c3 [M2 [B2 [L3 [A3 R2]]]]]]; [lia|].
      exists (1 + m1 + m2)%nat, c3.
      split; [lia|]. split; [cbn [Nat.pow] in *; lia|]. split; [lia|]. split.
      * intros i Hi. rewrite A3 by exact Hi. rewrite A2 by lia. unfold c1. apply upd_nth_other. lia.
      * intro j. replace (1 + m1 + m2 + j)%nat with (S (m1 + (m2 + j)))%nat by lia. cbn [run].
        unfold pm_iter at 1. rewrite STEP1, Ecmp.
        rewrite pm_take_pkg_cnt, E1. cbn [bind]. unfold set_cnt at 1; cbn [cnt].
        rewrite wr_ok by lia. cbn [bind]. rewrite set_cnt_set_cnt. fold c1.
        rewrite R1. unfold pm_pop at 1. unfold set_cnt at 1; cbn [cnt].
        rewrite (rd_ok ACount c2 nd 0) by lia. cbn [bind].
        rewrite A2 by lia. unfold c1. rewrite upd_nth_same by lia. rewrite Nnat.Nat2N.id.
        apply R2.
  - (* leaf *)
    exists 1%nat, c. pose proof (Nat.pow_nonzero 2 d1 ltac:(lia)) as Hp.
    split; [lia|]. split; [cbn [Nat.pow]; lia|]. split; [reflexivity|]. split; [auto|].
    intro j. cbn [run Nat.add]. unfold pm_iter at 1. rewrite STEP1, Ecmp.
    rewrite pm_take_leaf_cnt, HT. cbn [bind]. reflexivity.
Qed.

(* one value of width: the loop terminates within the binary fuel and equals two takes at the top level *)
Lemma pm_width_spec s s' : width_spec lw as_ s = Ok s' ->
  forall c, (S MCL <= length c)%nat ->
  exists c', length c' = length c /\ pm_width lw as_ (set_cnt s c) = Ok (set_cnt s' c').
Proof.
  unfold width_spec. intros H c Hc. apply bind_ok in H as [s1 [E1 E2]].
  unfold pm_width. unfold set_cnt at 1; cbn [cnt]. rewrite wr_ok by lia. cbn [bind].
  rewrite set_cnt_set_cnt. set (c0 := upd c 0 MAX_CODE_LENGTH).
  assert (L0 : length c0 = length c) by apply upd_length.
  destruct (exec MCL s s1 E1 c0 1%nat) as [m1 [c1 [M1 [B1 [L1 [A1 R1]]]]]]; [lia|].
  destruct (exec MCL s1 s' E2 c1 0%nat) as [m2 [c2 [M2 [B2 [L2 [A2 R2]]]]]]; [lia|].
  exists c2. split; [lia|].
  rewrite iter2_run.
  assert (HF : (2 ^ PM_FUEL = m1 + (m2 + (2 ^ PM_FUEL - m1 - m2)))%nat).
  { unfold PM_FUEL. cbn [Nat.pow]. lia. }
  rewrite HF, R1. unfold pm_pop at 1. unfold set_cnt at 1; cbn [cnt].
  rewrite (rd_ok ACount c1 0 0) by lia. cbn [bind].
  rewrite A1 by lia. unfold c0. rewrite upd_nth_same by lia.
  replace (N.to_nat MAX_CODE_LENGTH) with MCL by reflexivity.
  rewrite R2. cbn [pm_pop]. reflexivity.
Qed.

Lemma pm_widths_spec n : forall s s', widths_spec n lw as_ s = Ok s' ->
  forall c, (S MCL <= length c)%nat ->
  exists c', length c' = length c /\ pm_widths n lw as_ (set_cnt s c) = Ok (set_cnt s' c').
Proof.
  induction n as [|n IH]; intros s s' H c Hc; cbn [widths_spec pm_widths] in *.
  - inversion H; subst. exists c. auto.
  - apply bind_ok in H as [s1 [E1 E2]].
    destruct (pm_width_spec s s1 E1 c Hc) as [c1 [L1 W1]].
    destruct (IH s1 s' E2 c1) as [c2 [L2 W2]]; [lia|].
    exists c2. split; [lia|]. rewrite W1. cbn [bind]. exact W2.
Qed.
End Exec.

Lemma set_cnt_self s : set_cnt s (cnt s) = s.
Proof. destruct s; reflexivity. Qed.

(* package_merge = initialisation followed by the recursive width steps (cnt aside) *)
Lemma package_merge_spec lw as_ s0 s' :
  pm_init lw as_ zero_tree = Ok s0 -> (S MCL <= length (cnt s0))%nat ->
  widths_spec (as_ - 2) lw (N.of_nat as_) s0 = Ok s' ->
  exists c', package_merge lw as_ = Ok (set_cnt s' c').
Proof.
  intros HI HL HW. unfold package_merge. rewrite HI. cbn [bind].
  destruct (pm_widths_spec lw (N.of_nat as_) (as_ - 2) s0 s' HW (cnt s0) HL) as [c' [_ W]].
  rewrite set_cnt_self in W. exists c'. exact W.
Qed.
