(* MTF + zero-run coding: the decoder's unmtf_block inverts the encoder's
   mtf_zrle over the sorted list of used bytes. *)
From Coq Require Import List NArith Arith Bool Lia Sorted.
From LBZ Require Import Common.Bits Dec.Prog Dec.Format Enc.EncModel.
Import ListNotations.
Local Open Scope N_scope.

(* ---- used_bytes ---------------------------------------------------------------------------- *)
Lemma insert_sorted_In c x : forall l, In x (insert_sorted c l) <-> x = c \/ In x l.
Proof.
  induction l as [|y l IH]; cbn [insert_sorted In].
  - intuition.
  - destruct (N.ltb_spec c y) as [Hlt|Hge].
    + cbn [In]. intuition.
    + destruct (N.eqb_spec c y) as [->|Hne].
      * cbn [In]. intuition.
      * cbn [In]. rewrite IH. intuition.
Qed.

Lemma insert_sorted_sorted c : forall l,
  StronglySorted N.lt l -> StronglySorted N.lt (insert_sorted c l).
Proof.
  induction l as [|y l IH]; intro Hs; cbn [insert_sorted].
  - constructor; constructor.
  - destruct (N.ltb_spec c y) as [Hlt|Hge].
    + constructor; [exact Hs|].
      inversion Hs as [|? ? Hs' Hall]; subst.
      constructor; [exact Hlt|].
      rewrite Forall_forall in *. intros z Hz. specialize (Hall z Hz). lia.
    + destruct (N.eqb_spec c y) as [->|Hne]; [exact Hs|].
      inversion Hs as [|? ? Hs' Hall]; subst.
      constructor; [apply IH; exact Hs'|].
      rewrite Forall_forall in *. intros z Hz.
      apply insert_sorted_In in Hz. destruct Hz as [->|Hz]; [lia|auto].
Qed.

Lemma fold_insert_In x : forall l acc,
  In x (fold_left (fun acc c => insert_sorted c acc) l acc) <-> In x l \/ In x acc.
Proof.
  induction l as [|c l IH]; intro acc; cbn [fold_left In].
  - intuition.
  - rewrite IH, insert_sorted_In. intuition.
Qed.

Lemma fold_insert_sorted : forall l acc,
  StronglySorted N.lt acc ->
  StronglySorted N.lt (fold_left (fun acc c => insert_sorted c acc) l acc).
Proof.
  induction l as [|c l IH]; intros acc Hs; cbn [fold_left]; [exact Hs|].
  apply IH, insert_sorted_sorted, Hs.
Qed.

Lemma used_bytes_In : forall col c, In c (used_bytes col) <-> In c col.
Proof.
  intros col c. unfold used_bytes. rewrite fold_insert_In. cbn [In]. intuition.
Qed.

Lemma used_bytes_StronglySorted : forall col, StronglySorted N.lt (used_bytes col).
Proof. intro col. unfold used_bytes. apply fold_insert_sorted. constructor. Qed.

Lemma used_bytes_Sorted : forall col, Sorted N.lt (used_bytes col).
Proof. intro col. apply StronglySorted_Sorted, used_bytes_StronglySorted. Qed.

Lemma StronglySorted_lt_NoDup : forall l, StronglySorted N.lt l -> NoDup l.
Proof.
  induction l as [|x l IH]; intro Hs; [constructor|].
  inversion Hs as [|? ? Hs' Hall]; subst. constructor; [|auto].
  intro Hin. rewrite Forall_forall in Hall. specialize (Hall x Hin). lia.
Qed.

Lemma used_bytes_NoDup : forall col, NoDup (used_bytes col).
Proof. intro col. apply StronglySorted_lt_NoDup, used_bytes_StronglySorted. Qed.

Lemma used_bytes_sorted_nodup : forall col,
  StronglySorted N.lt (used_bytes col) /\ NoDup (used_bytes col) /\
  (forall c, In c (used_bytes col) <-> In c col).
Proof.
  intro col. split; [apply used_bytes_StronglySorted|].
  split; [apply used_bytes_NoDup|apply used_bytes_In].
Qed.

(* ---- index_of / mtf_front ---------------------------------------------------------------- *)
Lemma index_of_lt c : forall l, In c l -> (index_of c l < length l)%nat.
Proof.
  induction l as [|x l IH]; intro Hin; cbn [index_of length]; [destruct Hin|].
  destruct (N.eqb_spec x c) as [->|Hne]; [lia|].
  destruct Hin as [Heq|Hin]; [congruence|]. specialize (IH Hin). lia.
Qed.

Lemma index_of_nth c d : forall l, In c l -> nth (index_of c l) l d = c.
Proof.
  induction l as [|x l IH]; intro Hin; cbn [index_of]; [destruct Hin|].
  destruct (N.eqb_spec x c) as [->|Hne]; [reflexivity|].
  destruct Hin as [Heq|Hin]; [congruence|]. cbn [nth]. auto.
Qed.

Lemma index_of_0_hd c d : forall l, In c l -> index_of c l = 0%nat -> hd d l = c.
Proof.
  intros [|x l] Hin H0; [destruct Hin|]. cbn [index_of] in H0. cbn [hd].
  destruct (N.eqb_spec x c) as [->|Hne]; [reflexivity|discriminate].
Qed.

Lemma split_nth {A} (d : A) : forall n l, (n < length l)%nat ->
  l = firstn n l ++ nth n l d :: skipn (S n) l.
Proof.
  induction n as [|n IH]; intros [|x l] Hlt; cbn [length] in Hlt; try lia.
  - reflexivity.
  - cbn [firstn nth skipn app]. f_equal. apply IH. lia.
Qed.

Lemma front_In {A} (d : A) n l x : (n < length l)%nat ->
  In x l -> In x (nth n l d :: firstn n l ++ skipn (S n) l).
Proof.
  intros Hlt Hin. rewrite (split_nth d n l Hlt) in Hin.
  apply in_app_or in Hin. cbn [In] in *. rewrite in_app_iff. intuition.
Qed.

Lemma front_length {A} (c : A) n l : (n < length l)%nat ->
  length (c :: firstn n l ++ skipn (S n) l) = length l.
Proof.
  intro Hlt. cbn [length]. rewrite app_length, firstn_length, skipn_length. lia.
Qed.

(* ---- the bijective base-2 digits ---------------------------------------------------------- *)
Lemma land1_mod x : N.land x 1 = x mod 2.
Proof. exact (N.land_ones x 1). Qed.

Lemma land1_le x : N.land x 1 <= 1.
Proof. rewrite land1_mod. pose proof (N.mod_upper_bound x 2). lia. Qed.

Lemma run_split k : k <> 0 ->
  k = 2 * N.shiftr (k - 1) 1 + N.land (k - 1) 1 + 1 /\ N.land (k - 1) 1 <= 1.
Proof.
  intro Hk. split; [|apply land1_le].
  rewrite land1_mod, N.shiftr_div_pow2. change (2 ^ 1) with 2.
  pose proof (N.div_mod (k - 1) 2). lia.
Qed.

Lemma zrun_all_le1 : forall fuel k s, In s (zrun fuel k) -> s <= 1.
Proof.
  induction fuel as [|f IH]; intros k s Hin; cbn [zrun] in Hin; [destruct Hin|].
  destruct (N.eqb_spec k 0) as [->|Hk]; [destruct Hin|].
  destruct Hin as [<-|Hin]; [apply land1_le|eauto].
Qed.

Lemma zrun_length : forall fuel k, N.of_nat (length (zrun fuel k)) <= k.
Proof.
  induction fuel as [|f IH]; intro k; cbn [zrun]; [cbn; lia|].
  destruct (N.eqb_spec k 0) as [->|Hk]; [cbn; lia|].
  cbn [length]. rewrite Nat2N.inj_succ.
  specialize (IH (N.shiftr (k - 1) 1)). destruct (run_split k Hk) as [Hs Hd]. lia.
Qed.

Lemma fuel_enough k : k + 1 < 2 ^ N.of_nat (S (N.to_nat (N.log2 (k + 1)))).
Proof.
  rewrite Nat2N.inj_succ, N2Nat.id.
  apply N.log2_spec. lia.
Qed.

Lemma unmtf_digits limit order size acc tail : forall fuel k run shift,
  k + 1 < 2 ^ N.of_nat fuel ->
  unmtf limit order run shift size acc (zrun fuel k ++ tail) =
  unmtf limit order (run + k * 2 ^ shift) (shift + N.of_nat (length (zrun fuel k))) size acc tail.
Proof.
  induction fuel as [|f IH]; intros k run shift Hf.
  - cbn in Hf. lia.
  - cbn [zrun]. destruct (N.eqb_spec k 0) as [->|Hk].
    + cbn [app length]. f_equal; cbn; lia.
    + destruct (run_split k Hk) as [Hs Hd].
      set (d := N.land (k - 1) 1) in *. set (q := N.shiftr (k - 1) 1) in *.
      cbn [app unmtf]. replace (d <=? 1) with true by (symmetry; apply N.leb_le; exact Hd).
      rewrite Nat2N.inj_succ, N.pow_succ_r' in Hf.
      rewrite IH by lia.
      cbn [length]. rewrite Nat2N.inj_succ.
      f_equal; [|lia].
      rewrite N.shiftl_mul_pow2, N.pow_add_r. change (2 ^ 1) with 2.
      clearbody d q. rewrite Hs. ring.
Qed.

Lemma unmtf_zrun_digits limit order size acc tail k run :
  exists shift',
  unmtf limit order run 0 size acc (zrun_digits k ++ tail) =
  unmtf limit order (run + k) shift' size acc tail.
Proof.
  unfold zrun_digits. eexists. rewrite unmtf_digits by apply fuel_enough.
  change (2 ^ 0) with 1. rewrite N.mul_1_r. reflexivity.
Qed.

(* ---- expand_runs ------------------------------------------------------------------------------ *)
Lemma expand_runs_app : forall a b, expand_runs (a ++ b) = expand_runs a ++ expand_runs b.
Proof.
  induction a as [|[c n] a IH]; intro b; cbn [app expand_runs]; [reflexivity|].
  rewrite IH, app_assoc. reflexivity.
Qed.

Lemma expand_runs_snoc acc c n :
  expand_runs (rev ((c, n) :: acc)) = expand_runs (rev acc) ++ repeat c (N.to_nat n).
Proof.
  cbn [rev]. rewrite expand_runs_app. cbn [expand_runs]. rewrite app_nil_r. reflexivity.
Qed.

Lemma repeat_snoc {A} (c : A) n : repeat c (S n) = repeat c n ++ [c].
Proof. induction n as [|n IH]; [reflexivity|]. cbn [repeat app] in *. rewrite <- IH. reflexivity. Qed.

(* ---- the invariant ------------------------------------------------------------------------------ *)
(* Encoder state (order, k, rest): k copies of the front byte seen but not yet
   emitted.  Decoder state (order, r0, shift 0): r0 copies of the front byte
   already accounted for (0 at the start of the block, 1 after an MTF position). *)
Lemma unmtf_mtf_go limit : forall rest order k r0 size acc,
  Forall (fun c => In c order) rest ->
  size + r0 + k + N.of_nat (length rest) <= limit ->
  exists runs sz,
    unmtf limit order r0 0 size acc (mtf_go order k rest) = Ok (runs, sz) /\
    expand_runs (rev runs) =
    expand_runs (rev acc) ++ repeat (hd 0 order) (N.to_nat (r0 + k)) ++ rest.
Proof.
  induction rest as [|c r IH]; intros order k r0 size acc Hall Hlim.
  - cbn [mtf_go]. cbn [length] in Hlim.
    destruct (unmtf_zrun_digits limit order size acc [] k r0) as [sh Hd].
    rewrite app_nil_r in Hd. rewrite Hd. cbn [unmtf].
    replace (limit <? size + (r0 + k)) with false by (symmetry; apply N.ltb_ge; lia).
    eexists. eexists. split; [reflexivity|].
    rewrite expand_runs_snoc, app_nil_r. reflexivity.
  - inversion Hall as [|? ? Hc Hall']; subst. cbn [length] in Hlim. rewrite Nat2N.inj_succ in Hlim.
    cbn [mtf_go]. destruct (index_of c order) as [|i] eqn:Hidx.
    + pose proof (index_of_0_hd c 0 order Hc Hidx) as Hhd.
      destruct (IH order (k + 1) r0 size acc Hall') as (runs & sz & Hrun & Hexp); [lia|].
      exists runs, sz. split; [exact Hrun|]. rewrite Hexp. f_equal.
      replace (N.to_nat (r0 + (k + 1))) with (S (N.to_nat (r0 + k))) by lia.
      rewrite repeat_snoc, <- app_assoc, Hhd. reflexivity.
    + pose proof (index_of_lt c order Hc) as Hlt. rewrite Hidx in Hlt.
      pose proof (index_of_nth c 0 order Hc) as Hnth. rewrite Hidx in Hnth.
      destruct (unmtf_zrun_digits limit order size acc
                  ([N.of_nat (S i) + 1] ++
                   mtf_go (c :: firstn (S i) order ++ skipn (S (S i)) order) 0 r) k r0) as [sh Hd].
      rewrite Hd. cbn [app unmtf].
      replace (N.of_nat (S i) + 1 <=? 1) with false by (symmetry; apply N.leb_gt; lia).
      replace (limit <? size + (r0 + k)) with false by (symmetry; apply N.ltb_ge; lia).
      replace (N.of_nat (S i) + 1 - 1) with (N.of_nat (S i)) by lia.
      rewrite Nat2N.id. unfold mtf_front. rewrite Hnth.
      destruct (IH (c :: firstn (S i) order ++ skipn (S (S i)) order) 0 1 (size + (r0 + k))
                   ((hd 0 order, r0 + k) :: acc)) as (runs & sz & Hrun & Hexp).
      * rewrite Forall_forall in *. intros x Hx. specialize (Hall' x Hx).
        rewrite <- Hnth at 1. apply front_In; assumption.
      * lia.
      * exists runs, sz. split; [exact Hrun|]. rewrite Hexp, expand_runs_snoc.
        rewrite <- app_assoc. reflexivity.
Qed.

Theorem mtf_roundtrip : forall (col : list N) (limit : N),
  col <> [] -> (N.of_nat (length col) <= limit)%N ->
  unmtf_block limit (used_bytes col) (mtf_zrle col) = Ok col.
Proof.
  intros col limit _ Hlim. unfold unmtf_block, mtf_zrle.
  destruct (unmtf_mtf_go limit col (used_bytes col) 0 0 0 []) as (runs & sz & Hrun & Hexp).
  - rewrite Forall_forall. intros c Hc. apply used_bytes_In. exact Hc.
  - lia.
  - rewrite Hrun, Hexp. reflexivity.
Qed.

(* ---- range and length of the MTF values ---------------------------------------------------- *)
Lemma mtf_go_range : forall rest order k s,
  Forall (fun c => In c order) rest -> (1 <= length order)%nat ->
  In s (mtf_go order k rest) -> s <= N.of_nat (length order).
Proof.
  induction rest as [|c r IH]; intros order k s Hall Hne Hin; cbn [mtf_go] in Hin.
  - apply zrun_all_le1 in Hin. lia.
  - inversion Hall as [|? ? Hc Hall']; subst.
    destruct (index_of c order) as [|i] eqn:Hidx; [eauto|].
    pose proof (index_of_lt c order Hc) as Hlt. rewrite Hidx in Hlt.
    pose proof (index_of_nth c 0 order Hc) as Hnth. rewrite Hidx in Hnth.
    apply in_app_or in Hin. destruct Hin as [Hin|Hin]; [apply zrun_all_le1 in Hin; lia|].
    apply in_app_or in Hin. destruct Hin as [Hin|Hin].
    + destruct Hin as [<-|[]]. lia.
    + rewrite <- (front_length c (S i) order Hlt).
      apply (IH _ 0); [| rewrite front_length; assumption | exact Hin].
      rewrite Forall_forall in *. intros x Hx. specialize (Hall' x Hx).
      rewrite <- Hnth at 1. apply front_In; assumption.
Qed.

Lemma mtf_zrle_symbols_in_range : forall col s,
  In s (mtf_zrle col) -> (s <= N.of_nat (length (used_bytes col)))%N.
Proof.
  intros [|c col] s Hin; [destruct Hin|].
  unfold mtf_zrle in Hin. eapply mtf_go_range; [| |exact Hin].
  - rewrite Forall_forall. intros x Hx. apply used_bytes_In. exact Hx.
  - assert (Hc : In c (used_bytes (c :: col))) by (apply used_bytes_In; left; reflexivity).
    destruct (used_bytes (c :: col)); [destruct Hc|cbn [length]; lia].
Qed.

Lemma mtf_go_length : forall rest order k,
  N.of_nat (length (mtf_go order k rest)) <= k + N.of_nat (length rest).
Proof.
  induction rest as [|c r IH]; intros order k; cbn [mtf_go].
  - unfold zrun_digits. pose proof (zrun_length (S (N.to_nat (N.log2 (k + 1)))) k). cbn [length]. lia.
  - cbn [length]. rewrite Nat2N.inj_succ. destruct (index_of c order) as [|i].
    + specialize (IH order (k + 1)). lia.
    + rewrite !app_length. cbn [length].
      specialize (IH (c :: firstn (S i) order ++ skipn (S (S i)) order) 0).
      pose proof (zrun_length (S (N.to_nat (N.log2 (k + 1)))) k). unfold zrun_digits. lia.
Qed.

Lemma mtf_zrle_length : forall col, (length (mtf_zrle col) <= length col)%nat.
Proof.
  intro col. unfold mtf_zrle. pose proof (mtf_go_length col (used_bytes col) 0). lia.
Qed.

Print Assumptions mtf_roundtrip.
Print Assumptions used_bytes_sorted_nodup.
Print Assumptions mtf_zrle_symbols_in_range.
Print Assumptions mtf_zrle_length.
