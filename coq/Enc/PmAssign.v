(* C20 - the part of assign_codes() that turns a row of tree[][] into code lengths:
   give_lengths / per_depth / heights_loop never fail on good rows, and the resulting length[] is a
   permutation of the depth list of the row, whose Kraft sum is exactly full. *)
From Coq Require Import List NArith ZArith Arith Bool Lia ZifyBool ZifyNat Sorting.Permutation.
From LBZ Require Import Gen.Consts Dec.Format Enc.EncModel Enc.HuffProofs Enc.PmModel Enc.PmBasics Enc.PmIdeal Enc.PmReal.
Import ListNotations.
Local Open Scope N_scope.

(* the code lengths in leaf order (heaviest leaf first) that per_depth derives from a row *)
Fixpoint dlist (row : list N) (depth k : nat) : list N :=
  match k with
  | O => []
  | S k' => repeat (N.of_nat depth) (N.to_nat (nth (depth - 1) row 0 - nth depth row 0)) ++ dlist row (S depth) k'
  end.

Lemma combine_app_eq {A B} (l1 l2 : list A) (r1 r2 : list B) : length l1 = length r1 ->
  combine (l1 ++ l2) (r1 ++ r2) = combine l1 r1 ++ combine l2 r2.
Proof.
  revert r1; induction l1 as [|x l IH]; intros [|y r] H; cbn [length] in H; try lia; [reflexivity|].
  cbn [app combine]. f_equal. apply IH. lia.
Qed.

Lemma combine_repeat {A B} (l : list A) (v : B) : combine l (repeat v (length l)) = map (fun j => (j, v)) l.
Proof. induction l as [|x l IH]; cbn [length repeat combine map]; [reflexivity|]. f_equal. exact IH. Qed.

Lemma map_fst_combine_eq {A B} (l : list A) (r : list B) : length l = length r -> map fst (combine l r) = l.
Proof.
  revert r; induction l as [|x l IH]; intros [|y r] H; cbn [length] in H; try lia; [reflexivity|].
  cbn [combine map fst]. f_equal. apply IH. lia.
Qed.

Lemma nth_map_seq {A} (g : nat -> A) m j d : (j < m)%nat -> nth j (map g (seq 0 m)) d = g j.
Proof.
  intro Hj. rewrite (nth_indep _ d (g 0%nat)) by (rewrite map_length, seq_length; lia).
  rewrite map_nth. rewrite seq_nth by lia. reflexivity.
Qed.

Lemma map_nth_seq_id (R : list N) : map (fun s => nth s R 0) (seq 0 (length R)) = R.
Proof.
  apply nth_ext with (d := 0) (d' := 0).
  - rewrite map_length, seq_length. reflexivity.
  - intros j Hj. rewrite map_length, seq_length in Hj. rewrite nth_map_seq by lia. reflexivity.
Qed.

Lemma dlist_length row : forall k depth, (1 <= depth)%nat ->
  (forall i, (depth <= i)%nat -> (i < depth + k)%nat -> nth i row 0 <= nth (i - 1) row 0) ->
  length (dlist row depth k) = N.to_nat (nth (depth - 1) row 0 - nth (depth + k - 1) row 0).
Proof.
  induction k as [|k IH]; intros depth Hd Hm.
  - cbn [dlist length]. replace (depth + 0 - 1)%nat with (depth - 1)%nat by lia. lia.
  - cbn [dlist]. rewrite app_length, repeat_length. rewrite IH; [|lia|intros i H1 H2; apply Hm; lia].
    replace (S depth - 1)%nat with depth by lia. replace (S depth + k - 1)%nat with (depth + S k - 1)%nat by lia.
    pose proof (Hm depth ltac:(lia) ltac:(lia)) as M1.
    assert (M2 : nth (depth + S k - 1) row 0 <= nth depth row 0).
    { clear IH M1. induction k as [|k IHk].
      - replace (depth + 1 - 1)%nat with depth by lia. lia.
      - etransitivity; [|apply IHk; intros i H1 H2; apply Hm; lia].
        replace (depth + S (S k) - 1)%nat with (S (depth + S k - 1)) by lia.
        pose proof (Hm (S (depth + S k - 1)) ltac:(lia) ltac:(lia)) as H.
        replace (S (depth + S k - 1) - 1)%nat with (depth + S k - 1)%nat in H by lia. exact H. }
    lia.
Qed.

Section Writes.
Variable lw : list N.
Variable n : nat.
Hypothesis Hlw : length lw = S n.

Definition symj (j : nat) : nat := N.to_nat (MAX_ALPHA_SIZE - N.land (nth (S j) lw 0) 65535).

Hypothesis Hlow : forall j, (j < n)%nat -> N.land (nth (S j) lw 0) 65535 <= MAX_ALPHA_SIZE.
Hypothesis Hsym : forall j, (j < n)%nat -> (symj j < n)%nat.
Hypothesis Hinj : forall i j, (i < n)%nat -> (j < n)%nat -> symj i = symj j -> i = j.

Definition apply_writes (ps : list (nat * N)) (len : list N) : list N :=
  fold_left (fun l p => upd l (symj (fst p)) (snd p)) ps len.

Lemma apply_writes_app ps qs len : apply_writes (ps ++ qs) len = apply_writes qs (apply_writes ps len).
Proof. unfold apply_writes. apply fold_left_app. Qed.

Lemma apply_writes_length ps len : length (apply_writes ps len) = length len.
Proof.
  revert len; induction ps as [|p r IH]; intro len; [reflexivity|].
  cbn [apply_writes fold_left]. fold (apply_writes r (upd len (symj (fst p)) (snd p))).
  rewrite IH. apply upd_length.
Qed.

Lemma give_lengths_spec depth : forall avail leaf len cost, (leaf + avail <= n)%nat -> length len = n ->
  exists cost', give_lengths avail lw n depth len cost leaf =
                Ok (apply_writes (map (fun j => (j, depth)) (seq leaf avail)) len, cost', (leaf + avail)%nat).
Proof.
  induction avail as [|a IH]; intros leaf len cost Hle Hlen.
  - exists cost. cbn [give_lengths seq map apply_writes fold_left]. rewrite Nat.add_0_r. reflexivity.
  - cbn [give_lengths]. destruct (Nat.ltb_spec leaf n) as [Hlt|Hge]; [|lia].
    rewrite (rd_ok ALeaf lw (S leaf) 0) by lia. cbn [bind]. cbn zeta.
    destruct (N.leb_spec (N.land (nth (S leaf) lw 0) 65535) MAX_ALPHA_SIZE) as [Hl|Hl]; [|pose proof (Hlow leaf Hlt); lia].
    fold (symj leaf). rewrite wr_ok by (rewrite Hlen; apply Hsym; exact Hlt). cbn [bind].
    destruct (IH (S leaf) (upd len (symj leaf) depth)
                 (N.land (cost + N.land (N.shiftr (nth (S leaf) lw 0) 32) MAX32 * depth) MAX32)
                 ltac:(lia) ltac:(rewrite upd_length; exact Hlen)) as [cost' E].
    exists cost'. rewrite E. cbn [seq map apply_writes fold_left fst snd].
    replace (S leaf + a)%nat with (leaf + S a)%nat by lia. reflexivity.
Qed.

Lemma per_depth_spec row : forall k depth len cost leaf, (1 <= depth)%nat -> (depth + k <= length row)%nat ->
  (forall i, (depth <= i)%nat -> (i < depth + k)%nat -> nth i row 0 <= nth (i - 1) row 0) ->
  (leaf + length (dlist row depth k) <= n)%nat -> length len = n ->
  exists cost', per_depth k depth row lw n len cost leaf =
    Ok (apply_writes (combine (seq leaf (length (dlist row depth k))) (dlist row depth k)) len, cost',
        (leaf + length (dlist row depth k))%nat).
Proof.
  induction k as [|k IH]; intros depth len cost leaf Hd Hk Hm Hle Hlen.
  - exists cost. cbn [per_depth dlist length seq combine apply_writes fold_left]. rewrite Nat.add_0_r. reflexivity.
  - cbn [per_depth]. destruct depth as [|d1]; [lia|].
    rewrite (rd_ok ARow row d1 0) by lia. cbn [bind].
    rewrite (rd_ok ARow row (S d1) 0) by lia. cbn [bind].
    pose proof (Hm (S d1) ltac:(lia) ltac:(lia)) as M1. replace (S d1 - 1)%nat with d1 in M1 by lia.
    destruct (N.leb_spec (nth (S d1) row 0) (nth d1 row 0)) as [_|H]; [|lia].
    cbn [dlist] in Hle |- *. replace (S d1 - 1)%nat with d1 in * by lia.
    set (av := N.to_nat (nth d1 row 0 - nth (S d1) row 0)) in *.
    set (rest := dlist row (S (S d1)) k) in *.
    rewrite app_length, repeat_length in Hle.
    destruct (give_lengths_spec (N.of_nat (S d1)) av leaf len cost ltac:(lia) Hlen) as [c1 E1].
    rewrite E1. cbn [bind].
    destruct (IH (S (S d1)) (apply_writes (map (fun j => (j, N.of_nat (S d1))) (seq leaf av)) len) c1 (leaf + av)%nat
                 ltac:(lia) ltac:(lia)) as [c2 E2].
    { intros i H1 H2. apply Hm; lia. }
    { fold rest. lia. }
    { rewrite apply_writes_length. exact Hlen. }
    exists c2. fold rest in E2. rewrite E2. f_equal. f_equal; [f_equal|].
    + rewrite app_length, repeat_length. fold av.
      rewrite seq_app. rewrite combine_app_eq by (rewrite seq_length, repeat_length; reflexivity).
      rewrite apply_writes_app. f_equal.
      f_equal. rewrite <- combine_repeat. rewrite seq_length. reflexivity.
    + rewrite app_length, repeat_length. fold av. lia.
Qed.

(* what a sequence of writes with distinct leaf indices leaves in length[] *)
Lemma apply_writes_nth ps : forall len, length len = n -> NoDup (map fst ps) ->
  (forall p, In p ps -> (fst p < n)%nat) ->
  forall j v, In (j, v) ps -> nth (symj j) (apply_writes ps len) 0 = v.
Proof.
  induction ps as [|q r IH] using rev_ind; intros len Hlen Hnd Hlt j v Hin; [destruct Hin|].
  rewrite apply_writes_app. cbn [apply_writes fold_left].
  rewrite map_app in Hnd. cbn [map] in Hnd.
  apply in_app_or in Hin. destruct Hin as [Hin|[Heq|[]]].
  - assert (Hj : (j < n)%nat) by (apply (Hlt (j, v)); apply in_or_app; left; exact Hin).
    assert (Hq : (fst q < n)%nat) by (apply Hlt; apply in_or_app; right; left; reflexivity).
    assert (Hne : fst q <> j).
    { intro E. apply NoDup_remove_2 in Hnd. rewrite app_nil_r in Hnd. apply Hnd.
      rewrite E. change j with (fst (j, v)). apply in_map. exact Hin. }
    rewrite upd_nth_other by (intro E; apply Hne; apply Hinj; assumption).
    apply IH; auto.
    + apply NoDup_remove_1 in Hnd. rewrite app_nil_r in Hnd. exact Hnd.
    + intros p Hp. apply Hlt. apply in_or_app. left. exact Hp.
  - subst q. cbn [fst snd]. apply upd_nth_same. rewrite apply_writes_length, Hlen. apply Hsym.
    apply (Hlt (j, v)). apply in_or_app. right. left. reflexivity.
Qed.

(* writing every leaf once *)
Lemma full_writes_nth dl len : length dl = n -> length len = n ->
  forall j, (j < n)%nat -> nth (symj j) (apply_writes (combine (seq 0 n) dl) len) 0 = nth j dl 0.
Proof.
  intros Hdl Hlen j Hj. apply apply_writes_nth; auto.
  - rewrite map_fst_combine_eq by (rewrite seq_length; lia). apply seq_NoDup.
  - intros p Hp. destruct p as [a b]. apply in_combine_l in Hp. apply in_seq in Hp. cbn [fst]. lia.
  - replace (j, nth j dl 0) with (nth j (combine (seq 0 n) dl) (0%nat, 0)).
    + apply nth_In. rewrite combine_length, seq_length. lia.
    + rewrite combine_nth by (rewrite seq_length; lia). rewrite seq_nth by lia. reflexivity.
Qed.

Lemma sigma_perm : Permutation (map symj (seq 0 n)) (seq 0 n).
Proof.
  apply NoDup_Permutation_bis.
  - apply (NoDup_nth _ 0%nat). intros a b Ha Hb E.
    rewrite map_length, seq_length in Ha, Hb. rewrite !nth_map_seq in E by lia. apply Hinj; assumption.
  - rewrite map_length, !seq_length. lia.
  - intros s Hs. apply in_map_iff in Hs as [j [<- Hj]]. apply in_seq in Hj.
    apply in_seq. pose proof (Hsym j ltac:(lia)). lia.
Qed.

(* ... length[] becomes a permutation of the depth list *)
Lemma full_writes_perm dl len : length dl = n -> length len = n ->
  Permutation (apply_writes (combine (seq 0 n) dl) len) dl.
Proof.
  intros Hdl Hlen. set (R := apply_writes (combine (seq 0 n) dl) len).
  assert (LR : length R = n) by (unfold R; rewrite apply_writes_length; exact Hlen).
  pose proof (full_writes_nth dl len Hdl Hlen) as Hnth. fold R in Hnth.
  assert (E1 : map (fun s => nth s R 0) (map symj (seq 0 n)) = dl).
  { rewrite map_map.
    apply nth_ext with (d := 0) (d' := 0).
    - rewrite map_length, seq_length. lia.
    - intros j Hj. rewrite map_length, seq_length in Hj.
      rewrite nth_map_seq by lia. apply Hnth. lia. }
  assert (E2 : map (fun s => nth s R 0) (seq 0 n) = R).
  { rewrite <- LR. apply map_nth_seq_id. }
  rewrite <- E1, <- E2 at 1. apply Permutation_map. symmetry. exact sigma_perm.
Qed.
End Writes.

(* ---- Kraft sum of the depth list of a good row ------------------------------------------------------------- *)
Lemma ksum_app a b : ksum (a ++ b) = ksum a + ksum b.
Proof. induction a as [|x r IH]; cbn [app ksum]; lia. Qed.

Lemma ksum_repeat d m : ksum (repeat d m) = N.of_nat m * 2 ^ (20 - d).
Proof.
  induction m as [|m IH]; cbn [repeat ksum]; [lia|]. rewrite IH, N.shiftl_1_l. lia.
Qed.

Lemma ksum_perm a b : Permutation a b -> ksum a = ksum b.
Proof. induction 1; cbn [ksum]; lia. Qed.

Lemma hd_skipn (row : list N) j : hd 0 (skipn j row) = nth j row 0.
Proof. revert row; induction j as [|j IH]; intros [|x r]; cbn [skipn hd nth]; auto. Qed.

Lemma tl_skipn (row : list N) j : tl (skipn j row) = skipn (S j) row.
Proof.
  revert row. induction j as [|j IH]; intros [|x r]; try reflexivity.
  change (skipn (S j) (x :: r)) with (skipn j r). change (skipn (S (S j)) (x :: r)) with (skipn (S j) r). apply IH.
Qed.

Lemma val_skipn m j row : val (S m) (skipn j row) = nth j row 0 * 2 ^ N.of_nat m + val m (skipn (S j) row).
Proof. rewrite val_S, hd_skipn, tl_skipn. reflexivity. Qed.

Section Kraft.
Variable row : list N.
Variable h : nat.
Hypothesis Hh : (h <= 20)%nat.
Hypothesis Hmono : forall i, (1 <= i)%nat -> (i <= h)%nat -> nth i row 0 <= nth (i - 1) row 0.
Hypothesis Hzero : nth h row 0 = 0.

Definition vv (j : nat) : N := val (h - j) (skipn j row).

Lemma kraft_partial : forall k depth, (1 <= depth)%nat -> (depth + k = S h)%nat ->
  ksum (dlist row depth k) + 2 ^ N.of_nat (20 - h) * 2 * vv depth = 2 ^ N.of_nat (20 - h) * vv (depth - 1).
Proof.
  induction k as [|k IH]; intros depth Hd Hk.
  - cbn [dlist ksum]. unfold vv. replace (h - depth)%nat with 0%nat by lia.
    replace (h - (depth - 1))%nat with 0%nat by lia. cbn [val]. lia.
  - cbn [dlist]. rewrite ksum_app, ksum_repeat.
    specialize (IH (S depth) ltac:(lia) ltac:(lia)). replace (S depth - 1)%nat with depth in IH by lia.
    pose proof (Hmono depth Hd ltac:(lia)) as M.
    set (a := nth (depth - 1) row 0) in *. set (b := nth depth row 0) in *.
    set (P := 2 ^ N.of_nat (20 - h)) in *.
    assert (E0 : vv (depth - 1) = a * 2 ^ N.of_nat (h - depth) + vv depth).
    { unfold vv. replace (h - (depth - 1))%nat with (S (h - depth)) by lia. rewrite val_skipn.
      replace (S (depth - 1)) with depth by lia. reflexivity. }
    assert (EP : 2 ^ (20 - N.of_nat depth) = P * 2 ^ N.of_nat (h - depth)).
    { unfold P. rewrite <- N.pow_add_r. f_equal. lia. }
    rewrite EP, E0. rewrite Nnat.N2Nat.id.
    destruct (Nat.eq_dec depth h) as [Eh|Nh].
    + (* last depth *)
      assert (Hb : b = 0) by (unfold b; rewrite Eh; exact Hzero).
      assert (V1 : vv depth = 0) by (unfold vv; replace (h - depth)%nat with 0%nat by lia; reflexivity).
      assert (V2 : vv (S depth) = 0) by (unfold vv; replace (h - S depth)%nat with 0%nat by lia; reflexivity).
      rewrite V1, V2 in *. rewrite Hb. replace (h - depth)%nat with 0%nat by lia. cbn [N.of_nat]. lia.
    + assert (E1 : vv depth = b * 2 ^ N.of_nat (h - S depth) + vv (S depth)).
      { unfold vv. replace (h - depth)%nat with (S (h - S depth)) by lia. rewrite val_skipn. reflexivity. }
      assert (EQ : 2 ^ N.of_nat (h - depth) = 2 * 2 ^ N.of_nat (h - S depth)).
      { replace (h - depth)%nat with (S (h - S depth)) by lia. rewrite Nnat.Nat2N.inj_succ, N.pow_succ_r'. reflexivity. }
      rewrite EQ. set (Q' := 2 ^ N.of_nat (h - S depth)) in *.
      set (v1 := vv depth) in *. set (v2 := vv (S depth)) in *. set (K := ksum (dlist row (S depth) k)) in *.
      assert (a - b + b = a) by lia.
      nia.
Qed.

Lemma kraft_of_row nn : nth 0 row 0 = nn -> (1 <= h)%nat ->
  val h row = (2 * nn - 2) * 2 ^ N.of_nat (h - 1) -> 1 <= nn ->
  ksum (dlist row 1 h) = 2 ^ 20.
Proof.
  intros H0 Hh1 Hval Hnn.
  pose proof (kraft_partial h 1 ltac:(lia) ltac:(lia)) as KP. replace (1 - 1)%nat with 0%nat in KP by lia.
  assert (E0 : vv 0 = nn * 2 ^ N.of_nat (h - 1) + vv 1).
  { unfold vv. replace (h - 0)%nat with (S (h - 1)) by lia. rewrite val_skipn, H0. reflexivity. }
  assert (V0 : vv 0 = val h row) by (unfold vv; rewrite Nat.sub_0_r; reflexivity).
  rewrite V0, Hval in E0. rewrite V0, Hval in KP.
  assert (EP : 2 ^ 20 = 2 ^ N.of_nat (20 - h) * (2 * 2 ^ N.of_nat (h - 1))).
  { rewrite <- N.pow_succ_r', <- N.pow_add_r. f_equal. lia. }
  rewrite EP. set (P := 2 ^ N.of_nat (20 - h)) in *. set (Q := 2 ^ N.of_nat (h - 1)) in *.
  set (v1 := vv 1) in *. nia.
Qed.
End Kraft.

(* ---- good rows -------------------------------------------------------------------------------------------------- *)
Record good_row (n h : nat) (row : list N) : Prop := mkgood {
  g_len : length row = S MCL;
  g_mono : forall i, (1 <= i)%nat -> nth i row 0 <= nth (i - 1) row 0;
  g_zero : nth h row 0 = 0;
  g_top : nth 0 row 0 = N.of_nat n;
  g_val : val h row = (2 * N.of_nat n - 2) * 2 ^ N.of_nat (h - 1)
}.

Lemma dlist_split row : forall k m depth, dlist row depth (k + m) = dlist row depth k ++ dlist row (depth + k) m.
Proof.
  induction k as [|k IH]; intros m depth; cbn [Nat.add dlist app].
  - rewrite Nat.add_0_r. reflexivity.
  - rewrite IH, app_assoc. do 2 f_equal. lia.
Qed.

Lemma dlist_range row : forall k depth, Forall (fun l => N.of_nat depth <= l < N.of_nat (depth + k)) (dlist row depth k).
Proof.
  induction k as [|k IH]; intro depth; cbn [dlist]; [constructor|].
  apply Forall_app. split.
  - apply Forall_forall. intros x Hx. apply repeat_spec in Hx. subst. lia.
  - eapply Forall_impl; [|apply IH]. cbn beta. intros; lia.
Qed.

Section Good.
Variables (n h : nat) (row : list N).
Hypothesis G : good_row n h row.
Hypothesis Hh1 : (1 <= h)%nat.
Hypothesis Hh20 : (h <= 20)%nat.
Hypothesis Hn1 : (1 <= n)%nat.
Hypothesis HM : MCL = 20%nat.

Lemma good_dlist_length : length (dlist row 1 h) = n.
Proof.
  rewrite dlist_length; [|lia|intros i H1 H2; apply (g_mono _ _ _ G); lia].
  replace (1 - 1)%nat with 0%nat by lia. replace (1 + h - 1)%nat with h by lia.
  rewrite (g_top _ _ _ G), (g_zero _ _ _ G). lia.
Qed.

Lemma good_ksum : ksum (dlist row 1 h) = 2 ^ 20.
Proof.
  apply (kraft_of_row row h Hh20) with (nn := N.of_nat n); try lia.
  - intros i H1 H2. apply (g_mono _ _ _ G). exact H1.
  - apply (g_zero _ _ _ G).
  - apply (g_top _ _ _ G).
  - apply (g_val _ _ _ G).
Qed.

Definition nc_step (nc : N) (depth : nat) : N := N.land ((nc + (nth (depth - 1) row 0 - nth depth row 0)) * 2) MAX32.

Lemma nc_exact : forall k, (k <= h)%nat ->
  fold_left nc_step (seq 1 k) 0 * 2 ^ N.of_nat (20 - k) = 2 * ksum (dlist row 1 k).
Proof.
  induction k as [|k IH]; intro Hk.
  - cbn [seq fold_left dlist ksum]. lia.
  - specialize (IH ltac:(lia)).
    rewrite seq_S, fold_left_app. cbn [fold_left Nat.add]. set (F := fold_left nc_step (seq 1 k) 0) in *.
    replace (S k) with (k + 1)%nat at 3 by lia. rewrite dlist_split. cbn [dlist]. rewrite app_nil_r, ksum_app, ksum_repeat.
    replace (1 + k)%nat with (S k) by lia. replace (S k - 1)%nat with k by lia.
    pose proof (g_mono _ _ _ G (S k) ltac:(lia)) as M. replace (S k - 1)%nat with k in M by lia.
    set (a := nth k row 0) in *. set (b := nth (S k) row 0) in *.
    rewrite Nnat.N2Nat.id.
    assert (EP : 2 ^ N.of_nat (20 - k) = 2 * 2 ^ N.of_nat (20 - S k)).
    { replace (20 - k)%nat with (S (20 - S k)) by lia. rewrite Nnat.Nat2N.inj_succ, N.pow_succ_r'. reflexivity. }
    assert (EQ : 2 ^ (20 - N.of_nat (S k)) = 2 ^ N.of_nat (20 - S k)) by (f_equal; lia).
    rewrite EQ. rewrite EP in IH. set (P := 2 ^ N.of_nat (20 - S k)) in *.
    assert (Exact : (F + (a - b)) * 2 * P = 2 * (ksum (dlist row 1 k) + (a - b) * P)) by nia.
    (* the uint32 wrap does not happen: the partial Kraft sum is at most the full one *)
    assert (Hle : ksum (dlist row 1 k) + (a - b) * P <= 2 ^ 20).
    { rewrite <- good_ksum.
      assert (Eh : h = (k + S (h - S k))%nat) by lia.
      rewrite Eh at 1. rewrite dlist_split. cbn [dlist]. rewrite !ksum_app, ksum_repeat.
      replace (1 + k)%nat with (S k) by lia. replace (S k - 1)%nat with k by lia. fold a b.
      rewrite Nnat.N2Nat.id, EQ. fold P. lia. }
    assert (HP : 1 <= P) by (unfold P; pose proof (N.pow_nonzero 2 (N.of_nat (20 - S k))); lia).
    assert (Hsmall : (F + (a - b)) * 2 < U32) by (unfold U32; nia).
    unfold nc_step at 1. replace (S k - 1)%nat with k by lia. fold a b. rewrite land_MAX32, N.mod_small by exact Hsmall. exact Exact.
Qed.

Lemma nc_final : fold_left nc_step (seq 1 h) 0 = N.shiftl 1 (N.of_nat (S h)).
Proof.
  pose proof (nc_exact h (Nat.le_refl _)) as E. rewrite good_ksum in E.
  rewrite N.shiftl_1_l.
  assert (EP : 2 * 2 ^ 20 = 2 ^ N.of_nat (S h) * 2 ^ N.of_nat (20 - h)).
  { rewrite <- N.pow_add_r. change (2 * 2 ^ 20) with (2 ^ 21). f_equal. lia. }
  rewrite EP in E. apply N.mul_cancel_r in E; [exact E|]. apply N.pow_nonzero. lia.
Qed.
End Good.
