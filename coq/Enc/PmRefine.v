(* C20 - the array program [take] (Enc/PmLoop.v) computes the level sequences [ilev] (Enc/PmIdeal.v):
   array-level frame lemmas, facts about leaf_weight[], the refinement invariant and its preservation. *)
From Coq Require Import List NArith ZArith Arith Bool Lia ZifyBool ZifyNat Sorting.Sorted Sorting.Permutation.
From LBZ Require Import Gen.Consts Enc.PmModel Enc.PmBasics Enc.PmLoop Enc.PmIdeal Enc.PmReal.
Import ListNotations.
Local Open Scope N_scope.

(* ---- well-formed arrays ------------------------------------------------------------------------------- *)
Record wf (s : pm_st) : Prop := mkwf {
  wf_tree : length (tree s) = S MCL;
  wf_rows : forall e, (e <= MCL)%nat -> length (nth e (tree s) []) = S MCL;
  wf_pkg : length (pkgw s) = S MCL;
  wf_prev : length (prevw s) = S MCL;
  wf_curr : length (currw s) = S MCL;
  wf_pkg0 : nth 0 (pkgw s) 0 = MAXW
}.

Lemma MCL_pos : (1 <= MCL)%nat. Proof. vm_compute. lia. Qed.

(* explicit result of the package update *)
Lemma take_pkg_ok s d1 pw : wf s -> (S d1 <= MCL)%nat ->
  pm_take_pkg s (S d1) d1 pw =
  Ok (mkst (upd (tree s) (S d1) (hd 0 (nth (S d1) (tree s) []) :: firstn MCL (nth d1 (tree s) [])))
           (upd (pkgw s) (S d1) (weight_add (nth (S d1) (prevw s) 0) pw))
           (upd (prevw s) (S d1) pw) (currw s) (cnt s)).
Proof.
  intros [Ht Hr Hp Hv Hc _] Hd. unfold pm_take_pkg, copy_row.
  rewrite (rd_ok ATree (tree s) d1 []) by lia. cbn [bind].
  rewrite (rd_ok ATree (tree s) (S d1) []) by lia. cbn [bind].
  pose proof (Hr d1 ltac:(lia)) as L1. pose proof (Hr (S d1) Hd) as L2.
  destruct (Nat.leb_spec MCL (length (nth d1 (tree s) []))) as [_|H]; [|lia].
  destruct (nth (S d1) (tree s) []) as [|x tlr] eqn:E; [discriminate|]. cbn [length] in L2.
  destruct (Nat.leb_spec MCL (length tlr)) as [_|H]; [|lia].
  rewrite wr_ok by lia. cbn [bind].
  rewrite (rd_ok APrev (prevw s) (S d1) 0) by lia. cbn [bind].
  rewrite wr_ok by lia. cbn [bind]. rewrite wr_ok by lia. cbn [bind].
  rewrite skipn_all2 by lia. rewrite app_nil_r. reflexivity.
Qed.

(* explicit result of the leaf update *)
Lemma take_leaf_ok lw as_ s d cw : wf s -> (d <= MCL)%nat ->
  let t0 := hd 0 (nth d (tree s) []) in
  t0 + 1 <= as_ -> (N.to_nat (as_ - (t0 + 1)) < length lw)%nat ->
  pm_take_leaf lw as_ s d cw =
  Ok (mkst (upd (tree s) d (t0 + 1 :: tl (nth d (tree s) [])))
           (upd (pkgw s) d (weight_add (nth d (prevw s) 0) cw))
           (upd (prevw s) d cw)
           (upd (currw s) d (nth (N.to_nat (as_ - (t0 + 1))) lw 0)) (cnt s)).
Proof.
  intros [Ht Hr Hp Hv Hc _] Hd t0 Has Hlw. unfold pm_take_leaf, rd2, wr2.
  rewrite (rd_ok ATree (tree s) d []) by lia. cbn [bind].
  pose proof (Hr d Hd) as L2.
  destruct (nth d (tree s) []) as [|x tlr] eqn:E; [discriminate|]. cbn [length] in L2.
  subst t0. cbn [hd tl] in *.
  rewrite (rd_ok ARow (x :: tlr) 0 0) by (cbn [length]; lia). cbn [bind nth].
  cbn [bind].
  rewrite wr_ok by (cbn [length]; lia). cbn [bind upd].
  rewrite wr_ok by lia. cbn [bind].
  rewrite (rd_ok APrev (prevw s) d 0) by lia. cbn [bind].
  rewrite wr_ok by lia. cbn [bind]. rewrite wr_ok by lia. cbn [bind].
  destruct (N.leb_spec (x + 1) as_) as [_|H]; [|lia].
  rewrite (rd_ok ALeaf lw _ 0) by exact Hlw. cbn [bind].
  rewrite wr_ok by lia. cbn [bind]. reflexivity.
Qed.

Lemma nth_upd_rows (t : list (list N)) i row e :
  (i < length t)%nat -> nth e (upd t i row) [] = if (e =? i)%nat then row else nth e t [].
Proof.
  intro H. destruct (Nat.eqb_spec e i) as [->|Hne].
  - apply upd_nth_same. exact H.
  - apply upd_nth_other. congruence.
Qed.

Lemma nth_upd_N (l : list N) i v e :
  (i < length l)%nat -> nth e (upd l i v) 0 = if (e =? i)%nat then v else nth e l 0.
Proof.
  intro H. destruct (Nat.eqb_spec e i) as [->|Hne].
  - apply upd_nth_same. exact H.
  - apply upd_nth_other. congruence.
Qed.

(* ---- sort_alphabet -------------------------------------------------------------------------------------- *)
Definition geR (a b : N) : Prop := b <= a.

Lemma insert_desc_perm t l : Permutation (insert_desc t l) (t :: l).
Proof.
  induction l as [|x r IH]; cbn [insert_desc]; [reflexivity|].
  destruct (x <? t); [reflexivity|].
  rewrite IH. apply perm_swap.
Qed.

Lemma insert_desc_sorted t l : StronglySorted geR l -> StronglySorted geR (insert_desc t l).
Proof.
  induction l as [|x r IH]; intro H; cbn [insert_desc].
  - constructor; constructor.
  - inversion H as [|? ? Hr Hx]; subst.
    destruct (N.ltb_spec x t) as [Hlt|Hge].
    + constructor; [exact H|]. constructor; [unfold geR; lia|].
      eapply Forall_impl; [|exact Hx]. unfold geR. intros; lia.
    + constructor; [apply IH; exact Hr|].
      apply Forall_forall. intros y Hy.
      apply (Permutation_in _ (insert_desc_perm t r)) in Hy. destruct Hy as [<-|Hy]; [exact Hge|].
      rewrite Forall_forall in Hx. apply Hx. exact Hy.
Qed.

Lemma sort_desc_gen l : forall acc, StronglySorted geR acc ->
  StronglySorted geR (fold_left (fun a t => insert_desc t a) l acc) /\
  Permutation (fold_left (fun a t => insert_desc t a) l acc) (l ++ acc).
Proof.
  induction l as [|x r IH]; intros acc Hacc; cbn [fold_left app]; [split; [exact Hacc|reflexivity]|].
  destruct (IH (insert_desc x acc) (insert_desc_sorted x acc Hacc)) as [S1 P1]. split; [exact S1|].
  rewrite P1. rewrite insert_desc_perm. symmetry. apply Permutation_middle.
Qed.

Lemma sort_desc_sorted l : StronglySorted geR (sort_desc l).
Proof. apply sort_desc_gen. constructor. Qed.

Lemma sort_desc_perm l : Permutation (sort_desc l) l.
Proof. destruct (sort_desc_gen l [] ltac:(constructor)) as [_ P]. rewrite app_nil_r in P. exact P. Qed.

Lemma ssorted_nth l : StronglySorted geR l -> forall i j, (i <= j)%nat -> (j < length l)%nat -> nth j l 0 <= nth i l 0.
Proof.
  induction 1 as [|x r Hr IH Hx]; intros i j Hij Hj; cbn [length] in Hj; [lia|].
  destruct i as [|i], j as [|j]; cbn [nth]; try lia.
  - rewrite Forall_forall in Hx. apply Hx. apply nth_In. lia.
  - apply IH; lia.
Qed.

(* ---- leaf_weight[] ---------------------------------------------------------------------------------------- *)
Definition Fof (w : N) : N := w / U32.

Definition labels (f : list N) : list N := label_from 0 f.

(* the ascending frequency list that the proofs work with *)
Definition xs_of (f : list N) : list N := map Fof (rev (sort_desc (labels f))).

Lemma label_from_length k f : length (label_from k f) = length f.
Proof. revert k; induction f as [|x r IH]; intro k; cbn [label_from length]; auto. Qed.

Lemma label_from_nth f : forall k j, (j < length f)%nat ->
  nth j (label_from k f) 0 = leaf_label (nth j f 0) (k + N.of_nat j).
Proof.
  induction f as [|x r IH]; intros k j Hj; cbn [length] in Hj; [lia|].
  destruct j as [|j]; cbn [label_from nth].
  - f_equal. lia.
  - rewrite IH by lia. f_equal. lia.
Qed.

Definition leaf_shaped (w : N) : Prop :=
  exists F L, w = enc F L /\ F < U32 /\ 65536 < L /\ L < 2 ^ 17.

Lemma labels_shaped f : (length f <= N.to_nat MAX_ALPHA_SIZE)%nat -> Forall (fun x => x < U32) f ->
  Forall leaf_shaped (labels f).
Proof.
  intros Hn Hf. apply Forall_forall. intros w Hw.
  apply (In_nth _ _ 0) in Hw. destruct Hw as [j [Hj <-]].
  unfold labels in *. rewrite label_from_length in Hj. rewrite label_from_nth by exact Hj.
  assert (HM : MAX_ALPHA_SIZE < 2 ^ 16) by (vm_compute; reflexivity).
  rewrite leaf_label_enc by lia.
  exists (nth j f 0), (65536 + (MAX_ALPHA_SIZE - (0 + N.of_nat j))).
  split; [reflexivity|]. split; [|lia].
  rewrite Forall_forall in Hf. apply Hf. apply nth_In. exact Hj.
Qed.

Lemma Fof_enc F L : L < U32 -> Fof (enc F L) = F.
Proof. apply enc_div. Qed.

Lemma Fof_mono a b : a <= b -> Fof a <= Fof b.
Proof. intro H. unfold Fof. apply N.div_le_mono; [unfold U32; lia|exact H]. Qed.

Section LeafWeight.
Variable f : list N.
Notation n := (length f).
Hypothesis Hn2 : (2 <= n)%nat.
Hypothesis Hnmax : (n <= N.to_nat MAX_ALPHA_SIZE)%nat.
Hypothesis Hf : Forall (fun x => x < U32) f.

Let sorted := sort_desc (labels f).
Let lw := make_leaf_weight f.
Let xs := xs_of f.

Lemma sorted_length : length sorted = n.
Proof. unfold sorted. rewrite (Permutation_length (sort_desc_perm _)). apply label_from_length. Qed.

Lemma lw_length : length lw = S n.
Proof. unfold lw, make_leaf_weight. cbn [length]. change (sort_desc (label_from 0 f)) with sorted. rewrite sorted_length. reflexivity. Qed.

Lemma xs_length : length xs = n.
Proof. unfold xs, xs_of. rewrite map_length, rev_length. apply sorted_length. Qed.

Lemma lw_0 : nth 0 lw 0 = MAXW.
Proof. reflexivity. Qed.

Lemma sorted_shaped : Forall leaf_shaped sorted.
Proof.
  apply Forall_forall. intros w Hw. apply (Permutation_in _ (sort_desc_perm _)) in Hw.
  pose proof (labels_shaped f Hnmax Hf) as H. rewrite Forall_forall in H. apply H. exact Hw.
Qed.

(* leaf_weight[n - e] is the packed weight of the (e+1)-th lightest leaf *)
Lemma lw_leaf e : (e < n)%nat ->
  exists L, nth (n - e) lw 0 = enc (leafF xs e) L /\ leafF xs e < U32 /\ 65536 < L /\ L < 2 ^ 17.
Proof.
  intro He. unfold lw, make_leaf_weight. change (sort_desc (label_from 0 f)) with sorted.
  replace (n - e)%nat with (S (n - 1 - e)) by lia. cbn [nth].
  pose proof sorted_length as SL.
  assert (Hin : In (nth (n - 1 - e) sorted 0) sorted) by (apply nth_In; lia).
  pose proof sorted_shaped as SS. rewrite Forall_forall in SS.
  destruct (SS _ Hin) as [F [L [E [HF [HL1 HL2]]]]].
  exists L. rewrite E.
  assert (EF : leafF xs e = F).
  { unfold leafF, xs, xs_of. fold sorted.
    rewrite (nth_indep _ 0 (Fof 0)) by (rewrite map_length, rev_length; lia).
    rewrite map_nth. rewrite rev_nth by lia. rewrite SL.
    replace (n - S e)%nat with (n - 1 - e)%nat by lia.
    rewrite E. apply Fof_enc. unfold U32; lia. }
  rewrite EF. auto.
Qed.

Lemma xs_sorted : forall i j, (i <= j)%nat -> (j < length xs)%nat -> leafF xs i <= leafF xs j.
Proof.
  intros i j Hij Hj. rewrite xs_length in Hj. pose proof sorted_length as SL.
  unfold leafF, xs, xs_of. fold sorted.
  assert (G : forall k, (k < n)%nat -> nth k (map Fof (rev sorted)) 0 = Fof (nth (n - S k) sorted 0)).
  { intros k Hk. rewrite (nth_indep _ 0 (Fof 0)) by (rewrite map_length, rev_length; lia).
    rewrite map_nth. rewrite rev_nth by lia. rewrite SL. reflexivity. }
  rewrite !G by lia.
  apply Fof_mono. apply ssorted_nth; [apply sort_desc_sorted|lia|lia].
Qed.

Lemma xs_perm : Permutation xs (rev f).
Proof.
  unfold xs, xs_of.
  assert (E : f = map Fof (labels f)).
  { apply nth_ext with (d := 0) (d' := Fof 0).
    - rewrite map_length. unfold labels. rewrite label_from_length. reflexivity.
    - intros j Hj. rewrite map_nth. unfold labels. rewrite label_from_nth by exact Hj.
      assert (HM : MAX_ALPHA_SIZE < 2 ^ 16) by (vm_compute; reflexivity).
      rewrite leaf_label_enc by lia. rewrite Fof_enc by (unfold U32; lia). reflexivity. }
  rewrite E at 2. rewrite <- map_rev. apply Permutation_map. rewrite <- !Permutation_rev.
  apply sort_desc_perm.
Qed.

Lemma lsum_perm (a b : list N) : Permutation a b -> lsum a = lsum b.
Proof. induction 1; cbn [lsum]; lia. Qed.

Lemma xs_total : lsum xs = lsum f.
Proof. rewrite (lsum_perm _ _ xs_perm). apply lsum_perm. symmetry. apply Permutation_rev. Qed.
End LeafWeight.
