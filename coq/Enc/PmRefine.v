(* C20 - the array program [take] (Enc/PmLoop.v) computes the level sequences [ilev] (Enc/PmIdeal.v):
   array-level frame lemmas, facts about leaf_weight[], the refinement invariant and its preservation. *)
From Coq Require Import List NArith ZArith Arith Bool Lia ZifyBool ZifyNat Sorting.Sorted Sorting.Permutation.
From LBZ Require Import Gen.Consts Enc.PmModel Enc.PmBasics Enc.PmLoop Enc.PmIdeal Enc.PmReal.
Import ListNotations.
Local Open Scope N_scope.

(* ---- well-formed arrays ------------------------------------------------------------------------------- *)
Record wf (s : pm_st) : Prop := mkwf {
  wf_tree : length (tree s) = S MCL;
  wf_rows : forall e, (e <= MCL)%nat -> length (nth e (tree s) []) = S MCL;
  wf_pkg : length (pkgw s) = S MCL;
  wf_prev : length (prevw s) = S MCL;
  wf_curr : length (currw s) = S MCL;
  wf_pkg0 : nth 0 (pkgw s) 0 = MAXW
}.

Lemma MCL_pos : (1 <= MCL)%nat. Proof. vm_compute. lia. Qed.

(* explicit result of the package update *)
Lemma take_pkg_ok s d1 pw : wf s -> (S d1 <= MCL)%nat ->
  pm_take_pkg s (S d1) d1 pw =
  Ok (mkst (upd (tree s) (S d1) (hd 0 (nth (S d1) (tree s) []) :: firstn MCL (nth d1 (tree s) [])))
           (upd (pkgw s) (S d1) (weight_add (nth (S d1) (prevw s) 0) pw))
           (upd (prevw s) (S d1) pw) (currw s) (cnt s)).
Proof.
  intros [Ht Hr Hp Hv Hc _] Hd. unfold pm_take_pkg, copy_row.
  rewrite (rd_ok ATree (tree s) d1 []) by lia. cbn [bind].
  rewrite (rd_ok ATree (tree s) (S d1) []) by lia. cbn [bind].
  pose proof (Hr d1 ltac:(lia)) as L1. pose proof (Hr (S d1) Hd) as L2.
  destruct (Nat.leb_spec MCL (length (nth d1 (tree s) []))) as [_|H]; [|lia].
  destruct (nth (S d1) (tree s) []) as [|x tlr] eqn:E; [discriminate|]. cbn [length] in L2.
  destruct (Nat.leb_spec MCL (length tlr)) as [_|H]; [|lia].
  rewrite wr_ok by lia. cbn [bind].
  rewrite (rd_ok APrev (prevw s) (S d1) 0) by lia. cbn [bind].
  rewrite wr_ok by lia. cbn [bind]. rewrite wr_ok by lia. cbn [bind].
  rewrite skipn_all2 by lia. rewrite app_nil_r. reflexivity.
Qed.

(* explicit result of the leaf update *)
Lemma take_leaf_ok lw as_ s d cw : wf s -> (d <= MCL)%nat ->
  let t0 := hd 0 (nth d (tree s) []) in
  t0 + 1 <= as_ -> (N.to_nat (as_ - (t0 + 1)) < length lw)%nat ->
  pm_take_leaf lw as_ s d cw =
  Ok (mkst (upd (tree s) d (t0 + 1 :: tl (nth d (tree s) [])))
           (upd (pkgw s) d (weight_add (nth d (prevw s) 0) cw))
           (upd (prevw s) d cw)
           (upd (currw s) d (nth (N.to_nat (as_ - (t0 + 1))) lw 0)) (cnt s)).
Proof.
  intros [Ht Hr Hp Hv Hc _] Hd t0 Has Hlw. unfold pm_take_leaf, rd2, wr2.
  rewrite (rd_ok ATree (tree s) d []) by lia. cbn [bind].
  pose proof (Hr d Hd) as L2.
  destruct (nth d (tree s) []) as [|x tlr] eqn:E; [discriminate|]. cbn [length] in L2.
  subst t0. cbn [hd tl] in *.
  rewrite (rd_ok ARow (x :: tlr) 0 0) by (cbn [length]; lia). cbn [bind nth].
  cbn [bind].
  rewrite wr_ok by (cbn [length]; lia). cbn [bind upd].
  rewrite wr_ok by lia. cbn [bind].
  rewrite (rd_ok APrev (prevw s) d 0) by lia. cbn [bind].
  rewrite wr_ok by lia. cbn [bind]. rewrite wr_ok by lia. cbn [bind].
  destruct (N.leb_spec (x + 1) as_) as [_|H]; [|lia].
  rewrite (rd_ok ALeaf lw _ 0) by exact Hlw. cbn [bind].
  rewrite wr_ok by lia. cbn [bind]. reflexivity.
Qed.

Lemma nth_upd_rows (t : list (list N)) i row e :
  (i < length t)%nat -> nth e (upd t i row) [] = if (e =? i)%nat then row else nth e t [].
Proof.
  intro H. destruct (Nat.eqb_spec e i) as [->|Hne].
  - apply upd_nth_same. exact H.
  - apply upd_nth_other. congruence.
Qed.

Lemma nth_upd_N (l : list N) i v e :
  (i < length l)%nat -> nth e (upd l i v) 0 = if (e =? i)%nat then v else nth e l 0.
Proof.
  intro H. destruct (Nat.eqb_spec e i) as [->|Hne].
  - apply upd_nth_same. exact H.
  - apply upd_nth_other. congruence.
Qed.

(* ---- sort_alphabet -------------------------------------------------------------------------------------- *)
Definition geR (a b : N) : Prop := b <= a.

Lemma insert_desc_perm t l : Permutation (insert_desc t l) (t :: l).
Proof.
  induction l as [|x r IH]; cbn [insert_desc]; [reflexivity|].
  destruct (x <? t); [reflexivity|].
  rewrite IH. apply perm_swap.
Qed.

Lemma insert_desc_sorted t l : StronglySorted geR l -> StronglySorted geR (insert_desc t l).
Proof.
  induction l as [|x r IH]; intro H; cbn [insert_desc].
  - constructor; constructor.
  - inversion H as [|? ? Hr Hx]; subst.
    destruct (N.ltb_spec x t) as [Hlt|Hge].
    + constructor; [exact H|]. constructor; [unfold geR; lia|].
      eapply Forall_impl; [|exact Hx]. unfold geR. intros; lia.
    + constructor; [apply IH; exact Hr|].
      apply Forall_forall. intros y Hy.
      apply (Permutation_in _ (insert_desc_perm t r)) in Hy. destruct Hy as [<-|Hy]; [exact Hge|].
      rewrite Forall_forall in Hx. apply Hx. exact Hy.
Qed.

Lemma sort_desc_gen l : forall acc, StronglySorted geR acc ->
  StronglySorted geR (fold_left (fun a t => insert_desc t a) l acc) /\
  Permutation (fold_left (fun a t => insert_desc t a) l acc) (l ++ acc).
Proof.
  induction l as [|x r IH]; intros acc Hacc; cbn [fold_left app]; [split; [exact Hacc|reflexivity]|].
  destruct (IH (insert_desc x acc) (insert_desc_sorted x acc Hacc)) as [S1 P1]. split; [exact S1|].
  rewrite P1. rewrite insert_desc_perm. symmetry. apply Permutation_middle.
Qed.

Lemma sort_desc_sorted l : StronglySorted geR (sort_desc l).
Proof. apply sort_desc_gen. constructor. Qed.

Lemma sort_desc_perm l : Permutation (sort_desc l) l.
Proof. destruct (sort_desc_gen l [] ltac:(constructor)) as [_ P]. rewrite app_nil_r in P. exact P. Qed.

Lemma ssorted_nth l : StronglySorted geR l -> forall i j, (i <= j)%nat -> (j < length l)%nat -> nth j l 0 <= nth i l 0.
Proof.
  induction 1 as [|x r Hr IH Hx]; intros i j Hij Hj; cbn [length] in Hj; [lia|].
  destruct i as [|i], j as [|j]; cbn [nth]; try lia.
  - rewrite Forall_forall in Hx. apply Hx. apply nth_In. lia.
  - apply IH; lia.
Qed.

(* ---- leaf_weight[] ---------------------------------------------------------------------------------------- *)
Definition Fof (w : N) : N := w / U32.

Definition labels (f : list N) : list N := label_from 0 f.

(* the ascending frequency list that the proofs work with *)
Definition xs_of (f : list N) : list N := map Fof (rev (sort_desc (labels f))).

Lemma label_from_length k f : length (label_from k f) = length f.
Proof. revert k; induction f as [|x r IH]; intro k; cbn [label_from length]; auto. Qed.

Lemma label_from_nth f : forall k j, (j < length f)%nat ->
  nth j (label_from k f) 0 = leaf_label (nth j f 0) (k + N.of_nat j).
Proof.
  induction f as [|x r IH]; intros k j Hj; cbn [length] in Hj; [lia|].
  destruct j as [|j]; cbn [label_from nth].
  - f_equal. lia.
  - rewrite IH by lia. f_equal. lia.
Qed.

Definition leaf_shaped (w : N) : Prop :=
  exists F L, w = enc F L /\ F < U32 /\ 65536 < L /\ L < 2 ^ 17.

Lemma labels_shaped f : (length f <= N.to_nat MAX_ALPHA_SIZE)%nat -> Forall (fun x => x < U32) f ->
  Forall leaf_shaped (labels f).
Proof.
  intros Hn Hf. apply Forall_forall. intros w Hw.
  apply (In_nth _ _ 0) in Hw. destruct Hw as [j [Hj <-]].
  unfold labels in *. rewrite label_from_length in Hj. rewrite label_from_nth by exact Hj.
  assert (HM : MAX_ALPHA_SIZE < 2 ^ 16) by (vm_compute; reflexivity).
  rewrite leaf_label_enc by lia.
  exists (nth j f 0), (65536 + (MAX_ALPHA_SIZE - (0 + N.of_nat j))).
  split; [reflexivity|]. split; [|lia].
  rewrite Forall_forall in Hf. apply Hf. apply nth_In. exact Hj.
Qed.

Lemma Fof_enc F L : L < U32 -> Fof (enc F L) = F.
Proof. apply enc_div. Qed.

Lemma Fof_mono a b : a <= b -> Fof a <= Fof b.
Proof. intro H. unfold Fof. apply N.div_le_mono; [unfold U32; lia|exact H]. Qed.

Section LeafWeight.
Variable f : list N.
Notation n := (length f).
Hypothesis Hn2 : (2 <= n)%nat.
Hypothesis Hnmax : (n <= N.to_nat MAX_ALPHA_SIZE)%nat.
Hypothesis Hf : Forall (fun x => x < U32) f.

Let sorted := sort_desc (labels f).
Let lw := make_leaf_weight f.
Let xs := xs_of f.

Lemma sorted_length : length sorted = n.
Proof. unfold sorted. rewrite (Permutation_length (sort_desc_perm _)). apply label_from_length. Qed.

Lemma lw_length : length lw = S n.
Proof. unfold lw, make_leaf_weight. cbn [length]. change (sort_desc (label_from 0 f)) with sorted. rewrite sorted_length. reflexivity. Qed.

Lemma xs_length : length xs = n.
Proof. unfold xs, xs_of. rewrite map_length, rev_length. apply sorted_length. Qed.

Lemma lw_0 : nth 0 lw 0 = MAXW.
Proof. reflexivity. Qed.

Lemma sorted_shaped : Forall leaf_shaped sorted.
Proof.
  apply Forall_forall. intros w Hw. apply (Permutation_in _ (sort_desc_perm _)) in Hw.
  pose proof (labels_shaped f Hnmax Hf) as H. rewrite Forall_forall in H. apply H. exact Hw.
Qed.

(* leaf_weight[n - e] is the packed weight of the (e+1)-th lightest leaf *)
Lemma lw_leaf e : (e < n)%nat ->
  exists L, nth (n - e) lw 0 = enc (leafF xs e) L /\ leafF xs e < U32 /\ 65536 < L /\ L < 2 ^ 17.
Proof.
  intro He. unfold lw, make_leaf_weight. change (sort_desc (label_from 0 f)) with sorted.
  replace (n - e)%nat with (S (n - 1 - e)) by lia. cbn [nth].
  pose proof sorted_length as SL.
  assert (Hin : In (nth (n - 1 - e) sorted 0) sorted) by (apply nth_In; lia).
  pose proof sorted_shaped as SS. rewrite Forall_forall in SS.
  destruct (SS _ Hin) as [F [L [E [HF [HL1 HL2]]]]].
  exists L. rewrite E.
  assert (EF : leafF xs e = F).
  { unfold leafF, xs, xs_of. fold sorted.
    rewrite (nth_indep _ 0 (Fof 0)) by (rewrite map_length, rev_length; lia).
    rewrite map_nth. rewrite rev_nth by lia. rewrite SL.
    replace (n - S e)%nat with (n - 1 - e)%nat by lia.
    rewrite E. apply Fof_enc. unfold U32; lia. }
  rewrite EF. auto.
Qed.

Lemma xs_sorted : forall i j, (i <= j)%nat -> (j < length xs)%nat -> leafF xs i <= leafF xs j.
Proof.
  intros i j Hij Hj. rewrite xs_length in Hj. pose proof sorted_length as SL.
  unfold leafF, xs, xs_of. fold sorted.
  assert (G : forall k, (k < n)%nat -> nth k (map Fof (rev sorted)) 0 = Fof (nth (n - S k) sorted 0)).
  { intros k Hk. rewrite (nth_indep _ 0 (Fof 0)) by (rewrite map_length, rev_length; lia).
    rewrite map_nth. rewrite rev_nth by lia. rewrite SL. reflexivity. }
  rewrite !G by lia.
  apply Fof_mono. apply ssorted_nth; [apply sort_desc_sorted|lia|lia].
Qed.

Lemma xs_perm : Permutation xs (rev f).
Proof.
  unfold xs, xs_of.
  assert (E : f = map Fof (labels f)).
  { apply nth_ext with (d := 0) (d' := Fof 0).
    - rewrite map_length. unfold labels. rewrite label_from_length. reflexivity.
    - intros j Hj. rewrite map_nth. unfold labels. rewrite label_from_nth by exact Hj.
      assert (HM : MAX_ALPHA_SIZE < 2 ^ 16) by (vm_compute; reflexivity).
      rewrite leaf_label_enc by lia. rewrite Fof_enc by (unfold U32; lia). reflexivity. }
  rewrite E at 2. rewrite <- map_rev. apply Permutation_map. rewrite <- !Permutation_rev.
  apply sort_desc_perm.
Qed.

Lemma lsum_perm (a b : list N) : Permutation a b -> lsum a = lsum b.
Proof. induction 1; cbn [lsum]; lia. Qed.

Lemma xs_total : lsum xs = lsum f.
Proof. rewrite (lsum_perm _ _ xs_perm). apply lsum_perm. symmetry. apply Permutation_rev. Qed.
End LeafWeight.

(* ---- weight_add on the shapes that occur ------------------------------------------------------------------ *)
Lemma wadd_shape d Fv Lv Fx Lx :
  Lv < d * 2 ^ 24 -> Lx < d * 2 ^ 24 -> d <= 20 -> Fv + Fx < U32 ->
  exists D, weight_add (enc Fv Lv) (enc Fx Lx) = enc (Fv + Fx) (D * 2 ^ 24) /\ 1 <= D <= d.
Proof.
  intros H1 H2 Hd HF.
  rewrite weight_add_enc by (try assumption; lia).
  exists (N.max (Lv / 2 ^ 24) (Lx / 2 ^ 24) + 1). split; [reflexivity|].
  assert (Lv / 2 ^ 24 < d) by (apply N.div_lt_upper_bound; lia).
  assert (Lx / 2 ^ 24 < d) by (apply N.div_lt_upper_bound; lia).
  lia.
Qed.

Lemma take_SS lw as_ d0 s :
  take lw as_ (S (S d0)) s =
  do pw <- rd APkg (pkgw s) (S d0);
  do cw <- rd ACurr (currw s) (S (S d0));
  if pw <=? cw then (do s1 <- pm_take_pkg s (S (S d0)) (S d0) pw; do s2 <- take lw as_ (S d0) s1; take lw as_ (S d0) s2)
  else pm_take_leaf lw as_ s (S (S d0)) cw.
Proof. reflexivity. Qed.

Section Refine.
Variable f : list N.
Notation n := (length f).
Hypothesis Hn2 : (2 <= n)%nat.
Hypothesis Hnmax : (n <= N.to_nat MAX_ALPHA_SIZE)%nat.
Hypothesis Hf : Forall (fun x => x < U32) f.
Hypothesis HB : N.of_nat (Nat.max n MCL) * lsum f < U32.
Hypothesis HMCL : (MCL <= 20)%nat.

Let lw := make_leaf_weight f.
Let xs := xs_of f.
Notation L := (ilev xs).
Notation El := (ell xs).
Notation Pk := (pk xs).

Let Hxn : length xs = n := xs_length f.
Let Hxn2 : (2 <= length xs)%nat.
Proof. rewrite Hxn. exact Hn2. Qed.
Let Hxs := xs_sorted f Hn2 Hnmax.
Let IA := inv_all xs Hxn2 Hxs.

Definition lvl_ok (s : pm_st) (d : nat) (I : il) : Prop :=
  nth d (tree s) [] = ia I /\
  (exists D, nth d (pkgw s) 0 = enc (ipkg I) (D * 2 ^ 24) /\ 1 <= D <= N.of_nat d) /\
  (exists Lv, nth d (prevw s) 0 = enc (iprev I) Lv /\ Lv < N.of_nat d * 2 ^ 24) /\
  nth d (currw s) 0 = nth (n - N.to_nat (hd 0 (ia I))) lw 0.

Fixpoint Cons (d : nat) (s : pm_st) (t : nat) : Prop :=
  match d with
  | O => True
  | S d1 => (2 <= t)%nat /\ (t <= 2 * n - 2)%nat /\ lvl_ok s (S d1) (L (S d1) t) /\
            Cons d1 s (2 * Pk (S d1) t + 2)
  end.

Definition agree_at (e : nat) (s s' : pm_st) : Prop :=
  nth e (tree s) [] = nth e (tree s') [] /\ nth e (pkgw s) 0 = nth e (pkgw s') 0 /\
  nth e (prevw s) 0 = nth e (prevw s') 0 /\ nth e (currw s) 0 = nth e (currw s') 0.

Lemma lvl_ok_agree s s' d I : agree_at d s s' -> lvl_ok s d I -> lvl_ok s' d I.
Proof. intros [A1 [A2 [A3 A4]]] H. unfold lvl_ok in *. rewrite <- A1, <- A2, <- A3, <- A4. exact H. Qed.

Lemma Cons_agree d : forall s s' t, (forall e, (e <= d)%nat -> agree_at e s s') -> Cons d s t -> Cons d s' t.
Proof.
  induction d as [|d1 IH]; intros s s' t HA H; [exact I|].
  cbn [Cons] in *. destruct H as [H1 [H2 [H3 H4]]].
  split; [exact H1|]. split; [exact H2|]. split.
  - eapply lvl_ok_agree; [apply HA; lia|exact H3].
  - eapply IH; [|exact H4]. intros e He. apply HA. lia.
Qed.

Lemma pkg_lt_U32 d1 t : (S d1 <= MCL)%nat -> (2 <= t)%nat -> (t <= 2 * n - 2)%nat -> ipkg (L (S d1) t) < U32.
Proof.
  intros Hd Ht Hle.
  pose proof (pkg_bound xs Hxn2 Hxs d1 t Hd Ht) as H. rewrite Hxn in H. specialize (H Hle).
  unfold xs in H. rewrite (xs_total f Hn2 Hnmax) in H. fold xs in H. lia.
Qed.

Lemma hd_ia d1 t : (2 <= t)%nat -> hd 0 (ia (L (S d1) t)) = N.of_nat (El (S d1) t).
Proof. intro Ht. rewrite El_unfold. lia. Qed.

Lemma agree_refl e s : agree_at e s s.
Proof. repeat split. Qed.

(* a leaf is taken at level d *)
Lemma leaf_step s d1 t : wf s -> (S d1 <= MCL)%nat -> (2 <= t)%nat -> (S t <= 2 * n - 2)%nat ->
  lvl_ok s (S d1) (L (S d1) t) -> (El (S d1) t < n)%nat -> L (S d1) (S t) = il_leaf xs (L (S d1) t) ->
  exists s', pm_take_leaf lw (N.of_nat n) s (S d1) (nth (S d1) (currw s) 0) = Ok s' /\ wf s' /\
             lvl_ok s' (S d1) (L (S d1) (S t)) /\ (forall e, e <> S d1 -> agree_at e s s') /\ cnt s' = cnt s.
Proof.
  intros Hwf Hd Ht Hle [Htree [[D [Epkg HD]] [[Lv [Eprev HLv]] Ecurr]]] Hlt Hnext.
  pose proof (hd_ia d1 t Ht) as Hhd. set (e := El (S d1) t) in *. set (I := L (S d1) t) in *.
  pose proof (lw_length f) as Hlw. fold lw in Hlw.
  destruct (lw_leaf f Hn2 Hnmax Hf e Hlt) as [Lc [Ecw [HF [HL1 HL2]]]]. fold lw xs in Ecw, HF.
  rewrite Hhd, Nnat.Nat2N.id in Ecurr. rewrite Ecw in Ecurr.
  pose proof (take_leaf_ok lw (N.of_nat n) s (S d1) (nth (S d1) (currw s) 0) Hwf Hd) as TL.
  cbn zeta in TL. rewrite Htree, Hhd in TL.
  specialize (TL ltac:(lia) ltac:(lia)).
  eexists. split; [exact TL|].
  destruct Hwf as [W1 W2 W3 W4 W5 W6].
  pose proof (inv_len _ _ _ (IA d1 t Ht)) as Ilen. fold I in Ilen.
  assert (Hsum : iprev I + leafF xs e < U32).
  { pose proof (pkg_lt_U32 d1 (S t) Hd ltac:(lia) Hle) as H. rewrite Hnext in H.
    unfold il_leaf in H; cbn [ipkg] in H. rewrite Hhd, Nnat.Nat2N.id in H. exact H. }
  split; [|split; [|split]].
  - constructor; cbn [tree pkgw prevw currw]; rewrite ?upd_length; auto.
    + intros e0 He0. rewrite nth_upd_rows by lia. destruct (e0 =? S d1)%nat; [|apply W2; exact He0].
      cbn [length]. destruct (ia I); cbn [length tl] in *; lia.
    + rewrite nth_upd_N by lia. cbn [Nat.eqb]. exact W6.
  - rewrite Hnext. unfold lvl_ok, il_leaf; cbn [tree pkgw prevw currw ia ipkg iprev hd].
    rewrite nth_upd_rows by lia. rewrite !nth_upd_N by lia. rewrite Nat.eqb_refl.
    rewrite Hhd, Nnat.Nat2N.id. split; [reflexivity|]. split; [|split].
    + rewrite Eprev, Ecurr.
      destruct (wadd_shape (N.of_nat (S d1)) (iprev I) Lv (leafF xs e) Lc) as [D' [E' HD']]; try lia.
      exists D'. split; [exact E'|lia].
    + exists Lc. split; [exact Ecurr|lia].
    + f_equal. lia.
  - intros e0 He0. unfold agree_at; cbn [tree pkgw prevw currw].
    rewrite nth_upd_rows by lia. rewrite !nth_upd_N by lia.
    replace (e0 =? S d1)%nat with false by (symmetry; apply Nat.eqb_neq; exact He0). repeat split.
  - reflexivity.
Qed.

(* a package is taken at level d0+2 *)
Lemma pkg_step s d0 t lo : wf s -> (S (S d0) <= MCL)%nat -> (2 <= t)%nat -> (S t <= 2 * n - 2)%nat ->
  lvl_ok s (S (S d0)) (L (S (S d0)) t) -> lvl_ok s (S d0) lo -> ipkg lo < U32 ->
  L (S (S d0)) (S t) = il_pkg (L (S (S d0)) t) lo ->
  exists s', pm_take_pkg s (S (S d0)) (S d0) (nth (S d0) (pkgw s) 0) = Ok s' /\ wf s' /\
             lvl_ok s' (S (S d0)) (L (S (S d0)) (S t)) /\ (forall e, e <> S (S d0) -> agree_at e s s') /\ cnt s' = cnt s.
Proof.
  intros Hwf Hd Ht Hle [Htree [[D [Epkg HD]] [[Lv [Eprev HLv]] Ecurr]]]
         [Ltree [[Dl [Lpkg HDl]] _]] Hlo Hnext.
  set (I := L (S (S d0)) t) in *.
  pose proof (take_pkg_ok s (S d0) (nth (S d0) (pkgw s) 0) Hwf Hd) as TP.
  eexists. split; [exact TP|].
  destruct Hwf as [W1 W2 W3 W4 W5 W6].
  assert (Hsum : iprev I + ipkg lo < U32).
  { pose proof (pkg_lt_U32 (S d0) (S t) Hd ltac:(lia) Hle) as H. rewrite Hnext in H. exact H. }
  split; [|split; [|split]].
  - constructor; cbn [tree pkgw prevw currw]; rewrite ?upd_length; auto.
    + intros e0 He0. rewrite nth_upd_rows by lia. destruct (e0 =? S (S d0))%nat; [|apply W2; exact He0].
      cbn [length]. rewrite firstn_length. pose proof (W2 (S d0) ltac:(lia)). lia.
    + rewrite nth_upd_N by lia. cbn [Nat.eqb]. exact W6.
  - rewrite Hnext. unfold lvl_ok, il_pkg; cbn [tree pkgw prevw currw ia ipkg iprev hd].
    rewrite nth_upd_rows by lia. rewrite !nth_upd_N by lia. rewrite Nat.eqb_refl.
    rewrite Htree, Ltree. split; [reflexivity|]. split; [|split].
    + rewrite Eprev, Lpkg.
      destruct (wadd_shape (N.of_nat (S (S d0))) (iprev I) Lv (ipkg lo) (Dl * 2 ^ 24)) as [D' [E' HD']]; try lia.
      exists D'. split; [exact E'|lia].
    + exists (Dl * 2 ^ 24). split; [exact Lpkg|lia].
    + exact Ecurr.
  - intros e0 He0. unfold agree_at; cbn [tree pkgw prevw currw].
    rewrite nth_upd_rows by lia. rewrite !nth_upd_N by lia.
    replace (e0 =? S (S d0))%nat with false by (symmetry; apply Nat.eqb_neq; exact He0). repeat split.
  - reflexivity.
Qed.

Lemma leaf_lt_MAXW F Lc : F < U32 -> Lc < 2 ^ 17 -> enc F Lc < MAXW.
Proof. unfold enc, U32, MAXW. lia. Qed.

Lemma agree_trans e s1 s2 s3 : agree_at e s1 s2 -> agree_at e s2 s3 -> agree_at e s1 s3.
Proof.
  intros [A1 [A2 [A3 A4]]] [B1 [B2 [B3 B4]]]. unfold agree_at.
  rewrite A1, A2, A3, A4. auto.
Qed.

(* one take at level d1+1, all levels below consistent: the array program follows the level sequences *)
Lemma take_ref d1 : forall s t, wf s -> Cons (S d1) s t -> (S d1 <= MCL)%nat -> (S t <= 2 * n - 2)%nat ->
  exists s', take lw (N.of_nat n) (S d1) s = Ok s' /\ wf s' /\ Cons (S d1) s' (S t) /\
             (forall e, (S d1 < e)%nat -> agree_at e s s') /\ cnt s' = cnt s.
Proof.
  induction d1 as [|d0 IH]; intros s t Hwf HC Hd Hle.
  - (* level 1 *)
    cbn [Cons] in HC. destruct HC as [Ht [Ht2 [Hlv _]]].
    pose proof Hlv as [Htree [_ [_ Ecurr]]].
    pose proof (hd_ia 0 t Ht) as Hhd. rewrite Hhd, Nnat.Nat2N.id in Ecurr.
    pose proof (inv_hi _ _ _ (IA 0 t Ht)) as Ihi. rewrite Hxn in Ihi.
    cbn [take]. rewrite (rd_ok APkg (pkgw s) 0 0) by (rewrite (wf_pkg s Hwf); lia). cbn [bind].
    rewrite (rd_ok ACurr (currw s) 1 0) by (rewrite (wf_curr s Hwf); lia). cbn [bind].
    rewrite (wf_pkg0 s Hwf).
    destruct (Nat.eq_dec (El 1 t) n) as [Heq|Hneq].
    + (* leaves exhausted: nothing happens *)
      rewrite Ecurr, Heq, Nat.sub_diag. change (nth 0 lw 0) with MAXW.
      rewrite N.leb_refl. exists s.
      assert (Hnext : L 1 (S t) = L 1 t).
      { rewrite ilev_S by exact Ht. unfold istep. rewrite <- El_unfold.
        destruct (Nat.ltb_spec (El 1 t) (length xs)) as [H|H]; [lia|reflexivity]. }
      split; [reflexivity|]. split; [exact Hwf|]. split.
      * cbn [Cons]. rewrite Hnext. split; [lia|]. split; [lia|]. split; [exact Hlv|exact I].
      * split; [intros; apply agree_refl|reflexivity].
    + assert (Hlt : (El 1 t < n)%nat) by lia.
      destruct (lw_leaf f Hn2 Hnmax Hf _ Hlt) as [Lc [Ecw [HF [HL1 HL2]]]]. fold lw xs in Ecw, HF.
      assert (Hcmp : (MAXW <=? nth 1 (currw s) 0) = false).
      { rewrite Ecurr, Ecw. apply N.leb_gt. apply leaf_lt_MAXW; assumption. }
      rewrite Hcmp.
      assert (Hnext : L 1 (S t) = il_leaf xs (L 1 t)).
      { rewrite ilev_S by exact Ht. unfold istep. rewrite <- El_unfold.
        destruct (Nat.ltb_spec (El 1 t) (length xs)) as [H|H]; [reflexivity|lia]. }
      destruct (leaf_step s 0 t Hwf Hd Ht Hle Hlv Hlt Hnext) as [s' [E1 [W' [Lv' [Ag Cn]]]]].
      exists s'. split; [exact E1|]. split; [exact W'|]. split.
      * cbn [Cons]. split; [lia|]. split; [lia|]. split; [exact Lv'|exact I].
      * split; [|exact Cn]. intros e He. apply Ag. lia.
  - (* level d0 + 2 *)
    cbn [Cons] in HC. destruct HC as [Ht [Ht2 [Hlv [Ht3 [Ht4 [Hlo HClow]]]]]].
    set (p := Pk (S (S d0)) t) in *. set (lo := L (S d0) (2 * p + 2)) in *.
    pose proof Hlv as [Htree [_ [_ Ecurr]]].
    pose proof Hlo as [_ [[Dl [Lpkg HDl]] _]].
    pose proof (hd_ia (S d0) t Ht) as Hhd. rewrite Hhd, Nnat.Nat2N.id in Ecurr.
    pose proof (IA (S d0) t Ht) as Inv0.
    pose proof (inv_hi _ _ _ Inv0) as Ihi. rewrite Hxn in Ihi. pose proof (inv_t _ _ _ Inv0) as It.
    assert (Hlo32 : ipkg lo < U32) by (apply pkg_lt_U32; lia).
    rewrite take_SS. rewrite (rd_ok APkg (pkgw s) (S d0) 0) by (rewrite (wf_pkg s Hwf); lia). cbn [bind].
    rewrite (rd_ok ACurr (currw s) (S (S d0)) 0) by (rewrite (wf_curr s Hwf); lia). cbn [bind].
    (* the comparison of packed weights is the comparison of the level sequences *)
    assert (Hdec : (nth (S d0) (pkgw s) 0 <=? nth (S (S d0)) (currw s) 0) =
                   ((length xs <=? El (S (S d0)) t)%nat || (ipkg lo <? leafF xs (El (S (S d0)) t)))).
    { rewrite Lpkg, Ecurr. destruct (Nat.leb_spec (length xs) (El (S (S d0)) t)) as [Hge|Hlt]; cbn [orb].
      - replace (n - El (S (S d0)) t)%nat with 0%nat by lia. change (nth 0 lw 0) with MAXW.
        apply N.leb_le. assert (enc (ipkg lo) (Dl * 2 ^ 24) < U64) by (apply enc_lt; unfold U32 in *; lia).
        unfold MAXW, U64 in *. lia.
      - destruct (lw_leaf f Hn2 Hnmax Hf (El (S (S d0)) t) ltac:(lia)) as [Lc [Ecw [HF [HL1 HL2]]]].
        fold lw xs in Ecw, HF. rewrite Ecw.
        destruct (N.ltb_spec (ipkg lo) (leafF xs (El (S (S d0)) t))) as [H|H].
        + apply N.leb_le. apply enc_le; unfold U32; lia.
        + apply N.leb_gt. apply enc_lt_iff; unfold U32; lia. }
    assert (Hstep : L (S (S d0)) (S t) =
                    if (length xs <=? El (S (S d0)) t)%nat || (ipkg lo <? leafF xs (El (S (S d0)) t))
                    then il_pkg (L (S (S d0)) t) lo else il_leaf xs (L (S (S d0)) t)).
    { rewrite ilev_S by exact Ht. unfold istep. rewrite <- El_unfold. fold (Pk (S (S d0)) t). reflexivity. }
    rewrite Hdec. destruct ((length xs <=? El (S (S d0)) t)%nat || (ipkg lo <? leafF xs (El (S (S d0)) t))) eqn:Hb.
    + (* package, then two takes one level down *)
      destruct (pkg_step s d0 t lo Hwf Hd Ht Hle Hlv Hlo Hlo32 Hstep) as [s1 [E1 [W1 [Lv1 [Ag1 Cn1]]]]].
      rewrite E1. cbn [bind].
      assert (El' : El (S (S d0)) (S t) = El (S (S d0)) t).
      { rewrite (El_unfold _ _ (S t)), Hstep. unfold il_pkg; cbn [ia hd]. rewrite <- El_unfold. reflexivity. }
      assert (Pk' : Pk (S (S d0)) (S t) = S p) by (rewrite Pk_unfold, El'; unfold p; rewrite Pk_unfold; lia).
      pose proof (K_bound xs Hxn2 Hxs (S d0) (S t) ltac:(lia)) as HK. rewrite Hxn in HK.
      specialize (HK Hle). rewrite Pk' in HK.
      assert (C1 : Cons (S d0) s1 (2 * p + 2)).
      { eapply Cons_agree; [|cbn [Cons]; split; [exact Ht3|split; [exact Ht4|split; [exact Hlo|exact HClow]]]].
        intros e He. apply Ag1. lia. }
      destruct (IH s1 (2 * p + 2)%nat W1 C1 ltac:(lia) ltac:(lia)) as [s2 [E2 [W2 [C2 [Ag2 Cn2]]]]].
      rewrite E2. cbn [bind].
      destruct (IH s2 (S (2 * p + 2)) W2 C2 ltac:(lia) ltac:(lia)) as [s3 [E3 [W3 [C3 [Ag3 Cn3]]]]].
      exists s3. split; [exact E3|]. split; [exact W3|]. split; [|split].
      * cbn [Cons]. split; [lia|]. split; [lia|]. split.
        -- eapply lvl_ok_agree; [|exact Lv1]. eapply agree_trans; [apply Ag2|apply Ag3]; lia.
        -- rewrite Pk'. replace (2 * S p + 2)%nat with (S (S (2 * p + 2))) by lia. exact C3.
      * intros e He. eapply agree_trans; [apply Ag1; lia|]. eapply agree_trans; [apply Ag2|apply Ag3]; lia.
      * congruence.
    + (* leaf *)
      apply Bool.orb_false_iff in Hb as [Hb1 Hb2]. apply Nat.leb_gt in Hb1. rewrite Hxn in Hb1.
      destruct (leaf_step s (S d0) t Hwf Hd Ht Hle Hlv Hb1 Hstep) as [s' [E1 [W' [Lv' [Ag Cn]]]]].
      exists s'. split; [exact E1|]. split; [exact W'|]. split; [|split].
      * assert (El' : El (S (S d0)) (S t) = S (El (S (S d0)) t)).
        { rewrite (El_unfold _ _ (S t)), Hstep. unfold il_leaf; cbn [ia hd]. rewrite El_unfold. lia. }
        assert (Pk' : Pk (S (S d0)) (S t) = p) by (rewrite Pk_unfold, El'; unfold p; rewrite Pk_unfold; lia).
        assert (Clow : Cons (S d0) s' (2 * p + 2)).
        { eapply Cons_agree; [|cbn [Cons]; split; [exact Ht3|split; [exact Ht4|split; [exact Hlo|exact HClow]]]].
          intros e He. apply Ag. lia. }
        cbn [Cons]. split; [lia|]. split; [lia|]. split; [exact Lv'|]. rewrite Pk'.
        cbn [Cons] in Clow. exact Clow.
      * intros e He. apply Ag. lia.
      * exact Cn.
Qed.

(* ---- initialisation --------------------------------------------------------------------------------------- *)
Definition init_row : list N := 2 :: repeat 0 MCL.

Lemma zero_tree_row e : (e <= MCL)%nat -> nth e zero_tree [] = repeat 0 (S MCL).
Proof.
  intro He. unfold zero_tree. remember (repeat 0 (S MCL)) as z.
  assert (G : forall k e0, (e0 < k)%nat -> nth e0 (repeat z k) [] = z).
  { induction k as [|k IHk]; intros [|e0] H; cbn [repeat nth]; try lia; auto. apply IHk. lia. }
  apply G. lia.
Qed.

Lemma init_loop_ok (as2 : nat) (wa wb wc : N) : n = S (S as2) ->
  nth (S (S as2)) lw 0 = wa -> nth (S as2) lw 0 = wb -> nth as2 lw 0 = wc ->
  forall k depth s, (depth + k = S MCL)%nat -> (1 <= depth)%nat -> wf s ->
  (forall e, (depth <= e)%nat -> (e <= MCL)%nat -> nth e (tree s) [] = repeat 0 (S MCL)) ->
  exists s', pm_init_loop k depth lw (S (S as2)) s = Ok s' /\ wf s' /\ cnt s' = cnt s /\
    (forall e, (e < depth)%nat -> agree_at e s s') /\
    (forall e, (depth <= e)%nat -> (e <= MCL)%nat ->
       nth e (tree s') [] = init_row /\ nth e (pkgw s') 0 = weight_add wa wb /\
       nth e (prevw s') 0 = wb /\ nth e (currw s') 0 = wc).
Proof.
  intros En Ea Eb Ec. pose proof (lw_length f) as Hlw. fold lw in Hlw.
  induction k as [|k IHk]; intros depth s Hk Hd1 Hwf Hz.
  - exists s. cbn [pm_init_loop]. split; [reflexivity|]. split; [exact Hwf|]. split; [reflexivity|].
    split; [intros; apply agree_refl|]. intros e H1 H2. lia.
  - cbn [pm_init_loop].
    destruct Hwf as [W1 W2 W3 W4 W5 W6].
    unfold wr2. rewrite (rd_ok ATree (tree s) depth []) by lia. cbn [bind].
    rewrite (Hz depth ltac:(lia) ltac:(lia)).
    rewrite wr_ok by (rewrite repeat_length; lia). cbn [bind].
    rewrite wr_ok by lia. cbn [bind].
    rewrite (rd_ok ALeaf lw (S (S as2)) 0) by lia. cbn [bind].
    rewrite (rd_ok ALeaf lw (S as2) 0) by lia. cbn [bind].
    rewrite (rd_ok ALeaf lw as2 0) by lia. cbn [bind].
    rewrite Ea, Eb, Ec.
    rewrite wr_ok by lia. cbn [bind]. rewrite wr_ok by lia. cbn [bind]. rewrite wr_ok by lia. cbn [bind].
    set (s1 := mkst _ _ _ _ _).
    assert (Hrow : upd (repeat 0 (S MCL)) 0 2 = init_row) by reflexivity.
    assert (Wf1 : wf s1).
    { constructor; unfold s1; cbn [tree pkgw prevw currw]; rewrite ?upd_length; auto.
      - intros e He. rewrite nth_upd_rows by lia. destruct (e =? depth)%nat; [|apply W2; exact He].
        rewrite upd_length, repeat_length. reflexivity.
      - rewrite nth_upd_N by lia. replace (0 =? depth)%nat with false by (symmetry; apply Nat.eqb_neq; lia). exact W6. }
    destruct (IHk (S depth) s1 ltac:(lia) ltac:(lia) Wf1) as [s' [E' [W' [C' [A' R']]]]].
    { intros e H1 H2. unfold s1; cbn [tree]. rewrite nth_upd_rows by lia.
      replace (e =? depth)%nat with false by (symmetry; apply Nat.eqb_neq; lia). apply Hz; lia. }
    exists s'. split; [exact E'|]. split; [exact W'|]. split; [rewrite C'; reflexivity|]. split.
    + intros e He. eapply agree_trans; [|apply A'; lia].
      unfold agree_at, s1; cbn [tree pkgw prevw currw]. rewrite nth_upd_rows by lia. rewrite !nth_upd_N by lia.
      replace (e =? depth)%nat with false by (symmetry; apply Nat.eqb_neq; lia). repeat split.
    + intros e H1 H2. destruct (Nat.eq_dec e depth) as [->|Hne]; [|apply R'; lia].
      destruct (A' depth ltac:(lia)) as [B1 [B2 [B3 B4]]]. rewrite <- B1, <- B2, <- B3, <- B4.
      unfold s1; cbn [tree pkgw prevw currw]. rewrite nth_upd_rows by lia. rewrite !nth_upd_N by lia.
      rewrite Nat.eqb_refl. rewrite Hrow. auto.
Qed.

Lemma pm_init_ok : exists s0, pm_init lw n zero_tree = Ok s0 /\ wf s0 /\ length (cnt s0) = COUNT_LEN /\
  forall d, (d <= MCL)%nat -> Cons d s0 2.
Proof.
  assert (exists as2, n = S (S as2)) as [as2 En] by (exists (n - 2)%nat; lia).
  pose proof (lw_length f) as Hlw. fold lw in Hlw.
  unfold pm_init. rewrite wr_ok by (rewrite repeat_length; lia). cbn [bind].
  set (s00 := mkst _ _ _ _ _).
  assert (Wf0 : wf s00).
  { constructor; unfold s00; cbn [tree pkgw prevw currw]; rewrite ?upd_length, ?repeat_length; auto.
    all: try (unfold zero_tree; apply repeat_length).
    all: try (intros e He; rewrite zero_tree_row by exact He; apply repeat_length). }
  destruct (init_loop_ok as2 _ _ _ En eq_refl eq_refl eq_refl MCL 1%nat s00 ltac:(lia) ltac:(lia) Wf0)
    as [s0 [E0 [W0 [C0 [_ R0]]]]].
  { intros e _ He. unfold s00; cbn [tree]. apply zero_tree_row. exact He. }
  rewrite <- En in E0, R0.
  exists s0. split; [exact E0|]. split; [exact W0|]. split; [rewrite C0; unfold s00; cbn [cnt]; apply repeat_length|].
  (* the two lightest leaves *)
  destruct (lw_leaf f Hn2 Hnmax Hf 0%nat ltac:(lia)) as [L0 [E0w [HF0 [HL01 HL02]]]].
  destruct (lw_leaf f Hn2 Hnmax Hf 1%nat ltac:(lia)) as [L1 [E1w [HF1 [HL11 HL12]]]].
  fold lw xs in E0w, E1w, HF0, HF1. rewrite Nat.sub_0_r in E0w.
  replace (n - 1)%nat with (S as2) in E1w by lia.
  assert (Hsum : leafF xs 0 + leafF xs 1 < U32).
  { pose proof (pkg_lt_U32 0 2 MCL_pos ltac:(lia) ltac:(lia)) as H. rewrite ilev_2 in H. exact H. }
  assert (Hlvl : forall d1, (S d1 <= MCL)%nat -> lvl_ok s0 (S d1) (il_init xs)).
  { intros d1 Hd. destruct (R0 (S d1) ltac:(lia) Hd) as [T1 [T2 [T3 T4]]].
    unfold lvl_ok, il_init; cbn [ia ipkg iprev hd]. split; [exact T1|]. split; [|split].
    - rewrite T2, E0w, E1w.
      destruct (wadd_shape (N.of_nat (S d1)) (leafF xs 0) L0 (leafF xs 1) L1) as [D' [E' HD']]; try lia.
      exists D'. split; [exact E'|lia].
    - exists L1. rewrite T3, E1w. split; [reflexivity|lia].
    - rewrite T4. f_equal. change (N.to_nat 2) with 2%nat. lia. }
  induction d as [|d1 IHd]; intro Hd; [exact I|].
  cbn [Cons]. split; [lia|]. split; [lia|]. split.
  - rewrite ilev_2. apply Hlvl. exact Hd.
  - rewrite Pk_unfold, El_init. cbn [Nat.sub Nat.mul Nat.add]. apply IHd. lia.
Qed.

(* ---- the whole of package_merge ------------------------------------------------------------------------------ *)
Lemma widths_ok k : forall s t, wf s -> Cons MCL s t -> (t + 2 * k = 2 * n - 2)%nat ->
  exists s', widths_spec k lw (N.of_nat n) s = Ok s' /\ wf s' /\ Cons MCL s' (2 * n - 2) /\ cnt s' = cnt s.
Proof.
  assert (EM : MCL = S (MCL - 1)) by (pose proof MCL_pos; lia).
  induction k as [|k IHk]; intros s t Hwf HC Ht.
  - exists s. cbn [widths_spec]. replace (2 * n - 2)%nat with t by lia. auto.
  - cbn [widths_spec]. unfold width_spec.
    rewrite EM in HC |- *.
    destruct (take_ref (MCL - 1) s t Hwf HC ltac:(lia) ltac:(lia)) as [s1 [E1 [W1 [C1 [_ N1]]]]].
    rewrite E1. cbn [bind].
    destruct (take_ref (MCL - 1) s1 (S t) W1 C1 ltac:(lia) ltac:(lia)) as [s2 [E2 [W2 [C2 [_ N2]]]]].
    rewrite E2. cbn [bind]. rewrite <- EM in *.
    destruct (IHk s2 (S (S t)) W2 C2 ltac:(lia)) as [s' [E' [W' [C' N']]]].
    exists s'. split; [exact E'|]. split; [exact W'|]. split; [exact C'|congruence].
Qed.

Lemma Cons_rows d : forall s, Cons d s (2 * n - 2) ->
  forall h, (1 <= h)%nat -> (h <= d)%nat -> nth h (tree s) [] = ia (L h (2 * n - 2)).
Proof.
  induction d as [|d1 IHd]; intros s HC h H1 H2; [lia|].
  cbn [Cons] in HC. destruct HC as [_ [_ [[Htree _] Hlow]]].
  destruct (Nat.eq_dec h (S d1)) as [->|Hne]; [exact Htree|].
  destruct (final_counts xs Hxn2 Hxs d1) as [_ P]. rewrite Hxn in P. rewrite P in Hlow.
  replace (2 * (n - 2) + 2)%nat with (2 * n - 2)%nat in Hlow by lia.
  apply IHd; [exact Hlow|lia|lia].
Qed.

(* package_merge never fails and leaves the rows of the level sequences in tree[1..MCL] *)
Theorem package_merge_rows :
  exists s, package_merge lw n = Ok s /\ wf s /\
    forall h, (1 <= h)%nat -> (h <= MCL)%nat -> nth h (tree s) [] = ia (L h (2 * n - 2)).
Proof.
  destruct pm_init_ok as [s0 [E0 [W0 [L0 C0]]]].
  destruct (widths_ok (n - 2) s0 2 W0 (C0 MCL (Nat.le_refl _)) ltac:(lia)) as [s' [E' [W' [C' _]]]].
  assert (HCL : (S MCL <= COUNT_LEN)%nat) by (vm_compute; lia).
  destruct (package_merge_spec lw n s0 s' E0 ltac:(lia) E') as [c' EP].
  exists (set_cnt s' c'). split; [exact EP|]. split.
  - destruct W'. constructor; auto.
  - intros h H1 H2. unfold set_cnt; cbn [tree]. apply (Cons_rows MCL s' C' h H1 H2).
Qed.

(* the explicit stack count[] never needs more than MAX_CODE_LENGTH+1 entries: the width loop run on a
   count[] array of exactly that length (all accesses bounds-checked) succeeds *)
Theorem package_merge_small_stack c : length c = S MCL ->
  exists s0 s' c', pm_init lw n zero_tree = Ok s0 /\
    pm_widths (n - 2) lw (N.of_nat n) (set_cnt s0 c) = Ok (set_cnt s' c') /\ length c' = S MCL.
Proof.
  intro Hc. destruct pm_init_ok as [s0 [E0 [W0 [L0 C0]]]].
  destruct (widths_ok (n - 2) s0 2 W0 (C0 MCL (Nat.le_refl _)) ltac:(lia)) as [s' [E' _]].
  destruct (pm_widths_spec lw (N.of_nat n) (n - 2) s0 s' E' c ltac:(lia)) as [c' [Lc' W]].
  exists s0, s', c'. split; [exact E0|]. split; [exact W|lia].
Qed.
End Refine.
