(* C20 - the array program [take] (Enc/PmLoop.v) computes the level sequences [ilev] (Enc/PmIdeal.v):
   array-level frame lemmas, facts about leaf_weight[], the refinement invariant and its preservation. *)
From Coq Require Import List NArith ZArith Arith Bool Lia ZifyBool ZifyNat Sorting.Sorted Sorting.Permutation.
From LBZ Require Import Gen.Consts Enc.PmModel Enc.PmBasics Enc.PmLoop Enc.PmIdeal Enc.PmReal.
Import ListNotations.
Local Open Scope N_scope.

(* ---- well-formed arrays ------------------------------------------------------------------------------- *)
Record wf (s : pm_st) : Prop := mkwf {
  wf_tree : length (tree s) = S MCL;
  wf_rows : forall e, (e <= MCL)%nat -> length (nth e (tree s) []) = S MCL;
  wf_pkg : length (pkgw s) = S MCL;
  wf_prev : length (prevw s) = S MCL;
  wf_curr : length (currw s) = S MCL;
  wf_pkg0 : nth 0 (pkgw s) 0 = MAXW
}.

Lemma MCL_pos : (1 <= MCL)%nat. Proof. vm_compute. lia. Qed.

(* explicit result of the package update *)
Lemma take_pkg_ok s d1 pw : wf s -> (S d1 <= MCL)%nat ->
  pm_take_pkg s (S d1) d1 pw =
  Ok (mkst (upd (tree s) (S d1) (hd 0 (nth (S d1) (tree s) []) :: firstn MCL (nth d1 (tree s) [])))
           (upd (pkgw s) (S d1) (weight_add (nth (S d1) (prevw s) 0) pw))
           (upd (prevw s) (S d1) pw) (currw s) (cnt s)).
Proof.
  intros [Ht Hr Hp Hv Hc _] Hd. unfold pm_take_pkg, copy_row.
  rewrite (rd_ok ATree (tree s) d1 []) by lia. cbn [bind].
  rewrite (rd_ok ATree (tree s) (S d1) []) by lia. cbn [bind].
  pose proof (Hr d1 ltac:(lia)) as L1. pose proof (Hr (S d1) Hd) as L2.
  destruct (Nat.leb_spec MCL (length (nth d1 (tree s) []))) as [_|H]; [|lia].
  destruct (nth (S d1) (tree s) []) as [|x tl] eqn:E; [discriminate|]. cbn [length] in L2.
  destruct (Nat.leb_spec MCL (length tl)) as [_|H]; [|lia].
  rewrite wr_ok by lia. cbn [bind].
  rewrite (rd_ok APrev (prevw s) (S d1) 0) by lia. cbn [bind].
  rewrite wr_ok by lia. cbn [bind]. rewrite wr_ok by lia. cbn [bind].
  rewrite skipn_all2 by lia. rewrite app_nil_r. reflexivity.
Qed.

(* explicit result of the leaf update *)
Lemma take_leaf_ok lw as_ s d cw : wf s -> (d <= MCL)%nat ->
  let t0 := hd 0 (nth d (tree s) []) in
  t0 + 1 <= as_ -> (N.to_nat (as_ - (t0 + 1)) < length lw)%nat ->
  pm_take_leaf lw as_ s d cw =
  Ok (mkst (upd (tree s) d (t0 + 1 :: tl (nth d (tree s) [])))
           (upd (pkgw s) d (weight_add (nth d (prevw s) 0) cw))
           (upd (prevw s) d cw)
           (upd (currw s) d (nth (N.to_nat (as_ - (t0 + 1))) lw 0)) (cnt s)).
Proof.
  intros [Ht Hr Hp Hv Hc _] Hd t0 Has Hlw. unfold pm_take_leaf, rd2, wr2.
  rewrite (rd_ok ATree (tree s) d []) by lia. cbn [bind].
  pose proof (Hr d Hd) as L2.
  destruct (nth d (tree s) []) as [|x tl] eqn:E; [discriminate|]. cbn [length] in L2.
  subst t0. cbn [hd tl].
  rewrite (rd_ok ARow (x :: tl) 0 0) by (cbn [length]; lia). cbn [bind nth].
  rewrite (rd_ok ATree (tree s) d []) by lia. cbn [bind]. rewrite E.
  rewrite wr_ok by (cbn [length]; lia). cbn [bind upd].
  rewrite wr_ok by lia. cbn [bind].
  rewrite (rd_ok APrev (prevw s) d 0) by lia. cbn [bind].
  rewrite wr_ok by lia. cbn [bind]. rewrite wr_ok by lia. cbn [bind].
  destruct (N.leb_spec (x + 1) as_) as [_|H]; [|lia].
  rewrite (rd_ok ALeaf lw _ 0) by exact Hlw. cbn [bind].
  rewrite wr_ok by lia. cbn [bind]. reflexivity.
Qed.

Lemma nth_upd_rows (t : list (list N)) i row e :
  (i < length t)%nat -> nth e (upd t i row) [] = if (e =? i)%nat then row else nth e t [].
Proof.
  intro H. destruct (Nat.eqb_spec e i) as [->|Hne].
  - apply upd_nth_same. exact H.
  - apply upd_nth_other. congruence.
Qed.

Lemma nth_upd_N (l : list N) i v e :
  (i < length l)%nat -> nth e (upd l i v) 0 = if (e =? i)%nat then v else nth e l 0.
Proof.
  intro H. destruct (Nat.eqb_spec e i) as [->|Hne].
  - apply upd_nth_same. exact H.
  - apply upd_nth_other. congruence.
Qed.
