(* Round trip of a whole block: what transmit() writes (EncModel.write_body) is
   read back by the strict-format block reader as EncModel.raw_of, and that raw
   block decodes to the original (pre run-length) bytes.  Pure assembly of the
   field-level lemmas of HuffProofs, MtfProofs, LayoutA, LayoutB, RleInvProofs
   and BwtProofs. *)
From Coq Require Import List NArith Arith Bool Lia Sorted Permutation ZifyNat.
From LBZ Require Rle.RleModel.
From LBZ Require Import Common.Bits Dec.Prog Dec.Sim Dec.Format Dec.Policies Dec.CrcProofs
  Gen.Consts Gen.DecTabs Enc.EncModel Enc.HuffProofs Enc.MtfProofs Enc.LayoutA Enc.LayoutB
  Enc.RleInvProofs Enc.BwtProofs.
Import ListNotations.

(* ---- regenerated constants, re-checked by computation -------------------------------------- *)
Lemma sel_clamp_value_eq : sel_clamp_value = 18001%N.
Proof. reflexivity. Qed.

Lemma enc_selector_size_eq : enc_selector_size = 18002%N.
Proof. reflexivity. Qed.

(* ---- the last column has the bytes of the block ----------------------------------------------- *)
Lemma bwt_last_length blk : length (bwt_last blk) = length blk.
Proof. unfold bwt_last. rewrite map_length. apply sorted_rots_length. Qed.

Lemma bwt_last_In blk c : In c (bwt_last blk) -> In c blk.
Proof.
  unfold bwt_last. intro H. apply in_map_iff in H. destruct H as [r [<- Hr]].
  destruct (sorted_rots_row blk r Hr) as [Hl Hin]. apply Hin.
  apply (last_In r). intros ->. cbn [length] in Hl.
  assert (Hs : length (sorted_rots blk) = length blk) by apply sorted_rots_length.
  destruct (sorted_rots blk); [destruct Hr|]. rewrite <- Hl in Hs. discriminate.
Qed.

Lemma valid_idxb_valid blk i : valid_idxb blk i = true -> valid_idx blk i.
Proof.
  unfold valid_idxb, valid_idx. destruct (nth_error (sorted_rots blk) (N.to_nat i)) as [r|]; [|discriminate].
  destruct (list_eq_dec N.eq_dec r blk) as [->|]; [reflexivity|discriminate].
Qed.

Lemma valid_idx_lt blk i : valid_idx blk i -> (N.to_nat i < length blk)%nat.
Proof.
  unfold valid_idx. intro H. rewrite <- (sorted_rots_length blk). apply nth_error_Some. rewrite H. discriminate.
Qed.

(* ---- what witness_ok says, as propositions ------------------------------------------------------ *)
Lemma witness_ok_parts M w : witness_ok M w = true ->
  let col := bwt_last (w_blk w) in
  let alpha := (length (used_bytes col) + 2)%nat in
  let ngroups := ((length (block_syms w) + 49) / 50)%nat in
  w_blk w <> [] /\ (N.of_nat (length (w_blk w)) <= M)%N /\
  Forall (fun c => (c < 256)%N) (w_blk w) /\
  valid_idx (w_blk w) (w_idx w) /\
  (2 <= length (w_tables w) <= 6)%nat /\
  Forall (fun t => table_ok alpha t = true) (w_tables w) /\
  length (w_sels w) = ngroups /\
  Forall (fun s => (s < N.of_nat (length (w_tables w)))%N) (w_sels w) /\
  (N.of_nat ngroups + (if w_extra_sel w then 1 else 0) <= 18002)%N /\
  (w_pad w <= 3)%N /\ (w_crc w < 2 ^ 32)%N.
Proof.
  unfold witness_ok. intro H.
  repeat (apply andb_true_iff in H; let H' := fresh "K" in destruct H as [H H']).
  cbv zeta. repeat split.
  - intro E. rewrite E in H. discriminate.
  - apply N.leb_le. assumption.
  - apply Forall_forall. rewrite forallb_forall in K8. intros c Hc. apply N.ltb_lt. apply K8. exact Hc.
  - apply valid_idxb_valid. assumption.
  - apply Nat.leb_le. assumption.
  - apply Nat.leb_le. assumption.
  - apply Forall_forall. rewrite forallb_forall in K4. exact K4.
  - apply Nat.eqb_eq. assumption.
  - apply Forall_forall. rewrite forallb_forall in K2. intros c Hc. apply N.ltb_lt. apply K2. exact Hc.
  - rewrite <- enc_selector_size_eq. apply N.leb_le. assumption.
  - apply N.leb_le. assumption.
  - apply N.ltb_lt. assumption.
Qed.

(* ---- the 50-symbol groups -------------------------------------------------------------------------- *)
Lemma chunks50_nil {A} f : @chunks50 A f [] = [].
Proof. destruct f; reflexivity. Qed.

Lemma complete_only_ok alpha lens : table_ok alpha lens = true -> complete_only lens = Ok tt.
Proof.
  unfold table_ok, complete_only. intro H. apply andb_true_iff in H as [_ H]. rewrite H. reflexivity.
Qed.

Lemma read_groups_run tables alpha eob :
  (N.to_nat eob < alpha)%nat ->
  Forall (fun t => table_ok alpha t = true) tables ->
  forall f syms sels extra rest,
  (length syms < f)%nat ->
  Forall (fun s => (s < eob)%N) syms ->
  length sels = ((length syms + 1 + 49) / 50)%nat ->
  Forall (fun s => (N.to_nat s < length tables)%nat) sels ->
  run (read_groups ref_noexc_policy tables eob (sels ++ extra))
      (flat_map (fun p => flat_map (sym_bits (nth (N.to_nat (fst p)) tables [])) (snd p))
                (combine sels (chunks50 f (syms ++ [eob]))) ++ rest)
  = Ok (syms, rest).
Proof.
  intros Heob Htabs. induction f as [|f IH]; intros syms sels extra rest Hf Hsy Hlen Hsel; [lia|].
  assert (Hne : syms ++ [eob] <> []) by (destruct syms; discriminate).
  cbn [chunks50]. destruct (syms ++ [eob]) as [|h0 t0] eqn:E; [congruence|]. rewrite <- E. clear h0 t0 E Hne.
  assert (Hlt : Forall (fun s => (N.to_nat s < alpha)%nat) syms).
  { eapply Forall_impl; [|exact Hsy]. cbv beta. intros a Ha. lia. }
  assert (Hneq : Forall (fun s => s <> eob) syms).
  { eapply Forall_impl; [|exact Hsy]. cbv beta. intros a Ha. lia. }
  destruct (Nat.lt_ge_cases (length syms) 50) as [Hs|Hs].
  - (* the final group *)
    assert (L1 : length sels = 1%nat) by lia.
    destruct sels as [|t [|t' sels']]; try discriminate. clear L1.
    rewrite firstn_all2 by (rewrite app_length; cbn [length]; lia).
    rewrite skipn_all2 by (rewrite app_length; cbn [length]; lia).
    rewrite chunks50_nil. cbn [combine flat_map fst snd app]. rewrite app_nil_r.
    cbn [read_groups]. change (table_check ref_noexc_policy) with complete_only.
    inversion Hsel as [|? ? Ht _]; subst.
    assert (Hok : table_ok alpha (nth (N.to_nat t) tables []) = true).
    { rewrite Forall_forall in Htabs. apply Htabs. apply nth_In. exact Ht. }
    rewrite (complete_only_ok alpha _ Hok). rewrite run_bind.
    unfold group_size.
    rewrite (read_group_eob alpha _ eob syms rest 50 Hok Heob Hlt Hneq Hs).
    reflexivity.
  - (* a full group, more follow *)
    destruct sels as [|t sels']; [cbn [length] in Hlen; lia|].
    rewrite firstn_app, skipn_app.
    replace (50 - length syms)%nat with 0%nat by lia.
    change (firstn 0 [eob]) with (@nil N). change (skipn 0 [eob]) with [eob]. rewrite app_nil_r.
    cbn [combine flat_map fst snd app]. rewrite <- app_assoc.
    cbn [read_groups]. change (table_check ref_noexc_policy) with complete_only.
    inversion Hsel as [|? ? Ht Hsel']; subst.
    assert (Hok : table_ok alpha (nth (N.to_nat t) tables []) = true).
    { rewrite Forall_forall in Htabs. apply Htabs. apply nth_In. exact Ht. }
    rewrite (complete_only_ok alpha _ Hok). rewrite run_bind.
    assert (L50 : length (firstn 50 syms) = 50%nat) by (rewrite firstn_length; lia).
    unfold group_size. rewrite <- L50 at 1.
    assert (HsyS : Forall (fun s => (s < eob)%N) (skipn 50 syms)).
    { rewrite <- (firstn_skipn 50 syms) in Hsy. apply Forall_app in Hsy. tauto. }
    rewrite read_group_full with (alpha := alpha).
    + cbn [snd fst]. rewrite run_bind.
      rewrite (IH (skipn 50 syms) sels' extra rest).
      * rewrite firstn_skipn. reflexivity.
      * rewrite skipn_length. lia.
      * exact HsyS.
      * cbn [length] in Hlen. rewrite skipn_length. lia.
      * exact Hsel'.
    + exact Hok.
    + rewrite <- (firstn_skipn 50 syms) in Hlt. apply Forall_app in Hlt. tauto.
    + rewrite <- (firstn_skipn 50 syms) in Hneq. apply Forall_app in Hneq. tauto.
Qed.

(* ---- the coding tables -------------------------------------------------------------------------------- *)
Lemma table_ok_parts alpha lens : table_ok alpha lens = true ->
  length lens = alpha /\ Forall (fun l => (1 <= l <= 20)%N) lens.
Proof.
  unfold table_ok. intro H. apply andb_true_iff in H as [H _]. apply andb_true_iff in H as [H1 H2].
  split; [apply Nat.eqb_eq; exact H1|].
  apply Forall_forall. rewrite forallb_forall in H2. intros l Hl. specialize (H2 l Hl).
  apply andb_true_iff in H2 as [Ha Hb]. apply N.leb_le in Ha. apply N.leb_le in Hb. lia.
Qed.

Lemma tables_read fuel alpha pad : (64 <= fuel)%nat -> (pad <= 3)%N -> (1 <= alpha)%nat ->
  forall tables k rest, Forall (fun t => table_ok alpha t = true) tables ->
  run (repeat_prog (length tables) (read_table ref_noexc_policy fuel alpha))
      (flat_map (fun p => write_table (if (fst p =? 0)%N then pad else 0%N) (snd p))
         (combine (map N.of_nat (seq k (length tables))) tables) ++ rest) = Ok (tables, rest).
Proof.
  intros Hf Hpad Ha. induction tables as [|t r IH]; intros k rest Hall; [reflexivity|].
  inversion Hall as [|? ? Ht Hr]; subst.
  destruct (table_ok_parts _ _ Ht) as [Hl Hrange].
  assert (Hne : t <> []) by (intros ->; cbn [length] in Hl; lia).
  assert (E : forall p R, (p <= 3)%N ->
            run (read_table ref_noexc_policy fuel (length t)) (write_table p t ++ R) = Ok (t, R)).
  { intros p R Hp. apply table_roundtrip; assumption. }
  rewrite Hl in E.
  cbn [length seq map combine flat_map repeat_prog fst snd]. rewrite <- app_assoc, run_bind.
  rewrite E by (destruct (N.of_nat k =? 0)%N; lia).
  rewrite run_bind. rewrite (IH (S k) rest Hr). reflexivity.
Qed.

(* ---- the selectors ---------------------------------------------------------------------------------------- *)
Definition sel_order : list N := [0; 1; 2; 3; 4; 5]%N.

Lemma mtf_encode_sels_length : forall sels order, length (mtf_encode_sels order sels) = length sels.
Proof. induction sels as [|s r IH]; intros order; cbn [mtf_encode_sels length]; [reflexivity|]. rewrite IH. reflexivity. Qed.

Lemma sels_step nt sels (extra : bool) R :
  Forall (fun s => (s < nt)%N) sels -> (2 <= nt <= 6)%N ->
  run (repeat_prog (N.to_nat (N.of_nat (length sels) + (if extra then 1 else 0))) (read_unary (N.to_nat nt) 0))
      (flat_map unary (mtf_encode_sels sel_order sels) ++ (if extra then [false] else []) ++ R)
  = Ok (mtf_encode_sels sel_order sels ++ (if extra then [0%N] else []), R).
Proof.
  intros Hs Hnt.
  set (ks := mtf_encode_sels sel_order sels ++ (if extra then [0%N] else [])).
  assert (E1 : N.to_nat (N.of_nat (length sels) + (if extra then 1 else 0)) = length ks).
  { unfold ks. rewrite app_length, mtf_encode_sels_length. destruct extra; cbn [length]; lia. }
  assert (E2 : flat_map unary (mtf_encode_sels sel_order sels) ++ (if extra then [false] else []) ++ R
               = flat_map unary ks ++ R).
  { unfold ks. rewrite flat_map_app, <- app_assoc. f_equal. destruct extra; reflexivity. }
  rewrite E1, E2. apply selectors_read.
  unfold ks. apply Forall_app. split.
  - assert (Hin : Forall (fun s => In s sel_order) sels).
    { eapply Forall_impl; [|exact Hs]. cbv beta. intros a Ha. unfold sel_order. cbn [In].
      assert (C : (a = 0 \/ a = 1 \/ a = 2 \/ a = 3 \/ a = 4 \/ a = 5)%N) by lia. intuition. }
    assert (Hnd : NoDup sel_order).
    { unfold sel_order. repeat constructor; cbn [In]; intuition discriminate. }
    destruct (mtf_sels_positions sel_order sels Hnd Hin) as [_ P]. apply (P nt Hs eq_refl). lia.
  - destruct extra; repeat constructor. lia.
Qed.

Lemma unmtf_selectors_app : forall a order b,
  exists c, unmtf_selectors order (a ++ b) = unmtf_selectors order a ++ c.
Proof.
  induction a as [|s a IH]; intros order b.
  - exists (unmtf_selectors order b). reflexivity.
  - cbn [app unmtf_selectors]. unfold mtf_front.
    destruct (IH (nth (N.to_nat s) order 0%N :: firstn (N.to_nat s) order ++ skipn (S (N.to_nat s)) order) b) as [c Hc].
    exists c. rewrite Hc. reflexivity.
Qed.

Lemma sels_clamp nt sels (extra : bool) :
  (N.of_nat (length sels) <= 18001)%N -> Forall (fun s => (s < nt)%N) sels -> (nt <= 6)%N ->
  exists ex, unmtf_selectors sel_order
               (firstn (N.to_nat sel_clamp_value) (mtf_encode_sels sel_order sels ++ (if extra then [0%N] else [])))
             = sels ++ ex.
Proof.
  intros Hl Hs Hnt.
  assert (Hin : Forall (fun s => In s sel_order) sels).
  { eapply Forall_impl; [|exact Hs]. cbv beta. intros a Ha. unfold sel_order. cbn [In].
    assert (C : (a = 0 \/ a = 1 \/ a = 2 \/ a = 3 \/ a = 4 \/ a = 5)%N) by lia. intuition. }
  assert (Hnd : NoDup sel_order).
  { unfold sel_order. repeat constructor; cbn [In]; intuition discriminate. }
  rewrite firstn_app. rewrite firstn_all2 by (rewrite mtf_encode_sels_length, sel_clamp_value_eq; lia).
  destruct (unmtf_selectors_app (mtf_encode_sels sel_order sels) sel_order
              (firstn (N.to_nat sel_clamp_value - length (mtf_encode_sels sel_order sels))
                      (if extra then [0%N] else []))) as [c Hc].
  exists c. rewrite Hc. rewrite mtf_sels_roundtrip by assumption. reflexivity.
Qed.

(* ---- T1: the block reader reads back what transmit() wrote ----------------------------------------------- *)
Lemma run_guard_true {A} (c : bool) e (f : unit -> prog A) bits :
  c = true -> run (bind (guard c e) f) bits = run (f tt) bits.
Proof. intros ->. reflexivity. Qed.

Theorem body_roundtrip : forall M w fuel rest,
  (M <= 900000)%N -> witness_ok M w = true -> (64 <= fuel)%nat ->
  run (read_block ref_noexc_policy fuel) (write_body w ++ rest) = Ok (raw_of w, rest).
Proof.
  intros M w fuel rest HM Hok Hfuel.
  destruct (witness_ok_parts M w Hok) as (Hne & Hlen & Hbytes & Hidx & Hnt & Htabs & Hsels & Hsel & Hns & Hpad & Hcrc).
  unfold block_syms in *.
  unfold write_body, raw_of, read_block, block_syms.
  fold sel_order.
  set (col := bwt_last (w_blk w)) in *.
  set (used := used_bytes col) in *.
  set (mtfv := mtf_zrle col) in *.
  set (tables := w_tables w) in *.
  set (sels := w_sels w) in *.
  assert (Hcl : length col = length (w_blk w)) by apply bwt_last_length.
  assert (Hcol_b : Forall (fun c => (c < 256)%N) col).
  { apply Forall_forall. intros c Hc. rewrite Forall_forall in Hbytes. apply Hbytes. apply bwt_last_In. exact Hc. }
  assert (Hused_b : Forall (fun c => (c < 256)%N) used).
  { apply Forall_forall. intros c Hc. rewrite Forall_forall in Hcol_b. apply Hcol_b. apply used_bytes_In. exact Hc. }
  assert (Hused_ne : (1 <= length used)%nat).
  { destruct col as [|c0 col'] eqn:Ec.
    - cbn [length] in Hcl. destruct (w_blk w); [congruence|discriminate].
    - assert (Hin : In c0 used) by (apply used_bytes_In; left; reflexivity).
      destruct used; [destruct Hin|cbn [length]; lia]. }
  assert (Hmtf_len : (length mtfv <= length col)%nat) by apply mtf_zrle_length.
  assert (Hmtf_rng : Forall (fun s => (s < N.of_nat (length used) + 1)%N) mtfv).
  { apply Forall_forall. intros s Hs. pose proof (mtf_zrle_symbols_in_range col s Hs). fold used in H. lia. }
  pose proof (valid_idx_lt _ _ Hidx) as Hidx_lt.
  rewrite app_length in Hsels, Hns. cbn [length] in Hsels, Hns.
  assert (Hnsel : (N.of_nat (length sels) <= 18001)%N) by lia.
  rewrite <- !app_assoc.
  (* randomised bit, primary index *)
  rewrite run_bind, take_put by (cbn; lia).
  rewrite run_bind, take_put by (change (2 ^ N.of_nat 24)%N with 16777216%N; lia).
  (* bitmap *)
  rewrite run_bind, bitmap_roundtrip by (try apply used_bytes_StronglySorted; assumption).
  rewrite run_guard_true by (apply negb_true_iff, N.eqb_neq; lia).
  (* number of tables, number of selectors *)
  rewrite run_bind, take_put by (change (2 ^ N.of_nat 3)%N with 8%N; lia).
  rewrite run_guard_true by (apply andb_true_iff; split; apply N.leb_le; lia).
  rewrite run_bind, take_put by (change (2 ^ N.of_nat 15)%N with 32768%N; destruct (w_extra_sel w); lia).
  rewrite run_guard_true by (apply negb_true_iff, N.eqb_neq; destruct (w_extra_sel w); lia).
  (* selectors *)
  rewrite run_bind, sels_step by (try assumption; lia).
  (* tables *)
  rewrite Nat2N.id.
  rewrite run_bind, tables_read by (try assumption; lia).
  (* groups *)
  destruct (sels_clamp (N.of_nat (length tables)) sels (w_extra_sel w) Hnsel Hsel ltac:(lia)) as [ex Hex].
  change (sel_clamp ref_noexc_policy) with sel_clamp_value.
  rewrite Hex. rewrite run_bind.
  replace (N.of_nat (length used + 2) - 1)%N with (N.of_nat (length used) + 1)%N by lia.
  rewrite (read_groups_run tables (length used + 2) (N.of_nat (length used) + 1)%N).
  - cbn [run]. reflexivity.
  - lia.
  - exact Htabs.
  - rewrite app_length. cbn [length]. lia.
  - exact Hmtf_rng.
  - exact Hsels.
  - eapply Forall_impl; [|exact Hsel]. cbv beta. intros a Ha. lia.
Qed.

(* ---- T2: the raw block decodes to the bytes that went into the initial run-length coder ------------------- *)
Theorem block_decodes : forall M level w x,
  (1 <= level <= 9)%N -> M = (100000 * level)%N -> witness_ok M w = true ->
  Forall (fun c => (c < 256)%N) x -> x <> [] -> w_blk w = RleModel.rle1 x ->
  decode_block ref_noexc_policy level (raw_of w) = Ok x.
Proof.
  intros M level w x Hlevel HM Hok Hx Hxne Hblk.
  destruct (witness_ok_parts M w Hok) as (Hne & Hlen & Hbytes & Hidx & _).
  pose proof (valid_idx_lt _ _ Hidx) as Hidx_lt.
  pose proof (bwt_last_length (w_blk w)) as Hcl.
  unfold decode_block, raw_of. cbn [rb_used rb_mtfv rb_idx rb_rand].
  rewrite mtf_roundtrip.
  - cbn [rbind].
    replace (N.of_nat (length (bwt_last (w_blk w))) =? 0)%N with false
      by (symmetry; apply N.eqb_neq; destruct (w_blk w); [congruence|cbn [length] in Hcl; lia]).
    replace (N.of_nat (length (bwt_last (w_blk w))) <=? w_idx w)%N with false
      by (symmetry; apply N.leb_gt; lia).
    rewrite (ibwt_bwt _ _ Hne Hbytes Hidx).
    change (runlen_strict ref_noexc_policy) with true.
    rewrite Hblk. apply unrle_rle1. exact Hx.
  - intro E. rewrite E in Hcl. cbn [length] in Hcl. destruct (w_blk w); [congruence|discriminate].
  - rewrite Hcl. lia.
Qed.

Print Assumptions body_roundtrip.
Print Assumptions block_decodes.
