(* The selector MTF of encode() (src/encode.c l.473-511): the whole MTF state packed into one 32-bit integer, updated
   with xor / add / and / ctz only.  Checked by computation on all 720 states x 6 selectors: the step yields the
   move-to-front position of the selector and the packed state of the new order. *)
From Coq Require Import List NArith Arith Bool Lia.
From LBZ Require Import Common.Bits Gen.Consts Enc.EncModel Enc.LayoutA Enc.PmModel Enc.PmReal Enc.GenModel
  Enc.GenReorder Enc.EncodePmCost Enc.EncodeGenCost Enc.EncodeModel.
Import ListNotations.
Local Open Scope N_scope.

(* ---- the packed selector MTF -------------------------------------------------------------------------------------------- *)
(* nibble i of the state holds the tree at MTF position i *)
Definition pack (order : list N) : N := fold_right (fun x acc => x + 16 * acc) 0 order.

Fixpoint insert_all (x : N) (l : list N) : list (list N) :=
  match l with
  | [] => [[x]]
  | y :: r => (x :: l) :: map (cons y) (insert_all x r)
  end.

Fixpoint perms (l : list N) : list (list N) :=
  match l with
  | [] => [[]]
  | x :: r => flat_map (insert_all x) (perms r)
  end.

Definition perms6 : list (list N) := perms [0; 1; 2; 3; 4; 5].

Definition list_eqb (a b : list N) : bool := if list_eq_dec N.eq_dec a b then true else false.

Definition sel_mtf_check : bool :=
  forallb (fun o => forallb (fun c =>
    let '(p', j) := sel_mtf_step (pack o) c in
    (p' =? pack (mtf_move c o)) && (j =? N.of_nat (index_of c o)) && existsb (list_eqb (mtf_move c o)) perms6)
    (Nrange 6)) perms6.

Lemma sel_mtf_check_true : sel_mtf_check = true.
Proof. vm_compute. reflexivity. Qed.

Lemma sel_mtf_step_spec o c : In o perms6 -> c < 6 ->
  sel_mtf_step (pack o) c = (pack (mtf_move c o), N.of_nat (index_of c o)) /\ In (mtf_move c o) perms6.
Proof.
  intros Ho Hc. pose proof sel_mtf_check_true as C. unfold sel_mtf_check in C. rewrite forallb_forall in C.
  specialize (C o Ho). rewrite forallb_forall in C. specialize (C c (Nrange_in c 6 Hc)).
  destruct (sel_mtf_step (pack o) c) as [p' j]. apply andb_prop in C. destruct C as [C C3]. apply andb_prop in C.
  destruct C as [C1 C2]. apply N.eqb_eq in C1. apply N.eqb_eq in C2. subst. split; [reflexivity|].
  apply existsb_exists in C3. destruct C3 as [x [Hx E]]. unfold list_eqb in E.
  destruct (list_eq_dec N.eq_dec (mtf_move c o) x); [subst; exact Hx|discriminate].
Qed.

Lemma init_in_perms6 : In [0; 1; 2; 3; 4; 5] perms6 /\ pack [0; 1; 2; 3; 4; 5] = SEL_MTF_INIT.
Proof.
  split; [|reflexivity].
  assert (E : existsb (list_eqb [0; 1; 2; 3; 4; 5]) perms6 = true) by (vm_compute; reflexivity).
  apply existsb_exists in E. destruct E as [x [Hx E]]. unfold list_eqb in E.
  destruct (list_eq_dec N.eq_dec [0; 1; 2; 3; 4; 5] x); [subst; exact Hx|discriminate].
Qed.

(* cost after the loop: cost += j + 1 per selector, in uint32_t *)
Definition selcost (js : list N) (cost : N) : N := fold_left (fun c j => u32 (c + j + 1)) js cost.

Lemma sel_mtf_loop_spec nt : nt <= 6 -> forall sels o cost, In o perms6 -> Forall (fun c => c < nt) sels ->
  sel_mtf_loop nt sels (pack o) cost = EOk (mtf_encode_sels o sels, selcost (mtf_encode_sels o sels) cost).
Proof.
  intro Hnt. induction sels as [|c r IH]; intros o cost Ho Hs; [reflexivity|].
  inversion Hs as [|? ? Hc Hr]; subst. cbn [sel_mtf_loop].
  replace (c <? nt) with true by (symmetry; apply N.ltb_lt; exact Hc). cbn [negb].
  destruct (sel_mtf_step_spec o c Ho ltac:(lia)) as [E Hin]. rewrite E.
  rewrite (IH _ _ Hin Hr). rewrite mtf_encode_sels_cons. reflexivity.
Qed.

Lemma selcost_exact : forall js cost, cost + lsum js + N.of_nat (length js) < 2 ^ 32 ->
  selcost js cost = cost + lsum js + N.of_nat (length js).
Proof.
  induction js as [|j r IH]; intros cost H; cbn [selcost fold_left lsum length] in *; [lia|].
  rewrite u32_small by lia. fold (selcost r (cost + j + 1)). rewrite IH by lia. lia.
Qed.

Lemma mtf_sels_bound : forall sels o, In o perms6 -> Forall (fun c => c < 6) sels ->
  Forall (fun j => j <= 5) (mtf_encode_sels o sels).
Proof.
  assert (L6 : forall o, In o perms6 -> length o = 6%nat).
  { assert (C : forallb (fun o => (length o =? 6)%nat) perms6 = true) by (vm_compute; reflexivity).
    rewrite forallb_forall in C. intros o Ho. apply Nat.eqb_eq. apply C. exact Ho. }
  assert (Hin : forall o c, In o perms6 -> c < 6 -> In c o).
  { assert (C : forallb (fun o => forallb (fun c => existsb (N.eqb c) o) (Nrange 6)) perms6 = true) by (vm_compute; reflexivity).
    rewrite forallb_forall in C. intros o c Ho Hc. specialize (C o Ho). rewrite forallb_forall in C.
    specialize (C c (Nrange_in c 6 Hc)). apply existsb_exists in C. destruct C as [x [Hx E]]. apply N.eqb_eq in E. subst. exact Hx. }
  induction sels as [|c r IH]; intros o Ho Hs; [constructor|].
  inversion Hs as [|? ? Hc Hr]; subst. rewrite mtf_encode_sels_cons. constructor.
  - pose proof (index_of_lt c o (Hin o c Ho Hc)) as B. rewrite (L6 o Ho) in B. lia.
  - apply IH; [|exact Hr]. apply (sel_mtf_step_spec o c Ho Hc).
Qed.

