(* Totality of the exact model of make_code_lengths() (Enc/GenModel.v), part 0: shared definitions.
     fq / lo / hg      the three fields of a packed 64-bit weight that matter (frequency, low word, depth byte)
     mcl_input_ok      what generate_prefix_code() guarantees at the call site of make_code_lengths()
     BtPost            what build_tree() leaves in weight[] and V[] (interface between Enc/GenMclBt.v, which proves it,
                       and Enc/GenMclCd.v, which derives from it that compute_depths() and the length assignment
                       loop pass all their asserts) *)
From Coq Require Import List NArith Arith Bool Lia.
From LBZ Require Import Gen.Consts Enc.PmModel Enc.PmBasics Enc.PmReal Enc.GenModel.
Import ListNotations.
Local Open Scope N_scope.

Definition fq (w : N) : N := w / U32.                  (* bits 32..63: (sum of) frequencies *)
Definition lo (w : N) : N := w mod U32.                (* bits 0..31 *)
Definition hg (w : N) : N := lo w / 2 ^ 24.            (* bits 24..31: height of the subtree *)
Definition wn (W : list N) (i : nat) : N := nth i W 0.
Definition vn (V : list N) (i : nat) : nat := N.to_nat (nth i V 0).

(* Fibonacci numbers: fib 0 = 0, fib 1 = 1, fib 33 = 3524578 *)
Definition fib_step (p : N * N) : N * N := (snd p, fst p + snd p).
Definition fib (n : N) : N := fst (N.iter n fib_step (0, 1)).

(* sum f <= fib 33 - 1 - MAX_ALPHA_SIZE: then sum max(f_i, 1) < fib 33 and the Huffman tree is at most 30 deep.
   lbzip2 calls make_code_lengths() with sum f = 50 * number of groups <= 900050. *)
Definition MCL_SUM_MAX : N := 3524319.

Definition mcl_input_ok (old f : list N) : Prop :=
  (length f <= length old)%nat /\ (3 <= length f <= 258)%nat /\ lsum f <= MCL_SUM_MAX.

(* state of weight[] / V[] after build_tree(); W0 = the sorted labelled weights *)
Definition BtPost (as_ : nat) (W0 W V : list N) : Prop :=
  length W = as_ /\ length V = as_ /\
  (forall i, (i < as_)%nat -> N.land (wn W i) 65535 = N.land (wn W0 i) 65535) /\
  (forall i, (2 <= i < as_)%nat -> (1 <= vn V i < i)%nat /\ hg (wn W i) + 1 <= hg (wn W (vn V i))) /\
  (forall i, (1 <= i < as_)%nat -> 1 <= hg (wn W i)) /\
  (forall i j, (2 <= i)%nat -> (i <= j)%nat -> (j < as_)%nat -> (vn V i <= vn V j)%nat) /\
  (forall i, (2 <= i)%nat -> (i + 2 < as_)%nat -> (vn V i < vn V (i + 2))%nat) /\
  hg (wn W 1) <= 30.

(* ---- accessors ------------------------------------------------------------------------------------------------ *)
Lemma mrd_ok id l i : (i < length l)%nat -> mrd id l i = GOk (nth i l 0).
Proof.
  intro H. unfold mrd. destruct (nth_error l i) as [x|] eqn:E.
  - rewrite (nth_error_nth _ _ 0 E). reflexivity.
  - apply nth_error_None in E. lia.
Qed.

Lemma mwr_ok id l i v : (i < length l)%nat -> mwr id l i v = GOk (upd l i v).
Proof. intro H. unfold mwr. destruct (Nat.ltb_spec i (length l)); [reflexivity|lia]. Qed.

Lemma nth_upd (l : list N) i v e :
  (i < length l)%nat -> nth e (upd l i v) 0 = if (e =? i)%nat then v else nth e l 0.
Proof.
  intro H. destruct (Nat.eqb_spec e i) as [->|Hne].
  - apply upd_nth_same. exact H.
  - apply upd_nth_other. congruence.
Qed.

Lemma wn_upd W i v e : (i < length W)%nat -> wn (upd W i v) e = if (e =? i)%nat then v else wn W e.
Proof. apply nth_upd. Qed.

Lemma vn_upd V i v e : (i < length V)%nat -> vn (upd V i v) e = if (e =? i)%nat then N.to_nat v else vn V e.
Proof. intro H. unfold vn. rewrite nth_upd by exact H. destruct (e =? i)%nat; reflexivity. Qed.

(* ---- Fibonacci -------------------------------------------------------------------------------------------------- *)
Lemma fib_pair n : N.iter n fib_step (0, 1) = (fib n, fib (n + 1)).
Proof.
  unfold fib. replace (n + 1) with (N.succ n) by lia. rewrite N.iter_succ.
  destruct (N.iter n fib_step (0, 1)) as [a b]. reflexivity.
Qed.

Lemma fib_SS n : fib (n + 2) = fib n + fib (n + 1).
Proof.
  unfold fib at 1. replace (n + 2) with (N.succ (N.succ n)) by lia. rewrite !N.iter_succ, fib_pair. reflexivity.
Qed.

Lemma fib_0 : fib 0 = 0. Proof. reflexivity. Qed.
Lemma fib_1 : fib 1 = 1. Proof. reflexivity. Qed.
Lemma fib_2 : fib 2 = 1. Proof. reflexivity. Qed.
Lemma fib_33 : fib 33 = 3524578. Proof. reflexivity. Qed.

Lemma fib_mono_S n : fib n <= fib (n + 1).
Proof.
  induction n as [|n IH] using N.peano_ind; [rewrite fib_0; lia|].
  replace (N.succ n + 1) with (n + 2) by lia. rewrite fib_SS. replace (N.succ n) with (n + 1) by lia. lia.
Qed.

Lemma fib_mono a b : a <= b -> fib a <= fib b.
Proof.
  intro H. replace b with (a + (b - a)) by lia. generalize (b - a). intro k.
  induction k as [|k IH] using N.peano_ind; [rewrite N.add_0_r; lia|].
  replace (a + N.succ k) with (a + k + 1) by lia. pose proof (fib_mono_S (a + k)). lia.
Qed.

(* a node of height h and frequency below fib 33 with fib (h + 2) <= frequency has h <= 30 *)
Lemma fib_height_bound h f : fib (h + 2) <= f -> f < fib 33 -> h <= 30.
Proof.
  intros H1 H2. destruct (N.le_gt_cases h 30) as [L|G]; [exact L|].
  pose proof (fib_mono 33 (h + 2) ltac:(lia)). lia.
Qed.
