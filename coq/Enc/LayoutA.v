(* Reader-after-writer lemmas for the first pieces of the block header:
   fixed-width fields, the in-use bitmap, and the MTF/unary coded selectors. *)
From Coq Require Import List NArith Arith Bool Lia Sorted.
From LBZ Require Import Common.Bits Dec.Prog Dec.Sim Dec.Format Dec.CrcProofs Enc.EncModel.
Import ListNotations.

(* ---- fixed-width fields ------------------------------------------------------------------ *)
Lemma N_of_bits_acc_msb : forall n v acc,
  N_of_bits_acc acc (bits_msb n v) = (acc * 2 ^ N.of_nat n + v mod 2 ^ N.of_nat n)%N.
Proof.
  induction n as [|n IH]; intros v acc.
  - cbn [bits_msb N_of_bits_acc N.of_nat]. rewrite N.pow_0_r, N.mod_1_r. lia.
  - cbn [bits_msb N_of_bits_acc]. rewrite IH.
    rewrite Nat2N.inj_succ, N.pow_succ_r'.
    assert (Hp : (2 ^ N.of_nat n <> 0)%N) by (apply N.pow_nonzero; lia).
    rewrite (N.mul_comm 2 (2 ^ N.of_nat n)).
    rewrite (N.mod_mul_r v (2 ^ N.of_nat n) 2) by (try exact Hp; lia).
    rewrite <- (N.testbit_spec' v (N.of_nat n)).
    destruct (N.testbit v (N.of_nat n)); cbn [N.b2n]; lia.
Qed.

Lemma N_of_bits_msb : forall n v, (v < 2 ^ N.of_nat n)%N -> N_of_bits (bits_msb n v) = v.
Proof.
  intros n v H. unfold N_of_bits. rewrite N_of_bits_acc_msb. rewrite N.mod_small by exact H. lia.
Qed.

Lemma take_put : forall n v rest, (v < 2 ^ N.of_nat n)%N -> run (take n) (put n v ++ rest) = Ok (v, rest).
Proof.
  intros n v rest H. unfold put. rewrite run_take_app0 by apply bits_msb_length.
  rewrite N_of_bits_msb by exact H. reflexivity.
Qed.

(* the other direction: writing back what was read *)
Lemma N_of_bits_acc_split : forall bs acc,
  N_of_bits_acc acc bs = (acc * 2 ^ N.of_nat (length bs) + N_of_bits_acc 0 bs)%N /\
  (N_of_bits_acc 0 bs < 2 ^ N.of_nat (length bs))%N.
Proof.
  induction bs as [|b r IH]; intros acc.
  - cbn [N_of_bits_acc length N.of_nat]. rewrite N.pow_0_r. lia.
  - cbn [N_of_bits_acc length]. rewrite Nat2N.inj_succ, N.pow_succ_r'.
    destruct (IH (2 * acc + (if b then 1 else 0))%N) as [E1 _].
    destruct (IH (2 * 0 + (if b then 1 else 0))%N) as [E2 L].
    rewrite E1, E2. destruct b; split; lia.
Qed.

Lemma N_of_bits_lt bs : (N_of_bits bs < 2 ^ N.of_nat (length bs))%N.
Proof. exact (proj2 (N_of_bits_acc_split bs 0%N)). Qed.

Lemma bits_msb_of_bits bs : bits_msb (length bs) (N_of_bits bs) = bs.
Proof.
  assert (H : N_of_bits (bits_msb (length bs) (N_of_bits bs)) = N_of_bits bs)
    by (apply N_of_bits_msb, N_of_bits_lt).
  unfold N_of_bits at 1 3 in H. apply N_of_bits_acc_inj in H; [apply H|apply bits_msb_length].
Qed.

Lemma nth_bits_msb16 x j : (j < 16)%nat -> nth j (bits_msb 16 x) false = testbit16 x j.
Proof.
  intro H. unfold testbit16. cbn [bits_msb].
  do 16 (destruct j as [|j]; [reflexivity|]). lia.
Qed.

Lemma testbit16_of_bits bs j : length bs = 16%nat -> (j < 16)%nat ->
  testbit16 (N_of_bits bs) j = nth j bs false.
Proof.
  intros L H. rewrite <- (nth_bits_msb16 _ _ H). rewrite <- L. rewrite bits_msb_of_bits. reflexivity.
Qed.

(* ---- the in-use bitmap -------------------------------------------------------------------- *)
Definition inuse (used : list N) (c : N) : bool := existsb (N.eqb c) used.
Definition cell (i j : nat) : N := (16 * N.of_nat i + N.of_nat j)%N.
Definition smallb (used : list N) (i : nat) : list bool :=
  map (fun j => inuse used (cell i j)) (seq 0 16).
Definition anyb (used : list N) (i : nat) : bool := existsb (fun b : bool => b) (smallb used i).

Lemma write_bitmap_eq used :
  write_bitmap used =
  map (anyb used) (seq 0 16) ++
  flat_map (fun i => if anyb used i then smallb used i else []) (seq 0 16).
Proof. reflexivity. Qed.

Lemma smallb_length used i : length (smallb used i) = 16%nat.
Proof. unfold smallb. rewrite map_length, seq_length. reflexivity. Qed.

Lemma nth_map_seq {A} (g : nat -> A) (d : A) n j : (j < n)%nat -> nth j (map g (seq 0 n)) d = g j.
Proof.
  intro H. rewrite (nth_indep _ d (g 0%nat)) by (rewrite map_length, seq_length; exact H).
  rewrite map_nth. rewrite seq_nth by exact H. reflexivity.
Qed.

Lemma existsb_map_false {A} (g : A -> bool) l :
  existsb (fun b : bool => b) (map g l) = false -> filter g l = [].
Proof.
  induction l as [|x l IH]; cbn [map existsb filter]; intro H; [reflexivity|].
  apply orb_false_iff in H as [H1 H2]. rewrite H1. apply IH, H2.
Qed.

Definition row (used : list N) (i : nat) : list N :=
  map (cell i) (filter (fun j => inuse used (cell i j)) (seq 0 16)).

Lemma read_smalls_run used big rest :
  (forall i, (i < 16)%nat -> testbit16 big i = anyb used i) ->
  forall n i, (i + n = 16)%nat ->
  run (read_smalls big i n)
      (flat_map (fun i => if anyb used i then smallb used i else []) (seq i n) ++ rest)
  = Ok (flat_map (row used) (seq i n), rest).
Proof.
  intros Hbig. induction n as [|n IH]; intros i Hi.
  - reflexivity.
  - change (seq i (S n)) with (i :: seq (S i) n). cbn [read_smalls flat_map]. rewrite Hbig by lia.
    destruct (anyb used i) eqn:E.
    + rewrite <- app_assoc. rewrite run_bind. rewrite run_take_app0 by apply smallb_length.
      rewrite run_bind. rewrite IH by lia. cbn [run]. f_equal. f_equal. f_equal.
      unfold row. change (fun j : nat => (16 * N.of_nat i + N.of_nat j)%N) with (cell i).
      f_equal. apply filter_ext_in. intros j Hj.
      apply in_seq in Hj. rewrite testbit16_of_bits by (try apply smallb_length; lia).
      unfold smallb. apply (nth_map_seq (fun j0 => inuse used (cell i j0))). lia.
    + cbn [app]. rewrite IH by lia. f_equal. f_equal.
      unfold row. unfold anyb, smallb in E. apply existsb_map_false in E. rewrite E. reflexivity.
Qed.

Lemma read_bitmap_run used rest :
  run read_bitmap (write_bitmap used ++ rest) = Ok (flat_map (row used) (seq 0 16), rest).
Proof.
  rewrite write_bitmap_eq. rewrite <- app_assoc. unfold read_bitmap. rewrite run_bind.
  rewrite run_take_app0 by (rewrite map_length, seq_length; reflexivity).
  apply read_smalls_run; [|reflexivity].
  intros i Hi. rewrite testbit16_of_bits by (try (rewrite map_length, seq_length; reflexivity); exact Hi).
  apply (nth_map_seq (anyb used)). exact Hi.
Qed.

(* what was read is the filter of 0..255 by membership *)
Lemma map_filter_comm {A B} (g : A -> B) (f : B -> bool) l :
  map g (filter (fun x => f (g x)) l) = filter f (map g l).
Proof.
  induction l as [|x l IH]; cbn [map filter]; [reflexivity|].
  destruct (f (g x)); cbn [map]; rewrite IH; reflexivity.
Qed.

Lemma flat_map_filter {A B} (f : B -> bool) (h : A -> list B) l :
  flat_map (fun i => filter f (h i)) l = filter f (flat_map h l).
Proof.
  induction l as [|x l IH]; cbn [flat_map]; [reflexivity|].
  rewrite filter_app, IH. reflexivity.
Qed.

Lemma all_cells : flat_map (fun i => map (cell i) (seq 0 16)) (seq 0 16) = map N.of_nat (seq 0 256).
Proof. vm_compute. reflexivity. Qed.

Lemma rows_filter used :
  flat_map (row used) (seq 0 16) = filter (inuse used) (map N.of_nat (seq 0 256)).
Proof.
  rewrite <- all_cells. rewrite <- flat_map_filter. apply flat_map_ext. intro i.
  unfold row. apply map_filter_comm.
Qed.

Lemma sorted_seqN : forall n a, StronglySorted N.lt (map N.of_nat (seq a n)).
Proof.
  induction n as [|n IH]; intros a; cbn [seq map]; constructor; [apply IH|].
  apply Forall_forall. intros x Hx. apply in_map_iff in Hx as [y [<- Hy]]. apply in_seq in Hy. lia.
Qed.

Lemma sorted_filter (f : N -> bool) l : StronglySorted N.lt l -> StronglySorted N.lt (filter f l).
Proof.
  induction 1 as [|x l Hs IH Hf]; cbn [filter]; [constructor|].
  destruct (f x); [|exact IH]. constructor; [exact IH|].
  apply Forall_forall. intros y Hy. apply filter_In in Hy as [Hy _].
  rewrite Forall_forall in Hf. apply Hf, Hy.
Qed.

Lemma sorted_same_elems : forall l1 l2 : list N,
  StronglySorted N.lt l1 -> StronglySorted N.lt l2 ->
  (forall x, In x l1 <-> In x l2) -> l1 = l2.
Proof.
  induction l1 as [|x l1 IH]; intros [|y l2] S1 S2 H.
  - reflexivity.
  - exfalso. apply (H y). left; reflexivity.
  - exfalso. apply (H x). left; reflexivity.
  - inversion S1 as [|? ? S1' F1]; subst. inversion S2 as [|? ? S2' F2]; subst.
    rewrite Forall_forall in F1, F2.
    assert (Exy : x = y).
    { destruct (proj1 (H x) (or_introl eq_refl)) as [E|Hx]; [congruence|].
      destruct (proj2 (H y) (or_introl eq_refl)) as [E|Hy]; [congruence|].
      specialize (F1 _ Hy). specialize (F2 _ Hx). lia. }
    subst y. f_equal. apply IH; try assumption.
    intro z. split; intro Hz.
    + destruct (proj1 (H z) (or_intror Hz)) as [E|Hz2]; [|exact Hz2].
      subst z. specialize (F1 _ Hz). lia.
    + destruct (proj2 (H z) (or_intror Hz)) as [E|Hz2]; [|exact Hz2].
      subst z. specialize (F2 _ Hz). lia.
Qed.

Lemma inuse_In used c : inuse used c = true <-> In c used.
Proof.
  unfold inuse. rewrite existsb_exists. split.
  - intros [x [Hx E]]. apply N.eqb_eq in E. subst. exact Hx.
  - intro H. exists c. split; [exact H|apply N.eqb_refl].
Qed.

Lemma bitmap_roundtrip : forall used rest,
  StronglySorted N.lt used -> Forall (fun c => (c < 256)%N) used ->
  run read_bitmap (write_bitmap used ++ rest) = Ok (used, rest).
Proof.
  intros used rest Hs Hb. rewrite read_bitmap_run. f_equal. f_equal.
  rewrite rows_filter. apply sorted_same_elems.
  - apply sorted_filter, sorted_seqN.
  - exact Hs.
  - intro x. rewrite filter_In, inuse_In. split; [tauto|]. intro Hx. split; [|exact Hx].
    rewrite Forall_forall in Hb. specialize (Hb _ Hx).
    apply in_map_iff. exists (N.to_nat x). split; [apply N2Nat.id|]. apply in_seq. lia.
Qed.

(* ---- selectors ---------------------------------------------------------------------------- *)
Lemma read_unary_run rest : forall m nt c, (m < nt)%nat ->
  run (read_unary nt c) (repeat true m ++ false :: rest) = Ok ((c + N.of_nat m)%N, rest).
Proof.
  induction m as [|m IH]; intros nt c H; destruct nt as [|nt]; try lia.
  - cbn [repeat app read_unary run N.of_nat]. rewrite N.add_0_r. reflexivity.
  - cbn [repeat app read_unary run]. rewrite IH by lia. f_equal. f_equal. lia.
Qed.

Lemma unary_roundtrip : forall nt k rest, (N.to_nat k < nt)%nat ->
  run (read_unary nt 0) (unary k ++ rest) = Ok (k, rest).
Proof.
  intros nt k rest H. unfold unary. rewrite <- app_assoc. cbn [app].
  rewrite read_unary_run by exact H. rewrite N2Nat.id. reflexivity.
Qed.

Lemma selectors_read : forall nt ks rest, Forall (fun k => (N.to_nat k < nt)%nat) ks ->
  run (repeat_prog (length ks) (read_unary nt 0)) (flat_map unary ks ++ rest) = Ok (ks, rest).
Proof.
  intros nt ks rest H. induction H as [|k ks Hk Hks IH]; [reflexivity|].
  cbn [length repeat_prog flat_map]. rewrite <- app_assoc. rewrite run_bind.
  rewrite unary_roundtrip by exact Hk. rewrite run_bind. rewrite IH. reflexivity.
Qed.

(* ---- move-to-front on the selector alphabet ------------------------------------------------ *)
Definition mtf_move (s : N) (order : list N) : list N :=
  s :: firstn (index_of s order) order ++ skipn (S (index_of s order)) order.

Lemma index_of_lt s l : In s l -> (index_of s l < length l)%nat.
Proof.
  induction l as [|x l IH]; intro H; [destruct H|]. cbn [index_of length].
  destruct (N.eqb_spec x s) as [E|E]; [lia|]. destruct H as [H|H]; [congruence|]. specialize (IH H). lia.
Qed.

Lemma nth_index_of s l d : In s l -> nth (index_of s l) l d = s.
Proof.
  induction l as [|x l IH]; intro H; [destruct H|]. cbn [index_of].
  destruct (N.eqb_spec x s) as [E|E]; [exact E|]. destruct H as [H|H]; [congruence|]. cbn [nth]. apply IH, H.
Qed.

Lemma split_at_index s l : In s l ->
  l = firstn (index_of s l) l ++ s :: skipn (S (index_of s l)) l.
Proof.
  induction l as [|x l IH]; intro H; [destruct H|]. cbn [index_of].
  destruct (N.eqb_spec x s) as [E|E].
  - subst. reflexivity.
  - destruct H as [H|H]; [congruence|]. cbn [firstn skipn app]. f_equal. apply IH, H.
Qed.

Lemma mtf_move_split s l : In s l ->
  exists a b, l = a ++ s :: b /\ mtf_move s l = s :: a ++ b.
Proof.
  intro H. exists (firstn (index_of s l) l), (skipn (S (index_of s l)) l).
  split; [apply split_at_index, H|reflexivity].
Qed.

Lemma mtf_move_In s l x : In s l -> (In x (mtf_move s l) <-> In x l).
Proof.
  intro H. destruct (mtf_move_split s l H) as [a [b [E1 E2]]]. rewrite E2, E1.
  cbn [In]. rewrite !in_app_iff. cbn [In]. tauto.
Qed.

Lemma mtf_move_length s l : In s l -> length (mtf_move s l) = length l.
Proof.
  intro H. destruct (mtf_move_split s l H) as [a [b [E1 E2]]]. rewrite E2, E1.
  cbn [length]. rewrite !app_length. cbn [length]. lia.
Qed.

Lemma mtf_move_NoDup s l : In s l -> NoDup l -> NoDup (mtf_move s l).
Proof.
  intros H Hn. destruct (mtf_move_split s l H) as [a [b [E1 E2]]]. rewrite E2. rewrite E1 in Hn.
  apply NoDup_remove in Hn as [Hn Hs]. constructor; assumption.
Qed.

Lemma mtf_encode_sels_cons order s r :
  mtf_encode_sels order (s :: r) = N.of_nat (index_of s order) :: mtf_encode_sels (mtf_move s order) r.
Proof. reflexivity. Qed.

Lemma mtf_sels_pos1 : forall sels order, Forall (fun s => In s order) sels ->
  Forall (fun k => (N.to_nat k < length order)%nat) (mtf_encode_sels order sels).
Proof.
  induction sels as [|s r IH]; intros order H; [constructor|].
  inversion H as [|? ? Hs Hr]; subst. rewrite mtf_encode_sels_cons. constructor.
  - rewrite Nat2N.id. apply index_of_lt, Hs.
  - rewrite <- (mtf_move_length s order Hs). apply IH.
    eapply Forall_impl; [|exact Hr]. intros a Ha. apply mtf_move_In; assumption.
Qed.

(* the invariant behind the second part: the first nt places of the order hold
   exactly the values < nt (so the values >= nt sit untouched behind them) *)
Definition low_front (nt : N) (order : list N) : Prop :=
  exists pre suf, order = pre ++ suf /\ length pre = N.to_nat nt /\ forall s, (s < nt)%N -> In s pre.

Lemma index_of_app_l s pre suf : In s pre -> index_of s (pre ++ suf) = index_of s pre.
Proof.
  induction pre as [|x pre IH]; intro H; [destruct H|]. cbn [app index_of].
  destruct (N.eqb_spec x s) as [E|E]; [reflexivity|]. destruct H as [H|H]; [congruence|]. f_equal. apply IH, H.
Qed.

Lemma low_front_step nt order s : (s < nt)%N -> low_front nt order ->
  (index_of s order < N.to_nat nt)%nat /\ low_front nt (mtf_move s order).
Proof.
  intros Hs [pre [suf [E [L Hin]]]]. pose proof (Hin s Hs) as Hsp.
  assert (Ei : index_of s order = index_of s pre) by (subst order; apply index_of_app_l, Hsp).
  pose proof (index_of_lt s pre Hsp) as Hlt. split; [lia|].
  exists (mtf_move s pre), suf. split; [|split].
  - unfold mtf_move. rewrite Ei. subst order.
    rewrite firstn_app, skipn_app.
    replace (index_of s pre - length pre)%nat with 0%nat by lia.
    replace (S (index_of s pre) - length pre)%nat with 0%nat by lia.
    cbn [firstn skipn app]. rewrite app_nil_r. rewrite <- app_assoc. reflexivity.
  - rewrite mtf_move_length by exact Hsp. exact L.
  - intros t Ht. apply mtf_move_In; [exact Hsp|]. apply Hin, Ht.
Qed.

Lemma low_front_init nt : (nt <= 6)%N -> low_front nt [0; 1; 2; 3; 4; 5]%N.
Proof.
  intro H. exists (firstn (N.to_nat nt) [0; 1; 2; 3; 4; 5]%N), (skipn (N.to_nat nt) [0; 1; 2; 3; 4; 5]%N).
  split; [symmetry; apply firstn_skipn|]. split.
  - rewrite firstn_length. cbn [length]. lia.
  - intros s Hs.
    assert (C : (nt = 0 \/ nt = 1 \/ nt = 2 \/ nt = 3 \/ nt = 4 \/ nt = 5 \/ nt = 6)%N) by lia.
    assert (D : (s = 0 \/ s = 1 \/ s = 2 \/ s = 3 \/ s = 4 \/ s = 5)%N) by lia.
    destruct C as [C|[C|[C|[C|[C|[C|C]]]]]]; subst nt;
      destruct D as [D|[D|[D|[D|[D|D]]]]]; subst s; try lia; vm_compute; auto 10.
Qed.

Lemma mtf_sels_pos2 nt : forall sels order, Forall (fun s => (s < nt)%N) sels -> low_front nt order ->
  Forall (fun k => (N.to_nat k < N.to_nat nt)%nat) (mtf_encode_sels order sels).
Proof.
  induction sels as [|s r IH]; intros order H Hl; [constructor|].
  inversion H as [|? ? Hs Hr]; subst. rewrite mtf_encode_sels_cons.
  destruct (low_front_step nt order s Hs Hl) as [Hi Hl'].
  constructor; [rewrite Nat2N.id; exact Hi|]. apply IH; assumption.
Qed.

Lemma mtf_sels_positions : forall order sels, NoDup order -> Forall (fun s => In s order) sels ->
  Forall (fun k => (N.to_nat k < length order)%nat) (mtf_encode_sels order sels) /\
  (forall nt, Forall (fun s => (s < nt)%N) sels -> order = [0;1;2;3;4;5]%N -> (nt <= 6)%N ->
     Forall (fun k => (N.to_nat k < N.to_nat nt)%nat) (mtf_encode_sels order sels)).
Proof.
  intros order sels _ H. split; [apply mtf_sels_pos1, H|].
  intros nt Hs -> Hn. apply mtf_sels_pos2; [exact Hs|apply low_front_init, Hn].
Qed.

Lemma mtf_sels_roundtrip : forall order sels, NoDup order -> Forall (fun s => In s order) sels ->
  unmtf_selectors order (mtf_encode_sels order sels) = sels.
Proof.
  intros order sels. revert order. induction sels as [|s r IH]; intros order Hn H; [reflexivity|].
  inversion H as [|? ? Hs Hr]; subst. rewrite mtf_encode_sels_cons.
  cbn [unmtf_selectors]. unfold mtf_front. rewrite Nat2N.id.
  rewrite (nth_index_of s order 0%N Hs). fold (mtf_move s order). f_equal.
  apply IH; [apply mtf_move_NoDup; assumption|].
  eapply Forall_impl; [|exact Hr]. intros a Ha. apply mtf_move_In; assumption.
Qed.

Print Assumptions N_of_bits_msb.
Print Assumptions take_put.
Print Assumptions bitmap_roundtrip.
Print Assumptions unary_roundtrip.
Print Assumptions selectors_read.
Print Assumptions mtf_sels_positions.
Print Assumptions mtf_sels_roundtrip.
