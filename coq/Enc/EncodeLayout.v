(* Field lengths of EncModel.write_block (the bit layout of transmit()): character map, selectors, prefix tables
   with tree_pad, prefix codes. *)
From Coq Require Import List NArith Arith Bool Lia.
From LBZ Require Import Common.Bits Gen.Consts Enc.EncModel Enc.PmModel Enc.PmReal Enc.PmCost Enc.GenModel
  Enc.EncodePmCost Enc.EncodeGenCost Enc.EncodeModel.
Import ListNotations.
Local Open Scope N_scope.

(* ---- field lengths of write_block ---------------------------------------------------------------------------------------- *)
Lemma put_length n v : length (put n v) = n.
Proof. apply bits_msb_length. Qed.

Lemma flat_map_length_sum {A B} (f : A -> list B) (l : list A) :
  N.of_nat (length (flat_map f l)) = lsum (map (fun x => N.of_nat (length (f x))) l).
Proof. induction l as [|x l IH]; cbn [flat_map map lsum length]; [reflexivity|]. rewrite app_length. lia. Qed.

(* character map *)
Definition used_ranges (used : list N) : N := N.of_nat (length (filter (range_used used) (seq 0 16))).

Lemma bitmap_rows_length used : forall l,
  N.of_nat (length (flat_map (fun i => if range_used used i
                                       then map (fun j => existsb (N.eqb (16 * N.of_nat i + N.of_nat j)) used) (seq 0 16)
                                       else []) l))
  = 16 * N.of_nat (length (filter (range_used used) l)).
Proof.
  induction l as [|i l IH]; cbn [flat_map filter]; [reflexivity|].
  rewrite app_length, Nat2N.inj_add, IH. destruct (range_used used i); cbn [length].
  - rewrite map_length, seq_length. lia.
  - lia.
Qed.

Lemma write_bitmap_length used : N.of_nat (length (write_bitmap used)) = 16 + 16 * used_ranges used.
Proof.
  unfold write_bitmap, used_ranges. cbv zeta. rewrite app_length, map_length, seq_length, Nat2N.inj_add.
  change (N.of_nat 16) with 16. f_equal. apply (bitmap_rows_length used (seq 0 16)).
Qed.

Lemma cmap_cost_exact used cost : cost + 256 < 2 ^ 32 -> cmap_cost used cost = cost + 16 * used_ranges used.
Proof.
  unfold cmap_cost, used_ranges. intro H.
  assert (G : forall l c, c + 16 * N.of_nat (length l) < 2 ^ 32 ->
            fold_left (fun c i => u32 (c + N.shiftl (if range_used used i then 1 else 0) 4)) l c
            = c + 16 * N.of_nat (length (filter (range_used used) l)) /\
            (length (filter (range_used used) l) <= length l)%nat).
  { induction l as [|i l IH]; intros c Hc; cbn [fold_left filter length] in *; [split; lia|].
    destruct (range_used used i); cbn [length].
    - change (N.shiftl 1 4) with 16. rewrite u32_small by lia. destruct (IH (c + 16) ltac:(lia)) as [E L]. rewrite E. split; lia.
    - change (N.shiftl 0 4) with 0. rewrite u32_small by lia. destruct (IH (c + 0) ltac:(lia)) as [E L]. rewrite E. split; lia. }
  apply G. rewrite seq_length. change (N.of_nat 16) with 16. lia.
Qed.

Lemma used_ranges_le used : used_ranges used <= 16.
Proof.
  unfold used_ranges. pose proof (filter_len_le' (range_used used) (seq 0 16)) as H. rewrite seq_length in H. lia.
Qed.

(* selectors *)
Lemma unary_length k : N.of_nat (length (unary k)) = k + 1.
Proof. unfold unary. rewrite app_length, repeat_length. cbn [length]. lia. Qed.

Lemma selectors_length js : N.of_nat (length (flat_map unary js)) = lsum js + N.of_nat (length js).
Proof.
  rewrite flat_map_length_sum. induction js as [|j r IH]; cbn [map lsum length]; [reflexivity|].
  rewrite unary_length, IH. lia.
Qed.

(* prefix tables *)
Lemma flat_map_const_length {A B} (l : list B) (s : list A) :
  length (flat_map (fun _ => l) s) = (length l * length s)%nat.
Proof. induction s as [|x s IH]; cbn [flat_map length]; [lia|]. rewrite app_length, IH. lia. Qed.

Lemma write_deltas_length : forall lens cur,
  N.of_nat (length (write_deltas cur lens)) =
  2 * (N.max cur (hd cur lens) - N.min cur (hd cur lens)) + 2 * sdelta lens + N.of_nat (length lens).
Proof.
  induction lens as [|c r IH]; intro cur; [cbn [write_deltas length hd sdelta]; lia|].
  cbn [write_deltas]. rewrite !app_length. cbn [length hd].
  rewrite !Nat2N.inj_add, IH. change (N.of_nat 1) with 1.
  assert (E : N.of_nat (length (if cur <? c
                then flat_map (fun _ : nat => [true; false]) (seq 0 (N.to_nat (c - cur)))
                else flat_map (fun _ : nat => [true; true]) (seq 0 (N.to_nat (cur - c)))))
              = 2 * (N.max cur c - N.min cur c)).
  { destruct (N.ltb_spec cur c); rewrite flat_map_const_length, seq_length; cbn [length]; lia. }
  rewrite E. destruct r as [|d r]; [cbn [hd sdelta length]|rewrite sdelta_cons2; cbn [hd length]]; lia.
Qed.

Lemma write_table_length pad lens : lens <> [] -> (4 <= hd 0 lens -> pad <= hd 0 lens) ->
  N.of_nat (length (write_table pad lens)) = 2 * pad + tree_cost lens.
Proof.
  intros Hne Hp. unfold write_table, tree_cost. cbv zeta. rewrite app_length, put_length, Nat2N.inj_add, write_deltas_length.
  destruct lens as [|l0 r]; [contradiction|]. cbn [hd] in *. change (N.of_nat 5) with 5.
  destruct (N.ltb_spec l0 4); lia.
Qed.

Lemma delta_walk_length : forall lens cur,
  length (write_deltas cur lens) = (2 * length (delta_walk cur lens) + length lens)%nat.
Proof.
  induction lens as [|c r IH]; intro cur; [reflexivity|].
  cbn [write_deltas delta_walk]. rewrite !app_length, IH. cbn [length].
  destruct (cur <? c); rewrite flat_map_const_length, map_length, seq_length; cbn [length]; lia.
Qed.

Lemma tables_length pad : forall (tabs : list (list N)) k,
  Forall (fun lens => lens <> []) tabs -> (k = 0%nat -> 4 <= hd 0 (hd [] tabs) -> pad <= hd 0 (hd [] tabs)) ->
  N.of_nat (length (flat_map (fun p => write_table (if fst p =? 0 then pad else 0) (snd p))
                             (combine (map N.of_nat (seq k (length tabs))) tabs)))
  = (if (k =? 0)%nat then match tabs with [] => 0 | _ => 2 * pad end else 0) + lsum (map tree_cost tabs).
Proof.
  induction tabs as [|t r IH]; intros k Hne Hp; cbn [length seq map combine flat_map lsum].
  - destruct (k =? 0)%nat; reflexivity.
  - inversion Hne as [|? ? H1 H2]; subst. rewrite app_length, Nat2N.inj_add. cbn [fst snd].
    rewrite (IH (S k) H2 ltac:(discriminate)). cbn [Nat.eqb]. rewrite N.add_0_l.
    destruct k as [|k]; cbn [Nat.eqb N.of_nat].
    + cbn [N.eqb]. rewrite write_table_length; [lia|exact H1|]. cbn [hd] in Hp. apply Hp. reflexivity.
    + replace (N.pos (Pos.of_succ_nat k) =? 0) with false by reflexivity.
      rewrite write_table_length; [lia|exact H1|lia].
Qed.

(* prefix codes *)
Lemma sym_bits_length lens s : N.of_nat (length (sym_bits lens s)) = nth (N.to_nat s) lens 0.
Proof. unfold sym_bits. rewrite bits_msb_length. apply N2Nat.id. Qed.

Lemma group_bits_length lens g : N.of_nat (length (flat_map (sym_bits lens) g)) = symcost lens g.
Proof.
  rewrite flat_map_length_sum. unfold symcost. f_equal. apply map_ext. intro s. apply sym_bits_length.
Qed.

Lemma codes_length (tabs : list (list N)) : forall sels fuel l, (length l < fuel)%nat ->
  N.of_nat (length (flat_map (fun p => flat_map (sym_bits (nth (N.to_nat (fst p)) tabs [])) (snd p))
                             (combine sels (chunks50 fuel l))))
  = gbits (tab_of tabs) sels l.
Proof.
  induction sels as [|c r IH]; intros fuel l Hf; [reflexivity|].
  destruct fuel as [|f]; [lia|]. cbn [chunks50 gbits].
  destruct l as [|x l'].
  - cbn [combine flat_map length]. change GS with 50%nat. cbn [firstn skipn].
    assert (Z : forall r', gbits (tab_of tabs) r' [] = 0).
    { induction r' as [|c' r' IHr]; cbn [gbits]; [reflexivity|]. change GS with 50%nat. cbn [firstn skipn]. rewrite IHr. reflexivity. }
    rewrite Z. reflexivity.
  - cbn [combine flat_map]. rewrite app_length, Nat2N.inj_add. cbn [fst snd].
    rewrite group_bits_length. change GS with 50%nat. unfold tab_of at 1. f_equal.
    apply IH. rewrite skipn_length. cbn [length] in *. lia.
Qed.
