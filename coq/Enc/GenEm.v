(* Proofs about Enc/GenModel.v, part 2: the groups, len_pack / find_best_tree, the E and M steps, the EM loop.
   Whatever make_code_lengths ([mcl]) returns (as long as it keeps the row length and its only error values
   are its own), after >= 1 iterations: one selector < nt per group, nt frequency rows of as+1 entries whose
   grand total is the number of (padded) symbols, MAX_TREES length rows of as entries. *)
From Coq Require Import List NArith Arith Bool Lia.
From LBZ Require Import Gen.Consts Enc.PmModel Enc.PmBasics Enc.PmReal Enc.GenModel Enc.GenInit.
Import ListNotations.
Local Open Scope N_scope.

(* ---- the groups ---------------------------------------------------------------------------------------------- *)
Lemma chunk_length n l : length (chunk n l) = n.
Proof. revert l. induction n as [|n IH]; intro l; cbn [chunk length]; [reflexivity|]. rewrite IH. reflexivity. Qed.

Lemma In_firstn' {A} (x : A) n l : In x (firstn n l) -> In x l.
Proof. intro H. rewrite <- (firstn_skipn n l). apply in_or_app. left. exact H. Qed.

Lemma Forall_firstn {A} (P : A -> Prop) n l : Forall P l -> Forall P (firstn n l).
Proof. intro H. apply Forall_forall. intros x Hx. rewrite Forall_forall in H. apply H. eapply In_firstn'; eauto. Qed.

Lemma In_skipn {A} (x : A) n l : In x (skipn n l) -> In x l.
Proof. intro H. rewrite <- (firstn_skipn n l). apply in_or_app. right. exact H. Qed.

Lemma Forall_skipn {A} (P : A -> Prop) n l : Forall P l -> Forall P (skipn n l).
Proof. intro H. apply Forall_forall. intros x Hx. rewrite Forall_forall in H. apply H. eapply In_skipn; eauto. Qed.

Lemma chunk_Forall (P : N -> Prop) n : forall l, Forall P l -> Forall (Forall P) (chunk n l).
Proof.
  induction n as [|n IH]; intros l H; cbn [chunk]; constructor.
  - apply Forall_firstn. exact H.
  - apply IH. apply Forall_skipn. exact H.
Qed.

Lemma chunk_total n : forall l, (length (concat (chunk n l)) <= length l)%nat.
Proof.
  induction n as [|n IH]; intro l; cbn [chunk concat]; [cbn; lia|].
  rewrite app_length. specialize (IH (skipn GS l)).
  rewrite <- (firstn_skipn GS l) at 3. rewrite app_length. lia.
Qed.

Lemma num_groups_mul nm : num_groups nm * GROUP_SIZE <= nm + GROUP_SIZE - 1.
Proof.
  unfold num_groups. change GROUP_SIZE with 50.
  pose proof (N.mul_div_le (nm + 50 - 1) 50). lia.
Qed.

Lemma num_groups_ge nm : nm <= num_groups nm * GROUP_SIZE.
Proof.
  unfold num_groups. change GROUP_SIZE with 50.
  pose proof (N.div_mod (nm + 50 - 1) 50). pose proof (N.mod_lt (nm + 50 - 1) 50). lia.
Qed.

Lemma num_groups_mono a b : a <= b -> num_groups a <= num_groups b.
Proof. intro H. unfold num_groups. apply N.div_le_mono; [discriminate|]. change GROUP_SIZE with 50. lia. Qed.

Lemma groups_of_spec mtfv asN : Forall (fun s => s < asN) mtfv ->
  let groups := groups_of mtfv asN in
  length groups = N.to_nat (num_groups (N.of_nat (length mtfv))) /\
  Forall (Forall (fun s => s <= asN)) groups /\
  N.of_nat (length (concat groups)) <= N.of_nat (length mtfv) + GROUP_SIZE - 1.
Proof.
  intros H groups. unfold groups, groups_of. split; [apply chunk_length|]. split.
  - apply chunk_Forall. apply Forall_app. split.
    + eapply Forall_impl; [|exact H]. cbn beta. intros; lia.
    + apply Forall_forall. intros x Hx. apply repeat_spec in Hx. lia.
  - set (nm := N.of_nat (length mtfv)).
    match goal with |- N.of_nat (length (concat (chunk ?n ?l))) <= _ => pose proof (chunk_total n l) as Ht end.
    rewrite app_length, repeat_length in Ht. fold nm in Ht.
    pose proof (num_groups_mul nm). pose proof (num_groups_ge nm). change GROUP_SIZE with 50 in *. lia.
Qed.

(* ---- len_pack / find_best_tree --------------------------------------------------------------------------------- *)
Lemma zip_pack_length row : forall acc, length row = length acc -> length (zip_pack row acc) = length acc.
Proof.
  induction row as [|l r IH]; intros [|a c] H; cbn [zip_pack length] in *; try lia.
  rewrite IH; lia.
Qed.

Lemma len_pack_length as_ lens : Forall (fun row => length row = as_) lens -> length (len_pack lens as_) = S as_.
Proof.
  intro H. unfold len_pack. rewrite app_length. cbn [length].
  assert (E : length (fold_right zip_pack (repeat 0 as_) lens) = as_).
  { induction H as [|row lens Hr Hl IH]; cbn [fold_right]; [apply repeat_length|].
    rewrite zip_pack_length; rewrite IH; auto. }
  lia.
Qed.

Lemma sum_pack_ok lp g : Forall (fun s => (N.to_nat s < length lp)%nat) g ->
  forall cp, exists cp', sum_pack lp g cp = GOk cp'.
Proof.
  induction 1 as [|s g Hs Hg IH]; intro cp; cbn [sum_pack]; [eexists; reflexivity|].
  destruct (nth_error lp (N.to_nat s)) as [x|] eqn:E.
  - apply IH.
  - apply nth_error_None in E. lia.
Qed.

Lemma best_loop_bound n : forall t cp bc bt, bt < t -> best_loop n t cp bc bt < t + N.of_nat n.
Proof.
  induction n as [|n IH]; intros t cp bc bt H; cbn [best_loop]; [lia|].
  destruct (_ <? bc).
  - specialize (IH (t + 1) (N.shiftr cp 10) (N.land (N.shiftr cp 10) 1023) t). lia.
  - specialize (IH (t + 1) (N.shiftr cp 10) bc bt). lia.
Qed.

Lemma find_best_tree_ok g nt lp : (1 <= nt)%nat -> Forall (fun s => (N.to_nat s < length lp)%nat) g ->
  exists t, find_best_tree g nt lp = GOk t /\ t < N.of_nat nt.
Proof.
  intros Hnt Hg. unfold find_best_tree. destruct (sum_pack_ok lp g Hg 0) as [cp E]. rewrite E. cbn [gbind].
  eexists. split; [reflexivity|].
  pose proof (best_loop_bound (nt - 1) 1 cp (N.land cp 1023) 0). lia.
Qed.

(* ---- the E step -------------------------------------------------------------------------------------------------- *)
Definition fr_shape (as_ nt : nat) (fr : list (list N)) : Prop :=
  length fr = nt /\ Forall (fun row => length row = S as_) fr.

Lemma upd_In {A} (l : list A) i v x : In x (upd l i v) -> x = v \/ In x l.
Proof.
  revert i. induction l as [|y l IH]; intros i H; [destruct i; contradiction|].
  destruct i as [|j]; cbn [upd] in H.
  - destruct H as [<-|H]; [left; reflexivity|right; right; exact H].
  - destruct H as [<-|H]; [right; left; reflexivity|]. apply IH in H. destruct H; [left|right; right]; assumption.
Qed.

Lemma upd_concat_sum (fr : list (list N)) : forall t row row', nth_error fr t = Some row ->
  lsum (concat (upd fr t row')) + lsum row = lsum (concat fr) + lsum row'.
Proof.
  induction fr as [|r0 fr IH]; intros t row row' H; [destruct t; discriminate|].
  destruct t as [|t]; cbn [nth_error] in H; cbn [upd concat]; rewrite !lsum_app.
  - inversion H; subst. lia.
  - specialize (IH t row row' H). lia.
Qed.

Lemma concat_repeat_zero k n : lsum (concat (repeat (repeat 0 k) n)) = 0.
Proof. induction n as [|n IH]; cbn [repeat concat]; [reflexivity|]. rewrite lsum_app, lsum_repeat0, IH. reflexivity. Qed.

Lemma e_step_ok as_ nt lp : (1 <= nt)%nat -> length lp = S as_ ->
  forall groups fr, Forall (Forall (fun s => s <= N.of_nat as_)) groups -> fr_shape as_ nt fr ->
  exists sels fr', e_step nt lp groups fr = GOk (sels, fr') /\ length sels = length groups /\
    Forall (fun t => t < N.of_nat nt) sels /\ fr_shape as_ nt fr' /\
    lsum (concat fr') = lsum (concat fr) + N.of_nat (length (concat groups)).
Proof.
  intros Hnt Hlp. induction groups as [|g groups IH]; intros fr Hg Hfr.
  - exists [], fr. cbn. repeat split; try apply Hfr; try constructor. lia.
  - inversion Hg as [|? ? Hg1 Hg2]; subst. cbn [e_step].
    assert (Hr : Forall (fun s => (N.to_nat s < S as_)%nat) g).
    { eapply Forall_impl; [|exact Hg1]. cbn beta. intros; lia. }
    destruct (find_best_tree_ok g nt lp Hnt) as [t [Et Ht]]; [rewrite Hlp; exact Hr|].
    rewrite Et. cbn [gbind]. replace (t <? N.of_nat nt) with true by (symmetry; apply N.ltb_lt; exact Ht).
    cbn [negb]. destruct Hfr as [Hf1 Hf2].
    destruct (nth_error fr (N.to_nat t)) as [row|] eqn:En; [|apply nth_error_None in En; lia].
    unfold grd. rewrite En. cbn [gbind].
    assert (Hrow : length row = S as_).
    { rewrite Forall_forall in Hf2. apply Hf2. eapply nth_error_In; eauto. }
    destruct (bump_all_ok 7 g row) as [row' [Eb [Lb Sb]]]; [rewrite Hrow; exact Hr|].
    rewrite Eb. cbn [gbind].
    destruct (IH (upd fr (N.to_nat t) row') Hg2) as [sels [fr' [E [L1 [L2 [L3 L4]]]]]].
    { split; [rewrite upd_length; exact Hf1|]. apply Forall_forall. intros x Hx. apply upd_In in Hx.
      destruct Hx as [->|Hx]; [lia|]. rewrite Forall_forall in Hf2. apply Hf2. exact Hx. }
    rewrite E. cbn [gbind]. exists (t :: sels), fr'. split; [reflexivity|].
    split; [cbn [length]; lia|]. split; [constructor; assumption|]. split; [exact L3|].
    rewrite L4. cbn [concat]. rewrite app_length.
    pose proof (upd_concat_sum fr (N.to_nat t) row row' En). lia.
Qed.

(* ---- the M step -------------------------------------------------------------------------------------------------- *)
(* [E]: the error values make_code_lengths may return (fun _ => False: none; is_mcl_err: its own) *)
Definition mcl_wf (E : gen_err -> Prop) (mcl : list N -> list N -> gres (list N)) : Prop :=
  (forall old f l, mcl old f = GOk l -> length l = length old) /\
  (forall old f e, mcl old f = GErr e -> E e).

(* a result satisfying P, or one of those error values *)
Definition err_only {A} (E : gen_err -> Prop) (x : gres A) (P : A -> Prop) : Prop :=
  match x with GOk a => P a | GErr e => E e end.

Definition is_mcl_err (e : gen_err) : Prop := exists m, e = GMcl m.

Lemma m_step_ok E mcl as_ : mcl_wf E mcl -> forall fr lens, (length fr <= length lens)%nat ->
  err_only E (m_step mcl as_ lens fr) (fun lens' => map (@length N) lens' = map (@length N) lens).
Proof.
  intros [W1 W2]. induction fr as [|f fr IH]; intros lens Hl.
  - unfold err_only. destruct lens; simpl; reflexivity.
  - destruct lens as [|l lens]; [cbn in Hl; lia|]. simpl m_step.
    destruct (mcl l (firstn as_ f)) as [l'|e] eqn:Em; cbn [gbind].
    + specialize (IH lens). cbn [length] in Hl.
      destruct (m_step mcl as_ lens fr) as [rest|e]; cbn [gbind]; cbv beta iota delta [err_only]; cbv beta iota delta [err_only] in IH.
      * cbn [map]. rewrite (W1 _ _ _ Em). f_equal. apply IH. lia.
      * apply IH. lia.
    + cbv beta iota delta [err_only]. eapply W2; eauto.
Qed.

Lemma shape_of_map as_ (l l' : list (list N)) : map (@length N) l' = map (@length N) l -> lens_shape as_ l -> lens_shape as_ l'.
Proof.
  intros E [H1 H2]. split.
  - rewrite <- H1. rewrite <- (map_length (@length N) l'), E, map_length. reflexivity.
  - apply Forall_forall. intros row Hin. apply (in_map (@length N)) in Hin. rewrite E in Hin.
    apply in_map_iff in Hin. destruct Hin as [r0 [<- Hr0]]. rewrite Forall_forall in H2. apply H2. exact Hr0.
Qed.

(* ---- the EM loop --------------------------------------------------------------------------------------------------- *)
Definition sel_fr_ok (as_ nt : nat) (groups : list (list N)) (sf : list N * list (list N)) : Prop :=
  length (fst sf) = length groups /\ Forall (fun t => t < N.of_nat nt) (fst sf) /\ fr_shape as_ nt (snd sf) /\
  lsum (concat (snd sf)) = N.of_nat (length (concat groups)).

Definition em_pre (as_ : nat) (st : em_state) : Prop := lens_shape as_ (fst st).
Definition em_post (as_ nt : nat) (groups : list (list N)) (st : em_state) : Prop :=
  lens_shape as_ (fst st) /\ exists sf, snd st = Some sf /\ sel_fr_ok as_ nt groups sf.

Lemma em_iter_ok E mcl as_ nt groups : mcl_wf E mcl -> (1 <= nt <= NTREES)%nat ->
  Forall (Forall (fun s => s <= N.of_nat as_)) groups ->
  forall st, err_only E st (em_pre as_) -> err_only E (em_iter mcl as_ nt groups st) (em_post as_ nt groups).
Proof.
  intros W Hnt Hg st Hst. unfold em_iter. destruct st as [[lens o]|e]; cbn [gbind]; [|exact Hst].
  cbn [err_only] in Hst. unfold em_pre in Hst. cbn [fst] in *.
  destruct (e_step_ok as_ nt (len_pack lens as_)) with (groups := groups) (fr := repeat (repeat 0 (S as_)) nt)
    as [sels [fr [Ee [L1 [L2 [L3 L4]]]]]]; try lia.
  - apply len_pack_length. apply Hst.
  - exact Hg.
  - split; [apply repeat_length|]. apply Forall_forall. intros x Hx. apply repeat_spec in Hx. subst x. apply repeat_length.
  - rewrite Ee. cbn [gbind]. rewrite L1, Nat.eqb_refl. cbn [negb].
    pose proof (m_step_ok E mcl as_ W fr lens) as M.
    destruct (m_step mcl as_ lens fr) as [lens'|e]; cbn [gbind err_only] in *.
    + split; cbn [fst snd].
      * eapply shape_of_map; [apply M|exact Hst]. destruct L3 as [L3 _]. destruct Hst as [Hs _]. lia.
      * exists (sels, fr). split; [reflexivity|]. repeat split; cbn [fst snd]; try assumption; try apply L3.
        rewrite L4, concat_repeat_zero. lia.
    + apply M. destruct L3 as [L3 _]. destruct Hst as [Hs _]. lia.
Qed.

Lemma em_loop_ok E mcl as_ nt groups cf lens0 : mcl_wf E mcl -> (1 <= nt <= NTREES)%nat -> 1 <= cf ->
  Forall (Forall (fun s => s <= N.of_nat as_)) groups -> lens_shape as_ lens0 ->
  err_only E (N.iter cf (em_iter mcl as_ nt groups) (GOk (lens0, None))) (em_post as_ nt groups).
Proof.
  intros W Hnt Hcf Hg H0.
  replace cf with (N.succ (N.pred cf)) by lia. rewrite N.iter_succ.
  apply em_iter_ok; auto.
  apply N.iter_invariant.
  - intros st Hst. pose proof (em_iter_ok E mcl as_ nt groups W Hnt Hg st Hst) as H1.
    destruct (em_iter mcl as_ nt groups st) as [s|e]; unfold err_only in *; [apply H1|exact H1].
  - exact H0.
Qed.
