(* Proofs about Enc/GenModel.v, part 1: arithmetic/list basics, sym_freq, generate_initial_trees.
   Result: on the symbol frequencies of a vector of 1 <= nm < 2^29 symbols, generate_initial_trees() never
   returns an error value (all its assert()s hold, no read outside code[0][0..as-1], no write outside
   length[t][0..as-1], t < MAX_TREES) and yields MAX_TREES rows of as entries. *)
From Coq Require Import List NArith Arith Bool Lia.
From LBZ Require Import Gen.Consts Enc.PmModel Enc.PmBasics Enc.PmReal Enc.GenModel.
Import ListNotations.
Local Open Scope N_scope.

(* ---- machine arithmetic ------------------------------------------------------------------------------------ *)
Lemma u32_small x : x < U32 -> u32 x = x.
Proof. intro H. unfold u32. rewrite land_MAX32. apply N.mod_small. exact H. Qed.

Lemma u32_lt x : u32 x < U32.
Proof. unfold u32. rewrite land_MAX32. apply N.mod_lt. discriminate. Qed.

Lemma sub32_exact a b : b <= a -> a < U32 -> sub32 a b = a - b.
Proof.
  intros Hb Ha. unfold sub32, u32. rewrite land_MAX32.
  replace (a + U32 - b) with ((a - b) + 1 * U32) by lia.
  rewrite N.mod_add by discriminate. apply N.mod_small. lia.
Qed.

Lemma U32_val : U32 = 4294967296. Proof. reflexivity. Qed.

(* ---- sums --------------------------------------------------------------------------------------------------- *)
Definition nnz (l : list N) : N := lsum (map (fun f => N.min f 1) l).

Lemma lsum_app a b : lsum (a ++ b) = lsum a + lsum b.
Proof. induction a as [|x a IH]; cbn [app lsum]; [reflexivity|]. rewrite IH. lia. Qed.

Lemma nnz_cons f r : nnz (f :: r) = N.min f 1 + nnz r.
Proof. reflexivity. Qed.

Lemma nnz_le_lsum l : nnz l <= lsum l.
Proof. induction l as [|x l IH]; [cbn; lia|]. rewrite nnz_cons. cbn [lsum]. lia. Qed.

Lemma lsum_zero_nnz l : lsum l = 0 -> nnz l = 0.
Proof. pose proof (nnz_le_lsum l). lia. Qed.

Lemma nnz_zero_lsum l : nnz l = 0 -> lsum l = 0.
Proof.
  induction l as [|x l IH]; [reflexivity|]. rewrite nnz_cons. cbn [lsum]. intro H.
  assert (x = 0) by lia. assert (nnz l = 0) by lia. rewrite IH by assumption. lia.
Qed.

Lemma nnz_le_length l : nnz l <= N.of_nat (length l).
Proof. induction l as [|x l IH]; [cbn; lia|]. rewrite nnz_cons. cbn [length]. lia. Qed.

Lemma lsum_firstn_skipn k l : lsum (firstn k l) + lsum (skipn k l) = lsum l.
Proof. rewrite <- lsum_app, firstn_skipn. reflexivity. Qed.

Lemma lsum_firstn_le k l : lsum (firstn k l) <= lsum l.
Proof. pose proof (lsum_firstn_skipn k l). lia. Qed.

Lemma lsum_repeat0 n : lsum (repeat 0 n) = 0.
Proof. induction n; cbn [repeat lsum]; lia. Qed.

Lemma lsum_In x l : In x l -> x <= lsum l.
Proof. induction l as [|y l IH]; [intros []|]. cbn [lsum]. intros [->|H]; [lia|]. apply IH in H. lia. Qed.

(* skipn k l = f :: r: one more element can be consumed *)
Lemma skipn_cons_step {A} (k : nat) (l : list A) f r d : skipn k l = f :: r ->
  (k < length l)%nat /\ skipn (S k) l = r /\ nth k l d = f /\ firstn (S k) l = firstn k l ++ [f].
Proof.
  revert l. induction k as [|k IH]; intros l H.
  - cbn [skipn] in H. subst l. cbn. repeat split; lia.
  - destruct l as [|x l]; [discriminate|]. cbn [skipn] in H. destruct (IH l H) as [H1 [H2 [H3 H4]]].
    repeat split.
    + cbn [length]. lia.
    + exact H2.
    + exact H3.
    + cbn [firstn app]. f_equal. exact H4.
Qed.

Lemma skipn_nil_len {A} (k : nat) (l : list A) : skipn k l = [] -> (length l <= k)%nat.
Proof.
  revert l. induction k as [|k IH]; intros l H.
  - cbn in H. subst l. cbn. lia.
  - destruct l as [|x l]; [cbn; lia|]. cbn [skipn] in H. apply IH in H. cbn [length]. lia.
Qed.

(* ---- bump / sym_freq ---------------------------------------------------------------------------------------- *)
Lemma bump_ok id l i : (i < length l)%nat ->
  exists l', bump id l i = GOk l' /\ length l' = length l /\ lsum l' = lsum l + 1.
Proof.
  revert i. induction l as [|x l IH]; intros i H; [cbn in H; lia|].
  destruct i as [|j].
  - exists (x + 1 :: l). cbn [bump length lsum]. repeat split; lia.
  - cbn [length] in H. destruct (IH j) as [l' [E [L S]]]; [lia|].
    exists (x :: l'). cbn [bump]. rewrite E. cbn [length lsum]. repeat split; lia.
Qed.

Lemma bump_all_ok id syms : forall row, Forall (fun s => (N.to_nat s < length row)%nat) syms ->
  exists row', bump_all id row syms = GOk row' /\ length row' = length row /\
               lsum row' = lsum row + N.of_nat (length syms).
Proof.
  induction syms as [|s syms IH]; intros row H.
  - exists row. cbn. repeat split; lia.
  - inversion H as [|? ? Hs Hr]; subst.
    destruct (bump_ok id row (N.to_nat s) Hs) as [r1 [E1 [L1 S1]]].
    destruct (IH r1) as [r2 [E2 [L2 S2]]].
    { eapply Forall_impl; [|exact Hr]. cbn beta. intros a Ha. rewrite L1. exact Ha. }
    exists r2. cbn [bump_all gbind]. rewrite E1. cbn [gbind]. rewrite E2. cbn [length].
    repeat split; lia.
Qed.

Lemma sym_freq_ok mtfv as_ : Forall (fun s => (N.to_nat s < as_)%nat) mtfv ->
  exists F, sym_freq mtfv as_ = GOk F /\ length F = as_ /\ lsum F = N.of_nat (length mtfv).
Proof.
  intro H. unfold sym_freq.
  destruct (bump_all_ok 1 mtfv (repeat 0 as_)) as [F [E [L S]]].
  { eapply Forall_impl; [|exact H]. cbn beta. intros a Ha. rewrite repeat_length. exact Ha. }
  exists F. rewrite repeat_length in L. rewrite lsum_repeat0 in S. repeat split; auto.
Qed.

(* ---- git_scan ----------------------------------------------------------------------------------------------- *)
Lemma git_scan_ok F : forall nm cum ase, cum + lsum F = nm -> nm < U32 -> ase + N.of_nat (length F) < U32 ->
  git_scan F nm cum ase = GOk (nm, ase + nnz F).
Proof.
  induction F as [|f r IH]; intros nm cum ase Hs Hnm Hase.
  - cbn [lsum] in Hs. cbn [git_scan]. replace (cum <? nm) with false by (symmetry; apply N.ltb_ge; lia).
    f_equal. f_equal; [lia|cbn; lia].
  - cbn [lsum] in Hs. cbn [length] in Hase. cbn [git_scan]. destruct (N.ltb_spec cum nm) as [Hlt|Hge].
    + rewrite (u32_small (cum + f)) by lia.
      rewrite (u32_small (ase + N.min f 1)) by lia.
      rewrite IH; [|lia|lia|lia]. rewrite nnz_cons. f_equal. f_equal. lia.
    + assert (f = 0) by lia. assert (lsum r = 0) by lia.
      rewrite nnz_cons, (lsum_zero_nnz r) by assumption. subst f. f_equal. f_equal; lia.
Qed.

(* ---- ec_grow ------------------------------------------------------------------------------------------------ *)
Definition NM_LIM : N := 268435456.      (* 2^28: 12 * nm stays below 2^32 *)

Lemma ec_grow_spec cur nt nm : lsum cur = nm -> nm < NM_LIM -> 1 <= nt <= 6 ->
  forall rest k, (1 <= k <= length cur)%nat -> rest = skipn k cur -> nt - 1 <= nnz rest ->
  exists k', ec_grow rest nt nm (nnz rest) (lsum (firstn k cur)) (nth (k - 1) cur 0) k
             = GOk (nnz (skipn k' cur), lsum (firstn k' cur), nth (k' - 1) cur 0, k') /\
    (k <= k' <= length cur)%nat /\
    nt - 1 <= nnz (skipn k' cur) /\
    (nnz (skipn k' cur) <= nt - 1 \/ nm <= lsum (firstn k' cur) * nt).
Proof.
  intros Hsum Hnm Hnt. unfold NM_LIM in Hnm.
  induction rest as [|f r IH]; intros k Hk Hrest Hlow.
  - exists k. cbn [ec_grow]. rewrite (sub32_exact nt 1) by (rewrite ?U32_val; lia).
    replace (nt - 1 <? nnz []) with false by (symmetry; apply N.ltb_ge; cbn; lia).
    cbn [andb]. rewrite <- Hrest. repeat split; try lia. left. cbn. lia.
  - symmetry in Hrest. destruct (skipn_cons_step k cur f r 0 Hrest) as [Hkl [Hsk [Hnth Hfn]]].
    pose proof (lsum_firstn_skipn k cur) as Hc. rewrite Hsum, Hrest in Hc.
    pose proof (nnz_le_lsum (f :: r)) as Hnl.
    cbn [ec_grow]. rewrite (sub32_exact nt 1) by (rewrite ?U32_val; lia).
    rewrite (u32_small (lsum (firstn k cur) * nt)) by (rewrite ?U32_val; nia).
    destruct (N.ltb_spec (nt - 1) (nnz (f :: r))) as [Ha|Ha]; cbn [andb].
    + destruct (N.ltb_spec (lsum (firstn k cur) * nt) nm) as [Hb|Hb].
      * (* the loop continues *)
        assert (Hmin : N.min f 1 <= nnz (f :: r)) by (rewrite nnz_cons; lia).
        rewrite (sub32_exact (nnz (f :: r)) (N.min f 1)) by (rewrite ?U32_val; lia).
        cbn [lsum] in Hc.
        rewrite (u32_small (lsum (firstn k cur) + f)) by (rewrite ?U32_val; lia).
        replace (nnz (f :: r) - N.min f 1) with (nnz r) by (rewrite nnz_cons; lia).
        replace (lsum (firstn k cur) + f) with (lsum (firstn (S k) cur))
          by (rewrite Hfn, lsum_app; cbn [lsum]; lia).
        destruct (IH (S k)) as [k' [E [Hk' [Hl' Hx]]]]; [lia|symmetry; exact Hsk| rewrite nnz_cons in Ha; lia|].
        exists k'. split; [replace (nth (S k - 1) cur 0) with f in E by (rewrite <- Hnth; f_equal; lia); exact E|]. repeat split; try lia; assumption.
      * exists k. rewrite Hrest. repeat split; try lia.
    + exists k. rewrite Hrest. repeat split; try lia.
Qed.

(* ---- git_classes -------------------------------------------------------------------------------------------- *)
Lemma nnz_app a b : nnz (a ++ b) = nnz a + nnz b.
Proof. unfold nnz. rewrite map_app, lsum_app. reflexivity. Qed.

Lemma nnz_firstn_skipn k l : nnz (firstn k l) + nnz (skipn k l) = nnz l.
Proof. rewrite <- nnz_app, firstn_skipn. reflexivity. Qed.

Lemma split_pred {A} (k : nat) (l : list A) d : (1 <= k <= length l)%nat ->
  firstn k l = firstn (k - 1) l ++ [nth (k - 1) l d] /\ skipn (k - 1) l = nth (k - 1) l d :: skipn k l.
Proof.
  intros Hk. destruct k as [|k]; [lia|]. replace (S k - 1)%nat with k by lia.
  destruct (skipn k l) as [|f r] eqn:E.
  - apply skipn_nil_len in E. lia.
  - destruct (skipn_cons_step k l f r d E) as [_ [H2 [H3 H4]]]. rewrite H3, H2, H4. split; reflexivity.
Qed.

(* the choice between b and b-1 made after the growth loop *)
Lemma class_choice cur nt nm ase k' :
  lsum cur = nm -> nnz cur = ase -> nm < NM_LIM -> 1 <= nt <= 6 -> nt <= ase ->
  (1 <= k' <= length cur)%nat ->
  nt - 1 <= nnz (skipn k' cur) ->
  (nnz (skipn k' cur) <= nt - 1 \/ nm <= lsum (firstn k' cur) * nt) ->
  let cum1 := lsum (firstn k' cur) in
  let freq1 := nth (k' - 1) cur 0 in
  let ase1 := nnz (skipn k' cur) in
  let retreat := (freq1 <? cum1) && (u32 (2 * nm) <? u32 (sub32 (u32 (2 * cum1)) freq1 * nt)) in
  exists k2, (if retreat then pred k' else k') = k2 /\ (1 <= k2 <= length cur)%nat /\
    (if retreat then sub32 cum1 freq1 else cum1) = lsum (firstn k2 cur) /\
    (if retreat then u32 (ase1 + N.min freq1 1) else ase1) = nnz (skipn k2 cur) /\
    0 < lsum (firstn k2 cur) /\ nt - 1 <= nnz (skipn k2 cur) /\
    (nt = 1 -> lsum (firstn k2 cur) = nm /\ nnz (skipn k2 cur) = 0).
Proof.
  intros Hsum Hnnz Hnm Hnt Hase Hk Hlow Hexit cum1 freq1 ase1 retreat. unfold NM_LIM in Hnm.
  destruct (split_pred k' cur 0 Hk) as [Hf Hs]. fold freq1 in Hf, Hs.
  pose proof (lsum_firstn_skipn k' cur) as Hc. rewrite Hsum in Hc. fold cum1 in Hc.
  pose proof (nnz_firstn_skipn k' cur) as Hn. rewrite Hnnz in Hn. fold ase1 in Hn, Hlow, Hexit.
  pose proof (nnz_le_lsum (firstn k' cur)) as Hnl. fold cum1 in Hnl, Hexit.
  pose proof (nnz_le_lsum (skipn k' cur)) as Hnl2. fold ase1 in Hnl2.
  assert (Hcf : cum1 = lsum (firstn (k' - 1) cur) + freq1).
  { unfold cum1. rewrite Hf, lsum_app. cbn [lsum]. lia. }
  assert (Hpos : 0 < cum1).
  { destruct Hexit as [He|He]; [lia|]. destruct (N.eq_dec cum1 0) as [Z|Z]; [rewrite Z in He; lia|lia]. }
  assert (Hone : nt = 1 -> cum1 = nm /\ ase1 = 0).
  { intro H1. subst nt. destruct Hexit as [He|He].
    - assert (Z : ase1 = 0) by lia. split; [|exact Z]. apply nnz_zero_lsum in Z. lia.
    - assert (Z : lsum (skipn k' cur) = 0) by lia. split; [lia|]. apply lsum_zero_nnz. exact Z. }
  assert (E1 : u32 (2 * nm) = 2 * nm) by (apply u32_small; rewrite U32_val; lia).
  assert (E2 : u32 (2 * cum1) = 2 * cum1) by (apply u32_small; rewrite U32_val; lia).
  assert (E3 : sub32 (2 * cum1) freq1 = 2 * cum1 - freq1) by (apply sub32_exact; rewrite ?U32_val; lia).
  assert (E4 : u32 ((2 * cum1 - freq1) * nt) = (2 * cum1 - freq1) * nt) by (apply u32_small; rewrite U32_val; nia).
  unfold retreat. rewrite E1, E2, E3, E4.
  destruct (N.ltb_spec freq1 cum1) as [Hlt|Hge]; cbn [andb].
  - destruct (N.ltb_spec (2 * nm) ((2 * cum1 - freq1) * nt)) as [Hr|Hr].
    + (* retreat *)
      assert (Hk2 : (2 <= k')%nat).
      { destruct (Nat.eq_dec k' 1) as [->|]; [|lia]. cbn [Nat.sub firstn lsum] in Hcf. lia. }
      exists (pred k'). replace (pred k') with (k' - 1)%nat by lia.
      split; [reflexivity|]. split; [lia|].
      split; [rewrite sub32_exact by (rewrite ?U32_val; lia); lia|].
      split.
      { rewrite Hs, nnz_cons. rewrite u32_small by (rewrite U32_val; lia). fold ase1. lia. }
      split; [lia|]. split.
      { rewrite Hs, nnz_cons. fold ase1. lia. }
      intro H1. destruct (Hone H1) as [Ha Hb]. subst nt. lia.
    + exists k'. repeat split; try lia; try (apply Hone; assumption).
  - exists k'. repeat split; try lia; try (apply Hone; assumption).
Qed.

Lemma git_classes_ok as_ : forall n cur a nt nm ase,
  nt = N.of_nat n -> (n <= 6)%nat -> lsum cur = nm -> nnz cur = ase -> nm < NM_LIM -> nt <= ase ->
  (a + length cur = as_)%nat ->
  exists cls, git_classes n as_ cur a nt nm ase
              = GOk (cls, match n with O => nm | S _ => 0 end, match n with O => ase | S _ => 0 end) /\
    length cls = n /\ Forall (fun c => (fst c + snd c <= as_)%nat) cls.
Proof.
  induction n as [|n' IH]; intros cur a nt nm ase Hnt Hn6 Hsum Hnnz Hnm Hase Hlen.
  - exists []. cbn [git_classes]. repeat split. constructor.
  - assert (Hnt1 : 1 <= nt <= 6) by lia.
    pose proof (nnz_le_lsum cur) as Hnl.
    cbn [git_classes].
    replace (nm =? 0) with false by (symmetry; apply N.eqb_neq; lia).
    replace (ase <? nt) with false by (symmetry; apply N.ltb_ge; lia).
    destruct cur as [|f0 r0]; [cbn in Hnnz; lia|].
    assert (Hm : N.min f0 1 <= ase) by (rewrite <- Hnnz, nnz_cons; lia).
    assert (Hase32 : ase < U32) by (unfold NM_LIM in Hnm; rewrite U32_val; lia).
    rewrite (sub32_exact ase (N.min f0 1)) by assumption.
    destruct (ec_grow_spec (f0 :: r0) nt nm Hsum Hnm Hnt1 r0 1%nat) as [k' [E [Hk' [Hlow Hexit]]]].
    { cbn [length]. lia. }
    { reflexivity. }
    { rewrite nnz_cons in Hnnz. lia. }
    replace (nnz r0) with (ase - N.min f0 1) in E by (rewrite nnz_cons in Hnnz; lia).
    replace (lsum (firstn 1 (f0 :: r0))) with f0 in E by (cbn; lia).
    change (nth (1 - 1) (f0 :: r0) 0) with f0 in E.
    rewrite E. cbn [gbind].
    assert (Hk'' : (1 <= k' <= length (f0 :: r0))%nat) by lia.
    pose proof (class_choice (f0 :: r0) nt nm ase k' Hsum Hnnz Hnm Hnt1 Hase Hk'' Hlow Hexit) as CC.
    cbv zeta in CC. destruct CC as [k2 [Ek [Hk2 [Ec [Ea [Hpos [Hlo Hone]]]]]]].
    rewrite Ek, Ec, Ea.
    pose proof (lsum_firstn_skipn k2 (f0 :: r0)) as Hc. rewrite Hsum in Hc.
    replace (k2 =? 0)%nat with false by (symmetry; apply Nat.eqb_neq; lia).
    replace (lsum (firstn k2 (f0 :: r0)) =? 0) with false by (symmetry; apply N.eqb_neq; lia).
    replace (nm <? lsum (firstn k2 (f0 :: r0))) with false by (symmetry; apply N.ltb_ge; lia).
    rewrite (sub32_exact nt 1) by (rewrite ?U32_val; lia).
    replace (nnz (skipn k2 (f0 :: r0)) <? nt - 1) with false by (symmetry; apply N.ltb_ge; lia).
    replace (as_ <? a + k2)%nat with false by (symmetry; apply Nat.ltb_ge; lia).
    rewrite (sub32_exact nm) by (unfold NM_LIM in Hnm; rewrite ?U32_val; lia).
    destruct (IH (skipn k2 (f0 :: r0)) (a + k2)%nat (nt - 1) (nm - lsum (firstn k2 (f0 :: r0)))
                 (nnz (skipn k2 (f0 :: r0)))) as [cls [Er [Lc Fc]]]; try lia.
    { rewrite skipn_length. lia. }
    rewrite Er. cbn [gbind].
    exists ((a, k2) :: cls). split.
    + destruct n' as [|n''].
      * assert (H1 : nt = 1) by lia. destruct (Hone H1) as [Hx Hy]. rewrite Hx, Hy.
        rewrite N.sub_diag. reflexivity.
      * reflexivity.
    + split; [cbn [length]; lia|]. constructor; [cbn [fst snd]; lia|exact Fc].
Qed.

(* ---- the result: MAX_TREES rows of as entries ---------------------------------------------------------------- *)
Definition lens_shape (as_ : nat) (lens : list (list N)) : Prop :=
  length lens = NTREES /\ Forall (fun row => length row = as_) lens.

Lemma class_row_length as_ c : (fst c + snd c <= as_)%nat -> length (class_row as_ c) = as_.
Proof. intro H. unfold class_row. rewrite !app_length, !repeat_length. lia. Qed.

Lemma init_lengths_shape as_ cls : (length cls <= NTREES)%nat -> Forall (fun c => (fst c + snd c <= as_)%nat) cls ->
  lens_shape as_ (init_lengths as_ cls).
Proof.
  intros Hl Hc. unfold lens_shape, init_lengths. split.
  - rewrite app_length, map_length, repeat_length. lia.
  - apply Forall_app. split.
    + apply Forall_forall. intros row Hin. apply in_map_iff in Hin. destruct Hin as [c [<- Hin]].
      apply class_row_length. rewrite Forall_forall in Hc. apply Hc. exact Hin.
    + apply Forall_forall. intros row Hin. apply repeat_spec in Hin. subst row. apply repeat_length.
Qed.

Theorem generate_initial_trees_ok F as_ nm nt :
  length F = as_ -> lsum F = nm -> 1 <= nm -> nm < NM_LIM -> 1 <= nt <= 6 -> N.of_nat as_ < 2 ^ 31 ->
  exists lens, generate_initial_trees F as_ nm nt = GOk lens /\ lens_shape as_ lens.
Proof.
  intros HL HS H1 Hlim Hnt Has. unfold generate_initial_trees.
  rewrite (git_scan_ok F nm 0 0); [|lia|unfold NM_LIM in Hlim; rewrite U32_val; lia|rewrite HL, U32_val; change (2 ^ 31) with 2147483648 in Has; lia].
  cbn [gbind]. rewrite N.eqb_refl. cbn [negb]. rewrite N.add_0_l.
  assert (Hz : 1 <= nnz F).
  { destruct (N.eq_dec (nnz F) 0) as [Z|Z]; [apply nnz_zero_lsum in Z; lia|lia]. }
  set (nt' := N.min nt (nnz F)).
  destruct (git_classes_ok as_ (N.to_nat nt') F 0%nat nt' nm (nnz F)) as [cls [E [Lc Fc]]]; try (unfold nt'; lia).
  rewrite E. cbn [gbind].
  destruct (N.to_nat nt') as [|k] eqn:Ek; [unfold nt' in Ek; lia|].
  cbn [N.eqb negb].
  replace (NTREES <? length cls)%nat with false
    by (symmetry; apply Nat.ltb_ge; rewrite Lc; change NTREES with 6%nat; unfold nt' in Ek; lia).
  eexists. split; [reflexivity|]. apply init_lengths_shape; [|exact Fc].
  rewrite Lc. change NTREES with 6%nat. unfold nt' in Ek. lia.
Qed.
