(* C20 - list-level cost lemmas for the optimality theorem:
   (B) any length vector costs at least the "row cost" of its level counts, and its Kraft sum bounds
       the counting value of those counts;
   (A) the depth list of a good row costs exactly the row cost. *)
From Coq Require Import List NArith ZArith Arith Bool Lia ZifyBool ZifyNat Sorting.Permutation.
From LBZ Require Import Gen.Consts Dec.Format Enc.EncModel Enc.HuffProofs Enc.PmModel Enc.PmBasics Enc.PmIdeal Enc.PmReal
  Enc.PmRefine Enc.PmAssign.
Import ListNotations.
Local Open Scope N_scope.

(* sum of products *)
Fixpoint dot (f l : list N) : N :=
  match f, l with
  | x :: f', v :: l' => x * v + dot f' l'
  | _, _ => 0
  end.

Lemma lsum_app a b : lsum (a ++ b) = lsum a + lsum b.
Proof. induction a as [|x r IH]; cbn [app lsum]; lia. Qed.

Lemma lsum_map_add {A} (g1 g2 : A -> N) l :
  lsum (map (fun k => g1 k + g2 k) l) = lsum (map g1 l) + lsum (map g2 l).
Proof. induction l as [|x r IH]; cbn [map lsum]; lia. Qed.

Lemma lsum_map_le {A} (g1 g2 : A -> N) l : (forall k, In k l -> g1 k <= g2 k) -> lsum (map g1 l) <= lsum (map g2 l).
Proof.
  induction l as [|x r IH]; intro H; cbn [map lsum]; [lia|].
  pose proof (H x ltac:(left; reflexivity)). specialize (IH ltac:(intros k Hk; apply H; right; exact Hk)). lia.
Qed.

Lemma lsum_perm' (a b : list N) : Permutation a b -> lsum a = lsum b.
Proof. induction 1; cbn [lsum]; lia. Qed.

(* ---- a sub-multiset of the leaves weighs at least as much as the same number of lightest leaves ------- *)
Fixpoint asc (l : list N) : Prop :=
  match l with [] => True | x :: r => (forall y, In y r -> x <= y) /\ asc r end.

Lemma asc_of_nth xs : (forall i j, (i <= j)%nat -> (j < length xs)%nat -> leafF xs i <= leafF xs j) -> asc xs.
Proof.
  induction xs as [|x r IH]; intro H; cbn [asc]; [exact I|]. split.
  - intros y Hy. apply (In_nth _ _ 0) in Hy. destruct Hy as [j [Hj <-]].
    apply (H 0%nat (S j)); cbn [length]; lia.
  - apply IH. intros i j Hij Hj. apply (H (S i) (S j)); cbn [length]; lia.
Qed.

Lemma Ssum_cons x r k : Ssum (x :: r) (S k) = x + Ssum r k.
Proof. reflexivity. Qed.

Lemma Ssum_shift x r : asc (x :: r) -> forall k, (k <= length r)%nat -> Ssum (x :: r) k <= Ssum r k.
Proof.
  revert x. induction r as [|y r' IH]; intros x [Hx Hr] k Hk; cbn [length] in Hk.
  - replace k with 0%nat by lia. cbn. lia.
  - destruct k as [|k]; [cbn; lia|]. rewrite !Ssum_cons.
    pose proof (Hx y ltac:(left; reflexivity)). specialize (IH y Hr k ltac:(lia)). lia.
Qed.

Lemma subset_sum xs : asc xs -> forall g rest, Permutation (g ++ rest) xs -> Ssum xs (length g) <= lsum g.
Proof.
  induction xs as [|x r IH]; intros Ha g rest P.
  - apply Permutation_sym, Permutation_nil in P. apply app_eq_nil in P as [-> _]. cbn. lia.
  - destruct Ha as [Hx Hr].
    destruct (in_dec N.eq_dec x g) as [Hin|Hnin].
    + apply in_split in Hin as [g1 [g2 ->]].
      rewrite <- app_assoc in P. cbn [app] in P.
      apply Permutation_sym, Permutation_cons_app_inv, Permutation_sym in P.
      rewrite app_assoc in P. specialize (IH Hr (g1 ++ g2) rest P).
      rewrite app_length in *. cbn [length]. replace (length g1 + S (length g2))%nat with (S (length g1 + length g2)) by lia.
      rewrite Ssum_cons, !lsum_app in *. cbn [lsum]. lia.
    + assert (Hin : In x rest).
      { assert (In x (g ++ rest)) by (apply (Permutation_in _ (Permutation_sym P)); left; reflexivity).
        apply in_app_or in H as [H|H]; [contradiction|exact H]. }
      apply in_split in Hin as [r1 [r2 ->]].
      rewrite app_assoc in P. apply Permutation_sym, Permutation_cons_app_inv, Permutation_sym in P.
      rewrite <- app_assoc in P. specialize (IH Hr g (r1 ++ r2) P).
      pose proof (Permutation_length P) as PL. rewrite app_length in PL.
      etransitivity; [apply Ssum_shift; [split; assumption|lia]|exact IH].
Qed.

Lemma filter_partition_perm {A} (P : A -> bool) (c : list A) :
  Permutation (filter P c ++ filter (fun a => negb (P a)) c) c.
Proof.
  induction c as [|a r IH]; cbn [filter]; [reflexivity|].
  destruct (P a); cbn [negb app].
  - constructor. exact IH.
  - symmetry. apply Permutation_cons_app. symmetry. exact IH.
Qed.

(* ---- (B) level counts of an arbitrary length vector --------------------------------------------------------- *)
Definition gtb (k : nat) (v : N) : bool := N.of_nat k <? v.
Definition cg (l : list N) (k : nat) : nat := length (filter (gtb k) l).
Definition sel (k : nat) (f l : list N) : list N := map fst (filter (fun p => gtb k (snd p)) (combine f l)).

(* the competitor row: number of symbols with length > k, for k = 0 .. h-1 *)
Definition counts (h : nat) (l : list N) : list N := map (fun k => N.of_nat (cg l k)) (seq 0 h).

Lemma sel_cons k x f v l : sel k (x :: f) (v :: l) = if gtb k v then x :: sel k f l else sel k f l.
Proof. unfold sel. cbn [combine filter snd]. destruct (gtb k v); reflexivity. Qed.

Lemma cg_cons l v k : cg (v :: l) k = ((if gtb k v then 1 else 0) + cg l k)%nat.
Proof. unfold cg. cbn [filter]. destruct (gtb k v); reflexivity. Qed.

Lemma sel_length k : forall f l, length f = length l -> length (sel k f l) = cg l k.
Proof.
  induction f as [|x f IH]; intros [|v l] H; cbn [length] in H; try lia; [reflexivity|].
  rewrite sel_cons, cg_cons. destruct (gtb k v); cbn [length]; rewrite IH by lia; cbv iota; lia.
Qed.

Lemma sel_perm k f l : length f = length l -> exists rest, Permutation (sel k f l ++ rest) f.
Proof.
  intro H. exists (map fst (filter (fun p => negb (gtb k (snd p))) (combine f l))).
  unfold sel. rewrite <- map_app.
  rewrite <- (map_fst_combine_eq f l H) at 3. apply Permutation_map.
  apply (filter_partition_perm (fun p => gtb k (snd p))).
Qed.

Lemma ind_sum x v h : lsum (map (fun k => if gtb k v then x else 0) (seq 0 h)) = x * N.min v (N.of_nat h).
Proof.
  induction h as [|h IH]; [cbn; lia|].
  rewrite seq_S, map_app, lsum_app, IH. cbn [map lsum Nat.add]. unfold gtb.
  destruct (N.ltb_spec (N.of_nat h) v); [rewrite !N.min_r by lia|rewrite !N.min_l by lia]; nia.
Qed.

Lemma lsum_map_zero {A} (l : list A) : lsum (map (fun _ => 0) l) = 0.
Proof. induction l; cbn [map lsum]; lia. Qed.

(* layer cake: cost = sum over levels of the weight of the symbols deeper than that level *)
Lemma layers h : forall f l, Forall (fun v => v <= N.of_nat h) l ->
  dot f l = lsum (map (fun k => lsum (sel k f l)) (seq 0 h)).
Proof.
  induction f as [|x f IH]; intros l Hl.
  - cbn [dot]. unfold sel. cbn [combine filter map lsum]. rewrite lsum_map_zero. reflexivity.
  - destruct l as [|v l].
    + cbn [dot]. unfold sel. cbn [combine filter map lsum]. rewrite lsum_map_zero. reflexivity.
    + inversion Hl as [|? ? Hv Hl']; subst. cbn [dot]. rewrite (IH l Hl').
      rewrite <- (N.min_l v (N.of_nat h)) at 1 by exact Hv. rewrite <- ind_sum, <- lsum_map_add.
      f_equal. apply map_ext. intro k. rewrite sel_cons. destruct (gtb k v); cbn [lsum]; lia.
Qed.

Fixpoint valf (h k0 : nat) (g : nat -> N) : N :=
  match h with O => 0 | S d => g k0 * 2 ^ N.of_nat d + valf d (S k0) g end.

Lemma val_map h : forall k0 g, val h (map g (seq k0 h)) = valf h k0 g.
Proof. induction h as [|d IH]; intros k0 g; [reflexivity|]. cbn [seq map]. rewrite val_S. cbn [hd tl valf]. rewrite IH. reflexivity. Qed.

Lemma valf_add h : forall k0 g1 g2, valf h k0 (fun k => g1 k + g2 k) = valf h k0 g1 + valf h k0 g2.
Proof. induction h as [|d IH]; intros k0 g1 g2; cbn [valf]; [lia|]. rewrite IH. lia. Qed.

Lemma valf_ext h : forall k0 g1 g2, (forall k, g1 k = g2 k) -> valf h k0 g1 = valf h k0 g2.
Proof. induction h as [|d IH]; intros k0 g1 g2 H; cbn [valf]; [reflexivity|]. rewrite H, (IH _ g1 g2 H). reflexivity. Qed.

(* a symbol of length v (as nat) contributes 2^h - 2^(h-m) where m = number of levels k0..k0+h-1 below v *)
Lemma valf_ind h : forall k0 v, (v <= k0 + h)%nat ->
  valf h k0 (fun k => if (k <? v)%nat then 1 else 0) + 2 ^ N.of_nat (h - (v - k0)) = 2 ^ N.of_nat h.
Proof.
  induction h as [|d IH]; intros k0 v Hv; cbn [valf].
  - cbn. lia.
  - specialize (IH (S k0) v ltac:(lia)).
    destruct (Nat.ltb_spec k0 v) as [Hlt|Hge].
    + replace (S d - (v - k0))%nat with (d - (v - S k0))%nat by lia.
      rewrite (Nnat.Nat2N.inj_succ d), N.pow_succ_r'. lia.
    + replace (v - S k0)%nat with 0%nat in IH by lia. replace (v - k0)%nat with 0%nat by lia.
      rewrite Nat.sub_0_r in *. lia.
Qed.

Lemma Crow_map xs h : forall k0 (g : nat -> N),
  Crow xs h (map g (seq k0 h)) = lsum (map (fun k => Ssum xs (N.to_nat (g k))) (seq k0 h)).
Proof.
  induction h as [|d IH]; intros k0 g; [reflexivity|]. cbn [seq map lsum]. rewrite Crow_S. cbn [hd tl].
  rewrite IH. reflexivity.
Qed.

(* Kraft's sum of a length vector against the counting value of its level counts *)
Lemma kraft_val h : (h <= 20)%nat -> forall l, Forall (fun v => 1 <= v <= N.of_nat h) l ->
  val h (counts h l) * 2 ^ N.of_nat (20 - h) + ksum l = N.of_nat (length l) * 2 ^ 20.
Proof.
  intros Hh l Hl. unfold counts. rewrite val_map.
  induction Hl as [|v l Hv Hl IH]; cbn [length ksum].
  - assert (Z : forall d k0, valf d k0 (fun _ => 0) = 0) by (induction d; intros; cbn [valf]; [|rewrite IHd]; lia).
    rewrite (valf_ext h 0 _ (fun _ => 0)) by reflexivity. rewrite Z. lia.
  - rewrite (valf_ext h 0 _ (fun k => (if (k <? N.to_nat v)%nat then 1 else 0) + N.of_nat (cg l k))).
    + rewrite valf_add.
      pose proof (valf_ind h 0 (N.to_nat v) ltac:(lia)) as VI. rewrite Nat.sub_0_r in VI.
      rewrite N.shiftl_1_l.
      assert (E1 : 2 ^ 20 = 2 ^ N.of_nat h * 2 ^ N.of_nat (20 - h)) by (rewrite <- N.pow_add_r; f_equal; lia).
      assert (E2 : 2 ^ (20 - v) = 2 ^ N.of_nat (h - N.to_nat v) * 2 ^ N.of_nat (20 - h)) by (rewrite <- N.pow_add_r; f_equal; lia).
      rewrite E2. rewrite E1 in *.
      set (P := 2 ^ N.of_nat (20 - h)) in *. set (A := valf h 0 (fun k => if (k <? N.to_nat v)%nat then 1 else 0)) in *.
      set (Bv := 2 ^ N.of_nat (h - N.to_nat v)) in *. set (H2 := 2 ^ N.of_nat h) in *. nia.
    + intro k. rewrite cg_cons. unfold gtb.
      destruct (N.ltb_spec (N.of_nat k) v); destruct (Nat.ltb_spec k (N.to_nat v)); lia.
Qed.

Lemma filter_len_le' {A} (P : A -> bool) l : (length (filter P l) <= length l)%nat.
Proof. induction l as [|x l IH]; cbn [filter length]; [lia|]. destruct (P x); cbn [length]; lia. Qed.

Lemma counts_le h l : Forall (fun v => v <= N.of_nat (length l)) (counts h l).
Proof.
  unfold counts. apply Forall_forall. intros a Ha. apply in_map_iff in Ha as [k [<- _]].
  unfold cg. pose proof (filter_len_le' (gtb k) l). lia.
Qed.

(* the cost of any length vector is at least the row cost of its level counts *)
Lemma cost_ge_counts xs f l h : asc xs -> Permutation xs f -> length f = length l ->
  Forall (fun v => v <= N.of_nat h) l -> Crow xs h (counts h l) <= dot f l.
Proof.
  intros Ha P Hlen Hl. rewrite (layers h f l Hl). unfold counts. rewrite Crow_map.
  apply lsum_map_le. intros k _. rewrite Nnat.Nat2N.id.
  destruct (sel_perm k f l Hlen) as [rest PR].
  rewrite <- (sel_length k f l Hlen). apply (subset_sum xs Ha _ rest).
  rewrite PR. symmetry. exact P.
Qed.

(* ---- (A) the depth list of a good row costs exactly the row cost ------------------------------------------- *)
Lemma dot_app : forall a b c d, length a = length c -> dot (a ++ b) (c ++ d) = dot a c + dot b d.
Proof.
  induction a as [|x a IH]; intros b c d H; destruct c as [|v c]; cbn [length] in H; try lia; [reflexivity|].
  cbn [app dot]. rewrite IH by lia. lia.
Qed.

Lemma dot_repeat a v : dot a (repeat v (length a)) = lsum a * v.
Proof. induction a as [|x a IH]; cbn [length repeat dot lsum]; [lia|]. rewrite IH. lia. Qed.

Lemma lsum_rev l : lsum (rev l) = lsum l.
Proof. apply lsum_perm'. symmetry. apply Permutation_rev. Qed.

Lemma firstn_split_rev (xs : list N) lo hi : (lo <= hi)%nat ->
  rev (firstn hi xs) = rev (skipn lo (firstn hi xs)) ++ rev (firstn lo xs).
Proof.
  intro H. rewrite <- rev_app_distr. f_equal.
  rewrite <- (firstn_skipn lo (firstn hi xs)) at 1. f_equal.
  rewrite firstn_firstn. f_equal. lia.
Qed.

Lemma Ssum_split (xs : list N) lo hi : (lo <= hi)%nat ->
  Ssum xs hi = lsum (skipn lo (firstn hi xs)) + Ssum xs lo.
Proof.
  intro H. unfold Ssum. rewrite <- (firstn_skipn lo (firstn hi xs)) at 1. rewrite lsum_app.
  rewrite firstn_firstn. replace (Nat.min lo hi) with lo by lia. lia.
Qed.

Section RowCost.
Variable xs : list N.
Variable row : list N.
Variable h : nat.
Hypothesis Hmono : forall i, (1 <= i)%nat -> (i <= h)%nat -> nth i row 0 <= nth (i - 1) row 0.
Hypothesis Hzero : nth h row 0 = 0.
Hypothesis Htop : nth 0 row 0 <= N.of_nat (length xs).

Lemma row_le_n i : (i <= h)%nat -> nth i row 0 <= N.of_nat (length xs).
Proof.
  induction i as [|i IH]; intro Hi; [exact Htop|].
  pose proof (Hmono (S i) ltac:(lia) Hi) as M. replace (S i - 1)%nat with i in M by lia.
  specialize (IH ltac:(lia)). lia.
Qed.

Lemma dlist_cost : forall k depth, (1 <= depth)%nat -> (depth + k = S h)%nat ->
  dot (rev (firstn (N.to_nat (nth (depth - 1) row 0)) xs)) (dlist row depth k) =
  N.of_nat (depth - 1) * Ssum xs (N.to_nat (nth (depth - 1) row 0)) + Crow xs k (skipn (depth - 1) row).
Proof.
  induction k as [|k IH]; intros depth Hd Hk.
  - replace (depth - 1)%nat with h by lia. rewrite Hzero. cbn. lia.
  - cbn [dlist]. specialize (IH (S depth) ltac:(lia) ltac:(lia)).
    replace (S depth - 1)%nat with depth in IH by lia.
    pose proof (Hmono depth Hd ltac:(lia)) as M.
    pose proof (row_le_n (depth - 1) ltac:(lia)) as Hhi.
    set (a := nth (depth - 1) row 0) in *. set (b := nth depth row 0) in *.
    assert (Hlo : (N.to_nat b <= N.to_nat a)%nat) by lia.
    rewrite (firstn_split_rev xs _ _ Hlo).
    set (M' := skipn (N.to_nat b) (firstn (N.to_nat a) xs)).
    assert (LM : length (rev M') = N.to_nat (a - b)).
    { unfold M'. rewrite rev_length, skipn_length, firstn_length. lia. }
    rewrite <- LM. rewrite dot_app by (rewrite repeat_length; reflexivity).
    rewrite dot_repeat, lsum_rev, IH.
    rewrite Crow_S, hd_skipn, tl_skipn. fold a. replace (S (depth - 1)) with depth by lia.
    rewrite (Ssum_split xs _ _ Hlo). fold M'.
    assert (N.of_nat depth = N.of_nat (depth - 1) + 1) by lia. nia.
Qed.

Lemma dlist_cost_full : nth 0 row 0 = N.of_nat (length xs) ->
  dot (rev xs) (dlist row 1 h) = Crow xs h row.
Proof.
  intro H0. pose proof (dlist_cost h 1 ltac:(lia) ltac:(lia)) as D.
  replace (1 - 1)%nat with 0%nat in D by lia. rewrite H0, Nnat.Nat2N.id, firstn_all in D.
  cbn [skipn N.of_nat] in D. lia.
Qed.
End RowCost.
