(* C20 - optimality of the level sequences (correctness of Package-Merge):
   the first t genuine items of level d are a minimum-cost solution of the "coin collector" problem
     minimise  sum_j S(a_j)   subject to   sum_j a_j 2^(d-1-j) >= t 2^(d-1),  0 <= a_j <= n
   where S(k) is the sum of the k lightest leaf frequencies. *)
From Coq Require Import List NArith ZArith Arith Bool Lia ZifyBool ZifyNat.
From LBZ Require Import Gen.Consts Enc.PmModel Enc.PmIdeal Enc.PmReal.
Import ListNotations.
Local Open Scope N_scope.

(* ---- prefix sums of monotone sequences --------------------------------------------------------------------- *)
Section Ranges.
Variable F : nat -> N.        (* prefix sums *)
Variable g : nat -> N.        (* increments: F (k+1) = F k + g k for k < B *)
Variable B : nat.
Hypothesis Hstep : forall k, (k < B)%nat -> F (S k) = F k + g k.

Lemma range_lower c : forall a b, (a <= b)%nat -> (b <= B)%nat ->
  (forall i, (a <= i)%nat -> (i < b)%nat -> c <= g i) -> F a + N.of_nat (b - a) * c <= F b.
Proof.
  intros a b Hab. induction Hab as [|b Hab IH]; intros HB Hc.
  - rewrite Nat.sub_diag. lia.
  - rewrite Hstep by lia. specialize (IH ltac:(lia) ltac:(intros; apply Hc; lia)).
    pose proof (Hc b ltac:(lia) ltac:(lia)). replace (S b - a)%nat with (S (b - a)) by lia. lia.
Qed.

Lemma range_upper c : forall a b, (a <= b)%nat -> (b <= B)%nat ->
  (forall i, (a <= i)%nat -> (i < b)%nat -> g i <= c) -> F b <= F a + N.of_nat (b - a) * c.
Proof.
  intros a b Hab. induction Hab as [|b Hab IH]; intros HB Hc.
  - rewrite Nat.sub_diag. lia.
  - rewrite Hstep by lia. specialize (IH ltac:(lia) ltac:(intros; apply Hc; lia)).
    pose proof (Hc b ltac:(lia) ltac:(lia)). replace (S b - a)%nat with (S (b - a)) by lia. lia.
Qed.

Lemma range_mono a b : (a <= b)%nat -> (b <= B)%nat -> F a <= F b.
Proof.
  intros Hab HB. pose proof (range_lower 0 a b Hab HB ltac:(intros; lia)). lia.
Qed.
End Ranges.

(* merging two non-decreasing sequences greedily gives the cheapest way to take at least that many items *)
Section Merge.
Variables (X Y : nat -> N) (x y : nat -> N) (BX BY : nat).
Hypothesis HX : forall k, (k < BX)%nat -> X (S k) = X k + x k.
Hypothesis HY : forall k, (k < BY)%nat -> Y (S k) = Y k + y k.
Hypothesis xmono : forall i j, (i <= j)%nat -> (j < BX)%nat -> x i <= x j.
Hypothesis ymono : forall i j, (i <= j)%nat -> (j < BY)%nat -> y i <= y j.

Lemma greedy_optimal l p l' p' :
  (l <= BX)%nat -> (p <= BY)%nat -> (l' <= BX)%nat -> (p' <= BY)%nat -> (l + p <= l' + p')%nat ->
  ((1 <= l)%nat -> (p < BY)%nat -> x (l - 1) <= y p) ->       (* every taken leaf <= next package *)
  ((1 <= p)%nat -> (l < BX)%nat -> y (p - 1) <= x l) ->       (* every taken package <= next leaf *)
  X l + Y p <= X l' + Y p'.
Proof.
  intros Hl Hp Hl' Hp' Hsum G1 G2.
  destruct (Nat.le_gt_cases l l') as [Hll|Hll]; destruct (Nat.le_gt_cases p p') as [Hpp|Hpp].
  - pose proof (range_mono X x BX HX l l' Hll Hl'). pose proof (range_mono Y y BY HY p p' Hpp Hp'). lia.
  - (* fewer packages, more leaves *)
    assert (Hlx : (l < BX)%nat) by lia.
    pose proof (G2 ltac:(lia) Hlx) as G.
    pose proof (range_lower X x BX HX (x l) l l' Hll Hl' ltac:(intros; apply xmono; lia)) as A.
    pose proof (range_upper Y y BY HY (y (p - 1)) p' p ltac:(lia) Hp ltac:(intros; apply ymono; lia)) as C.
    assert (N.of_nat (p - p') <= N.of_nat (l' - l)) by lia. nia.
  - (* fewer leaves, more packages *)
    assert (Hpy : (p < BY)%nat) by lia.
    pose proof (G1 ltac:(lia) Hpy) as G.
    pose proof (range_upper X x BX HX (x (l - 1)) l' l ltac:(lia) Hl ltac:(intros; apply xmono; lia)) as A.
    pose proof (range_lower Y y BY HY (y p) p p' Hpp Hp' ltac:(intros; apply ymono; lia)) as C.
    assert (N.of_nat (l - l') <= N.of_nat (p' - p)) by lia. nia.
  - lia.
Qed.
End Merge.

Lemma Ssum_mono xs k k' : (k <= k')%nat -> Ssum xs k <= Ssum xs k'.
Proof.
  unfold Ssum. revert k k'; induction xs as [|x r IH]; intros k k' H.
  - rewrite !firstn_nil. lia.
  - destruct k as [|k]; destruct k' as [|k']; cbn [firstn lsum]; try lia.
    specialize (IH k k' ltac:(lia)). lia.
Qed.

Section Opt.
Variable xs : list N.
Notation n := (length xs).
Hypothesis Hn : (2 <= n)%nat.
Hypothesis Hs : forall i j, (i <= j)%nat -> (j < n)%nat -> leafF xs i <= leafF xs j.
Notation L := (ilev xs).
Notation El := (ell xs).
Notation Pk := (pk xs).
Notation R := (rr n).
Let IA := inv_all xs Hn Hs.

(* total weight of the first q packages handed up by level d0+1 *)
Definition Ylow (d0 q : nat) : N := if (q =? 0)%nat then 0 else W xs (S d0) (2 * q).

Lemma Ylow_step d0 q : (S d0 <= S MCL)%nat -> (q < R (S d0) / 2)%nat ->
  Ylow d0 (S q) = Ylow d0 q + ipkg (L (S d0) (2 * q + 2)).
Proof.
  intros Hd Hq. unfold Ylow. replace (S q =? 0)%nat with false by reflexivity.
  replace (2 * S q)%nat with (2 * q + 2)%nat by lia.
  destruct (Nat.eqb_spec q 0) as [->|Hq0].
  - cbn [Nat.mul Nat.add]. rewrite (W_init xs Hn Hs). rewrite ilev_2. unfold il_init; cbn [ipkg]. lia.
  - replace (2 * q + 2)%nat with (S (S (2 * q))) by lia.
    destruct (W_step xs Hn Hs d0 Hd (2 * q)%nat ltac:(lia) ltac:(lia)) as [A1 A2].
    destruct (W_step xs Hn Hs d0 Hd (S (2 * q))%nat ltac:(lia) ltac:(lia)) as [B1 B2].
    rewrite B2, A2, B1. lia.
Qed.

(* the cost of the row of level d0+2 after t takes = leaves + packages *)
Lemma W_decomp d0 t : (2 <= t)%nat -> (S (S d0) <= S MCL)%nat ->
  W xs (S (S d0)) t = Ssum xs (El (S (S d0)) t) + Ylow d0 (Pk (S (S d0)) t).
Proof.
  intros Ht Hd. unfold W at 1. rewrite (ia_split xs Hn Hs (S (S d0)) t Ht ltac:(lia)).
  rewrite Crow_S. cbn [hd tl]. rewrite Nnat.Nat2N.id. f_equal.
  rewrite (inv_h _ _ _ (IA (S d0) t Ht)). cbn [Nat.leb orb]. unfold Ylow.
  destruct (Nat.eqb_spec (Pk (S (S d0)) t) 0) as [Hp|Hp].
  - apply Crow_zeros.
  - replace (S (S d0) - 1)%nat with (S d0) by lia. rewrite Crow_firstn by lia. reflexivity.
Qed.

(* no competitor can ask level d for more than its genuine items *)
Lemma val_bound d1 : forall a, Forall (fun v => v <= N.of_nat n) a ->
  val (S d1) a < (N.of_nat (R (S d1)) + 1) * 2 ^ N.of_nat d1.
Proof.
  induction d1 as [|d0 IH]; intros a Ha.
  - rewrite val_S. cbn [val]. rewrite rr_1. change (2 ^ N.of_nat 0) with 1.
    assert (hd 0 a <= N.of_nat n) by (destruct Ha; cbn [hd]; lia). lia.
  - rewrite val_S. rewrite rr_SS.
    assert (H0 : hd 0 a <= N.of_nat n) by (destruct Ha; cbn [hd]; lia).
    assert (Ht : Forall (fun v => v <= N.of_nat n) (tl a)) by (destruct Ha; cbn [tl]; auto).
    specialize (IH (tl a) Ht).
    rewrite (Nnat.Nat2N.inj_succ d0), N.pow_succ_r'. set (P := 2 ^ N.of_nat d0) in *.
    set (r := R (S d0)) in *.
    assert (N.of_nat r + 1 <= 2 * N.of_nat (r / 2) + 2) by lia.
    assert (N.of_nat (n + r / 2) = N.of_nat n + N.of_nat (r / 2)) by lia.
    nia.
Qed.

Theorem level_optimal d1 : (S d1 <= S MCL)%nat -> forall t a, (2 <= t)%nat -> (t <= R (S d1))%nat ->
  Forall (fun v => v <= N.of_nat n) a -> N.of_nat t * 2 ^ N.of_nat d1 <= val (S d1) a ->
  W xs (S d1) t <= Crow xs (S d1) a.
Proof.
  induction d1 as [|d0 IH]; intros Hd t a Ht Hle Ha Hval.
  - rewrite rr_1 in Hle. rewrite val_S in Hval. cbn [val] in Hval. change (2 ^ N.of_nat 0) with 1 in Hval.
    unfold W. rewrite (ia_split xs Hn Hs 1 t Ht ltac:(lia)). rewrite !Crow_S. cbn [hd tl Crow].
    rewrite Nnat.Nat2N.id, (level1_real xs Hn Hs t Ht ltac:(rewrite rr_1; lia)).
    pose proof (Ssum_mono xs t (N.to_nat (hd 0 a)) ltac:(lia)). lia.
  - rewrite W_decomp by assumption.
    set (l := El (S (S d0)) t). set (p := Pk (S (S d0)) t).
    pose proof (IA (S d0) t Ht) as I.
    pose proof (inv_hi _ _ _ I) as Ihi. pose proof (inv_t _ _ _ I) as It. fold l in Ihi, It.
    assert (Ep : (l + p = t)%nat) by (unfold p; rewrite Pk_unfold; fold l; lia).
    pose proof (R1 xs Hn Hs d0 t Ht Hle) as HR1. fold p in HR1.
    rewrite Crow_S. rewrite val_S in Hval.
    assert (H0 : hd 0 a <= N.of_nat n) by (destruct Ha; cbn [hd]; lia).
    assert (Hta : Forall (fun v => v <= N.of_nat n) (tl a)) by (destruct Ha; cbn [tl]; auto).
    set (A0 := N.to_nat (hd 0 a)) in *. set (p' := (t - A0)%nat).
    (* the rest of the competitor pays for p' packages *)
    assert (Hlow : (2 * p' <= R (S d0))%nat /\ Ylow d0 p' <= Crow xs (S d0) (tl a)).
    { destruct (Nat.eq_dec p' 0) as [E0|N0].
      - rewrite E0. split; [lia|]. unfold Ylow. cbn [Nat.eqb]. lia.
      - pose proof (val_bound d0 (tl a) Hta) as VB.
        rewrite (Nnat.Nat2N.inj_succ d0), N.pow_succ_r' in Hval. set (P := 2 ^ N.of_nat d0) in *.
        assert (HP : 1 <= P) by (unfold P; pose proof (N.pow_nonzero 2 (N.of_nat d0)); lia).
        assert (Hv : N.of_nat (2 * p') * P <= val (S d0) (tl a)).
        { assert (N.of_nat t = N.of_nat A0 + N.of_nat p') by (unfold p' in *; lia).
          assert (hd 0 a = N.of_nat A0) by (unfold A0; lia). nia. }
        assert (H2p : (2 * p' <= R (S d0))%nat) by nia.
        split; [exact H2p|].
        unfold Ylow. replace (p' =? 0)%nat with false by (symmetry; apply Nat.eqb_neq; exact N0).
        apply IH; try assumption; lia. }
    destruct Hlow as [H2p Hlow].
    (* greedy merge of leaves and packages *)
    assert (G : Ssum xs l + Ylow d0 p <= Ssum xs A0 + Ylow d0 p').
    { apply (greedy_optimal (Ssum xs) (Ylow d0) (leafF xs) (fun k => ipkg (L (S d0) (2 * k + 2))) n (R (S d0) / 2)).
      - intros k Hk. apply Ssum_S. exact Hk.
      - intros k Hk. apply Ylow_step; [lia|exact Hk].
      - intros i j Hij Hj. apply Hs; assumption.
      - intros i j Hij Hj. apply (pkg_mono xs Hn Hs); lia.
      - exact Ihi.
      - lia.
      - unfold A0. lia.
      - lia.
      - unfold p'. lia.
      - intros Hl1 Hp1. pose proof (inv_d _ _ _ I) as Id. pose proof (inv_f _ _ _ I ltac:(lia)) as If.
        replace (S (S d0) - 1)%nat with (S d0) in If by lia. fold l in Id. fold p in If. lia.
      - intros Hp1 Hl1. pose proof (inv_g _ _ _ I ltac:(lia)) as Ig. pose proof (inv_c _ _ _ I) as Ic.
        replace (S (S d0) - 1)%nat with (S d0) in Ig by lia. fold p in Ig. fold l in Ic.
        specialize (Ig Hp1). specialize (Ic Hl1).
        replace (2 * (p - 1) + 2)%nat with (2 * p)%nat by lia. lia. }
    fold A0. lia.
Qed.
End Opt.
