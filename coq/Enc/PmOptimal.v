(* C20 - L3: the code lengths computed by the model of assign_codes() minimise sum f_i * len_i among all
   length vectors with lengths in 1..height whose Kraft sum is at most 1 (height = the height chosen by
   assign_codes; every computed length is <= height). *)
From Coq Require Import List NArith ZArith Arith Bool Lia ZifyBool ZifyNat Sorting.Permutation.
From LBZ Require Import Gen.Consts Dec.Format Enc.EncModel Enc.HuffProofs Enc.PmModel Enc.PmBasics Enc.PmLoop
  Enc.PmIdeal Enc.PmReal Enc.PmRefine Enc.PmAssign Enc.PmProofs Enc.PmOpt Enc.PmCost.
Import ListNotations.
Local Open Scope N_scope.

Lemma dot_as_sum : forall f l, length f = length l ->
  dot f l = lsum (map (fun s => nth s f 0 * nth s l 0) (seq 0 (length f))).
Proof.
  induction f as [|x f IH]; intros [|v l] H; cbn [length] in H; try lia; [reflexivity|].
  cbn [dot length seq map lsum nth]. rewrite <- seq_shift, map_map. cbn [nth]. rewrite <- IH by lia. reflexivity.
Qed.

Lemma dot_reindex n (f lens Fs dl : list N) (sigma : nat -> nat) :
  length f = n -> length lens = n -> length Fs = n -> length dl = n ->
  Permutation (map sigma (seq 0 n)) (seq 0 n) ->
  (forall j, (j < n)%nat -> nth j Fs 0 = nth (sigma j) f 0 /\ nth j dl 0 = nth (sigma j) lens 0) ->
  dot f lens = dot Fs dl.
Proof.
  intros H1 H2 H3 H4 P E.
  rewrite (dot_as_sum f lens) by lia. rewrite (dot_as_sum Fs dl) by lia. rewrite H1, H3.
  rewrite (lsum_perm' _ _ (Permutation_map (fun s => nth s f 0 * nth s lens 0) (Permutation_sym P))).
  rewrite map_map. f_equal. apply map_ext_in. intros j Hj. apply in_seq in Hj.
  destruct (E j ltac:(lia)) as [E1 E2]. rewrite E1, E2. reflexivity.
Qed.

(* frequency of the j-th heaviest leaf = frequency of the symbol stored in its low bits *)
Lemma Fof_sorted f j : (length f <= N.to_nat MAX_ALPHA_SIZE)%nat -> (j < length f)%nat ->
  Fof (nth j (sort_desc (labels f)) 0) = nth (symj (make_leaf_weight f) j) f 0.
Proof.
  intros Hm Hj. rewrite symj_idx.
  set (w := nth j (sort_desc (labels f)) 0).
  assert (Hin : In w (labels f)).
  { apply (Permutation_in _ (sort_desc_perm _)). apply nth_In. rewrite sorted_len. exact Hj. }
  apply (In_nth _ _ 0) in Hin. destruct Hin as [j0 [Hj0 E]]. unfold labels in Hj0. rewrite label_from_length in Hj0.
  rewrite <- E. unfold idx. rewrite labels_land by assumption.
  replace (N.to_nat (MAX_ALPHA_SIZE - (MAX_ALPHA_SIZE - N.of_nat j0))) with j0 by lia.
  unfold labels. rewrite label_from_nth by exact Hj0.
  assert (HM : MAX_ALPHA_SIZE < 2 ^ 16) by (vm_compute; reflexivity).
  rewrite leaf_label_enc by lia. apply Fof_enc. unfold U32. lia.
Qed.

Lemma rev_xs_of f : rev (xs_of f) = map Fof (sort_desc (labels f)).
Proof. unfold xs_of. rewrite <- map_rev, rev_involutive. reflexivity. Qed.

Theorem assign_lengths_optimal f len0 : pm_input_ok f -> length len0 = length f ->
  exists r, assign_lengths len0 f = Ok r /\
    forall lens', length lens' = length f ->
      Forall (fun l => 1 <= l <= N.of_nat (r_height r)) lens' ->
      kraft lens' <= kraft_full ->
      dot f (r_lengths r) <= dot f lens'.
Proof.
  intros Hin Hlen0. pose proof (pm_input_bound f Hin) as HB. destruct Hin as [H2 [Hm [Hf _]]].
  destruct (assign_lengths_ok f H2 Hm Hf HB len0 Hlen0)
    as [r [len1 [E [L1 [B1 [B20 [Bp [EL DL]]]]]]]].
  exists r. split; [exact E|]. intros lens' Hlen' Hrange Hkraft.
  set (n := length f) in *. set (xs := xs_of f) in *. set (h := r_height r) in *.
  set (row := ia (ilev xs h (2 * n - 2))) in *. set (dl := dlist row 1 h) in *.
  set (lw := make_leaf_weight f) in *.
  pose proof (xs_length f) as Hxn. fold xs n in Hxn.
  assert (Hxn2 : (2 <= length xs)%nat) by lia.
  pose proof (xs_sorted f H2 Hm) as Hxs. fold xs in Hxs.
  pose proof (ideal_row_good f H2 Hm HB h B1 B20 Bp) as G. fold xs n row in G.
  (* (A) the cost of the computed lengths is the weight of the first 2n-2 items of level h *)
  assert (A : dot f (r_lengths r) = W xs h (2 * n - 2)).
  { rewrite (dot_reindex n f (r_lengths r) (rev xs) dl (symj lw)); try reflexivity.
    - unfold W. fold row. apply dlist_cost_full.
      + intros i Hi _. apply (g_mono _ _ _ G). exact Hi.
      + apply (g_zero _ _ _ G).
      + rewrite (g_top _ _ _ G), Hxn. lia.
      + rewrite (g_top _ _ _ G), Hxn. reflexivity.
    - rewrite EL, apply_writes_length. exact L1.
    - rewrite rev_length. exact Hxn.
    - exact DL.
    - apply sigma_perm; [apply lw_length|apply sym_low; exact Hm|apply sym_lt; exact Hm|apply sym_inj; exact Hm].
    - intros j Hj. split.
      + unfold xs. rewrite rev_xs_of.
        rewrite (nth_indep _ 0 (Fof 0)) by (rewrite map_length, sorted_len; exact Hj).
        rewrite map_nth. apply Fof_sorted; assumption.
      + rewrite EL. symmetry. apply full_writes_nth; auto.
        * apply lw_length.
        * apply sym_low; exact Hm.
        * apply sym_lt; exact Hm.
        * apply sym_inj; exact Hm. }
  rewrite A.
  (* (B) the competitor costs at least the row cost of its level counts, which are feasible *)
  assert (Hasc : asc xs) by (apply asc_of_nth; exact Hxs).
  assert (Pxf : Permutation xs f).
  { etransitivity; [apply (xs_perm f H2 Hm)|]. symmetry. apply Permutation_rev. }
  assert (Hle' : Forall (fun v => v <= N.of_nat h) lens') by (eapply Forall_impl; [|exact Hrange]; cbn beta; intros; lia).
  pose proof (cost_ge_counts xs f lens' h Hasc Pxf (eq_sym Hlen') Hle') as Bc.
  etransitivity; [|exact Bc].
  destruct h as [|d1] eqn:Eh; [lia|].
  apply (level_optimal xs Hxn2 Hxs d1).
  - rewrite MCL_20. lia.
  - lia.
  - rewrite Hxn. apply rr_full; lia.
  - rewrite Hxn, <- Hlen'. apply counts_le.
  - pose proof (kraft_val (S d1) B20 lens' Hrange) as KV. rewrite kraft_ksum in Hkraft.
    unfold kraft_full in Hkraft. rewrite N.shiftl_1_l in Hkraft. rewrite Hlen' in KV. fold n in KV.
    assert (E1 : 2 ^ 20 = 2 ^ N.of_nat (S d1) * 2 ^ N.of_nat (20 - S d1)) by (rewrite <- N.pow_add_r; f_equal; lia).
    rewrite (Nnat.Nat2N.inj_succ d1), N.pow_succ_r' in E1.
    assert (HP : 1 <= 2 ^ N.of_nat (20 - S d1)) by (pose proof (N.pow_nonzero 2 (N.of_nat (20 - S d1))); lia).
    set (P := 2 ^ N.of_nat (20 - S d1)) in *. set (Q := 2 ^ N.of_nat d1) in *.
    set (V := val (S d1) (counts (S d1) lens')) in *. set (K := ksum lens') in *.
    assert (N.of_nat (2 * n - 2) = 2 * N.of_nat n - 2) by lia.
    nia.
Qed.

Corollary pm_lengths_optimal f : pm_input_ok f ->
  exists r, pm_lengths_res f = Ok r /\
    forall lens', length lens' = length f ->
      Forall (fun l => 1 <= l <= N.of_nat (r_height r)) lens' ->
      kraft lens' <= kraft_full ->
      dot f (r_lengths r) <= dot f lens'.
Proof. intro H. apply (assign_lengths_optimal f (repeat 0 (length f)) H). apply repeat_length. Qed.

(* ---- closed forms used by Properties/Properties_C20pm.v ------------------------------------------------------ *)
(* the cost function of Properties_C20.v *)
Definition pm_cost (freqs lens : list N) : N :=
  fold_left N.add (map (fun p => fst p * snd p) (combine freqs lens)) 0.

Lemma pm_cost_dot f l : pm_cost f l = dot f l.
Proof.
  unfold pm_cost.
  assert (G : forall (c : list (N * N)) a, fold_left N.add (map (fun p => fst p * snd p) c) a =
                                           a + lsum (map (fun p => fst p * snd p) c)).
  { induction c as [|p c IH]; intro a; cbn [map fold_left lsum]; [lia|]. rewrite IH. lia. }
  rewrite G, N.add_0_l. revert l; induction f as [|x f IH]; intros [|v l]; cbn [combine map lsum dot fst snd]; auto.
  rewrite IH. reflexivity.
Qed.

Definition max_len (lens : list N) : N := fold_right N.max 0 lens.

Lemma max_len_le lens b : Forall (fun l => l <= b) lens -> max_len lens <= b.
Proof. induction 1; cbn [max_len fold_right]; [lia|]. fold (max_len l). lia. Qed.

(* C20 for the model: safety, "no code longer than 20 bits", completeness and optimality *)
Theorem pm_lengths_correct f : pm_input_ok f ->
  exists lens, pm_lengths f = Some lens /\
    table_ok (length f) lens = true /\
    forall lens', length lens' = length f ->
      Forall (fun l => 1 <= l <= max_len lens) lens' ->
      kraft lens' <= kraft_full ->
      pm_cost f lens <= pm_cost f lens'.
Proof.
  intro Hin.
  destruct (pm_lengths_complete f Hin) as [r [E [T [B1 [B20 R]]]]].
  destruct (pm_lengths_optimal f Hin) as [r' [E' O]].
  rewrite E in E'. inversion E'; subst r'.
  exists (r_lengths r). unfold pm_lengths. rewrite E. split; [reflexivity|]. split; [exact T|].
  intros lens' Hlen Hrange Hk. rewrite !pm_cost_dot. apply O; auto.
  assert (M : max_len (r_lengths r) <= N.of_nat (r_height r)).
  { apply max_len_le. eapply Forall_impl; [|exact R]. cbn beta. intros; lia. }
  eapply Forall_impl; [|exact Hrange]. cbn beta. intros; lia.
Qed.

(* the same for an arbitrary initial content of length[0..as-1] (the model's only abstraction of state) *)
Theorem assign_lengths_correct f len0 : pm_input_ok f -> length len0 = length f ->
  exists r, assign_lengths len0 f = Ok r /\
    table_ok (length f) (r_lengths r) = true /\
    forall lens', length lens' = length f ->
      Forall (fun l => 1 <= l <= max_len (r_lengths r)) lens' ->
      kraft lens' <= kraft_full ->
      pm_cost f (r_lengths r) <= pm_cost f lens'.
Proof.
  intros Hin Hl.
  destruct (assign_lengths_complete f len0 Hin Hl) as [r [E [T [B1 [B20 R]]]]].
  destruct (assign_lengths_optimal f len0 Hin Hl) as [r' [E' O]].
  rewrite E in E'. inversion E'; subst r'.
  exists r. split; [exact E|]. split; [exact T|].
  intros lens' Hlen Hrange Hk. rewrite !pm_cost_dot. apply O; auto.
  assert (M : max_len (r_lengths r) <= N.of_nat (r_height r)).
  { apply max_len_le. eapply Forall_impl; [|exact R]. cbn beta. intros; lia. }
  eapply Forall_impl; [|exact Hrange]. cbn beta. intros; lia.
Qed.

(* the stack of package_merge needs at most MAX_CODE_LENGTH + 1 entries *)
Theorem pm_stack_bound f c : pm_input_ok f -> length c = S MCL ->
  exists s0 s' c', pm_init (make_leaf_weight f) (length f) zero_tree = Ok s0 /\
    pm_widths (length f - 2) (make_leaf_weight f) (N.of_nat (length f)) (set_cnt s0 c) = Ok (set_cnt s' c') /\
    length c' = S MCL.
Proof.
  intros Hin Hc. pose proof (pm_input_bound f Hin) as HB. destruct Hin as [H2 [Hm [Hf _]]].
  apply (package_merge_small_stack f H2 Hm Hf HB ltac:(rewrite MCL_20; lia) c Hc).
Qed.

(* the hypothesis on the sum cannot be weakened to "sum < 2^32": 64-bit package weights then wrap *)
Theorem pm_sum_limit_needed :
  exists f, (2 <= length f)%nat /\ (length f <= N.to_nat MAX_ALPHA_SIZE)%nat /\
            Forall (fun x => x < 2 ^ 32) f /\ lsum f < 2 ^ 32 /\ pm_lengths f = None.
Proof.
  exists [0; 1; 2147483648; 0].
  split; [cbn; lia|]. split; [cbn; lia|]. split; [repeat constructor; cbn; lia|]. split; [cbn; lia|].
  vm_compute. reflexivity.
Qed.
