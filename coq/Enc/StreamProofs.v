(* Round trip of a whole stream: header, blocks (BlockProofs), end-of-stream
   trailer with the combined CRC, zero padding to a byte boundary; decoded by
   the strict-format decoder without lbzip2's two exceptions, hence also by the
   model of lbzip2's own decoder. *)
From Coq Require Import List NArith Arith Bool Lia ZifyNat.
From LBZ Require Rle.RleModel.
From LBZ Require Import Common.Bits Dec.Prog Dec.Sim Dec.Format Dec.Policies Dec.CrcProofs Dec.DecProofs
  Enc.EncModel Enc.LayoutA Enc.BlockProofs.
Import ListNotations.
Local Open Scope N_scope.

(* ---- 32-bit bounds ------------------------------------------------------------------------------ *)
Lemma lt_pow2_bits a n : a < 2 ^ n <-> (forall m, n <= m -> N.testbit a m = false).
Proof.
  split.
  - intros H m Hm. destruct (N.eq_dec a 0) as [->|Ha]; [apply N.bits_0|].
    apply N.bits_above_log2. apply N.log2_lt_pow2 in H; lia.
  - intros H. destruct (N.lt_ge_cases a (2 ^ n)) as [L|L]; [exact L|exfalso].
    assert (Ha : 0 < a). { pose proof (N.pow_nonzero 2 n). lia. }
    apply N.log2_le_pow2 in L; [|exact Ha].
    specialize (H (N.log2 a) L). rewrite N.bit_log2 in H by lia. discriminate.
Qed.

Lemma mask32_lt : mask32 < 2 ^ 32.
Proof. reflexivity. Qed.

Lemma combine_lt cc c : cc < 2 ^ 32 -> c < 2 ^ 32 -> combine_stream_crc cc c < 2 ^ 32.
Proof.
  intros Hcc Hc. apply lt_pow2_bits. intros m Hm.
  unfold combine_stream_crc, rotl1_32.
  rewrite N.lxor_spec, N.lor_spec, N.land_spec, N.shiftr_spec'.
  rewrite (proj1 (lt_pow2_bits mask32 32) mask32_lt m Hm).
  rewrite (proj1 (lt_pow2_bits cc 32) Hcc (m + 31)) by lia.
  rewrite (proj1 (lt_pow2_bits c 32) Hc m Hm).
  rewrite andb_false_r. reflexivity.
Qed.

Definition stream_crc (ws : list witness) (cc : N) : N :=
  fold_left (fun cc w => combine_stream_crc cc (w_crc w)) ws cc.

Lemma stream_crc_lt : forall ws cc, cc < 2 ^ 32 -> Forall (fun w => w_crc w < 2 ^ 32) ws -> stream_crc ws cc < 2 ^ 32.
Proof.
  induction ws as [|w r IH]; intros cc Hcc Hall; [exact Hcc|].
  inversion Hall as [|? ? Hw Hr]; subst. cbn [stream_crc fold_left]. apply IH; [|exact Hr].
  apply combine_lt; assumption.
Qed.

(* ---- short inputs ---------------------------------------------------------------------------------- *)
Lemma run_take_short : forall n acc bits, (length bits < n)%nat -> run (take_acc n acc) bits = Err EOF.
Proof.
  induction n as [|n IH]; intros acc bits H; [lia|].
  destruct bits as [|b r]; [reflexivity|]. cbn [take_acc run]. apply IH. cbn [length] in H. lia.
Qed.

Lemma next_stream_short tail : (length tail < 16)%nat -> next_stream (align_drop tail) = None.
Proof.
  intro H. unfold next_stream, take. rewrite run_take_short; [reflexivity|].
  unfold align_drop. rewrite skipn_length. lia.
Qed.

(* ---- the stream header ---------------------------------------------------------------------------- *)
Lemma header_bits level : 1 <= level <= 9 ->
  put 24 0x425A68 ++ put 8 (0x30 + level) = put 32 (0x425A6830 + level).
Proof.
  intro H.
  assert (C : level = 1 \/ level = 2 \/ level = 3 \/ level = 4 \/ level = 5 \/ level = 6 \/
              level = 7 \/ level = 8 \/ level = 9) by lia.
  destruct C as [->|[->|[->|[->|[->|[->|[->|[->| ->]]]]]]]]; vm_compute; reflexivity.
Qed.

(* ---- one step of the block loop --------------------------------------------------------------------- *)
Lemma magic_lt : block_magic < 2 ^ N.of_nat 48 /\ eos_magic < 2 ^ N.of_nat 48.
Proof. split; reflexivity. Qed.

Lemma decode_from_block_step pol f level ccrc crc body R rb out :
  crc < 2 ^ 32 ->
  run (read_block pol (S (length (put 48 block_magic ++ put 32 crc ++ body ++ R)))) (body ++ R) = Ok (rb, R) ->
  decode_block pol level rb = Ok out ->
  N.lxor (crc_bytes mask32 out) mask32 = crc ->
  decode_from pol (S f) level ccrc (put 48 block_magic ++ put 32 crc ++ body ++ R) =
  match decode_from pol f level (combine_stream_crc ccrc crc) R with
  | Err e => Err e
  | Ok (o, ps) =>
      Ok (out ++ o,
          48%nat :: map (fun p => (length (put 48 block_magic ++ put 32 crc ++ body ++ R) - length R + p)%nat) ps)
  end.
Proof.
  intros Hcrc Hread Hdec Hchk.
  set (bits := put 48 block_magic ++ put 32 crc ++ body ++ R) in *.
  cbn [decode_from]. unfold bits at 1.
  rewrite take_put by apply magic_lt. rewrite N.eqb_refl.
  rewrite take_put by exact Hcrc.
  rewrite Hread, Hdec, Hchk, N.eqb_refl. reflexivity.
Qed.

Lemma decode_from_eos_step pol f level ccrc tail :
  ccrc < 2 ^ 32 -> (length tail < 16)%nat ->
  decode_from pol (S f) level ccrc (put 48 eos_magic ++ put 32 ccrc ++ tail) = Ok ([], [48%nat]).
Proof.
  intros Hcc Ht. cbn [decode_from].
  rewrite take_put by apply magic_lt.
  replace (eos_magic =? block_magic) with false by reflexivity. rewrite N.eqb_refl.
  rewrite take_put by exact Hcc.
  rewrite N.eqb_refl. cbn [negb]. rewrite next_stream_short by exact Ht. reflexivity.
Qed.

(* ---- the block loop over a whole stream ---------------------------------------------------------------- *)
Definition block_rel (level : N) (w : witness) (x : list N) : Prop :=
  witness_ok (100000 * level) w = true /\ Forall (fun c => (c < 256)%N) x /\ x <> [] /\
  w_blk w = RleModel.rle1 x /\ w_crc w = N.lxor (crc_bytes mask32 x) mask32.

Lemma write_block_length w : (80 <= length (write_block w))%nat.
Proof. unfold write_block, put. rewrite !app_length, !bits_msb_length. lia. Qed.

Lemma blocks_length : forall ws, (80 * length ws <= length (flat_map write_block ws))%nat.
Proof.
  induction ws as [|w r IH]; [cbn; lia|]. cbn [flat_map length]. rewrite app_length.
  pose proof (write_block_length w). lia.
Qed.

Lemma decode_from_stream level : 1 <= level <= 9 ->
  forall ws xs, Forall2 (block_rel level) ws xs ->
  forall fuel ccrc tail, (length ws < fuel)%nat -> ccrc < 2 ^ 32 -> (length tail < 16)%nat ->
  exists ps,
    decode_from ref_noexc_policy fuel level ccrc
      (flat_map write_block ws ++ put 48 eos_magic ++ put 32 (stream_crc ws ccrc) ++ tail)
    = Ok (concat xs, ps).
Proof.
  intros Hlevel ws xs HF. induction HF as [|w x ws xs Hwx HF IH]; intros fuel ccrc tail Hfuel Hcc Htail.
  - destruct fuel as [|f]; [cbn [length] in Hfuel; lia|].
    cbn [flat_map app stream_crc fold_left concat].
    rewrite decode_from_eos_step by assumption. eexists. reflexivity.
  - destruct fuel as [|f]; [lia|]. cbn [length] in Hfuel.
    destruct Hwx as (Hok & Hx & Hxne & Hblk & Hcrc).
    assert (Hcrc32 : w_crc w < 2 ^ 32).
    { destruct (witness_ok_parts _ _ Hok) as (_ & _ & _ & _ & _ & _ & _ & _ & _ & _ & H). exact H. }
    cbn [flat_map stream_crc fold_left concat]. fold (stream_crc ws (combine_stream_crc ccrc (w_crc w))).
    rewrite <- app_assoc.
    set (R := flat_map write_block ws ++ put 48 eos_magic ++
              put 32 (stream_crc ws (combine_stream_crc ccrc (w_crc w))) ++ tail).
    unfold write_block. rewrite <- !app_assoc.
    destruct (IH f (combine_stream_crc ccrc (w_crc w)) tail ltac:(lia) (combine_lt _ _ Hcc Hcrc32) Htail) as [ps Hps].
    fold R in Hps.
    rewrite (decode_from_block_step ref_noexc_policy f level ccrc (w_crc w) (write_body w) R (raw_of w) x).
    + rewrite Hps. eexists. reflexivity.
    + exact Hcrc32.
    + apply body_roundtrip with (M := 100000 * level); [lia|exact Hok|].
      rewrite app_length. unfold put at 1. rewrite bits_msb_length. rewrite app_length. unfold put at 1.
      rewrite bits_msb_length. lia.
    + apply block_decodes with (M := 100000 * level); auto.
    + symmetry. exact Hcrc.
Qed.

(* ---- T3 ------------------------------------------------------------------------------------------------------ *)
Lemma pad_to_byte_length bits : exists n, length (pad_to_byte bits) = (8 * n)%nat.
Proof.
  unfold pad_to_byte. rewrite app_length, repeat_length.
  exists ((length bits + (8 - length bits mod 8) mod 8) / 8)%nat. lia.
Qed.

Theorem stream_roundtrip : forall level (ws : list witness) (xs : list (list N)),
  (1 <= level <= 9)%N ->
  Forall2 (fun w x => witness_ok (100000 * level) w = true /\ Forall (fun c => (c < 256)%N) x /\ x <> [] /\
                      w_blk w = RleModel.rle1 x /\ w_crc w = N.lxor (crc_bytes mask32 x) mask32) ws xs ->
  ref_noexc_decode (bytes_of_bits (pad_to_byte (write_stream level ws))) = Ok (concat xs).
Proof.
  intros level ws xs Hlevel HF.
  unfold ref_noexc_decode, decode_file, decode_file_info.
  destruct (pad_to_byte_length (write_stream level ws)) as [n Hn].
  rewrite (bits_bytes_bits n _ Hn).
  unfold pad_to_byte. set (k := ((8 - length (write_stream level ws) mod 8) mod 8)%nat).
  assert (Hk : (k < 16)%nat) by (unfold k; lia).
  unfold write_stream. fold (stream_crc ws 0).
  rewrite (app_assoc (put 24 _) (put 8 _)). rewrite header_bits by exact Hlevel.
  rewrite <- !app_assoc.
  unfold decode_bits_info.
  rewrite take_put by (change (2 ^ N.of_nat 32) with 4294967296; lia).
  replace ((0x425A6831 <=? 0x425A6830 + level) && (0x425A6830 + level <=? 0x425A6839)) with true
    by (symmetry; apply andb_true_iff; split; apply N.leb_le; lia).
  replace (0x425A6830 + level - 0x425A6830) with level by lia.
  set (tail := repeat false k).
  destruct (decode_from_stream level Hlevel ws xs HF
              (S (length (flat_map write_block ws ++ put 48 eos_magic ++ put 32 (stream_crc ws 0) ++ tail)))
              0 tail) as [ps Hps].
  - rewrite app_length. pose proof (blocks_length ws). lia.
  - reflexivity.
  - unfold tail. rewrite repeat_length. exact Hk.
  - rewrite Hps. reflexivity.
Qed.

Corollary stream_roundtrip_lbz : forall level (ws : list witness) (xs : list (list N)),
  (1 <= level <= 9)%N ->
  Forall2 (fun w x => witness_ok (100000 * level) w = true /\ Forall (fun c => (c < 256)%N) x /\ x <> [] /\
                      w_blk w = RleModel.rle1 x /\ w_crc w = N.lxor (crc_bytes mask32 x) mask32) ws xs ->
  lbz_decode (bytes_of_bits (pad_to_byte (write_stream level ws))) = Ok (concat xs).
Proof. intros level ws xs Hlevel HF. apply lbz_complete. apply stream_roundtrip; assumption. Qed.

Print Assumptions stream_roundtrip.
Print Assumptions stream_roundtrip_lbz.
