(* Executable model of encode() of src/encode.c (l.427-545) from the point where the block has been collected
   (initial run-length encoding done, block[0..nblock-1] and the in-use flags s->cmap[] final):

     EOB = make_map_e() + 1; asserts on EOB
     bwt_idx = divbwt()                       NOT computed: the primary index is the parameter [idx] (witness)
     nmtf = do_mtf()                          EncModel.mtf_zrle on the last column of the sorted rotations
     cost = 48 + 32 + 1 + 24 + 3 + 15         uint32_t
     cost += generate_prefix_code(s)          Enc/GenModel.gen_prefix_code (exact model, all asserts / bounds)
     selector MTF with the whole MTF state packed into one 32-bit integer (p = 0x543210, the xor / add / and
       trick, __builtin_ctz), cost += j + 1 per selector, asserts inside the loop
     padding: j = (8 - (cost & 7)) & 7; cost += j; tree_pad = j >> 1; num_selectors += j & 1, one more
       selectorMTF entry 0; assert(cost % 8 == 0)
     character map cost: 16 bits per non-empty 16-byte range + 16; assert(cost % 8 == 0); cost >>= 3
     out_expect_len = cost

   The result is the complete WITNESS of EncModel.write_block (tables, selectors, surplus selector, tree_pad) -
   nothing but the BWT primary index is left to choose - together with the values the real encoder state can be
   compared with: selectorMTF[0..num_selectors-1], num_selectors, the cost in bits and out_expect_len.

   uint32_t arithmetic is written with GenModel.u32 / sub32 (exact C semantics); uint8_t j with [u8].
   Every assert() of encode() is an error value EAssert; a selectorMTF[] store beyond the declared size is EOob.
   s->cmap[] (in-use flags set by collect()) is modelled as in EncModel: the sorted list of byte values that occur
   in the block ([used_bytes] of the BWT column - the same set of values as the block's).
   No proofs in this file (Enc/EncodeProofs.v). *)
From Coq Require Import List NArith Arith Bool.
From LBZ Require Import Common.Bits Gen.Consts Enc.EncModel Enc.PmModel Enc.GenModel.
Import ListNotations.
Local Open Scope N_scope.

Inductive enc_err :=
| EGen (e : gen_err)      (* an error value of the model of generate_prefix_code() *)
| EAssert (id : N)        (* 1: *sp < MAX_TREES (first selector), 2: tmap_old2new[*sp] == 0, 3: c < num_trees,
                             4: sp - selector < num_selectors, 5: cost % 8 == 0 after the padding,
                             6: cost % 8 == 0 after the character map, 7: nblock > 0, 8: 2 <= EOB < 258 *)
| EOob (id : N).          (* 1: selectorMTF[] *)

Inductive eres (A : Type) := EOk (a : A) | EErr (e : enc_err).
Arguments EOk {A} a.
Arguments EErr {A} e.

(* ---- the packed selector MTF ------------------------------------------------------------------------------ *)
Definition SEL_MTF_INIT : N := 5517840.            (* 0x543210 *)

(* __builtin_ctz on a 32-bit value (32 for 0, where the C builtin is undefined) *)
Fixpoint ctz (fuel : nat) (h : N) : N :=
  match fuel with
  | O => 0
  | S f => if N.testbit h 0 then 0 else 1 + ctz f (N.shiftr h 1)
  end.

Definition u8 (x : N) : N := N.land x 255.

(* v = p ^ (0x111111 * c); z = (v + 0xEEEEEF) & 0x888888; l = z ^ (z - 1); h = ~l;
   p = (p | l) & ((p << 4) | h | c); j = (__builtin_ctz(h) >> 2) - 1;          -> (p, j) *)
Definition sel_mtf_step (p c : N) : N * N :=
  let v := N.lxor p (u32 (1118481 * c)) in
  let z := N.land (u32 (v + 15658735)) 8947848 in
  let l := N.lxor z (sub32 z 1) in
  let h := N.lxor l MAX32 in
  (N.land (N.lor p l) (N.lor (N.lor (u32 (N.shiftl p 4)) h) c),
   u8 (N.shiftr (ctz 32 h) 2 + 255)).

(* while ((c = *sp) != MAX_TREES) { c = tmap_old2new[c]; assert(c < num_trees); ...; *smp++ = j; cost += j + 1; }
   [sels] = tmap_old2new[selector[i]], i < num_selectors.  Result: selectorMTF[0..], cost *)
Fixpoint sel_mtf_loop (nt : N) (sels : list N) (p cost : N) : eres (list N * N) :=
  match sels with
  | [] => EOk ([], cost)
  | c :: r =>
    if negb (c <? nt) then EErr (EAssert 3)
    else
      let '(p', j) := sel_mtf_step p c in
      match sel_mtf_loop nt r p' (u32 (cost + j + 1)) with
      | EOk (js, cost') => EOk (j :: js, cost')
      | EErr e => EErr e
      end
  end.

(* ---- the character map cost --------------------------------------------------------------------------------- *)
(* for (i = 0; i < 16; i++) { pk = 0; for (j = 0; j < 16; j++) pk |= s->cmap[16 * i + j]; cost += pk << 4; } *)
Definition range_used (used : list N) (i : nat) : bool :=
  existsb (fun b : bool => b) (map (fun j => existsb (N.eqb (16 * N.of_nat i + N.of_nat j)) used) (seq 0 16)).

Definition cmap_cost (used : list N) (cost : N) : N :=
  fold_left (fun c i => u32 (c + N.shiftl (if range_used used i then 1 else 0) 4)) (seq 0 16) cost.

(* ---- encode() ------------------------------------------------------------------------------------------------- *)
Definition HEADER_COST : N := 48 + 32 + 1 + 24 + 0 + 3 + 15 + 0 + 0 + 0.

Record enc_result := mkenc {
  e_wit : witness;           (* what transmit() needs: block, index, tables, selectors, surplus selector, tree_pad, crc *)
  e_gen : gen_result;        (* the state generate_prefix_code() left *)
  e_selmtf : list N;         (* selectorMTF[0..num_selectors-1] *)
  e_nsel : N;                (* s->u.s.num_selectors after the padding *)
  e_cost_bits : N;           (* cost before cost >>= 3 *)
  e_expect_len : N           (* s->out_expect_len = the return value of encode() *)
}.

(* the MTF / zero-run symbols with EOB: the vector generate_prefix_code() works on *)
Definition enc_syms (blk : list N) : list N :=
  let col := bwt_last blk in mtf_zrle col ++ [N.of_nat (length (used_bytes col)) + 1].

Definition encode_block_full (cf : N) (blk : list N) (idx crc : N) : eres enc_result :=
  let used := used_bytes (bwt_last blk) in
  let EOB := N.of_nat (length used) + 1 in
  if (length blk =? 0)%nat then EErr (EAssert 7)
  else if negb ((2 <=? EOB) && (EOB <? 258)) then EErr (EAssert 8)
  else
    let mtfv := enc_syms blk in
    match gen_prefix_code cf mtfv with
    | GErr e => EErr (EGen e)
    | GOk g =>
      let cost0 := u32 (HEADER_COST + g_cost g) in
      let ns := num_groups (N.of_nat (length mtfv)) in                (* s->u.s.num_selectors *)
      if negb (hd MAX_TREES (g_sels_old g) <? MAX_TREES) then EErr (EAssert 1)
      else if negb (hd 1 (g_sels g) =? 0) then EErr (EAssert 2)
      else if ns <? N.of_nat (length (g_sels g)) then EErr (EAssert 4)
      else
        match sel_mtf_loop (g_num_trees g) (g_sels g) SEL_MTF_INIT cost0 with
        | EErr e => EErr e
        | EOk (js, cost1) =>
          let j := u8 (N.land cost1 7) in
          let j := u8 (N.land (8 - j) 7) in
          let cost2 := u32 (cost1 + j) in
          let pad := N.shiftr j 1 in
          let j := u8 (N.land j 1) in
          let nsel := u32 (ns + j) in
          let selmtf := js ++ (if j =? 0 then [] else [0]) in
          if enc_selectorMTF_size <? N.of_nat (length selmtf) then EErr (EOob 1)
          else if negb (N.land cost2 7 =? 0) then EErr (EAssert 5)
          else
            let cost3 := u32 (cmap_cost used cost2 + 16) in
            if negb (N.land cost3 7 =? 0) then EErr (EAssert 6)
            else
              EOk (mkenc {| w_blk := blk; w_idx := idx; w_tables := g_tables g; w_sels := g_sels g;
                            w_extra_sel := negb (j =? 0); w_pad := pad; w_crc := crc |}
                         g selmtf nsel cost3 (N.shiftr cost3 3))
        end
    end.

(* the witness alone *)
Definition encode_block (cf : N) (blk : list N) (idx crc : N) : eres witness :=
  match encode_block_full cf blk idx crc with EOk r => EOk (e_wit r) | EErr e => EErr e end.

(* the bytes of the block as transmit() writes them (empty on an error value) *)
Definition encode_block_bits (cf : N) (blk : list N) (idx crc : N) : list bool :=
  match encode_block cf blk idx crc with EOk w => write_block w | EErr _ => [] end.

(* ---- the values of `a` that transmit() goes through while sending one table -------------------------------- *)
(* a = len[0] (+/- tree_pad for the first table); SEND(5, a); then one step per delta code *)
Definition table_start (pad : N) (lens : list N) : N :=
  let l0 := hd 0 lens in if l0 <? 4 then l0 + pad else l0 - pad.

Fixpoint delta_walk (cur : N) (lens : list N) : list N :=
  match lens with
  | [] => []
  | c :: r => (if cur <? c then map (fun i => cur + 1 + N.of_nat i) (seq 0 (N.to_nat (c - cur)))
               else map (fun i => cur - 1 - N.of_nat i) (seq 0 (N.to_nat (cur - c)))) ++ delta_walk c r
  end.

Definition table_walk (pad : N) (lens : list N) : list N :=
  table_start pad lens :: delta_walk (table_start pad lens) lens.
