(* The decoder's run-length expansion [unrle] (Dec/Format.v) inverts the
   encoder-side specification [rle1] (Rle/RleModel.v) on byte strings. *)
From Coq Require Import List NArith Arith Bool Lia.
From LBZ Require Import Common.Bits Dec.Prog Dec.Format Gen.Consts Rle.RleModel.
Import ListNotations.
Local Open Scope N_scope.

(* ---------------------------------------------------------------------- *)
(* side conditions on the regenerated constant, discharged by computation;   *)
(* everything below uses MAX_RUN_LENGTH only through these two facts         *)
(* ---------------------------------------------------------------------- *)
Lemma inv_max_run_gt4 : 4 < MAX_RUN_LENGTH.
Proof. reflexivity. Qed.
Lemma inv_max_run_count_is_byte : MAX_RUN_LENGTH - 4 < 256.
Proof. reflexivity. Qed.

Local Opaque MAX_RUN_LENGTH.

(* ---------------------------------------------------------------------- *)
(* a forward (head-recursive) characterisation of [runs]                     *)
(* ---------------------------------------------------------------------- *)

(* the runs of [repeat c n ++ x] when (c, n) is the run being built *)
Fixpoint go (c n : N) (x : list N) : list run :=
  match x with
  | [] => [(c, n)]
  | d :: x' => if (d =? c) && (n <? MAX_RUN_LENGTH) then go c (n + 1) x'
               else (c, n) :: go d 1 x'
  end.

Lemma fold_push_go : forall x c n t,
  rev (fold_left push_byte x ((c, n) :: t)) = rev t ++ go c n x.
Proof.
  induction x as [|d x IH]; intros c n t.
  - reflexivity.
  - cbn [fold_left go push_byte].
    destruct ((d =? c) && (n <? MAX_RUN_LENGTH)).
    + apply IH.
    + rewrite IH. cbn [rev]. rewrite <- app_assoc. reflexivity.
Qed.

Lemma runs_nil : runs [] = [].
Proof. reflexivity. Qed.

Lemma runs_cons d x : runs (d :: x) = go d 1 x.
Proof.
  unfold runs, runs_rev. cbn [fold_left push_byte]. rewrite fold_push_go. reflexivity.
Qed.

(* ---------------------------------------------------------------------- *)
(* well-formed run lists                                                     *)
(* ---------------------------------------------------------------------- *)

Definition hd_ne (p : N) (rs : list run) : Prop :=
  match rs with [] => True | (d, _) :: _ => d <> p end.

(* every run has a byte value and a length in 1..MAX_RUN_LENGTH; a run shorter
   than four is followed by a run of a different byte *)
Fixpoint wf (rs : list run) : Prop :=
  match rs with
  | [] => True
  | (c, n) :: t => c < 256 /\ 1 <= n /\ n <= MAX_RUN_LENGTH /\ (4 <= n \/ hd_ne c t) /\ wf t
  end.

Definition expand (r : run) : list N := let (c, n) := r in repeat c (N.to_nat n).

Lemma go_hd : forall x c n, exists t, go c n x = (c, n) :: t \/
  exists n', go c n x = (c, n') :: t.
Proof.
  induction x as [|d x IH]; intros c n.
  - exists []. left. reflexivity.
  - cbn [go]. destruct ((d =? c) && (n <? MAX_RUN_LENGTH)).
    + destruct (IH c (n + 1)) as (t & [E | (n' & E)]); exists t; right; eauto.
    + exists (go d 1 x). left. reflexivity.
Qed.

Lemma go_wf : forall x c n,
  Forall (fun d => d < 256) x -> c < 256 -> 1 <= n -> n <= MAX_RUN_LENGTH ->
  wf (go c n x).
Proof.
  pose proof inv_max_run_gt4 as HM.
  induction x as [|d x IH]; intros c n HF Hc Hn1 Hn2.
  - cbn [go wf hd_ne]. repeat split; auto.
  - inversion HF as [|? ? Hd HFx]; subst. cbn [go].
    destruct (N.eqb_spec d c) as [E | NE]; destruct (N.ltb_spec n MAX_RUN_LENGTH) as [L | L];
      cbn [andb].
    + apply IH; auto; lia.
    + cbn [wf]. repeat split; auto; [left; lia | apply IH; auto; lia].
    + cbn [wf]. repeat split; auto; [| apply IH; auto; lia].
      right. destruct (go_hd x d 1) as (t & [E | (n' & E)]); rewrite E; exact NE.
    + cbn [wf]. repeat split; auto; [left; lia | apply IH; auto; lia].
Qed.

Lemma repeat_snoc_cons {A} (c : A) k l : repeat c k ++ c :: l = c :: repeat c k ++ l.
Proof. induction k as [|k IH]; [reflexivity|]. cbn [repeat app]. rewrite IH. reflexivity. Qed.

Lemma go_expand : forall x c n,
  flat_map expand (go c n x) = repeat c (N.to_nat n) ++ x.
Proof.
  induction x as [|d x IH]; intros c n.
  - cbn [go flat_map expand]. reflexivity.
  - cbn [go]. destruct (N.eqb_spec d c) as [E | NE]; cbn [andb].
    + destruct (n <? MAX_RUN_LENGTH).
      * rewrite IH. subst d. rewrite N.add_1_r, N2Nat.inj_succ. cbn [repeat].
        rewrite repeat_snoc_cons. reflexivity.
      * cbn [flat_map expand]. rewrite IH. reflexivity.
    + cbn [flat_map expand]. rewrite IH. reflexivity.
Qed.

(* ---------------------------------------------------------------------- *)
(* the decoder on the output of a well-formed run list                       *)
(* ---------------------------------------------------------------------- *)

Lemma unrle_lit s prev cnt c r : cnt <> 4 ->
  unrle s prev cnt (c :: r) =
  rbind (unrle s c (if c =? prev then cnt + 1 else 1) r) (fun o => Ok (c :: o)).
Proof.
  intro H. cbn [unrle]. apply N.eqb_neq in H. rewrite H. reflexivity.
Qed.

Lemma unrle_cnt s prev c r :
  unrle s prev 4 (c :: r) =
  rbind (unrle s 256 0 r) (fun o => Ok (repeat prev (N.to_nat c) ++ o)).
Proof. reflexivity. Qed.

Lemma unrle_first s prev cnt c r : cnt <> 4 -> c <> prev ->
  unrle s prev cnt (c :: r) = rbind (unrle s c 1 r) (fun o => Ok (c :: o)).
Proof.
  intros H NE. rewrite unrle_lit by exact H. apply N.eqb_neq in NE. rewrite NE. reflexivity.
Qed.

Lemma unrle_same s cnt c r : cnt <> 4 ->
  unrle s c cnt (c :: r) = rbind (unrle s c (cnt + 1) r) (fun o => Ok (c :: o)).
Proof.
  intros H. rewrite unrle_lit by exact H. rewrite N.eqb_refl. reflexivity.
Qed.

Lemma emit_run_eq c n :
  emit_run (c, n) = if n <? 4 then repeat c (N.to_nat n) else [c; c; c; c; n - 4].
Proof. reflexivity. Qed.

Lemma unrle_runs : forall rs prev cnt,
  wf rs -> cnt < 4 -> hd_ne prev rs ->
  unrle true prev cnt (flat_map emit_run rs) = Ok (flat_map expand rs).
Proof.
  induction rs as [|[c n] t IH]; intros prev cnt W Hc HN.
  - cbn [flat_map unrle]. replace (cnt =? 4) with false by (symmetry; apply N.eqb_neq; lia).
    reflexivity.
  - cbn [wf] in W. destruct W as (Hb & Hn1 & Hn2 & Hnext & Wt). cbn [hd_ne] in HN.
    cbn [flat_map expand]. rewrite emit_run_eq.
    destruct (N.ltb_spec n 4) as [L | L].
    + (* literal run of 1..3 bytes; the next run has a different byte *)
      destruct Hnext as [? | Hnext]; [lia|].
      assert (n = 1 \/ n = 2 \/ n = 3) as [E | [E | E]] by lia; subst n.
      * change (N.to_nat 1) with 1%nat. cbn [repeat app].
        rewrite unrle_first by (auto; lia).
        rewrite (IH c 1 Wt) by (auto; lia). reflexivity.
      * change (N.to_nat 2) with 2%nat. cbn [repeat app].
        rewrite unrle_first by (auto; lia).
        rewrite unrle_same by lia. change (1 + 1) with 2.
        rewrite (IH c 2 Wt) by (auto; lia). reflexivity.
      * change (N.to_nat 3) with 3%nat. cbn [repeat app].
        rewrite unrle_first by (auto; lia).
        rewrite unrle_same by lia. change (1 + 1) with 2.
        rewrite unrle_same by lia. change (2 + 1) with 3.
        rewrite (IH c 3 Wt) by (auto; lia). reflexivity.
    + (* four copies and a count; the decoder restarts with no previous byte *)
      cbn [app].
      rewrite unrle_first by (auto; lia).
      rewrite unrle_same by lia. change (1 + 1) with 2.
      rewrite unrle_same by lia. change (2 + 1) with 3.
      rewrite unrle_same by lia. change (3 + 1) with 4.
      rewrite unrle_cnt.
      assert (HN' : hd_ne 256 t).
      { destruct t as [|[d m] t']; cbn [hd_ne]; [exact I|].
        cbn [wf] in Wt. destruct Wt as (Hd & _). lia. }
      rewrite (IH 256 0 Wt) by (auto; lia). cbn [rbind].
      replace (N.to_nat n) with (4 + N.to_nat (n - 4))%nat by lia.
      cbn [repeat Nat.add app]. reflexivity.
Qed.

(* ---------------------------------------------------------------------- *)
(* main results                                                              *)
(* ---------------------------------------------------------------------- *)

Theorem unrle_rle1 : forall (x : list N),
  Forall (fun c => (c < 256)%N) x ->
  unrle true 256 0 (rle1 x) = Ok x.
Proof.
  intros x HF. unfold rle1. destruct x as [|d x].
  - reflexivity.
  - inversion HF as [|? ? Hd HFx]; subst. rewrite runs_cons.
    pose proof inv_max_run_gt4 as HM.
    assert (W : wf (go d 1 x)) by (apply go_wf; auto; lia).
    assert (HN : hd_ne 256 (go d 1 x)).
    { destruct (go_hd x d 1) as (t & [E | (n' & E)]); rewrite E; cbn [hd_ne]; lia. }
    rewrite (unrle_runs _ 256 0 W) by (auto; lia).
    rewrite go_expand. reflexivity.
Qed.

Lemma emit_run_bytes c n : c < 256 -> n <= MAX_RUN_LENGTH ->
  Forall (fun c => c < 256) (emit_run (c, n)).
Proof.
  intros Hc Hn. pose proof inv_max_run_count_is_byte as HB. unfold emit_run.
  destruct (n <? 4).
  - apply Forall_forall. intros y Hy. apply repeat_spec in Hy. subst. exact Hc.
  - repeat constructor; try exact Hc. lia.
Qed.

Lemma wf_out_bytes : forall rs, wf rs -> Forall (fun c => c < 256) (flat_map emit_run rs).
Proof.
  induction rs as [|[c n] t IH]; intro W.
  - constructor.
  - cbn [wf] in W. destruct W as (Hb & Hn1 & Hn2 & _ & Wt). cbn [flat_map].
    apply Forall_app. split; [apply emit_run_bytes; auto | apply IH; exact Wt].
Qed.

Lemma rle1_bytes : forall x,
  Forall (fun c => (c < 256)%N) x -> Forall (fun c => (c < 256)%N) (rle1 x).
Proof.
  intros x HF. unfold rle1. destruct x as [|d x].
  - constructor.
  - inversion HF as [|? ? Hd HFx]; subst. rewrite runs_cons.
    pose proof inv_max_run_gt4 as HM.
    apply wf_out_bytes. apply go_wf; auto; lia.
Qed.

Lemma emit_run_nonempty c n : 1 <= n -> emit_run (c, n) <> [].
Proof.
  intro Hn. unfold emit_run. destruct (n <? 4); [|discriminate].
  destruct (N.to_nat n) as [|k] eqn:E; [lia|]. discriminate.
Qed.

Lemma go_out_nonempty : forall x c n, 1 <= n -> flat_map emit_run (go c n x) <> [].
Proof.
  induction x as [|d x IH]; intros c n Hn.
  - cbn [go flat_map]. rewrite app_nil_r. apply emit_run_nonempty. exact Hn.
  - cbn [go]. destruct ((d =? c) && (n <? MAX_RUN_LENGTH)).
    + apply IH. lia.
    + cbn [flat_map]. intro E. apply app_eq_nil in E. destruct E as (E & _).
      revert E. apply emit_run_nonempty. exact Hn.
Qed.

Lemma rle1_nonempty : forall x, x <> [] -> rle1 x <> [].
Proof.
  intros x Hx. destruct x as [|d x]; [congruence|].
  unfold rle1. rewrite runs_cons. apply go_out_nonempty. lia.
Qed.

(* sanity checks: runs of 3, 4, 5, 259, 260, 518, and a count byte equal to the
   byte of the run that follows it *)
Goal rle1 [7;7;7;9] = [7;7;7;9]. Proof. vm_compute. reflexivity. Qed.
Goal rle1 [7;7;7;7;9] = [7;7;7;7;0;9]. Proof. vm_compute. reflexivity. Qed.
Goal rle1 [1;1;1;1;1] = [1;1;1;1;1]. Proof. vm_compute. reflexivity. Qed.
Goal rle1 (repeat 5 259) = [5;5;5;5;255]. Proof. vm_compute. reflexivity. Qed.
Goal rle1 (repeat 5 260) = [5;5;5;5;255;5]. Proof. vm_compute. reflexivity. Qed.
Goal rle1 (repeat 5 518) = [5;5;5;5;255;5;5;5;5;255]. Proof. vm_compute. reflexivity. Qed.
Goal unrle true 256 0 (rle1 (repeat 5 518 ++ repeat 255 7 ++ [3;3;3;3;3;3;3;3;3;3;3]))
   = Ok (repeat 5 518 ++ repeat 255 7 ++ [3;3;3;3;3;3;3;3;3;3;3]).
Proof. vm_compute. reflexivity. Qed.

Print Assumptions unrle_rle1.
Print Assumptions rle1_bytes.
Print Assumptions rle1_nonempty.
