(* Totality of the exact model of make_code_lengths() (Enc/GenModel.v), part 3: the theorem.
   On every input generate_prefix_code() can hand to it (MIN_ALPHA_SIZE <= as <= MAX_ALPHA_SIZE frequencies summing
   to at most MCL_SUM_MAX = fib 33 - 259 = 3524319; lbzip2: at most 900050) the model returns no error value:
   no failing assert() of make_code_lengths / build_tree / compute_depths (as range, r == 2, s == 0, avail > used,
   avail == 0, i < as, c == 1 << (MAX_HUFF_CODE_LENGTH + 1), i == as), no access outside weight[0..as-1],
   V[0..as-1], count[0..MAX_HUFF_CODE_LENGTH+1], length[0..as-1], no unsigned underflow of r / s.
   Pieces: Enc/GenMclBt.v (build_tree, Fibonacci depth bound), Enc/GenMclCd.v (compute_depths, length assignment),
   here the facts about the sorted labelled weights.  Enc/GenMclCompose.v turns it into the unconditional
   statement about gen_prefix_code. *)
From Coq Require Import List NArith Arith Bool Lia Sorting.Sorted Sorting.Permutation.
From LBZ Require Import Gen.Consts Enc.PmModel Enc.PmBasics Enc.PmReal Enc.PmRefine Enc.GenModel Enc.GenInit
  Enc.GenProofs Enc.GenMcl Enc.GenMclDefs Enc.GenMclBt Enc.GenMclCd Enc.GenMclCompose.
Import ListNotations.
Local Open Scope N_scope.

(* ---- the labelled weights ------------------------------------------------------------------------------------------ *)
Definition is_leafw (as_ : nat) (w : N) : Prop :=
  exists f i, (i < as_)%nat /\ w = enc (N.max f 1) (65536 + (MAX_ALPHA_SIZE - N.of_nat i)).

Lemma mcl_label_from_length freq : forall i0, length (mcl_label_from i0 freq) = length freq.
Proof. induction freq as [|f r IH]; intro i0; cbn [mcl_label_from length]; [reflexivity|]. rewrite IH. reflexivity. Qed.

Lemma mcl_label_from_leaf as_ freq : (as_ <= 258)%nat -> forall i0, (N.to_nat i0 + length freq <= as_)%nat ->
  Forall (is_leafw as_) (mcl_label_from i0 freq).
Proof.
  intro Has. induction freq as [|f r IH]; intros i0 H; cbn [mcl_label_from]; [constructor|].
  cbn [length] in H. constructor.
  - exists f, (N.to_nat i0). split; [lia|].
    change (N.lor (N.lor (N.shiftl (N.max f 1) 32) 65536) (MAX_ALPHA_SIZE - i0)) with (leaf_label (N.max f 1) i0).
    rewrite leaf_label_enc; [rewrite N2Nat.id; reflexivity|change MAX_ALPHA_SIZE with 258; lia|reflexivity].
  - apply IH. lia.
Qed.

Lemma mcl_label_from_sum freq : forall i0, (N.to_nat i0 + length freq <= 258)%nat ->
  lsum (map fq (mcl_label_from i0 freq)) = lsum (map (fun f => N.max f 1) freq).
Proof.
  induction freq as [|f r IH]; intros i0 H; cbn [mcl_label_from map lsum]; [reflexivity|].
  cbn [length] in H. rewrite IH by lia. f_equal.
  change (N.lor (N.lor (N.shiftl (N.max f 1) 32) 65536) (MAX_ALPHA_SIZE - i0)) with (leaf_label (N.max f 1) i0).
  rewrite leaf_label_enc; [|change MAX_ALPHA_SIZE with 258; lia|reflexivity].
  apply fq_enc. change MAX_ALPHA_SIZE with 258. unfold U32. lia.
Qed.

Lemma lsum_max1 l : lsum (map (fun f => N.max f 1) l) <= lsum l + N.of_nat (length l).
Proof. induction l as [|x l IH]; cbn [map lsum length]; lia. Qed.

Lemma lsum_perm l l' : Permutation l l' -> lsum l = lsum l'.
Proof. induction 1; cbn [lsum]; lia. Qed.

Lemma is_leafw_facts as_ w : (as_ <= 258)%nat -> is_leafw as_ w ->
  hg w = 0 /\ 1 <= fq w /\ N.land w 65535 <= MAX_ALPHA_SIZE /\ (N.to_nat (MAX_ALPHA_SIZE - N.land w 65535) < as_)%nat.
Proof.
  intros Has [f [i [Hi ->]]]. change MAX_ALPHA_SIZE with 258.
  assert (HL : 65536 + (258 - N.of_nat i) < U32) by (unfold U32; lia).
  split; [unfold hg; rewrite lo_enc by exact HL; apply N.div_small; lia|].
  split; [rewrite fq_enc by exact HL; lia|].
  assert (E : N.land (enc (N.max f 1) (65536 + (258 - N.of_nat i))) 65535 = 258 - N.of_nat i).
  { rewrite land_65535. unfold enc.
    replace (N.max f 1 * U32 + (65536 + (258 - N.of_nat i)))
      with ((258 - N.of_nat i) + (N.max f 1 * 2 ^ 16 + 1) * 2 ^ 16) by (unfold U32; lia).
    rewrite N.mod_add by lia. apply N.mod_small. lia. }
  rewrite E. split; lia.
Qed.

Lemma sumr_nth (g : N -> N) l : forall a, sumr (fun i => g (nth (i - a) l 0)) a (length l) = lsum (map g l).
Proof.
  induction l as [|x l IH]; intro a; cbn [length sumr map lsum]; [reflexivity|].
  rewrite Nat.sub_diag. cbn [nth]. f_equal. rewrite <- (IH (S a)). apply sumr_ext.
  intros i Hi. replace (i - a)%nat with (S (i - S a)) by lia. reflexivity.
Qed.

Lemma sumr_gq W : sumr (gq W) 0 (length W) = lsum (map fq W).
Proof.
  rewrite <- (sumr_nth fq W 0). apply sumr_ext. intros i Hi. unfold gq, wn. rewrite Nat.sub_0_r. reflexivity.
Qed.

(* ---- THE THEOREM ------------------------------------------------------------------------------------------------------ *)
Theorem make_code_lengths_total :
  forall old f, mcl_input_ok old f -> exists l, make_code_lengths old f = GOk l /\ length l = length old.
Proof.
  intros old f [H1 [H2 H3]].
  assert (E : exists l, make_code_lengths old f = GOk l).
  { unfold make_code_lengths. set (as_ := length f) in *.
    replace ((N.of_nat as_ <? MIN_ALPHA_SIZE) || (MAX_ALPHA_SIZE <? N.of_nat as_)) with false.
    2:{ symmetry. apply orb_false_iff. change MIN_ALPHA_SIZE with 3. change MAX_ALPHA_SIZE with 258.
        split; apply N.ltb_ge; lia. }
    set (W0 := sort_desc (mcl_label_from 0 f)).
    pose proof (sort_desc_perm (mcl_label_from 0 f)) as Perm. fold W0 in Perm.
    assert (L0 : length W0 = as_).
    { rewrite (Permutation_length Perm). apply mcl_label_from_length. }
    assert (Leafs : Forall (is_leafw as_) W0).
    { eapply Permutation_Forall; [apply Permutation_sym; exact Perm|].
      apply mcl_label_from_leaf; [lia|]. change (N.to_nat 0) with 0%nat. fold as_. lia. }
    assert (Lf : forall i, (i < as_)%nat -> is_leafw as_ (wn W0 i)).
    { intros i Hi. rewrite Forall_forall in Leafs. apply Leafs. unfold wn. apply nth_In. lia. }
    set (T := lsum (map (fun x => N.max x 1) f)).
    assert (HT : T < fib 33).
    { pose proof (lsum_max1 f). fold as_ in H. unfold T, MCL_SUM_MAX in *. rewrite fib_33. lia. }
    assert (HS : sumr (gq W0) 0 as_ = T).
    { rewrite <- L0, sumr_gq. rewrite (lsum_perm _ _ (Permutation_map fq Perm)).
      apply mcl_label_from_sum. change (N.to_nat 0) with 0%nat. fold as_. lia. }
    destruct (build_tree_ok as_ W0 T ltac:(lia) L0) as [W [V [EB P]]].
    - intros i Hi. destruct (is_leafw_facts as_ _ ltac:(lia) (Lf i Hi)) as [F1 [F2 _]]. split; assumption.
    - intros i j Hij Hj. apply fq_mono. unfold wn. apply ssorted_nth; [apply sort_desc_sorted|exact Hij|lia].
    - exact HT.
    - exact HS.
    - rewrite EB. cbn [gbind]. cbn [Nat.eqb negb].
      destruct (cd_gl_total as_ W0 W V old ltac:(lia) P) as [count [len [E1 E2]]].
      + intros i Hi. destruct (is_leafw_facts as_ _ ltac:(lia) (Lf i Hi)) as [_ [_ [F3 F4]]]. split; [exact F3|lia].
      + rewrite E1. cbn [gbind]. rewrite E2. cbn [gbind]. rewrite N.eqb_refl, Nat.eqb_refl. cbn [negb].
        exists len. reflexivity. }
  destruct E as [l E]. exists l. split; [exact E|]. exact (make_code_lengths_length old f l E).
Qed.

(* the form with lbzip2's bound: sum of the frequencies = number of (padded) symbols <= 900050 *)
Corollary make_code_lengths_total_lbzip2 :
  forall old f, length old = length f -> (3 <= length f <= 258)%nat -> lsum f <= GEN_MAX_NM ->
    exists l, make_code_lengths old f = GOk l /\ length l = length old.
Proof.
  intros old f H1 H2 H3. apply make_code_lengths_total. split; [lia|]. split; [exact H2|].
  assert (GEN_MAX_NM <= MCL_SUM_MAX) by (vm_compute; discriminate). lia.
Qed.

(* generate_prefix_code(): no error value at all, for every alphabet size as >= MIN_ALPHA_SIZE *)
Theorem gen_prefix_code_total :
  forall cf mtfv, 1 <= cf -> gen_input_ok mtfv -> 3 <= last mtfv 0 + 1 ->
    exists r, gen_prefix_code cf mtfv = GOk r /\ gen_result_ok mtfv r.
Proof. exact (gen_total_from make_code_lengths_total). Qed.

Print Assumptions make_code_lengths_total.
Print Assumptions gen_prefix_code_total.
