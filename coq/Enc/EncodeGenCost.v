(* The value RETURNED by the model of generate_prefix_code() (GenModel.gen_prefix_code, g_cost): exactly the number
   of bits transmit() spends on the prefix tables (without tree_pad) and on the prefix codes of the symbols,
       sum_i tree_cost (table_i)  +  sum_groups sum_{s in group} length[selector(group)][s]
   without uint32_t wrap; the first transmitted selector is tree 0; selector[] entries are < MAX_TREES.

   Ingredients: EncodePmCost.assign_lengths_cost (value returned by assign_codes); the frequency rows of the last
   E step count the symbols of the groups that selected the tree (the dummy symbol `as` completing the last group
   has length 0 in every table); the reordering loop adds the assign_codes() value of exactly the trees that end
   up in tmap_new2old; the dummy second tree costs as + 5 (+ 2 when it has two different lengths). *)
From Coq Require Import List NArith Arith Bool Lia Sorting.Permutation.
From LBZ Require Import Gen.Consts Dec.Format Enc.EncModel Enc.PmModel Enc.PmBasics Enc.PmReal Enc.PmProofs Enc.PmCost
  Enc.GenModel Enc.GenInit Enc.GenEm Enc.GenReorder Enc.GenProofs Enc.GenMcl Enc.EncodePmCost.
Import ListNotations.
Local Open Scope N_scope.

(* ---- sums ------------------------------------------------------------------------------------------------------------ *)
(* sum over the symbols of a list of the length a table gives them *)
Definition symcost (tab : list N) (g : list N) : N := lsum (map (fun s => nth (N.to_nat s) tab 0) g).

(* the bits of the prefix codes of [l], cut into groups of GS symbols, group i coded with table L (sels[i]) *)
Fixpoint gbits (L : N -> list N) (sels : list N) (l : list N) : N :=
  match sels with
  | [] => 0
  | t :: r => symcost (L t) (firstn GS l) + gbits L r (skipn GS l)
  end.

Fixpoint gsum (L : N -> list N) (sels : list N) (groups : list (list N)) : N :=
  match sels, groups with
  | t :: ss, g :: gs => symcost (L t) g + gsum L ss gs
  | _, _ => 0
  end.

Fixpoint dots (L : N -> list N) (k : N) (fr : list (list N)) : N :=
  match fr with
  | [] => 0
  | row :: r => dot row (L k) + dots L (k + 1) r
  end.

Lemma symcost_app tab a b : symcost tab (a ++ b) = symcost tab a + symcost tab b.
Proof. unfold symcost. rewrite map_app, lsum_app. reflexivity. Qed.

Lemma gsum_chunk L : forall sels l, gsum L sels (chunk (length sels) l) = gbits L sels l.
Proof. induction sels as [|t r IH]; intro l; cbn [length chunk gsum gbits]; [reflexivity|]. rewrite IH. reflexivity. Qed.

Lemma firstn_app' {A} n (a b : list A) : firstn n (a ++ b) = firstn n a ++ firstn (n - length a) b.
Proof. apply firstn_app. Qed.

Lemma gbits_pad L (P : N -> Prop) : (forall t p, P p -> nth (N.to_nat p) (L t) 0 = 0) ->
  forall sels l pad, Forall P pad -> gbits L sels (l ++ pad) = gbits L sels l.
Proof.
  intros HP. induction sels as [|t r IH]; intros l pad Hpad; cbn [gbits]; [reflexivity|].
  rewrite firstn_app, skipn_app, symcost_app.
  rewrite (IH (skipn GS l) (skipn (GS - length l) pad)) by (apply Forall_skipn; exact Hpad).
  assert (Z : symcost (L t) (firstn (GS - length l) pad) = 0).
  { assert (F : Forall P (firstn (GS - length l) pad)) by (apply Forall_firstn; exact Hpad).
    unfold symcost. induction F as [|p q Hp _ IHq]; cbn [map lsum]; [reflexivity|]. rewrite (HP t p Hp), IHq. reflexivity. }
  rewrite Z. lia.
Qed.

Lemma gbits_ext L1 L2 : forall sels1 sels2 l, Forall2 (fun a b => L1 a = L2 b) sels1 sels2 ->
  gbits L1 sels1 l = gbits L2 sels2 l.
Proof.
  intros sels1 sels2 l H. revert l. induction H as [|a b r1 r2 Hab _ IH]; intro l; cbn [gbits]; [reflexivity|].
  rewrite Hab, IH. reflexivity.
Qed.

(* ---- frequency counting ------------------------------------------------------------------------------------------------ *)
Lemma bump_dot id : forall row i row' l, bump id row i = GOk row' -> dot row' l = dot row l + nth i l 0.
Proof.
  induction row as [|x r IH]; intros i row' l H; [destruct i; discriminate|].
  destruct i as [|j]; cbn [bump] in H.
  - inversion H; subst. destruct l as [|v l]; cbn [dot nth]; lia.
  - destruct (bump id r j) as [r'|] eqn:E; [|discriminate]. inversion H; subst.
    destruct l as [|v l]; cbn [dot nth]; [reflexivity|]. rewrite (IH j r' l E). lia.
Qed.

Lemma bump_all_dot id : forall g row row' l, bump_all id row g = GOk row' -> dot row' l = dot row l + symcost l g.
Proof.
  induction g as [|s g IH]; intros row row' l H; cbn [bump_all] in H.
  - inversion H; subst. unfold symcost. cbn. lia.
  - destruct (bump id row (N.to_nat s)) as [r1|] eqn:E; [|discriminate]. cbn [gbind] in H.
    rewrite (IH r1 row' l H), (bump_dot id row _ r1 l E). unfold symcost. cbn [map lsum]. lia.
Qed.

Lemma dots_upd L : forall fr k t row row', nth_error fr t = Some row ->
  dots L k (upd fr t row') + dot row (L (k + N.of_nat t)) = dots L k fr + dot row' (L (k + N.of_nat t)).
Proof.
  induction fr as [|r0 fr IH]; intros k t row row' H; [destruct t; discriminate|].
  destruct t as [|t]; cbn [nth_error] in H; cbn [upd dots].
  - inversion H; subst. rewrite N.add_0_r. lia.
  - specialize (IH (k + 1) t row row' H). replace (k + N.of_nat (S t)) with (k + 1 + N.of_nat t) by lia. lia.
Qed.

Lemma e_step_count L nt lp : forall groups fr sels fr', e_step nt lp groups fr = GOk (sels, fr') ->
  dots L 0 fr' = dots L 0 fr + gsum L sels groups.
Proof.
  induction groups as [|g groups IH]; intros fr sels fr' H; cbn [e_step] in H.
  - inversion H; subst. cbn [gsum]. lia.
  - destruct (find_best_tree g nt lp) as [t|]; [|discriminate]. cbn [gbind] in H.
    destruct (negb (t <? N.of_nat nt)); [discriminate|].
    unfold grd in H. destruct (nth_error fr (N.to_nat t)) as [row|] eqn:En; [|discriminate]. cbn [gbind] in H.
    destruct (bump_all 7 row g) as [row'|] eqn:Eb; [|discriminate]. cbn [gbind] in H.
    destruct (e_step nt lp groups (upd fr (N.to_nat t) row')) as [[ss fr1]|] eqn:Ee; [|discriminate]. cbn [gbind] in H.
    inversion H; subst. rewrite (IH _ _ _ Ee). cbn [gsum].
    pose proof (dots_upd L fr 0 (N.to_nat t) row row' En) as U. rewrite N.add_0_l, N2Nat.id in U.
    rewrite (bump_all_dot 7 g row row' (L t) Eb) in U. lia.
Qed.

Lemma dot_zeros l : forall k, dot (repeat 0 k) l = 0.
Proof. induction l as [|v l IH]; intros [|k]; cbn [repeat dot]; try reflexivity. rewrite IH. lia. Qed.

Lemma dots_zeros L m : forall n k, dots L k (repeat (repeat 0 m) n) = 0.
Proof. induction n as [|n IH]; intro k; cbn [repeat dots]; [reflexivity|]. rewrite dot_zeros, IH. reflexivity. Qed.

Lemma dot_firstn : forall k f l, (length l <= k)%nat -> dot (firstn k f) l = dot f l.
Proof.
  induction k as [|k IH]; intros f l H.
  - destruct l; [|cbn in H; lia]. destruct f; reflexivity.
  - destruct f as [|x f]; [reflexivity|]. destruct l as [|v l]; [reflexivity|]. cbn [firstn dot]. rewrite IH by (cbn in H; lia).
    reflexivity.
Qed.

(* the last E step of the EM loop *)
Lemma em_last mcl as_ nt groups cf lens0 lens sels fr : 1 <= cf ->
  N.iter cf (em_iter mcl as_ nt groups) (GOk (lens0, None)) = GOk (lens, Some (sels, fr)) ->
  exists lp, e_step nt lp groups (repeat (repeat 0 (S as_)) nt) = GOk (sels, fr).
Proof.
  intros Hcf H. replace cf with (N.succ (N.pred cf)) in H by lia. rewrite N.iter_succ in H.
  unfold em_iter at 1 in H. destruct (N.iter (N.pred cf) _ _) as [[lp o]|]; [|discriminate]. cbn [gbind fst] in H.
  destruct (e_step nt _ groups _) as [[ss ff]|] eqn:E; [|discriminate]. cbn [gbind] in H.
  destruct (negb _) in H; [discriminate|].
  destruct (m_step mcl as_ lp ff) as [l'|]; [|discriminate]. cbn [gbind] in H. inversion H; subst.
  eexists. exact E.
Qed.

(* ---- selecting the rows of the used trees --------------------------------------------------------------------------------- *)
Lemma dots_as_sum L : forall fr k,
  dots L k fr = lsum (map (fun i => dot (nth i fr []) (L (k + N.of_nat i))) (seq 0 (length fr))).
Proof.
  induction fr as [|row fr IH]; intro k; cbn [dots length seq map lsum]; [reflexivity|].
  rewrite N.add_0_r. f_equal. rewrite IH. rewrite <- seq_shift, map_map. f_equal. apply map_ext. intro i.
  cbn [nth]. f_equal. f_equal. lia.
Qed.

Lemma sum_indicator (h : nat -> N) t : forall m a, (a <= t < a + m)%nat ->
  lsum (map (fun k => if (k =? t)%nat then h k else 0) (seq a m)) = h t.
Proof.
  induction m as [|m IH]; intros a H; [lia|]. cbn [seq map lsum].
  destruct (Nat.eqb_spec a t) as [->|Hne].
  - assert (Z : lsum (map (fun k => if (k =? t)%nat then h k else 0) (seq (S t) m)) = 0).
    { transitivity (lsum (map (fun _ : nat => 0) (seq (S t) m))); [|apply lsum_map_zero].
      f_equal. apply map_ext_in. intros k Hk. apply in_seq in Hk.
      destruct (Nat.eqb_spec k t); [lia|reflexivity]. }
    rewrite Z. lia.
  - rewrite IH by lia. lia.
Qed.

Lemma sum_select (h : nat -> N) m : forall S, NoDup S -> Forall (fun t => (t < m)%nat) S ->
  lsum (map (fun k => if existsb (Nat.eqb k) S then h k else 0) (seq 0 m)) = lsum (map h S).
Proof.
  induction S as [|t S IH]; intros Hnd Hlt.
  - cbn [existsb map lsum]. apply lsum_map_zero.
  - inversion Hnd as [|? ? Hnot Hnd']; subst. inversion Hlt as [|? ? Ht Hlt']; subst. cbn [map lsum].
    rewrite <- (IH Hnd' Hlt'), <- (sum_indicator h t m 0) by lia. rewrite <- lsum_map_add.
    f_equal. apply map_ext. intro k. cbn [existsb]. destruct (Nat.eqb_spec k t) as [->|Hne]; cbn [orb]; [|lia].
    replace (existsb (Nat.eqb t) S) with false; [lia|]. symmetry. apply not_true_is_false. intro E.
    apply existsb_exists in E. destruct E as [x [Hx Ex]]. apply Nat.eqb_eq in Ex. subst x. contradiction.
Qed.

(* ---- the reordering loop, one step -------------------------------------------------------------------------------------------- *)
Lemma u32_small x : x < 2 ^ 32 -> u32 x = x.
Proof. intro H. unfold u32. rewrite land_M32. apply N.mod_small. exact H. Qed.

Definition ro_next (s : ro_st) (t : N) (res : pm_result) : ro_st :=
  mkro (ro_not_seen s - N.shiftl 1 t) (ro_nt s + 1) (upd (ro_o2n s) (N.to_nat t) (Some (ro_nt s))) (ro_n2o s ++ [t])
       (upd (ro_lens s) (N.to_nat t) (r_lengths res)) (u32 (ro_cost s + r_cost res)).

Lemma GOk_inj {A} (a b : A) : GOk a = GOk b -> a = b.
Proof. intro H. inversion H. reflexivity. Qed.

Lemma reorder_nil as_ fr s : reorder as_ fr [] s = GOk s.
Proof. cbn [reorder]. destruct (ro_not_seen s =? 0); reflexivity. Qed.

Section Reorder.
Variable as_ : nat.
Variable nt0 : N.
Variable fr : list (list N).
Hypothesis Hnt0 : nt0 <= 6.
Hypothesis Has : (3 <= as_ <= 258)%nat.
Hypothesis Hfr : fr_shape as_ (N.to_nat nt0) fr.
Hypothesis Hb : MAX_ALPHA_SIZE * lsum (concat fr) < 2 ^ 32.

Let Has2 : (2 <= as_ <= 258)%nat. Proof. lia. Qed.

Lemma reorder_step t r s s' : ro_inv as_ nt0 s -> t < nt0 -> reorder as_ fr (t :: r) s = GOk s' ->
  (ro_not_seen s = 0 /\ s' = s) \/
  (ro_not_seen s <> 0 /\ N.testbit (ro_not_seen s) t = false /\ reorder as_ fr r s = GOk s') \/
  (N.testbit (ro_not_seen s) t = true /\ exists len0 f res,
     nth_error (ro_lens s) (N.to_nat t) = Some len0 /\ nth_error fr (N.to_nat t) = Some f /\
     assign_lengths len0 (firstn as_ f) = Ok res /\ ro_inv as_ nt0 (ro_next s t res) /\
     reorder as_ fr r (ro_next s t res) = GOk s').
Proof.
  intros I Ht H.
  destruct (reorder_spec as_ nt0 fr Hnt0 Has2 Hfr Hb [t] s ltac:(constructor; [exact Ht|constructor]) I)
    as [s'' [E1 [I1 _]]].
  cbn [reorder] in E1, H.
  destruct (N.eqb_spec (ro_not_seen s) 0) as [Z|NZ].
  - left. inversion H; subst. auto.
  - right.
    replace (t <? MAX_TREES) with true in * by (symmetry; apply N.ltb_lt; change MAX_TREES with 6; lia).
    cbn [negb] in E1, H. assert (Ht6 : t < 6) by lia.
    destruct (bits_fact (ro_not_seen s) t (ri_lt _ _ _ I) Ht6) as [B1 _]. rewrite B1 in E1, H.
    destruct (N.testbit (ro_not_seen s) t) eqn:Hbit.
    + right. split; [reflexivity|].
      unfold gwr in E1, H. rewrite (ri_o2n_len _ _ _ I) in E1, H.
      replace (N.to_nat t <? NTREES)%nat with true in * by (symmetry; apply Nat.ltb_lt; change NTREES with 6%nat; lia).
      cbn [gbind] in E1, H.
      destruct (negb (ro_nt s <? MAX_TREES)); [discriminate|].
      unfold grd in E1, H.
      destruct (nth_error (ro_lens s) (N.to_nat t)) as [len0|] eqn:El; [|discriminate]. cbn [gbind] in E1, H.
      destruct (nth_error fr (N.to_nat t)) as [f|] eqn:Ef; [|discriminate]. cbn [gbind] in E1, H.
      destruct (assign_lengths len0 (firstn as_ f)) as [res|] eqn:Er; [|discriminate].
      exists len0, f, res. split; [reflexivity|]. split; [reflexivity|]. split; [exact Er|]. split.
      * unfold ro_next. match type of E1 with (if ?c then _ else _) = _ => destruct c end;
          apply GOk_inj in E1; subst s''; exact I1.
      * exact H.
    + left. cbn [negb] in H. auto.
Qed.

(* ---- the cost accumulated by the reordering loop ---------------------------------------------------------------------------------- *)
Definition BT : N := 20 * lsum (concat fr) + 10583.

Definition tcost (lens : list (list N)) (t : N) : N :=
  dot (firstn as_ (nth (N.to_nat t) fr [])) (nth (N.to_nat t) lens []) + tree_cost (nth (N.to_nat t) lens []).

Definition cinv (s : ro_st) : Prop :=
  ro_cost s = lsum (map (tcost (ro_lens s)) (ro_n2o s)) /\ ro_cost s <= N.of_nat (length (ro_n2o s)) * BT.

Lemma BT_6 : 6 * BT < 2 ^ 32.
Proof. unfold BT. change MAX_ALPHA_SIZE with 258 in Hb. change (2 ^ 32) with 4294967296 in *. lia. Qed.

Lemma n2o_le6 s : ro_inv as_ nt0 s -> (length (ro_n2o s) <= 6)%nat.
Proof.
  intro I. pose proof (nodup_bound _ (N.to_nat nt0) (ri_nodup _ _ _ I)) as B. rewrite N2Nat.id in B.
  specialize (B (ri_old _ _ _ I)). lia.
Qed.

Lemma reorder_cost : forall sels s s', Forall (fun t => t < nt0) sels -> ro_inv as_ nt0 s -> cinv s ->
  reorder as_ fr sels s = GOk s' -> cinv s'.
Proof.
  induction sels as [|t r IH]; intros s s' Hsels I C H.
  - rewrite reorder_nil in H. inversion H; subst. exact C.
  - inversion Hsels as [|? ? Ht Hr]; subst.
    destruct (reorder_step t r s s' I Ht H) as [[_ ->]|[[_ [_ H']]|[Hbit [len0 [f [res [El [Ef [Er [I1 H']]]]]]]]]].
    + exact C.
    + eapply IH; eauto.
    + apply (IH _ _ Hr I1); [|exact H']. clear IH H H'.
      destruct Hfr as [Hfr1 Hfr2]. destruct (ri_shape _ _ _ I) as [Hs1 Hs2].
      assert (Hf : length f = S as_) by (rewrite Forall_forall in Hfr2; apply Hfr2; eapply nth_error_In; eauto).
      assert (Hl0 : length len0 = as_) by (rewrite Forall_forall in Hs2; apply Hs2; eapply nth_error_In; eauto).
      assert (Hin : pm_input_ok (firstn as_ f)).
      { apply (row_input_ok as_ fr f); auto. eapply nth_error_In; eauto. }
      assert (Hfl : length (firstn as_ f) = as_) by (rewrite firstn_length, Hf; lia).
      destruct (assign_lengths_cost (firstn as_ f) len0 res Hin ltac:(lia) ltac:(lia) Er) as [Ec Eb].
      assert (Eb' : r_cost res <= BT).
      { unfold BT. pose proof (lsum_firstn_le as_ f). pose proof (lsum_concat_In fr f ltac:(eapply nth_error_In; eauto)). lia. }
      destruct C as [C1 C2]. pose proof (n2o_le6 _ I1) as L6. pose proof BT_6 as B6.
      assert (Ht6 : t < 6) by lia.
      destruct (ri_set _ _ _ I t Ht6 Hbit) as [_ Hnew].
      unfold cinv, ro_next in *. cbn [ro_cost ro_n2o ro_lens] in *. rewrite app_length in *. cbn [length] in *.
      rewrite u32_small by nia. split; [|nia].
      rewrite map_app, lsum_app. cbn [map lsum]. rewrite N.add_0_r. f_equal.
      * rewrite C1. f_equal. apply map_ext_in. intros u Hu. unfold tcost.
        assert (N.to_nat u <> N.to_nat t) by (intro E; apply N2Nat.inj in E; subst u; contradiction).
        rewrite upd_nth_other by lia. reflexivity.
      * unfold tcost. rewrite upd_nth_same by (rewrite Hs1; change NTREES with 6%nat; lia).
        rewrite (nth_error_nth _ _ [] Ef). exact Ec.
Qed.
End Reorder.

(* ---- remap / tables_of / the dummy tree ---------------------------------------------------------------------------------------------- *)
Lemma remap_inv o2n : forall sels sels', remap o2n sels = GOk sels' ->
  Forall2 (fun t c => nth_error o2n (N.to_nat t) = Some (Some c)) sels sels'.
Proof.
  induction sels as [|t r IH]; intros sels' H; cbn [remap] in H.
  - inversion H; subst. constructor.
  - unfold grd in H. destruct (nth_error o2n (N.to_nat t)) as [[c|]|] eqn:E; try discriminate. cbn [gbind] in H.
    destruct (remap o2n r) as [r'|] eqn:Er; [|discriminate]. cbn [gbind] in H. inversion H; subst.
    constructor; [exact E|]. apply IH. reflexivity.
Qed.

Lemma tables_of_inv lens : forall n2o tabs, tables_of lens n2o = GOk tabs ->
  tabs = map (fun t => nth (N.to_nat t) lens []) n2o.
Proof.
  induction n2o as [|t r IH]; intros tabs H; cbn [tables_of] in H.
  - inversion H; subst. reflexivity.
  - unfold grd in H. destruct (nth_error lens (N.to_nat t)) as [row|] eqn:E; [|discriminate]. cbn [gbind] in H.
    destruct (tables_of lens r) as [rest|] eqn:Er; [|discriminate]. cbn [gbind] in H. inversion H; subst.
    cbn [map]. rewrite (nth_error_nth _ _ [] E). f_equal. apply IH. reflexivity.
Qed.

Definition dummy_cost_check : bool :=
  forallb (fun a => let aN := N.of_nat a in
                    tree_cost (dummy_row a) =? aN + 5 + (if dummy_count aN <? aN then 2 else 0)) (seq 2 257).

Lemma dummy_cost_check_true : dummy_cost_check = true.
Proof. vm_compute. reflexivity. Qed.

Lemma dummy_cost a : (2 <= a <= 258)%nat ->
  tree_cost (dummy_row a) = N.of_nat a + 5 + (if dummy_count (N.of_nat a) <? N.of_nat a then 2 else 0).
Proof.
  intro H. pose proof dummy_cost_check_true as C. unfold dummy_cost_check in C. rewrite forallb_forall in C.
  specialize (C a ltac:(apply in_seq; lia)). cbv zeta in C. apply N.eqb_eq. exact C.
Qed.

Lemma Forall2_In_impl {A B} (R1 R2 : A -> B -> Prop) : forall l1 l2, Forall2 R1 l1 l2 ->
  (forall a b, In a l1 -> R1 a b -> R2 a b) -> Forall2 (fun b a => R2 a b) l2 l1.
Proof.
  induction 1 as [|a b l1 l2 Hab _ IH]; intro K; constructor.
  - apply K; [left; reflexivity|exact Hab].
  - apply IH. intros a' b' Hin. apply K. right. exact Hin.
Qed.

Lemma existsb_N_nat t l : existsb (N.eqb (N.of_nat t)) l = existsb (Nat.eqb t) (map N.to_nat l).
Proof.
  induction l as [|x l IH]; cbn [existsb map]; [reflexivity|]. rewrite IH. f_equal.
  destruct (N.eqb_spec (N.of_nat t) x) as [<-|Hne]; [rewrite Nat2N.id; symmetry; apply Nat.eqb_refl|].
  symmetry. apply Nat.eqb_neq. lia.
Qed.

Lemma NoDup_map_to_nat (l : list N) : NoDup l -> NoDup (map N.to_nat l).
Proof.
  induction 1 as [|x l Hx _ IH]; cbn [map]; constructor; [|exact IH].
  intro Hin. apply in_map_iff in Hin. destruct Hin as [y [E Hy]]. apply N2Nat.inj in E. subst y. contradiction.
Qed.

Lemma dot_nil_r f : dot f [] = 0.
Proof. destruct f; reflexivity. Qed.

(* ---- the key identity: frequency rows x final lengths of the used trees = bits of the prefix codes --------------------------------- *)
Definition Lsel (n2o : list N) (lens : list (list N)) (t : N) : list N :=
  if existsb (N.eqb t) n2o then nth (N.to_nat t) lens [] else [].

Lemma used_rows_bits as_ nt lp mtfv asN sels fr n2o lens :
  let groups := groups_of mtfv asN in
  N.to_nat asN = as_ ->
  e_step nt lp groups (repeat (repeat 0 (S as_)) nt) = GOk (sels, fr) ->
  length sels = length groups -> length fr = nt ->
  NoDup n2o -> Forall (fun t => (N.to_nat t < nt)%nat) n2o ->
  Forall (fun row => length row = as_) lens ->
  lsum (map (fun t => dot (firstn as_ (nth (N.to_nat t) fr [])) (nth (N.to_nat t) lens [])) n2o)
  = gbits (Lsel n2o lens) sels mtfv.
Proof.
  intros groups Eas ES Ls Lf Hnd Hlt Hsh.
  assert (Hrow : forall i, (length (nth i lens []) <= as_)%nat).
  { intro i. destruct (Nat.lt_ge_cases i (length lens)) as [L|L].
    - rewrite Forall_forall in Hsh. rewrite (Hsh (nth i lens [])) by (apply nth_In; exact L). lia.
    - rewrite nth_overflow by exact L. cbn. lia. }
  pose proof (e_step_count (Lsel n2o lens) nt lp groups _ sels fr ES) as C. rewrite dots_zeros, N.add_0_l in C.
  unfold groups, groups_of in C. cbv zeta in C.
  replace (N.to_nat (num_groups (N.of_nat (length mtfv)))) with (length sels) in C
    by (rewrite Ls; unfold groups, groups_of; apply chunk_length).
  rewrite gsum_chunk in C.
  rewrite (gbits_pad (Lsel n2o lens) (fun p => p = asN)) in C.
  2:{ intros t p ->. unfold Lsel. destruct (existsb _ _); [|destruct (N.to_nat asN); reflexivity].
      apply nth_overflow. rewrite Eas. apply Hrow. }
  2:{ apply Forall_forall. intros x Hx. apply repeat_spec in Hx. exact Hx. }
  rewrite <- C. rewrite dots_as_sum, Lf.
  transitivity (lsum (map (fun i => dot (nth i fr []) (nth i lens [])) (map N.to_nat n2o))).
  { rewrite map_map. f_equal. apply map_ext. intro t. apply dot_firstn. apply Hrow. }
  rewrite <- (sum_select (fun i => dot (nth i fr []) (nth i lens [])) nt (map N.to_nat n2o)).
  - f_equal. apply map_ext. intro i. rewrite N.add_0_l. unfold Lsel. rewrite existsb_N_nat.
    destruct (existsb _ _); [rewrite Nat2N.id; reflexivity|symmetry; apply dot_nil_r].
  - apply NoDup_map_to_nat. exact Hnd.
  - apply Forall_forall. intros x Hx. apply in_map_iff in Hx. destruct Hx as [y [<- Hy]].
    rewrite Forall_forall in Hlt. apply Hlt. exact Hy.
Qed.

(* ---- the theorem ------------------------------------------------------------------------------------------------------------------ *)
Definition tab_of (tabs : list (list N)) (c : N) : list N := nth (N.to_nat c) tabs [].

Theorem gen_cost cf mtfv r : 1 <= cf -> gen_input_ok mtfv -> 3 <= last mtfv 0 + 1 ->
  gen_prefix_code cf mtfv = GOk r ->
  g_cost r = lsum (map tree_cost (g_tables r)) + gbits (tab_of (g_tables r)) (g_sels r) mtfv /\
  g_cost r < 2 ^ 27 /\
  hd 1 (g_sels r) = 0 /\ g_sels_old r <> [] /\ Forall (fun t => t < MAX_TREES) (g_sels_old r).
Proof.
  intros Hcf [Hnm [Has Hsym]] Has3 H. unfold gen_prefix_code, gen_prefix_code_with in H.
  set (nm := N.of_nat (length mtfv)) in *. set (asN := last mtfv 0 + 1) in *. set (as_ := N.to_nat asN) in *.
  assert (HasN : N.of_nat as_ = asN) by (unfold as_; apply N2Nat.id).
  assert (Has' : (3 <= as_ <= 258)%nat) by (unfold as_; change MAX_ALPHA_SIZE with 258 in Has; lia).
  assert (Has2 : (2 <= as_ <= 258)%nat) by lia.
  replace (nm <? 2) with false in H by (symmetry; apply N.ltb_ge; lia).
  pose proof (cap_ok nm ltac:(lia)) as Hcap.
  replace (enc_selector_size <? num_groups nm + 1) with false in H by (symmetry; apply N.ltb_ge; exact Hcap).
  destruct (sym_freq_ok mtfv as_) as [F [EqF [LF SF]]].
  { eapply Forall_impl; [|exact Hsym]. cbn beta. intros a Ha. unfold as_. lia. }
  rewrite EqF in H. cbn [gbind] in H. fold nm in SF.
  pose proof (choose_nt_range nm) as Hnt0. set (nt0 := choose_nt nt_thresholds nm) in *.
  destruct (generate_initial_trees_ok F as_ nm nt0 LF SF ltac:(lia) (nm_lim nm ltac:(lia)) Hnt0) as [lens0 [E0 S0]].
  { rewrite HasN. change MAX_ALPHA_SIZE with 258 in Has. change (2 ^ 31) with 2147483648. lia. }
  rewrite E0 in H. cbn [gbind] in H.
  pose proof (groups_of_spec mtfv asN Hsym) as G. cbv zeta in G. set (groups := groups_of mtfv asN) in *.
  destruct G as [G1 [G2 G3]]. fold nm in G1, G3.
  pose proof (em_loop_ok is_mcl_err make_code_lengths as_ (N.to_nat nt0) groups cf lens0 make_code_lengths_wf) as EM.
  specialize (EM ltac:(change NTREES with 6%nat; lia) Hcf).
  rewrite HasN in EM. specialize (EM G2 S0).
  destruct (N.iter cf (em_iter make_code_lengths as_ (N.to_nat nt0) groups) (GOk (lens0, None))) as [[lens sf]|e] eqn:EI;
    cbn [gbind] in H; [|discriminate].
  cbv beta iota delta [err_only] in EM. destruct EM as [Sh [sf' [Esf [Q1 [Q2 [Q3 Q4]]]]]].
  cbn [fst snd] in Sh, Esf. subst sf. destruct sf' as [sels fr]. cbn [fst snd] in Q1, Q2, Q3, Q4.
  rewrite N2Nat.id in Q2.
  destruct (em_last _ _ _ _ _ _ _ _ _ Hcf EI) as [lp ES].
  assert (Hb : MAX_ALPHA_SIZE * lsum (concat fr) < 2 ^ 32).
  { pose proof (total_ok nm ltac:(lia)). rewrite Q4. change MAX_ALPHA_SIZE with 258 in *. lia. }
  assert (HT : lsum (concat fr) <= 900099).
  { rewrite Q4. unfold GEN_MAX_NM in Hnm. change MAX_BLOCK_SIZE with 900000 in Hnm. change GROUP_SIZE with 50 in *. lia. }
  pose proof (ro_init_inv as_ nt0 lens Hnt0 Sh) as I0.
  destruct (reorder_spec as_ nt0 fr ltac:(lia) Has2 Q3 Hb sels _ Q2 I0) as [ro [Ero [I [Fin _]]]].
  fold (init_mask nt0) in H. rewrite Ero in H. cbn [gbind] in H.
  (* the cost accumulated by the loop *)
  assert (C : cinv as_ fr ro).
  { apply (reorder_cost as_ nt0 fr ltac:(lia) Has' Q3 Hb sels _ ro Q2 I0); [|exact Ero].
    unfold cinv. cbn [ro_cost ro_n2o map lsum length]. split; lia. }
  (* the first selector is the first entry of tmap_new2old *)
  assert (Hsne : sels <> []).
  { intro Z. subst sels. cbn [length] in Q1. rewrite G1 in Q1.
    pose proof (num_groups_ge nm). change GROUP_SIZE with 50 in *. lia. }
  destruct sels as [|t0 r0]; [contradiction|]. clear Hsne.
  assert (Hhead : exists ext, ro_n2o ro = t0 :: ext).
  { inversion Q2 as [|? ? Ht0 Hr0]; subst.
    destruct (mask_fact nt0 ltac:(lia)) as [_ M2].
    destruct (reorder_step as_ nt0 fr ltac:(lia) Has' Q3 Hb t0 r0 _ ro I0 Ht0 Ero)
      as [[Z _]|[[_ [Z _]]|[_ [len0 [f [res [_ [_ [_ [I1 H']]]]]]]]]]; cbn [ro_not_seen] in *.
    - exfalso. pose proof (M2 t0 ltac:(lia)) as B. rewrite Z, N.bits_0 in B. symmetry in B. apply N.ltb_ge in B. lia.
    - exfalso. rewrite (M2 t0 ltac:(lia)) in Z. apply N.ltb_ge in Z. lia.
    - destruct (reorder_spec as_ nt0 fr ltac:(lia) Has2 Q3 Hb r0 _ Hr0 I1) as [s' [E' [_ [_ [ext Ext]]]]].
      rewrite H' in E'. apply GOk_inj in E'. subst s'. exists ext. rewrite Ext. reflexivity. }
  destruct Hhead as [ext Hext].
  (* bits of the prefix codes *)
  destruct Q3 as [Q3a Q3b]. destruct (ri_shape _ _ _ I) as [Sh1 Sh2].
  assert (K := used_rows_bits as_ (N.to_nat nt0) lp mtfv asN (t0 :: r0) fr (ro_n2o ro) (ro_lens ro)
                 eq_refl ES Q1 Q3a (ri_nodup _ _ _ I)).
  specialize (K ltac:(eapply Forall_impl; [|apply (ri_old _ _ _ I)]; cbn beta; intros; lia) Sh2).
  destruct C as [C1 C2]. unfold tcost in C1. rewrite lsum_map_add, K in C1.
  pose proof (n2o_le6 as_ nt0 fr ltac:(lia) Has' Hb ro I) as L6.
  assert (HBT : BT fr <= 18012563) by (unfold BT; lia).
  assert (Hmap : forall t, In t (t0 :: r0) -> exists j, nth_error (ro_n2o ro) j = Some t /\
                 nth_error (ro_o2n ro) (N.to_nat t) = Some (Some (N.of_nat j)) /\
                 Lsel (ro_n2o ro) (ro_lens ro) t = nth (N.to_nat t) (ro_lens ro) []).
  { intros t Ht. rewrite Forall_forall in Fin. pose proof (Fin t Ht) as Hin.
    destruct (In_nth_error _ _ Hin) as [j Hj]. exists j. split; [exact Hj|]. split; [apply (ri_inv _ _ _ I); exact Hj|].
    unfold Lsel. replace (existsb (N.eqb t) (ro_n2o ro)) with true; [reflexivity|].
    symmetry. apply existsb_exists. exists t. split; [exact Hin|apply N.eqb_refl]. }
  assert (Hold : Forall (fun t => t < MAX_TREES) (t0 :: r0)).
  { eapply Forall_impl; [|exact Q2]. cbn beta. change MAX_TREES with 6. intros; lia. }
  rewrite (ri_cnt _ _ _ I) in H.
  replace (N.of_nat (length (ro_n2o ro)) <? 1) with false in H by (symmetry; apply N.ltb_ge; rewrite Hext; cbn [length]; lia).
  destruct (N.eqb_spec (N.of_nat (length (ro_n2o ro))) 1) as [One|NotOne].
  - (* the dummy second tree *)
    assert (ext = []) by (rewrite Hext in One; cbn [length] in One; destruct ext; [reflexivity|cbn [length] in One; lia]).
    subst ext. rewrite Hext in *. cbn [hd] in H.
    pose proof (ri_old _ _ _ I) as O. rewrite Hext in O. inversion O as [|? ? Hfirst _]; subst.
    destruct (lxor1_fact t0 ltac:(lia)) as [X1 X2]. set (td := N.lxor t0 1) in *.
    unfold gwr in H. rewrite (ri_o2n_len _ _ _ I) in H.
    replace (N.to_nat td <? NTREES)%nat with true in H by (symmetry; apply Nat.ltb_lt; change NTREES with 6%nat; lia).
    cbn [gbind] in H. destruct (dummy_fact as_ Has2) as [_ [D2 _]]. rewrite HasN in D2.
    replace (asN <? dummy_count asN) with false in H by (symmetry; apply N.ltb_ge; exact D2).
    rewrite Sh1 in H.
    replace (N.to_nat td <? NTREES)%nat with true in H by (symmetry; apply Nat.ltb_lt; change NTREES with 6%nat; lia).
    cbn [gbind ro_o2n ro_lens ro_n2o ro_nt ro_cost] in H.
    destruct (remap _ (t0 :: r0)) as [sels'|] eqn:Er; [|discriminate]. cbn [gbind] in H.
    cbn [app] in H. destruct (tables_of _ [t0; td]) as [tabs|] eqn:Et; [|discriminate]. cbn [gbind] in H.
    apply GOk_inj in H. subst r. cbn [g_cost g_tables g_sels g_sels_old].
    apply remap_inv in Er. apply tables_of_inv in Et. cbn [map] in Et.
    rewrite upd_nth_other in Et by lia. rewrite upd_nth_same in Et by (rewrite Sh1; change NTREES with 6%nat; lia).
    subst tabs.
    pose proof (dummy_cost as_ Has2) as DC. rewrite HasN in DC.
    cbn [length N.of_nat] in C2. cbn [map lsum] in C1. rewrite N.add_0_r in C1.
    assert (Hsmall : ro_cost ro + (if dummy_count asN <? asN then 2 else 0) + asN + 5 < 2 ^ 27).
    { change MAX_ALPHA_SIZE with 258 in Has. change (2 ^ 27) with 134217728. destruct (dummy_count asN <? asN); lia. }
    change (2 ^ 27) with 134217728 in Hsmall.
    rewrite (u32_small (ro_cost ro + _)) by (change (2 ^ 32) with 4294967296; lia).
    rewrite u32_small by (change (2 ^ 32) with 4294967296; lia).
    assert (Hg : gbits (tab_of [nth (N.to_nat t0) (ro_lens ro) []; dummy_row as_]) sels' mtfv
                 = gbits (Lsel [t0] (ro_lens ro)) (t0 :: r0) mtfv).
    { apply gbits_ext. apply (Forall2_In_impl _ _ _ _ Er). intros t c Ht Htc.
      destruct (Hmap t Ht) as [j [Hj [Ho HL]]]. rewrite HL.
      assert (t = t0) by (apply nth_error_In in Hj; destruct Hj as [->|[]]; reflexivity). subst t.
      assert (j = 0%nat) by (destruct j as [|[|j]]; [reflexivity|discriminate|discriminate]). subst j.
      rewrite nth_error_upd_other in Htc by lia. rewrite Ho in Htc. inversion Htc; subst c. reflexivity. }
    split; [|split; [|split; [|split]]].
    + cbn [map lsum]. rewrite Hg, DC. lia.
    + change (2 ^ 27) with 134217728. lia.
    + inversion Er as [|? c0 ? cs Hc0 _]; subst. cbn [hd].
      destruct (Hmap t0 ltac:(left; reflexivity)) as [j [Hj [Ho _]]].
      assert (j = 0%nat) by (destruct j as [|[|j]]; [reflexivity|discriminate|discriminate]). subst j.
      rewrite nth_error_upd_other in Hc0 by lia. rewrite Ho in Hc0. inversion Hc0. reflexivity.
    + discriminate.
    + exact Hold.
  - (* two or more trees *)
    cbn [gbind] in H.
    destruct (remap (ro_o2n ro) (t0 :: r0)) as [sels'|] eqn:Er; [|discriminate]. cbn [gbind] in H.
    destruct (tables_of (ro_lens ro) (ro_n2o ro)) as [tabs|] eqn:Et; [|discriminate]. cbn [gbind] in H.
    apply GOk_inj in H. subst r. cbn [g_cost g_tables g_sels g_sels_old].
    apply remap_inv in Er. apply tables_of_inv in Et. subst tabs.
    assert (Hg : gbits (tab_of (map (fun t => nth (N.to_nat t) (ro_lens ro) []) (ro_n2o ro))) sels' mtfv
                 = gbits (Lsel (ro_n2o ro) (ro_lens ro)) (t0 :: r0) mtfv).
    { apply gbits_ext. apply (Forall2_In_impl _ _ _ _ Er). intros t c Ht Htc.
      destruct (Hmap t Ht) as [j [Hj [Ho HL]]]. rewrite HL. rewrite Ho in Htc. inversion Htc; subst c.
      unfold tab_of. rewrite Nat2N.id.
      rewrite (nth_error_nth _ _ [] (map_nth_error (fun t => nth (N.to_nat t) (ro_lens ro) []) j _ Hj)). reflexivity. }
    split; [|split; [|split; [|split]]].
    + rewrite map_map, Hg. rewrite C1. lia.
    + change (2 ^ 27) with 134217728. nia.
    + inversion Er as [|? c0 ? cs Hc0 _]; subst. cbn [hd].
      destruct (Hmap t0 ltac:(left; reflexivity)) as [j [Hj [Ho _]]].
      rewrite Hext in Hj. assert (Ho0 := ri_inv _ _ _ I 0%nat t0 ltac:(rewrite Hext; reflexivity)).
      rewrite Ho0 in Hc0. inversion Hc0. reflexivity.
    + discriminate.
    + exact Hold.
Qed.

Print Assumptions gen_cost.
