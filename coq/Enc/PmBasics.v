(* C20 - basic lemmas for the package-merge model (Enc/PmModel.v): error monad, checked accessors,
   binary-fuel iteration, packed 64-bit weights. *)
From Coq Require Import List NArith Arith Bool Lia ZifyBool.
From LBZ Require Import Gen.Consts Enc.PmModel.
Import ListNotations.
Local Open Scope N_scope.

(* ---- error monad -------------------------------------------------------------------------------- *)
Lemma bind_ok {A B} (x : res A) (f : A -> res B) b :
  bind x f = Ok b -> exists a, x = Ok a /\ f a = Ok b.
Proof. destruct x as [a|e]; cbn [bind]; intro H; [exists a; auto|discriminate]. Qed.

Lemma bind_ok_l {A B} (x : res A) (f : A -> res B) a : x = Ok a -> bind x f = f a.
Proof. intros ->. reflexivity. Qed.

(* ---- accessors ----------------------------------------------------------------------------------- *)
Lemma upd_length {A} (l : list A) i v : length (upd l i v) = length l.
Proof. revert i; induction l as [|x r IH]; intros [|i]; cbn [upd length]; auto. Qed.

Lemma upd_nth_same {A} (l : list A) i v d : (i < length l)%nat -> nth i (upd l i v) d = v.
Proof.
  revert i; induction l as [|x r IH]; intros [|i] H; cbn [upd nth length] in *; try lia; auto.
  apply IH. lia.
Qed.

Lemma upd_nth_other {A} (l : list A) i j v d : i <> j -> nth j (upd l i v) d = nth j l d.
Proof.
  revert i j; induction l as [|x r IH]; intros [|i] [|j] H; cbn [upd nth]; auto; try congruence.
Qed.

Lemma rd_ok {A} a (l : list A) i d : (i < length l)%nat -> rd a l i = Ok (nth i l d).
Proof.
  intro H. unfold rd. destruct (nth_error l i) as [x|] eqn:E.
  - f_equal. symmetry. apply nth_error_nth. exact E.
  - apply nth_error_None in E. lia.
Qed.

Lemma rd_inv {A} a (l : list A) i x d : rd a l i = Ok x -> (i < length l)%nat /\ x = nth i l d.
Proof.
  unfold rd. destruct (nth_error l i) as [y|] eqn:E; [|discriminate].
  intro H; inversion H; subst. split.
  - apply nth_error_Some. congruence.
  - symmetry. apply nth_error_nth. exact E.
Qed.

Lemma wr_ok {A} a (l : list A) i v : (i < length l)%nat -> wr a l i v = Ok (upd l i v).
Proof. intro H. unfold wr. destruct (Nat.ltb_spec i (length l)) as [Hlt|Hge]; [reflexivity|lia]. Qed.

Lemma wr_inv {A} a (l : list A) i v l' : wr a l i v = Ok l' -> (i < length l)%nat /\ l' = upd l i v.
Proof. unfold wr. destruct (Nat.ltb_spec i (length l)) as [Hlt|Hge]; [|discriminate]. intro H; inversion H; auto. Qed.

(* ---- iteration ----------------------------------------------------------------------------------- *)
(* unary version of iter2, for proofs only: at most m steps *)
Fixpoint run {X R} (m : nat) (f : X -> res (X + R)) (x : X) : res (X + R) :=
  match m with
  | O => Ok (inl x)
  | S m' => match f x with
            | Ok (inl x') => run m' f x'
            | r => r
            end
  end.

Lemma run_add {X R} (f : X -> res (X + R)) a b x :
  run (a + b) f x = match run a f x with Ok (inl x') => run b f x' | r => r end.
Proof.
  revert x; induction a as [|a IH]; intro x; cbn [run Nat.add]; [reflexivity|].
  destruct (f x) as [[x'|r]|e]; auto.
Qed.

Lemma iter2_run {X R} (f : X -> res (X + R)) k x : iter2 k f x = run (2 ^ k) f x.
Proof.
  revert x; induction k as [|k IH]; intro x.
  - cbn [iter2 Nat.pow run]. destruct (f x) as [[x'|r]|e]; reflexivity.
  - cbn [iter2]. replace (2 ^ S k)%nat with (2 ^ k + 2 ^ k)%nat by (cbn [Nat.pow]; lia).
    rewrite run_add, <- IH. destruct (iter2 k f x) as [[x'|r]|e]; auto.
Qed.

Lemma run_done_mono {X R} (f : X -> res (X + R)) m j x r :
  run m f x = Ok (inr r) -> run (m + j) f x = Ok (inr r).
Proof. intro H. rewrite run_add, H. reflexivity. Qed.

(* ---- packed weights ------------------------------------------------------------------------------ *)
(* a 64-bit weight with frequency field F (top 32 bits) and low part L (low 32 bits) *)
Definition enc (F L : N) : N := F * U32 + L.

Lemma U32_eq : U32 = 2 ^ 32. Proof. reflexivity. Qed.
Lemma U64_eq : U64 = 2 ^ 64. Proof. reflexivity. Qed.
Lemma MAXW_ones : MAXW = N.ones 64. Proof. reflexivity. Qed.
Lemma MAX32_ones : MAX32 = N.ones 32. Proof. reflexivity. Qed.

Lemma land_MAXW x : N.land x MAXW = x mod U64.
Proof. rewrite MAXW_ones, N.land_ones. reflexivity. Qed.

Lemma land_MAX32 x : N.land x MAX32 = x mod U32.
Proof. rewrite MAX32_ones, N.land_ones. reflexivity. Qed.

Lemma enc_lt F L : F < U32 -> L < U32 -> enc F L < U64.
Proof. unfold enc, U32, U64. nia. Qed.

Lemma enc_div F L : L < U32 -> enc F L / U32 = F.
Proof.
  intro H. unfold enc.
  rewrite N.div_add_l by (unfold U32; lia). rewrite N.div_small by exact H. lia.
Qed.

Lemma enc_mod F L : L < U32 -> enc F L mod U32 = L.
Proof.
  intro H. unfold enc. rewrite N.add_comm, N.mod_add by (unfold U32; lia). apply N.mod_small. exact H.
Qed.

Lemma enc_inj F L F' L' : L < U32 -> L' < U32 -> enc F L = enc F' L' -> F = F' /\ L = L'.
Proof.
  intros H H' E. split.
  - rewrite <- (enc_div F L H), <- (enc_div F' L' H'), E. reflexivity.
  - rewrite <- (enc_mod F L H), <- (enc_mod F' L' H'), E. reflexivity.
Qed.

(* comparison of packed weights is lexicographic *)
Lemma enc_le F L F' L' : L < U32 -> L' < U32 -> (enc F L <= enc F' L' <-> F < F' \/ (F = F' /\ L <= L')).
Proof. unfold enc, U32. intros H H'. nia. Qed.

Lemma enc_lt_iff F L F' L' : L < U32 -> L' < U32 -> (enc F L < enc F' L' <-> F < F' \/ (F = F' /\ L < L')).
Proof. unfold enc, U32. intros H H'. nia. Qed.

(* w & 0xFF000000 *)
Lemma depth_field_spec w : depth_field w = ((w / 2 ^ 24) mod 2 ^ 8) * 2 ^ 24.
Proof.
  unfold depth_field.
  replace 4278190080 with (N.shiftl (N.ones 8) 24) by reflexivity.
  apply N.bits_inj. intro k.
  rewrite N.land_spec, <- N.shiftl_mul_pow2, <- N.shiftr_div_pow2, <- N.land_ones.
  destruct (N.ltb_spec k 24) as [Hk|Hk].
  - rewrite !N.shiftl_spec_low by exact Hk. apply andb_false_r.
  - rewrite !N.shiftl_spec_high' by exact Hk.
    rewrite N.land_spec, N.shiftr_spec'. replace (k - 24 + 24) with k by lia.
    reflexivity.
Qed.

Lemma depth_field_enc F L : L < U32 -> depth_field (enc F L) = (L / 2 ^ 24) * 2 ^ 24.
Proof.
  intro H. rewrite depth_field_spec. f_equal. unfold enc.
  replace (F * U32) with (F * 2 ^ 8 * 2 ^ 24) by (unfold U32; lia).
  rewrite N.div_add_l by lia.
  rewrite N.add_comm, N.mod_add by lia. apply N.mod_small.
  apply N.div_lt_upper_bound; [lia|]. unfold U32 in H. lia.
Qed.

(* weight_add on packed weights whose low parts cannot carry into the frequency field *)
Lemma weight_add_enc F1 L1 F2 L2 :
  L1 < 2 ^ 31 -> L2 < 2 ^ 31 -> F1 + F2 < U32 ->
  weight_add (enc F1 L1) (enc F2 L2) = enc (F1 + F2) ((N.max (L1 / 2 ^ 24) (L2 / 2 ^ 24) + 1) * 2 ^ 24).
Proof.
  intros H1 H2 HF. unfold weight_add.
  assert (H1' : L1 < U32) by (unfold U32; lia). assert (H2' : L2 < U32) by (unfold U32; lia).
  rewrite !land_MAXW, N.shiftr_div_pow2, N.shiftl_mul_pow2, <- U32_eq.
  rewrite !depth_field_enc by assumption.
  assert (E : enc F1 L1 + enc F2 L2 = enc (F1 + F2) (L1 + L2)) by (unfold enc; lia).
  rewrite E.
  assert (HL : L1 + L2 < U32) by (unfold U32; lia).
  rewrite (N.mod_small (enc _ _) U64) by (apply enc_lt; assumption).
  rewrite enc_div by exact HL.
  assert (D1 : L1 / 2 ^ 24 < 2 ^ 7) by (apply N.div_lt_upper_bound; lia).
  assert (D2 : L2 / 2 ^ 24 < 2 ^ 7) by (apply N.div_lt_upper_bound; lia).
  set (d1 := L1 / 2 ^ 24) in *. set (d2 := L2 / 2 ^ 24) in *.
  assert (EM : N.max (d1 * 2 ^ 24) (d2 * 2 ^ 24) = N.max d1 d2 * 2 ^ 24) by lia.
  rewrite EM.
  assert (HM : (N.max d1 d2 + 1) * 2 ^ 24 < U32) by (unfold U32; lia).
  replace ((F1 + F2) * U32 + N.max d1 d2 * 2 ^ 24 + 16777216) with (enc (F1 + F2) ((N.max d1 d2 + 1) * 2 ^ 24))
    by (unfold enc; lia).
  apply N.mod_small. apply enc_lt; assumption.
Qed.

(* ((uint64_t)f << 32) | 0x10000 | (MAX_ALPHA_SIZE - leaf) *)
Lemma lor_disjoint_add a b k : b < 2 ^ k -> N.lor (a * 2 ^ k) b = a * 2 ^ k + b.
Proof.
  intro H. rewrite <- N.lxor_lor.
  - symmetry. apply N.add_nocarry_lxor.
    apply N.bits_inj. intro i. rewrite N.land_spec, N.bits_0.
    destruct (N.ltb_spec i k) as [Hi|Hi].
    + rewrite N.mul_pow2_bits_low by exact Hi. reflexivity.
    + replace (N.testbit b i) with false; [apply andb_false_r|].
      symmetry. destruct (N.eq_dec b 0) as [->|Hb]; [apply N.bits_0|].
      apply N.bits_above_log2. apply N.log2_lt_pow2; [lia|].
      apply N.lt_le_trans with (2 ^ k); [exact H|]. apply N.pow_le_mono_r; lia.
  - apply N.bits_inj. intro i. rewrite N.land_spec, N.bits_0.
    destruct (N.ltb_spec i k) as [Hi|Hi].
    + rewrite N.mul_pow2_bits_low by exact Hi. reflexivity.
    + replace (N.testbit b i) with false; [apply andb_false_r|].
      symmetry. destruct (N.eq_dec b 0) as [->|Hb]; [apply N.bits_0|].
      apply N.bits_above_log2. apply N.log2_lt_pow2; [lia|].
      apply N.lt_le_trans with (2 ^ k); [exact H|]. apply N.pow_le_mono_r; lia.
Qed.

Lemma leaf_label_enc f leaf : leaf < MAX_ALPHA_SIZE -> MAX_ALPHA_SIZE < 2 ^ 16 ->
  leaf_label f leaf = enc f (65536 + (MAX_ALPHA_SIZE - leaf)).
Proof.
  intros Hl HM. unfold leaf_label, enc. rewrite N.shiftl_mul_pow2, <- U32_eq.
  unfold U32. change 4294967296 with (2 ^ 32).
  rewrite (lor_disjoint_add f 65536 32) by lia.
  replace (f * 2 ^ 32 + 65536) with ((f * 2 ^ 16 + 1) * 2 ^ 16) by lia.
  rewrite lor_disjoint_add by lia. lia.
Qed.
