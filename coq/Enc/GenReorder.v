(* Proofs about Enc/GenModel.v, part 3: the tree reordering loop (not_seen bit mask, tmap_old2new /
   tmap_new2old, assign_codes per first-seen tree) and the dummy second tree. *)
From Coq Require Import List NArith Arith Bool Lia.
From LBZ Require Import Gen.Consts Dec.Format Enc.EncModel Enc.PmModel Enc.PmBasics Enc.PmReal Enc.PmProofs
  Enc.GenModel Enc.GenInit Enc.GenEm.
Import ListNotations.
Local Open Scope N_scope.

(* ---- finite sweeps --------------------------------------------------------------------------------------------- *)
Definition Nrange (n : nat) : list N := map N.of_nat (seq 0 n).

Lemma Nrange_in x n : x < N.of_nat n -> In x (Nrange n).
Proof.
  intro H. unfold Nrange. apply in_map_iff. exists (N.to_nat x). split; [apply N2Nat.id|].
  apply in_seq. lia.
Qed.

Lemma Nrange_length n : length (Nrange n) = n.
Proof. unfold Nrange. rewrite map_length, seq_length. reflexivity. Qed.

(* not_seen & (1 << t), not_seen -= 1 << t on 6-bit masks *)
Definition bits_check : bool :=
  forallb (fun ns => forallb (fun t =>
    let m := N.shiftl 1 t in
    Bool.eqb (negb (N.land ns m =? 0)) (N.testbit ns t) &&
    (if N.testbit ns t
     then (ns - m <? 64) &&
          forallb (fun u => Bool.eqb (N.testbit (ns - m) u) (if u =? t then false else N.testbit ns u)) (Nrange 6)
     else true)) (Nrange 6)) (Nrange 64).

Lemma bits_check_true : bits_check = true.
Proof. vm_compute. reflexivity. Qed.

Lemma bits_fact ns t : ns < 64 -> t < 6 ->
  negb (N.land ns (N.shiftl 1 t) =? 0) = N.testbit ns t /\
  (N.testbit ns t = true -> ns - N.shiftl 1 t < 64 /\
     forall u, u < 6 -> N.testbit (ns - N.shiftl 1 t) u = if u =? t then false else N.testbit ns u).
Proof.
  intros Hns Ht. pose proof bits_check_true as C. unfold bits_check in C.
  rewrite forallb_forall in C. specialize (C ns (Nrange_in ns 64 Hns)).
  rewrite forallb_forall in C. specialize (C t (Nrange_in t 6 Ht)). cbv zeta in C.
  apply andb_prop in C. destruct C as [C1 C2]. apply eqb_prop in C1. split; [exact C1|].
  intro Hb. rewrite Hb in C2. apply andb_prop in C2. destruct C2 as [C2 C3]. split; [apply N.ltb_lt; exact C2|].
  intros u Hu. rewrite forallb_forall in C3. specialize (C3 u (Nrange_in u 6 Hu)). apply eqb_prop in C3. exact C3.
Qed.

(* (1 << nt) - 1 *)
Definition init_mask (nt0 : N) : N := u32 (N.shiftl 1 nt0) - 1.

Definition mask_check : bool :=
  forallb (fun nt0 => (init_mask nt0 <? 64) &&
                      forallb (fun u => Bool.eqb (N.testbit (init_mask nt0) u) (u <? nt0)) (Nrange 6)) (Nrange 7).

Lemma mask_check_true : mask_check = true.
Proof. vm_compute. reflexivity. Qed.

Lemma mask_fact nt0 : nt0 <= 6 -> init_mask nt0 < 64 /\ forall u, u < 6 -> N.testbit (init_mask nt0) u = (u <? nt0).
Proof.
  intro H. pose proof mask_check_true as C. unfold mask_check in C. rewrite forallb_forall in C.
  specialize (C nt0 (Nrange_in nt0 7 ltac:(lia))). apply andb_prop in C. destruct C as [C1 C2].
  split; [apply N.ltb_lt; exact C1|]. intros u Hu. rewrite forallb_forall in C2.
  specialize (C2 u (Nrange_in u 6 Hu)). apply eqb_prop in C2. exact C2.
Qed.

(* t ^ 1 *)
Lemma lxor1_fact t : t < 6 -> N.lxor t 1 < 6 /\ N.lxor t 1 <> t.
Proof.
  intro H. assert (C : forallb (fun t => (N.lxor t 1 <? 6) && negb (N.lxor t 1 =? t)) (Nrange 6) = true)
    by (vm_compute; reflexivity).
  rewrite forallb_forall in C. specialize (C t (Nrange_in t 6 H)). apply andb_prop in C. destruct C as [C1 C2].
  split; [apply N.ltb_lt; exact C1|]. apply N.eqb_neq. apply negb_true_iff. exact C2.
Qed.

(* the dummy tree: cl0 = floor(log2(as)); (2 << cl0) - as codes of cl0 bits, the rest of cl0 + 1 bits: complete *)
Definition dummy_check : bool :=
  forallb (fun a => let aN := N.of_nat a in
                    (cl0_of aN =? N.log2 aN) && (dummy_count aN <=? aN) && table_ok a (dummy_row a)) (seq 2 257).

Lemma dummy_check_true : dummy_check = true.
Proof. vm_compute. reflexivity. Qed.

Lemma dummy_fact a : (2 <= a <= 258)%nat ->
  cl0_of (N.of_nat a) = N.log2 (N.of_nat a) /\ dummy_count (N.of_nat a) <= N.of_nat a /\ table_ok a (dummy_row a) = true.
Proof.
  intro H. pose proof dummy_check_true as C. unfold dummy_check in C. rewrite forallb_forall in C.
  specialize (C a). cbv zeta in C. rewrite !andb_true_iff in C. destruct C as [[C1 C2] C3]; [apply in_seq; lia|].
  split; [apply N.eqb_eq; exact C1|]. split; [apply N.leb_le; exact C2|exact C3].
Qed.

(* ---- lists ------------------------------------------------------------------------------------------------------ *)
Lemma nodup_bound (l : list N) n : NoDup l -> Forall (fun t => t < N.of_nat n) l -> (length l <= n)%nat.
Proof.
  intros Hn Hf. rewrite <- (Nrange_length n). apply NoDup_incl_length; [exact Hn|].
  intros x Hx. apply Nrange_in. rewrite Forall_forall in Hf. apply Hf. exact Hx.
Qed.

Lemma nodup_snoc {A} (l : list A) x : NoDup l -> ~ In x l -> NoDup (l ++ [x]).
Proof.
  induction 1 as [|y l Hy Hl IH]; intro Hx; cbn [app].
  - constructor; [intros []|constructor].
  - constructor.
    + intro Hin. apply in_app_or in Hin. destruct Hin as [Hin|[<-|[]]]; [contradiction|]. apply Hx. left. reflexivity.
    + apply IH. intro Hin. apply Hx. right. exact Hin.
Qed.

Lemma nth_error_upd_same {A} (l : list A) i v : (i < length l)%nat -> nth_error (upd l i v) i = Some v.
Proof.
  revert i. induction l as [|x l IH]; intros i H; [cbn in H; lia|]. destruct i as [|j]; cbn [upd nth_error]; [reflexivity|].
  apply IH. cbn [length] in H. lia.
Qed.

Lemma nth_error_upd_other {A} (l : list A) i j v : i <> j -> nth_error (upd l i v) j = nth_error l j.
Proof.
  revert i j. induction l as [|x l IH]; intros i j H; [destruct i; reflexivity|].
  destruct i as [|i], j as [|j]; cbn [upd nth_error]; try reflexivity; [lia|]. apply IH. lia.
Qed.

Lemma lsum_concat_In (fr : list (list N)) row : In row fr -> lsum row <= lsum (concat fr).
Proof.
  induction fr as [|r0 fr IH]; [intros []|]. cbn [concat]. rewrite lsum_app. intros [->|H]; [lia|].
  apply IH in H. lia.
Qed.

Lemma row_input_ok as_ (fr : list (list N)) row : In row fr -> length row = S as_ -> (2 <= as_ <= 258)%nat ->
  MAX_ALPHA_SIZE * lsum (concat fr) < 2 ^ 32 -> pm_input_ok (firstn as_ row).
Proof.
  intros Hin Hl Has Hb. pose proof (lsum_concat_In fr row Hin) as Hs. pose proof (lsum_firstn_le as_ row) as Hf.
  change MAX_ALPHA_SIZE with 258 in *. change (2 ^ 32) with 4294967296 in *.
  unfold pm_input_ok. rewrite firstn_length, Hl. change (N.to_nat MAX_ALPHA_SIZE) with 258%nat.
  change MAX_ALPHA_SIZE with 258. change (2 ^ 32) with 4294967296.
  split; [lia|]. split; [lia|]. split; [|lia].
  apply Forall_forall. intros x Hx. apply lsum_In in Hx. lia.
Qed.

(* ---- the reordering loop ------------------------------------------------------------------------------------------ *)
Record ro_inv (as_ : nat) (nt0 : N) (s : ro_st) : Prop := {
  ri_lt : ro_not_seen s < 64;
  ri_set : forall u, u < 6 -> N.testbit (ro_not_seen s) u = true -> u < nt0 /\ ~ In u (ro_n2o s);
  ri_clr : forall u, u < nt0 -> N.testbit (ro_not_seen s) u = false -> In u (ro_n2o s);
  ri_cnt : ro_nt s = N.of_nat (length (ro_n2o s));
  ri_nodup : NoDup (ro_n2o s);
  ri_old : Forall (fun t => t < nt0) (ro_n2o s);
  ri_o2n_len : length (ro_o2n s) = NTREES;
  ri_inv : forall j t, nth_error (ro_n2o s) j = Some t -> nth_error (ro_o2n s) (N.to_nat t) = Some (Some (N.of_nat j));
  ri_shape : lens_shape as_ (ro_lens s);
  ri_tabs : Forall (fun t => table_ok as_ (nth (N.to_nat t) (ro_lens s) []) = true) (ro_n2o s)
}.

Lemma reorder_spec as_ nt0 fr : nt0 <= 6 -> (2 <= as_ <= 258)%nat -> fr_shape as_ (N.to_nat nt0) fr ->
  MAX_ALPHA_SIZE * lsum (concat fr) < 2 ^ 32 ->
  forall sels s, Forall (fun t => t < nt0) sels -> ro_inv as_ nt0 s ->
  exists s', reorder as_ fr sels s = GOk s' /\ ro_inv as_ nt0 s' /\
    Forall (fun t => In t (ro_n2o s')) sels /\ (exists ext, ro_n2o s' = ro_n2o s ++ ext).
Proof.
  intros Hnt0 Has [Hfr1 Hfr2] Hb. induction sels as [|t r IH]; intros s Hsels I.
  - exists s. destruct (ro_not_seen s =? 0); cbn [reorder]; (split; [destruct (ro_not_seen s =? 0); reflexivity|]);
      (split; [exact I|]); (split; [constructor|exists []; rewrite app_nil_r; reflexivity]).
  - inversion Hsels as [|? ? Ht Hr]; subst. cbn [reorder].
    destruct (N.eqb_spec (ro_not_seen s) 0) as [Z|NZ].
    + (* every tree has been seen *)
      exists s. split; [reflexivity|]. split; [exact I|]. split; [|exists []; rewrite app_nil_r; reflexivity].
      eapply Forall_impl; [|exact Hsels]. cbn beta. intros u Hu. apply (ri_clr _ _ _ I u Hu). rewrite Z. apply N.bits_0.
    + replace (t <? MAX_TREES) with true by (symmetry; apply N.ltb_lt; change MAX_TREES with 6; lia).
      cbn [negb]. assert (Ht6 : t < 6) by lia.
      destruct (bits_fact (ro_not_seen s) t (ri_lt _ _ _ I) Ht6) as [B1 B2]. rewrite B1.
      destruct (N.testbit (ro_not_seen s) t) eqn:Hbit.
      * (* first occurrence of tree t *)
        destruct (ri_set _ _ _ I t Ht6 Hbit) as [_ Hnew]. destruct (B2 eq_refl) as [B3 B4].
        assert (Hcnt : (length (ro_n2o s) < N.to_nat nt0)%nat).
        { assert (Hn : NoDup (ro_n2o s ++ [t])) by (apply nodup_snoc; [apply (ri_nodup _ _ _ I)|exact Hnew]).
          apply (nodup_bound _ (N.to_nat nt0)) in Hn.
          - rewrite app_length in Hn. cbn [length] in Hn. lia.
          - apply Forall_app. split.
            + eapply Forall_impl; [|apply (ri_old _ _ _ I)]. cbn beta. intros; lia.
            + constructor; [lia|constructor]. }
        unfold gwr. rewrite (ri_o2n_len _ _ _ I).
        replace (N.to_nat t <? NTREES)%nat with true by (symmetry; apply Nat.ltb_lt; change NTREES with 6%nat; lia).
        cbn [gbind]. rewrite (ri_cnt _ _ _ I).
        replace (N.of_nat (length (ro_n2o s)) <? MAX_TREES) with true
          by (symmetry; apply N.ltb_lt; change MAX_TREES with 6; lia).
        cbn [negb]. destruct (ri_shape _ _ _ I) as [Hs1 Hs2].
        destruct (nth_error (ro_lens s) (N.to_nat t)) as [len0|] eqn:El;
          [|apply nth_error_None in El; rewrite Hs1 in El; change NTREES with 6%nat in El; lia].
        unfold grd. rewrite El. cbn [gbind].
        destruct (nth_error fr (N.to_nat t)) as [f|] eqn:Ef; [|apply nth_error_None in Ef; lia].
        cbn [gbind].
        assert (Hf : length f = S as_) by (rewrite Forall_forall in Hfr2; apply Hfr2; eapply nth_error_In; eauto).
        assert (Hl0 : length len0 = as_) by (rewrite Forall_forall in Hs2; apply Hs2; eapply nth_error_In; eauto).
        assert (Hin : pm_input_ok (firstn as_ f)).
        { apply (row_input_ok as_ fr f); auto. eapply nth_error_In; eauto. }
        assert (Hfl : length (firstn as_ f) = as_) by (rewrite firstn_length, Hf; lia).
        destruct (assign_lengths_complete (firstn as_ f) len0 Hin) as [res [Eres [Tok _]]]; [lia|].
        rewrite Eres. rewrite Hfl in Tok.
        assert (Hrl : length (r_lengths res) = as_).
        { unfold table_ok in Tok. apply andb_prop in Tok. destruct Tok as [Tok _]. apply andb_prop in Tok.
          destruct Tok as [Tok _]. apply Nat.eqb_eq. exact Tok. }
        match goal with |- exists s', reorder _ _ _ ?S = _ /\ _ => set (s1 := S) end.
        assert (I1 : ro_inv as_ nt0 s1).
        { unfold s1. constructor; cbn [ro_not_seen ro_nt ro_o2n ro_n2o ro_lens ro_cost].
          - exact B3.
          - intros u Hu Hbu. rewrite (B4 u Hu) in Hbu. destruct (N.eqb_spec u t) as [->|Hne]; [discriminate|].
            destruct (ri_set _ _ _ I u Hu Hbu) as [X1 X2]. split; [exact X1|].
            intro Hin'. apply in_app_or in Hin'. destruct Hin' as [Hin'|[Hin'|[]]]; [contradiction|]. apply Hne. symmetry. exact Hin'.
          - intros u Hu Hbu. rewrite (B4 u ltac:(lia)) in Hbu. apply in_or_app. destruct (N.eqb_spec u t) as [->|Hne].
            + right. left. reflexivity.
            + left. apply (ri_clr _ _ _ I u Hu Hbu).
          - rewrite app_length. cbn [length]. lia.
          - apply nodup_snoc; [apply (ri_nodup _ _ _ I)|exact Hnew].
          - apply Forall_app. split; [apply (ri_old _ _ _ I)|constructor; [exact Ht|constructor]].
          - rewrite upd_length. apply (ri_o2n_len _ _ _ I).
          - intros j t' Hj. destruct (Nat.lt_ge_cases j (length (ro_n2o s))) as [Hlt|Hge].
            + rewrite nth_error_app1 in Hj by exact Hlt.
              assert (t' <> t) by (intro; subst t'; apply Hnew; eapply nth_error_In; eauto).
              rewrite nth_error_upd_other by lia. apply (ri_inv _ _ _ I). exact Hj.
            + rewrite nth_error_app2 in Hj by exact Hge.
              destruct (j - length (ro_n2o s))%nat as [|k] eqn:Ej; cbn [nth_error] in Hj; [|destruct k; discriminate].
              inversion Hj; subst t'. rewrite nth_error_upd_same by (rewrite (ri_o2n_len _ _ _ I); change NTREES with 6%nat; lia).
              do 3 f_equal. lia.
          - split; [rewrite upd_length; exact Hs1|]. apply Forall_forall. intros x Hx. apply upd_In in Hx.
            destruct Hx as [->|Hx]; [exact Hrl|]. rewrite Forall_forall in Hs2. apply Hs2. exact Hx.
          - apply Forall_app. split.
            + apply Forall_forall. intros u Hu. assert (u <> t) by (intro; subst u; contradiction).
              rewrite upd_nth_other by lia. pose proof (ri_tabs _ _ _ I) as T. rewrite Forall_forall in T. apply T. exact Hu.
            + constructor; [|constructor]. rewrite upd_nth_same by (rewrite Hs1; change NTREES with 6%nat; lia). exact Tok. }
        destruct (IH s1 Hr I1) as [s' [E [I' [F' [ext Ext]]]]].
        exists s'. split; [exact E|]. split; [exact I'|]. split.
        -- constructor; [|exact F']. rewrite Ext. unfold s1. cbn [ro_n2o]. apply in_or_app. left. apply in_or_app. right. left. reflexivity.
        -- exists ([t] ++ ext). rewrite Ext. unfold s1. cbn [ro_n2o]. rewrite <- app_assoc. reflexivity.
      * (* already seen *)
        cbn [negb]. destruct (IH s Hr I) as [s' [E [I' [F' [ext Ext]]]]].
        exists s'. split; [exact E|]. split; [exact I'|]. split; [|exists ext; exact Ext].
        constructor; [|exact F']. rewrite Ext. apply in_or_app. left. apply (ri_clr _ _ _ I t Ht Hbit).
Qed.

Lemma ro_init_inv as_ nt0 lens : 1 <= nt0 <= 6 -> lens_shape as_ lens ->
  ro_inv as_ nt0 (mkro (init_mask nt0) 0 (repeat None NTREES) [] lens 0).
Proof.
  intros Hnt Hs. destruct (mask_fact nt0 ltac:(lia)) as [M1 M2].
  constructor; cbn [ro_not_seen ro_nt ro_o2n ro_n2o ro_lens ro_cost].
  - exact M1.
  - intros u Hu Hb. rewrite (M2 u Hu) in Hb. apply N.ltb_lt in Hb. split; [exact Hb|intros []].
  - intros u Hu Hb. rewrite (M2 u ltac:(lia)) in Hb. apply N.ltb_ge in Hb. lia.
  - reflexivity.
  - constructor.
  - constructor.
  - apply repeat_length.
  - intros j t Hj. destruct j; discriminate.
  - exact Hs.
  - constructor.
Qed.
