(* C01/C02 with the tables and selectors COMPUTED by the model of generate_prefix_code() (Enc/GenModel.v):
   the witness shrinks to the BWT primary index (divbwt.c), the padding choices of encode() (tree_pad and the
   surplus selector) - plus the requirement that the model of make_code_lengths() returned no error value. *)
From Coq Require Import List NArith Arith Bool Lia.
From LBZ Require Rle.RleModel.
From LBZ Require Import Common.Bits Gen.Consts Dec.Prog Dec.Format Dec.Policies Dec.DecProofs Dec.CrcProofs
  Enc.EncModel Enc.MtfProofs Enc.RleInvProofs Enc.BlockProofs Enc.StreamProofs Enc.EncCompose
  Enc.PmModel Enc.GenModel Enc.GenInit Enc.GenEm Enc.GenReorder Enc.GenProofs Enc.GenMcl.
Import ListNotations.
Local Open Scope N_scope.

(* the MTF/zero-run symbols of a block, EOB included: what generate_prefix_code() is run on *)
Definition blk_syms (blk : list N) : list N :=
  let col := bwt_last blk in mtf_zrle col ++ [N.of_nat (length (used_bytes col)) + 1].

Lemma block_syms_blk w : block_syms w = blk_syms (w_blk w).
Proof. reflexivity. Qed.

(* the witness built from the model's result and the remaining free choices *)
Definition gen_witness (mcl : list N -> list N -> gres (list N)) (cf : N)
  (blk : list N) (idx : N) (extra : bool) (pad crc : N) : gres witness :=
  gdo r <- gen_prefix_code_with mcl cf (blk_syms blk);
  GOk {| w_blk := blk; w_idx := idx; w_tables := g_tables r; w_sels := g_sels r;
         w_extra_sel := extra; w_pad := pad; w_crc := crc |}.

(* ---- the symbol vector of a block is a legal input of generate_prefix_code ------------------------------------------ *)
Lemma zrun_digits_nonempty k : k <> 0 -> zrun_digits k <> [].
Proof. intro H. unfold zrun_digits. cbn [zrun]. replace (k =? 0) with false by (symmetry; apply N.eqb_neq; exact H). discriminate. Qed.

Lemma mtf_go_nonempty : forall rest order k, k <> 0 \/ rest <> [] -> mtf_go order k rest <> [].
Proof.
  induction rest as [|c r IH]; intros order k H; cbn [mtf_go].
  - destruct H as [H|H]; [apply zrun_digits_nonempty; exact H|contradiction].
  - destruct (index_of c order) as [|i].
    + apply IH. left. lia.
    + intro E. apply app_eq_nil in E. destruct E as [_ E]. discriminate.
Qed.

Lemma used_bytes_le_256 col : Forall (fun c => c < 256) col -> (length (used_bytes col) <= 256)%nat.
Proof.
  intro H. apply (nodup_bound _ 256); [apply used_bytes_NoDup|].
  apply Forall_forall. intros c Hc. apply (proj1 (used_bytes_In col c)) in Hc. rewrite Forall_forall in H. apply H in Hc.
  change (N.of_nat 256) with 256. exact Hc.
Qed.

Lemma last_snoc (l : list N) x d : last (l ++ [x]) d = x.
Proof. induction l as [|y l IH]; [reflexivity|]. cbn [app]. destruct (l ++ [x]) eqn:E; [destruct l; discriminate|]. cbn [last]. exact IH. Qed.

Lemma blk_syms_input_ok blk : blk <> [] -> N.of_nat (length blk) <= MAX_BLOCK_SIZE -> Forall (fun c => c < 256) blk ->
  gen_input_ok (blk_syms blk) /\ last (blk_syms blk) 0 + 1 = N.of_nat (length (used_bytes (bwt_last blk)) + 2).
Proof.
  intros Hne Hlen Hb. unfold gen_input_ok, blk_syms. cbv zeta. set (col := bwt_last blk).
  assert (Hcol : Forall (fun c => c < 256) col).
  { apply Forall_forall. intros c Hc. apply bwt_last_In in Hc. rewrite Forall_forall in Hb. apply Hb. exact Hc. }
  assert (Hcl : length col = length blk) by apply bwt_last_length.
  pose proof (used_bytes_le_256 col Hcol) as Hu.
  pose proof (mtf_zrle_length col) as Hml.
  assert (Hmn : mtf_zrle col <> []).
  { unfold mtf_zrle. apply mtf_go_nonempty. right. intro E. rewrite E in Hcl. destruct blk; [contradiction|discriminate]. }
  rewrite last_snoc, app_length. cbn [length].
  split; [|lia]. split; [|split].
  - destruct (mtf_zrle col); [contradiction|]. cbn [length] in *. unfold GEN_MAX_NM.
    change MAX_BLOCK_SIZE with 900000 in *. change GROUP_SIZE with 50. lia.
  - change MAX_ALPHA_SIZE with 258. lia.
  - apply Forall_app. split.
    + apply Forall_forall. intros s Hs. apply mtf_zrle_symbols_in_range in Hs. lia.
    + constructor; [lia|constructor].
Qed.

(* ---- the computed witness is acceptable ----------------------------------------------------------------------------- *)
Theorem gen_witness_is_ok : forall E mcl cf M blk idx extra pad crc w,
  mcl_wf E mcl -> 1 <= cf -> M <= MAX_BLOCK_SIZE ->
  blk <> [] -> N.of_nat (length blk) <= M -> Forall (fun c => c < 256) blk ->
  valid_idxb blk idx = true -> pad <= 3 -> crc < 2 ^ 32 ->
  gen_witness mcl cf blk idx extra pad crc = GOk w ->
  witness_ok M w = true /\ w_blk w = blk /\ w_crc w = crc.
Proof.
  intros E mcl cf M blk idx extra pad crc w W Hcf HM Hne Hlen Hb Hidx Hpad Hcrc Hw.
  destruct (blk_syms_input_ok blk Hne ltac:(lia) Hb) as [Hin Has].
  pose proof (gen_witness_ok_gen E mcl cf (blk_syms blk) W Hcf Hin) as G.
  unfold gen_witness in Hw. destruct (gen_prefix_code_with mcl cf (blk_syms blk)) as [r|e]; [|discriminate].
  cbn [gbind] in Hw. inversion Hw; subst w. clear Hw. cbv beta iota delta [err_only] in G.
  split; [|split; reflexivity].
  destruct G as [G1 G2 G3 G4 G5 G6 _ _].
  unfold witness_ok. cbn [w_blk w_idx w_tables w_sels w_extra_sel w_pad w_crc]. rewrite block_syms_blk. cbn [w_blk].
  rewrite Has in G3. rewrite Nat2N.id in G3.
  assert (Hng : N.of_nat ((length (blk_syms blk) + 49) / 50) = num_groups (N.of_nat (length (blk_syms blk)))).
  { unfold num_groups. change GROUP_SIZE with 50. rewrite Nat2N.inj_div, Nat2N.inj_add. f_equal. lia. }
  repeat (apply andb_true_intro; split).
  - apply negb_true_iff. apply N.eqb_neq. destruct blk; [contradiction|cbn [length]; lia].
  - apply N.leb_le. exact Hlen.
  - apply forallb_forall. intros c Hc. apply N.ltb_lt. rewrite Forall_forall in Hb. apply Hb. exact Hc.
  - exact Hidx.
  - apply Nat.leb_le. lia.
  - apply Nat.leb_le. lia.
  - exact G3.
  - apply Nat.eqb_eq. apply Nat2N.inj. rewrite Hng. exact G4.
  - apply forallb_forall. intros s Hs. apply N.ltb_lt. rewrite Forall_forall in G5. rewrite G2. apply G5. exact Hs.
  - apply N.leb_le. rewrite Hng. destruct extra; lia.
  - apply N.leb_le. exact Hpad.
  - apply N.ltb_lt. exact Hcrc.
Qed.

(* ---- CRC values are 32-bit ------------------------------------------------------------------------------------------- *)
Lemma lxor_lt32 a b : a < 2 ^ 32 -> b < 2 ^ 32 -> N.lxor a b < 2 ^ 32.
Proof.
  intros Ha Hb. apply lt_pow2_bits. intros m Hm. rewrite N.lxor_spec.
  rewrite (proj1 (lt_pow2_bits a 32) Ha m Hm), (proj1 (lt_pow2_bits b 32) Hb m Hm). reflexivity.
Qed.

Lemma crc_table_lt32 i : nth i Gen.CrcTab.crc_table 0 < 2 ^ 32.
Proof.
  assert (H : forallb (fun x => x <? 2 ^ 32) Gen.CrcTab.crc_table = true) by (vm_compute; reflexivity).
  rewrite forallb_forall in H.
  destruct (Nat.lt_ge_cases i (length Gen.CrcTab.crc_table)) as [L|L].
  - apply N.ltb_lt, H, nth_In, L.
  - rewrite nth_overflow by exact L. reflexivity.
Qed.

Lemma crc_step_lt32 s x : crc_step s x < 2 ^ 32.
Proof.
  unfold crc_step. apply lxor_lt32; [|apply crc_table_lt32].
  change mask32 with (N.ones 32). rewrite N.land_ones. apply N.mod_lt. discriminate.
Qed.

Lemma crc_bytes_lt32 : forall l s, s < 2 ^ 32 -> crc_bytes s l < 2 ^ 32.
Proof.
  induction l as [|x l IH]; intros s Hs; [exact Hs|].
  unfold crc_bytes in *. cbn [fold_left]. apply IH, crc_step_lt32.
Qed.

Lemma block_crc_lt32 x : N.lxor (crc_bytes mask32 x) mask32 < 2 ^ 32.
Proof. apply lxor_lt32; [apply crc_bytes_lt32|]; apply mask32_lt. Qed.

(* ---- one block of input -> its computed witness ------------------------------------------------------------------------ *)
(* the per-block free choices that remain: BWT index, surplus selector, tree padding *)
Record choice := { c_idx : N; c_extra : bool; c_pad : N }.

Definition computed_block (mcl : list N -> list N -> gres (list N)) (cf level : N) (x : list N) (c : choice) (w : witness) : Prop :=
  Forall (fun b => b < 256) x /\ x <> [] /\
  N.of_nat (length (RleModel.rle1 x)) <= 100000 * level /\
  valid_idxb (RleModel.rle1 x) (c_idx c) = true /\ c_pad c <= 3 /\
  gen_witness mcl cf (RleModel.rle1 x) (c_idx c) (c_extra c) (c_pad c) (N.lxor (crc_bytes mask32 x) mask32) = GOk w.

Lemma computed_block_ok E mcl cf level x c w : mcl_wf E mcl -> 1 <= cf -> 1 <= level <= 9 ->
  computed_block mcl cf level x c w ->
  witness_ok (100000 * level) w = true /\ Forall (fun b => b < 256) x /\ x <> [] /\
  w_blk w = RleModel.rle1 x /\ w_crc w = N.lxor (crc_bytes mask32 x) mask32.
Proof.
  intros W Hcf Hl [Hx [Hne [Hlen [Hidx [Hpad Hw]]]]].
  assert (HM : 100000 * level <= MAX_BLOCK_SIZE) by (change MAX_BLOCK_SIZE with 900000; lia).
  destruct (gen_witness_is_ok E mcl cf (100000 * level) _ _ _ _ _ w W Hcf HM (rle1_nonempty x Hne) Hlen
              (rle1_bytes x Hx) Hidx Hpad (block_crc_lt32 x) Hw) as [K1 [K2 K3]].
  auto.
Qed.

Lemma computed_blocks_ok E mcl cf level : mcl_wf E mcl -> 1 <= cf -> 1 <= level <= 9 ->
  forall xs cs ws, Forall2 (fun xc w => computed_block mcl cf level (fst xc) (snd xc) w) (combine xs cs) ws ->
  length cs = length xs ->
  Forall2 (fun w x => witness_ok (100000 * level) w = true /\ Forall (fun c => c < 256) x /\ x <> [] /\
                      w_blk w = RleModel.rle1 x /\ w_crc w = N.lxor (crc_bytes mask32 x) mask32) ws xs.
Proof.
  intros W Hcf Hl. induction xs as [|x xs IH]; intros cs ws HF HL.
  - cbn [combine] in HF. inversion HF. constructor.
  - destruct cs as [|c cs]; [discriminate|]. cbn [combine] in HF. inversion HF as [|? w ? ws' H1 H2]; subst.
    constructor.
    + cbn [fst snd] in H1. eapply computed_block_ok; eauto.
    + apply IH with (cs := cs); [exact H2|]. cbn [length] in HL. lia.
Qed.

(* C01/C02 with computed tables and selectors *)
Theorem gen_stream_roundtrip : forall mcl cf level (xs : list (list N)) (cs : list choice) (ws : list witness),
  mcl_wf is_mcl_err mcl -> 1 <= cf -> 1 <= level <= 9 -> length cs = length xs ->
  Forall2 (fun xc w => computed_block mcl cf level (fst xc) (snd xc) w) (combine xs cs) ws ->
  lbz_decode (bytes_of_bits (pad_to_byte (write_stream level ws))) = Prog.Ok (concat xs) /\
  ref_noexc_decode (bytes_of_bits (pad_to_byte (write_stream level ws))) = Prog.Ok (concat xs) /\
  ref_decode (bytes_of_bits (pad_to_byte (write_stream level ws))) = Prog.Ok (concat xs).
Proof.
  intros mcl cf level xs cs ws W Hcf Hl HL HF.
  pose proof (computed_blocks_ok is_mcl_err mcl cf level W Hcf Hl xs cs ws HF HL) as H.
  split; [apply stream_roundtrip_lbz; assumption|]. apply stream_strict_both; assumption.
Qed.

(* the instance with the exact model of make_code_lengths *)
Corollary gen_stream_roundtrip_real : forall cf level (xs : list (list N)) (cs : list choice) (ws : list witness),
  1 <= cf -> 1 <= level <= 9 -> length cs = length xs ->
  Forall2 (fun xc w => computed_block make_code_lengths cf level (fst xc) (snd xc) w) (combine xs cs) ws ->
  lbz_decode (bytes_of_bits (pad_to_byte (write_stream level ws))) = Prog.Ok (concat xs) /\
  ref_noexc_decode (bytes_of_bits (pad_to_byte (write_stream level ws))) = Prog.Ok (concat xs) /\
  ref_decode (bytes_of_bits (pad_to_byte (write_stream level ws))) = Prog.Ok (concat xs).
Proof. intros cf level xs cs ws. apply gen_stream_roundtrip. exact make_code_lengths_wf. Qed.
