(* Totality of the model of generate_prefix_code() on the symbol vector of every real block (Enc/GenCompose.v):
   the alphabet of a non-empty block has at least MIN_ALPHA_SIZE = 3 symbols (RUNA, RUNB / one byte value, EOB), so
   Enc/GenMclTotal.v applies: the witness built from the model's result EXISTS - the premise
   "gen_witness .. = GOk w" of computed_block is a theorem. *)
From Coq Require Import List NArith Arith Bool Lia.
From LBZ Require Rle.RleModel.
From LBZ Require Import Common.Bits Gen.Consts Dec.Prog Dec.Format Dec.Policies Dec.DecProofs Dec.CrcProofs
  Enc.EncModel Enc.MtfProofs Enc.RleInvProofs Enc.BlockProofs Enc.StreamProofs Enc.EncCompose
  Enc.PmModel Enc.GenModel Enc.GenInit Enc.GenEm Enc.GenReorder Enc.GenProofs Enc.GenMcl Enc.GenCompose
  Enc.GenMclDefs Enc.GenMclTotal.
Import ListNotations.
Local Open Scope N_scope.

Lemma blk_syms_alpha_ge3 blk : blk <> [] -> N.of_nat (length blk) <= MAX_BLOCK_SIZE -> Forall (fun c => c < 256) blk ->
  3 <= last (blk_syms blk) 0 + 1.
Proof.
  intros Hne Hlen Hb. destruct (blk_syms_input_ok blk Hne Hlen Hb) as [_ E]. rewrite E.
  assert (H : (1 <= length (used_bytes (bwt_last blk)))%nat).
  { pose proof (bwt_last_length blk) as L. destruct (bwt_last blk) as [|c col] eqn:Ec.
    - destruct blk; [contradiction|discriminate].
    - assert (Hin : In c (used_bytes (c :: col))) by (apply used_bytes_In; left; reflexivity).
      destruct (used_bytes (c :: col)); [contradiction|cbn [length]; lia]. }
  lia.
Qed.

(* generate_prefix_code() on the symbols of a block: a result, never an error value *)
Theorem gen_block_total : forall cf blk,
  1 <= cf -> blk <> [] -> N.of_nat (length blk) <= MAX_BLOCK_SIZE -> Forall (fun c => c < 256) blk ->
  exists r, gen_prefix_code cf (blk_syms blk) = GOk r /\ gen_result_ok (blk_syms blk) r.
Proof.
  intros cf blk Hcf Hne Hlen Hb. apply gen_prefix_code_total; [exact Hcf| |].
  - apply (blk_syms_input_ok blk Hne Hlen Hb).
  - apply blk_syms_alpha_ge3; assumption.
Qed.

Theorem gen_witness_total : forall cf blk idx extra pad crc,
  1 <= cf -> blk <> [] -> N.of_nat (length blk) <= MAX_BLOCK_SIZE -> Forall (fun c => c < 256) blk ->
  exists w, gen_witness make_code_lengths cf blk idx extra pad crc = GOk w.
Proof.
  intros cf blk idx extra pad crc Hcf Hne Hlen Hb.
  destruct (gen_block_total cf blk Hcf Hne Hlen Hb) as [r [E _]].
  unfold gen_witness. unfold gen_prefix_code in E. rewrite E. cbn [gbind]. eexists. reflexivity.
Qed.

(* every admissible input block has a computed witness, for every choice of a valid BWT index and padding *)
Theorem computed_block_exists : forall cf level x c,
  1 <= cf -> 1 <= level <= 9 -> Forall (fun b => b < 256) x -> x <> [] ->
  N.of_nat (length (RleModel.rle1 x)) <= 100000 * level ->
  valid_idxb (RleModel.rle1 x) (c_idx c) = true -> c_pad c <= 3 ->
  exists w, computed_block make_code_lengths cf level x c w.
Proof.
  intros cf level x c Hcf Hl Hx Hne Hlen Hidx Hpad.
  destruct (gen_witness_total cf (RleModel.rle1 x) (c_idx c) (c_extra c) (c_pad c) (N.lxor (crc_bytes mask32 x) mask32)
              Hcf (rle1_nonempty x Hne)) as [w E].
  - change MAX_BLOCK_SIZE with 900000. lia.
  - apply rle1_bytes. exact Hx.
  - exists w. unfold computed_block. repeat split; assumption.
Qed.

(* C01/C02 with computed tables and selectors, without any assumption on the model's success: for all non-empty
   blocks x_1..x_k within the block size of the level and every choice of valid BWT indices and paddings, the
   computed witnesses exist and the stream written with them decodes to x_1 ++ .. ++ x_k *)
Definition block_choice_ok (level : N) (x : list N) (c : choice) : Prop :=
  Forall (fun b => b < 256) x /\ x <> [] /\ N.of_nat (length (RleModel.rle1 x)) <= 100000 * level /\
  valid_idxb (RleModel.rle1 x) (c_idx c) = true /\ c_pad c <= 3.

Theorem gen_stream_total : forall cf level (xs : list (list N)) (cs : list choice),
  1 <= cf -> 1 <= level <= 9 -> Forall2 (block_choice_ok level) xs cs ->
  exists ws,
    Forall2 (fun xc w => computed_block make_code_lengths cf level (fst xc) (snd xc) w) (combine xs cs) ws /\
    lbz_decode (bytes_of_bits (pad_to_byte (write_stream level ws))) = Prog.Ok (concat xs) /\
    ref_noexc_decode (bytes_of_bits (pad_to_byte (write_stream level ws))) = Prog.Ok (concat xs) /\
    ref_decode (bytes_of_bits (pad_to_byte (write_stream level ws))) = Prog.Ok (concat xs).
Proof.
  intros cf level xs cs Hcf Hl HF.
  assert (E : exists ws, Forall2 (fun xc w => computed_block make_code_lengths cf level (fst xc) (snd xc) w)
                                 (combine xs cs) ws).
  { induction HF as [|x c xs cs [H1 [H2 [H3 [H4 H5]]]] _ IH]; [exists []; constructor|].
    destruct IH as [ws IH]. destruct (computed_block_exists cf level x c Hcf Hl H1 H2 H3 H4 H5) as [w Hw].
    exists (w :: ws). cbn [combine]. constructor; [exact Hw|exact IH]. }
  destruct E as [ws E]. exists ws. split; [exact E|].
  apply (gen_stream_roundtrip_real cf level xs cs ws Hcf Hl); [|exact E].
  clear E. induction HF as [|x c xs cs _ _ IH]; cbn [length]; [reflexivity|]. rewrite IH. reflexivity.
Qed.

Print Assumptions computed_block_exists.
Print Assumptions gen_stream_total.
