(* C20 - theorems about the executable model of sort_alphabet/package_merge/assign_codes (Enc/PmModel.v):
   L1 (no error value: no out-of-bounds index, no unsigned wrap used as index/count, no failed assert, fuel
   suffices) and L2 (the result is a complete prefix code with all lengths in 1..height <= 20). *)
From Coq Require Import List NArith ZArith Arith Bool Lia ZifyBool ZifyNat Sorting.Permutation.
From LBZ Require Import Gen.Consts Dec.Format Enc.EncModel Enc.HuffProofs Enc.PmModel Enc.PmBasics Enc.PmLoop
  Enc.PmIdeal Enc.PmReal Enc.PmRefine Enc.PmAssign.
Import ListNotations.
Local Open Scope N_scope.

Lemma MCL_20 : MCL = 20%nat. Proof. reflexivity. Qed.
Lemma MAS_258 : N.to_nat MAX_ALPHA_SIZE = 258%nat. Proof. reflexivity. Qed.

(* ---- the low 16 bits of the labels are a permutation of MAX_ALPHA_SIZE - symbol ------------------------------ *)
Definition idx (w : N) : nat := N.to_nat (MAX_ALPHA_SIZE - N.land w 65535).

Lemma land_label fv j0 : (j0 < N.to_nat MAX_ALPHA_SIZE)%nat ->
  N.land (leaf_label fv (N.of_nat j0)) 65535 = MAX_ALPHA_SIZE - N.of_nat j0.
Proof.
  intro Hj. assert (HM : MAX_ALPHA_SIZE < 2 ^ 16) by (vm_compute; reflexivity).
  rewrite leaf_label_enc by lia. change 65535 with (N.ones 16). rewrite N.land_ones.
  unfold enc, U32. replace (fv * 4294967296 + (65536 + (MAX_ALPHA_SIZE - N.of_nat j0)))
    with ((MAX_ALPHA_SIZE - N.of_nat j0) + (fv * 65536 + 1) * 2 ^ 16) by lia.
  rewrite N.mod_add by lia. apply N.mod_small. lia.
Qed.

Section Symbols.
Variable f : list N.
Notation n := (length f).
Hypothesis Hnmax : (n <= N.to_nat MAX_ALPHA_SIZE)%nat.
Let sorted := sort_desc (labels f).
Let lw := make_leaf_weight f.

Lemma labels_land j0 : (j0 < n)%nat -> N.land (nth j0 (labels f) 0) 65535 = MAX_ALPHA_SIZE - N.of_nat j0.
Proof.
  intro Hj. unfold labels. rewrite label_from_nth by exact Hj. rewrite N.add_0_l. apply land_label. lia.
Qed.

Lemma idx_labels : map idx (labels f) = seq 0 n.
Proof.
  apply nth_ext with (d := idx 0) (d' := 0%nat).
  - rewrite map_length, seq_length. unfold labels. apply label_from_length.
  - intros j Hj. rewrite map_length in Hj. unfold labels in Hj. rewrite label_from_length in Hj.
    rewrite map_nth, seq_nth by exact Hj. unfold idx. rewrite labels_land by exact Hj. lia.
Qed.

Lemma idx_sorted_perm : Permutation (map idx sorted) (seq 0 n).
Proof. rewrite <- idx_labels. apply Permutation_map. apply sort_desc_perm. Qed.

Lemma sorted_len : length sorted = n.
Proof. unfold sorted. rewrite (Permutation_length (sort_desc_perm _)). apply label_from_length. Qed.

Lemma symj_idx j : symj lw j = idx (nth j sorted 0).
Proof. reflexivity. Qed.

Lemma sym_low j : (j < n)%nat -> N.land (nth (S j) lw 0) 65535 <= MAX_ALPHA_SIZE.
Proof.
  intro Hj. change (nth (S j) lw 0) with (nth j sorted 0).
  assert (Hin : In (nth j sorted 0) (labels f)).
  { apply (Permutation_in _ (sort_desc_perm _)). apply nth_In. fold sorted. rewrite sorted_len. exact Hj. }
  apply (In_nth _ _ 0) in Hin. destruct Hin as [j0 [Hj0 E]]. unfold labels in Hj0. rewrite label_from_length in Hj0.
  rewrite <- E, labels_land by exact Hj0. lia.
Qed.

Lemma sym_lt j : (j < n)%nat -> (symj lw j < n)%nat.
Proof.
  intro Hj. rewrite symj_idx.
  assert (Hin : In (idx (nth j sorted 0)) (map idx sorted)) by (apply in_map; apply nth_In; rewrite sorted_len; exact Hj).
  apply (Permutation_in _ idx_sorted_perm) in Hin. apply in_seq in Hin. lia.
Qed.

Lemma sym_inj i j : (i < n)%nat -> (j < n)%nat -> symj lw i = symj lw j -> i = j.
Proof.
  intros Hi Hj E. rewrite !symj_idx in E.
  assert (ND : NoDup (map idx sorted)).
  { apply (Permutation_NoDup (l := seq 0 n)); [symmetry; apply idx_sorted_perm|apply seq_NoDup]. }
  rewrite (NoDup_nth _ 0%nat) in ND. apply ND; rewrite ?map_length, ?sorted_len; try assumption.
  rewrite !(nth_indep _ 0%nat (idx 0)) by (rewrite map_length, sorted_len; assumption).
  rewrite !map_nth. exact E.
Qed.
End Symbols.

(* ---- the height loop ------------------------------------------------------------------------------------------- *)
Section Heights.
Variable f : list N.
Notation n := (length f).
Hypothesis Hn2 : (2 <= n)%nat.
Hypothesis Hnmax : (n <= N.to_nat MAX_ALPHA_SIZE)%nat.
Let lw := make_leaf_weight f.
Variable t : list (list N).
Hypothesis Ht : length t = S MCL.
Hypothesis Hgood : forall h, (1 <= h)%nat -> (h <= 20)%nat -> (n <= 2 ^ h)%nat -> good_row n h (nth h t []).

Let Hlw : length lw = S n := lw_length f.
Let Hlow := sym_low f Hnmax.
Let Hsym := sym_lt f Hnmax.
Let Hinj := sym_inj f Hnmax.

Lemma shift_cmp h : (N.shiftl 1 (N.of_nat h) <? N.of_nat n) = false <-> (n <= 2 ^ h)%nat.
Proof.
  rewrite N.shiftl_1_l. change 2 with (N.of_nat 2). rewrite <- Nnat.Nat2N.inj_pow.
  rewrite N.ltb_ge. lia.
Qed.

(* deriving the lengths of one good row never fails and writes every entry of length[] *)
Lemma row_lengths_ok h len cost0 : (1 <= h)%nat -> (h <= 20)%nat -> (n <= 2 ^ h)%nat -> length len = n ->
  exists cost', per_depth h 1 (nth h t []) lw n len cost0 0 =
    Ok (apply_writes lw (combine (seq 0 n) (dlist (nth h t []) 1 h)) len, cost', n) /\
    length (dlist (nth h t []) 1 h) = n.
Proof.
  intros H1 H20 Hp Hlen. pose proof (Hgood h H1 H20 Hp) as G.
  pose proof (good_dlist_length n h _ G H1 H20 ltac:(lia) MCL_20) as DL.
  assert (P1 : (1 + h <= length (nth h t []))%nat) by (rewrite (g_len _ _ _ G), MCL_20; lia).
  assert (P2 : forall i, (1 <= i)%nat -> (i < 1 + h)%nat -> nth i (nth h t []) 0 <= nth (i - 1) (nth h t []) 0).
  { intros i Hi _. apply (g_mono _ _ _ G). exact Hi. }
  assert (P3 : (0 + length (dlist (nth h t []) 1 h) <= n)%nat) by (rewrite DL; lia).
  destruct (per_depth_spec lw n Hlw Hlow Hsym Hinj (nth h t []) h 1 len cost0 0 ltac:(lia) P1 P2 P3 Hlen) as [c E].
  exists c. rewrite DL in E. cbn [Nat.add] in E. split; [exact E|exact DL].
Qed.

Lemma heights_loop_ok : forall k height len bc bh, (height + k = S MCL)%nat -> (2 <= height)%nat -> length len = n ->
  exists len' bc' bh', heights_loop k height t lw n len bc bh = Ok (len', bc', bh') /\ length len' = n /\
    (bh' = bh \/ ((2 <= bh')%nat /\ (bh' <= 20)%nat /\ (n <= 2 ^ bh')%nat)).
Proof.
  induction k as [|k IH]; intros height len bc bh Hk Hh Hlen.
  - exists len, bc, bh. cbn [heights_loop]. auto.
  - cbn [heights_loop]. rewrite MCL_20 in Hk.
    destruct (N.shiftl 1 (N.of_nat height) <? N.of_nat n) eqn:Ecmp.
    + apply IH; [rewrite MCL_20|lia|exact Hlen]. lia.
    + apply shift_cmp in Ecmp.
      pose proof (Hgood height ltac:(lia) ltac:(lia) Ecmp) as G.
      rewrite (rd_ok ATree t height []) by (rewrite Ht, MCL_20; lia). cbn [bind].
      rewrite (rd_ok ARow (nth height t []) (height - 1) 0) by (rewrite (g_len _ _ _ G), MCL_20; lia). cbn [bind].
      destruct (nth (height - 1) (nth height t []) 0 =? 0).
      * exists len, bc, bh. auto.
      * unfold height_cost.
        destruct (row_lengths_ok height len 0 ltac:(lia) ltac:(lia) Ecmp Hlen) as [c [E _]].
        rewrite E. cbn [bind].
        set (len1 := apply_writes lw _ len).
        assert (L1 : length len1 = n) by (unfold len1; rewrite apply_writes_length; exact Hlen).
        set (cost := N.land _ MAX32).
        destruct (cost <? bc).
        -- destruct (IH (S height) len1 cost height ltac:(rewrite MCL_20; lia) ltac:(lia) L1)
             as [len' [bc' [bh' [E' [L' B']]]]].
           exists len', bc', bh'. split; [exact E'|]. split; [exact L'|].
           destruct B' as [->|B']; [right; repeat split; lia || assumption|right; exact B'].
        -- destruct (IH (S height) len1 bc bh ltac:(rewrite MCL_20; lia) ltac:(lia) L1)
             as [len' [bc' [bh' [E' [L' B']]]]].
           exists len', bc', bh'. auto.
Qed.
End Heights.

(* ---- main results ------------------------------------------------------------------------------------------------ *)
Section Main.
Variable f : list N.
Notation n := (length f).
Hypothesis Hn2 : (2 <= n)%nat.
Hypothesis Hnmax : (n <= N.to_nat MAX_ALPHA_SIZE)%nat.
Hypothesis Hf : Forall (fun x => x < U32) f.
Hypothesis HB : N.of_nat (Nat.max n MCL) * lsum f < U32.

Let lw := make_leaf_weight f.
Let xs := xs_of f.
Let Hxn : length xs = n := xs_length f.
Let Hxn2 : (2 <= length xs)%nat.
Proof. rewrite Hxn. exact Hn2. Qed.
Let Hxs := xs_sorted f Hn2 Hnmax.

(* the rows of the level sequences are good whenever a complete code of that height exists *)
Lemma ideal_row_good h : (1 <= h)%nat -> (h <= 20)%nat -> (n <= 2 ^ h)%nat ->
  good_row n h (ia (ilev xs h (2 * n - 2))).
Proof.
  intros H1 H20 Hp. destruct h as [|d1]; [lia|].
  assert (T : (2 <= 2 * n - 2)%nat) by lia.
  assert (T' : (2 <= 2 * length xs - 2)%nat) by lia.
  pose proof (inv_all xs Hxn2 Hxs d1 _ T') as I. rewrite Hxn in I.
  destruct (final_counts xs Hxn2 Hxs d1) as [FE FP]. rewrite Hxn in FE, FP.
  constructor.
  - apply (inv_len _ _ _ I).
  - intros i Hi. pose proof (row_mono xs Hxn2 Hxs d1 (2 * n - 2) (i - 1) T) as M.
    replace (S (i - 1)) with i in M by lia. exact M.
  - apply (row_zeros xs Hxn2 Hxs d1); lia.
  - rewrite (ia_split xs Hxn2 Hxs (S d1) _ T ltac:(lia)). cbn [nth]. rewrite FE. reflexivity.
  - pose proof (rr_full n d1 ltac:(lia) Hp) as HR.
    pose proof (val_identity xs Hxn2 Hxs d1 ltac:(rewrite MCL_20; lia) (2 * n - 2)%nat T) as V.
    rewrite Hxn in V. specialize (V HR). rewrite V. replace (S d1 - 1)%nat with d1 by lia.
    f_equal. lia.
Qed.

Theorem assign_lengths_ok len0 : length len0 = n ->
  exists r len1, assign_lengths len0 f = Ok r /\ length len1 = n /\
    (1 <= r_height r)%nat /\ (r_height r <= 20)%nat /\ (n <= 2 ^ r_height r)%nat /\
    r_lengths r = apply_writes lw (combine (seq 0 n) (dlist (ia (ilev xs (r_height r) (2 * n - 2))) 1 (r_height r))) len1 /\
    length (dlist (ia (ilev xs (r_height r) (2 * n - 2))) 1 (r_height r)) = n.
Proof.
  intro Hlen0.
  destruct (package_merge_rows f Hn2 Hnmax Hf HB ltac:(rewrite MCL_20; lia)) as [s [EP [Wf Rows]]].
  fold lw xs in EP, Rows.
  assert (Hgood : forall h, (1 <= h)%nat -> (h <= 20)%nat -> (n <= 2 ^ h)%nat -> good_row n h (nth h (tree s) [])).
  { intros h H1 H20 Hp. rewrite Rows by (rewrite ?MCL_20; lia). apply ideal_row_good; assumption. }
  unfold assign_lengths. fold lw. rewrite EP. cbn [bind].
  destruct (heights_loop_ok f Hn2 Hnmax (tree s) (wf_tree s Wf) Hgood (MCL - 1) 2 len0 MAX32 MCL
              ltac:(rewrite MCL_20; lia) ltac:(lia) Hlen0) as [len1 [bc [bh [EH [L1 Bh]]]]].
  fold lw in EH. rewrite EH. cbn [bind].
  assert (Hbh : (1 <= bh)%nat /\ (bh <= 20)%nat /\ (n <= 2 ^ bh)%nat).
  { destruct Bh as [->|Bh]; [|lia]. rewrite MCL_20. repeat split; try lia.
    pose proof Hnmax as Hnm. rewrite MAS_258 in Hnm.
    assert (P9 : (2 ^ 9 <= 2 ^ 20)%nat) by (apply Nat.pow_le_mono_r; lia).
    change (2 ^ 9)%nat with 512%nat in P9. lia. }
  destruct Hbh as [B1 [B20 Bp]].
  rewrite (rd_ok ATree (tree s) bh []) by (rewrite (wf_tree s Wf), MCL_20; lia). cbn [bind].
  destruct (row_lengths_ok f Hn2 Hnmax (tree s) (wf_tree s Wf) Hgood bh len1 0 B1 B20 Bp L1) as [c [E DL]].
  fold lw in E. rewrite E. cbn [bind].
  pose proof (nc_final n bh _ (Hgood bh B1 B20 Bp) B1 B20 ltac:(lia) MCL_20) as NC.
  unfold nc_step in NC. rewrite NC. rewrite N.eqb_refl. cbn [negb]. rewrite Nat.eqb_refl. cbn [negb].
  eexists. exists len1. split; [reflexivity|]. cbn [r_height r_lengths].
  rewrite Rows in DL |- * by (rewrite ?MCL_20; lia). repeat split; auto.
Qed.
End Main.

(* ---- L1 + L2 in closed form -------------------------------------------------------------------------------------- *)
Definition pm_input_ok (f : list N) : Prop :=
  (2 <= length f)%nat /\ (length f <= N.to_nat MAX_ALPHA_SIZE)%nat /\
  Forall (fun x => x < 2 ^ 32) f /\ MAX_ALPHA_SIZE * lsum f < 2 ^ 32.

Lemma pm_input_bound f : pm_input_ok f -> N.of_nat (Nat.max (length f) MCL) * lsum f < U32.
Proof.
  intros [H2 [Hm [_ HB]]]. rewrite MAS_258 in Hm. rewrite MCL_20.
  assert (N.of_nat (Nat.max (length f) 20) <= MAX_ALPHA_SIZE) by (change MAX_ALPHA_SIZE with 258; lia).
  unfold U32. change (2 ^ 32) with 4294967296 in HB. nia.
Qed.

Theorem assign_lengths_complete f len0 : pm_input_ok f -> length len0 = length f ->
  exists r, assign_lengths len0 f = Ok r /\
    table_ok (length f) (r_lengths r) = true /\
    (1 <= r_height r)%nat /\ (r_height r <= 20)%nat /\
    Forall (fun l => 1 <= l <= N.of_nat (r_height r)) (r_lengths r).
Proof.
  intros Hin Hlen0. pose proof (pm_input_bound f Hin) as HB. destruct Hin as [H2 [Hm [Hf _]]].
  destruct (assign_lengths_ok f H2 Hm Hf HB len0 Hlen0)
    as [r [len1 [E [L1 [B1 [B20 [Bp [EL DL]]]]]]]].
  exists r. split; [exact E|].
  set (dl := dlist (ia (ilev (xs_of f) (r_height r) (2 * length f - 2))) 1 (r_height r)) in *.
  assert (P : Permutation (r_lengths r) dl).
  { rewrite EL. apply full_writes_perm; auto.
    - apply lw_length.
    - apply sym_low; exact Hm.
    - apply sym_lt; exact Hm.
    - apply sym_inj; exact Hm. }
  assert (R : Forall (fun l => 1 <= l <= N.of_nat (r_height r)) (r_lengths r)).
  { apply Forall_forall. intros l Hl. apply (Permutation_in _ P) in Hl.
    pose proof (dlist_range (ia (ilev (xs_of f) (r_height r) (2 * length f - 2))) (r_height r) 1) as DR.
    rewrite Forall_forall in DR. specialize (DR l Hl). lia. }
  assert (K : kraft (r_lengths r) = kraft_full).
  { rewrite kraft_ksum, (ksum_perm _ _ P). unfold dl.
    rewrite (good_ksum (length f) (r_height r) _ (ideal_row_good f H2 Hm HB (r_height r) B1 B20 Bp) B1 B20 ltac:(lia) MCL_20).
    reflexivity. }
  split; [|split; [exact B1|split; [exact B20|exact R]]].
  unfold table_ok. rewrite (Permutation_length P), DL, Nat.eqb_refl. cbn [andb].
  rewrite K, N.eqb_refl, Bool.andb_true_r.
  apply forallb_forall. intros l Hl. rewrite Forall_forall in R. specialize (R l Hl).
  apply andb_true_intro. split; apply N.leb_le; lia.
Qed.

Corollary pm_lengths_complete f : pm_input_ok f ->
  exists r, pm_lengths_res f = Ok r /\
    table_ok (length f) (r_lengths r) = true /\
    (1 <= r_height r)%nat /\ (r_height r <= 20)%nat /\
    Forall (fun l => 1 <= l <= N.of_nat (r_height r)) (r_lengths r).
Proof. intro H. apply (assign_lengths_complete f (repeat 0 (length f)) H). apply repeat_length. Qed.

Corollary pm_lengths_some f : pm_input_ok f ->
  exists lens, pm_lengths f = Some lens /\ table_ok (length f) lens = true.
Proof.
  intro H. destruct (pm_lengths_complete f H) as [r [E [T _]]].
  exists (r_lengths r). unfold pm_lengths. rewrite E. auto.
Qed.
