(* Copy: the -cdf pass-through pipeline of process.c (work() sniffing 4 bytes,
   the header write, copy() with its reader / writer threads and the
   copy_terminate() test evaluated at every sched_unlock()) as an executable
   labelled transition system over an arbitrary input and an arbitrary
   fragmentation of read().

   Constants (2 input slots, 2 output slots, 65536-byte blocks), the raise
   condition of copy_terminate, the magic test and the length of the header
   write come from Gen/SchedCTab.v.

   In copy() no task exists, so the scheduler mutex is only ever taken for
   `out_slots--; sched_unlock()` / `out_slots++; sched_unlock()` / `eof = 1;
   sched_unlock()`: each is one atomic event and the mutex is free between
   events.  out_slots is a C `unsigned`; copy_on_write_complete() returns the
   input slot *before* it increments out_slots, so the reader can decrement
   out_slots once more than there are slots: the counter is modelled in Z and
   can transiently be -1 (in C: UINT_MAX; every comparison the guard makes
   treats it as "larger than every total", see [view_out]). *)
From Coq Require Import List NArith ZArith Arith Bool Lia.
From LBZ Require Import SchedC.SchedCIface Gen.SchedCTab SchedC.Pool.
Import ListNotations.
Set Implicit Arguments.

(* ---- read() fragmentation and xread() ---- *)
Section XRead.
  Variable A : Type.

  (* xread(buf, &vacant): loop of read() calls.  [frag] gives, for each read()
     call, how many bytes the kernel is willing to return at most (0 is treated
     as 1: a blocking read returns at least one byte unless at end of file).
     When [frag] is exhausted the remaining reads return everything asked for.
     Result: bytes stored, vacant afterwards, unused fragmentation, unread input. *)
  Fixpoint xread (vacant : nat) (frag : list nat) (rest : list A) (acc : list A)
    : list A * nat * list nat * list A :=
    match vacant with
    | O => (acc, O, frag, rest)
    | S _ =>
        match frag with
        | [] => (acc ++ firstn vacant rest, vacant - length (firstn vacant rest), [], skipn vacant rest)
        | f :: fr =>
            match rest with
            | [] => (acc, vacant, fr, [])                       (* read() returned 0: end of file *)
            | _ :: _ =>
                let k := Nat.min (Nat.min vacant (Nat.max 1 f)) (length rest) in
                xread (vacant - k) fr (skipn k rest) (acc ++ firstn k rest)
            end
        end
    end.

  (* the chunks the reader thread produces: xread(granule) until it comes back short *)
  Fixpoint reader_chunks (fuel : nat) (gran : nat) (frag : list nat) (rest : list A) : list (list A) :=
    match fuel with
    | O => []
    | S fu =>
        let '(got, vac, frag', rest') := xread gran frag rest [] in
        match got with
        | [] => []
        | _ :: _ => got :: (if vac =? 0 then reader_chunks fu gran frag' rest' else [])
        end
    end.

  Fixpoint cut (fuel : nat) (gran : nat) (x : list A) : list (list A) :=
    match fuel with
    | O => []
    | S fu => match x with
              | [] => []
              | _ :: _ => firstn gran x :: (if length x <? gran then [] else cut fu gran (skipn gran x))
              end
    end.

  (* xwrite(buf, size): loop of write() calls that may be short; what reaches the
     file is the concatenation of the pieces *)
  Fixpoint xwrite (frag : list nat) (buf : list A) (file : list A) : list A :=
    match buf with
    | [] => file
    | _ :: _ =>
        match frag with
        | [] => file ++ buf
        | f :: fr =>
            let k := Nat.min (length buf) (Nat.max 1 f) in
            match skipn k buf with
            | [] => file ++ firstn k buf
            | r => xwrite fr r (file ++ firstn k buf)
            end
        end
    end.
End XRead.

(* ---- the pipeline ---- *)
Inductive mpc :=
| MSniff                         (* work(): before xread(&header, &vacant) *)
| MDecompress                    (* header is a bzip2 header: schedule(&expansion), not modelled here *)
| MFail                          (* "not a valid bzip2 file" *)
| MCopy                          (* header written; copy() before init_io() *)
| MHalt                          (* threads started; in halt() waiting for SIGUSR2 *)
| MJoinR                         (* uninit_io(): joining the reader *)
| MJoinW                         (* finish = true; joining the writer *)
| MDone.                         (* back in main(): exit *)

Inductive crpc :=
| CRIdle | CRRead
| CRDeliver (buf : list N) (short : bool)     (* block read, before copy_on_input_avail *)
| CRPush (buf : list N) (short : bool)        (* out_slots-- done, before sink_write_buffer *)
| CREof | CRDone.

Inductive cwpc :=
| CWIdle
| CWHold (buf : list N)                       (* shifted and written, before on_written *)
| CWRel                                       (* source_release_buffer done, before out_slots++ *)
| CWDone.

Record cstate := mkc {
  k_force : bool; k_stdout : bool;
  k_main : mpc;
  k_started : bool;
  k_eof : bool;
  k_in : nat;
  k_out : Z;
  k_rest : list N;              (* unread input *)
  k_frag : list nat;            (* behaviour of the future read() calls *)
  k_rd : crpc;
  k_outq : list (list N);
  k_wr : cwpc;
  k_written : list N;           (* bytes that reached standard output *)
  k_finish : bool;
  k_raised : nat;               (* number of xraise(SIGUSR2) so far *)
  k_taken : nat                 (* SIGUSR2 consumed by sigsuspend() *)
}.

Definition garbage : N := 170.

Definition be32 (l : list N) : N :=
  match l with
  | [a; b; c; d] => ((a * 256 + b) * 256 + c) * 256 + d
  | _ => 0
  end%N.

(* what copy_terminate() sees *)
Definition view_out (o : Z) : nat :=
  if (0 <=? o)%Z then Z.to_nat o else S (S copy_total_out_slots).

Definition cview (s : cstate) : gview :=
  mkgview false (k_eof s) [] [] [] pos0 0 (view_out (k_out s)) 0 copy_total_out_slots true false.

Definition set_main x s := mkc (k_force s) (k_stdout s) x (k_started s) (k_eof s) (k_in s) (k_out s) (k_rest s) (k_frag s) (k_rd s) (k_outq s) (k_wr s) (k_written s) (k_finish s) (k_raised s) (k_taken s).
Definition set_started x s := mkc (k_force s) (k_stdout s) (k_main s) x (k_eof s) (k_in s) (k_out s) (k_rest s) (k_frag s) (k_rd s) (k_outq s) (k_wr s) (k_written s) (k_finish s) (k_raised s) (k_taken s).
Definition set_keof x s := mkc (k_force s) (k_stdout s) (k_main s) (k_started s) x (k_in s) (k_out s) (k_rest s) (k_frag s) (k_rd s) (k_outq s) (k_wr s) (k_written s) (k_finish s) (k_raised s) (k_taken s).
Definition set_in x s := mkc (k_force s) (k_stdout s) (k_main s) (k_started s) (k_eof s) x (k_out s) (k_rest s) (k_frag s) (k_rd s) (k_outq s) (k_wr s) (k_written s) (k_finish s) (k_raised s) (k_taken s).
Definition set_out x s := mkc (k_force s) (k_stdout s) (k_main s) (k_started s) (k_eof s) (k_in s) x (k_rest s) (k_frag s) (k_rd s) (k_outq s) (k_wr s) (k_written s) (k_finish s) (k_raised s) (k_taken s).
Definition set_rest x s := mkc (k_force s) (k_stdout s) (k_main s) (k_started s) (k_eof s) (k_in s) (k_out s) x (k_frag s) (k_rd s) (k_outq s) (k_wr s) (k_written s) (k_finish s) (k_raised s) (k_taken s).
Definition set_frag x s := mkc (k_force s) (k_stdout s) (k_main s) (k_started s) (k_eof s) (k_in s) (k_out s) (k_rest s) x (k_rd s) (k_outq s) (k_wr s) (k_written s) (k_finish s) (k_raised s) (k_taken s).
Definition set_krd x s := mkc (k_force s) (k_stdout s) (k_main s) (k_started s) (k_eof s) (k_in s) (k_out s) (k_rest s) (k_frag s) x (k_outq s) (k_wr s) (k_written s) (k_finish s) (k_raised s) (k_taken s).
Definition set_outq x s := mkc (k_force s) (k_stdout s) (k_main s) (k_started s) (k_eof s) (k_in s) (k_out s) (k_rest s) (k_frag s) (k_rd s) x (k_wr s) (k_written s) (k_finish s) (k_raised s) (k_taken s).
Definition set_kwr x s := mkc (k_force s) (k_stdout s) (k_main s) (k_started s) (k_eof s) (k_in s) (k_out s) (k_rest s) (k_frag s) (k_rd s) (k_outq s) x (k_written s) (k_finish s) (k_raised s) (k_taken s).
Definition set_kwritten x s := mkc (k_force s) (k_stdout s) (k_main s) (k_started s) (k_eof s) (k_in s) (k_out s) (k_rest s) (k_frag s) (k_rd s) (k_outq s) (k_wr s) x (k_finish s) (k_raised s) (k_taken s).
Definition set_kfinish x s := mkc (k_force s) (k_stdout s) (k_main s) (k_started s) (k_eof s) (k_in s) (k_out s) (k_rest s) (k_frag s) (k_rd s) (k_outq s) (k_wr s) (k_written s) x (k_raised s) (k_taken s).
Definition set_raised x s := mkc (k_force s) (k_stdout s) (k_main s) (k_started s) (k_eof s) (k_in s) (k_out s) (k_rest s) (k_frag s) (k_rd s) (k_outq s) (k_wr s) (k_written s) (k_finish s) x (k_taken s).
Definition set_taken x s := mkc (k_force s) (k_stdout s) (k_main s) (k_started s) (k_eof s) (k_in s) (k_out s) (k_rest s) (k_frag s) (k_rd s) (k_outq s) (k_wr s) (k_written s) (k_finish s) (k_raised s) x.

(* sched_unlock() in copy(): select_task() finds nothing; process->finished() is
   copy_terminate(): raise SIGUSR2 if the regenerated condition holds, return
   the regenerated result (false: nobody is signalled) *)
Definition copy_unlock (s : cstate) : cstate :=
  if copy_raise_cond (cview s) then set_raised (S (k_raised s)) s else s.

Definition gran : nat := N.to_nat copy_in_granul.

Definition main_step (s : cstate) : option cstate :=
  match k_main s with
  | MSniff =>
      let '(got, vac, frag', rest') := xread sniff_size (k_frag s) (k_rest s) [] in
      let s1 := set_frag frag' (set_rest rest' s) in
      if is_magic vac (be32 got) then Some (set_main MDecompress s1)
      else if fallback_cond (k_force s) (k_stdout s) then
        (* xwrite(&header, <regenerated length>): the buffer holds the bytes read, then garbage *)
        let hdr := firstn (copy_hdr_len vac) (got ++ repeat garbage sniff_size) in
        Some (set_main MCopy (set_kwritten (k_written s1 ++ hdr) s1))
      else Some (set_main MFail s1)
  | MCopy =>
      (* copy(): eof = false; in_slots, out_slots, total_out_slots from Gen; init_io() *)
      Some (set_main MHalt (set_started true
             (set_keof false (set_in copy_in_slots (set_out (Z.of_nat copy_out_slots) s)))))
  | MHalt =>
      if k_taken s <? k_raised s then Some (set_main MJoinR (set_taken (S (k_taken s)) s)) else None
  | MJoinR =>
      match k_rd s with
      | CRDone => Some (set_main MJoinW (set_kfinish true s))
      | _ => None
      end
  | MJoinW =>
      match k_wr s with
      | CWDone => Some (set_main MDone s)
      | _ => None
      end
  | MDecompress | MFail | MDone => None
  end.

Definition creader_step (s : cstate) : option cstate :=
  if negb (k_started s) then None else
  match k_rd s with
  | CRIdle =>
      match k_in s with
      | O => None
      | S m => Some (set_krd CRRead (set_in m s))
      end
  | CRRead =>
      let '(got, vac, frag', rest') := xread gran (k_frag s) (k_rest s) [] in
      let s1 := set_frag frag' (set_rest rest' s) in
      match got with
      | [] => Some (set_krd CREof (set_in (S (k_in s1)) s1))      (* avail == 0: release, then vacant > 0 *)
      | _ :: _ => Some (set_krd (CRDeliver got (negb (vac =? 0))) s1)
      end
  | CRDeliver buf short =>
      (* copy_on_input_avail(): sched_lock(); out_slots--; sched_unlock() *)
      Some (copy_unlock (set_krd (CRPush buf short) (set_out (k_out s - 1) s)))
  | CRPush buf short =>
      (* sink_write_buffer() *)
      Some (set_krd (if short then CREof else CRIdle) (set_outq (k_outq s ++ [buf]) s))
  | CREof => Some (copy_unlock (set_krd CRDone (set_keof true s)))
  | CRDone => None
  end.

Definition cwriter_step (s : cstate) : option cstate :=
  if negb (k_started s) then None else
  match k_wr s with
  | CWIdle =>
      match k_outq s with
      | buf :: q => Some (set_kwr (CWHold buf) (set_kwritten (k_written s ++ buf) (set_outq q s)))
      | [] => if k_finish s then Some (set_kwr CWDone s) else None
      end
  | CWHold _ =>
      (* copy_on_write_complete(): source_release_buffer() first ... *)
      Some (set_kwr CWRel (set_in (S (k_in s)) s))
  | CWRel =>
      (* ... then sched_lock(); out_slots++; sched_unlock() *)
      Some (copy_unlock (set_kwr CWIdle (set_out (k_out s + 1) s)))
  | CWDone => None
  end.

Definition cstep (s : cstate) (e : tid) : option cstate :=
  match e with
  | TM => main_step s
  | TR => creader_step s
  | TS => cwriter_step s
  | TW _ => None
  end.

Definition cinit (force stdout : bool) (x : list N) (frag : list nat) : cstate :=
  mkc force stdout MSniff false false 0 0 x frag CRIdle [] CWIdle [] false 0 0.

Definition cfinal (s : cstate) : bool :=
  match k_main s with MDone | MDecompress | MFail => true | _ => false end.

(* SIGUSR2 is blocked outside sigsuspend(); one still pending at sti() kills the process *)
Inductive exit := Exit0 | KilledUSR2 | NotFinished.
Definition exit_of (s : cstate) : exit :=
  match k_main s with
  | MDone => if k_raised s =? k_taken s then Exit0 else KilledUSR2
  | _ => NotFinished
  end.

Inductive CReach (s0 : cstate) : cstate -> Prop :=
| CReach_init : CReach s0 s0
| CReach_step : forall s e s', CReach s0 s -> cstep s e = Some s' -> CReach s0 s'.

Fixpoint crun (s : cstate) (es : list tid) : option cstate :=
  match es with
  | [] => Some s
  | e :: r => match cstep s e with Some s' => crun s' r | None => None end
  end.
