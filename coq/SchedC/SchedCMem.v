(* C13: heap ledger of the compression scheduler.  Every object compress.c and
   process.c allocate is attached to the model item that owns it (a held input
   slot, a held work unit, a held output slot, a queue root); [mem s] is the sum of
   the live allocations in state s.  The conservation invariants of C11 bound it by
   a function of the worker count only. *)
From Coq Require Import List NArith Arith Bool Lia.
From LBZ Require Import SchedC.SchedCIface Gen.SchedCTab SchedC.Pool SchedC.PoolLemmas SchedC.SchedC SchedC.SchedCInv
  SchedC.SchedCMemDef.
Import ListNotations.
Local Open Scope N_scope.

Section Mem.
  Variable Data : Type.
  Variable Enc : Type.
  Variable data_len : Data -> N.
  Variable enc_empty : Enc.
  Variable collect : Enc -> Data -> Enc * Data * bool.
  Variable buf_size : Enc -> N.           (* 4 * ((wblk->size + 3) / 4): the output buffer of a block *)
  Variable OB : N.                        (* bound on it (codec property, not proved here) *)
  Hypothesis buf_size_le : forall e, buf_size e <= OB.

  Notation state := (state Data Enc).
  Notation cont := (cont Data Enc).
  Notation wpcs := (wpc cont).
  Notation reachable := (reachable data_len enc_empty collect).
  Notation IBUF := SchedCMemDef.IBUF. Notation ENC := SchedCMemDef.ENC. Notation IB := SchedCMemDef.IB.
  Notation UB := SchedCMemDef.UB. Notation OBS := (SchedCMemDef.OBS OB). Notation roots := SchedCMemDef.roots.
  Notation mem_wb_out := (@SchedCMemDef.mem_wb_out Enc buf_size). Notation mem_buf := (@SchedCMemDef.mem_buf Enc buf_size).
  Notation sumN := SchedCMemDef.sumN. Notation mem_pc := (@SchedCMemDef.mem_pc Data Enc buf_size).
  Notation mem := (@SchedCMemDef.mem Data Enc buf_size). Notation B := (SchedCMemDef.B OB).
  Notation in_of := (@in_of Data Enc).
  Notation units_of := (@units_of Data Enc).
  Notation out_of := (@out_of Data Enc).
  Notation rd_in := (@rd_in Data Enc).
  Notation wr_out := (@wr_out Data Enc).

  Lemma sumN_le {A} (f : A -> N) (c : N) l : (forall x, f x <= c) -> sumN f l <= N.of_nat (length l) * c.
  Proof.
    intros H. induction l as [|x l IH]; cbn [sumN fold_right length]; [lia|].
    fold (sumN f l). specialize (H x). rewrite Nat2N.inj_succ, N.mul_succ_l. lia.
  Qed.

  Lemma mem_pc_le l (p : wpcs) :
    mem_pc l p <= N.of_nat (in_of p) * IB l + N.of_nat (units_of p) * UB l + N.of_nat (out_of p) * OBS.
  Proof.
    unfold OBS. destruct p as [| | | |[t|ib|wb|wbo [ib|]|wb d|wb]];
      cbn [mem_pc SchedCInv.in_of SchedCInv.units_of SchedCInv.out_of];
      change (N.of_nat 1) with 1; change (N.of_nat 0) with 0;
      match goal with |- context [buf_size ?e] => pose proof (buf_size_le e) | _ => idtac end; lia.
  Qed.

  Lemma sum_pc_le l (ws : list wpcs) :
    sumN (mem_pc l) ws <= N.of_nat (sumf in_of ws) * IB l + N.of_nat (sumf units_of ws) * UB l +
                          N.of_nat (sumf out_of ws) * OBS.
  Proof.
    induction ws as [|p ws IH]; [cbn; lia|].
    cbn [sumN fold_right]. fold (sumN (mem_pc l) ws). rewrite !sumf_cons, !Nat2N.inj_add, !N.mul_add_distr_r.
    pose proof (mem_pc_le l p). lia.
  Qed.

  Theorem c13_bound n u l inp s : reachable n u l inp s -> mem s <= B n l.
  Proof.
    intros R. destruct (reachable_inv R) as (I & _ & En).
    assert (El : lvl s = l).
    { clear I En. unfold SchedCInv.reachable in R. induction R as [|s e s' R IH H]; [reflexivity|].
      rewrite <- IH. apply step_Step in H. destruct H; rewrite ?sched_unlock_eq, ?task_return_eq; reflexivity. }
    pose proof (i_units I) as Hu. pose proof (i_in I) as Hi. pose proof (i_out I) as Ho.
    rewrite En in *. unfold mem, B. rewrite El, En.
    pose proof (sum_pc_le l (workers s)) as Hw.
    assert (Hr : sumN mem_wb_out (reord_q s) <= N.of_nat (length (reord_q s)) * OBS).
    { apply sumN_le. intros wb. unfold mem_wb_out, OBS. pose proof (buf_size_le (wb_enc wb)). lia. }
    assert (Hq : sumN mem_buf (output_q s) <= N.of_nat (length (output_q s)) * OBS).
    { apply sumN_le. intros wb. unfold mem_buf, OBS. pose proof (buf_size_le (wb_enc wb)). lia. }
    assert (Hh : (match wr s with SHold wb => mem_buf wb | _ => 0 end) <= N.of_nat (wr_out (wr s)) * OBS).
    { destruct (wr s); cbn [SchedCInv.wr_out]; change (N.of_nat 1) with 1; change (N.of_nat 0) with 0; try lia.
      unfold mem_buf, OBS. pose proof (buf_size_le (wb_enc b)). lia. }
    assert (Hd : (match rd s with RRead => IBUF l | _ => 0 end) <= N.of_nat (rd_in (rd s)) * IB l).
    { destruct (rd s); cbn [SchedCInv.rd_in]; change (N.of_nat 1) with 1; change (N.of_nat 0) with 0; try lia. unfold IB. lia. }
    assert (Hf : (match unfinished s with Some _ => UB l | None => 0 end) = N.of_nat (b2n (is_some (unfinished s))) * UB l).
    { destruct (unfinished s); cbn [is_some b2n]; change (N.of_nat 1) with 1; change (N.of_nat 0) with 0; lia. }
    rewrite Hf.
    apply (f_equal N.of_nat) in Hu, Hi, Ho. rewrite !Nat2N.inj_add in Hu, Hi, Ho.
    rewrite <- Hu, <- Hi, <- Ho. rewrite !N.mul_add_distr_r. lia.
  Qed.

  (* linear in the worker count: from the regenerated slot formulas and capacities *)
  Theorem B_linear l : exists a b, forall n, B n l = a * N.of_nat n + b.
  Proof.
    exists (2 * IB l + UB l + 2 * OBS + 2 * sizeof_ptr + sizeof_ptr + 2 * sizeof_ptr + 2 * sizeof_block + sizeof_ptr),
           (2 * OBS + 2 * sizeof_ptr + 2 * sizeof_block).
    intros n. unfold B, roots, cap_coll, cap_trans, cap_reord, cap_output, total_in, total_out.
    unfold cap_coll_q, cap_trans_q, cap_reord_q, init_in_slots, init_out_slots, init_work_units,
      total_in_slots_compress, total_out_slots_compress.
    rewrite !Nat2N.inj_add, !Nat2N.inj_mul. change (N.of_nat 2) with 2. lia.
  Qed.
End Mem.
