(* C13: heap ledger of the compression scheduler - definitions only (no proofs, so
   that extraction does not depend on them).  Every object compress.c / process.c
   allocate is attached to the model item that owns it; [mem s] is the sum of the
   live allocations in state s, [B n level] the bound. *)
From Coq Require Import List NArith Arith Bool.
From LBZ Require Import SchedC.SchedCIface Gen.SchedCTab SchedC.Pool SchedC.SchedC.
Import ListNotations.
Local Open Scope N_scope.

Section MemDef.
  Variable Data : Type.
  Variable Enc : Type.
  Variable buf_size : Enc -> N.           (* 4 * ((wblk->size + 3) / 4): the output buffer of a block *)
  Variable OB : N.                        (* bound on it (codec property, not proved here) *)

  Notation state := (state Data Enc).
  Notation cont := (cont Data Enc).
  Notation wpcs := (wpc cont).

  (* sizes, all from Gen *)
  Definition IBUF (l : N) : N := in_granul l.                               (* XNMALLOC(in_granul, uint8_t) *)
  Definition ENC (l : N) : N := encoder_alloc_size (l * 100000).            (* xmalloc(encoder_alloc_size(bs100k*100000)) *)
  Definition IB (l : N) : N := IBUF l + sizeof_in_blk.                      (* per held input slot *)
  Definition UB (l : N) : N := ENC l + sizeof_work_blk.                     (* per held work unit *)
  Definition OBS : N := OB + sizeof_work_blk.                               (* per held output slot *)

  Definition mem_ib (l : N) (ib : iblk Data) : N := IB l.
  Definition mem_wb_unit (l : N) (wb : wblk Enc) : N := UB l.               (* struct + encoder *)
  Definition mem_wb_out (wb : wblk Enc) : N := buf_size (wb_enc wb) + sizeof_work_blk.   (* struct + output buffer *)
  Definition mem_buf (wb : wblk Enc) : N := buf_size (wb_enc wb).

  Definition sumN {A} (f : A -> N) (l : list A) : N := fold_right (fun x a => f x + a) 0 l.

  Definition mem_pc (l : N) (p : wpcs) : N :=
    match p with
    | PRun (KCollect ib) => IB l + UB l
    | PRun (KEncode wb) => UB l
    | PRun (KSeq wbo ibo) => UB l + match ibo with Some _ => IB l | None => 0 end
    | PRun (KSeqFin wb _) => UB l
    | PRun (KTransmit wb) => UB l + buf_size (wb_enc wb)      (* encoder and output buffer both live *)
    | _ => 0
    end.

  Definition roots (n : nat) : N :=
    N.of_nat (cap_coll n) * sizeof_ptr + N.of_nat (cap_trans n) * sizeof_ptr + N.of_nat (cap_reord n) * sizeof_ptr +
    N.of_nat (cap_output n) * sizeof_block + N.of_nat n * sizeof_ptr.

  Definition mem (s : state) : N :=
    let l := lvl s in
    (match rd s with RRead => IBUF l | _ => 0 end) +
    N.of_nat (length (coll_q s)) * IB l +
    N.of_nat (length (trans_q s)) * UB l +
    (match unfinished s with Some _ => UB l | None => 0 end) +
    sumN mem_wb_out (reord_q s) +
    sumN mem_buf (output_q s) +
    (match wr s with SHold wb => mem_buf wb | _ => 0 end) +
    sumN (mem_pc l) (workers s) +
    roots (nw s).

  (* the bound: a function of the worker count (and the level), nothing else *)
  Definition B (n : nat) (l : N) : N :=
    N.of_nat (total_in n) * IB l + N.of_nat n * UB l + N.of_nat (total_out n) * OBS + roots n.

End MemDef.
