(* Deadlock freedom of the compression scheduler in --sequential ("ultra") mode. *)
From Coq Require Import List NArith Arith Bool Lia Permutation Sorted.
From LBZ Require Import SchedC.SchedCIface Gen.SchedCTab SchedC.Pool SchedC.PoolLemmas SchedC.SchedC SchedC.SchedCInv
  SchedC.Tiling SchedC.SchedCOrder SchedC.SchedCOrderU SchedC.SchedCLive SchedC.SchedCProg.
Import ListNotations.

Section ProgU.
  Variable Data : Type.
  Variable Enc : Type.
  Variable data_len : Data -> N.
  Variable enc_empty : Enc.
  Variable collect : Enc -> Data -> Enc * Data * bool.

  Notation state := (state Data Enc).
  Notation cont := (cont Data Enc).
  Notation wpcs := (wpc cont).
  Notation step := (step data_len enc_empty collect).
  Notation Inv := (@Inv Data Enc).
  Notation Inv2 := (@Inv2 Data Enc).
  Notation UInv := (@UInv Data Enc).
  Notation reserve := (@reserve Data Enc).
  Notation le_order_pc := (@le_order_pc Data Enc).
  Notation le_order_q := (@le_order_q Enc).
  Notation items := (@items Data Enc).
  Notation iv_wb := (@iv_wb Enc).
  Notation iv_ib := (@iv_ib Data).
  Notation seq_of := (@seq_of Data Enc).
  Notation consec := (@consec Data).
  Notation head_pos := (@head_pos Data).
  Notation reachable := (reachable data_len enc_empty collect).

  Record PA (s : state) : Prop := {
    a_sc : ksorted (@ib_pos Data) (coll_q s);
    a_st : ksorted (@wb_pos Enc) (trans_q s);
    a_sr : ksorted (@wb_pos Enc) (reord_q s);
    a_res : TRANSM_THRESH <= reserve s;
    a_kseq : forall i, nth_error (workers s) i <> Some (PRun (KSeq None None))
  }.
  Arguments a_sc {s} _. Arguments a_st {s} _. Arguments a_sr {s} _. Arguments a_res {s} _. Arguments a_kseq {s} _.

  Local Arguments select : simpl never.
  Local Arguments finished : simpl never.
  Local Arguments ready : simpl never.
  Local Arguments unlock_wakeups : simpl never.
  Local Arguments signal : simpl never.
  Local Arguments broadcast : simpl never.
  Local Arguments pq_insert : simpl never.
  Local Arguments upd : simpl never.
  Local Arguments sumf : simpl never.
  Local Arguments cap_output : simpl never.
  Local Arguments cnt : simpl never.

  Ltac simp :=
    rewrite ?sched_unlock_eq, ?task_return_eq; unfold set_pc;
    cbn [nw ultra lvl lock next_task wakeups eof work_units in_slots out_slots coll_q trans_q reord_q order
         next_id collect_token unfinished workers rd input wr output_q written finish bad
         set_lock set_next_task set_wakeups set_eof set_work_units set_in_slots set_out_slots set_coll_q
         set_trans_q set_reord_q set_order set_next_id set_collect_token set_unfinished set_workers set_rd
         set_input set_wr set_output_q set_written set_finish set_bad].

  Lemma pa_step s e s' : Inv s -> UInv s -> PA s -> step s e = Some s' -> PA s'.
  Proof.
    intros I U P H.
    pose proof (uinv_step _ _ _ _ _ _ _ _ I U H) as U'. pose proof (inv_step _ _ _ _ _ _ _ _ I H) as I'.
    pose proof (u_tile _ _ _ U') as T'. pose proof (u_tile _ _ _ U) as T.
    pose proof (i_bad I') as Bad'.
    apply step_Step in H.
    pose proof (a_sc P) as Psc. pose proof (a_st P) as Pst. pose proof (a_sr P) as Psr.
    pose proof (a_res P) as Pres. pose proof (a_kseq P) as Pk.
    destruct H as [i Hi L|i Hi L|i t Hi L Hn|i Hi L Hn Hf|i Hi L Hn Hf
                  |i Hi L Hq|i ib q wu b Hi L Hq Hd|i wub b2 Hi L Hw Hb|i Hi L Hq|i wb q os b Hi L Hq Hd
                  |i Hi L Hq|i wb q Hi L Hq
                  |i ib e d f Hi L Hc Hl|i ib e d f Hi Hc Hl|i wb Hi L
                  |i wbo ib wb0 e d f Hi L Hw Hc Hl|i wbo ib wb0 e d f Hi Hw Hc Hl|i wb Hi L
                  |i wb Hi L|i wb Hi L|i wb Hi L
                  |m Hr Hs|Hr Hin|d rest Hr Hin Hl L|Hr L|wb q Hw Hq|Hw Hq Hf|wb Hw L|Hall Hf Hr].
    6-7: (exfalso; pose proof (i_ready I _ _ Hi) as R; apply (ready_collect_default Data Enc enc_empty collect) in R; pose proof (u_ultra _ _ _ U); congruence).
    11-12: (exfalso; eapply (u_nocoll _ _ _ U); eauto).
    all: constructor; simp; auto.
    all: try solve [ rewrite Hq in *; eapply ksorted_tail; eauto ].
    all: try solve [
      unfold SchedCLive.reserve in *; simp;
      try (match goal with Hw : nth_error (workers ?s0) ?j = Some _ |- context [upd (workers ?s0) ?j ?p'] =>
             pose proof (sumf_upd (le_order_pc (order s)) _ _ _ p' Hw) end);
      cbn [SchedCLive.le_order_pc b2n SchedCInv.wr_out] in *; rewrite ?le_order_q_insert; rewrite ?Hq, ?Hw in *;
      cbn [length SchedCInv.wr_out] in *; rewrite ?app_length; cbn [length]; lia ].
    all: try solve [
      apply ksorted_insert; [assumption|];
      eapply (tiling_insert_fresh (@SchedCOrder.iv_ib Data) (@ib_pos Data)); [reflexivity|exact T'|];
      intros z; unfold SchedCOrder.items; simp; rewrite !cnt_app; lia ].
    all: try solve [
      apply ksorted_insert; [assumption|];
      eapply (tiling_insert_fresh (@SchedCOrder.iv_wb Enc) (@wb_pos Enc)); [reflexivity|exact T'|];
      intros z; unfold SchedCOrder.items; simp; rewrite !cnt_app; lia ].
    all: try solve [ intros j Hj; apply nth_upd_cases in Hj; destruct Hj as [[-> Hj]|[? Hj]];
                     [discriminate Hj|eapply Pk; eauto] ].
    - destruct (coll_q s) as [|y q0]; cbn [tl]; [constructor|eapply ksorted_tail; eauto].
    - (* collect_seq started with nothing to do would have tripped the assert *)
      intros j Hj. apply nth_upd_cases in Hj. destruct Hj as [[-> Hj]|[Nj Hj]]; [|eapply Pk; eauto].
      injection Hj as Hu Hc. revert Bad'. simp. subst b2. rewrite <- Hu.
      destruct (coll_q s); [|discriminate Hc]. rewrite (i_bad I). cbn. rewrite orb_true_r. discriminate.
    - (* transmit0: slot reserve *)
      pose proof (i_ready I _ _ Hi) as R. destruct (ready_transmit_res _ _ _ _ _ R Hq) as [G|[G1 G2]].
      + unfold SchedCLive.reserve. simp. destruct (out_slots s) as [|o']; [lia|]. cbn in Hd. injection Hd as <- <-. lia.
      + unfold SchedCLive.reserve in *. simp.
        pose proof (sumf_upd (le_order_pc (order s)) _ _ _ (PRun (KTransmit wb)) Hi) as Su.
        cbn [SchedCLive.le_order_pc] in Su. rewrite G2 in Su.
        assert (Ep : pos_le (order s) (order s) = true) by (apply pos_le_spec; apply ple_refl).
        rewrite Ep in Su. cbn [b2n] in Su.
        destruct (out_slots s) as [|o']; [lia|]. cbn in Hd. injection Hd as <- <-. lia.
    - (* reorder: order advances *)
      pose proof (i_ready I _ _ Hi) as R. pose proof (ready_reorder_pos R Hq) as Ep.
      assert (Lt : plt (order s) (wb_next wb)).
      { assert (In (iv_wb wb) (items s)).
        { unfold SchedCOrder.items. rewrite Hq. cbn [map]. apply in_or_app. right. apply in_or_app. right.
          apply in_or_app. left. left. reflexivity. }
        destruct (tiling_in _ _ _ _ T H) as (_ & A & _). cbn in A. rewrite Ep in A. exact A. }
      unfold SchedCLive.reserve in *. simp. rewrite Hq in Pres.
      pose proof (le_order_q_mono Enc _ _ q Lt) as M1.
      pose proof (le_order_pc_mono Data Enc _ _ (upd (workers s) i PTop) Lt) as M2.
      pose proof (sumf_upd (le_order_pc (order s)) _ _ _ (@PTop cont) Hi) as Su. cbn [SchedCLive.le_order_pc] in Su.
      unfold SchedCLive.le_order_q in Pres. cbn [filter] in Pres. rewrite Ep in Pres.
      assert (Epo : pos_le (order s) (order s) = true) by (apply pos_le_spec; apply ple_refl).
      rewrite Epo in Pres. cbn [length] in Pres. fold (SchedCLive.le_order_q Enc (order s) q) in Pres.
      rewrite app_length. cbn [length]. lia.
  Qed.

  Lemma pa_init n l inp : PA (@init Data Enc n true l inp).
  Proof.
    constructor; cbn.
    - constructor.
    - constructor.
    - constructor.
    - unfold SchedCLive.reserve. cbn.
      assert (E : sumf (le_order_pc pos0) (repeat (@PNew cont) n) = 0) by (rewrite sumf_repeat; cbn; lia).
      rewrite E. pose proof (thresh_le_total n) as Ht. unfold total_out, init_out_slots, total_out_slots_compress, TRANSM_THRESH in *.
      unfold SchedCLive.le_order_q. cbn. lia.
    - intros i H. apply nth_error_In in H. apply repeat_spec in H. discriminate.
  Qed.

  (* ---- the input blocks of coll_q are the tail of the position chain ---- *)
  Lemma chain_eq_sub e l ys q : chain e l q -> chain e ys q -> incl ys l -> l = ys.
  Proof.
    revert e l. induction ys as [|[a b] ys IH]; intros e l Hl Hy Hin.
    - cbn in Hy. subst q. destruct l as [|[a b] l]; auto. cbn in Hl. destruct Hl as (-> & L & Hl).
      apply chain_le in Hl. exfalso. eapply plt_irrefl. eapply plt_ple_trans; eauto.
    - cbn in Hy. destruct Hy as (-> & Lab & Hy).
      assert (Ia : In (e, b) l) by (apply Hin; left; reflexivity).
      destruct (chain_head_unique _ _ _ _ _ Hl Ia eq_refl) as (r & ->).
      cbn in Hl. destruct Hl as (_ & _ & Hl). f_equal. apply (IH b r Hl Hy).
      intros x Hx. assert (Ix : In x ((e, b) :: r)) by (apply Hin; right; auto).
      destruct Ix as [<-|Ix]; auto. exfalso.
      destruct (chain_in_bounds _ _ _ _ _ Hy Hx) as (A & _). cbn in A.
      eapply plt_irrefl. eapply plt_ple_trans; eauto.
  Qed.

  Lemma chain_suffix p l q m ys : chain p l q -> chain m ys q -> ys <> [] -> incl ys l ->
    exists pre, l = pre ++ ys /\ chain p pre m.
  Proof.
    revert p. induction l as [|[a b] l IH]; intros p Hl Hy Hne Hin.
    - destruct ys as [|y ys]; [congruence|]. exfalso. apply (Hin y). left; reflexivity.
    - cbn in Hl. destruct Hl as (-> & Lab & Hl).
      destruct (pos_eq_dec p m) as [->|Npm].
      + exists []. split; [|reflexivity]. cbn [app].
        apply (chain_eq_sub m _ _ q); auto. cbn. auto.
      + destruct ys as [|[ya yb] ys]; [congruence|].
        assert (Hy' := Hy). cbn in Hy'. destruct Hy' as (-> & Lyy & Hy2).
        assert (Hsub : incl ((m, yb) :: ys) l).
        { intros x Hx. assert (Ix : In x ((p, b) :: l)) by (apply Hin; auto).
          destruct Ix as [<-|Ix]; auto. exfalso.
          destruct (chain_in_bounds _ _ _ _ _ Hy Hx) as (A & _). cbn in A.
          (* p >= m, but (m,yb) is in l whose starts are > p *)
          assert (Im : In (m, yb) ((p, b) :: l)) by (apply Hin; left; reflexivity).
          destruct Im as [Em|Im]; [congruence|].
          destruct (chain_in_bounds _ _ _ _ _ Hl Im) as (B & _). cbn in B.
          eapply plt_irrefl. eapply plt_ple_trans; [exact Lab|]. eapply ple_trans; eauto. }
        destruct (IH b Hl Hy ltac:(discriminate) Hsub) as (pre & -> & Hpre).
        exists ((p, b) :: pre). split; [reflexivity|]. cbn. auto.
  Qed.

  Lemma consec_chain (q : list (iblk Data)) nid : consec q nid ->
    chain (head_pos q nid) (map iv_ib q) (mkpos nid 0).
  Proof.
    induction q as [|y q IH]; intros C; [reflexivity|]. cbn in C. destruct C as [C1 C2].
    cbn [map chain SchedCOrder.iv_ib head_pos]. repeat split.
    - apply plt_major_succ.
    - rewrite C1. apply IH; auto.
  Qed.

  (* every block of trans_q lies before the input blocks that are still queued *)
  Lemma trans_before_coll (s : state) wb y r : UInv s -> coll_q s = y :: r -> In wb (trans_q s) ->
    plt (wb_pos wb) (ib_pos y).
  Proof.
    intros U Ec Iw. pose proof (u_tile _ _ _ U) as T. pose proof (u_cons _ _ _ U) as C.
    destruct T as (l' & Cn & Hl).
    pose proof (consec_chain _ _ C) as Hc. rewrite Ec in Hc. cbn [head_pos] in Hc.
    assert (Hin : incl (map iv_ib (y :: r)) l').
    { intros x Hx. apply cnt_pos_in. rewrite Cn. apply cnt_pos_in. unfold SchedCOrder.items. rewrite Ec.
      apply in_or_app. left. exact Hx. }
    destruct (chain_suffix _ _ _ _ _ Hl Hc ltac:(discriminate) Hin) as (pre & -> & Hpre).
    assert (Iwl : In (iv_wb wb) (pre ++ map iv_ib (y :: r))).
    { apply cnt_pos_in. rewrite Cn. apply cnt_pos_in. unfold SchedCOrder.items.
      apply in_or_app. right. apply in_or_app. left. apply in_map; auto. }
    apply in_app_or in Iwl. destruct Iwl as [Ip|Is].
    - destruct (chain_in_bounds _ _ _ _ _ Hpre Ip) as (_ & A & B). cbn in A, B. eapply plt_ple_trans; eauto.
    - exfalso. (* the same interval would occur twice among the live items *)
      pose proof (tiling_once _ _ _ (iv_wb wb) (u_tile _ _ _ U)) as Once.
      assert (2 <= cnt (iv_wb wb) (items s)); [|lia].
      unfold SchedCOrder.items. rewrite !cnt_app.
      assert (0 < cnt (iv_wb wb) (map iv_ib (coll_q s))) by (apply cnt_pos_in; rewrite Ec; exact Is).
      assert (0 < cnt (iv_wb wb) (map iv_wb (trans_q s))) by (apply cnt_pos_in; apply in_map; auto).
      lia.
  Qed.


  Notation NL := (@NL Data Enc).
  Notation awake_of := (@awake_of Data Enc).
  Notation exited_of := (@exited_of Data Enc).
  Notation hold_of := (@hold_of Data Enc).
  Notation wait_of := (@wait_of Data Enc).
  Notation productive := (@productive Data Enc).
  Notation in_items_coll := (@in_items_coll Data Enc).
  Notation in_items_trans := (@in_items_trans Data Enc).
  Notation in_items_reord := (@in_items_reord Data Enc).

  Lemma worker_enabled_free_u (s : state) i pc : lock s = None -> nth_error (workers s) i = Some pc ->
    pc <> PRun (KSeq None None) -> awake_of pc = 1 \/ pc = PWait ->
    exists s', step s (TW i) = Some s'.
  Proof.
    intros L Hi Nk Hp. unfold SchedC.step, SchedC.step_obs, worker_step. rewrite Hi.
    pose proof (lock_free_none _ _ _ L) as Lf.
    destruct pc as [| | | |[t|ib|wb|wbo ibo|wb d|wb]]; cbn in Hp; try (destruct Hp; discriminate); try lia.
    - rewrite Lf. eexists; reflexivity.
    - rewrite Lf. eexists; reflexivity.
    - unfold seg_step. cbn [new_wblk wb_enc wb_pos wb_next].
      destruct (collect enc_empty (ib_data ib)) as [[e d] f]. destruct (0 <? data_len d)%N; rewrite ?Lf; eexists; reflexivity.
    - unfold seg_step. rewrite Lf. eexists; reflexivity.
    - unfold seg_step. destruct ibo as [ib|].
      + set (wb0 := match wbo with Some wb => wb | None => new_wblk enc_empty ib end).
        assert (Hw : match wbo, Some ib with
                     | Some wb, _ => Some wb | None, Some ib => Some (new_wblk enc_empty ib) | None, None => None
                     end = Some wb0) by (destruct wbo; reflexivity).
        rewrite Hw. destruct (collect (wb_enc wb0) (ib_data ib)) as [[e d] f].
        destruct (0 <? data_len d)%N; rewrite ?Lf; eexists; reflexivity.
      + destruct wbo as [wb|]; [|congruence]. rewrite Lf. eexists; reflexivity.
    - unfold seg_step. rewrite Lf. destruct d; eexists; reflexivity.
    - unfold seg_step. rewrite Lf. eexists; reflexivity.
  Qed.

  Lemma ready_seq_false (s : state) : ready s T_collect_seq = false -> ultra s = true -> collect_token s = true ->
    (coll_q s <> [] -> work_units s = 0 /\ unfinished s = None) /\
    (unfinished s <> None -> coll_q s = [] /\ eof s = false).
  Proof.
    unfold ready, task_guard, can_collect_seq.
    cbn [view g_ultra g_coll_q g_work_units g_collect_token g_eof g_unfinished_work].
    intros H Eu Et. rewrite Eu, Et in H. cbn [andb] in H. split.
    - intros Hc. destruct (coll_q s) as [|y q]; [congruence|]. cbn [map q_empty negb orb andb] in H.
      apply orb_false_iff in H. destruct H as [H1 H2]. apply Nat.ltb_ge in H1.
      split; [lia|]. destruct (unfinished s); [discriminate H2|reflexivity].
    - intros Hu. destruct (unfinished s) as [u|]; [|congruence]. cbn [is_some] in H.
      rewrite orb_true_r, andb_true_r, andb_true_r in H. apply orb_false_iff in H. destruct H as [H1 H2].
      split; [destruct (coll_q s); [reflexivity|discriminate H1]|exact H2].
  Qed.

  Lemma quiescent_false_u (s : state) : Inv s -> Inv2 s -> UInv s -> PA s -> NL s -> 1 <= nw s ->
    lock s = None -> sumf awake_of (workers s) = 0 -> wakeups s = 0 ->
    (rd s = RIdle /\ in_slots s = 0 \/ rd s = RDone) ->
    (wr s = SIdle /\ output_q s = [] /\ finish s = false \/ wr s = SDone) ->
    ~ (forallb (@is_exit _) (workers s) = true /\ finish s = false /\ rd s = RDone) ->
    final s = false -> False.
  Proof.
    intros I J U P Hnl N L Aw Wk Hrd Hwr Hmain NF.
    pose proof (sum_classes Data Enc (workers s)) as Cl. pose proof (i_hold I) as Ih. rewrite L in Ih. cbn in Ih.
    pose proof (i_len I) as Il.
    destruct (Nat.eq_dec (sumf exited_of (workers s)) 0) as [Ex|Ex].
    2:{ destruct (sumf_pos_ex exited_of (workers s) ltac:(lia)) as (j & pc & Hj & Hp).
      assert (pc = PExit) by (destruct pc as [| | | |[]]; cbn in Hp; try lia; reflexivity). subst pc.
      pose proof (j_exit J _ Hj) as Fin.
      destruct (finished_facts _ _ _ I Fin) as (Fe & Fc & Fw & Fo & Ft & Fr & Fq & Fu & Fwo & _).
      assert (Wz : sumf wait_of (workers s) = 0).
      { destruct (Nat.eq_dec (sumf wait_of (workers s)) 0) as [|Wn]; auto. exfalso.
        destruct (Hnl L) as [X|X]; [right; split; [exact Fin|lia]|lia|lia]. }
      assert (Hall : forallb (@is_exit _) (workers s) = true).
      { apply forallb_forall. intros pc Hpc.
        destruct (In_nth_error _ _ Hpc) as [k Hk].
        pose proof (sumf_ge_nth hold_of _ _ _ Hk). pose proof (sumf_ge_nth wait_of _ _ _ Hk).
        pose proof (sumf_ge_nth awake_of _ _ _ Hk).
        destruct pc as [| | | |[]]; cbn in *; try lia; reflexivity. }
      assert (Erd : rd s = RDone).
      { pose proof (j_eof J) as E. rewrite Fe in E. destruct (rd s); cbn in E; try discriminate. reflexivity. }
      destruct (finish s) eqn:Ef; [|apply Hmain; auto].
      destruct Hwr as [(_ & _ & Hf)|Hwd]; [congruence|].
      unfold final in NF. rewrite Hall, Erd, Hwd in NF. discriminate NF. }
    assert (Wn : sumf wait_of (workers s) = length (workers s)) by lia.
    pose proof (all_wait Data Enc _ Wn) as Allw.
    assert (Hnr : is_some (next_task s) = false /\ finished s = false).
    { destruct (is_some (next_task s)) eqn:E1.
      - exfalso. destruct (Hnl L (or_introl E1)); lia.
      - split; auto. destruct (finished s) eqn:E2; auto. exfalso.
        destruct (Hnl L) as [X|X]; [right; split; [exact E2|lia]|lia|lia]. }
    destruct Hnr as [Hn Hf].
    assert (Sel : select s = None).
    { rewrite <- (i_nt I). destruct (next_task s); [discriminate Hn|reflexivity]. }
    destruct Hwr as [(Ew & Eq & Efin)|Hwd].
    2:{ destruct (j_wr J) as [F _]; [rewrite Hwd; reflexivity|].
        pose proof (j_finish J F) as Hall. rewrite forallb_forall in Hall.
        destruct (workers s) as [|pc ws] eqn:Ews; [cbn in Il; lia|].
        specialize (Hall pc (or_introl eq_refl)). rewrite (Allw pc (or_introl eq_refl)) in Hall. discriminate Hall. }
    assert (Zf : forall f : wpcs -> nat, f PWait = 0 -> sumf f (workers s) = 0).
    { intros f Hf0. apply sumf_all_zero. intros x Hx. rewrite (Allw x Hx). exact Hf0. }
    pose proof (i_units I) as Hu. pose proof (i_in I) as Hi. pose proof (i_out I) as Ho. pose proof (i_tok I) as Htk.
    rewrite (Zf (@units_of Data Enc) eq_refl) in Hu.
    rewrite (Zf (@in_of Data Enc) eq_refl) in Hi. rewrite (Zf (@out_of Data Enc) eq_refl), Ew, Eq in Ho.
    cbn [length SchedCInv.wr_out] in Ho.
    rewrite (Zf seq_of eq_refl) in Htk.
    assert (Tok : collect_token s = true) by (destruct (collect_token s); [reflexivity|cbn in Htk; lia]).
    assert (Wi : flat_map (@items_pc Data Enc) (workers s) = []).
    { clear -Allw. induction (workers s) as [|pc ws IH]; auto. cbn.
      rewrite (Allw pc (or_introl eq_refl)). cbn. apply IH. intros x Hx. apply Allw. right; auto. }
    pose proof (u_tile _ _ _ U) as T. pose proof (u_ultra _ _ _ U) as Ult.
    assert (Bnd : forall x, In x (items s) -> ple (order s) (fst x)) by (intros x Hx; apply (tiling_in _ _ _ _ T Hx)).
    pose proof (select_none_not_ready Data Enc enc_empty collect _ T_collect_seq Sel) as Nseq.
    destruct (ready_seq_false _ Nseq Ult Tok) as [Ns1 Ns2].
    assert (Hdec : items s = [] \/ items s <> []) by (destruct (items s); [left; reflexivity|right; discriminate]).
    destruct Hdec as [Eit|Nit].
    { unfold SchedCOrder.items in Eit. rewrite Wi in Eit. rewrite !app_nil_r in Eit.
      destruct (coll_q s) eqn:Ec; [|discriminate Eit]. destruct (trans_q s) eqn:Et; [|discriminate Eit].
      destruct (reord_q s) eqn:Er; [|discriminate Eit]. destruct (unfinished s) eqn:Eu; [discriminate Eit|].
      cbn [length is_some b2n] in Hu, Hi, Ho.
      destruct Hrd as [(Erd & Ein)|Erd].
      - rewrite Erd, Ein in Hi. cbn [SchedCInv.rd_in] in Hi. pose proof (total_in_pos (nw s) N). lia.
      - pose proof (j_eof J) as E. rewrite Erd in E. cbn in E.
        unfold finished, can_terminate in Hf. cbn [view g_eof g_coll_q g_work_units g_num_worker g_out_slots g_total_out_slots] in Hf.
        rewrite E, Ec in Hf. cbn [map q_empty andb] in Hf.
        assert (E1 : work_units s =? nw s = true) by (apply Nat.eqb_eq; lia).
        assert (E2 : out_slots s =? total_out (nw s) = true) by (apply Nat.eqb_eq; lia).
        rewrite E1, E2 in Hf. discriminate Hf. }
    destruct (tiling_nonempty_head _ _ _ T Nit) as [b Hb].
    unfold SchedCOrder.items in Hb. rewrite Wi in Hb. rewrite app_nil_r in Hb.
    apply in_app_or in Hb. destruct Hb as [Hb|Hb]; [|apply in_app_or in Hb; destruct Hb as [Hb|Hb];
                                                      [|apply in_app_or in Hb; destruct Hb as [Hb|Hb]]].
    - (* an input block is at [order]: collect_seq needs a unit or the unfinished block *)
      apply in_map_iff in Hb. destruct Hb as (ib & Eib & Iib).
      assert (Ep : ib_pos ib = order s) by (unfold SchedCOrder.iv_ib in Eib; congruence).
      destruct (sorted_head_at (@ib_pos Data) _ _ _ (a_sc P) Iib Ep) as (h & t & Ec & Eh).
      { intros y Hy. apply (Bnd (iv_ib y)). apply in_items_coll; auto. }
      destruct (Ns1 ltac:(rewrite Ec; discriminate)) as [W0 Un].
      rewrite W0, Un in Hu. cbn [is_some b2n] in Hu.
      destruct (trans_q s) as [|wb tq] eqn:Et; [cbn in Hu; lia|].
      assert (Iw : In wb (trans_q s)) by (rewrite Et; left; reflexivity).
      pose proof (trans_before_coll _ _ _ _ U Ec Iw) as Lt. rewrite Eh in Lt.
      pose proof (Bnd _ (in_items_trans _ _ Iw)) as B1. cbn in B1.
      eapply plt_irrefl. eapply plt_ple_trans; eauto.
    - (* it waits in trans_q: an output slot must be available *)
      apply in_map_iff in Hb. destruct Hb as (wb & Ewb & Iwb).
      assert (Ep : wb_pos wb = order s) by (unfold SchedCOrder.iv_wb in Ewb; congruence).
      destruct (sorted_head_at (@wb_pos Enc) _ _ _ (a_st P) Iwb Ep) as (h & t & Et & Eh).
      { intros y Hy. apply (Bnd (iv_wb y)). apply in_items_trans; auto. }
      pose proof (select_none_not_ready Data Enc enc_empty collect _ T_transmit Sel) as Nr.
      unfold ready, task_guard, can_transmit in Nr. cbn [view g_trans_q g_out_slots g_order] in Nr.
      rewrite Et in Nr. cbn [map q_empty negb andb peek_pos hd] in Nr. rewrite Eh in Nr.
      assert (Epe : pos_eq (order s) (order s) = true) by (apply pos_eq_spec; reflexivity).
      rewrite Epe, andb_true_r in Nr. apply orb_false_iff in Nr. destruct Nr as [_ Nr]. apply Nat.ltb_ge in Nr.
      pose proof (a_res P) as Res. unfold SchedCLive.reserve in Res.
      rewrite (Zf (le_order_pc (order s)) eq_refl), Eq, Ew in Res. cbn in Res.
      pose proof thresh_pos as Tp.
      assert (Hle : 0 < le_order_q (order s) (reord_q s)) by lia.
      unfold SchedCLive.le_order_q in Hle.
      destruct (filter (fun wb0 => pos_le (wb_pos wb0) (order s)) (reord_q s)) as [|w2 r2] eqn:Ef; [cbn in Hle; lia|].
      assert (I2 : In w2 (filter (fun wb0 => pos_le (wb_pos wb0) (order s)) (reord_q s))) by (rewrite Ef; left; reflexivity).
      apply filter_In in I2. destruct I2 as [I2 L2]. apply pos_le_spec in L2.
      pose proof (Bnd _ (in_items_reord _ _ I2)) as B2. cbn in B2.
      assert (E2 : wb_pos w2 = order s) by (apply ple_antisym; auto).
      pose proof (in_items_trans _ _ Iwb) as A1. pose proof (in_items_reord _ _ I2) as A2.
      unfold SchedCOrder.iv_wb in A1, A2. rewrite Ep in A1. rewrite E2 in A2.
      pose proof (tiling_distinct _ _ _ _ _ _ T A1 A2) as Eb.
      pose proof (tiling_once _ _ _ (order s, wb_next wb) T) as Once.
      assert (2 <= cnt (order s, wb_next wb) (items s)); [|lia].
      unfold SchedCOrder.items. rewrite !cnt_app.
      assert (0 < cnt (order s, wb_next wb) (map iv_wb (trans_q s))).
      { apply cnt_pos_in. apply in_map_iff. exists wb. split; auto. unfold SchedCOrder.iv_wb. congruence. }
      assert (0 < cnt (order s, wb_next wb) (map iv_wb (reord_q s))).
      { apply cnt_pos_in. apply in_map_iff. exists w2. split; auto. unfold SchedCOrder.iv_wb. congruence. }
      lia.
    - (* it waits in reord_q: reorder is ready *)
      apply in_map_iff in Hb. destruct Hb as (wb & Ewb & Iwb).
      assert (Ep : wb_pos wb = order s) by (unfold SchedCOrder.iv_wb in Ewb; congruence).
      destruct (sorted_head_at (@wb_pos Enc) _ _ _ (a_sr P) Iwb Ep) as (h & t & Er & Eh).
      { intros y Hy. apply (Bnd (iv_wb y)). apply in_items_reord; auto. }
      pose proof (select_none_not_ready Data Enc enc_empty collect _ T_reorder Sel) as Nr.
      unfold ready, task_guard, can_reorder in Nr. cbn [view g_reord_q g_order] in Nr.
      rewrite Er in Nr. cbn [map q_empty negb andb peek_pos hd] in Nr. rewrite Eh in Nr.
      assert (Epe : pos_eq (order s) (order s) = true) by (apply pos_eq_spec; reflexivity).
      rewrite Epe in Nr. discriminate Nr.
    - (* it is the unfinished block: more input must be on its way *)
      destruct (unfinished s) as [u|] eqn:Eu; [|destruct Hb].
      destruct (Ns2 ltac:(discriminate)) as [Ec Ee].
      rewrite Ec in Hi. cbn [length] in Hi.
      destruct Hrd as [(Erd & Ein)|Erd].
      + rewrite Erd, Ein in Hi. cbn [SchedCInv.rd_in] in Hi. pose proof (total_in_pos (nw s) N). lia.
      + pose proof (j_eof J) as E. rewrite Erd in E. cbn in E. congruence.
  Qed.

  Theorem progress_inv_u (s : state) : Inv s -> Inv2 s -> UInv s -> PA s -> NL s -> 1 <= nw s ->
    (forall k, rd s <> RRun k) -> (forall k, wr s <> SRun k) ->
    final s = false -> exists e s', step s e = Some s' /\ productive s e = true.
  Proof.
    intros I J U P Hnl N Hrr Hsr NF.
    destruct (lock s) as [t|] eqn:L.
    { (* the holder of the mutex can always go on *)
      destruct (i_lock I _ L) as (i & p & -> & Hi & Hp). exists (TW i).
      unfold SchedC.step, SchedC.step_obs, worker_step, SchedCProg.productive. rewrite Hi.
      pose proof (holds_refl _ _ _ _ L) as Hh.
      destruct p as [| | | |[t|ib|wb|wbo ibo|wb d|wb]]; try discriminate Hp.
      - rewrite Hh. destruct (next_task s); [|destruct (finished s)]; eexists; split; reflexivity.
      - unfold seg_step. rewrite Hh. destruct (seg_start s i t). eexists; split; reflexivity. }
    pose proof (sum_classes Data Enc (workers s)) as Cl. pose proof (i_hold I) as Ih. rewrite L in Ih. cbn in Ih.
    pose proof (i_len I) as Il. pose proof (i_wake I) as Iw.
    (* an awake worker *)
    destruct (Nat.eq_dec (sumf awake_of (workers s)) 0) as [Aw|Aw].
    2:{ destruct (sumf_pos_ex awake_of (workers s) ltac:(lia)) as (j & pc & Hj & Hp).
        assert (Hp1 : awake_of pc = 1) by (destruct pc as [| | | |[]]; cbn in *; lia).
        assert (Nk : pc <> PRun (KSeq None None)) by (intros ->; exact (a_kseq P j Hj)).
        destruct (worker_enabled_free_u s j pc L Hj Nk (or_introl Hp1)) as [s' Hs].
        exists (TW j), s'. split; auto. unfold SchedCProg.productive. rewrite Hj. destruct pc; auto; discriminate. }
    (* a signalled waiter *)
    destruct (Nat.eq_dec (wakeups s) 0) as [Wk|Wk].
    2:{ destruct (sumf_pos_ex wait_of (workers s) ltac:(lia)) as (j & pc & Hj & Hp).
        assert (pc = PWait) by (destruct pc as [| | | |[]]; cbn in Hp; try lia; reflexivity). subst pc.
        destruct (worker_enabled_free_u s j PWait L Hj ltac:(discriminate) (or_intror eq_refl)) as [s' Hs].
        exists (TW j), s'. split; auto. unfold SchedCProg.productive. rewrite Hj. apply Nat.ltb_lt. lia. }
    (* reader *)
    destruct (rd s) eqn:Er.
    2:{ exists TR. unfold SchedC.step, SchedC.step_obs, reader_step, SchedCProg.productive. rewrite Er, (lock_free_none _ _ _ L).
        destruct (input s) as [|d r]; [eexists; split; reflexivity|].
        destruct (data_len d =? 0)%N; eexists; split; reflexivity. }
    2:{ exfalso. eapply Hrr; eauto. }
    2:{ exists TR. unfold SchedC.step, SchedC.step_obs, reader_step, SchedCProg.productive. rewrite Er, (lock_free_none _ _ _ L).
        eexists; split; reflexivity. }
    all: (* writer *)
      destruct (wr s) eqn:Ew;
      [ | exists TS; unfold SchedC.step, SchedC.step_obs, writer_step, SchedCProg.productive; rewrite Ew, (lock_free_none _ _ _ L);
          eexists; split; reflexivity
        | exfalso; eapply Hsr; eauto | ].
    all: try (destruct (in_slots s) as [|m] eqn:Ein;
              [|exists TR; unfold SchedC.step, SchedC.step_obs, reader_step, SchedCProg.productive; rewrite Er, Ein;
                eexists; split; reflexivity]).
    all: try (destruct (output_q s) as [|wb oq] eqn:Eq;
              [|exists TS; unfold SchedC.step, SchedC.step_obs, writer_step, SchedCProg.productive; rewrite Ew, Eq;
                eexists; split; reflexivity]).
    all: try (destruct (finish s) eqn:Efin;
              [exists TS; unfold SchedC.step, SchedC.step_obs, writer_step, SchedCProg.productive; rewrite Ew, Eq, Efin;
               eexists; split; reflexivity|]).
    (* main: join and finish *)
    all: destruct (forallb (@is_exit _) (workers s) && negb (finish s) &&
                  match rd s with RDone => true | _ => false end) eqn:Em.
    all: try solve [ exists TM; unfold SchedC.step, SchedC.step_obs, main_step, SchedCProg.productive;
                     rewrite Em; eexists; split; reflexivity ].
    (* quiescent: impossible *)
    all: exfalso; eapply (quiescent_false_u s I J U P Hnl N L Aw Wk); eauto.
    all: try solve [ intros (H1 & H2 & H3); rewrite H1, H2, Er in Em; cbn in Em; discriminate Em ].
    all: try solve [ intros (H1 & H2 & H3); rewrite H1, H2, H3 in Em; cbn in Em; discriminate Em ].
  Qed.


  (* C11_progress, --sequential mode *)
  Theorem c11_progress_ultra n l inp s : 1 <= n -> reachable n true l inp s -> final s = false ->
    exists e s', step s e = Some s' /\ productive s e = true.
  Proof.
    intros N R NF.
    destruct (norun _ _ _ _ _ _ _ _ _ _ R) as [Hrr Hsr].
    pose proof (@c11_no_lost_wakeup _ _ data_len enc_empty collect _ _ _ _ _ N R) as Hnl.
    assert (H : Inv s /\ Inv2 s /\ UInv s /\ PA s /\ nw s = n).
    { clear NF Hrr Hsr Hnl. unfold SchedCInv.reachable in R. induction R as [|s e s' R IH H].
      - split; [apply inv_init|]. split; [apply inv2_init|]. split; [apply uinv_init|]. split; [apply pa_init|reflexivity].
      - destruct IH as (I & J & U & P & En).
        split; [eapply inv_step; eauto|]. split; [eapply inv2_step; eauto|]. split; [eapply uinv_step; eauto|].
        split; [eapply pa_step; eauto|].
        rewrite <- En. apply step_Step in H. destruct H; rewrite ?sched_unlock_eq, ?task_return_eq; reflexivity. }
    destruct H as (I & J & U & P & En).
    apply progress_inv_u; auto. lia.
  Qed.

  (* C11_progress, both modes: the compression scheduler cannot deadlock *)
  Theorem c11_progress n u l inp s : 1 <= n -> reachable n u l inp s -> final s = false ->
    exists e s', step s e = Some s' /\ productive s e = true.
  Proof. destruct u; [apply c11_progress_ultra|apply c11_progress_default]. Qed.

End ProgU.
