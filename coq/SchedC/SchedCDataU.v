(* C03, scheduler part, --sequential ("ultra") mode: one encoder block may span
   several input chunks.  The specification is a sequential collector machine that
   folds [collect] over the delivered chunks; every block anywhere in the system is
   a block emitted by that machine, emitted blocks are determined by their start
   position, and (SchedCOrderU) a complete run has written the gap-free chain of
   blocks from 0.0 to the end of the delivered input.  Hence the written sequence
   is a function of the chunk list and the level alone. *)
From Coq Require Import List NArith Arith Bool Lia Permutation Sorted.
From LBZ Require Import SchedC.SchedCIface Gen.SchedCTab SchedC.Pool SchedC.PoolLemmas SchedC.SchedC SchedC.SchedCInv
  SchedC.Tiling SchedC.SchedCOrder SchedC.SchedCOrderU SchedC.SchedCData.
Import ListNotations.

Section DataU.
  Variable Data : Type.
  Variable Enc : Type.
  Variable data_len : Data -> N.
  Variable enc_empty : Enc.
  Variable collect : Enc -> Data -> Enc * Data * bool.
  Variable inp0 : list Data.            (* what the successive xread(in_granul) calls return *)
  Variable lvl0 : N.

  Notation state := (state Data Enc).
  Notation cont := (cont Data Enc).
  Notation wpcs := (wpc cont).
  Notation step := (step data_len enc_empty collect).
  Notation Inv := (@Inv Data Enc).
  Notation Inv2 := (@Inv2 Data Enc).
  Notation UInv := (@UInv Data Enc).
  Notation reachable := (reachable data_len enc_empty collect).
  Notation seq_of := (@seq_of Data Enc).
  Notation head_pos := (@head_pos Data).
  Notation deliv := (@delivered Data data_len lvl0).
  Notation ndeliv := (deliv inp0).

  (* ---------------------------------------------------------------------- *)
  (* the specification: a sequential collector                               *)
  (* ---------------------------------------------------------------------- *)

  (* chunk j as the reader delivers it (nothing after the first short chunk) *)
  Definition chunkD (j : N) : option Data :=
    if N.to_nat j <? ndeliv then nth_error inp0 (N.to_nat j) else None.

  (* encoder under construction (start position, contents), position of the
     next input, the input at that position (None: end of input) *)
  Record mst := mkmst { m_enc : option (pos * Enc); m_pos : pos; m_data : option Data }.

  Definition m_start (m : mst) : pos * Enc :=
    match m_enc m with Some pe => pe | None => (m_pos m, enc_empty) end.

  (* one call of collect() (or the final flush); the block it completes, if any *)
  Definition mstep (m : mst) : mst * option (wblk Enc) :=
    match m_data m with
    | Some d =>
        let '(p0, e0) := m_start m in
        let '(e, d', full) := collect e0 d in
        let more := (0 <? data_len d')%N in
        let p' := if more then pos_minor_succ (m_pos m) else pos_major_succ (m_pos m) in
        let dat' := if more then Some d' else chunkD (major (m_pos m) + 1) in
        if full then (mkmst None p' dat', Some (mkwblk p0 p' e))
        else (mkmst (Some (p0, e)) p' dat', None)
    | None =>
        match m_enc m with
        | Some (p0, e0) => (mkmst None (m_pos m) None, Some (mkwblk p0 (m_pos m) e0))
        | None => (m, None)
        end
    end.

  Definition m0 : mst := mkmst None pos0 (chunkD 0).
  Definition mnext (m : mst) : mst := fst (mstep m).
  Definition M (k : nat) : mst := Nat.iter k mnext m0.

  (* the specification of a written block: it is emitted by the collector *)
  Definition SpecWU (wb : wblk Enc) : Prop := exists k, snd (mstep (M k)) = Some wb.

  (* the list of all blocks emitted by the first k steps (the specified output) *)
  Fixpoint spec_blocks (k : nat) : list (wblk Enc) :=
    match k with
    | O => []
    | S j => spec_blocks j ++ match snd (mstep (M j)) with Some wb => [wb] | None => [] end
    end.

  Definition MI (m : mst) : Prop :=
    (minor (m_pos m) = 0%N -> m_data m = chunkD (major (m_pos m))) /\
    (forall p0 e, m_enc m = Some (p0, e) -> plt p0 (m_pos m)).

  Definition sp (m : mst) : pos := fst (m_start m).

  Lemma sp_le m : MI m -> ple (sp m) (m_pos m).
  Proof.
    intros [_ H]. unfold sp, m_start. destruct (m_enc m) as [[p0 e0]|]; cbn.
    - right. eapply H; eauto.
    - apply ple_refl.
  Qed.

  Lemma mi_step m : MI m -> MI (mnext m).
  Proof.
    intros I. pose proof (sp_le _ I) as L. destruct I as [I1 I2]. unfold mnext, mstep, sp in *.
    destruct (m_data m) as [d|] eqn:Ed.
    - destruct (m_start m) as [p0 e0] eqn:Es. cbn [fst] in L.
      destruct (collect e0 d) as [[e d'] f].
      destruct (0 <? data_len d')%N; destruct f; split;
        cbn [fst m_pos m_data m_enc pos_minor_succ pos_major_succ minor major];
        try discriminate; try reflexivity; try (intros Z; exfalso; lia).
      all: intros p1 e1 E; injection E as <- <-.
      + eapply ple_plt_trans; [exact L|apply plt_minor_succ].
      + eapply ple_plt_trans; [exact L|apply plt_major_succ].
    - destruct (m_enc m) as [[p0 e0]|] eqn:Ee; cbn [fst m_pos m_data m_enc]; split; auto; try discriminate.
      + intros Z. rewrite <- I1 by exact Z. exact Ed.
      + rewrite Ee. exact I2.
  Qed.

  Lemma emit_pos m wb : snd (mstep m) = Some wb -> wb_pos wb = sp m.
  Proof.
    unfold mstep, sp. destruct (m_data m) as [d|].
    - destruct (m_start m) as [p0 e0]. destruct (collect e0 d) as [[e d'] f].
      destruct f; cbn; intros H; [injection H as <-; reflexivity|discriminate].
    - unfold m_start. destruct (m_enc m) as [[p0 e0]|]; cbn; intros H; [injection H as <-; reflexivity|discriminate].
  Qed.

  Lemma sp_mono m : MI m -> ple (sp m) (sp (mnext m)).
  Proof.
    intros I. pose proof (sp_le _ I) as L. unfold mnext, mstep, sp in *.
    destruct (m_data m) as [d|] eqn:Ed.
    - destruct (m_start m) as [p0 e0] eqn:Es. cbn [fst] in L.
      destruct (collect e0 d) as [[e d'] f].
      destruct (0 <? data_len d')%N; destruct f; cbn; try apply ple_refl.
      + right. eapply ple_plt_trans; [exact L|apply plt_minor_succ].
      + right. eapply ple_plt_trans; [exact L|apply plt_major_succ].
    - unfold m_start in *. destruct (m_enc m) as [[p0 e0]|] eqn:Ee; cbn in *.
      + exact L.
      + rewrite Ee. apply ple_refl.
  Qed.

  Lemma emit_lt m wb : MI m -> m_data m <> None -> snd (mstep m) = Some wb -> plt (sp m) (sp (mnext m)).
  Proof.
    intros I. pose proof (sp_le _ I) as L. unfold mnext, mstep, sp in *.
    destruct (m_data m) as [d|] eqn:Ed; [|congruence]. intros _.
    destruct (m_start m) as [p0 e0] eqn:Es. cbn [fst] in L.
    destruct (collect e0 d) as [[e d'] f].
    destruct (0 <? data_len d')%N; destruct f; cbn; try discriminate; intros _.
    - eapply ple_plt_trans; [exact L|apply plt_minor_succ].
    - eapply ple_plt_trans; [exact L|apply plt_major_succ].
  Qed.

  Lemma halted m : m_data m = None -> m_data (mnext m) = None /\ m_enc (mnext m) = None.
  Proof.
    intros H. unfold mnext, mstep. rewrite H. destruct (m_enc m) as [[p0 e0]|] eqn:Ee; cbn; auto.
  Qed.

  Lemma dead m : m_data m = None -> m_enc m = None -> mstep m = (m, None).
  Proof. intros H1 H2. unfold mstep. rewrite H1, H2. reflexivity. Qed.

  Lemma M_succ k : M (S k) = mnext (M k).
  Proof. reflexivity. Qed.

  Lemma mi_M k : MI (M k).
  Proof.
    induction k.
    - split; cbn; [reflexivity|discriminate].
    - rewrite M_succ. apply mi_step; auto.
  Qed.

  Lemma sp_mono_n k n : ple (sp (M k)) (sp (M (n + k))).
  Proof.
    induction n; cbn [plus].
    - apply ple_refl.
    - rewrite M_succ. eapply ple_trans; [exact IHn|]. apply sp_mono, mi_M.
  Qed.

  Lemma dead_n k n : m_data (M k) = None -> m_enc (M k) = None -> M (n + k) = M k.
  Proof.
    intros H1 H2. induction n; cbn [plus]; auto. rewrite M_succ, IHn. unfold mnext. rewrite dead; auto.
  Qed.

  Lemma emit_order k n wb1 wb2 :
    snd (mstep (M k)) = Some wb1 -> snd (mstep (M (n + S k))) = Some wb2 -> plt (wb_pos wb1) (wb_pos wb2).
  Proof.
    intros E1 E2. rewrite (emit_pos _ _ E1), (emit_pos _ _ E2).
    destruct (m_data (M k)) eqn:Ed.
    - eapply plt_ple_trans; [|apply sp_mono_n]. rewrite M_succ. eapply emit_lt; eauto.
      + apply mi_M.
      + congruence.
    - exfalso. destruct (halted _ Ed) as [H1 H2]. rewrite <- M_succ in H1, H2.
      rewrite (dead_n _ n H1 H2) in E2. rewrite dead in E2 by auto. discriminate.
  Qed.

  Lemma specWU_fun wb1 wb2 : SpecWU wb1 -> SpecWU wb2 -> wb_pos wb1 = wb_pos wb2 -> wb1 = wb2.
  Proof.
    intros (k1 & E1) (k2 & E2) P.
    destruct (lt_eq_lt_dec k1 k2) as [[L| ->]|L].
    - exfalso. replace k2 with ((k2 - S k1) + S k1) in E2 by lia.
      pose proof (emit_order _ _ _ _ E1 E2) as Z. rewrite P in Z. eapply plt_irrefl; eauto.
    - congruence.
    - exfalso. replace k1 with ((k1 - S k2) + S k2) in E1 by lia.
      pose proof (emit_order _ _ _ _ E2 E1) as Z. rewrite P in Z. eapply plt_irrefl; eauto.
  Qed.


  (* ---------------------------------------------------------------------- *)
  (* the reader: which chunks are delivered                                  *)
  (* ---------------------------------------------------------------------- *)
  Definition rdm (r : rpc cont) : bool := match r with RIdle | RRead => true | _ => false end.

  Record RInv (s : state) : Prop := {
    r_lvl : lvl s = lvl0;
    r_cnt : ndeliv = N.to_nat (next_id s) + (if rdm (rd s) then deliv (input s) else 0);
    r_in : input s = skipn (N.to_nat (next_id s)) inp0
  }.

  Local Arguments select : simpl never.
  Local Arguments finished : simpl never.
  Local Arguments ready : simpl never.
  Local Arguments unlock_wakeups : simpl never.
  Local Arguments signal : simpl never.
  Local Arguments broadcast : simpl never.
  Local Arguments pq_insert : simpl never.
  Local Arguments upd : simpl never.
  Local Arguments cap_output : simpl never.

  Ltac simp :=
    rewrite ?sched_unlock_eq, ?task_return_eq; unfold set_pc;
    cbn [nw ultra lvl lock next_task wakeups eof work_units in_slots out_slots coll_q trans_q reord_q order
         next_id collect_token unfinished workers rd input wr output_q written finish bad
         set_lock set_next_task set_wakeups set_eof set_work_units set_in_slots set_out_slots set_coll_q
         set_trans_q set_reord_q set_order set_next_id set_collect_token set_unfinished set_workers set_rd
         set_input set_wr set_output_q set_written set_finish set_bad].

  Lemma rinv_step s e s' : RInv s -> step s e = Some s' -> RInv s'.
  Proof.
    intros [Dl Dc Din] H. apply step_Step in H.
    destruct H as [i Hi L|i Hi L|i t Hi L Hn|i Hi L Hn Hf|i Hi L Hn Hf
                  |i Hi L Hq|i ib q wu b Hi L Hq Hd|i wub b2 Hi L Hw Hb|i Hi L Hq|i wb q os b Hi L Hq Hd
                  |i Hi L Hq|i wb q Hi L Hq
                  |i ib e d f Hi L Hc Hl|i ib e d f Hi Hc Hl|i wb Hi L
                  |i wbo ib wb0 e d f Hi L Hw Hc Hl|i wbo ib wb0 e d f Hi Hw Hc Hl|i wb Hi L
                  |i wb Hi L|i wb Hi L|i wb Hi L
                  |m Hr Hs|Hr Hin|d rest Hr Hin Hl L|Hr L|wb q Hw Hq|Hw Hq Hf|wb Hw L|Hall Hf Hr].
    all: constructor; simp; auto.
    all: try solve [ rewrite ?Hr in *; cbn [rdm] in *; lia ].
    - destruct Hin as [Hin|(d0 & r0 & Hin & Hz)]; rewrite Hr in Dc; cbn [rdm] in Dc; rewrite Hin in Dc;
        cbn [delivered] in Dc; rewrite ?Hz in Dc; cbn in Dc; cbn [rdm]; lia.
    - rewrite Hr in Dc; cbn [rdm] in Dc; rewrite Hin in Dc; cbn [delivered] in Dc;
        apply N.eqb_neq in Hl; rewrite Hl, Dl in *;
        destruct (data_len d <? in_granul lvl0)%N; cbn [rdm] in *; lia.
    - rewrite Din in Hin. destruct (skipn_nth _ _ _ _ Hin) as [_ E]. rewrite <- E. f_equal. lia.
  Qed.

  Lemma rinv_init n u : RInv (@init Data Enc n u lvl0 inp0).
  Proof. constructor; reflexivity. Qed.

  (* the chunk the reader is about to deliver *)
  Lemma deliver_chunk s d rest : RInv s -> rd s = RRead -> input s = d :: rest -> data_len d <> 0%N ->
    chunkD (next_id s) = Some d.
  Proof.
    intros [Dl Dc Din] Hr Hin Hl. unfold chunkD. rewrite Hr in Dc. cbn [rdm] in Dc. rewrite Hin in Dc.
    cbn [delivered] in Dc. apply N.eqb_neq in Hl. rewrite Hl in Dc.
    assert (Lt : N.to_nat (next_id s) < ndeliv) by lia. apply Nat.ltb_lt in Lt. rewrite Lt.
    rewrite Din in Hin. apply skipn_nth in Hin. tauto.
  Qed.

  (* nothing is left once the reader has reported the end of the input *)
  Lemma eof_chunk s : RInv s -> Inv2 s -> eof s = true -> chunkD (next_id s) = None /\ N.to_nat (next_id s) = ndeliv.
  Proof.
    intros [Dl Dc Din] J E. rewrite (j_eof J) in E. destruct (rd s); try discriminate. cbn [rdm] in Dc.
    unfold chunkD. rewrite Dc, Nat.add_0_r, Nat.ltb_irrefl. auto.
  Qed.

  (* ---------------------------------------------------------------------- *)
  (* the collector of the scheduler follows the specification                *)
  (* ---------------------------------------------------------------------- *)
  Definition seq_pc (p : wpcs) : list cont :=
    match p with
    | PRun (KSeq a b) => [KSeq a b]
    | PRun (KSeqFin w f) => [KSeqFin w f]
    | _ => []
    end.

  Definition enc_rel (wbo : option (wblk Enc)) (eo : option (pos * Enc)) : Prop :=
    match wbo, eo with
    | None, None => True
    | Some w, Some (p0, e) => wb_pos w = p0 /\ wb_enc w = e
    | _, _ => False
    end.

  (* an untouched chunk *)
  Definition Fresh (ib : iblk Data) : Prop :=
    minor (ib_pos ib) = 0%N /\ chunkD (major (ib_pos ib)) = Some (ib_data ib).

  (* the head of coll_q (or the next chunk to be read) is the collector's next input *)
  Definition Front (cq : list (iblk Data)) (nid : N) (wbo : option (wblk Enc)) (m : mst) : Prop :=
    m_pos m = head_pos cq nid /\
    (forall y r, cq = y :: r -> m_data m = Some (ib_data y)) /\
    enc_rel wbo (m_enc m) /\
    Forall Fresh (tl cq).

  Definition FKv (cq : list (iblk Data)) (nid : N) (unf : option (wblk Enc)) (sq : list cont) (m : mst) : Prop :=
    match sq with
    | [] => Front cq nid unf m
    | [KSeq wbo ibo] =>
        match ibo with
        | Some ib =>
            m_pos m = ib_pos ib /\ m_data m = Some (ib_data ib) /\ enc_rel wbo (m_enc m) /\ Forall Fresh cq
        | None =>
            match wbo with
            | Some wb => m_data m = None /\ m_pos m = wb_next wb /\ enc_rel (Some wb) (m_enc m) /\ cq = []
            | None => False
            end
        end
    | [KSeqFin wb f] =>
        Front cq nid (if f then None else Some wb) m /\ (f = true -> SpecWU wb)
    | _ => False
    end.

  Definition FK (s : state) (m : mst) : Prop :=
    FKv (coll_q s) (next_id s) (unfinished s) (flat_map seq_pc (workers s)) m.

  Lemma seq_pc_len ws : length (flat_map seq_pc ws) = sumf seq_of ws.
  Proof.
    induction ws as [|p ws IH]; [reflexivity|]. cbn [flat_map]. rewrite app_length, sumf_cons, IH. f_equal.
    destruct p as [| | | |k]; try reflexivity. destruct k; reflexivity.
  Qed.

  Lemma flat_upd_gen (ws : list wpcs) i p : nth_error ws i = Some p ->
    exists a b, flat_map seq_pc ws = a ++ seq_pc p ++ b /\
                forall p', flat_map seq_pc (upd ws i p') = a ++ seq_pc p' ++ b.
  Proof.
    intros H. destruct (nth_error_split_upd _ _ _ H) as (l1 & l2 & -> & _ & U).
    exists (flat_map seq_pc l1), (flat_map seq_pc l2). split.
    - rewrite flat_map_app. reflexivity.
    - intros p'. rewrite U, flat_map_app. reflexivity.
  Qed.

  (* a step of a worker outside collect_seq *)
  Lemma flat_same (ws : list wpcs) i p p' : nth_error ws i = Some p -> seq_pc p = [] -> seq_pc p' = [] ->
    flat_map seq_pc (upd ws i p') = flat_map seq_pc ws.
  Proof.
    intros H E E'. destruct (flat_upd_gen _ _ _ H) as (a & b & E1 & E2). rewrite E2, E1, E, E'. reflexivity.
  Qed.

  Lemma seq_le1 s : Inv s -> length (flat_map seq_pc (workers s)) <= 1.
  Proof. intros I. rewrite seq_pc_len, (i_tok I). destruct (collect_token s); cbn; lia. Qed.

  (* the worker inside collect_seq is the only one *)
  Lemma seq_single s i p c : Inv s -> nth_error (workers s) i = Some p -> seq_pc p = [c] ->
    flat_map seq_pc (workers s) = [c] /\ forall p', flat_map seq_pc (upd (workers s) i p') = seq_pc p'.
  Proof.
    intros I H E. pose proof (seq_le1 _ I) as L. destruct (flat_upd_gen _ _ _ H) as (a & b & E1 & E2).
    rewrite E1, E in L. rewrite !app_length in L. cbn [length] in L.
    destruct a; [|cbn in L; lia]. destruct b; [|cbn in L; lia]. split.
    - rewrite E1, E. reflexivity.
    - intros p'. rewrite E2. cbn. apply app_nil_r.
  Qed.

  (* nobody is inside collect_seq *)
  Lemma seq_none s i p : Inv s -> collect_token s = true -> nth_error (workers s) i = Some p ->
    flat_map seq_pc (workers s) = [] /\ forall p', flat_map seq_pc (upd (workers s) i p') = seq_pc p'.
  Proof.
    intros I T H. assert (Z : flat_map seq_pc (workers s) = []).
    { apply length_zero_iff_nil. rewrite seq_pc_len, (i_tok I), T. reflexivity. }
    split; auto. destruct (flat_upd_gen _ _ _ H) as (a & b & E1 & E2). rewrite Z in E1.
    symmetry in E1. apply app_eq_nil in E1. destruct E1 as [-> E1]. apply app_eq_nil in E1. destruct E1 as [_ ->].
    intros p'. rewrite E2. cbn. apply app_nil_r.
  Qed.

  Lemma enc_rel_start wbo (ib : iblk Data) m : enc_rel wbo (m_enc m) -> m_pos m = ib_pos ib ->
    m_start m = (wb_pos (match wbo with Some wb => wb | None => new_wblk enc_empty ib end),
                 wb_enc (match wbo with Some wb => wb | None => new_wblk enc_empty ib end)).
  Proof.
    unfold enc_rel, m_start. intros R P. destruct wbo as [w|]; destruct (m_enc m) as [[p0 e0]|]; try tauto.
    - destruct R as [<- <-]. reflexivity.
    - cbn. rewrite P. reflexivity.
  Qed.


  (* one call of collect() by the scheduler's collector is one step of the specification *)
  Lemma mstep_collect m (ib : iblk Data) wbo wb0 e d f :
    m_pos m = ib_pos ib -> m_data m = Some (ib_data ib) -> enc_rel wbo (m_enc m) ->
    wb0 = match wbo with Some wb => wb | None => new_wblk enc_empty ib end ->
    collect (wb_enc wb0) (ib_data ib) = (e, d, f) ->
    mstep m =
      let more := (0 <? data_len d)%N in
      let p' := if more then pos_minor_succ (ib_pos ib) else pos_major_succ (ib_pos ib) in
      let dat' := if more then Some d else chunkD (major (ib_pos ib) + 1) in
      if f then (mkmst None p' dat', Some (mkwblk (wb_pos wb0) p' e))
      else (mkmst (Some (wb_pos wb0, e)) p' dat', None).
  Proof.
    intros P D R W C. unfold mstep. rewrite D, (enc_rel_start _ ib _ R P), <- W, C, P. reflexivity.
  Qed.

  Lemma seq_in (ws : list wpcs) c : In c (flat_map seq_pc ws) -> exists i, nth_error ws i = Some (PRun c).
  Proof.
    intros H. apply in_flat_map in H. destruct H as (p & Hp & Hc). apply In_nth_error in Hp. destruct Hp as [i Hi].
    exists i. rewrite Hi. destruct p as [| | | |k0]; try (cbn in Hc; tauto).
    destruct k0; cbn in Hc; try tauto; destruct Hc as [<-|[]]; reflexivity.
  Qed.

  Lemma front_deliver cq nid wbo m ibn : Front cq nid wbo m -> MI m -> ib_pos ibn = mkpos nid 0 -> Fresh ibn ->
    Front (cq ++ [ibn]) (nid + 1) wbo m.
  Proof.
    intros (F1 & F2 & F3 & F4) [MI1 _] P [_ Fr]. unfold Front. split; [|split; [|split]]; auto.
    - rewrite (head_pos_app _ _ _ nid) by exact P. exact F1.
    - intros y r E. destruct cq as [|y0 cq].
      + cbn in E. injection E as <- <-. cbn in F1. rewrite MI1 by (rewrite F1; reflexivity).
        rewrite F1. rewrite P in Fr. exact Fr.
      + cbn in E. injection E as <- <-. eapply F2; reflexivity.
    - destruct cq as [|y0 cq]; cbn [app tl] in *; [constructor|]. apply Forall_app. split; auto.
      constructor; [|constructor]. split; auto. rewrite P. reflexivity.
  Qed.

  Lemma fkv_deliver cq nid unf sq m ibn : FKv cq nid unf sq m -> MI m -> ib_pos ibn = mkpos nid 0 -> Fresh ibn ->
    (forall wb, sq = [KSeq (Some wb) None] -> wb_next wb = head_pos cq nid) ->
    FKv (cq ++ [ibn]) (nid + 1) unf sq m.
  Proof.
    intros F Mi P Fr Fl. unfold FKv in *.
    destruct sq as [|c sq]; [apply front_deliver; auto|].
    destruct sq as [|c2 sq]; [|destruct c; tauto].
    destruct c as [t|ib0|w|wbo ibo|wb f|w]; try tauto.
    - destruct ibo as [ib|].
      + cbv beta iota in F |- *. destruct F as (F1 & F2 & F3 & F4). repeat split; auto. apply Forall_app. split; auto.
      + destruct wbo as [wb|]; [|tauto]. exfalso. destruct F as (F1 & F2 & F3 & ->).
        specialize (Fl _ eq_refl). cbn in Fl. destruct Mi as [MI1 _]. rewrite F2, Fl in MI1.
        specialize (MI1 eq_refl). cbn in MI1. destruct Fr as [_ Fr]. rewrite P in Fr. cbn in Fr. congruence.
    - destruct F as [F Sp]. split; auto. apply front_deliver; auto.
  Qed.

  Lemma ready_seq_eof (s : state) : ready s T_collect_seq = true -> coll_q s = [] -> eof s = true.
  Proof.
    unfold ready, task_guard, can_collect_seq. cbn [view g_coll_q g_eof g_unfinished_work]. intros H E. rewrite E in H.
    cbn [map q_empty negb orb] in H. rewrite !andb_true_iff in H. tauto.
  Qed.

  Lemma fk_step s e s' : Inv s -> Inv2 s -> UInv s -> RInv s -> (exists k, FK s (M k)) -> step s e = Some s' ->
    exists k, FK s' (M k).
  Proof.
    intros I J U R (k & F) H. apply step_Step in H. unfold FK in *.
    pose proof (@u_tile _ _ _ U) as Ut.
    destruct H as [i Hi L|i Hi L|i t Hi L Hn|i Hi L Hn Hf|i Hi L Hn Hf
                  |i Hi L Hq|i ib q wu b Hi L Hq Hd|i wub b2 Hi L Hw Hb|i Hi L Hq|i wb q os b Hi L Hq Hd
                  |i Hi L Hq|i wb q Hi L Hq
                  |i ib e d f Hi L Hc Hl|i ib e d f Hi Hc Hl|i wb Hi L
                  |i wbo ib wb0 e d f Hi L Hw Hc Hl|i wbo ib wb0 e d f Hi Hw Hc Hl|i wb Hi L
                  |i wb Hi L|i wb Hi L|i wb Hi L
                  |m Hr Hs|Hr Hin|d rest Hr Hin Hl L|Hr L|wb q Hw Hq|Hw Hq Hf|wb Hw L|Hall Hf Hr].
    6-7: (exfalso; pose proof (i_ready I _ _ Hi) as Rd; apply (ready_collect_default Data Enc enc_empty collect) in Rd;
          pose proof (@u_ultra _ _ _ U); congruence).
    11-12: (exfalso; eapply (@u_nocoll _ _ _ U); eauto).
    all: try solve [ exists k; simp; rewrite ?(flat_same _ _ _ _ Hi) by reflexivity; exact F ].
    all: try (assert (Hos : seq_of _ = 1 -> _) by (exact (only_seq _ _ _ _ _ I Hi)); specialize (Hos eq_refl);
              destruct Hos as (Htok & Hunf & Hoth)).
    - (* seq0 *)
      pose proof (i_ready I _ _ Hi) as Rd. pose proof (ready_seq_token Data Enc enc_empty collect _ Rd) as T.
      destruct (seq_none _ _ _ I T Hi) as [Z Zu]. rewrite Z in F. cbn [FKv] in F. destruct F as (F1 & F2 & F3 & F4).
      exists k. simp. rewrite Zu. cbn [seq_pc FKv].
      destruct (coll_q s) as [|ib q] eqn:Eq.
      + destruct (unfinished s) as [wb|] eqn:Eu.
        * cbn [tl]. repeat split; auto.
          -- destruct (mi_M k) as [MI1 _]. rewrite MI1 by (rewrite F1; reflexivity). rewrite F1. cbn [SchedCOrderU.head_pos major].
             apply (eof_chunk s); auto. apply ready_seq_eof; auto.
          -- rewrite F1. symmetry. rewrite <- Eq. apply (@u_unf _ _ _ U). exact Eu.
        * exfalso. apply ready_collect_seq in Rd. rewrite Eq, Eu in Rd. tauto.
      + cbn [tl] in *. repeat split; auto. eapply F2; reflexivity.
    - (* seq requeue *)
      destruct (seq_single _ _ _ _ I Hi eq_refl) as [Z Zu]. rewrite Z in F. cbn [FKv] in F. destruct F as (F1 & F2 & F3 & F4).
      destruct (@u_seq _ _ _ U _ _ _ Hi) as [Us1 Us2].
      assert (Enx : wb_next wb0 = ib_pos ib) by (subst wb0; destruct wbo; [apply Us2; reflexivity|reflexivity]).
      pose proof (mstep_collect _ _ _ _ _ _ _ F1 F2 F3 Hw Hc) as Em.
      apply N.ltb_lt in Hl. rewrite Hl in Em. cbn zeta in Em.
      exists (S k). simp. rewrite Zu. cbn [seq_pc FKv].
      rewrite pq_insert_first.
      2:{ destruct (coll_q s) as [|y q0]; [exact Logic.I|]. cbn [ib_pos]. cbn in Us1. rewrite <- Us1.
          unfold pos_minor_succ, pos_major_succ, plt. cbn. lia. }
      rewrite M_succ. unfold mnext. split.
      + rewrite Em. unfold Front. destruct f; cbn [fst m_pos m_data m_enc SchedCOrderU.head_pos ib_pos tl].
        * repeat split; auto. intros y r E. injection E as <- <-. reflexivity.
        * repeat split; auto. intros y r E. injection E as <- <-. reflexivity.
      + intros ->. exists k. rewrite Em. cbn [snd]. rewrite Enx. reflexivity.
    - (* seq release *)
      destruct (seq_single _ _ _ _ I Hi eq_refl) as [Z Zu]. rewrite Z in F. cbn [FKv] in F. destruct F as (F1 & F2 & F3 & F4).
      destruct (@u_seq _ _ _ U _ _ _ Hi) as [Us1 Us2].
      assert (Enx : wb_next wb0 = ib_pos ib) by (subst wb0; destruct wbo; [apply Us2; reflexivity|reflexivity]).
      pose proof (mstep_collect _ _ _ _ _ _ _ F1 F2 F3 Hw Hc) as Em.
      rewrite Hl in Em. change (0 <? 0)%N with false in Em. cbn zeta in Em.
      exists (S k). simp. rewrite Zu. cbn [seq_pc FKv].
      rewrite M_succ. unfold mnext. split.
      + rewrite Em. unfold Front.
        assert (Hd : forall y r, coll_q s = y :: r -> chunkD (major (ib_pos ib) + 1) = Some (ib_data y)).
        { intros y r E. rewrite E in F4, Us1. inversion F4 as [|? ? [Fy1 Fy2] _]; subst. cbn in Us1.
          rewrite <- Us1 in Fy2. exact Fy2. }
        assert (Ht : Forall Fresh (tl (coll_q s))) by (destruct (coll_q s); [constructor|inversion F4; auto]).
        destruct f; cbn [fst m_pos m_data m_enc]; repeat split; auto.
      + intros ->. exists k. rewrite Em. cbn [snd]. rewrite Enx. reflexivity.
    - (* seq flush *)
      destruct (seq_single _ _ _ _ I Hi eq_refl) as [Z Zu]. rewrite Z in F. cbn [FKv] in F. destruct F as (F1 & F2 & F3 & F4).
      pose proof (@u_flush _ _ _ U _ _ Hi) as Ufl.
      exists (S k). simp. rewrite Zu. cbn [seq_pc FKv]. rewrite Hunf.
      rewrite M_succ. unfold mnext, mstep. rewrite F1. unfold enc_rel in F3.
      destruct (m_enc (M k)) as [[p0 e0]|]; [|tauto]. cbn [fst]. unfold Front. cbn [m_pos m_data m_enc].
      rewrite F4 in *. cbn [tl]. repeat split; auto; try congruence.
    - (* seqfin done *)
      destruct (seq_single _ _ _ _ I Hi eq_refl) as [Z Zu]. rewrite Z in F. cbn [FKv] in F. destruct F as (F1 & F2).
      exists k. simp. rewrite Zu. cbn [seq_pc FKv]. rewrite Hunf. exact F1.
    - (* seqfin more *)
      destruct (seq_single _ _ _ _ I Hi eq_refl) as [Z Zu]. rewrite Z in F. cbn [FKv] in F. destruct F as (F1 & F2).
      exists k. simp. rewrite Zu. cbn [seq_pc FKv]. exact F1.
    - (* deliver *)
      assert (Elast : pq_insert (@ib_pos Data) (mkiblk (mkpos (next_id s) 0) d) (coll_q s) =
                      coll_q s ++ [mkiblk (mkpos (next_id s) 0) d]).
      { apply pq_insert_last; intros y Hy; cbn [ib_pos].
        assert (Iy : In (iv_ib Data y) (items Data Enc s)) by (unfold SchedCOrder.items; apply in_or_app; left; apply in_map; auto).
        destruct (tiling_in _ _ _ _ Ut Iy) as (_ & A & B); cbn in A, B; eapply plt_ple_trans; eauto. }
      exists k. simp. rewrite Elast. apply fkv_deliver; auto.
      + apply mi_M.
      + split; [reflexivity|]. cbn [ib_pos ib_data major]. eapply deliver_chunk; eauto.
      + intros wb0 E. assert (Hin' : In (KSeq (Some wb0) None) (flat_map seq_pc (workers s))) by (rewrite E; left; reflexivity).
        apply seq_in in Hin'. destruct Hin' as [i Hi]. eapply (@u_flush _ _ _ U); eauto.
  Qed.


  (* ---------------------------------------------------------------------- *)
  (* every finished block is a block of the specification                    *)
  (* ---------------------------------------------------------------------- *)
  Definition wbs_pcU (p : wpcs) : list (wblk Enc) :=
    match p with PRun (KEncode wb) | PRun (KTransmit wb) => [wb] | _ => [] end.

  Definition all_wbU (s : state) : list (wblk Enc) :=
    trans_q s ++ reord_q s ++ output_q s ++ written s ++ flat_map wbs_pcU (workers s).

  Lemma Forall_flat_updU {A B} (P : B -> Prop) (f : A -> list B) ws i p p' :
    nth_error ws i = Some p -> Forall P (flat_map f ws) -> Forall P (f p') -> Forall P (flat_map f (upd ws i p')).
  Proof.
    intros H F Fp. destruct (nth_error_split_upd _ _ _ H) as (l1 & l2 & -> & _ & U). rewrite U.
    rewrite flat_map_app in *. cbn [flat_map] in *. rewrite !Forall_app in *. tauto.
  Qed.

  Lemma Forall_flat_nthU {A B} (P : B -> Prop) (f : A -> list B) ws i p :
    nth_error ws i = Some p -> Forall P (flat_map f ws) -> Forall P (f p).
  Proof.
    intros H F. destruct (nth_error_split_upd _ _ _ H) as (l1 & l2 & -> & _ & _).
    rewrite flat_map_app in F. cbn [flat_map] in F. rewrite !Forall_app in F. tauto.
  Qed.

  Lemma spec_flush s k i wb : Inv s -> FK s (M k) -> nth_error (workers s) i = Some (PRun (KSeq (Some wb) None)) ->
    SpecWU wb.
  Proof.
    intros I F Hi. unfold FK in F. destruct (seq_single _ _ _ _ I Hi eq_refl) as [Z _]. rewrite Z in F.
    cbn [FKv] in F. destruct F as (F1 & F2 & F3 & F4). exists k. unfold mstep. rewrite F1. unfold enc_rel in F3.
    destruct (m_enc (M k)) as [[p0 e0]|]; [|tauto]. destruct F3 as [<- <-]. rewrite F2. destruct wb; reflexivity.
  Qed.

  Lemma spec_done s k i wb : Inv s -> FK s (M k) -> nth_error (workers s) i = Some (PRun (KSeqFin wb true)) ->
    SpecWU wb.
  Proof.
    intros I F Hi. unfold FK in F. destruct (seq_single _ _ _ _ I Hi eq_refl) as [Z _]. rewrite Z in F.
    cbn [FKv] in F. destruct F as (_ & F). auto.
  Qed.

  Ltac fa :=
    unfold all_wbU in *; simp;
    repeat rewrite ?Forall_app, ?Forall_insert, ?Forall_cons_iff in *.

  Lemma winv_step s e s' : Inv s -> UInv s -> (exists k, FK s (M k)) -> Forall SpecWU (all_wbU s) -> step s e = Some s' ->
    Forall SpecWU (all_wbU s').
  Proof.
    intros I U (k & F) Dwb H. apply step_Step in H.
    destruct H as [i Hi L|i Hi L|i t Hi L Hn|i Hi L Hn Hf|i Hi L Hn Hf
                  |i Hi L Hq|i ib q wu b Hi L Hq Hd|i wub b2 Hi L Hw Hb|i Hi L Hq|i wb q os b Hi L Hq Hd
                  |i Hi L Hq|i wb q Hi L Hq
                  |i ib e d f Hi L Hc Hl|i ib e d f Hi Hc Hl|i wb Hi L
                  |i wbo ib wb0 e d f Hi L Hw Hc Hl|i wbo ib wb0 e d f Hi Hw Hc Hl|i wb Hi L
                  |i wb Hi L|i wb Hi L|i wb Hi L
                  |m Hr Hs|Hr Hin|d rest Hr Hin Hl L|Hr L|wb q Hw Hq|Hw Hq Hf|wb Hw L|Hall Hf Hr].
    13-14: (exfalso; eapply (@u_nocoll _ _ _ U); eauto).
    all: try (assert (Fwb : Forall SpecWU (wbs_pcU _)) by (eapply (Forall_flat_nthU SpecWU wbs_pcU); [exact Hi|fa; tauto]);
              cbn [wbs_pcU] in Fwb; try (apply Forall_cons_iff in Fwb; destruct Fwb as [Fwb _])).
    all: fa; rewrite ?Hq in *; fa.
    all: repeat split; try tauto.
    all: try solve [ eapply Forall_flat_updU; [exact Hi|tauto|cbn [wbs_pcU]; repeat constructor; tauto] ].
    all: try solve [ repeat constructor; tauto ].
    - eapply Forall_flat_updU; [exact Hi|tauto|]. cbn [wbs_pcU]. repeat constructor. eapply spec_flush; eauto.
    - eapply Forall_flat_updU; [exact Hi|tauto|]. cbn [wbs_pcU]. repeat constructor. eapply spec_done; eauto.
  Qed.

  Lemma winv_init n : Forall SpecWU (all_wbU (@init Data Enc n true lvl0 inp0)).
  Proof. unfold all_wbU. cbn. induction n; cbn; auto. Qed.

  Lemma fk_init n : FK (@init Data Enc n true lvl0 inp0) (M 0).
  Proof.
    unfold FK. cbn [init init0 set_next_task coll_q next_id unfinished workers].
    assert (E : flat_map seq_pc (repeat (@PNew cont) n) = []) by (induction n; cbn; auto).
    rewrite E. cbn. unfold Front. cbn. repeat split; auto. discriminate.
  Qed.

  Record SInv (s : state) : Prop := {
    s_inv : Inv s;
    s_inv2 : Inv2 s;
    s_uinv : UInv s;
    s_rinv : RInv s;
    s_fk : exists k, FK s (M k);
    s_wb : Forall SpecWU (all_wbU s)
  }.

  Lemma reach_sinv n s : reachable n true lvl0 inp0 s -> SInv s.
  Proof.
    intros R. unfold SchedCInv.reachable in R. induction R as [|s e s' R IH H].
    - constructor.
      + apply inv_init.
      + apply inv2_init.
      + apply uinv_init.
      + apply rinv_init.
      + exists 0. apply fk_init.
      + apply winv_init.
    - destruct IH as [I J U Rd F W]. constructor.
      + eapply inv_step; eauto.
      + eapply inv2_step; eauto.
      + eapply uinv_step; eauto.
      + eapply rinv_step; eauto.
      + eapply fk_step; eauto.
      + eapply winv_step; eauto.
  Qed.

  (* every block written in --sequential mode is a block of the specification *)
  Lemma written_specified_seq n s wb : reachable n true lvl0 inp0 s -> In wb (written s) -> SpecWU wb.
  Proof.
    intros R Hin. pose proof (s_wb _ (reach_sinv _ _ R)) as W.
    unfold all_wbU in W. rewrite !Forall_app in W. destruct W as (_ & _ & _ & W & _).
    rewrite Forall_forall in W. auto.
  Qed.

  (* a chain of specified blocks from p is determined by its end point *)
  Lemma spec_chain_uniqueU p q (l1 l2 : list (wblk Enc)) :
    chain p (map (@iv_wb Enc) l1) q -> chain p (map (@iv_wb Enc) l2) q ->
    Forall SpecWU l1 -> Forall SpecWU l2 -> l1 = l2.
  Proof.
    revert p l2. induction l1 as [|w1 l1 IH]; intros p l2 C1 C2 F1 F2.
    - destruct l2 as [|w2 l2]; auto. cbn in C1, C2. subst q. destruct C2 as (P & L & C2).
      apply chain_le in C2. exfalso. rewrite <- P in C2. eapply plt_irrefl. eapply plt_ple_trans; eauto.
    - destruct l2 as [|w2 l2].
      + cbn in C1, C2. subst q. destruct C1 as (P & L & C1).
        apply chain_le in C1. exfalso. rewrite <- P in C1. eapply plt_irrefl. eapply plt_ple_trans; eauto.
      + cbn in C1, C2. destruct C1 as (P1 & _ & C1). destruct C2 as (P2 & _ & C2).
        inversion F1 as [|? ? S1 F1']; subst. inversion F2 as [|? ? S2 F2']; subst.
        assert (w1 = w2) by (apply specWU_fun; auto; unfold iv_wb in *; cbn in *; congruence). subst w2.
        f_equal. eapply IH; eauto.
  Qed.

  (* C03 (scheduler part, --sequential mode): two complete runs on the same chunk list -
     whatever the worker counts and interleavings - have written the same sequence of blocks *)
  Theorem c03_confluent_seq_sect n1 n2 s1 s2 : 1 <= n1 -> 1 <= n2 ->
    reachable n1 true lvl0 inp0 s1 -> reachable n2 true lvl0 inp0 s2 ->
    final s1 = true -> final s2 = true ->
    written s1 = written s2.
  Proof.
    intros N1 N2 R1 R2 F1 F2.
    destruct (reach_sinv _ _ R1) as [I1 J1 U1 D1 K1 W1]. destruct (reach_sinv _ _ R2) as [I2 J2 U2 D2 K2 W2].
    assert (E : next_id s1 = next_id s2).
    { pose proof (r_cnt _ D1) as C1. pose proof (r_cnt _ D2) as C2.
      pose proof F1 as G1. pose proof F2 as G2.
      unfold final in G1, G2. rewrite !andb_true_iff in G1, G2.
      destruct G1 as [[_ G1] _]. destruct G2 as [[_ G2] _].
      destruct (rd s1); try discriminate. destruct (rd s2); try discriminate. cbn in C1, C2. lia. }
    destruct (final_order_ultra _ _ _ _ _ _ _ _ _ N1 R1 F1) as (Eo1 & Q1 & H1).
    destruct (final_order_ultra _ _ _ _ _ _ _ _ _ N2 R2 F2) as (Eo2 & Q2 & H2).
    pose proof (@u_hand _ _ _ U1) as C1. pose proof (@u_hand _ _ _ U2) as C2. rewrite H1, Eo1 in C1. rewrite H2, Eo2 in C2.
    rewrite E in C1.
    eapply spec_chain_uniqueU; eauto.
    - unfold all_wbU in W1. rewrite !Forall_app in W1. tauto.
    - unfold all_wbU in W2. rewrite !Forall_app in W2. tauto.
  Qed.


  (* ---------------------------------------------------------------------- *)
  (* the written sequence is exactly the output of the sequential collector  *)
  (* ---------------------------------------------------------------------- *)
  Lemma emit_iv m wb : MI m -> snd (mstep m) = Some wb ->
    wb_pos wb = sp m /\ plt (wb_pos wb) (wb_next wb) /\ sp (mnext m) = wb_next wb.
  Proof.
    intros I. pose proof (sp_le _ I) as L. destruct I as [_ I2]. unfold mnext, mstep, sp in *.
    destruct (m_data m) as [d|] eqn:Ed.
    - destruct (m_start m) as [p0 e0] eqn:Es. cbn [fst] in L.
      destruct (collect e0 d) as [[e d'] f].
      destruct (0 <? data_len d')%N; destruct f; cbn; intros H; try discriminate; injection H as <-; cbn; repeat split.
      + eapply ple_plt_trans; [exact L|apply plt_minor_succ].
      + eapply ple_plt_trans; [exact L|apply plt_major_succ].
    - unfold m_start in *. destruct (m_enc m) as [[p0 e0]|] eqn:Ee; cbn; intros H; try discriminate; injection H as <-; cbn.
      repeat split. eapply I2; eauto.
  Qed.

  Lemma noemit_sp m : snd (mstep m) = None -> sp (mnext m) = sp m.
  Proof.
    unfold mnext, mstep, sp. destruct (m_data m) as [d|] eqn:Ed.
    - destruct (m_start m) as [p0 e0] eqn:Es. destruct (collect e0 d) as [[e d'] f].
      destruct f; cbn; intros H; [discriminate|reflexivity].
    - unfold m_start. destruct (m_enc m) as [[p0 e0]|] eqn:Ee; cbn; intros H; [discriminate|]. rewrite Ee. reflexivity.
  Qed.

  Lemma spec_blocks_chain k : chain pos0 (map (@iv_wb Enc) (spec_blocks k)) (sp (M k)).
  Proof.
    induction k; [reflexivity|]. cbn [spec_blocks]. rewrite map_app. apply chain_app. exists (sp (M k)). split; auto.
    rewrite M_succ. destruct (snd (mstep (M k))) as [wb|] eqn:E.
    - destruct (emit_iv _ _ (mi_M k) E) as (A & B & C). cbn. unfold iv_wb. rewrite C. repeat split; auto.
    - cbn. symmetry. apply noemit_sp; auto.
  Qed.

  Lemma spec_blocks_spec k : Forall SpecWU (spec_blocks k).
  Proof.
    induction k; [constructor|]. cbn [spec_blocks]. apply Forall_app. split; auto.
    destruct (snd (mstep (M k))) as [wb|] eqn:E; constructor; [exists k; exact E|constructor].
  Qed.

  Lemma spec_blocks_dead k n : m_data (M k) = None -> m_enc (M k) = None -> spec_blocks (n + k) = spec_blocks k.
  Proof.
    intros H1 H2. induction n; [reflexivity|]. cbn [plus spec_blocks]. rewrite IHn, (dead_n _ n H1 H2), dead by auto.
    apply app_nil_r.
  Qed.

  (* a complete --sequential run has written the complete output of the specification *)
  Theorem written_is_spec_seq n s : 1 <= n -> reachable n true lvl0 inp0 s -> final s = true ->
    exists k, written s = spec_blocks k /\ forall j, spec_blocks (j + k) = spec_blocks k.
  Proof.
    intros N1 R F. destruct (reach_sinv _ _ R) as [I J U D (k & K) W].
    destruct (final_order_ultra _ _ _ _ _ _ _ _ _ N1 R F) as (Eo & Q & H).
    destruct (c11_final N1 R F) as (_ & _ & _ & Cq & _ & _ & _ & Un & Tok & Eof).
    assert (W0 : nth_error (workers s) 0 = Some PExit).
    { pose proof F as G. unfold final in G. rewrite !andb_true_iff in G. destruct G as [[G _] _].
      pose proof (i_len I) as Ln. destruct (reachable_inv R) as (_ & _ & En). rewrite En in Ln.
      destruct (workers s) as [|p ws]; [cbn in Ln; lia|]. cbn in G. apply andb_true_iff in G. destruct G as [G _].
      destruct p; try discriminate. reflexivity. }
    unfold FK in K. destruct (seq_none _ _ _ I Tok W0) as [Z _].
    rewrite Z, Cq, Un in K. cbn [FKv] in K. destruct K as (K1 & _ & K3 & _).
    cbn in K1. unfold enc_rel in K3. destruct (m_enc (M k)) as [[p0 e0]|] eqn:Ee; [tauto|].
    assert (Kd : m_data (M k) = None).
    { destruct (mi_M k) as [MI1 _]. rewrite MI1 by (rewrite K1; reflexivity). rewrite K1. cbn [major].
      apply (eof_chunk s); auto. }
    exists k. split; [|intros j; apply spec_blocks_dead; auto].
    pose proof (@u_hand _ _ _ U) as C. rewrite H, Eo in C.
    eapply spec_chain_uniqueU; [exact C| | |apply spec_blocks_spec].
    - replace (mkpos (next_id s) 0) with (sp (M k)); [apply spec_blocks_chain|].
      unfold sp, m_start. rewrite Ee. cbn. exact K1.
    - unfold all_wbU in W. rewrite !Forall_app in W. tauto.
  Qed.

End DataU.

(* C03, scheduler part, --sequential mode *)
Theorem c03_confluent_seq :
  forall (Data Enc : Type) (data_len : Data -> N) (enc_empty : Enc) (collect : Enc -> Data -> Enc * Data * bool)
         (chunks : list Data) (level : N) (n1 n2 : nat) s1 s2,
    1 <= n1 -> 1 <= n2 ->
    reachable data_len enc_empty collect n1 true level chunks s1 ->
    reachable data_len enc_empty collect n2 true level chunks s2 ->
    final s1 = true -> final s2 = true ->
    written s1 = written s2.
Proof. exact c03_confluent_seq_sect. Qed.

(* both modes *)
Theorem c03_confluent :
  forall (Data Enc : Type) (data_len : Data -> N) (enc_empty : Enc) (collect : Enc -> Data -> Enc * Data * bool)
         (chunks : list Data) (level : N) (ultra : bool) (n1 n2 : nat) s1 s2,
    1 <= n1 -> 1 <= n2 ->
    reachable data_len enc_empty collect n1 ultra level chunks s1 ->
    reachable data_len enc_empty collect n2 ultra level chunks s2 ->
    final s1 = true -> final s2 = true ->
    written s1 = written s2.
Proof.
  intros Data Enc data_len enc_empty collect chunks level [|].
  - apply c03_confluent_seq.
  - apply c03_confluent_default.
Qed.

(* non-vacuity: three chunks, encoder capacity 90000 bytes, chunk size 100000 (level 1):
   the second block spans chunks 0 and 1, the third spans chunks 1 and 2 and is flushed
   at the end of the input.  One worker, three workers and two workers under different
   round-robin interleavings: all runs are complete and write the same three blocks,
   which are the output of the sequential specification. *)
Definition exu_cap : N := 90000.
Definition exu_collect (e : N) (d : N) : N * N * bool :=
  let take := N.min d (exu_cap - e) in ((e + take)%N, (d - take)%N, (e + take =? exu_cap)%N).
Definition exu_input : list N := [100000; 100000; 30000]%N.

Example c03_seq_example_runs :
  let len := fun d : N => d in
  let s1 := rr len 0%N exu_collect 80 [TM; TS; TR; TW 0] (init N 1 true 1%N exu_input) in
  let s2 := rr len 0%N exu_collect 80 [TW 2; TW 1; TW 0; TR; TS; TM] (init N 3 true 1%N exu_input) in
  let s3 := rr len 0%N exu_collect 80 [TR; TW 1; TS; TW 0; TR; TM; TR] (init N 2 true 1%N exu_input) in
  final s1 = true /\ final s2 = true /\ final s3 = true /\
  written s1 = written s2 /\ written s1 = written s3 /\
  written s1 = [mkwblk (mkpos 0 0) (mkpos 0 1) 90000%N;
                mkwblk (mkpos 0 1) (mkpos 1 1) 90000%N;
                mkwblk (mkpos 1 1) (mkpos 3 0) 50000%N] /\
  written s1 = spec_blocks N N len 0%N exu_collect exu_input 1%N 10.
Proof. vm_compute. repeat split; reflexivity. Qed.

Print Assumptions c03_confluent_seq.
Print Assumptions c03_confluent.
Print Assumptions written_is_spec_seq.
Print Assumptions c03_seq_example_runs.

