(* Deadlock freedom of the compression scheduler (default mode). *)
From Coq Require Import List NArith Arith Bool Lia Permutation Sorted.
From LBZ Require Import SchedC.SchedCIface Gen.SchedCTab SchedC.Pool SchedC.PoolLemmas SchedC.SchedC SchedC.SchedCInv
  SchedC.Tiling SchedC.SchedCOrder SchedC.SchedCLive.
Import ListNotations.

Section Prog.
  Variable Data : Type.
  Variable Enc : Type.
  Variable data_len : Data -> N.
  Variable enc_empty : Enc.
  Variable collect : Enc -> Data -> Enc * Data * bool.

  Notation state := (state Data Enc).
  Notation cont := (cont Data Enc).
  Notation wpcs := (wpc cont).
  Notation step := (step data_len enc_empty collect).
  Notation Inv := (@Inv Data Enc).
  Notation Inv2 := (@Inv2 Data Enc).
  Notation OInv := (@OInv Data Enc).
  Notation PInv := (@PInv Data Enc).
  Notation reserve := (@reserve Data Enc).
  Notation le_order_pc := (@le_order_pc Data Enc).
  Notation le_order_q := (@le_order_q Enc).
  Notation unit_pos := (@unit_pos Data Enc).
  Notation holder_pos := (@holder_pos Data Enc).
  Notation items := (@items Data Enc).
  Notation iv_wb := (@iv_wb Enc).
  Notation iv_ib := (@iv_ib Data).
  Notation wr_out := (@wr_out Data Enc).
  Notation reachable := (reachable data_len enc_empty collect).

  Local Arguments select : simpl never.
  Local Arguments finished : simpl never.
  Local Arguments ready : simpl never.
  Local Arguments unlock_wakeups : simpl never.
  Local Arguments signal : simpl never.
  Local Arguments broadcast : simpl never.
  Local Arguments pq_insert : simpl never.
  Local Arguments upd : simpl never.
  Local Arguments sumf : simpl never.
  Local Arguments cap_output : simpl never.
  Local Arguments cnt : simpl never.

  Ltac simp :=
    rewrite ?sched_unlock_eq, ?task_return_eq; unfold set_pc;
    cbn [nw ultra lvl lock next_task wakeups eof work_units in_slots out_slots coll_q trans_q reord_q order
         next_id collect_token unfinished workers rd input wr output_q written finish bad
         set_lock set_next_task set_wakeups set_eof set_work_units set_in_slots set_out_slots set_coll_q
         set_trans_q set_reord_q set_order set_next_id set_collect_token set_unfinished set_workers set_rd
         set_input set_wr set_output_q set_written set_finish set_bad].

  (* a witness holder survives a step that keeps trans_q members and every worker's unit position *)
  Lemma holder_pos_mono (s s' : state) p :
    (forall wb, In wb (trans_q s) -> In wb (trans_q s')) ->
    (forall j pc q, nth_error (workers s) j = Some pc -> unit_pos pc = Some q ->
                    exists pc', nth_error (workers s') j = Some pc' /\ unit_pos pc' = Some q) ->
    holder_pos s p -> holder_pos s' p.
  Proof.
    intros Ht Hw [(wb & I & E)|(j & pc & Hj & E)].
    - left. exists wb. auto.
    - right. destruct (Hw _ _ _ Hj E) as (pc' & Hj' & E'). exists j, pc'. auto.
  Qed.

  Lemma upd_keeps_units (ws : list wpcs) i p p' :
    nth_error ws i = Some p -> (forall q, unit_pos p = Some q -> unit_pos p' = Some q) ->
    forall j pc q, nth_error ws j = Some pc -> unit_pos pc = Some q ->
                   exists pc', nth_error (upd ws i p') j = Some pc' /\ unit_pos pc' = Some q.
  Proof.
    intros Hi K j pc q Hj E. destruct (Nat.eq_dec j i) as [->|N].
    - rewrite Hi in Hj. injection Hj as <-. exists p'. split; [eapply nth_error_upd_eq; eauto|auto].
    - exists pc. split; auto. rewrite nth_error_upd_neq; auto.
  Qed.

  Lemma holder_in_items (s : state) p : holder_pos s p -> exists b, In (p, b) (items s).
  Proof.
    intros [(wb & I & E)|(j & pc & Hj & E)].
    - exists (wb_next wb). unfold SchedCOrder.items. apply in_or_app. right. apply in_or_app. left.
      rewrite <- E. change (wb_pos wb, wb_next wb) with (iv_wb wb). apply in_map; auto.
    - destruct pc as [| | | |[t|ib|wb|wbo ibo|wb d|wb]]; try discriminate E; cbn in E; injection E as <-.
      + exists (pos_major_succ (ib_pos ib)). unfold SchedCOrder.items. do 4 (apply in_or_app; right).
        apply in_flat_map. exists (PRun (KCollect ib)). split; [eapply nth_error_In; eauto|left; reflexivity].
      + exists (wb_next wb). unfold SchedCOrder.items. do 4 (apply in_or_app; right).
        apply in_flat_map. exists (PRun (KEncode wb)). split; [eapply nth_error_In; eauto|left; reflexivity].
      + exists (wb_next wb). unfold SchedCOrder.items. do 4 (apply in_or_app; right).
        apply in_flat_map. exists (PRun (KTransmit wb)). split; [eapply nth_error_In; eauto|left; reflexivity].
  Qed.

  Lemma holder_below_end (s : state) p : OInv s -> holder_pos s p -> plt p (mkpos (next_id s) 0).
  Proof.
    intros O Hp. destruct (holder_in_items _ _ Hp) as [b Ib].
    destruct (tiling_in _ _ _ _ (o_tile O) Ib) as (_ & A & B). cbn in A, B. eapply plt_ple_trans; eauto.
  Qed.

  Lemma some_holder (s : state) : Inv s -> OInv s -> 0 < nw s -> work_units s = 0 -> exists p, holder_pos s p.
  Proof.
    intros I O N W. pose proof (i_units I) as U. rewrite W, (o_unf O) in U. cbn in U.
    destruct (trans_q s) as [|wb q] eqn:Eq.
    - cbn in U. destruct (sumf_pos_ex (@units_of Data Enc) (workers s) ltac:(lia)) as (j & pc & Hj & Hp).
      pose proof (noseq I (o_tok O) Hj) as Ns.
      destruct pc as [| | | |[t|ib|wb|wbo ibo|wb d|wb]]; cbn in Hp, Ns; try lia.
      + exists (ib_pos ib). right. exists j, (PRun (KCollect ib)). auto.
      + exists (wb_pos wb). right. exists j, (PRun (KEncode wb)). auto.
      + exists (wb_pos wb). right. exists j, (PRun (KTransmit wb)). auto.
    - exists (wb_pos wb). left. exists wb. split; [rewrite Eq; apply in_eq|reflexivity].
  Qed.

  Lemma pinv_step s e s' : Inv s -> OInv s -> PInv s -> 0 < nw s -> step s e = Some s' -> PInv s'.
  Proof.
    intros I O P Npos H.
    pose proof (oinv_step _ _ _ _ _ _ _ _ I O H) as O'. pose proof (inv_step _ _ _ _ _ _ _ _ I H) as I'.
    pose proof (o_tile O') as T'. pose proof (o_tile O) as T. pose proof (o_tok O) as Ot.
    apply step_Step in H.
    pose proof (p_sc _ _ _ P) as Psc. pose proof (p_st _ _ _ P) as Pst. pose proof (p_sr _ _ _ P) as Psr.
    pose proof (p_res _ _ _ P) as Pres. pose proof (p_unit _ _ _ P) as Pun.
    destruct H as [i Hi L|i Hi L|i t Hi L Hn|i Hi L Hn Hf|i Hi L Hn Hf
                  |i Hi L Hq|i ib q wu b Hi L Hq Hd|i wub b2 Hi L Hw Hb|i Hi L Hq|i wb q os b Hi L Hq Hd
                  |i Hi L Hq|i wb q Hi L Hq
                  |i ib e d f Hi L Hc Hl|i ib e d f Hi Hc Hl|i wb Hi L
                  |i wbo ib wb0 e d f Hi L Hw Hc Hl|i wbo ib wb0 e d f Hi Hw Hc Hl|i wb Hi L
                  |i wb Hi L|i wb Hi L|i wb Hi L
                  |m Hr Hs|Hr Hin|d rest Hr Hin Hl L|Hr L|wb q Hw Hq|Hw Hq Hf|wb Hw L|Hall Hf Hr].
    8: { exfalso. pose proof (i_ready I _ _ Hi) as R. apply (ready_seq_ultra enc_empty collect) in R. pose proof (o_ultra O). congruence. }
    15-19: (exfalso; pose proof (noseq I Ot Hi) as Z; discriminate Z).
    all: constructor; simp; auto.
    all: try solve [ rewrite Hq in *; eapply ksorted_tail; eauto ].
    (* reserve: generic counting *)
    all: try solve [
      unfold SchedCLive.reserve in *; simp;
      try (match goal with Hw : nth_error (workers ?s0) ?j = Some _ |- context [upd (workers ?s0) ?j ?p'] =>
             pose proof (sumf_upd (le_order_pc (order s)) _ _ _ p' Hw) end);
      cbn [SchedCLive.le_order_pc b2n SchedCInv.wr_out] in *; rewrite ?le_order_q_insert; rewrite ?Hq, ?Hw in *;
      cbn [length SchedCInv.wr_out] in *; rewrite ?app_length; cbn [length]; lia ].
    (* unit witness: generic transport *)
    all: try solve [
      intros Z1 Z2; destruct (Pun Z1 Z2) as (p & Hp & Hlt); exists p; split; [|exact Hlt];
      eapply holder_pos_mono; [| |exact Hp]; simp; [auto|];
      first [ eapply upd_keeps_units; [exact Hi|]; cbn [SchedCLive.unit_pos]; intros; congruence | eauto ] ].
    all: try solve [
      intros Z1 Z2; destruct (Pun Z1 Z2) as (p & Hp & Hlt); exists p; split; [|exact Hlt];
      eapply holder_pos_mono; [| |exact Hp]; simp; [auto|];
      eapply upd_keeps_units; [exact Hi|]; cbn [SchedCLive.unit_pos wb_pos]; intros; congruence ].
    (* sorted insertions: the new key is fresh because the live items tile the stream *)
    all: try solve [
      apply ksorted_insert; [assumption|];
      eapply (tiling_insert_fresh (@SchedCOrder.iv_ib Data) (@ib_pos Data)); [reflexivity|exact T'|];
      intros z; unfold SchedCOrder.items; simp; rewrite !cnt_app; lia ].
    all: try solve [
      apply ksorted_insert; [assumption|];
      eapply (tiling_insert_fresh (@SchedCOrder.iv_wb Enc) (@wb_pos Enc)); [reflexivity|exact T'|];
      intros z; unfold SchedCOrder.items; simp; rewrite !cnt_app; lia ].
    - (* collect0: the new holder is below everything left in coll_q *)
      intros _ _. exists (ib_pos ib). split.
      + unfold SchedCLive.holder_pos. simp. right. exists i, (PRun (KCollect ib)). split; [eapply nth_error_upd_eq; eauto|reflexivity].
      + intros ib' Hib. rewrite Hq in Psc. eapply ksorted_head_min; eauto.
    - (* transmit0: slot reserve *)
      pose proof (i_ready I _ _ Hi) as R. destruct (ready_transmit_res _ _ _ _ _ R Hq) as [G|[G1 G2]].
      + unfold SchedCLive.reserve. simp. destruct (out_slots s) as [|o']; [lia|]. cbn in Hd. injection Hd as <- <-. lia.
      + unfold SchedCLive.reserve in *. simp.
        pose proof (sumf_upd (le_order_pc (order s)) _ _ _ (PRun (KTransmit wb)) Hi) as Su.
        cbn [SchedCLive.le_order_pc] in Su. rewrite G2 in Su.
        assert (Ep : pos_le (order s) (order s) = true) by (apply pos_le_spec; apply ple_refl).
        rewrite Ep in Su. cbn [b2n] in Su.
        destruct (out_slots s) as [|o']; [lia|]. cbn in Hd. injection Hd as <- <-. lia.
    - (* transmit0: the head of trans_q is now held by this worker *)
      intros Z1 Z2. destruct (Pun Z1 Z2) as (p & Hp & Hlt). exists p. split; [|exact Hlt].
      unfold SchedCLive.holder_pos in *. simp.
      destruct Hp as [(wb' & Iw & Ew)|(j & pc & Hj & Ej)].
      + rewrite Hq in Iw. destruct Iw as [<-|Iw].
        * right. exists i, (PRun (KTransmit wb)). split; [eapply nth_error_upd_eq; eauto|cbn; congruence].
        * left. exists wb'. auto.
      + right. destruct (Nat.eq_dec j i) as [->|Nj]; [rewrite Hi in Hj; injection Hj as <-; discriminate Ej|].
        exists j, pc. split; auto. rewrite nth_error_upd_neq; auto.
    - (* reorder: order advances *)
      pose proof (i_ready I _ _ Hi) as R. pose proof (ready_reorder_pos R Hq) as Ep.
      assert (Lt : plt (order s) (wb_next wb)).
      { assert (In (iv_wb wb) (items s)).
        { unfold SchedCOrder.items. rewrite Hq. cbn [map]. apply in_or_app. right. apply in_or_app. right.
          apply in_or_app. left. left. reflexivity. }
        destruct (tiling_in _ _ _ _ T H) as (_ & A & _). cbn in A. rewrite Ep in A. exact A. }
      unfold SchedCLive.reserve in *. simp. rewrite Hq in Pres.
      pose proof (le_order_q_mono Enc _ _ q Lt) as M1.
      pose proof (le_order_pc_mono Data Enc _ _ (upd (workers s) i PTop) Lt) as M2.
      pose proof (sumf_upd (le_order_pc (order s)) _ _ _ (@PTop cont) Hi) as Su. cbn [SchedCLive.le_order_pc] in Su.
      unfold SchedCLive.le_order_q in Pres. cbn [filter] in Pres. rewrite Ep in Pres.
      assert (Epo : pos_le (order s) (order s) = true) by (apply pos_le_spec; apply ple_refl).
      rewrite Epo in Pres. cbn [length] in Pres. fold (SchedCLive.le_order_q Enc (order s) q) in Pres.
      rewrite app_length. cbn [length]. lia.
    - (* requeue: this worker, or the old witness *)
      intros Z1 _.
      assert (Hme : holder_pos (set_workers (upd (workers s) i (PRun (KEncode (mkwblk (ib_pos ib) (pos_minor_succ (ib_pos ib)) e)))) s) (ib_pos ib)).
      { unfold SchedCLive.holder_pos. simp. right. exists i, (PRun (KEncode (mkwblk (ib_pos ib) (pos_minor_succ (ib_pos ib)) e))).
        split; [eapply nth_error_upd_eq; eauto|reflexivity]. }
      destruct (coll_q s) as [|y0 q0] eqn:Ec.
      + exists (ib_pos ib). split.
        * eapply holder_pos_mono; [| |exact Hme]; simp; eauto.
        * intros ib0 Hib. apply pq_insert_in in Hib. destruct Hib as [->|[]]. cbn. apply plt_minor_succ.
      + destruct (Pun Z1 ltac:(discriminate)) as (p & Hp & Hlt).
        destruct (plt_total p (ib_pos ib)) as [Lp|[Ep|Lp]].
        * exists p. split.
          -- eapply holder_pos_mono; [| |exact Hp]; simp; [auto|].
             eapply upd_keeps_units; [exact Hi|]. cbn [SchedCLive.unit_pos wb_pos]. intros; congruence.
          -- intros ib0 Hib. apply pq_insert_in in Hib. destruct Hib as [->|Hib]; [|apply Hlt; auto].
             cbn. eapply plt_trans; [exact Lp|apply plt_minor_succ].
        * exists (ib_pos ib). split; [eapply holder_pos_mono; [| |exact Hme]; simp; eauto|].
          intros ib0 Hib. apply pq_insert_in in Hib. destruct Hib as [->|Hib]; [cbn; apply plt_minor_succ|].
          rewrite <- Ep. apply Hlt; auto.
        * exists (ib_pos ib). split; [eapply holder_pos_mono; [| |exact Hme]; simp; eauto|].
          intros ib0 Hib. apply pq_insert_in in Hib. destruct Hib as [->|Hib]; [cbn; apply plt_minor_succ|].
          eapply plt_trans; [exact Lp|apply Hlt; auto].
    - (* encode: the block moves from the worker into trans_q *)
      intros Z1 Z2. destruct (Pun Z1 Z2) as (p & Hp & Hlt). exists p. split; [|exact Hlt].
      unfold SchedCLive.holder_pos in *. simp.
      destruct Hp as [(wb' & Iw & Ew)|(j & pc & Hj & Ej)].
      + left. exists wb'. split; auto. apply pq_insert_in. auto.
      + destruct (Nat.eq_dec j i) as [->|Nj].
        * rewrite Hi in Hj. injection Hj as <-. cbn in Ej. injection Ej as <-.
          left. exists wb. split; auto. apply pq_insert_in. auto.
        * right. exists j, pc. split; auto. rewrite nth_error_upd_neq; auto.
    - (* deliver: the new chunk is above every holder *)
      intros Z1 _.
      destruct (coll_q s) as [|y0 q0] eqn:Ec.
      + destruct (some_holder _ I O Npos Z1) as (p & Hp). exists p. split.
        * eapply holder_pos_mono; [| |exact Hp]; simp; eauto.
        * intros ib0 Hib. apply pq_insert_in in Hib. destruct Hib as [->|[]]. cbn. eapply holder_below_end; eauto.
      + destruct (Pun Z1 ltac:(discriminate)) as (p & Hp & Hlt). exists p. split.
        * eapply holder_pos_mono; [| |exact Hp]; simp; eauto.
        * intros ib0 Hib. apply pq_insert_in in Hib. destruct Hib as [->|Hib]; [|apply Hlt; auto].
          cbn. eapply holder_below_end; eauto.
  Qed.

  Lemma pinv_init n l inp : PInv (@init Data Enc n false l inp).
  Proof.
    constructor; cbn.
    - constructor.
    - constructor.
    - constructor.
    - unfold SchedCLive.reserve. cbn.
      assert (E : sumf (le_order_pc pos0) (repeat (@PNew cont) n) = 0) by (rewrite sumf_repeat; cbn; lia).
      rewrite E. pose proof (thresh_le_total n) as Ht. unfold total_out, init_out_slots, total_out_slots_compress, TRANSM_THRESH in *.
      unfold SchedCLive.le_order_q. cbn. lia.
    - intros _ H. congruence.
  Qed.

  (* an event that is not an idle (spurious) wake-up *)
  Definition productive (s : state) (e : tid) : bool :=
    match e with
    | TW i => match nth_error (workers s) i with Some PWait => 0 <? wakeups s | _ => true end
    | _ => true
    end.

  Lemma holds_refl (s : state) t : lock s = Some t -> holds s t = true.
  Proof. unfold holds. intros ->. destruct t; cbn; auto. apply Nat.eqb_refl. Qed.

  Lemma lock_free_none (s : state) : lock s = None -> lock_free s = true.
  Proof. unfold lock_free. intros ->. reflexivity. Qed.

  Lemma worker_enabled_free (s : state) i pc : lock s = None -> nth_error (workers s) i = Some pc ->
    @SchedCInv.seq_of Data Enc pc = 0 -> @awake_of Data Enc pc = 1 \/ pc = PWait ->
    exists s', step s (TW i) = Some s'.
  Proof.
    intros L Hi Ns Hp. unfold SchedC.step, SchedC.step_obs, worker_step. rewrite Hi.
    pose proof (lock_free_none _ L) as Lf.
    destruct pc as [| | | |[t|ib|wb|wbo ibo|wb d|wb]]; cbn in Hp, Ns; try (destruct Hp; discriminate); try lia.
    - rewrite Lf. eexists; reflexivity.
    - rewrite Lf. eexists; reflexivity.
    - unfold seg_step. cbn [new_wblk wb_enc wb_pos wb_next].
      destruct (collect enc_empty (ib_data ib)) as [[e d] f]. destruct (0 <? data_len d)%N; rewrite ?Lf; eexists; reflexivity.
    - unfold seg_step. rewrite Lf. eexists; reflexivity.
    - unfold seg_step. rewrite Lf. eexists; reflexivity.
  Qed.


  Notation NL := (@NL Data Enc).
  Notation awake_of := (@awake_of Data Enc).
  Notation exited_of := (@exited_of Data Enc).
  Notation hold_of := (@hold_of Data Enc).
  Notation wait_of := (@wait_of Data Enc).

  (* the head of a position-sorted queue whose members are all at or after [o] and
     which contains an item at [o] is that item *)
  Lemma sorted_head_at {A} (key : A -> pos) (q : list A) o x :
    ksorted key q -> In x q -> key x = o -> (forall y, In y q -> ple o (key y)) ->
    exists h t, q = h :: t /\ key h = o.
  Proof.
    intros S I E B. destruct q as [|h t]; [destruct I|]. exists h, t. split; auto.
    destruct I as [->|I]; auto.
    pose proof (ksorted_head_min key _ _ _ S I) as L. rewrite E in L.
    pose proof (B h (or_introl eq_refl)) as Bh.
    exfalso. eapply plt_irrefl. eapply plt_ple_trans; eauto.
  Qed.

  Lemma ple_antisym a b : ple a b -> ple b a -> a = b.
  Proof. intros [->|H1] [E|H2]; auto. exfalso. eapply plt_asym; eauto. Qed.

  Lemma all_wait (ws : list wpcs) : sumf wait_of ws = length ws -> forall pc, In pc ws -> pc = PWait.
  Proof.
    induction ws as [|p ws IH]; intros H pc I; [destruct I|]. rewrite sumf_cons in H. cbn [length] in H.
    assert (wait_of p <= 1) by (destruct p as [| | | |[]]; cbn; lia).
    assert (sumf wait_of ws <= length ws).
    { clear. induction ws as [|q ws IH]; [unfold sumf; cbn; lia|]. rewrite sumf_cons. cbn [length].
      assert (wait_of q <= 1) by (destruct q as [| | | |[]]; cbn; lia). lia. }
    destruct I as [<-|I]; [|apply IH; auto; lia].
    destruct p as [| | | |[]]; cbn in *; try lia. reflexivity.
  Qed.

  (* side condition on the regenerated task list: every task is scheduled *)
  Lemma all_tasks_listed : forall t, In t task_order.
  Proof. intros []; cbn; tauto. Qed.

  Lemma select_none_not_ready (s : state) t : select s = None -> ready s t = false.
  Proof.
    unfold select, select_first. intros H. exact (find_none _ _ H t (all_tasks_listed t)).
  Qed.

  Lemma in_items_coll (s : state) ib : In ib (coll_q s) -> In (iv_ib ib) (items s).
  Proof. intros H. unfold SchedCOrder.items. apply in_or_app. left. apply in_map; auto. Qed.
  Lemma in_items_trans (s : state) wb : In wb (trans_q s) -> In (iv_wb wb) (items s).
  Proof. intros H. unfold SchedCOrder.items. apply in_or_app. right. apply in_or_app. left. apply in_map; auto. Qed.
  Lemma in_items_reord (s : state) wb : In wb (reord_q s) -> In (iv_wb wb) (items s).
  Proof.
    intros H. unfold SchedCOrder.items. apply in_or_app. right. apply in_or_app. right. apply in_or_app. left.
    apply in_map; auto.
  Qed.

  (* no quiescent non-final state *)
  Lemma quiescent_false (s : state) : Inv s -> Inv2 s -> OInv s -> PInv s -> NL s -> 1 <= nw s ->
    lock s = None -> sumf awake_of (workers s) = 0 -> wakeups s = 0 ->
    (rd s = RIdle /\ in_slots s = 0 \/ rd s = RDone) ->
    (wr s = SIdle /\ output_q s = [] /\ finish s = false \/ wr s = SDone) ->
    ~ (forallb (@is_exit _) (workers s) = true /\ finish s = false /\ rd s = RDone) ->
    final s = false -> False.
  Proof.
    intros I J O P Hnl N L Aw Wk Hrd Hwr Hmain NF.
    pose proof (sum_classes Data Enc (workers s)) as Cl. pose proof (i_hold I) as Ih. rewrite L in Ih. cbn in Ih.
    pose proof (i_len I) as Il.
    destruct (Nat.eq_dec (sumf exited_of (workers s)) 0) as [Ex|Ex].
    2:{ (* some worker has exited: the process has finished *)
      destruct (sumf_pos_ex exited_of (workers s) ltac:(lia)) as (j & pc & Hj & Hp).
      assert (pc = PExit) by (destruct pc as [| | | |[]]; cbn in Hp; try lia; reflexivity). subst pc.
      pose proof (j_exit J _ Hj) as Fin.
      destruct (finished_facts _ _ _ I Fin) as (Fe & Fc & Fw & Fo & Ft & Fr & Fq & Fu & Fwo & _).
      assert (Wz : sumf wait_of (workers s) = 0).
      { destruct (Nat.eq_dec (sumf wait_of (workers s)) 0) as [|Wn]; auto. exfalso.
        destruct (Hnl L) as [U|U]; [right; split; [exact Fin|lia]|lia|lia]. }
      assert (Hall : forallb (@is_exit _) (workers s) = true).
      { apply forallb_forall. intros pc Hpc.
        destruct (In_nth_error _ _ Hpc) as [k Hk].
        pose proof (sumf_ge_nth hold_of _ _ _ Hk). pose proof (sumf_ge_nth wait_of _ _ _ Hk).
        pose proof (sumf_ge_nth awake_of _ _ _ Hk).
        destruct pc as [| | | |[]]; cbn in *; try lia; reflexivity. }
      assert (Erd : rd s = RDone).
      { pose proof (j_eof J) as E. rewrite Fe in E. destruct (rd s); cbn in E; try discriminate. reflexivity. }
      destruct (finish s) eqn:Ef; [|apply Hmain; auto].
      destruct Hwr as [(_ & _ & Hf)|Hwd]; [congruence|].
      unfold final in NF. rewrite Hall, Erd, Hwd in NF. discriminate NF. }
    (* nobody has exited: every worker waits, nothing is ready, not finished *)
    assert (Wn : sumf wait_of (workers s) = length (workers s)) by lia.
    pose proof (all_wait _ Wn) as Allw.
    assert (Hnr : is_some (next_task s) = false /\ finished s = false).
    { destruct (is_some (next_task s)) eqn:E1.
      - exfalso. destruct (Hnl L (or_introl E1)); lia.
      - split; auto. destruct (finished s) eqn:E2; auto. exfalso.
        destruct (Hnl L) as [U|U]; [right; split; [exact E2|lia]|lia|lia]. }
    destruct Hnr as [Hn Hf].
    assert (Sel : select s = None).
    { rewrite <- (i_nt I). destruct (next_task s); [discriminate Hn|reflexivity]. }
    destruct Hwr as [(Ew & Eq & Efin)|Hwd].
    2:{ destruct (j_wr J) as [F _]; [rewrite Hwd; reflexivity|].
        pose proof (j_finish J F) as Hall. rewrite forallb_forall in Hall.
        destruct (workers s) as [|pc ws] eqn:Ews; [cbn in Il; lia|].
        specialize (Hall pc (or_introl eq_refl)). rewrite (Allw pc (or_introl eq_refl)) in Hall. discriminate Hall. }
    (* workers hold nothing *)
    assert (Zf : forall f : wpcs -> nat, f PWait = 0 -> sumf f (workers s) = 0).
    { intros f Hf0. apply sumf_all_zero. intros x Hx. rewrite (Allw x Hx). exact Hf0. }
    pose proof (i_units I) as Hu. pose proof (i_in I) as Hi. pose proof (i_out I) as Ho.
    rewrite (Zf (@units_of Data Enc) eq_refl), (o_unf O) in Hu. cbn [is_some b2n] in Hu.
    rewrite (Zf (@in_of Data Enc) eq_refl) in Hi. rewrite (Zf (@out_of Data Enc) eq_refl), Ew, Eq in Ho. cbn [length SchedCInv.wr_out] in Ho.
    assert (Wi : flat_map (@items_pc Data Enc) (workers s) = []).
    { clear -Allw. induction (workers s) as [|pc ws IH]; auto. cbn.
      rewrite (Allw pc (or_introl eq_refl)). cbn. apply IH. intros x Hx. apply Allw. right; auto. }
    pose proof (o_tile O) as T.
    assert (Bnd : forall x, In x (items s) -> ple (order s) (fst x)) by (intros x Hx; apply (tiling_in _ _ _ _ T Hx)).
    assert (Hdec : items s = [] \/ items s <> []) by (destruct (items s); [left; reflexivity|right; discriminate]).
    destruct Hdec as [Eit|Nit].
    { (* nothing in flight *)
      unfold SchedCOrder.items in Eit. rewrite Wi, (o_unf O) in Eit. cbn in Eit. rewrite app_nil_r in Eit.
      destruct (coll_q s) eqn:Ec; [|discriminate Eit]. destruct (trans_q s) eqn:Et; [|discriminate Eit].
      destruct (reord_q s) eqn:Er; [|discriminate Eit]. cbn [length] in Hu, Hi, Ho.
      destruct Hrd as [(Erd & Ein)|Erd].
      - rewrite Erd, Ein in Hi. cbn [SchedCInv.rd_in] in Hi. pose proof (total_in_pos (nw s) N). lia.
      - pose proof (j_eof J) as E. rewrite Erd in E. cbn in E.
        unfold finished, can_terminate in Hf. cbn [view g_eof g_coll_q g_work_units g_num_worker g_out_slots g_total_out_slots] in Hf.
        rewrite E, Ec in Hf. cbn [map q_empty andb] in Hf.
        assert (E1 : work_units s =? nw s = true) by (apply Nat.eqb_eq; lia).
        assert (E2 : out_slots s =? total_out (nw s) = true) by (apply Nat.eqb_eq; lia).
        rewrite E1, E2 in Hf. discriminate Hf. }
    destruct (tiling_nonempty_head _ _ _ T Nit) as [b Hb].
    unfold SchedCOrder.items in Hb. rewrite Wi, (o_unf O) in Hb. cbn [SchedCOrder.opt_wb app] in Hb.
    rewrite app_nil_r in Hb.
    apply in_app_or in Hb. destruct Hb as [Hb|Hb]; [|apply in_app_or in Hb; destruct Hb as [Hb|Hb]].
    - (* the block at [order] is still an input block: a work unit must be free *)
      apply in_map_iff in Hb. destruct Hb as (ib & Eib & Iib).
      assert (Ep : ib_pos ib = order s) by (unfold SchedCOrder.iv_ib in Eib; congruence).
      destruct (sorted_head_at (@ib_pos Data) _ _ _ (p_sc _ _ _ P) Iib Ep) as (h & t & Ec & Eh).
      { intros y Hy. apply (Bnd (iv_ib y)). apply in_items_coll; auto. }
      pose proof (select_none_not_ready _ T_collect Sel) as Nr.
      unfold ready, task_guard, can_collect in Nr. cbn [view g_ultra g_coll_q g_work_units] in Nr.
      rewrite (o_ultra O), Ec in Nr. cbn [map q_empty negb andb] in Nr. apply Nat.ltb_ge in Nr.
      assert (W0 : work_units s = 0) by lia.
      destruct (p_unit _ _ _ P W0 ltac:(rewrite Ec; discriminate)) as (p & Hp & Hlt).
      specialize (Hlt h ltac:(rewrite Ec; left; reflexivity)). rewrite Eh in Hlt.
      destruct Hp as [(wb & Iw & Ew')|(k & pc & Hk & Ek)].
      + pose proof (Bnd _ (in_items_trans _ _ Iw)) as B1. cbn in B1. rewrite Ew' in B1.
        eapply plt_irrefl. eapply plt_ple_trans; eauto.
      + rewrite (Allw pc (nth_error_In _ _ Hk)) in Ek. discriminate Ek.
    - (* it waits in trans_q: an output slot must be available *)
      apply in_map_iff in Hb. destruct Hb as (wb & Ewb & Iwb).
      assert (Ep : wb_pos wb = order s) by (unfold SchedCOrder.iv_wb in Ewb; congruence).
      destruct (sorted_head_at (@wb_pos Enc) _ _ _ (p_st _ _ _ P) Iwb Ep) as (h & t & Et & Eh).
      { intros y Hy. apply (Bnd (iv_wb y)). apply in_items_trans; auto. }
      pose proof (select_none_not_ready _ T_transmit Sel) as Nr.
      unfold ready, task_guard, can_transmit in Nr. cbn [view g_trans_q g_out_slots g_order] in Nr.
      rewrite Et in Nr. cbn [map q_empty negb andb peek_pos hd] in Nr. rewrite Eh in Nr.
      assert (Epe : pos_eq (order s) (order s) = true) by (apply pos_eq_spec; reflexivity).
      rewrite Epe, andb_true_r in Nr. apply orb_false_iff in Nr. destruct Nr as [_ Nr]. apply Nat.ltb_ge in Nr.
      pose proof (p_res _ _ _ P) as Res. unfold SchedCLive.reserve in Res.
      rewrite (Zf (le_order_pc (order s)) eq_refl), Eq, Ew in Res. cbn in Res.
      pose proof thresh_pos as Tp.
      assert (Hle : 0 < le_order_q (order s) (reord_q s)) by lia.
      unfold SchedCLive.le_order_q in Hle.
      destruct (filter (fun wb0 => pos_le (wb_pos wb0) (order s)) (reord_q s)) as [|w2 r2] eqn:Ef; [cbn in Hle; lia|].
      assert (I2 : In w2 (filter (fun wb0 => pos_le (wb_pos wb0) (order s)) (reord_q s))) by (rewrite Ef; left; reflexivity).
      apply filter_In in I2. destruct I2 as [I2 L2]. apply pos_le_spec in L2.
      pose proof (Bnd _ (in_items_reord _ _ I2)) as B2. cbn in B2.
      assert (E2 : wb_pos w2 = order s) by (apply ple_antisym; auto).
      (* two live items start at [order] *)
      pose proof (in_items_trans _ _ Iwb) as A1. pose proof (in_items_reord _ _ I2) as A2.
      unfold SchedCOrder.iv_wb in A1, A2. rewrite Ep in A1. rewrite E2 in A2.
      pose proof (tiling_distinct _ _ _ _ _ _ T A1 A2) as Eb.
      pose proof (tiling_once _ _ _ (order s, wb_next wb) T) as Once.
      assert (2 <= cnt (order s, wb_next wb) (items s)); [|lia].
      unfold SchedCOrder.items. rewrite !cnt_app.
      assert (0 < cnt (order s, wb_next wb) (map iv_wb (trans_q s))).
      { apply cnt_pos_in. apply in_map_iff. exists wb. split; auto. unfold SchedCOrder.iv_wb. congruence. }
      assert (0 < cnt (order s, wb_next wb) (map iv_wb (reord_q s))).
      { apply cnt_pos_in. apply in_map_iff. exists w2. split; auto. unfold SchedCOrder.iv_wb. congruence. }
      lia.
    - (* it waits in reord_q: reorder is ready *)
      apply in_map_iff in Hb. destruct Hb as (wb & Ewb & Iwb).
      assert (Ep : wb_pos wb = order s) by (unfold SchedCOrder.iv_wb in Ewb; congruence).
      destruct (sorted_head_at (@wb_pos Enc) _ _ _ (p_sr _ _ _ P) Iwb Ep) as (h & t & Er & Eh).
      { intros y Hy. apply (Bnd (iv_wb y)). apply in_items_reord; auto. }
      pose proof (select_none_not_ready _ T_reorder Sel) as Nr.
      unfold ready, task_guard, can_reorder in Nr. cbn [view g_reord_q g_order] in Nr.
      rewrite Er in Nr. cbn [map q_empty negb andb peek_pos hd] in Nr. rewrite Eh in Nr.
      assert (Epe : pos_eq (order s) (order s) = true) by (apply pos_eq_spec; reflexivity).
      rewrite Epe in Nr. discriminate Nr.
  Qed.

  Theorem progress_inv (s : state) : Inv s -> Inv2 s -> OInv s -> PInv s -> NL s -> 1 <= nw s ->
    (forall k, rd s <> RRun k) -> (forall k, wr s <> SRun k) ->
    final s = false -> exists e s', step s e = Some s' /\ productive s e = true.
  Proof.
    intros I J O P Hnl N Hrr Hsr NF.
    destruct (lock s) as [t|] eqn:L.
    { (* the holder of the mutex can always go on *)
      destruct (i_lock I _ L) as (i & p & -> & Hi & Hp). exists (TW i).
      unfold SchedC.step, SchedC.step_obs, worker_step, productive. rewrite Hi.
      pose proof (holds_refl _ _ L) as Hh.
      destruct p as [| | | |[t|ib|wb|wbo ibo|wb d|wb]]; try discriminate Hp.
      - rewrite Hh. destruct (next_task s); [|destruct (finished s)]; eexists; split; reflexivity.
      - unfold seg_step. rewrite Hh. destruct (seg_start s i t). eexists; split; reflexivity. }
    pose proof (sum_classes Data Enc (workers s)) as Cl. pose proof (i_hold I) as Ih. rewrite L in Ih. cbn in Ih.
    pose proof (i_len I) as Il. pose proof (i_wake I) as Iw.
    (* an awake worker *)
    destruct (Nat.eq_dec (sumf awake_of (workers s)) 0) as [Aw|Aw].
    2:{ destruct (sumf_pos_ex awake_of (workers s) ltac:(lia)) as (j & pc & Hj & Hp).
        assert (Hp1 : awake_of pc = 1) by (destruct pc as [| | | |[]]; cbn in *; lia).
        destruct (worker_enabled_free s j pc L Hj (noseq I (o_tok O) Hj) (or_introl Hp1)) as [s' Hs].
        exists (TW j), s'. split; auto. unfold productive. rewrite Hj. destruct pc; auto; discriminate. }
    (* a signalled waiter *)
    destruct (Nat.eq_dec (wakeups s) 0) as [Wk|Wk].
    2:{ destruct (sumf_pos_ex wait_of (workers s) ltac:(lia)) as (j & pc & Hj & Hp).
        assert (pc = PWait) by (destruct pc as [| | | |[]]; cbn in Hp; try lia; reflexivity). subst pc.
        destruct (worker_enabled_free s j PWait L Hj eq_refl (or_intror eq_refl)) as [s' Hs].
        exists (TW j), s'. split; auto. unfold productive. rewrite Hj. apply Nat.ltb_lt. lia. }
    (* reader *)
    destruct (rd s) eqn:Er.
    2:{ exists TR. unfold SchedC.step, SchedC.step_obs, reader_step, productive. rewrite Er, (lock_free_none _ L).
        destruct (input s) as [|d r]; [eexists; split; reflexivity|].
        destruct (data_len d =? 0)%N; eexists; split; reflexivity. }
    2:{ exfalso. eapply Hrr; eauto. }
    2:{ exists TR. unfold SchedC.step, SchedC.step_obs, reader_step, productive. rewrite Er, (lock_free_none _ L).
        eexists; split; reflexivity. }
    all: (* writer *)
      destruct (wr s) eqn:Ew;
      [ | exists TS; unfold SchedC.step, SchedC.step_obs, writer_step, productive; rewrite Ew, (lock_free_none _ L);
          eexists; split; reflexivity
        | exfalso; eapply Hsr; eauto | ].
    all: try (destruct (in_slots s) as [|m] eqn:Ein;
              [|exists TR; unfold SchedC.step, SchedC.step_obs, reader_step, productive; rewrite Er, Ein;
                eexists; split; reflexivity]).
    all: try (destruct (output_q s) as [|wb oq] eqn:Eq;
              [|exists TS; unfold SchedC.step, SchedC.step_obs, writer_step, productive; rewrite Ew, Eq;
                eexists; split; reflexivity]).
    all: try (destruct (finish s) eqn:Efin;
              [exists TS; unfold SchedC.step, SchedC.step_obs, writer_step, productive; rewrite Ew, Eq, Efin;
               eexists; split; reflexivity|]).
    (* main: join and finish *)
    all: destruct (forallb (@is_exit _) (workers s) && negb (finish s) &&
                  match rd s with RDone => true | _ => false end) eqn:Em.
    all: try solve [ exists TM; unfold SchedC.step, SchedC.step_obs, main_step, productive;
                     rewrite Em; eexists; split; reflexivity ].
    (* quiescent: impossible *)
    all: exfalso; eapply (quiescent_false s I J O P Hnl N L Aw Wk); eauto.
    all: try solve [ intros (H1 & H2 & H3); rewrite H1, H2, Er in Em; cbn in Em; discriminate Em ].
    all: try solve [ intros (H1 & H2 & H3); rewrite H1, H2, H3 in Em; cbn in Em; discriminate Em ].
  Qed.

  Lemma norun n u l inp s : reachable n u l inp s -> (forall k, rd s <> RRun k) /\ (forall k, wr s <> SRun k).
  Proof.
    intros R. unfold SchedCInv.reachable in R. induction R as [|s e s' R IH H].
    - split; intros k; discriminate.
    - destruct IH as [A B]. apply step_Step in H.
      destruct H; rewrite ?sched_unlock_eq, ?task_return_eq; cbn; split; intros k; try apply A; try apply B; try discriminate.
      all: destruct (data_len d <? in_granul (lvl s))%N; discriminate.
  Qed.

  (* C11_progress (default mode): every reachable non-final state has an enabled
     productive event: the compression scheduler cannot deadlock *)
  Theorem c11_progress_default n l inp s : 1 <= n -> reachable n false l inp s -> final s = false ->
    exists e s', step s e = Some s' /\ productive s e = true.
  Proof.
    intros N R NF.
    destruct (norun _ _ _ _ _ R) as [Hrr Hsr].
    pose proof (@c11_no_lost_wakeup _ _ data_len enc_empty collect _ _ _ _ _ N R) as Hnl.
    assert (H : Inv s /\ Inv2 s /\ OInv s /\ PInv s /\ nw s = n).
    { clear NF Hrr Hsr Hnl. unfold SchedCInv.reachable in R. induction R as [|s e s' R IH H].
      - split; [apply inv_init|]. split; [apply inv2_init|]. split; [apply oinv_init|]. split; [apply pinv_init|reflexivity].
      - destruct IH as (I & J & O & P & En).
        split; [eapply inv_step; eauto|]. split; [eapply inv2_step; eauto|]. split; [eapply oinv_step; eauto|].
        split; [eapply pinv_step; eauto; lia|].
        rewrite <- En. apply step_Step in H. destruct H; rewrite ?sched_unlock_eq, ?task_return_eq; reflexivity. }
    destruct H as (I & J & O & P & En).
    apply progress_inv; auto. lia.
  Qed.

  (* the static priorities documented in process.c ("JOB SCHEDULING") and DESIGN.md:
     collect_seq, then reorder (hand a finished block to the writer as early as
     possible), then transmit, then collect *)
  Definition prio (t : task) : nat :=
    match t with T_collect_seq => 0 | T_reorder => 1 | T_transmit => 2 | T_collect => 3 end.

  (* side condition on the regenerated task_list[] order *)
  Lemma task_order_by_prio : map prio task_order = [0; 1; 2; 3].
  Proof. reflexivity. Qed.

  Lemma find_first_sorted (f : task -> bool) l t :
    StronglySorted (fun a b => prio a < prio b) l -> find f l = Some t ->
    forall t', In t' l -> prio t' < prio t -> f t' = false.
  Proof.
    induction l as [|x l IH]; intros S H t' I L; [destruct I|].
    apply StronglySorted_inv in S. destruct S as [S1 S2]. rewrite Forall_forall in S2.
    cbn [find] in H. destruct (f x) eqn:Ex.
    - injection H as Ht. subst x. destruct I as [It|It].
      + subst t'. lia.
      + specialize (S2 _ It). lia.
    - destruct I as [It|It].
      + subst t'. exact Ex.
      + eapply IH; eauto.
  Qed.

  Lemma task_order_sorted : StronglySorted (fun a b => prio a < prio b) task_order.
  Proof. unfold task_order. repeat constructor; cbn; lia. Qed.

  (* select_task() picks the ready task of highest static priority *)
  Theorem c11_priority (s : state) t : next_task s = Some t -> Inv s ->
    forall t', prio t' < prio t -> ready s t' = false.
  Proof.
    intros H I t' L. rewrite (i_nt I) in H. unfold select, select_first in H.
    eapply find_first_sorted; eauto. apply task_order_sorted. apply all_tasks_listed.
  Qed.

End Prog.
