(* C03, scheduler part (default mode): every block in the system is the block the
   specification assigns to its position, so the sequence written by a complete run
   is a function of the chunk list alone - not of the worker count or interleaving. *)
From Coq Require Import List NArith Arith Bool Lia Permutation Sorted.
From LBZ Require Import SchedC.SchedCIface Gen.SchedCTab SchedC.Pool SchedC.PoolLemmas SchedC.SchedC SchedC.SchedCInv
  SchedC.Tiling SchedC.SchedCOrder.
Import ListNotations.

Section Data.
  Variable Data : Type.
  Variable Enc : Type.
  Variable data_len : Data -> N.
  Variable enc_empty : Enc.
  Variable collect : Enc -> Data -> Enc * Data * bool.
  Variable inp0 : list Data.            (* what the successive xread(in_granul) calls return *)
  Variable lvl0 : N.

  Notation state := (state Data Enc).
  Notation cont := (cont Data Enc).
  Notation wpcs := (wpc cont).
  Notation step := (step data_len enc_empty collect).
  Notation Inv := (@Inv Data Enc).
  Notation OInv := (@OInv Data Enc).
  Notation reachable := (reachable data_len enc_empty collect).

  (* the specification: what is left of chunk d0 after i blocks, and the block at a position *)
  Definition rem_step (d : Data) : Data := snd (fst (collect enc_empty d)).
  Definition remN (d0 : Data) (i : N) : Data := N.iter i rem_step d0.

  Lemma remN_succ d0 i : remN d0 (i + 1) = rem_step (remN d0 i).
  Proof. unfold remN. rewrite N.add_1_r. apply N.iter_succ. Qed.

  Definition chunk_at (j : N) : option Data := nth_error inp0 (N.to_nat j).

  Definition blockspec (p : pos) (d0 : Data) : wblk Enc :=
    let '(e, d', _) := collect enc_empty (remN d0 (minor p)) in
    mkwblk p (if (0 <? data_len d')%N then pos_minor_succ p else pos_major_succ p) e.

  Definition SpecI (ib : iblk Data) : Prop :=
    exists d0, chunk_at (major (ib_pos ib)) = Some d0 /\ ib_data ib = remN d0 (minor (ib_pos ib)).
  Definition SpecW (wb : wblk Enc) : Prop :=
    exists d0, chunk_at (major (wb_pos wb)) = Some d0 /\ wb = blockspec (wb_pos wb) d0.

  Lemma specW_fun wb1 wb2 : SpecW wb1 -> SpecW wb2 -> wb_pos wb1 = wb_pos wb2 -> wb1 = wb2.
  Proof.
    intros (d1 & C1 & E1) (d2 & C2 & E2) P. rewrite P in *. rewrite C1 in C2. injection C2 as <-.
    congruence.
  Qed.

  Definition ibs_pc (p : wpcs) : list (iblk Data) :=
    match p with PRun (KCollect ib) => [ib] | PRun (KSeq _ (Some ib)) => [ib] | _ => [] end.
  Definition wbs_pc (p : wpcs) : list (wblk Enc) :=
    match p with PRun (KEncode wb) | PRun (KTransmit wb) => [wb] | _ => [] end.

  Definition all_ib (s : state) : list (iblk Data) := coll_q s ++ flat_map ibs_pc (workers s).
  Definition all_wb (s : state) : list (wblk Enc) :=
    trans_q s ++ reord_q s ++ output_q s ++ written s ++ flat_map wbs_pc (workers s).

  (* number of chunks the reader delivers: up to and including the first short one *)
  Fixpoint delivered (l : list Data) : nat :=
    match l with
    | [] => 0
    | d :: r => if (data_len d =? 0)%N then 0
                else S (if (data_len d <? in_granul lvl0)%N then 0 else delivered r)
    end.

  Definition rd_more (r : rpc cont) : bool := match r with RIdle | RRead => true | _ => false end.

  Record DInv (s : state) : Prop := {
    d_lvl : lvl s = lvl0;
    d_cnt : delivered inp0 = N.to_nat (next_id s) + (if rd_more (rd s) then delivered (input s) else 0);
    d_in : input s = skipn (N.to_nat (next_id s)) inp0;
    d_ib : Forall SpecI (all_ib s);
    d_wb : Forall SpecW (all_wb s)
  }.
  Arguments d_in {s} _. Arguments d_ib {s} _. Arguments d_wb {s} _. Arguments d_lvl {s} _. Arguments d_cnt {s} _.

  Lemma Forall_flat_upd {A B} (P : B -> Prop) (f : A -> list B) ws i p p' :
    nth_error ws i = Some p -> Forall P (flat_map f ws) -> Forall P (f p') -> Forall P (flat_map f (upd ws i p')).
  Proof.
    intros H F Fp. destruct (nth_error_split_upd _ _ _ H) as (l1 & l2 & -> & _ & U). rewrite U.
    rewrite flat_map_app in *. cbn [flat_map] in *. rewrite !Forall_app in *. tauto.
  Qed.

  Lemma Forall_flat_nth {A B} (P : B -> Prop) (f : A -> list B) ws i p :
    nth_error ws i = Some p -> Forall P (flat_map f ws) -> Forall P (f p).
  Proof.
    intros H F. destruct (nth_error_split_upd _ _ _ H) as (l1 & l2 & -> & _ & _).
    rewrite flat_map_app in F. cbn [flat_map] in F. rewrite !Forall_app in F. tauto.
  Qed.

  Lemma Forall_insert {A} (P : A -> Prop) key x q : Forall P (pq_insert key x q) <-> P x /\ Forall P q.
  Proof.
    rewrite !Forall_forall. split.
    - intros H. split; [apply H; apply pq_insert_in; auto|intros y Hy; apply H; apply pq_insert_in; auto].
    - intros [H1 H2] y Hy. apply pq_insert_in in Hy. destruct Hy as [->|Hy]; auto.
  Qed.

  Lemma skipn_nth {A} (l : list A) k d rest : skipn k l = d :: rest -> nth_error l k = Some d /\ skipn (S k) l = rest.
  Proof.
    revert l. induction k; intros l H.
    - destruct l; [discriminate|]. cbn in H. injection H as -> ->. auto.
    - destruct l; [discriminate|]. cbn in H. apply IHk in H. cbn. auto.
  Qed.

  Local Arguments select : simpl never.
  Local Arguments finished : simpl never.
  Local Arguments ready : simpl never.
  Local Arguments unlock_wakeups : simpl never.
  Local Arguments signal : simpl never.
  Local Arguments broadcast : simpl never.
  Local Arguments pq_insert : simpl never.
  Local Arguments upd : simpl never.
  Local Arguments cap_output : simpl never.

  Ltac simp :=
    rewrite ?sched_unlock_eq, ?task_return_eq; unfold set_pc;
    cbn [nw ultra lvl lock next_task wakeups eof work_units in_slots out_slots coll_q trans_q reord_q order
         next_id collect_token unfinished workers rd input wr output_q written finish bad
         set_lock set_next_task set_wakeups set_eof set_work_units set_in_slots set_out_slots set_coll_q
         set_trans_q set_reord_q set_order set_next_id set_collect_token set_unfinished set_workers set_rd
         set_input set_wr set_output_q set_written set_finish set_bad].

  Ltac fa :=
    unfold all_ib, all_wb in *; simp;
    repeat rewrite ?Forall_app, ?Forall_insert, ?Forall_cons_iff in *.

  Lemma dinv_step s e s' : Inv s -> OInv s -> DInv s -> step s e = Some s' -> DInv s'.
  Proof.
    intros I O D H. apply step_Step in H.
    pose proof (o_tok O) as Ot.
    pose proof (d_in D) as Din. pose proof (d_ib D) as Dib. pose proof (d_wb D) as Dwb.
    pose proof (d_lvl D) as Dl. pose proof (d_cnt D) as Dc.
    destruct H as [i Hi L|i Hi L|i t Hi L Hn|i Hi L Hn Hf|i Hi L Hn Hf
                  |i Hi L Hq|i ib q wu b Hi L Hq Hd|i wub b2 Hi L Hw Hb|i Hi L Hq|i wb q os b Hi L Hq Hd
                  |i Hi L Hq|i wb q Hi L Hq
                  |i ib e d f Hi L Hc Hl|i ib e d f Hi Hc Hl|i wb Hi L
                  |i wbo ib wb0 e d f Hi L Hw Hc Hl|i wbo ib wb0 e d f Hi Hw Hc Hl|i wb Hi L
                  |i wb Hi L|i wb Hi L|i wb Hi L
                  |m Hr Hs|Hr Hin|d rest Hr Hin Hl L|Hr L|wb q Hw Hq|Hw Hq Hf|wb Hw L|Hall Hf Hr].
    8: { exfalso. pose proof (i_ready I _ _ Hi) as R. apply (ready_seq_ultra enc_empty collect) in R. pose proof (o_ultra O). congruence. }
    15-19: (exfalso; pose proof (noseq I Ot Hi) as Z; discriminate Z).
    all: constructor; simp; auto.
    all: try solve [ match goal with |- delivered _ = _ => idtac end; rewrite ?Hr in *; cbn [rd_more] in *; lia ].
    all: try solve [ match goal with |- delivered _ = _ => idtac end;
                     destruct Hin as [Hin|(d0 & r0 & Hin & Hz)]; rewrite Hr in Dc; cbn [rd_more] in Dc; rewrite Hin in Dc;
                     cbn [delivered] in Dc; rewrite ?Hz in Dc; cbn in Dc; cbn [rd_more]; lia ].
    all: try solve [ match goal with |- delivered _ = _ => idtac end;
                     rewrite Hr in Dc; cbn [rd_more] in Dc; rewrite Hin in Dc; cbn [delivered] in Dc;
                     apply N.eqb_neq in Hl; rewrite Hl, Dl in *;
                     destruct (data_len d <? in_granul lvl0)%N; cbn [rd_more] in *; lia ].
    (* what the acting worker holds satisfies the specification *)
    all: try (assert (Fib : Forall SpecI (ibs_pc _)) by (eapply (Forall_flat_nth SpecI ibs_pc); [exact Hi|fa; tauto]);
              cbn [ibs_pc] in Fib; try (apply Forall_cons_iff in Fib; destruct Fib as [Fib _])).
    all: try (assert (Fwb : Forall SpecW (wbs_pc _)) by (eapply (Forall_flat_nth SpecW wbs_pc); [exact Hi|fa; tauto]);
              cbn [wbs_pc] in Fwb; try (apply Forall_cons_iff in Fwb; destruct Fwb as [Fwb _])).
    all: fa; rewrite ?Hq in *; fa.
    all: repeat split; try tauto.
    all: try solve [ eapply Forall_flat_upd; [exact Hi|tauto|cbn [ibs_pc wbs_pc]; repeat constructor; tauto] ].
    all: try solve [ repeat constructor; tauto ].
    - (* remainder of the chunk *)
      destruct Fib as (d0 & C & E). exists d0. cbn [ib_pos ib_data pos_minor_succ major minor]. split; auto.
      rewrite remN_succ, <- E. unfold rem_step. rewrite Hc. reflexivity.
    - (* block cut out of a chunk that continues *)
      eapply Forall_flat_upd; [exact Hi|tauto|]. cbn [wbs_pc]. constructor; [|constructor].
      destruct Fib as (d0 & C & E). exists d0. cbn [wb_pos]. split; auto. unfold blockspec. rewrite <- E, Hc.
      apply N.ltb_lt in Hl. rewrite Hl. reflexivity.
    - (* last block of a chunk *)
      eapply Forall_flat_upd; [exact Hi|tauto|]. cbn [wbs_pc]. constructor; [|constructor].
      destruct Fib as (d0 & C & E). exists d0. cbn [wb_pos]. split; auto. unfold blockspec. rewrite <- E, Hc.
      rewrite Hl. reflexivity.
    - (* deliver *)
      rewrite Din in Hin. destruct (skipn_nth _ _ _ _ Hin) as [_ E]. rewrite <- E. f_equal. lia.
    - rewrite Din in Hin. destruct (skipn_nth _ _ _ _ Hin) as [E _]. exists d. cbn. split; auto.
  Qed.

  Lemma dinv_init n : DInv (@init Data Enc n false lvl0 inp0).
  Proof.
    constructor; cbn.
    - reflexivity.
    - reflexivity.
    - reflexivity.
    - unfold all_ib. cbn. induction n; cbn; auto.
    - unfold all_wb. cbn. induction n; cbn; auto.
  Qed.

  Lemma reach_dinv n s : reachable n false lvl0 inp0 s -> Inv s /\ OInv s /\ DInv s.
  Proof.
    intros R. unfold SchedCInv.reachable in R. induction R as [|s e s' R IH H].
    - split; [apply inv_init|split; [apply oinv_init|apply dinv_init]].
    - destruct IH as (I & O & D). split; [eapply inv_step; eauto|split; [eapply oinv_step; eauto|eapply dinv_step; eauto]].
  Qed.

  (* a chain of specified blocks from p is determined by its end point *)
  Lemma spec_chain_unique p q (l1 l2 : list (wblk Enc)) :
    chain p (map (@iv_wb Enc) l1) q -> chain p (map (@iv_wb Enc) l2) q ->
    Forall SpecW l1 -> Forall SpecW l2 -> l1 = l2.
  Proof.
    revert p l2. induction l1 as [|w1 l1 IH]; intros p l2 C1 C2 F1 F2.
    - destruct l2 as [|w2 l2]; auto. cbn in C1, C2. subst q. destruct C2 as (P & L & C2).
      apply chain_le in C2. exfalso. rewrite <- P in C2. eapply plt_irrefl. eapply plt_ple_trans; eauto.
    - destruct l2 as [|w2 l2].
      + cbn in C1, C2. subst q. destruct C1 as (P & L & C1).
        apply chain_le in C1. exfalso. rewrite <- P in C1. eapply plt_irrefl. eapply plt_ple_trans; eauto.
      + cbn in C1, C2. destruct C1 as (P1 & _ & C1). destruct C2 as (P2 & _ & C2).
        inversion F1 as [|? ? S1 F1']; subst. inversion F2 as [|? ? S2 F2']; subst.
        assert (w1 = w2) by (apply specW_fun; auto; unfold iv_wb in *; cbn in *; congruence). subst w2.
        f_equal. eapply IH; eauto.
  Qed.

  (* C03 (scheduler part, default mode): two complete runs on the same chunk list -
     whatever the worker counts, levels of concurrency and interleavings - have
     written the same sequence of blocks *)
  Theorem c03_confluent_default n1 n2 s1 s2 : 1 <= n1 -> 1 <= n2 ->
    reachable n1 false lvl0 inp0 s1 -> reachable n2 false lvl0 inp0 s2 ->
    final s1 = true -> final s2 = true ->
    written s1 = written s2.
  Proof.
    intros N1 N2 R1 R2 F1 F2.
    destruct (reach_dinv _ _ R1) as (I1 & O1 & D1). destruct (reach_dinv _ _ R2) as (I2 & O2 & D2).
    assert (E : next_id s1 = next_id s2).
    { pose proof (d_cnt D1) as C1. pose proof (d_cnt D2) as C2.
      unfold final in F1, F2. rewrite !andb_true_iff in F1, F2.
      destruct F1 as [[_ F1] _]. destruct F2 as [[_ F2] _].
      destruct (rd s1); try discriminate. destruct (rd s2); try discriminate. cbn in C1, C2. lia. }
    destruct (final_order_default _ _ _ _ _ _ _ _ _ N1 R1 F1) as (Eo1 & Q1 & H1).
    destruct (final_order_default _ _ _ _ _ _ _ _ _ N2 R2 F2) as (Eo2 & Q2 & H2).
    pose proof (o_hand O1) as C1. pose proof (o_hand O2) as C2. rewrite H1, Eo1 in C1. rewrite H2, Eo2 in C2.
    rewrite E in C1.
    eapply spec_chain_unique; eauto.
    - pose proof (d_wb D1) as W. unfold all_wb in W. rewrite !Forall_app in W. tauto.
    - pose proof (d_wb D2) as W. unfold all_wb in W. rewrite !Forall_app in W. tauto.
  Qed.


  Lemma written_specified n s wb : reachable n false lvl0 inp0 s -> In wb (written s) -> SpecW wb.
  Proof.
    intros R I. destruct (reach_dinv _ _ R) as (_ & _ & D). pose proof (d_wb D) as W.
    unfold all_wb in W. rewrite !Forall_app in W. destruct W as (_ & _ & _ & W & _).
    rewrite Forall_forall in W. auto.
  Qed.

End Data.
