(* Safety invariants of the compression scheduler model, for every worker count,
   both modes, every input and every interleaving. *)
From Coq Require Import List NArith Arith Bool Lia Permutation.
From LBZ Require Import SchedC.SchedCIface Gen.SchedCTab SchedC.Pool SchedC.PoolLemmas SchedC.SchedC.
Import ListNotations.

Section Inv.
  Variable Data : Type.
  Variable Enc : Type.
  Variable data_len : Data -> N.
  Variable enc_empty : Enc.
  Variable collect : Enc -> Data -> Enc * Data * bool.

  Notation state := (state Data Enc).
  Notation cont := (cont Data Enc).
  Notation step := (step data_len enc_empty collect).
  Notation step_obs := (step_obs data_len enc_empty collect).

  (* ---- sched_unlock / task_return in setter form ---- *)
  Definition unlock_wakeups (s : state) : nat :=
    if unlock_signal (is_some (select s)) (finished s) then signal (wakeups s) (workers s) else wakeups s.

  Lemma sched_unlock_eq (s : state) :
    sched_unlock s = set_lock None (set_wakeups (unlock_wakeups s) (set_next_task (select s) s)).
  Proof.
    unfold sched_unlock, unlock_wakeups. destruct (unlock_signal _ _); destruct s; reflexivity.
  Qed.

  Lemma select_view (s1 s2 : state) : view s1 = view s2 -> select s1 = select s2.
  Proof. unfold select, ready. intros ->. reflexivity. Qed.

  Lemma finished_view (s1 s2 : state) : view s1 = view s2 -> finished s1 = finished s2.
  Proof. unfold finished. intros ->. reflexivity. Qed.

  Lemma ready_view (s1 s2 : state) t : view s1 = view s2 -> ready s1 t = ready s2 t.
  Proof. unfold ready. intros ->. reflexivity. Qed.

  Lemma task_return_eq (s : state) i :
    task_return s i = set_next_task (select s) (set_workers (upd (workers s) i PTop) s).
  Proof. reflexivity. Qed.

  Lemma lock_free_true (s : state) : lock_free s = true -> lock s = None.
  Proof. unfold lock_free. destruct (lock s); cbn; congruence. Qed.

  Lemma tid_eqb_eq a b : tid_eqb a b = true -> a = b.
  Proof. destruct a, b; cbn; try congruence. intros H; apply Nat.eqb_eq in H; subst; auto. Qed.

  Lemma holds_true (s : state) t : holds s t = true -> lock s = Some t.
  Proof. unfold holds. destruct (lock s); [|congruence]. intros H; apply tid_eqb_eq in H; subst; auto. Qed.

  (* ---- case analysis of a step ---- *)
  Ltac break_hyp E :=
    repeat match type of E with
           | context [match ?x with _ => _ end] => destruct x eqn:?
           end; try discriminate.


  Notation wpcs := (wpc cont).

  (* One constructor per kind of event. *)
  Inductive Step (s : state) : tid -> state -> Prop :=
  | St_new i : nth_error (workers s) i = Some PNew -> lock s = None ->
      Step s (TW i) (set_lock (Some (TW i)) (set_pc i PTop s))
  | St_wake i : nth_error (workers s) i = Some PWait -> lock s = None ->
      Step s (TW i) (set_wakeups (pred (wakeups s)) (set_lock (Some (TW i)) (set_pc i PTop s)))
  | St_S i t : nth_error (workers s) i = Some PTop -> lock s = Some (TW i) -> next_task s = Some t ->
      Step s (TW i) (set_pc i (PRun (KStart t)) s)
  | St_X i : nth_error (workers s) i = Some PTop -> lock s = Some (TW i) -> next_task s = None ->
      finished s = true ->
      Step s (TW i) (set_lock None (set_wakeups (broadcast (upd (workers s) i PExit)) (set_pc i PExit s)))
  | St_W i : nth_error (workers s) i = Some PTop -> lock s = Some (TW i) -> next_task s = None ->
      finished s = false ->
      Step s (TW i) (set_lock None (set_pc i PWait s))
  | St_collect0_bad i : nth_error (workers s) i = Some (PRun (KStart T_collect)) -> lock s = Some (TW i) ->
      coll_q s = [] -> Step s (TW i) (set_bad true s)
  | St_collect0 i ib q wu b : nth_error (workers s) i = Some (PRun (KStart T_collect)) -> lock s = Some (TW i) ->
      coll_q s = ib :: q -> dec_or_bad (work_units s) = (wu, b) ->
      Step s (TW i) (sched_unlock (set_pc i (PRun (KCollect ib))
                       (set_bad (bad s || b) (set_work_units wu (set_coll_q q s)))))
  | St_seq0 i wub b2 : nth_error (workers s) i = Some (PRun (KStart T_collect_seq)) -> lock s = Some (TW i) ->
      wub = match unfinished s with Some _ => (work_units s, false) | None => dec_or_bad (work_units s) end ->
      b2 = match unfinished s, coll_q s with None, [] => true | _, _ => false end ->
      Step s (TW i) (sched_unlock (set_pc i (PRun (KSeq (unfinished s) (match coll_q s with [] => None | ib :: _ => Some ib end)))
                       (set_bad (bad s || (snd wub || b2))
                          (set_collect_token false (set_coll_q (tl (coll_q s))
                             (set_work_units (fst wub) (set_unfinished None s)))))))
  | St_transmit0_bad i : nth_error (workers s) i = Some (PRun (KStart T_transmit)) -> lock s = Some (TW i) ->
      trans_q s = [] -> Step s (TW i) (set_bad true s)
  | St_transmit0 i wb q os b : nth_error (workers s) i = Some (PRun (KStart T_transmit)) -> lock s = Some (TW i) ->
      trans_q s = wb :: q -> dec_or_bad (out_slots s) = (os, b) ->
      Step s (TW i) (sched_unlock (set_pc i (PRun (KTransmit wb))
                       (set_bad (bad s || b) (set_out_slots os (set_trans_q q s)))))
  | St_reorder_bad i : nth_error (workers s) i = Some (PRun (KStart T_reorder)) -> lock s = Some (TW i) ->
      reord_q s = [] -> Step s (TW i) (set_bad true s)
  | St_reorder i wb q : nth_error (workers s) i = Some (PRun (KStart T_reorder)) -> lock s = Some (TW i) ->
      reord_q s = wb :: q ->
      Step s (TW i) (task_return (set_bad (bad s || (cap_output (nw s) <=? length (output_q s)))
                                    (set_output_q (output_q s ++ [wb]) (set_order (wb_next wb) (set_reord_q q s)))) i)
  | St_collect_requeue i ib e d f : nth_error (workers s) i = Some (PRun (KCollect ib)) -> lock s = None ->
      collect enc_empty (ib_data ib) = (e, d, f) -> (0 < data_len d)%N ->
      Step s (TW i) (sched_unlock (set_pc i (PRun (KEncode (mkwblk (ib_pos ib) (pos_minor_succ (ib_pos ib)) e)))
                       (set_coll_q (pq_insert (@ib_pos _) (mkiblk (pos_minor_succ (ib_pos ib)) d) (coll_q s)) s)))
  | St_collect_release i ib e d f : nth_error (workers s) i = Some (PRun (KCollect ib)) ->
      collect enc_empty (ib_data ib) = (e, d, f) -> data_len d = 0%N ->
      Step s (TW i) (set_pc i (PRun (KEncode (mkwblk (ib_pos ib) (pos_major_succ (ib_pos ib)) e)))
                       (set_in_slots (S (in_slots s)) s))
  | St_encode i wb : nth_error (workers s) i = Some (PRun (KEncode wb)) -> lock s = None ->
      Step s (TW i) (task_return (set_lock (Some (TW i)) (set_trans_q (pq_insert (@wb_pos _) wb (trans_q s)) s)) i)
  | St_seq_requeue i wbo ib wb0 e d f : nth_error (workers s) i = Some (PRun (KSeq wbo (Some ib))) -> lock s = None ->
      wb0 = match wbo with Some wb => wb | None => new_wblk enc_empty ib end ->
      collect (wb_enc wb0) (ib_data ib) = (e, d, f) -> (0 < data_len d)%N ->
      Step s (TW i) (sched_unlock (set_pc i (PRun (KSeqFin (mkwblk (wb_pos wb0) (pos_minor_succ (wb_next wb0)) e) f))
                       (set_coll_q (pq_insert (@ib_pos _) (mkiblk (pos_minor_succ (ib_pos ib)) d) (coll_q s)) s)))
  | St_seq_release i wbo ib wb0 e d f : nth_error (workers s) i = Some (PRun (KSeq wbo (Some ib))) ->
      wb0 = match wbo with Some wb => wb | None => new_wblk enc_empty ib end ->
      collect (wb_enc wb0) (ib_data ib) = (e, d, f) -> data_len d = 0%N ->
      Step s (TW i) (set_pc i (PRun (KSeqFin (mkwblk (wb_pos wb0) (pos_major_succ (wb_next wb0)) e) f))
                       (set_in_slots (S (in_slots s)) s))
  | St_seq_flush i wb : nth_error (workers s) i = Some (PRun (KSeq (Some wb) None)) -> lock s = None ->
      Step s (TW i) (sched_unlock (set_pc i (PRun (KEncode wb)) (set_collect_token true s)))
  | St_seqfin_done i wb : nth_error (workers s) i = Some (PRun (KSeqFin wb true)) -> lock s = None ->
      Step s (TW i) (sched_unlock (set_pc i (PRun (KEncode wb)) (set_collect_token true s)))
  | St_seqfin_more i wb : nth_error (workers s) i = Some (PRun (KSeqFin wb false)) -> lock s = None ->
      Step s (TW i) (task_return (set_lock (Some (TW i)) (set_unfinished (Some wb) (set_collect_token true s))) i)
  | St_transmit1 i wb : nth_error (workers s) i = Some (PRun (KTransmit wb)) -> lock s = None ->
      Step s (TW i) (task_return (set_lock (Some (TW i))
                       (set_reord_q (pq_insert (@wb_pos _) wb (reord_q s)) (set_work_units (S (work_units s)) s))) i)
  | St_r_take m : rd s = RIdle -> in_slots s = S m ->
      Step s TR (set_rd RRead (set_in_slots m s))
  | St_r_empty : rd s = RRead -> (input s = [] \/ exists d rest, input s = d :: rest /\ data_len d = 0%N) ->
      Step s TR (set_rd REof (set_in_slots (S (in_slots s)) s))
  | St_r_deliver d rest : rd s = RRead -> input s = d :: rest -> data_len d <> 0%N -> lock s = None ->
      Step s TR (sched_unlock
                   (set_input rest (set_rd (if (data_len d <? in_granul (lvl s))%N then REof else RIdle)
                      (set_next_id (next_id s + 1)
                         (set_coll_q (pq_insert (@ib_pos _) (mkiblk (mkpos (next_id s) 0) d) (coll_q s)) s)))))
  | St_r_eof : rd s = REof -> lock s = None ->
      Step s TR (sched_unlock (set_rd RDone (set_eof true s)))
  | St_w_take wb q : wr s = SIdle -> output_q s = wb :: q ->
      Step s TS (set_wr (SHold wb) (set_written (written s ++ [wb]) (set_output_q q s)))
  | St_w_exit : wr s = SIdle -> output_q s = [] -> finish s = true ->
      Step s TS (set_wr SDone s)
  | St_w_done wb : wr s = SHold wb -> lock s = None ->
      Step s TS (sched_unlock (set_wr SIdle (set_out_slots (S (out_slots s)) s)))
  | St_m_finish : forallb (@is_exit _) (workers s) = true -> finish s = false -> rd s = RDone ->
      Step s TM (set_finish true s).

  Ltac fin H := cbn [option_map fst] in H; injection H as <-.

  Lemma step_Step s e s' : step s e = Some s' -> Step s e s'.
  Proof.
    unfold step, SchedC.step_obs. intros H.
    destruct e as [i| | |].
    - unfold worker_step in H.
      destruct (nth_error (workers s) i) as [p|] eqn:En; [|discriminate].
      destruct p as [| | | |k].
      + destruct (lock_free s) eqn:L; [|discriminate]. apply lock_free_true in L.
        fin H. apply St_new; auto.
      + destruct (holds s (TW i)) eqn:L; [|discriminate]. apply holds_true in L.
        destruct (next_task s) eqn:Nt.
        * fin H. eapply St_S; eauto.
        * destruct (finished s) eqn:F; fin H.
          -- apply St_X; auto.
          -- apply St_W; auto.
      + destruct (lock_free s) eqn:L; [|discriminate]. apply lock_free_true in L.
        fin H. apply St_wake; auto.
      + discriminate.
      + unfold seg_step in H. destruct k as [t|ib|wb|wbo ibo|wb done|wb].
        * destruct (holds s (TW i)) eqn:L; [|discriminate]. apply holds_true in L.
          destruct (seg_start s i t) as [s1 r] eqn:Es. fin H.
          unfold seg_start in Es. destruct t.
          -- destruct (coll_q s) as [|ib q] eqn:Eq.
             ++ injection Es as <- <-. apply St_collect0_bad; auto.
             ++ destruct (dec_or_bad (work_units s)) as [wu b] eqn:Ed. injection Es as <- <-.
                eapply St_collect0; eauto.
          -- injection Es as <- <-. eapply St_seq0; eauto.
             destruct (unfinished s); destruct (coll_q s); reflexivity.
          -- destruct (trans_q s) as [|wb q] eqn:Eq.
             ++ injection Es as <- <-. apply St_transmit0_bad; auto.
             ++ destruct (dec_or_bad (out_slots s)) as [os b] eqn:Ed. injection Es as <- <-.
                eapply St_transmit0; eauto.
          -- destruct (reord_q s) as [|wb q] eqn:Eq.
             ++ injection Es as <- <-. apply St_reorder_bad; auto.
             ++ injection Es as <- <-. eapply St_reorder; eauto.
        * cbn [new_wblk wb_enc wb_pos wb_next] in H.
          destruct (collect enc_empty (ib_data ib)) as [[e d] f] eqn:Ec.
          destruct (0 <? data_len d)%N eqn:El.
          -- destruct (lock_free s) eqn:L; [|discriminate]. apply lock_free_true in L.
             fin H. eapply St_collect_requeue; eauto. apply N.ltb_lt; auto.
          -- fin H. eapply St_collect_release; eauto.
             apply N.ltb_ge in El. lia.
        * destruct (lock_free s) eqn:L; [|discriminate]. apply lock_free_true in L.
          fin H. apply St_encode; auto.
        * destruct ibo as [ib|].
          -- set (wb0 := match wbo with Some wb => wb | None => new_wblk enc_empty ib end).
             assert (Hw : match wbo, Some ib with
                          | Some wb, _ => Some wb | None, Some ib => Some (new_wblk enc_empty ib) | None, None => None
                          end = Some wb0) by (destruct wbo; reflexivity).
             rewrite Hw in H.
             destruct (collect (wb_enc wb0) (ib_data ib)) as [[e d] f] eqn:Ec.
             destruct (0 <? data_len d)%N eqn:El.
             ++ destruct (lock_free s) eqn:L; [|discriminate]. apply lock_free_true in L.
                fin H. eapply St_seq_requeue; eauto. apply N.ltb_lt; auto.
             ++ fin H. eapply St_seq_release; eauto.
                apply N.ltb_ge in El. lia.
          -- destruct wbo as [wb|]; [|discriminate].
             destruct (lock_free s) eqn:L; [|discriminate]. apply lock_free_true in L.
             fin H. apply St_seq_flush; auto.
        * destruct (lock_free s) eqn:L; [|discriminate]. apply lock_free_true in L.
          destruct done; fin H.
          -- apply St_seqfin_done; auto.
          -- apply St_seqfin_more; auto.
        * destruct (lock_free s) eqn:L; [|discriminate]. apply lock_free_true in L.
          fin H. apply St_transmit1; auto.
    - unfold reader_step in H. destruct (rd s) eqn:Er; try discriminate.
      + destruct (in_slots s) eqn:Ei; [discriminate|]. fin H. eapply St_r_take; eauto.
      + destruct (input s) as [|d rest] eqn:Ein.
        * fin H. apply St_r_empty; auto.
        * destruct (data_len d =? 0)%N eqn:Ez.
          -- fin H. apply St_r_empty; auto. right. exists d, rest. split; auto.
             apply N.eqb_eq; auto.
          -- destruct (lock_free s) eqn:L; [|discriminate]. apply lock_free_true in L.
             fin H. eapply St_r_deliver; eauto. apply N.eqb_neq; auto.
      + destruct (lock_free s) eqn:L; [|discriminate]. apply lock_free_true in L.
        fin H. apply St_r_eof; auto.
    - unfold writer_step in H. destruct (wr s) eqn:Ew; try discriminate.
      + destruct (output_q s) as [|wb q] eqn:Eo.
        * destruct (finish s) eqn:Ef; [|discriminate]. fin H. apply St_w_exit; auto.
        * fin H. eapply St_w_take; eauto.
      + destruct (lock_free s) eqn:L; [|discriminate]. apply lock_free_true in L.
        fin H. eapply St_w_done; eauto.
    - unfold main_step in H.
      destruct (forallb (@is_exit _) (workers s)) eqn:E1; [|discriminate].
      destruct (finish s) eqn:E2; [discriminate|].
      destruct (rd s) eqn:E3; try discriminate.
      fin H. apply St_m_finish; auto.
  Qed.


  (* ---- counting functions over worker continuations ---- *)
  Definition units_of (p : wpcs) : nat :=
    match p with
    | PRun (KCollect _) | PRun (KEncode _) | PRun (KSeq _ _) | PRun (KSeqFin _ _) | PRun (KTransmit _) => 1
    | _ => 0
    end.
  Definition in_of (p : wpcs) : nat :=
    match p with PRun (KCollect _) | PRun (KSeq _ (Some _)) => 1 | _ => 0 end.
  Definition out_of (p : wpcs) : nat := match p with PRun (KTransmit _) => 1 | _ => 0 end.
  Definition seq_of (p : wpcs) : nat := match p with PRun (KSeq _ _) | PRun (KSeqFin _ _) => 1 | _ => 0 end.
  Definition hold_of (p : wpcs) : nat := match p with PTop | PRun (KStart _) => 1 | _ => 0 end.
  Definition wait_of (p : wpcs) : nat := b2n (is_wait p).
  Definition rd_in (r : rpc cont) : nat := match r with RRead => 1 | _ => 0 end.
  Definition wr_out (w : spc cont (wblk Enc)) : nat := match w with SHold _ => 1 | _ => 0 end.

  Record Inv (s : state) : Prop := {
    i_bad : bad s = false;
    i_len : length (workers s) = nw s;
    i_hold : sumf hold_of (workers s) = b2n (is_some (lock s));
    i_lock : forall t, lock s = Some t -> exists i p, t = TW i /\ nth_error (workers s) i = Some p /\ hold_of p = 1;
    i_nt : next_task s = select s;
    i_units : work_units s + length (trans_q s) + sumf units_of (workers s) + b2n (is_some (unfinished s)) = nw s;
    i_in : in_slots s + length (coll_q s) + rd_in (rd s) + sumf in_of (workers s) = total_in (nw s);
    i_out : out_slots s + sumf out_of (workers s) + length (reord_q s) + length (output_q s) + wr_out (wr s)
            = total_out (nw s);
    i_ready : forall i t, nth_error (workers s) i = Some (PRun (KStart t)) -> ready s t = true;
    i_tok : sumf seq_of (workers s) = b2n (negb (collect_token s));
    i_unf : collect_token s = false -> unfinished s = None;
    i_wake : wakeups s <= sumf wait_of (workers s)
  }.
  Arguments i_bad {s} _.
  Arguments i_len {s} _.
  Arguments i_hold {s} _.
  Arguments i_lock {s} _.
  Arguments i_nt {s} _.
  Arguments i_units {s} _.
  Arguments i_in {s} _.
  Arguments i_out {s} _.
  Arguments i_ready {s} _.
  Arguments i_tok {s} _.
  Arguments i_unf {s} _.
  Arguments i_wake {s} _.

  Lemma nth_upd_cases (ws : list wpcs) i p' j q :
    nth_error (upd ws i p') j = Some q -> (j = i /\ q = p') \/ (j <> i /\ nth_error ws j = Some q).
  Proof.
    rewrite nth_error_upd. destruct (Nat.eqb_spec i j) as [->|N].
    - destruct (nth_error ws j); [|discriminate]. intros H; injection H as <-. auto.
    - intros H. right; split; auto.
  Qed.

  Lemma two_le_sum (f : wpcs -> nat) ws i j p q :
    nth_error ws i = Some p -> nth_error ws j = Some q -> i <> j -> f p + f q <= sumf f ws.
  Proof.
    intros Hi Hj N.
    destruct (nth_error_split_upd _ _ _ Hi) as (l1 & l2 & -> & <- & _).
    rewrite sumf_app, sumf_cons.
    destruct (Nat.lt_ge_cases j (length l1)) as [Lt|Ge].
    - rewrite nth_error_app1 in Hj by auto. pose proof (sumf_ge_nth f _ _ _ Hj). lia.
    - rewrite nth_error_app2 in Hj by auto.
      destruct (j - length l1) as [|k] eqn:E; [lia|]. cbn in Hj.
      pose proof (sumf_ge_nth f _ _ _ Hj). lia.
  Qed.

  Lemma no_holder (s : state) : Inv s -> lock s = None -> forall j p, nth_error (workers s) j = Some p -> hold_of p = 0.
  Proof.
    intros I L j p Hj. pose proof (i_hold I) as H. rewrite L in H. cbn in H.
    pose proof (sumf_ge_nth hold_of _ _ _ Hj). lia.
  Qed.

  Lemma only_holder (s : state) i p : Inv s -> lock s = Some (TW i) ->
    nth_error (workers s) i = Some p ->
    hold_of p = 1 /\ forall j q, nth_error (workers s) j = Some q -> j <> i -> hold_of q = 0.
  Proof.
    intros I L Hi. destruct (i_lock I _ L) as (i' & p' & E & Hi' & Hp). injection E as <-.
    rewrite Hi in Hi'. injection Hi' as <-. split; auto.
    intros j q Hj N. pose proof (i_hold I) as H. rewrite L in H. cbn in H.
    pose proof (two_le_sum hold_of _ _ _ _ _ Hi Hj (not_eq_sym N)). lia.
  Qed.

  Lemma select_ready (s : state) t : select s = Some t -> ready s t = true.
  Proof. unfold select, select_first. intros H. apply find_some in H. tauto. Qed.

  (* side conditions on the regenerated definitions, by computation *)
  Lemma cap_output_total n : cap_output n = total_out n.
  Proof. reflexivity. Qed.
  Lemma init_units n : init_work_units (total_in n) (total_out n) n = n.
  Proof. reflexivity. Qed.
  Lemma init_ins n : init_in_slots (total_in n) (total_out n) n = total_in n.
  Proof. reflexivity. Qed.
  Lemma init_outs n : init_out_slots (total_in n) (total_out n) n = total_out n.
  Proof. reflexivity. Qed.

  (* what the guards guarantee at the start of a task body *)
  Lemma ready_collect (s : state) : ready s T_collect = true -> coll_q s <> [] /\ 0 < work_units s.
  Proof.
    unfold ready, task_guard, can_collect. cbn [view g_ultra g_coll_q g_work_units].
    rewrite !andb_true_iff, Nat.ltb_lt. intros [[_ H] ?]. split; auto.
    destruct (coll_q s); [discriminate|congruence].
  Qed.

  Lemma ready_collect_seq (s : state) : ready s T_collect_seq = true ->
    (coll_q s <> [] \/ unfinished s <> None) /\ (0 < work_units s \/ unfinished s <> None).
  Proof.
    unfold ready, task_guard, can_collect_seq.
    cbn [view g_ultra g_coll_q g_work_units g_collect_token g_eof g_unfinished_work].
    rewrite !andb_true_iff, !orb_true_iff, Nat.ltb_lt, andb_true_iff. intros [[_ H1] H2]. split.
    - destruct H1 as [H1|[_ H1]]; [left|right].
      + destruct (coll_q s); [discriminate|congruence].
      + destruct (unfinished s); [congruence|discriminate].
    - destruct H2 as [H2|H2]; [left; auto|right]. destruct (unfinished s); [congruence|discriminate].
  Qed.

  Lemma ready_transmit (s : state) : ready s T_transmit = true -> trans_q s <> [] /\ 0 < out_slots s.
  Proof.
    unfold ready, task_guard, can_transmit. cbn [view g_trans_q g_out_slots g_order].
    rewrite !andb_true_iff, !orb_true_iff, andb_true_iff, !Nat.ltb_lt. intros [H1 H2]. split.
    - destruct (trans_q s); [discriminate|congruence].
    - destruct H2 as [H2|[H2 _]]; lia.
  Qed.

  Lemma ready_reorder (s : state) : ready s T_reorder = true -> reord_q s <> [].
  Proof.
    unfold ready, task_guard, can_reorder. cbn [view g_reord_q]. rewrite !andb_true_iff. intros [H1 _].
    destruct (reord_q s); [discriminate|congruence].
  Qed.


  Local Arguments select : simpl never.
  Local Arguments finished : simpl never.
  Local Arguments ready : simpl never.
  Local Arguments unlock_wakeups : simpl never.
  Local Arguments signal : simpl never.
  Local Arguments broadcast : simpl never.
  Local Arguments pq_insert : simpl never.
  Local Arguments upd : simpl never.
  Local Arguments sumf : simpl never.
  Local Arguments total_in : simpl never.
  Local Arguments total_out : simpl never.
  Local Arguments cap_output : simpl never.
  Local Arguments Nat.leb : simpl never.

  Lemma unlock_wakeups_le (s : state) :
    wakeups s <= sumf wait_of (workers s) -> unlock_wakeups s <= sumf wait_of (workers s).
  Proof.
    unfold unlock_wakeups, signal. rewrite n_waiting_sumf. fold wait_of.
    destruct (unlock_signal _ _); lia.
  Qed.

  Lemma broadcast_eq (ws : list wpcs) : broadcast ws = sumf wait_of ws.
  Proof. unfold broadcast. rewrite n_waiting_sumf. reflexivity. Qed.

  Ltac simp :=
    rewrite ?sched_unlock_eq, ?task_return_eq; unfold set_pc;
    cbn [nw ultra lvl lock next_task wakeups eof work_units in_slots out_slots coll_q trans_q reord_q order
         next_id collect_token unfinished workers rd input wr output_q written finish bad
         set_lock set_next_task set_wakeups set_eof set_work_units set_in_slots set_out_slots set_coll_q
         set_trans_q set_reord_q set_order set_next_id set_collect_token set_unfinished set_workers set_rd
         set_input set_wr set_output_q set_written set_finish set_bad].

  Ltac sums Hn p' :=
    pose proof (sumf_upd units_of _ _ _ p' Hn);
    pose proof (sumf_upd in_of _ _ _ p' Hn);
    pose proof (sumf_upd out_of _ _ _ p' Hn);
    pose proof (sumf_upd seq_of _ _ _ p' Hn);
    pose proof (sumf_upd hold_of _ _ _ p' Hn);
    pose proof (sumf_upd wait_of _ _ _ p' Hn).

  Lemma view_irrel_ready (s s' : state) :
    view s' = view s -> (forall j t, nth_error (workers s') j = Some (PRun (KStart t)) ->
                                     nth_error (workers s) j = Some (PRun (KStart t))) ->
    Inv s -> forall i t, nth_error (workers s') i = Some (PRun (KStart t)) -> ready s' t = true.
  Proof.
    intros V W I i t H. rewrite (ready_view s' s t V). eapply (i_ready I); eauto.
  Qed.

  Ltac arith :=
    rewrite ?upd_length, ?pq_insert_length, ?app_length, ?broadcast_eq;
    cbn [length hold_of units_of in_of out_of seq_of wait_of is_wait b2n is_some negb rd_in wr_out pred orb fst snd tl] in *;
    try lia.

  Ltac simp_in Z :=
    unfold set_pc in Z;
    cbn [nw ultra lvl lock next_task wakeups eof work_units in_slots out_slots coll_q trans_q reord_q order
         next_id collect_token unfinished workers rd input wr output_q written finish bad
         set_lock set_next_task set_wakeups set_eof set_work_units set_in_slots set_out_slots set_coll_q
         set_trans_q set_reord_q set_order set_next_id set_collect_token set_unfinished set_workers set_rd
         set_input set_wr set_output_q set_written set_finish set_bad] in Z.

  Ltac t_wake :=
    match goal with
    | |- unlock_wakeups ?X <= _ =>
        let Z := fresh in pose proof (unlock_wakeups_le X) as Z; simp_in Z; apply Z; lia
    end.

  Ltac t_lock_new :=
    let t0 := fresh "t0" in let Ht := fresh "Ht" in
    intros t0 Ht; injection Ht as <-; eexists _, _; split;
    [reflexivity|split; [eapply nth_error_upd_eq; eassumption|reflexivity]].

  Ltac t_nt Int := rewrite ?Int; apply select_view; reflexivity.

  (* the mutex was free before the step: nobody is at a task start *)
  Ltac t_ready_free I L :=
    let j := fresh "j" in let t0 := fresh "t0" in let Hj := fresh "Hj" in
    intros j t0 Hj; exfalso;
    first [ apply nth_upd_cases in Hj; destruct Hj as [[-> Hj]|[? Hj]];
            [discriminate Hj | let Z := fresh in pose proof (no_holder _ I L _ _ Hj) as Z; discriminate Z]
          | let Z := fresh in pose proof (no_holder _ I L _ _ Hj) as Z; discriminate Z ].

  (* the step is by the mutex holder i, whose new continuation is not a task start *)
  Ltac t_ready_holder I L Hi :=
    let j := fresh "j" in let t0 := fresh "t0" in let Hj := fresh "Hj" in
    intros j t0 Hj; exfalso;
    apply nth_upd_cases in Hj; destruct Hj as [[-> Hj]|[? Hj]];
    [discriminate Hj
    | let Z := fresh in destruct (only_holder _ _ _ I L Hi) as [_ Z]; specialize (Z _ _ Hj ltac:(assumption)); discriminate Z].

  (* the scheduler state is untouched and no worker moves to a task start *)
  Ltac t_ready_same I s :=
    let j := fresh "j" in let t0 := fresh "t0" in let Hj := fresh "Hj" in
    intros j t0 Hj;
    match goal with |- ready ?X _ = true => rewrite (ready_view X s t0 eq_refl) end;
    apply (i_ready I j);
    first [ exact Hj
          | apply nth_upd_cases in Hj; destruct Hj as [[-> Hj]|[? Hj]]; [discriminate Hj|exact Hj] ].

  Ltac t_lock_same I Hi :=
    let t0 := fresh "t0" in let Ht := fresh "Ht" in
    intros t0 Ht; destruct (i_lock I _ Ht) as (i0 & p0 & -> & Hi0 & Hp0);
    exists i0, p0; split; [reflexivity|split; [|exact Hp0]];
    first [ exact Hi0
          | rewrite nth_error_upd_neq; [exact Hi0|];
            intros ->; rewrite Hi in Hi0; injection Hi0 as <-; discriminate Hp0 ].

  Lemma dec_ok x y b : dec_or_bad x = (y, b) -> 0 < x -> x = S y /\ b = false.
  Proof. destruct x; cbn; intros H L; [lia|]. injection H as <- <-. auto. Qed.

  Lemma inv_step s e s' : Inv s -> step s e = Some s' -> Inv s'.
  Proof.
    intros I H. apply step_Step in H.
    pose proof (i_bad I) as Ibad. pose proof (i_len I) as Ilen. pose proof (i_hold I) as Ihold.
    pose proof (i_units I) as Iunits. pose proof (i_in I) as Iin. pose proof (i_out I) as Iout.
    pose proof (i_tok I) as Itok. pose proof (i_wake I) as Iwake. pose proof (i_nt I) as Int.
    pose proof (i_unf I) as Iunf.
    destruct H as [i Hi L|i Hi L|i t Hi L Hn|i Hi L Hn Hf|i Hi L Hn Hf
                  |i Hi L Hq|i ib q wu b Hi L Hq Hd|i wub b2 Hi L Hw Hb|i Hi L Hq|i wb q os b Hi L Hq Hd
                  |i Hi L Hq|i wb q Hi L Hq
                  |i ib e d f Hi L Hc Hl|i ib e d f Hi Hc Hl|i wb Hi L
                  |i wbo ib wb0 e d f Hi L Hw Hc Hl|i wbo ib wb0 e d f Hi Hw Hc Hl|i wb Hi L
                  |i wb Hi L|i wb Hi L|i wb Hi L
                  |m Hr Hs|Hr Hin|d rest Hr Hin Hl L|Hr L|wb q Hw Hq|Hw Hq Hf|wb Hw L|Hall Hf Hr].
    - (* new *)
      sums Hi (@PTop cont). pose proof (no_holder _ I L _ _ Hi). rewrite L in *.
      constructor; simp; rewrite ?L; arith; auto.
      all: try solve [ t_lock_new ].
      all: try solve [ t_nt Int ].
      all: try solve [ t_ready_free I L ].
    - (* wake *)
      sums Hi (@PTop cont). rewrite L in *.
      constructor; simp; rewrite ?L; arith; auto.
      all: try solve [ t_lock_new ].
      all: try solve [ t_nt Int ].
      all: try solve [ t_ready_free I L ].
    - (* S *)
      sums Hi (PRun (@KStart Data Enc t)). rewrite L in *.
      constructor; simp; rewrite ?L; arith; auto.
      all: try solve [ t_lock_new ].
      all: try solve [ t_nt Int ].
      all: try solve [ intros j t0 Hj; apply nth_upd_cases in Hj; destruct Hj as [[-> Hj]|[N Hj]];
                       [ injection Hj as ->; match goal with |- ready ?X _ = true => rewrite (ready_view X s t eq_refl) end; apply select_ready; congruence
                       | exfalso; destruct (only_holder _ _ _ I L Hi) as [_ Z]; specialize (Z _ _ Hj N); discriminate Z ] ].
    - (* X *)
      sums Hi (@PExit cont). rewrite L in *.
      constructor; simp; rewrite ?L; arith; auto.
      all: try solve [ discriminate ].
      all: try solve [ t_nt Int ].
      all: try solve [ t_ready_holder I L Hi ].
    - (* W *)
      sums Hi (@PWait cont). rewrite L in *.
      constructor; simp; rewrite ?L; arith; auto.
      all: try solve [ discriminate ].
      all: try solve [ t_nt Int ].
      all: try solve [ t_ready_holder I L Hi ].
    - (* collect0 bad *)
      exfalso. pose proof (i_ready I _ _ Hi) as R. apply ready_collect in R. tauto.
    - (* collect0 *)
      pose proof (i_ready I _ _ Hi) as R. apply ready_collect in R. destruct R as [_ R].
      destruct (dec_ok _ _ _ Hd R) as [Ew ->].
      sums Hi (PRun (@KCollect Data Enc ib)). rewrite L, Hq, Ew in *.
      constructor; simp; rewrite ?L; arith; auto.
      all: try solve [ rewrite Ibad; reflexivity ].
      all: try solve [ discriminate ].
      all: try solve [ t_nt Int ].
      all: try solve [ t_ready_holder I L Hi ].
      all: try solve [ t_wake ].
    - (* seq0 *)
      pose proof (i_ready I _ _ Hi) as R. apply ready_collect_seq in R. destruct R as [R1 R2].
      sums Hi (PRun (@KSeq Data Enc (unfinished s) (match coll_q s with [] => None | ib :: _ => Some ib end))).
      assert (Etok : collect_token s = true).
      { destruct (collect_token s) eqn:E; auto. exfalso.
        (* token false: a collector is running, but the guard requires the token *)
        pose proof (i_ready I _ _ Hi) as R. unfold ready, task_guard, can_collect_seq in R.
        cbn [view g_collect_token] in R. rewrite E in R. rewrite !andb_false_r in R. cbn in R.
        repeat (rewrite ?andb_false_r, ?andb_false_l in R; cbn in R). discriminate R. }
      rewrite L, Etok in *.
      assert (Eb : snd wub || b2 = false /\
                   fst wub + 1 = work_units s + b2n (is_some (unfinished s))).
      { subst wub b2. destruct (unfinished s) as [u|] eqn:Eu; cbn.
        - split; [reflexivity|lia].
        - destruct R2 as [R2|R2]; [|congruence]. destruct R1 as [R1|R1]; [|congruence].
          destruct (work_units s) as [|w] eqn:Ew; [lia|]. cbn.
          destruct (coll_q s); [congruence|]. split; [reflexivity|lia]. }
      destruct Eb as (Eb & Eu1). rewrite Eb.
      constructor; simp; rewrite ?L; arith; auto.
      all: try solve [ rewrite Ibad; reflexivity ].
      all: try solve [ discriminate ].
      all: try solve [ t_nt Int ].
      all: try solve [ destruct (coll_q s) as [|ib q]; cbn [tl length in_of] in *; lia ].
      all: try solve [ t_ready_holder I L Hi ].
      all: try solve [ t_wake ].
    - (* transmit0 bad *)
      exfalso. pose proof (i_ready I _ _ Hi) as R. apply ready_transmit in R. tauto.
    - (* transmit0 *)
      pose proof (i_ready I _ _ Hi) as R. apply ready_transmit in R. destruct R as [_ R].
      destruct (dec_ok _ _ _ Hd R) as [Ew ->].
      sums Hi (PRun (@KTransmit Data Enc wb)). rewrite L, Hq, Ew in *.
      constructor; simp; rewrite ?L; arith; auto.
      all: try solve [ rewrite Ibad; reflexivity ].
      all: try solve [ discriminate ].
      all: try solve [ t_nt Int ].
      all: try solve [ t_ready_holder I L Hi ].
      all: try solve [ t_wake ].
    - (* reorder bad *)
      exfalso. pose proof (i_ready I _ _ Hi) as R. apply ready_reorder in R. tauto.
    - (* reorder *)
      sums Hi (@PTop cont). rewrite L, Hq in *.
      constructor; simp; rewrite ?L; arith; auto.
      all: try solve [ rewrite Ibad; cbn; apply Nat.leb_gt; rewrite cap_output_total; lia ].
      all: try solve [ t_lock_new ].
      all: try solve [ t_nt Int ].
      all: try solve [ t_ready_holder I L Hi ].
    - (* collect requeue *)
      sums Hi (PRun (@KEncode Data Enc (mkwblk (ib_pos ib) (pos_minor_succ (ib_pos ib)) e))). rewrite L in *.
      constructor; simp; rewrite ?L; arith; auto.
      all: try solve [ discriminate ].
      all: try solve [ t_nt Int ].
      all: try solve [ t_ready_free I L ].
      all: try solve [ t_wake ].
    - (* collect release *)
      sums Hi (PRun (@KEncode Data Enc (mkwblk (ib_pos ib) (pos_major_succ (ib_pos ib)) e))).
      constructor; simp; arith; auto.
      all: try solve [ t_lock_same I Hi ].
      all: try solve [ t_nt Int ].
      all: try solve [ t_ready_same I s ].
    - (* encode *)
      sums Hi (@PTop cont). rewrite L in *.
      constructor; simp; rewrite ?L; arith; auto.
      all: try solve [ t_lock_new ].
      all: try solve [ t_nt Int ].
      all: try solve [ t_ready_free I L ].
    - (* seq requeue *)
      sums Hi (PRun (@KSeqFin Data Enc (mkwblk (wb_pos wb0) (pos_minor_succ (wb_next wb0)) e) f)). rewrite L in *.
      constructor; simp; rewrite ?L; arith; auto.
      all: try solve [ discriminate ].
      all: try solve [ t_nt Int ].
      all: try solve [ t_ready_free I L ].
      all: try solve [ t_wake ].
    - (* seq release *)
      sums Hi (PRun (@KSeqFin Data Enc (mkwblk (wb_pos wb0) (pos_major_succ (wb_next wb0)) e) f)).
      constructor; simp; arith; auto.
      all: try solve [ t_lock_same I Hi ].
      all: try solve [ t_nt Int ].
      all: try solve [ t_ready_same I s ].
    - (* seq flush *)
      sums Hi (PRun (@KEncode Data Enc wb)). rewrite L in *.
      assert (Et : collect_token s = false).
      { destruct (collect_token s); auto. pose proof (sumf_ge_nth seq_of _ _ _ Hi). cbn in *. lia. }
      rewrite Et in *.
      constructor; simp; rewrite ?L; arith; auto.
      all: try solve [ discriminate ].
      all: try solve [ t_nt Int ].
      all: try solve [ t_ready_free I L ].
      all: try solve [ discriminate ].
      all: try solve [ t_wake ].
    - (* seqfin done *)
      sums Hi (PRun (@KEncode Data Enc wb)). rewrite L in *.
      assert (Et : collect_token s = false).
      { destruct (collect_token s); auto. pose proof (sumf_ge_nth seq_of _ _ _ Hi). cbn in *. lia. }
      rewrite Et in *.
      constructor; simp; rewrite ?L; arith; auto.
      all: try solve [ discriminate ].
      all: try solve [ t_nt Int ].
      all: try solve [ t_ready_free I L ].
      all: try solve [ discriminate ].
      all: try solve [ t_wake ].
    - (* seqfin more *)
      sums Hi (@PTop cont). rewrite L in *.
      assert (Et : collect_token s = false).
      { destruct (collect_token s); auto. pose proof (sumf_ge_nth seq_of _ _ _ Hi). cbn in *. lia. }
      rewrite Et in *. rewrite (Iunf eq_refl) in *.
      constructor; simp; rewrite ?L; arith; auto.
      all: try solve [ t_lock_new ].
      all: try solve [ t_nt Int ].
      all: try solve [ t_ready_free I L ].
      all: try solve [ discriminate ].
    - (* transmit1 *)
      sums Hi (@PTop cont). rewrite L in *.
      constructor; simp; rewrite ?L; arith; auto.
      all: try solve [ t_lock_new ].
      all: try solve [ t_nt Int ].
      all: try solve [ t_ready_free I L ].
    - (* reader take *)
      rewrite Hr, Hs in *.
      constructor; simp; arith; auto.
      all: try solve [ exact (i_lock I) ].
      all: try solve [ t_nt Int ].
      all: try solve [ t_ready_same I s ].
    - (* reader empty *)
      rewrite Hr in *.
      constructor; simp; arith; auto.
      all: try solve [ exact (i_lock I) ].
      all: try solve [ t_nt Int ].
      all: try solve [ t_ready_same I s ].
    - (* reader deliver *)
      rewrite Hr, L in *.
      constructor; simp; rewrite ?L; arith; auto.
      all: try solve [ discriminate ].
      all: try solve [ t_nt Int ].
      all: try solve [ destruct (data_len d <? in_granul (lvl s))%N; cbn [rd_in]; lia ].
      all: try solve [ t_ready_free I L ].
      all: try solve [ t_wake ].
    - (* reader eof *)
      rewrite Hr, L in *.
      constructor; simp; rewrite ?L; arith; auto.
      all: try solve [ discriminate ].
      all: try solve [ t_nt Int ].
      all: try solve [ t_ready_free I L ].
      all: try solve [ t_wake ].
    - (* writer take *)
      rewrite Hw, Hq in *.
      constructor; simp; arith; auto.
      all: try solve [ exact (i_lock I) ].
      all: try solve [ t_nt Int ].
      all: try solve [ t_ready_same I s ].
    - (* writer exit *)
      rewrite Hw in *.
      constructor; simp; arith; auto.
      all: try solve [ exact (i_lock I) ].
      all: try solve [ t_nt Int ].
      all: try solve [ t_ready_same I s ].
    - (* writer done *)
      rewrite Hw, L in *.
      constructor; simp; rewrite ?L; arith; auto.
      all: try solve [ discriminate ].
      all: try solve [ t_nt Int ].
      all: try solve [ t_ready_free I L ].
      all: try solve [ t_wake ].
    - (* main finish *)
      constructor; simp; arith; auto.
      all: try solve [ exact (i_lock I) ].
      all: try solve [ t_nt Int ].
      all: try solve [ t_ready_same I s ].
  Qed.

  Lemma inv_init n u l inp : Inv (@init Data Enc n u l inp).
  Proof.
    unfold init. set (s0 := @init0 Data Enc n u l inp).
    constructor; cbn [nw ultra lvl lock next_task wakeups eof work_units in_slots out_slots coll_q trans_q reord_q
                      order next_id collect_token unfinished workers rd input wr output_q written finish bad
                      set_next_task s0 init0].
    - reflexivity.
    - apply repeat_length.
    - rewrite sumf_repeat. cbn. lia.
    - discriminate.
    - apply select_view. reflexivity.
    - rewrite sumf_repeat, init_units. cbn. lia.
    - rewrite sumf_repeat, init_ins. cbn. lia.
    - rewrite sumf_repeat, init_outs. cbn. lia.
    - intros i t H. apply nth_error_In in H. apply repeat_spec in H. discriminate.
    - rewrite sumf_repeat. cbn. lia.
    - discriminate.
    - lia.
  Qed.

  Notation Reach := (Reach data_len enc_empty collect).

  Lemma reach_inv s0 s : Inv s0 -> Reach s0 s -> Inv s.
  Proof. intros I0 R. induction R; auto. eapply inv_step; eauto. Qed.

  (* ---- what a terminated scheduler looks like ---- *)
  Lemma finished_facts (s : state) : Inv s -> finished s = true ->
    eof s = true /\ coll_q s = [] /\ work_units s = nw s /\ out_slots s = total_out (nw s) /\
    trans_q s = [] /\ reord_q s = [] /\ output_q s = [] /\ unfinished s = None /\ wr_out (wr s) = 0 /\
    sumf units_of (workers s) = 0 /\ sumf out_of (workers s) = 0.
  Proof.
    intros I F. unfold finished, can_terminate in F.
    cbn [view g_eof g_coll_q g_work_units g_num_worker g_out_slots g_total_out_slots] in F.
    rewrite !andb_true_iff, !Nat.eqb_eq in F. destruct F as [[[F1 F2] F3] F4].
    pose proof (i_units I). pose proof (i_out I).
    assert (coll_q s = []) by (destruct (coll_q s); [auto|discriminate]).
    assert (length (trans_q s) = 0) by lia. assert (length (reord_q s) = 0) by lia.
    assert (length (output_q s) = 0) by lia.
    repeat split; auto; try lia.
    - destruct (trans_q s); [auto|discriminate].
    - destruct (reord_q s); [auto|discriminate].
    - destruct (output_q s); [auto|discriminate].
    - destruct (unfinished s); [cbn in *; lia|auto].
  Qed.

  Lemma finished_not_ready (s : state) t : Inv s -> finished s = true -> ready s t = false.
  Proof.
    intros I F. destruct (finished_facts _ I F) as (E & C & W & O & T & R & Q & U & _).
    destruct (ready s t) eqn:Rd; auto. exfalso. destruct t.
    - apply ready_collect in Rd. tauto.
    - apply ready_collect_seq in Rd. tauto.
    - apply ready_transmit in Rd. tauto.
    - apply ready_reorder in Rd. tauto.
  Qed.

  Definition rd_done (r : rpc cont) : bool := match r with RDone => true | _ => false end.
  Definition wr_done (w : spc cont (wblk Enc)) : bool := match w with SDone => true | _ => false end.

  Record Inv2 (s : state) : Prop := {
    j_eof : eof s = rd_done (rd s);
    j_exit : forall i, nth_error (workers s) i = Some PExit -> finished s = true;
    j_wr : wr_done (wr s) = true -> finish s = true /\ output_q s = [];
    j_finish : finish s = true -> forallb (@is_exit _) (workers s) = true
  }.
  Arguments j_eof {s} _. Arguments j_exit {s} _. Arguments j_wr {s} _. Arguments j_finish {s} _.

  Lemma units_zero_pc (s : state) i p : sumf units_of (workers s) = 0 -> nth_error (workers s) i = Some p ->
    units_of p = 0.
  Proof. intros Z H. pose proof (sumf_ge_nth units_of _ _ _ H). lia. Qed.

  Lemma inv2_step s e s' : Inv s -> Inv2 s -> step s e = Some s' -> Inv2 s'.
  Proof.
    intros I J H. pose proof (inv_step _ _ _ I H) as I'. apply step_Step in H.
    pose proof (j_eof J) as Jeof. pose proof (j_wr J) as Jwr. pose proof (j_finish J) as Jfin.
    (* a step taken while some worker has exited does not change what the guards see *)
    assert (Hexit : forall j, nth_error (workers s) j = Some PExit ->
                       view s' = view s -> finished s' = true).
    { intros j Hj V. rewrite (finished_view _ _ V). eapply (j_exit J); eauto. }
    assert (Hfin : forall j, nth_error (workers s) j = Some PExit ->
                     sumf units_of (workers s) = 0 /\ wr_out (wr s) = 0 /\ eof s = true /\
                     (forall t, ready s t = false)).
    { intros j Hj. pose proof (j_exit J _ Hj) as F. destruct (finished_facts _ I F) as (E & _ & _ & _ & _ & _ & _ & _ & W & U & _).
      repeat split; auto. intros t. apply finished_not_ready; auto. }
    destruct H as [i Hi L|i Hi L|i t Hi L Hn|i Hi L Hn Hf|i Hi L Hn Hf
                  |i Hi L Hq|i ib q wu b Hi L Hq Hd|i wub b2 Hi L Hw Hb|i Hi L Hq|i wb q os b Hi L Hq Hd
                  |i Hi L Hq|i wb q Hi L Hq
                  |i ib e d f Hi L Hc Hl|i ib e d f Hi Hc Hl|i wb Hi L
                  |i wbo ib wb0 e d f Hi L Hw Hc Hl|i wbo ib wb0 e d f Hi Hw Hc Hl|i wb Hi L
                  |i wb Hi L|i wb Hi L|i wb Hi L
                  |m Hr Hs|Hr Hin|d rest Hr Hin Hl L|Hr L|wb q Hw Hq|Hw Hq Hf|wb Hw L|Hall Hf Hr].
    all: constructor; simp; auto.
    (* j_finish: a worker that moves has not exited *)
    all: try solve [
      let F := fresh "F" in intros F; exfalso; specialize (Jfin F); rewrite forallb_nth in Jfin;
      specialize (Jfin _ _ Hi); discriminate Jfin ].
    (* j_wr while a worker is still active *)
    all: try solve [
      let F := fresh "F" in intros F; exfalso; destruct (Jwr F) as [F2 _]; specialize (Jfin F2);
      rewrite forallb_nth in Jfin; specialize (Jfin _ _ Hi); discriminate Jfin ].
    (* j_exit *)
    all: try solve [
      let j := fresh "j" in let Hj := fresh "Hj" in
      intros j Hj;
      first [ apply nth_upd_cases in Hj; destruct Hj as [[-> Hj]|[? Hj]];
              [ first [ discriminate Hj
                      | match goal with |- finished ?X = true => rewrite (finished_view X s eq_refl) end; assumption ]
              | ]
            | idtac ];
      first [ match goal with |- finished ?X = true => rewrite (finished_view X s eq_refl) end;
              eapply (j_exit J); eassumption
            | exfalso; destruct (Hfin _ Hj) as (U & W & E & R);
              first [ pose proof (i_ready I _ _ Hi) as Z; rewrite R in Z; discriminate Z
                    | pose proof (units_zero_pc _ _ _ U Hi) as Z; discriminate Z
                    | rewrite Jeof, Hr in E; discriminate E
                    | rewrite Hw in W; discriminate W ] ] ].
    all: try solve [ rewrite Jeof, Hr; reflexivity | rewrite Hr; assumption ].
    - rewrite Jeof, Hr. destruct (data_len d <? in_granul (lvl s))%N; reflexivity.
    - discriminate.
    - discriminate.
    - intros F. destruct (Jwr F); auto.
  Qed.

  Lemma inv2_init n u l inp : Inv2 (@init Data Enc n u l inp).
  Proof.
    constructor; cbn.
    - reflexivity.
    - intros i H. apply nth_error_In in H. apply repeat_spec in H. discriminate.
    - discriminate.
    - discriminate.
  Qed.

  Lemma reach_inv2 s0 s : Inv s0 -> Inv2 s0 -> Reach s0 s -> Inv s /\ Inv2 s.
  Proof.
    intros I0 J0 R. induction R; auto. destruct IHR as [I J]. split.
    - eapply inv_step; eauto.
    - eapply inv2_step; eauto.
  Qed.

  (* C11_final: a terminal state has returned everything *)
  Lemma final_returns_all (s : state) : Inv s -> Inv2 s -> 0 < nw s -> final s = true ->
    work_units s = nw s /\ in_slots s = total_in (nw s) /\ out_slots s = total_out (nw s) /\
    coll_q s = [] /\ trans_q s = [] /\ reord_q s = [] /\ output_q s = [] /\ unfinished s = None /\
    collect_token s = true /\ eof s = true /\ bad s = false.
  Proof.
    intros I J N F. unfold final in F. rewrite !andb_true_iff in F. destruct F as [[F1 F2] F3].
    rewrite forallb_nth in F1.
    assert (exists p, nth_error (workers s) 0 = Some p) as [p Hp].
    { destruct (workers s) eqn:E; [|eexists; reflexivity]. pose proof (i_len I) as L. rewrite E in L. cbn in L. lia. }
    pose proof (F1 _ _ Hp) as Ep. destruct p; try discriminate.
    pose proof (j_exit J _ Hp) as Fin.
    destruct (finished_facts _ I Fin) as (E & C & W & O & T & R & Q & U & Wo & Us & _).
    assert (Z : forall f, (forall p, is_exit p = true -> f p = 0) -> sumf f (workers s) = 0).
    { intros f Hf. apply sumf_all_zero. intros x Hx. apply Hf. destruct (In_nth_error _ _ Hx) as [k Hk]. eauto. }
    pose proof (i_in I) as Iin. rewrite C in Iin. cbn [length] in Iin.
    rewrite (Z in_of) in Iin by (intros q Hq; destruct q; try discriminate; reflexivity).
    destruct (rd s); try discriminate. cbn [rd_in] in Iin.
    pose proof (i_tok I) as Itok. rewrite (Z seq_of) in Itok by (intros q Hq; destruct q; try discriminate; reflexivity).
    repeat split; auto; try lia.
    - destruct (collect_token s); [auto|cbn in Itok; lia].
    - apply (i_bad I).
  Qed.


  Lemma rr_round_reach s0 order s : Reach s0 s -> Reach s0 (rr_round data_len enc_empty collect order s).
  Proof.
    revert s. unfold rr_round. induction order as [|e o IH]; intros s R; cbn; auto.
    apply IH. destruct (step s e) eqn:E; auto. econstructor; eauto.
  Qed.

  Lemma rr_reach s0 fuel order s : Reach s0 s -> Reach s0 (rr data_len enc_empty collect fuel order s).
  Proof. revert s. induction fuel; intros s R; cbn; auto. apply IHfuel. apply rr_round_reach; auto. Qed.

  (* ---- the statements used by Properties_C11 ---- *)
  Set Implicit Arguments.
  Definition reachable (n : nat) (u : bool) (l : N) (inp : list Data) (s : state) : Prop :=
    Reach (@init Data Enc n u l inp) s.

  Lemma reachable_inv n u l inp s : reachable n u l inp s -> Inv s /\ Inv2 s /\ nw s = n.
  Proof.
    intros R. destruct (reach_inv2 _ _ (inv_init n u l inp) (inv2_init n u l inp) R) as [I J].
    split; [exact I|split; [exact J|]]. clear I J. induction R.
    - reflexivity.
    - rewrite <- IHR. apply step_Step in H. destruct H; simp; reflexivity.
  Qed.

  Definition units_held (s : state) : nat :=
    length (trans_q s) + sumf units_of (workers s) + b2n (is_some (unfinished s)).
  Definition in_held (s : state) : nat :=
    length (coll_q s) + rd_in (rd s) + sumf in_of (workers s).
  Definition out_held (s : state) : nat :=
    sumf out_of (workers s) + length (reord_q s) + length (output_q s) + wr_out (wr s).

  Lemma c11_conserve n u l inp s : reachable n u l inp s ->
    work_units s + units_held s = n /\ in_slots s + in_held s = total_in n /\ out_slots s + out_held s = total_out n.
  Proof.
    intros R. destruct (reachable_inv R) as (I & _ & <-). unfold units_held, in_held, out_held.
    pose proof (i_units I). pose proof (i_in I). pose proof (i_out I). lia.
  Qed.

  Lemma c11_capacity n u l inp s : reachable n u l inp s ->
    length (coll_q s) <= cap_coll n /\ length (trans_q s) <= cap_trans n /\
    length (reord_q s) <= cap_reord n /\ length (output_q s) <= cap_output n /\
    work_units s <= n /\ in_slots s <= total_in n /\ out_slots s <= total_out n.
  Proof.
    intros R. destruct (c11_conserve R) as (A & B & C). unfold units_held, in_held, out_held in *.
    change (cap_coll n) with (total_in n). change (cap_trans n) with n.
    change (cap_reord n) with (total_out n). change (cap_output n) with (total_out n).
    repeat split; lia.
  Qed.

  Lemma c11_no_ub n u l inp s : reachable n u l inp s -> bad s = false.
  Proof. intros R. destruct (reachable_inv R) as (I & _). apply (i_bad I). Qed.

  Lemma c11_final n u l inp s : 1 <= n -> reachable n u l inp s -> final s = true ->
    work_units s = n /\ in_slots s = total_in n /\ out_slots s = total_out n /\
    coll_q s = [] /\ trans_q s = [] /\ reord_q s = [] /\ output_q s = [] /\ unfinished s = None /\
    collect_token s = true /\ eof s = true.
  Proof.
    intros N R F. destruct (reachable_inv R) as (I & J & E). subst n.
    destruct (final_returns_all _ I J N F) as (A & B & C & D & E & G & H & K & L & M & _).
    repeat split; auto.
  Qed.

End Inv.

Arguments i_bad {Data Enc s} _.
Arguments i_len {Data Enc s} _.
Arguments i_hold {Data Enc s} _.
Arguments i_lock {Data Enc s} _.
Arguments i_nt {Data Enc s} _.
Arguments i_units {Data Enc s} _.
Arguments i_in {Data Enc s} _.
Arguments i_out {Data Enc s} _.
Arguments i_ready {Data Enc s} _.
Arguments i_tok {Data Enc s} _.
Arguments i_unf {Data Enc s} _.
Arguments i_wake {Data Enc s} _.
Arguments j_eof {Data Enc s} _.
Arguments j_exit {Data Enc s} _.
Arguments j_wr {Data Enc s} _.
Arguments j_finish {Data Enc s} _.
