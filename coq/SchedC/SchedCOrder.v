(* Order preservation of the compression scheduler (default mode): the live
   items tile the stream from [order] to the next chunk, the blocks handed to the
   writer are the chain from 0.0 to [order]. *)
From Coq Require Import List NArith Arith Bool Lia Permutation Sorted.
From LBZ Require Import SchedC.SchedCIface Gen.SchedCTab SchedC.Pool SchedC.PoolLemmas SchedC.SchedC SchedC.SchedCInv
  SchedC.Tiling.
Import ListNotations.

Section Order.
  Variable Data : Type.
  Variable Enc : Type.
  Variable data_len : Data -> N.
  Variable enc_empty : Enc.
  Variable collect : Enc -> Data -> Enc * Data * bool.

  Notation state := (state Data Enc).
  Notation cont := (cont Data Enc).
  Notation wpcs := (wpc cont).
  Notation step := (step data_len enc_empty collect).
  Notation Step := (Step data_len enc_empty collect).
  Notation Inv := (@Inv Data Enc).
  Notation seq_of := (@seq_of Data Enc).

  Definition iv_ib (ib : iblk Data) : ival := (ib_pos ib, pos_major_succ (ib_pos ib)).
  Definition iv_wb (wb : wblk Enc) : ival := (wb_pos wb, wb_next wb).
  Definition opt_wb (o : option (wblk Enc)) : list ival := match o with Some wb => [iv_wb wb] | None => [] end.
  Definition opt_ib (o : option (iblk Data)) : list ival := match o with Some ib => [iv_ib ib] | None => [] end.

  Definition items_pc (p : wpcs) : list ival :=
    match p with
    | PRun (KCollect ib) => [iv_ib ib]
    | PRun (KEncode wb) | PRun (KTransmit wb) | PRun (KSeqFin wb _) => [iv_wb wb]
    | PRun (KSeq wbo ibo) => opt_wb wbo ++ opt_ib ibo
    | _ => []
    end.

  Definition items (s : state) : list ival :=
    map iv_ib (coll_q s) ++ map iv_wb (trans_q s) ++ map iv_wb (reord_q s) ++ opt_wb (unfinished s) ++
    flat_map items_pc (workers s).

  Definition handed (s : state) : list (wblk Enc) := written s ++ output_q s.

  Lemma cnt_flat_upd (ws : list wpcs) i p p' x : nth_error ws i = Some p ->
    cnt x (flat_map items_pc (upd ws i p')) + cnt x (items_pc p) = cnt x (flat_map items_pc ws) + cnt x (items_pc p').
  Proof.
    intros H. destruct (nth_error_split_upd _ _ _ H) as (l1 & l2 & -> & _ & U). rewrite U.
    rewrite !flat_map_app. cbn [flat_map]. rewrite !cnt_app. lia.
  Qed.

  Lemma cnt_map_insert {A} (f : A -> ival) (key : A -> pos) y q x :
    cnt x (map f (pq_insert key y q)) = cnt x [f y] + cnt x (map f q).
  Proof.
    unfold cnt.
    assert (P : Permutation (map f (pq_insert key y q)) (map f (y :: q))) by (apply Permutation_map, pq_insert_perm).
    rewrite (proj1 (Permutation_count_occ ival_dec _ _) P x).
    cbn [map]. change (f y :: map f q) with ([f y] ++ map f q). apply count_occ_app.
  Qed.

  Record OInv (s : state) : Prop := {
    o_ultra : ultra s = false;
    o_tok : collect_token s = true;
    o_unf : unfinished s = None;
    o_tile : Tiling (order s) (items s) (mkpos (next_id s) 0);
    o_hand : chain pos0 (map iv_wb (handed s)) (order s)
  }.
  Arguments o_ultra {s} _. Arguments o_tok {s} _. Arguments o_unf {s} _. Arguments o_tile {s} _. Arguments o_hand {s} _.

  Lemma ready_reorder_pos (s : state) wb q : ready s T_reorder = true -> reord_q s = wb :: q -> wb_pos wb = order s.
  Proof.
    unfold ready, task_guard, can_reorder. cbn [view g_reord_q g_order]. intros H E. rewrite E in H.
    cbn [map peek_pos hd] in H. apply andb_true_iff in H. destruct H as [_ H]. apply pos_eq_spec; auto.
  Qed.

  Lemma ready_seq_ultra (s : state) : ready s T_collect_seq = true -> ultra s = true.
  Proof.
    unfold ready, task_guard, can_collect_seq. cbn [view g_ultra]. rewrite !andb_true_iff. tauto.
  Qed.

  Lemma noseq (s : state) i p : Inv s -> collect_token s = true -> nth_error (workers s) i = Some p -> seq_of p = 0.
  Proof.
    intros I T H. pose proof (i_tok I) as E. rewrite T in E. cbn in E.
    pose proof (sumf_ge_nth seq_of _ _ _ H). lia.
  Qed.

  Local Arguments select : simpl never.
  Local Arguments finished : simpl never.
  Local Arguments ready : simpl never.
  Local Arguments unlock_wakeups : simpl never.
  Local Arguments signal : simpl never.
  Local Arguments broadcast : simpl never.
  Local Arguments pq_insert : simpl never.
  Local Arguments upd : simpl never.
  Local Arguments cnt : simpl never.
  Local Arguments cap_output : simpl never.

  Ltac simp :=
    rewrite ?sched_unlock_eq, ?task_return_eq; unfold set_pc;
    cbn [nw ultra lvl lock next_task wakeups eof work_units in_slots out_slots coll_q trans_q reord_q order
         next_id collect_token unfinished workers rd input wr output_q written finish bad
         set_lock set_next_task set_wakeups set_eof set_work_units set_in_slots set_out_slots set_coll_q
         set_trans_q set_reord_q set_order set_next_id set_collect_token set_unfinished set_workers set_rd
         set_input set_wr set_output_q set_written set_finish set_bad].

  (* counting form of [items] *)
  Ltac cnt_items :=
    unfold items; simp;
    repeat rewrite ?cnt_app, ?cnt_map_insert, ?cnt_cons, ?cnt_nil, ?map_cons;
    cbn [map opt_wb opt_ib items_pc app iv_wb iv_ib wb_pos wb_next ib_pos].

  Ltac cnt_norm := unfold iv_ib, iv_wb, pos_major_succ, pos_minor_succ; cbn [wb_pos wb_next ib_pos major minor].

  Lemma oinv_step s e s' : Inv s -> OInv s -> step s e = Some s' -> OInv s'.
  Proof.
    intros I O H. apply step_Step in H.
    pose proof (o_ultra O) as Ou. pose proof (o_tok O) as Ot. pose proof (o_unf O) as Of.
    pose proof (o_tile O) as Otile. pose proof (o_hand O) as Oh.
    destruct H as [i Hi L|i Hi L|i t Hi L Hn|i Hi L Hn Hf|i Hi L Hn Hf
                  |i Hi L Hq|i ib q wu b Hi L Hq Hd|i wub b2 Hi L Hw Hb|i Hi L Hq|i wb q os b Hi L Hq Hd
                  |i Hi L Hq|i wb q Hi L Hq
                  |i ib e d f Hi L Hc Hl|i ib e d f Hi Hc Hl|i wb Hi L
                  |i wbo ib wb0 e d f Hi L Hw Hc Hl|i wbo ib wb0 e d f Hi Hw Hc Hl|i wb Hi L
                  |i wb Hi L|i wb Hi L|i wb Hi L
                  |m Hr Hs|Hr Hin|d rest Hr Hin Hl L|Hr L|wb q Hw Hq|Hw Hq Hf|wb Hw L|Hall Hf Hr].
    (* collect_seq cannot start or run in default mode *)
    8: { exfalso. pose proof (i_ready I _ _ Hi) as R. apply ready_seq_ultra in R. congruence. }
    15-19: (exfalso; pose proof (noseq _ _ _ I Ot Hi) as Z; discriminate Z).
    (* steps that only move items between containers, or do not touch them *)
    all: constructor; simp; auto.
    all: try solve [
      eapply tiling_congr; [|exact Otile]; intros x;
      match goal with Hw : nth_error (workers ?s0) ?j = Some _ |- context [upd (workers ?s0) ?j ?p'] => pose proof (cnt_flat_upd _ _ _ p' x Hw) as Cx end;
      revert Cx; cnt_items; rewrite ?Hq; cbn [map]; repeat rewrite ?cnt_cons, ?cnt_nil; lia ].
    all: try solve [ eapply tiling_congr; [|exact Otile]; intros x; cnt_items; reflexivity ].
    all: try solve [ unfold handed in *; simp; rewrite ?Hq in *; rewrite <- ?app_assoc; exact Oh ].
    - (* reorder: the head of reord_q is the block at [order] *)
      pose proof (i_ready I _ _ Hi) as R. pose proof (ready_reorder_pos _ _ _ R Hq) as Ep.
      eapply (tiling_pop (order s) (items s) _ (wb_next wb)); [exact Otile| |].
      + unfold items. rewrite Hq. cbn [map]. rewrite <- Ep. apply in_or_app. right. apply in_or_app. right.
        apply in_or_app. left. left. reflexivity.
      + intros x. pose proof (cnt_flat_upd _ _ _ (@PTop cont) x Hi) as Cx. revert Cx. cnt_items. rewrite Hq. cbn [map].
        rewrite <- Ep. repeat rewrite ?cnt_cons, ?cnt_nil. unfold iv_wb. lia.
    - unfold handed in *. simp. rewrite app_assoc, map_app. apply chain_app. exists (order s). split; auto.
      pose proof (i_ready I _ _ Hi) as R. pose proof (ready_reorder_pos _ _ _ R Hq) as Ep.
      cbn [map chain iv_wb]. repeat split; auto.
      assert (In (iv_wb wb) (items s)).
      { unfold items. rewrite Hq. cbn [map]. apply in_or_app. right. apply in_or_app. right. apply in_or_app. left. left. reflexivity. }
      apply (tiling_in _ _ _ _ Otile H).
    - (* collect: remainder re-queued *)
      eapply (tiling_split (order s) (items s) _ _ (ib_pos ib) (pos_minor_succ (ib_pos ib)) (pos_major_succ (ib_pos ib)));
        [exact Otile|apply plt_minor_succ| | |].
      + unfold pos_minor_succ, pos_major_succ, plt. cbn. lia.
      + unfold items. apply in_or_app. right. apply in_or_app. right. apply in_or_app. right. apply in_or_app. right.
        apply in_flat_map. exists (PRun (KCollect ib)). split; [eapply nth_error_In; eauto|left; reflexivity].
      + intros x.
        pose proof (cnt_flat_upd _ _ _ (PRun (@KEncode Data Enc (mkwblk (ib_pos ib) (pos_minor_succ (ib_pos ib)) e))) x Hi) as Cx.
        revert Cx. cnt_items. repeat rewrite ?cnt_cons, ?cnt_nil. cnt_norm. lia.
    - (* collect: chunk exhausted *)
      eapply tiling_congr; [|exact Otile]. intros x.
      pose proof (cnt_flat_upd _ _ _ (PRun (@KEncode Data Enc (mkwblk (ib_pos ib) (pos_major_succ (ib_pos ib)) e))) x Hi) as Cx.
      revert Cx. cnt_items. repeat rewrite ?cnt_cons, ?cnt_nil. cnt_norm. lia.
    - (* deliver *)
      eapply (tiling_snoc (order s) (items s) (mkpos (next_id s) 0)); [exact Otile| |].
      + unfold plt. cbn. lia.
      + intros x. cnt_items. repeat rewrite ?cnt_cons, ?cnt_nil. cnt_norm. lia.
  Qed.


  Notation Reach := (Reach data_len enc_empty collect).
  Notation reachable := (reachable data_len enc_empty collect).

  Lemma oinv_init n l inp : OInv (@init Data Enc n false l inp).
  Proof.
    constructor; cbn; auto.
    - exists []. split; [intros x|reflexivity]. unfold items. cbn.
      assert (E : flat_map items_pc (repeat (@PNew cont) n) = []).
      { induction n; cbn; auto. }
      rewrite E. reflexivity.
  Qed.

  Lemma reach_oinv n l inp s : reachable n false l inp s -> OInv s.
  Proof.
    intros R. unfold SchedCInv.reachable in R.
    assert (Inv s /\ OInv s); [|tauto].
    induction R as [|s e s' R IH H].
    - split; [apply inv_init|apply oinv_init].
    - destruct IH as [I O]. split; [eapply inv_step; eauto|eapply oinv_step; eauto].
  Qed.

  (* positions along a chain are strictly increasing *)
  Lemma chain_sorted p l q : chain p l q -> StronglySorted (fun a b => plt (fst a) (fst b)) l.
  Proof.
    revert p. induction l as [|[a b] l IH]; intros p H; constructor.
    - cbn in H. destruct H as (_ & _ & H). eapply IH; eauto.
    - cbn in H. destruct H as (-> & H1 & H2). apply Forall_forall. intros [c d] I.
      destruct (chain_in_bounds _ _ _ _ _ H2 I) as (A & _). cbn. eapply plt_ple_trans; eauto.
  Qed.

  (* C11_order (default mode): what has been handed to the writer is the gap-free
     chain of blocks from position 0.0 to [order], in strictly increasing order *)
  Lemma c11_order_default n l inp s : reachable n false l inp s ->
    chain pos0 (map iv_wb (handed s)) (order s) /\
    StronglySorted (fun a b => plt (wb_pos a) (wb_pos b)) (handed s).
  Proof.
    intros R. pose proof (reach_oinv _ _ _ _ R) as O. split; [apply (o_hand O)|].
    pose proof (chain_sorted _ _ _ (o_hand O)) as S. clear -S.
    induction (handed s) as [|wb h IH]; [constructor|]. cbn in S. inversion S as [|? ? S1 S2]; subst.
    constructor; auto. rewrite Forall_map in S2. exact S2.
  Qed.

  (* no block is lost: in a terminal state everything up to the end of the input
     that was read has been handed over *)
  Lemma final_order_default n l inp s : 1 <= n -> reachable n false l inp s -> final s = true ->
    order s = mkpos (next_id s) 0 /\ output_q s = [] /\ handed s = written s.
  Proof.
    intros N R F. pose proof (reach_oinv _ _ _ _ R) as O.
    destruct (c11_final N R F) as (_ & _ & _ & C & T & Rq & Oq & U & _).
    destruct (reachable_inv R) as (I & J & En).
    assert (W : flat_map items_pc (workers s) = []).
    { unfold final in F. rewrite !andb_true_iff in F. destruct F as [[F _] _]. rewrite forallb_forall in F.
      induction (workers s) as [|p ws IH]; auto. cbn. rewrite IH by (intros x Hx; apply F; right; auto).
      specialize (F p (or_introl eq_refl)). destruct p; try discriminate. reflexivity. }
    pose proof (o_tile O) as Ti. unfold items in Ti. rewrite C, T, Rq, U, W in Ti. cbn in Ti.
    split; [apply tiling_nil; auto|]. split; auto. unfold handed. rewrite Oq. apply app_nil_r.
  Qed.

End Order.

Arguments o_ultra {Data Enc s} _.
Arguments o_tok {Data Enc s} _.
Arguments o_unf {Data Enc s} _.
Arguments o_tile {Data Enc s} _.
Arguments o_hand {Data Enc s} _.
Arguments noseq {Data Enc s i p} _ _ _.
Arguments ready_seq_ultra {Data Enc} enc_empty collect {s} _.
Arguments ready_reorder_pos {Data Enc s wb q} _ _.
