(* Order preservation of the compression scheduler in --sequential ("ultra") mode. *)
From Coq Require Import List NArith Arith Bool Lia Permutation Sorted.
From LBZ Require Import SchedC.SchedCIface Gen.SchedCTab SchedC.Pool SchedC.PoolLemmas SchedC.SchedC SchedC.SchedCInv
  SchedC.Tiling SchedC.SchedCOrder.
Import ListNotations.

Section OrderU.
  Variable Data : Type.
  Variable Enc : Type.
  Variable data_len : Data -> N.
  Variable enc_empty : Enc.
  Variable collect : Enc -> Data -> Enc * Data * bool.

  Notation state := (state Data Enc).
  Notation cont := (cont Data Enc).
  Notation wpcs := (wpc cont).
  Notation step := (step data_len enc_empty collect).
  Notation Inv := (@Inv Data Enc).
  Notation items := (@items Data Enc).
  Notation items_pc := (@items_pc Data Enc).
  Notation handed := (@handed Data Enc).
  Notation iv_wb := (@iv_wb Enc).
  Notation iv_ib := (@iv_ib Data).
  Notation reachable := (reachable data_len enc_empty collect).

  (* move the cut between two adjacent intervals *)
  Lemma tiling_shift p l q l2 a b b' c : Tiling p l q -> In (a, b) l -> In (b, c) l -> plt a b' -> plt b' c ->
    (forall x, cnt x l2 + cnt x [(a, b); (b, c)] = cnt x l + cnt x [(a, b'); (b', c)]) -> Tiling p l2 q.
  Proof.
    intros (l' & C & H) I1 I2 L1 L2 E.
    assert (I1' : In (a, b) l') by (apply cnt_pos_in; rewrite C; apply cnt_pos_in; auto).
    assert (I2' : In (b, c) l') by (apply cnt_pos_in; rewrite C; apply cnt_pos_in; auto).
    destruct (in_split _ _ I1') as (l1 & l3 & ->).
    apply chain_app in H. destruct H as (m & H1 & H2). cbn in H2. destruct H2 as (-> & Lab & H3).
    apply in_app_or in I2'. destruct I2' as [I2'|[I2'|I2']].
    - exfalso. destruct (chain_in_bounds _ _ _ _ _ H1 I2') as (_ & Lbc & Lc).
      eapply plt_irrefl. eapply plt_trans; [exact Lab|]. eapply plt_ple_trans; eauto.
    - injection I2' as <- <-. exfalso. eapply plt_irrefl; eauto.
    - destruct (chain_head_unique _ _ _ _ _ H3 I2' eq_refl) as (r & ->).
      cbn in H3. destruct H3 as (_ & Lbc & H4).
      exists (l1 ++ (m, b') :: (b', c) :: r). split.
      + intros x. specialize (C x). specialize (E x). repeat rewrite ?cnt_app, ?cnt_cons, ?cnt_nil in *. lia.
      + apply chain_app. exists m. split; auto. cbn. repeat split; auto.
  Qed.

  Definition head_pos (q : list (iblk Data)) (nid : N) : pos :=
    match q with y :: _ => ib_pos y | [] => mkpos nid 0 end.

  (* coll_q holds consecutive chunks: each element ends where the next starts *)
  Fixpoint consec (q : list (iblk Data)) (nid : N) : Prop :=
    match q with
    | [] => True
    | y :: r => pos_major_succ (ib_pos y) = head_pos r nid /\ consec r nid
    end.

  Record UInv (s : state) : Prop := {
    u_ultra : ultra s = true;
    u_nocoll : forall i ib, nth_error (workers s) i <> Some (PRun (KCollect ib));
    u_tile : Tiling (order s) (items s) (mkpos (next_id s) 0);
    u_hand : chain pos0 (map iv_wb (handed s)) (order s);
    u_cons : consec (coll_q s) (next_id s);
    u_unf : forall wb, unfinished s = Some wb -> wb_next wb = head_pos (coll_q s) (next_id s);
    u_fin : forall i wb f, nth_error (workers s) i = Some (PRun (KSeqFin wb f)) ->
                           wb_next wb = head_pos (coll_q s) (next_id s);
    u_flush : forall i wb, nth_error (workers s) i = Some (PRun (KSeq (Some wb) None)) ->
                           wb_next wb = head_pos (coll_q s) (next_id s);
    u_seq : forall i wbo ib, nth_error (workers s) i = Some (PRun (KSeq wbo (Some ib))) ->
              pos_major_succ (ib_pos ib) = head_pos (coll_q s) (next_id s) /\
              (forall wb, wbo = Some wb -> wb_next wb = ib_pos ib)
  }.
  Arguments u_ultra {s} _. Arguments u_nocoll {s} _. Arguments u_tile {s} _. Arguments u_hand {s} _.
  Arguments u_cons {s} _. Arguments u_unf {s} _. Arguments u_fin {s} _. Arguments u_flush {s} _. Arguments u_seq {s} _.

  Lemma ready_collect_default (s : state) : ready s T_collect = true -> ultra s = false.
  Proof.
    unfold ready, task_guard, can_collect. cbn [view g_ultra]. rewrite !andb_true_iff, negb_true_iff. tauto.
  Qed.

  (* insertion of a key above all others appends; below the head prepends *)
  Lemma pq_insert_last {A} (key : A -> pos) x q : (forall y, In y q -> plt (key y) (key x)) -> pq_insert key x q = q ++ [x].
  Proof.
    induction q as [|y q IH]; intros H; [reflexivity|]. cbn.
    assert (E : pos_lt (key x) (key y) = false).
    { apply pos_lt_false. apply plt_asym. apply H. left; reflexivity. }
    rewrite E. f_equal. apply IH. intros z Hz. apply H. right; auto.
  Qed.

  Lemma pq_insert_first {A} (key : A -> pos) x q :
    match q with y :: _ => plt (key x) (key y) | [] => True end -> pq_insert key x q = x :: q.
  Proof.
    destruct q as [|y q]; intros H; [reflexivity|]. cbn. apply pos_lt_spec in H. rewrite H. reflexivity.
  Qed.

  Lemma consec_app q x nid nid' : consec q nid -> head_pos [x] nid' = mkpos nid 0 ->
    pos_major_succ (ib_pos x) = mkpos nid' 0 -> consec (q ++ [x]) nid'.
  Proof.
    intros C Hx Hs. induction q as [|y q IH]; cbn in *.
    - auto.
    - destruct C as [C1 C2]. split; [|apply IH; auto].
      destruct q as [|z q]; cbn in *; congruence.
  Qed.

  Lemma head_pos_app q x nid nid' : ib_pos x = mkpos nid 0 -> head_pos (q ++ [x]) nid' = head_pos q nid.
  Proof. intros H. destruct q; cbn; auto. Qed.


  Local Arguments select : simpl never.
  Local Arguments finished : simpl never.
  Local Arguments ready : simpl never.
  Local Arguments unlock_wakeups : simpl never.
  Local Arguments signal : simpl never.
  Local Arguments broadcast : simpl never.
  Local Arguments pq_insert : simpl never.
  Local Arguments upd : simpl never.
  Local Arguments cnt : simpl never.
  Local Arguments cap_output : simpl never.

  Ltac simp :=
    rewrite ?sched_unlock_eq, ?task_return_eq; unfold set_pc;
    cbn [nw ultra lvl lock next_task wakeups eof work_units in_slots out_slots coll_q trans_q reord_q order
         next_id collect_token unfinished workers rd input wr output_q written finish bad
         set_lock set_next_task set_wakeups set_eof set_work_units set_in_slots set_out_slots set_coll_q
         set_trans_q set_reord_q set_order set_next_id set_collect_token set_unfinished set_workers set_rd
         set_input set_wr set_output_q set_written set_finish set_bad].

  Ltac cnt_items :=
    unfold SchedCOrder.items; simp;
    repeat rewrite ?cnt_app, ?cnt_map_insert, ?cnt_cons, ?cnt_nil, ?map_cons;
    cbn [map SchedCOrder.opt_wb SchedCOrder.opt_ib SchedCOrder.items_pc app SchedCOrder.iv_wb SchedCOrder.iv_ib wb_pos wb_next ib_pos].
  Ltac cnt_norm := unfold SchedCOrder.iv_ib, SchedCOrder.iv_wb, pos_major_succ, pos_minor_succ; cbn [wb_pos wb_next ib_pos major minor].

  Notation seq_of := (@seq_of Data Enc).

  Lemma only_seq (s : state) i p : Inv s -> nth_error (workers s) i = Some p -> seq_of p = 1 ->
    collect_token s = false /\ unfinished s = None /\
    forall j q, nth_error (workers s) j = Some q -> j <> i -> seq_of q = 0.
  Proof.
    intros I Hi Hp. pose proof (i_tok I) as T. pose proof (sumf_ge_nth seq_of _ _ _ Hi) as G.
    destruct (collect_token s) eqn:E; cbn in T; [lia|]. split; auto. split; [apply (i_unf I); auto|].
    intros j q Hj N. pose proof (two_le_sum Data Enc seq_of _ _ _ _ _ Hi Hj (not_eq_sym N)). lia.
  Qed.

  Lemma ready_seq_token (s : state) : ready s T_collect_seq = true -> collect_token s = true.
  Proof.
    unfold ready, task_guard, can_collect_seq. cbn [view g_collect_token]. rewrite !andb_true_iff. tauto.
  Qed.

  Lemma uinv_step s e s' : Inv s -> UInv s -> step s e = Some s' -> UInv s'.
  Proof.
    intros I U H. pose proof (inv_step _ _ _ _ _ _ _ _ I H) as I'. apply step_Step in H.
    pose proof (u_ultra U) as Uu. pose proof (u_nocoll U) as Unc. pose proof (u_tile U) as Ut.
    pose proof (u_hand U) as Uh. pose proof (u_cons U) as Uc. pose proof (u_unf U) as Uf.
    pose proof (u_fin U) as Ufin. pose proof (u_flush U) as Ufl. pose proof (u_seq U) as Us.
    destruct H as [i Hi L|i Hi L|i t Hi L Hn|i Hi L Hn Hf|i Hi L Hn Hf
                  |i Hi L Hq|i ib q wu b Hi L Hq Hd|i wub b2 Hi L Hw Hb|i Hi L Hq|i wb q os b Hi L Hq Hd
                  |i Hi L Hq|i wb q Hi L Hq
                  |i ib e d f Hi L Hc Hl|i ib e d f Hi Hc Hl|i wb Hi L
                  |i wbo ib wb0 e d f Hi L Hw Hc Hl|i wbo ib wb0 e d f Hi Hw Hc Hl|i wb Hi L
                  |i wb Hi L|i wb Hi L|i wb Hi L
                  |m Hr Hs|Hr Hin|d rest Hr Hin Hl L|Hr L|wb q Hw Hq|Hw Hq Hf|wb Hw L|Hall Hf Hr].
    6-7: (exfalso; pose proof (i_ready I _ _ Hi) as R; apply ready_collect_default in R; congruence).
    11-12: (exfalso; eapply Unc; eauto).
    all: try (assert (Elast : pq_insert (@ib_pos Data) (mkiblk (mkpos (next_id s) 0) d) (coll_q s) =
                               coll_q s ++ [mkiblk (mkpos (next_id s) 0) d]);
              [ apply pq_insert_last; intros y Hy; cbn [ib_pos];
                assert (Iy : In (iv_ib y) (items s)) by (unfold SchedCOrder.items; apply in_or_app; left; apply in_map; auto);
                destruct (tiling_in _ _ _ _ Ut Iy) as (_ & A & B); cbn in A, B; eapply plt_ple_trans; eauto | ]).
    all: constructor; simp; auto.
    (* no collect continuation appears *)
    all: try solve [ intros j ib0 Hj; apply nth_upd_cases in Hj; destruct Hj as [[-> Hj]|[? Hj]];
                     [discriminate Hj|eapply Unc; eauto] ].
    (* items only move *)
    all: try solve [
      eapply tiling_congr; [|exact Ut]; intros x;
      match goal with Hw : nth_error (workers ?s0) ?j = Some _ |- context [upd (workers ?s0) ?j ?p'] =>
        pose proof (cnt_flat_upd _ _ _ _ _ p' x Hw) as Cx end;
      revert Cx; cnt_items; rewrite ?Hq; cbn [map]; repeat rewrite ?cnt_cons, ?cnt_nil; lia ].
    all: try solve [ eapply tiling_congr; [|exact Ut]; intros x; cnt_items; reflexivity ].
    all: try solve [ unfold SchedCOrder.handed in *; simp; rewrite ?Hq in *; rewrite <- ?app_assoc; exact Uh ].
    (* adjacency facts about continuations that are not touched *)
    all: try solve [ intros j wb1 f1 Hj; apply nth_upd_cases in Hj; destruct Hj as [[-> Hj]|[? Hj]];
                     [discriminate Hj|eapply Ufin; eauto] ].
    all: try solve [ intros j wb1 Hj; apply nth_upd_cases in Hj; destruct Hj as [[-> Hj]|[? Hj]];
                     [discriminate Hj|eapply Ufl; eauto] ].
    all: try solve [ intros j wbo1 ib1 Hj; apply nth_upd_cases in Hj; destruct Hj as [[-> Hj]|[? Hj]];
                     [discriminate Hj|eapply Us; eauto] ].
    (* the acting worker is the only one inside collect_seq *)
    all: try (assert (Hos : seq_of _ = 1 -> _) by (exact (only_seq _ _ _ I Hi)); specialize (Hos eq_refl);
              destruct Hos as (Htok & Hunf & Hoth)).
    - (* seq0: tile *)
      eapply tiling_congr; [|exact Ut]. intros x.
      pose proof (cnt_flat_upd _ _ _ _ _ (PRun (KSeq (unfinished s) (match coll_q s with [] => None | ib :: _ => Some ib end))) x Hi) as Cx.
      revert Cx. cnt_items. destruct (coll_q s) as [|ib q]; destruct (unfinished s);
        cbn [map tl SchedCOrder.opt_wb SchedCOrder.opt_ib app]; repeat rewrite ?cnt_app, ?cnt_cons, ?cnt_nil; lia.
    - destruct (coll_q s) as [|ib q]; cbn in *; tauto.
    - discriminate.
    - intros j wb1 f1 Hj. apply nth_upd_cases in Hj. destruct Hj as [[-> Hj]|[Nj Hj]]; [discriminate Hj|].
      exfalso. pose proof (i_ready I _ _ Hi) as R. apply ready_seq_token in R.
      pose proof (noseq I R Hj) as Z. discriminate Z.
    - intros j wb1 Hj. apply nth_upd_cases in Hj. destruct Hj as [[-> Hj]|[Nj Hj]].
      + injection Hj as Hu Hc. destruct (coll_q s) as [|ib q] eqn:Ec; [|discriminate Hc].
        cbn. specialize (Uf _ (eq_sym Hu)). rewrite ?Ec in Uf. exact Uf.
      + exfalso. pose proof (i_ready I _ _ Hi) as R. apply ready_seq_token in R.
        pose proof (noseq I R Hj) as Z. discriminate Z.
    - intros j wbo1 ib1 Hj. apply nth_upd_cases in Hj. destruct Hj as [[-> Hj]|[Nj Hj]].
      + injection Hj as Hu Hc. destruct (coll_q s) as [|ib q] eqn:Ec; [discriminate Hc|]. injection Hc as ->.
        cbn [tl]. cbn in Uc. split; [tauto|]. intros wb1 ->. specialize (Uf _ (eq_sym Hu)). rewrite ?Ec in Uf. exact Uf.
      + exfalso. pose proof (i_ready I _ _ Hi) as R. apply ready_seq_token in R.
        pose proof (noseq I R Hj) as Z. discriminate Z.
    - (* reorder *)
      pose proof (i_ready I _ _ Hi) as R. pose proof (ready_reorder_pos R Hq) as Ep.
      eapply (tiling_pop (order s) (items s) _ (wb_next wb)); [exact Ut| |].
      + unfold SchedCOrder.items. rewrite Hq. cbn [map]. rewrite <- Ep. apply in_or_app. right. apply in_or_app. right.
        apply in_or_app. left. left. reflexivity.
      + intros x. pose proof (cnt_flat_upd _ _ _ _ _ (@PTop cont) x Hi) as Cx. revert Cx. cnt_items. rewrite Hq. cbn [map].
        rewrite <- Ep. repeat rewrite ?cnt_cons, ?cnt_nil. unfold SchedCOrder.iv_wb. lia.
    - unfold SchedCOrder.handed in *. simp. rewrite app_assoc, map_app. apply chain_app. exists (order s). split; auto.
      pose proof (i_ready I _ _ Hi) as R. pose proof (ready_reorder_pos R Hq) as Ep.
      cbn [map chain SchedCOrder.iv_wb]. repeat split; auto.
      assert (In (iv_wb wb) (items s)).
      { unfold SchedCOrder.items. rewrite Hq. cbn [map]. apply in_or_app. right. apply in_or_app. right. apply in_or_app. left. left. reflexivity. }
      apply (tiling_in _ _ _ _ Ut H).
    - (* seq requeue: tile *)
      destruct (Us _ _ _ Hi) as [Us1 Us2].
      assert (Iib : In (iv_ib ib) (items s)).
      { unfold SchedCOrder.items. do 4 (apply in_or_app; right). apply in_flat_map. exists (PRun (KSeq wbo (Some ib))).
        split; [eapply nth_error_In; eauto|]. cbn. apply in_or_app. right. left. reflexivity. }
      destruct wbo as [w|]; subst wb0.
      + (* an unfinished block continues: (w.pos, ib.pos),(ib.pos, M) -> (w.pos, ib.pos+),(ib.pos+, M) *)
        specialize (Us2 _ eq_refl).
        assert (Iw : In (iv_wb w) (items s)).
        { unfold SchedCOrder.items. do 4 (apply in_or_app; right). apply in_flat_map. exists (PRun (KSeq (Some w) (Some ib))).
          split; [eapply nth_error_In; eauto|]. cbn. left. reflexivity. }
        unfold SchedCOrder.iv_wb in Iw. rewrite Us2 in Iw.
        eapply (tiling_shift (order s) (items s) _ _ (wb_pos w) (ib_pos ib) (pos_minor_succ (ib_pos ib)) (pos_major_succ (ib_pos ib)));
          [exact Ut|exact Iw|exact Iib| | |].
        * destruct (tiling_in _ _ _ _ Ut Iw) as (_ & A & _). cbn in A. eapply plt_trans; [exact A|apply plt_minor_succ].
        * unfold pos_minor_succ, pos_major_succ, plt. cbn. lia.
        * intros x.
          pose proof (cnt_flat_upd _ _ _ _ _ (PRun (KSeqFin (mkwblk (wb_pos w) (pos_minor_succ (wb_next w)) e) f)) x Hi) as Cx.
          revert Cx. cnt_items. repeat rewrite ?cnt_app, ?cnt_cons, ?cnt_nil. cnt_norm. rewrite ?Us2. cnt_norm. lia.
      + (* a new block starts at ib.pos *)
        eapply (tiling_split (order s) (items s) _ _ (ib_pos ib) (pos_minor_succ (ib_pos ib)) (pos_major_succ (ib_pos ib)));
          [exact Ut|apply plt_minor_succ| |exact Iib|].
        * unfold pos_minor_succ, pos_major_succ, plt. cbn. lia.
        * intros x.
          pose proof (cnt_flat_upd _ _ _ _ _ (PRun (KSeqFin (mkwblk (ib_pos ib) (pos_minor_succ (ib_pos ib)) e) f)) x Hi) as Cx.
          revert Cx. cnt_items. cbn [new_wblk wb_pos wb_next]. repeat rewrite ?cnt_app, ?cnt_cons, ?cnt_nil. cnt_norm. lia.
    - (* seq requeue: the remainder goes back to the head of coll_q *)
      destruct (Us _ _ _ Hi) as [Us1 Us2].
      rewrite pq_insert_first.
      + cbn [consec ib_pos]. split; [|exact Uc]. rewrite <- Us1. reflexivity.
      + destruct (coll_q s) as [|y q0]; [exact Logic.I|]. cbn [ib_pos]. cbn in Us1. rewrite <- Us1.
        unfold pos_minor_succ, pos_major_succ, plt. cbn. lia.
    - intros wb1 E1. congruence.
    - destruct (Us _ _ _ Hi) as [Us1 Us2].
      assert (Eins : head_pos (pq_insert (@ib_pos Data) (mkiblk (pos_minor_succ (ib_pos ib)) d) (coll_q s)) (next_id s)
                     = pos_minor_succ (ib_pos ib)).
      { rewrite pq_insert_first; [reflexivity|].
        destruct (coll_q s) as [|y q0]; [exact Logic.I|]. cbn [ib_pos]. cbn in Us1. rewrite <- Us1.
        unfold pos_minor_succ, pos_major_succ, plt. cbn. lia. }
      intros j wb1 f1 Hj. apply nth_upd_cases in Hj. destruct Hj as [[-> Hj]|[Nj Hj]].
      + injection Hj as -> ->. etransitivity; [|symmetry; exact Eins]. cbn [wb_next]. f_equal.
        destruct wbo as [w|]; subst wb0; [apply Us2; reflexivity|reflexivity].
      + exfalso. pose proof (Hoth _ _ Hj Nj) as Z. discriminate Z.
    - intros j wb1 Hj. apply nth_upd_cases in Hj. destruct Hj as [[-> Hj]|[Nj Hj]]; [discriminate Hj|].
      exfalso. pose proof (Hoth _ _ Hj Nj) as Z. discriminate Z.
    - intros j wbo1 ib1 Hj. apply nth_upd_cases in Hj. destruct Hj as [[-> Hj]|[Nj Hj]]; [discriminate Hj|].
      exfalso. pose proof (Hoth _ _ Hj Nj) as Z. discriminate Z.
    - (* seq release: tile *)
      destruct (Us _ _ _ Hi) as [Us1 Us2].
      assert (Iib : In (iv_ib ib) (items s)).
      { unfold SchedCOrder.items. do 4 (apply in_or_app; right). apply in_flat_map. exists (PRun (KSeq wbo (Some ib))).
        split; [eapply nth_error_In; eauto|]. cbn. apply in_or_app. right. left. reflexivity. }
      destruct wbo as [w|]; subst wb0.
      + specialize (Us2 _ eq_refl).
        assert (Iw : In (iv_wb w) (items s)).
        { unfold SchedCOrder.items. do 4 (apply in_or_app; right). apply in_flat_map. exists (PRun (KSeq (Some w) (Some ib))).
          split; [eapply nth_error_In; eauto|]. cbn. left. reflexivity. }
        unfold SchedCOrder.iv_wb in Iw. rewrite Us2 in Iw.
        eapply (tiling_merge (order s) (items s) _ _ (wb_pos w) (ib_pos ib) (pos_major_succ (ib_pos ib))); [exact Ut|exact Iw|exact Iib|].
        intros x.
        pose proof (cnt_flat_upd _ _ _ _ _ (PRun (KSeqFin (mkwblk (wb_pos w) (pos_major_succ (wb_next w)) e) f)) x Hi) as Cx.
        revert Cx. cnt_items. repeat rewrite ?cnt_app, ?cnt_cons, ?cnt_nil. cnt_norm. rewrite ?Us2. cnt_norm. lia.
      + eapply tiling_congr; [|exact Ut]. intros x.
        pose proof (cnt_flat_upd _ _ _ _ _ (PRun (KSeqFin (mkwblk (ib_pos ib) (pos_major_succ (ib_pos ib)) e) f)) x Hi) as Cx.
        revert Cx. cnt_items. cbn [new_wblk wb_pos wb_next]. repeat rewrite ?cnt_app, ?cnt_cons, ?cnt_nil. cnt_norm. lia.
    - destruct (Us _ _ _ Hi) as [Us1 Us2].
      intros j wb1 f1 Hj. apply nth_upd_cases in Hj. destruct Hj as [[-> Hj]|[Nj Hj]].
      + injection Hj as -> ->. cbn [wb_next]. rewrite <- Us1. f_equal.
        destruct wbo as [w|]; subst wb0; [apply Us2; reflexivity|reflexivity].
      + exfalso. pose proof (Hoth _ _ Hj Nj) as Z. discriminate Z.
    - (* not full: the block becomes the unfinished work *)
      eapply tiling_congr; [|exact Ut]. intros x.
      pose proof (cnt_flat_upd _ _ _ _ _ (@PTop cont) x Hi) as Cx.
      revert Cx. cnt_items. rewrite Hunf. cbn [SchedCOrder.opt_wb]. repeat rewrite ?cnt_app, ?cnt_cons, ?cnt_nil. lia.
    - (* the unfinished block keeps its successor *)
      intros wb1 E1. injection E1 as <-. eapply Ufin; eauto.
    - (* deliver: tile *)
      eapply (tiling_snoc (order s) (items s) (mkpos (next_id s) 0)); [exact Ut| |].
      + unfold plt. cbn. lia.
      + intros x. cnt_items. repeat rewrite ?cnt_cons, ?cnt_nil. cnt_norm. lia.
    - rewrite Elast. eapply consec_app; eauto.
    - intros wb1 E1. rewrite Elast, (head_pos_app _ _ (next_id s)) by reflexivity. eauto.
    - intros j wb1 f1 Hj. rewrite Elast, (head_pos_app _ _ (next_id s)) by reflexivity. eauto.
    - intros j wb1 Hj. rewrite Elast, (head_pos_app _ _ (next_id s)) by reflexivity. eauto.
    - intros j wbo1 ib1 Hj. rewrite Elast, (head_pos_app _ _ (next_id s)) by reflexivity. eauto.
  Qed.

  Lemma uinv_init n l inp : UInv (@init Data Enc n true l inp).
  Proof.
    assert (E : flat_map items_pc (repeat (@PNew cont) n) = []) by (induction n; cbn; auto).
    constructor; cbn; auto.
    - intros i ib H. apply nth_error_In in H. apply repeat_spec in H. discriminate.
    - exists []. split; [intros x|reflexivity]. unfold SchedCOrder.items. cbn. rewrite E. reflexivity.
    - discriminate.
    - intros i wb f H. apply nth_error_In in H. apply repeat_spec in H. discriminate.
    - intros i wb H. apply nth_error_In in H. apply repeat_spec in H. discriminate.
    - intros i wbo ib H. apply nth_error_In in H. apply repeat_spec in H. discriminate.
  Qed.

  Lemma reach_uinv n l inp s : reachable n true l inp s -> UInv s.
  Proof.
    intros R. unfold SchedCInv.reachable in R.
    assert (Inv s /\ UInv s); [|tauto].
    induction R as [|s e s' R IH H].
    - split; [apply inv_init|apply uinv_init].
    - destruct IH as [I U]. split; [eapply inv_step; eauto|eapply uinv_step; eauto].
  Qed.

  Lemma c11_order_ultra n l inp s : reachable n true l inp s ->
    chain pos0 (map iv_wb (handed s)) (order s) /\
    StronglySorted (fun a b => plt (wb_pos a) (wb_pos b)) (handed s).
  Proof.
    intros R. pose proof (reach_uinv _ _ _ _ R) as U. split; [apply (u_hand U)|].
    pose proof (chain_sorted _ _ _ (u_hand U)) as S. clear -S.
    induction (handed s) as [|wb h IH]; [constructor|]. cbn in S. inversion S as [|? ? S1 S2]; subst.
    constructor; auto. rewrite Forall_map in S2. exact S2.
  Qed.

  Lemma final_order_ultra n l inp s : 1 <= n -> reachable n true l inp s -> final s = true ->
    order s = mkpos (next_id s) 0 /\ output_q s = [] /\ handed s = written s.
  Proof.
    intros N R F. pose proof (reach_uinv _ _ _ _ R) as U.
    destruct (c11_final N R F) as (_ & _ & _ & C & T & Rq & Oq & Un & _).
    assert (W : flat_map items_pc (workers s) = []).
    { unfold final in F. rewrite !andb_true_iff in F. destruct F as [[F _] _]. rewrite forallb_forall in F.
      induction (workers s) as [|p ws IH]; auto. cbn. rewrite IH by (intros x Hx; apply F; right; auto).
      specialize (F p (or_introl eq_refl)). destruct p; try discriminate. reflexivity. }
    pose proof (u_tile U) as Ti. unfold SchedCOrder.items in Ti. rewrite C, T, Rq, Un, W in Ti. cbn in Ti.
    split; [apply tiling_nil; auto|]. split; auto. unfold SchedCOrder.handed. rewrite Oq. apply app_nil_r.
  Qed.

  (* both modes *)
  Theorem c11_order n u l inp s : reachable n u l inp s ->
    chain pos0 (map iv_wb (handed s)) (order s) /\
    StronglySorted (fun a b => plt (wb_pos a) (wb_pos b)) (handed s).
  Proof. destruct u; [apply c11_order_ultra|apply c11_order_default]. Qed.

  Theorem c11_final_order n u l inp s : 1 <= n -> reachable n u l inp s -> final s = true ->
    order s = mkpos (next_id s) 0 /\ output_q s = [] /\ handed s = written s.
  Proof. destruct u; [apply final_order_ultra|apply final_order_default]. Qed.

End OrderU.
