(* Interval chains: the live items of the compression scheduler, ordered by
   position, tile the stream from [order] to the position of the next chunk to be
   read.  Multisets of intervals are compared by occurrence counts, so that moving
   an item between queues and worker continuations is linear arithmetic. *)
From Coq Require Import List NArith Arith Bool Lia.
From LBZ Require Import SchedC.SchedCIface SchedC.Pool SchedC.PoolLemmas.
Import ListNotations.

Definition ival := (pos * pos)%type.

Lemma pos_eq_dec (a b : pos) : {a = b} + {a <> b}.
Proof. decide equality; apply N.eq_dec. Defined.

Lemma ival_dec (a b : ival) : {a = b} + {a <> b}.
Proof. decide equality; apply pos_eq_dec. Defined.

Definition cnt (x : ival) (l : list ival) : nat := count_occ ival_dec l x.

Lemma cnt_app x l1 l2 : cnt x (l1 ++ l2) = cnt x l1 + cnt x l2.
Proof. apply count_occ_app. Qed.

Lemma cnt_cons x y l : cnt x (y :: l) = (if ival_dec y x then 1 else 0) + cnt x l.
Proof. unfold cnt. cbn. destruct (ival_dec y x); reflexivity. Qed.

Lemma cnt_nil x : cnt x [] = 0.
Proof. reflexivity. Qed.

Lemma cnt_pos_in x l : 0 < cnt x l <-> In x l.
Proof. unfold cnt. split; intros H; [apply (count_occ_In ival_dec); lia|apply (count_occ_In ival_dec) in H; lia]. Qed.

Lemma cnt_self x : cnt x [x] = 1.
Proof. rewrite cnt_cons. destruct (ival_dec x x); [reflexivity|congruence]. Qed.

(* l is a chain of adjacent, non-empty intervals from p to q *)
Fixpoint chain (p : pos) (l : list ival) (q : pos) : Prop :=
  match l with
  | [] => p = q
  | (a, b) :: r => a = p /\ plt a b /\ chain b r q
  end.

Lemma chain_app p l1 l2 q : chain p (l1 ++ l2) q <-> exists m, chain p l1 m /\ chain m l2 q.
Proof.
  revert p. induction l1 as [|[a b] l1 IH]; intros p; cbn.
  - split; [intros H; exists p; auto|intros (m & -> & H); auto].
  - rewrite IH. split.
    + intros (H1 & H2 & m & H3 & H4). exists m. auto.
    + intros (m & (H1 & H2 & H3) & H4). repeat split; auto. exists m; auto.
Qed.

Lemma chain_le p l q : chain p l q -> ple p q.
Proof.
  revert p. induction l as [|[a b] l IH]; cbn; intros p H.
  - subst. apply ple_refl.
  - destruct H as (-> & H1 & H2). right. eapply plt_ple_trans; eauto.
Qed.

(* every interval of a chain starts at or after p and ends at or before q *)
Lemma chain_in_bounds p l q a b : chain p l q -> In (a, b) l -> ple p a /\ plt a b /\ ple b q.
Proof.
  revert p. induction l as [|[a' b'] l IH]; cbn; intros p H I; [tauto|].
  destruct H as (-> & H1 & H2). destruct I as [E|I].
  - injection E as -> ->. repeat split; auto. apply ple_refl. eapply chain_le; eauto.
  - destruct (IH _ H2 I) as (A & B & C). repeat split; auto.
    right. eapply plt_ple_trans; eauto.
Qed.

(* starts are distinct: an interval starting at p is the head *)
Lemma chain_head_unique p l q a b : chain p l q -> In (a, b) l -> a = p ->
  exists r, l = (a, b) :: r.
Proof.
  destruct l as [|[a' b'] l]; cbn; intros H I E; [tauto|].
  destruct H as (-> & H1 & H2). destruct I as [I|I].
  - injection I as -> ->. eexists; reflexivity.
  - exfalso. destruct (chain_in_bounds _ _ _ _ _ H2 I) as (A & _). subst a.
    eapply plt_irrefl. eapply plt_ple_trans; eauto.
Qed.

Lemma chain_start_unique p l q a b b' : chain p l q -> In (a, b) l -> In (a, b') l -> b = b'.
Proof.
  revert p. induction l as [|[x y] l IH]; cbn; intros p H I1 I2; [tauto|].
  destruct H as (-> & H1 & H2).
  destruct I1 as [E1|I1]; destruct I2 as [E2|I2].
  - congruence.
  - injection E1 as -> ->. exfalso. destruct (chain_in_bounds _ _ _ _ _ H2 I2) as (A & _).
    eapply plt_irrefl. eapply plt_ple_trans; eauto.
  - injection E2 as -> ->. exfalso. destruct (chain_in_bounds _ _ _ _ _ H2 I1) as (A & _).
    eapply plt_irrefl. eapply plt_ple_trans; eauto.
  - eapply IH; eauto.
Qed.

Definition Tiling (p : pos) (l : list ival) (q : pos) : Prop :=
  exists l', (forall x, cnt x l' = cnt x l) /\ chain p l' q.

Lemma tiling_congr p l1 l2 q : (forall x, cnt x l1 = cnt x l2) -> Tiling p l1 q -> Tiling p l2 q.
Proof. intros E (l' & C & H). exists l'. split; auto. intros x. rewrite C. apply E. Qed.

Lemma tiling_in p l q x : Tiling p l q -> In x l -> ple p (fst x) /\ plt (fst x) (snd x) /\ ple (snd x) q.
Proof.
  intros (l' & C & H) I. destruct x as [a b]. apply (chain_in_bounds p l' q); auto.
  apply cnt_pos_in. rewrite C. apply cnt_pos_in; auto.
Qed.

Lemma tiling_nil p q : Tiling p [] q -> p = q.
Proof.
  intros (l' & C & H). destruct l' as [|x l']; [exact H|].
  specialize (C x). rewrite cnt_cons in C. destruct (ival_dec x x); [cbn in C; lia|congruence].
Qed.

Lemma tiling_nonempty_head p l q : Tiling p l q -> l <> [] -> exists b, In (p, b) l.
Proof.
  intros (l' & C & H) N. destruct l' as [|[a b] l'].
  - destruct l as [|x l]; [congruence|]. specialize (C x). rewrite cnt_cons, cnt_nil in C.
    destruct (ival_dec x x); [lia|congruence].
  - cbn in H. destruct H as (-> & _). exists b. apply cnt_pos_in. rewrite <- C, cnt_cons.
    destruct (ival_dec (p, b) (p, b)); [lia|congruence].
Qed.

Lemma tiling_distinct p l q a b b' : Tiling p l q -> In (a, b) l -> In (a, b') l -> b = b'.
Proof.
  intros (l' & C & H) I1 I2. apply (chain_start_unique p l' q a); auto; apply cnt_pos_in; rewrite C; apply cnt_pos_in; auto.
Qed.

Lemma tiling_once p l q x : Tiling p l q -> cnt x l <= 1.
Proof.
  intros (l' & C & H). rewrite <- C. clear C. revert p H. induction l' as [|[a b] l' IH]; intros p H.
  - cbn. lia.
  - cbn in H. destruct H as (-> & H1 & H2). rewrite cnt_cons. destruct (ival_dec (p, b) x) as [<-|N].
    + assert (cnt (p, b) l' = 0); [|lia].
      destruct (cnt (p, b) l') eqn:E; auto. exfalso.
      assert (I : In (p, b) l') by (apply cnt_pos_in; lia).
      destruct (chain_in_bounds _ _ _ _ _ H2 I) as (A & _). cbn in A.
      eapply plt_irrefl. eapply plt_ple_trans; eauto.
    + specialize (IH _ H2). lia.
Qed.

(* append a new last interval *)
Lemma tiling_snoc p l q q' l2 : Tiling p l q -> plt q q' ->
  (forall x, cnt x l2 = cnt x l + cnt x [(q, q')]) -> Tiling p l2 q'.
Proof.
  intros (l' & C & H) L E. exists (l' ++ [(q, q')]). split.
  - intros x. rewrite cnt_app, C, E. reflexivity.
  - apply chain_app. exists q. split; auto. cbn. auto.
Qed.

(* replace (a,c) by (a,b),(b,c) *)
Lemma tiling_split p l q l2 a b c : Tiling p l q -> plt a b -> plt b c -> In (a, c) l ->
  (forall x, cnt x l2 + cnt x [(a, c)] = cnt x l + cnt x [(a, b); (b, c)]) -> Tiling p l2 q.
Proof.
  intros (l' & C & H) L1 L2 I E.
  assert (I' : In (a, c) l') by (apply cnt_pos_in; rewrite C; apply cnt_pos_in; auto).
  destruct (in_split _ _ I') as (l1 & l3 & ->).
  apply chain_app in H. destruct H as (m & H1 & H2). cbn in H2. destruct H2 as (-> & _ & H3).
  exists (l1 ++ (m, b) :: (b, c) :: l3). split.
  - intros x. specialize (C x). specialize (E x).
    repeat rewrite ?cnt_app, ?cnt_cons, ?cnt_nil in *. lia.
  - apply chain_app. exists m. split; auto. cbn. auto.
Qed.

(* remove the interval that starts at p *)
Lemma tiling_pop p l q b l2 : Tiling p l q -> In (p, b) l ->
  (forall x, cnt x l2 + cnt x [(p, b)] = cnt x l) -> Tiling b l2 q.
Proof.
  intros (l' & C & H) I E.
  assert (I' : In (p, b) l') by (apply cnt_pos_in; rewrite C; apply cnt_pos_in; auto).
  destruct (chain_head_unique _ _ _ _ _ H I' eq_refl) as (r & ->).
  cbn in H. destruct H as (_ & _ & H). exists r. split; auto.
  intros x. specialize (C x). specialize (E x). repeat rewrite ?cnt_cons, ?cnt_nil in *. lia.
Qed.

(* replace adjacent (a,b),(b,c) by (a,c) *)
Lemma tiling_merge p l q l2 a b c : Tiling p l q -> In (a, b) l -> In (b, c) l ->
  (forall x, cnt x l2 + cnt x [(a, b); (b, c)] = cnt x l + cnt x [(a, c)]) -> Tiling p l2 q.
Proof.
  intros (l' & C & H) I1 I2 E.
  assert (I1' : In (a, b) l') by (apply cnt_pos_in; rewrite C; apply cnt_pos_in; auto).
  assert (I2' : In (b, c) l') by (apply cnt_pos_in; rewrite C; apply cnt_pos_in; auto).
  destruct (in_split _ _ I1') as (l1 & l3 & ->).
  apply chain_app in H. destruct H as (m & H1 & H2). cbn in H2. destruct H2 as (-> & Lab & H3).
  apply in_app_or in I2'. destruct I2' as [I2'|[I2'|I2']].
  - exfalso. destruct (chain_in_bounds _ _ _ _ _ H1 I2') as (_ & Lbc & Lc).
    eapply plt_irrefl. eapply plt_trans; [exact Lab|]. eapply plt_ple_trans; eauto.
  - injection I2' as <- <-. exfalso. eapply plt_irrefl; eauto.
  - destruct (chain_head_unique _ _ _ _ _ H3 I2' eq_refl) as (r & ->).
    cbn in H3. destruct H3 as (_ & Lbc & H4).
    exists (l1 ++ (m, c) :: r). split.
    + intros x. specialize (C x). specialize (E x). repeat rewrite ?cnt_app, ?cnt_cons, ?cnt_nil in *. lia.
    + apply chain_app. exists m. split; auto. cbn. repeat split; auto. eapply plt_trans; eauto.
Qed.
