(* Proofs about the -cdf pipeline model (Copy.v). *)
From Coq Require Import List NArith ZArith Arith Bool Lia.
From LBZ Require Import SchedC.SchedCIface Gen.SchedCTab SchedC.Pool SchedC.PoolLemmas SchedC.Copy.
Import ListNotations.

(* ---- xread / xwrite ---- *)
Section XReadProofs.
  Variable A : Type.

  Lemma firstn_skipn_app (k v : nat) (l : list A) : k <= v ->
    firstn k l ++ firstn (v - k) (skipn k l) = firstn v l.
  Proof.
    revert v l; induction k as [|k IH]; intros v l H; cbn.
    - rewrite Nat.sub_0_r. reflexivity.
    - destruct l as [|a l]; cbn.
      + rewrite !firstn_nil. reflexivity.
      + destruct v as [|v]; [lia|]. cbn. f_equal. apply IH. lia.
  Qed.

  Lemma skipn_skipn' (k v : nat) (l : list A) : k <= v -> skipn (v - k) (skipn k l) = skipn v l.
  Proof.
    revert v l; induction k as [|k IH]; intros v l H; cbn.
    - rewrite Nat.sub_0_r. reflexivity.
    - destruct l as [|a l]; cbn.
      + rewrite !skipn_nil. reflexivity.
      + destruct v as [|v]; [lia|]. cbn. apply IH. lia.
  Qed.

  (* xread() stores exactly the next min(vacant, remaining) bytes, whatever the
     fragmentation of read() *)
  Theorem xread_fills (vacant : nat) (frag : list nat) (rest acc : list A) :
    exists frag',
      xread vacant frag rest acc =
      (acc ++ firstn vacant rest, vacant - length (firstn vacant rest), frag', skipn vacant rest).
  Proof.
    revert vacant rest acc. induction frag as [|f fr IH]; intros vacant rest acc.
    - destruct vacant; cbn [xread].
      + exists []. rewrite app_nil_r. reflexivity.
      + exists []. reflexivity.
    - destruct vacant as [|v].
      + cbn. exists (f :: fr). rewrite app_nil_r. reflexivity.
      + cbn [xread]. destruct rest as [|a rest].
        * exists fr. rewrite firstn_nil, app_nil_r. cbn. reflexivity.
        * set (k := Nat.min (Nat.min (S v) (Nat.max 1 f)) (length (a :: rest))).
          assert (Hk : 1 <= k /\ k <= S v /\ k <= length (a :: rest)) by (unfold k; cbn [length]; lia).
          destruct Hk as (Hk1 & Hk2 & Hk3). clearbody k.
          destruct (IH (S v - k) (skipn k (a :: rest)) (acc ++ firstn k (a :: rest))) as [fr' E].
          exists fr'. rewrite E. rewrite <- app_assoc.
          rewrite (firstn_skipn_app k (S v) (a :: rest) Hk2), (skipn_skipn' k (S v) (a :: rest) Hk2).
          f_equal. f_equal. f_equal.
          rewrite <- (firstn_skipn_app k (S v) (a :: rest) Hk2). rewrite app_length.
          rewrite (firstn_length_le _ Hk3). lia.
  Qed.

  Lemma xread_got vacant frag (rest : list A) :
    fst (fst (fst (xread vacant frag rest []))) = firstn vacant rest /\
    snd (xread vacant frag rest []) = skipn vacant rest /\
    snd (fst (fst (xread vacant frag rest []))) = vacant - length (firstn vacant rest).
  Proof. destruct (xread_fills vacant frag rest []) as [fr ->]. cbn. auto. Qed.

  (* the reader's chunk sequence does not depend on how read() fragments the input *)
  Theorem reader_chunks_cut (fuel gran : nat) (frag : list nat) (x : list A) : 0 < gran ->
    reader_chunks fuel gran frag x = cut fuel gran x.
  Proof.
    intros G. revert frag x. induction fuel as [|fu IH]; intros frag x; cbn [reader_chunks cut]; auto.
    destruct (xread_fills gran frag x []) as [fr ->]. cbn [app].
    destruct x as [|a x].
    - rewrite firstn_nil. reflexivity.
    - destruct gran as [|g]; [lia|]. cbn [firstn]. f_equal.
      change (a :: firstn g x) with (firstn (S g) (a :: x)).
      destruct (Nat.ltb_spec (length (a :: x)) (S g)) as [L|L].
      + rewrite firstn_all2 by lia.
        destruct (Nat.eqb_spec (S g - length (a :: x)) 0); [lia|reflexivity].
      + rewrite firstn_length_le by lia.
        destruct (Nat.eqb_spec (S g - S g) 0); [|lia]. apply IH.
  Qed.

  (* short writes do not change what reaches the file *)
  Theorem xwrite_all (frag : list nat) (buf file : list A) : xwrite frag buf file = file ++ buf.
  Proof.
    revert buf file. induction frag as [|f fr IH]; intros buf file.
    - destruct buf; cbn; [rewrite app_nil_r|]; reflexivity.
    - destruct buf as [|a buf]; [cbn; rewrite app_nil_r; reflexivity|].
      cbn [xwrite]. set (k := Nat.min (length (a :: buf)) (Nat.max 1 f)).
      destruct (skipn k (a :: buf)) eqn:E.
      + rewrite <- (firstn_skipn k (a :: buf)) at 2. rewrite E, app_nil_r. reflexivity.
      + rewrite IH, <- app_assoc. f_equal. rewrite <- E. apply firstn_skipn.
  Qed.
End XReadProofs.

(* ---- the pipeline ---- *)
Definition rdbuf (r : crpc) : list N := match r with CRDeliver b _ | CRPush b _ => b | _ => [] end.
Definition crd_in (r : crpc) : nat := match r with CRRead | CRDeliver _ _ | CRPush _ _ => 1 | _ => 0 end.
Definition crd_outh (r : crpc) : nat := match r with CRPush _ _ => 1 | _ => 0 end.
Definition cwr_in (w : cwpc) : nat := match w with CWHold _ => 1 | _ => 0 end.
Definition cwr_outh (w : cwpc) : nat := match w with CWHold _ | CWRel => 1 | _ => 0 end.
Definition holders (s : cstate) : nat := crd_outh (k_rd s) + length (k_outq s) + cwr_outh (k_wr s).
Definition rd_is_done (r : crpc) : bool := match r with CRDone => true | _ => false end.
Definition started_pc (m : mpc) : bool := match m with MHalt | MJoinR | MJoinW | MDone => true | _ => false end.
Definition copying_pc (m : mpc) : bool := match m with MSniff | MDecompress | MFail => false | _ => true end.

Record CI (x : list N) (s : cstate) : Prop := {
  ci_data : copying_pc (k_main s) = true ->
            k_written s ++ concat (k_outq s) ++ rdbuf (k_rd s) ++ k_rest s = x;
  ci_pre : k_started s = false ->
           k_rd s = CRIdle /\ k_outq s = [] /\ k_wr s = CWIdle /\ k_raised s = 0 /\
           (k_main s = MSniff -> k_rest s = x /\ k_written s = []);
  ci_started : k_started s = started_pc (k_main s);
  ci_in : k_started s = true -> k_in s + crd_in (k_rd s) + length (k_outq s) + cwr_in (k_wr s) = copy_in_slots;
  ci_out : k_started s = true -> (k_out s + Z.of_nat (holders s) = Z.of_nat copy_out_slots)%Z;
  ci_eof : k_started s = true -> k_eof s = rd_is_done (k_rd s);
  ci_raised : k_started s = true -> k_raised s = b2n (k_eof s && (holders s =? 0));
  ci_taken : k_taken s = match k_main s with MJoinR | MJoinW | MDone => 1 | _ => 0 end;
  ci_le : k_taken s <= k_raised s;
  ci_finish : k_finish s = match k_main s with MJoinW | MDone => true | _ => false end;
  ci_joinr : (k_main s = MJoinW \/ k_main s = MDone) -> k_rd s = CRDone;
  ci_done : k_main s = MDone -> k_wr s = CWDone;
  ci_wdone : k_wr s = CWDone -> k_finish s = true /\ k_outq s = [];
  ci_short : forall b sh, (k_rd s = CRDeliver b sh \/ k_rd s = CRPush b sh) -> b <> [] /\ (sh = true -> k_rest s = []);
  ci_reof : (k_rd s = CREof \/ k_rd s = CRDone) -> k_rest s = []
}.

(* side conditions on the regenerated constants *)
Lemma gran_pos : 0 < gran.
Proof. unfold gran. change 0 with (N.to_nat 0). apply Nat.compare_lt_iff. rewrite <- N2Nat.inj_compare. reflexivity. Qed.
Lemma copy_slots_eq : copy_out_slots = copy_total_out_slots.
Proof. reflexivity. Qed.
Lemma copy_in_pos : 0 < copy_in_slots.
Proof. unfold copy_in_slots. lia. Qed.
Lemma hdr_len_ok : forall v, v <= sniff_size -> copy_hdr_len v = sniff_size - v.
Proof. intros v H. reflexivity. Qed.

Lemma raise_cond_spec (s : cstate) :
  (k_out s + Z.of_nat (holders s) = Z.of_nat copy_out_slots)%Z ->
  copy_raise_cond (cview s) = k_eof s && (holders s =? 0).
Proof.
  intros H. unfold copy_raise_cond, cview. cbn [g_eof g_out_slots g_total_out_slots]. f_equal.
  unfold view_out. rewrite <- copy_slots_eq.
  destruct (Z.leb_spec 0 (k_out s)); destruct (Nat.eqb_spec (holders s) 0) as [E|E];
    try (apply Nat.eqb_eq; lia); try (apply Nat.eqb_neq; lia).
Qed.

Arguments ci_data {x s} _.
Arguments ci_pre {x s} _.
Arguments ci_started {x s} _.
Arguments ci_in {x s} _.
Arguments ci_out {x s} _.
Arguments ci_eof {x s} _.
Arguments ci_raised {x s} _.
Arguments ci_taken {x s} _.
Arguments ci_le {x s} _.
Arguments ci_finish {x s} _.
Arguments ci_joinr {x s} _.
Arguments ci_done {x s} _.
Arguments ci_wdone {x s} _.
Arguments ci_short {x s} _.
Arguments ci_reof {x s} _.

Ltac csimp :=
  cbn [k_force k_stdout k_main k_started k_eof k_in k_out k_rest k_frag k_rd k_outq k_wr k_written k_finish k_raised k_taken
       set_main set_started set_keof set_in set_out set_rest set_frag set_krd set_outq set_kwr set_kwritten set_kfinish
       set_raised set_taken] in *.

Lemma copy_unlock_fields (s : cstate) :
  (k_out s + Z.of_nat (holders s) = Z.of_nat copy_out_slots)%Z ->
  copy_unlock s = set_raised (k_raised s + b2n (k_eof s && (holders s =? 0))) s.
Proof.
  intros H. unfold copy_unlock. rewrite (raise_cond_spec s H).
  destruct (k_eof s && (holders s =? 0)); cbn [b2n].
  - f_equal. lia.
  - rewrite Nat.add_0_r. destruct s; reflexivity.
Qed.

Ltac cfin := intros; try discriminate; try congruence; try lia;
  try solve [intuition (try discriminate; try congruence; try lia)].

Ltac cprep :=
  unfold holders in *; csimp;
  repeat match goal with
         | E : k_rd _ = _ |- _ => rewrite E in *; clear E
         | E : k_wr _ = _ |- _ => rewrite E in *; clear E
         | E : k_main _ = _ |- _ => rewrite E in *; clear E
         | E : k_started _ = _ |- _ => rewrite E in *; clear E
         end;
  cbn [rdbuf crd_in crd_outh cwr_in cwr_outh rd_is_done started_pc copying_pc length app concat b2n] in *.

Lemma ci_step x s e s' : CI x s -> cstep s e = Some s' -> CI x s'.
Proof.
  intros I H.
  pose proof (ci_data I) as Idata. pose proof (ci_pre I) as Ipre. pose proof (ci_started I) as Ist.
  pose proof (ci_in I) as Iin. pose proof (ci_out I) as Iout. pose proof (ci_eof I) as Ieof.
  pose proof (ci_raised I) as Irai. pose proof (ci_taken I) as Itak. pose proof (ci_le I) as Ile.
  pose proof (ci_finish I) as Ifin. pose proof (ci_joinr I) as Ijr. pose proof (ci_done I) as Idn.
  pose proof (ci_wdone I) as Iwd. pose proof (ci_short I) as Ish. pose proof (ci_reof I) as Ire.
  clear I.
  destruct e as [i| | |]; cbn [cstep] in H; [discriminate| | |].
  - (* reader *)
    unfold creader_step in H. destruct (k_started s) eqn:St; [|discriminate]. cbn [negb] in H.
    specialize (Iin eq_refl). specialize (Iout eq_refl). specialize (Ieof eq_refl). specialize (Irai eq_refl).
    destruct (k_rd s) as [| |buf short|buf short| |] eqn:Er.
    + (* idle *) destruct (k_in s) eqn:Ein; [discriminate|]. injection H as <-.
      constructor; cprep; cfin.
    + (* read *)
      destruct (xread_fills _ gran (k_frag s) (k_rest s) []) as [fr E]. rewrite E in H. cbn [app] in H.
      destruct (firstn gran (k_rest s)) as [|a got] eqn:Eg; injection H as <-.
      * assert (k_rest s = []).
        { destruct (k_rest s); auto. pose proof gran_pos. destruct gran; [lia|discriminate]. }
        constructor; cprep; cfin.
      * assert (Hnz : a :: got <> []) by discriminate.
        assert (Hsh : negb (gran - length (a :: got) =? 0) = true -> skipn gran (k_rest s) = []).
        { intros Hs. apply negb_true_iff, Nat.eqb_neq in Hs. apply skipn_all2.
          destruct (Nat.le_gt_cases (length (k_rest s)) gran); auto.
          assert (length (firstn gran (k_rest s)) = gran) by (apply firstn_length_le; lia).
          rewrite Eg in H0. lia. }
        assert (Hd : (a :: got) ++ skipn gran (k_rest s) = k_rest s) by (rewrite <- Eg; apply firstn_skipn).
        constructor; cprep; cfin.
        -- rewrite <- Idata by auto. rewrite <- Hd at 2. rewrite <- !app_assoc. reflexivity.
        -- destruct H as [H|H]; injection H as <- <-; split; auto.
    + (* deliver: out_slots--, unlock *)
      injection H as <-.
      rewrite copy_unlock_fields.
      2:{ unfold holders. csimp. rewrite Er in *. unfold holders in Iout. cbn [crd_outh] in *. lia. }
      constructor; cprep; cfin.
      all: try solve [ destruct (Ish _ _ (or_introl eq_refl)); cfin ].
      all: try solve [ destruct H as [H|H]; [discriminate|injection H as <- <-]; apply (Ish _ _ (or_introl eq_refl)) ].
      all: try solve [ rewrite Irai, Ieof; cbn; lia ].
    + (* push *)
      injection H as <-.
      destruct (Ish _ _ (or_intror eq_refl)) as [Hb Hs].
      constructor; cprep; rewrite ?app_length, ?concat_app in *; cbn [length concat app] in *; cfin.
      all: try solve [ rewrite <- Idata by auto; rewrite <- !app_assoc, app_nil_r; destruct short; reflexivity ].
      all: try solve [ destruct short; cbn; lia ].
      all: try solve [ destruct short; cfin ].
      all: try solve [ rewrite Irai; f_equal; f_equal; destruct short; cbn; apply Nat.eqb_neq || idtac; try lia;
                       destruct (_ =? 0) eqn:Z; auto; apply Nat.eqb_eq in Z; lia ].
    + (* eof *)
      injection H as <-.
      rewrite copy_unlock_fields.
      2:{ unfold holders. csimp. rewrite Er in *. unfold holders in Iout. cbn [crd_outh] in *. lia. }
      constructor; cprep; cfin.
      all: try solve [ rewrite Irai, Ieof; cbn; lia ].
      all: idtac "REM eof"; match goal with |- ?G => idtac G end.
    + discriminate.
  - (* writer *)
    unfold cwriter_step in H. destruct (k_started s) eqn:St; [|discriminate]. cbn [negb] in H.
    specialize (Iin eq_refl). specialize (Iout eq_refl). specialize (Ieof eq_refl). specialize (Irai eq_refl).
    destruct (k_wr s) as [|buf| |] eqn:Ew.
    + destruct (k_outq s) as [|buf q] eqn:Eq.
      * destruct (k_finish s) eqn:Ef; [|discriminate]. injection H as <-.
        constructor; cprep; rewrite ?Eq in *; cbn [length concat app] in *; cfin.
        all: idtac "REM wexit"; match goal with |- ?G => idtac G end.
      * injection H as <-.
        constructor; cprep; rewrite ?Eq in *; cbn [length concat app] in *; cfin.
        all: try solve [ rewrite <- Idata by auto; rewrite <- !app_assoc; reflexivity ].
        all: idtac "REM wtake"; match goal with |- ?G => idtac G end.
    + injection H as <-.
      constructor; cprep; cfin.
      all: idtac "REM whold"; match goal with |- ?G => idtac G end.
    + injection H as <-.
      rewrite copy_unlock_fields.
      2:{ unfold holders. csimp. rewrite Ew in *. unfold holders in Iout. cbn [cwr_outh] in *. lia. }
      constructor; cprep; cfin.
      all: idtac "REM wrel"; match goal with |- ?G => idtac G end.
    + discriminate.
  - (* main *)
    unfold main_step in H. destruct (k_main s) eqn:Em.
    + (* sniff *)
      assert (St : k_started s = false) by (rewrite Ist, Em; reflexivity).
      destruct (Ipre St) as (P1 & P2 & P3 & P4 & P5). destruct (P5 eq_refl) as [P6 P7].
      destruct (xread_fills _ sniff_size (k_frag s) (k_rest s) []) as [fr E]. rewrite E in H. cbn [app] in H.
      destruct (is_magic _ _); [|destruct (fallback_cond _ _)]; injection H as <-.
      * constructor; cprep; cfin.
      * assert (Hh : firstn (copy_hdr_len (sniff_size - length (firstn sniff_size (k_rest s))))
                            (firstn sniff_size (k_rest s) ++ repeat garbage sniff_size) = firstn sniff_size (k_rest s)).
        { rewrite hdr_len_ok by lia.
          pose proof (firstn_le_length sniff_size (k_rest s)) as Hl.
          replace (sniff_size - (sniff_size - length (firstn sniff_size (k_rest s))))
            with (length (firstn sniff_size (k_rest s)) + 0) by lia.
          rewrite firstn_app_2. cbn. apply app_nil_r. }
        rewrite Hh.
        constructor; cprep; rewrite ?P2, ?P7 in *; cbn [app concat] in *; cfin.
        all: try solve [ rewrite <- P6; apply firstn_skipn ].
        all: idtac "REM sniff-copy"; match goal with |- ?G => idtac G end.
      * constructor; cprep; cfin.
    + discriminate.
    + discriminate.
    + (* copy(): init_io *)
      injection H as <-.
      assert (St : k_started s = false) by (rewrite Ist, Em; reflexivity).
      destruct (Ipre St) as (P1 & P2 & P3 & P4 & P5).
      constructor; cprep; rewrite ?P2, ?P4 in *; cbn [length app concat] in *; cfin.
      all: idtac "REM init_io"; match goal with |- ?G => idtac G end.
    + (* halt *)
      destruct (k_taken s <? k_raised s) eqn:Lt; [|discriminate]. injection H as <-. apply Nat.ltb_lt in Lt.
      constructor; cprep; cfin.
      all: idtac "REM halt"; match goal with |- ?G => idtac G end.
    + (* join reader *)
      destruct (k_rd s) eqn:Er; try discriminate. injection H as <-.
      constructor; cprep; cfin.
      all: idtac "REM joinr"; match goal with |- ?G => idtac G end.
    + (* join writer *)
      destruct (k_wr s) eqn:Ew; try discriminate. injection H as <-.
      constructor; cprep; cfin.
      all: idtac "REM joinw"; match goal with |- ?G => idtac G end.
    + discriminate.
Qed.
