(* Hand-written interface between the regenerated definitions (Gen/SchedCTab.v)
   and the scheduler models: the vocabulary the translator may emit.
   Nothing here states a threshold, a guard, a capacity or an order. *)
From Coq Require Import List NArith Arith Bool.
Import ListNotations.

(* struct position (process.h) *)
Record pos := mkpos { major : N; minor : N }.

Definition pos0 : pos := mkpos 0 0.

Definition pos_eq (a b : pos) : bool :=
  (major a =? major b)%N && (minor a =? minor b)%N.

Definition pos_lt (a b : pos) : bool :=
  (major a <? major b)%N || ((major a =? major b)%N && (minor a <? minor b)%N).

Definition pos_le (a b : pos) : bool := negb (pos_lt b a).

(* the rows of compress.c:task_list[] *)
Inductive task := T_collect | T_collect_seq | T_transmit | T_reorder.

Definition task_eqb (a b : task) : bool :=
  match a, b with
  | T_collect, T_collect | T_collect_seq, T_collect_seq
  | T_transmit, T_transmit | T_reorder, T_reorder => true
  | _, _ => false
  end.

(* What a guard may look at.  Queues are seen as the list of the positions of
   their elements, smallest first (peek = head); pointers as "non-NULL". *)
Record gview := mkgview {
  g_ultra : bool;
  g_eof : bool;
  g_coll_q : list pos;
  g_trans_q : list pos;
  g_reord_q : list pos;
  g_order : pos;
  g_work_units : nat;
  g_out_slots : nat;
  g_num_worker : nat;
  g_total_out_slots : nat;
  g_collect_token : bool;
  g_unfinished_work : bool
}.

Definition q_empty (q : list pos) : bool :=
  match q with [] => true | _ :: _ => false end.

Definition peek_pos (q : list pos) : pos := hd pos0 q.

(* counters used in a boolean context *)
Definition nat_true (x : nat) : bool := negb (x =? 0).
