(* Pool: the generic runtime of process.c (worker pool, scheduler monitor,
   reader and writer threads) as building blocks of a labelled transition
   system.  A process model (SchedC for compress.c, Copy for the -cdf pipeline)
   embeds these pieces in its state and gives the task segments.

   One event = one atomic action of one thread: a segment executed under the
   scheduler mutex (from its acquisition to sched_unlock(), to the task's
   return, to xwait() or to the worker's exit), or one action under the source
   or sink mutex.  The label of an event is the acting thread: every thread is
   a deterministic program, the only nondeterminism is the interleaving (and
   the input, which is a parameter of the initial state).

   Condition variable sched_cond: [wakeups] counts signals that have been sent
   to waiting workers and not yet consumed (never more than there are waiters:
   a signal with no waiter is lost, exactly as with pthread_cond_signal).  A
   waiting worker may leave xwait() at any time the mutex is free (spurious
   wake-ups are allowed); if a signal is pending it consumes it.  Which waiter
   a signal is for is not resolved: waiting workers have no local state. *)
From Coq Require Import List Arith Bool Lia.
From LBZ Require Import SchedC.SchedCIface.
Import ListNotations.

(* threads *)
Inductive tid := TW (i : nat) | TR | TS | TM.

Definition tid_eqb (a b : tid) : bool :=
  match a, b with
  | TW i, TW j => Nat.eqb i j
  | TR, TR | TS, TS | TM, TM => true
  | _, _ => false
  end.

(* what hook H3 writes at the end of an event (None: the event is not under the
   scheduler mutex / writes nothing) *)
Inductive reckind := OS (t : task) | OR | OU | OW | OX.

Section PoolDefs.
  Variable K : Type.       (* continuation of a thread inside process code *)
  Variable B : Type.       (* output buffers *)

  (* worker_thread_proc() *)
  Inductive wpc :=
  | PNew                   (* created, has not yet locked sched_mutex *)
  | PTop                   (* holds the mutex, at `while (next_task != NULL)` *)
  | PWait                  (* in xwait(&sched_cond, &sched_mutex) *)
  | PExit                  (* left the loop, broadcast done *)
  | PRun (k : K).          (* inside next_task->run() *)

  (* source_thread_proc() *)
  Inductive rpc :=
  | RIdle                  (* top of the loop, owns no slot *)
  | RRead                  (* took a slot (in_slots--), buffer allocated, in xread() *)
  | RRun (k : K)           (* inside process->on_block() *)
  | REof                   (* left the loop, before sched_lock(); eof = 1 *)
  | RDone.

  (* sink_thread_proc() *)
  Inductive spc :=
  | SIdle
  | SHold (b : B)          (* shifted b from output_q and wrote it; before on_written() *)
  | SRun (k : K)           (* inside process->on_written() *)
  | SDone.

  Definition is_wait (p : wpc) : bool := match p with PWait => true | _ => false end.
  Definition is_exit (p : wpc) : bool := match p with PExit => true | _ => false end.

  Definition n_waiting (ws : list wpc) : nat := length (filter is_wait ws).

  (* xsignal(&sched_cond) / xbroadcast(&sched_cond) *)
  Definition signal (wakeups : nat) (ws : list wpc) : nat := Nat.min (S wakeups) (n_waiting ws).
  Definition broadcast (ws : list wpc) : nat := n_waiting ws.

  Fixpoint upd {A} (l : list A) (i : nat) (x : A) : list A :=
    match l, i with
    | [], _ => []
    | _ :: t, O => x :: t
    | h :: t, S j => h :: upd t j x
    end.
End PoolDefs.

Arguments PNew {K}. Arguments PTop {K}. Arguments PWait {K}. Arguments PExit {K}. Arguments PRun {K} k.
Arguments RIdle {K}. Arguments RRead {K}. Arguments RRun {K} k. Arguments REof {K}. Arguments RDone {K}.
Arguments SIdle {K B}. Arguments SHold {K B} b. Arguments SRun {K B} k. Arguments SDone {K B}.
Arguments is_wait {K} p. Arguments is_exit {K} p. Arguments n_waiting {K} ws.
Arguments signal {K} wakeups ws. Arguments broadcast {K} ws.

(* select_task(): first ready task in the order of task_list[] *)
Definition select_first {T} (order : list T) (ready : T -> bool) : option T := find ready order.

Definition is_some {A} (o : option A) : bool := match o with Some _ => true | None => false end.

(* priority queues: the binary heap of process.h is abstracted to the list of its
   elements in increasing position order; enqueue = ordered insertion (after
   equal keys), peek = head, dequeue = tail. *)
Section PQ.
  Variable A : Type.
  Variable key : A -> pos.

  Fixpoint pq_insert (x : A) (q : list A) : list A :=
    match q with
    | [] => [x]
    | y :: t => if pos_lt (key x) (key y) then x :: y :: t else y :: pq_insert x t
    end.
End PQ.
Arguments pq_insert {A} key x q.
