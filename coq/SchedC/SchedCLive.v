(* Liveness of the compression scheduler: no lost wake-up, deadlock freedom. *)
From Coq Require Import List NArith Arith Bool Lia Permutation Sorted.
From LBZ Require Import SchedC.SchedCIface Gen.SchedCTab SchedC.Pool SchedC.PoolLemmas SchedC.SchedC SchedC.SchedCInv
  SchedC.Tiling SchedC.SchedCOrder.
Import ListNotations.

Section Live.
  Variable Data : Type.
  Variable Enc : Type.
  Variable data_len : Data -> N.
  Variable enc_empty : Enc.
  Variable collect : Enc -> Data -> Enc * Data * bool.

  Notation state := (state Data Enc).
  Notation cont := (cont Data Enc).
  Notation wpcs := (wpc cont).
  Notation step := (step data_len enc_empty collect).
  Notation Step := (Step data_len enc_empty collect).
  Notation Inv := (@Inv Data Enc).
  Notation Inv2 := (@Inv2 Data Enc).
  Notation hold_of := (@hold_of Data Enc).
  Notation wait_of := (@wait_of Data Enc).
  Notation units_of := (@units_of Data Enc).
  Notation reachable := (reachable data_len enc_empty collect).

  (* a worker that will come back to the scheduler on its own *)
  Definition awake_of (p : wpcs) : nat :=
    match p with PNew => 1 | PRun (KStart _) => 0 | PRun _ => 1 | _ => 0 end.
  Definition exited_of (p : wpcs) : nat := match p with PExit => 1 | _ => 0 end.

  (* side condition on the regenerated signalling condition of sched_unlock() *)
  Lemma unlock_signal_spec a b : unlock_signal a b = a || b.
  Proof. reflexivity. Qed.

  (* C11_no_lost_wakeup: whenever the mutex is free and there is something to do
     (a task is ready, or the process has finished and a worker has not yet exited),
     some worker is on its way: a pending signal for a waiter, or a worker that is
     running unlocked code / has not started yet *)
  Definition NL (s : state) : Prop :=
    lock s = None ->
    (is_some (next_task s) = true \/ (finished s = true /\ sumf exited_of (workers s) < length (workers s))) ->
    0 < wakeups s \/ 0 < sumf awake_of (workers s).

  Lemma classes (p : wpcs) : hold_of p + wait_of p + awake_of p + exited_of p = 1.
  Proof. destruct p as [| | | |[]]; reflexivity. Qed.

  Lemma sum_classes (ws : list wpcs) :
    sumf hold_of ws + sumf wait_of ws + sumf awake_of ws + sumf exited_of ws = length ws.
  Proof.
    induction ws as [|p ws IH]; [reflexivity|]. rewrite !sumf_cons. cbn [length]. pose proof (classes p). lia.
  Qed.

  Local Arguments select : simpl never.
  Local Arguments finished : simpl never.
  Local Arguments ready : simpl never.
  Local Arguments unlock_wakeups : simpl never.
  Local Arguments signal : simpl never.
  Local Arguments broadcast : simpl never.
  Local Arguments pq_insert : simpl never.
  Local Arguments upd : simpl never.
  Local Arguments sumf : simpl never.
  Local Arguments cap_output : simpl never.

  Ltac simp :=
    rewrite ?sched_unlock_eq, ?task_return_eq; unfold set_pc;
    cbn [nw ultra lvl lock next_task wakeups eof work_units in_slots out_slots coll_q trans_q reord_q order
         next_id collect_token unfinished workers rd input wr output_q written finish bad
         set_lock set_next_task set_wakeups set_eof set_work_units set_in_slots set_out_slots set_coll_q
         set_trans_q set_reord_q set_order set_next_id set_collect_token set_unfinished set_workers set_rd
         set_input set_wr set_output_q set_written set_finish set_bad].

  Ltac simp_in Z :=
    unfold set_pc in Z;
    cbn [nw ultra lvl lock next_task wakeups eof work_units in_slots out_slots coll_q trans_q reord_q order
         next_id collect_token unfinished workers rd input wr output_q written finish bad
         set_lock set_next_task set_wakeups set_eof set_work_units set_in_slots set_out_slots set_coll_q
         set_trans_q set_reord_q set_order set_next_id set_collect_token set_unfinished set_workers set_rd
         set_input set_wr set_output_q set_written set_finish set_bad] in Z.

  Ltac sums Hn p' :=
    pose proof (sumf_upd hold_of _ _ _ p' Hn);
    pose proof (sumf_upd wait_of _ _ _ p' Hn);
    pose proof (sumf_upd awake_of _ _ _ p' Hn);
    pose proof (sumf_upd exited_of _ _ _ p' Hn).

  (* after sched_unlock(): if there is something to do, a waiter is signalled or
     the state has an awake worker *)
  Lemma unlock_nl (X : state) :
    wakeups X <= sumf wait_of (workers X) ->
    (is_some (select X) = true \/ finished X = true) ->
    0 < unlock_wakeups Data Enc X \/ 0 < sumf awake_of (workers X) \/
    (sumf wait_of (workers X) = 0 /\ sumf awake_of (workers X) = 0).
  Proof.
    intros W P. unfold unlock_wakeups. rewrite unlock_signal_spec.
    assert (E : is_some (select X) || finished X = true) by (apply orb_true_iff; tauto).
    rewrite E. unfold signal. rewrite n_waiting_sumf. fold wait_of.
    destruct (sumf wait_of (workers X)) eqn:Ew; destruct (sumf awake_of (workers X)) eqn:Ea; lia.
  Qed.

  Lemma nl_step s e s' : Inv s -> Inv2 s -> 0 < nw s -> NL s -> step s e = Some s' -> NL s'.
  Proof.
    intros I J Npos Hnl H.
    pose proof (inv_step _ _ _ _ _ _ _ _ I H) as I'. pose proof (inv2_step _ _ _ _ _ _ _ _ I J H) as J'.
    apply step_Step in H.
    pose proof (sum_classes (workers s)) as Cl. pose proof (i_hold I) as Ih. pose proof (i_wake I) as Iw.
    pose proof (i_len I) as Il.
    destruct H as [i Hi L|i Hi L|i t Hi L Hn|i Hi L Hn Hf|i Hi L Hn Hf
                  |i Hi L Hq|i ib q wu b Hi L Hq Hd|i wub b2 Hi L Hw Hb|i Hi L Hq|i wb q os b Hi L Hq Hd
                  |i Hi L Hq|i wb q Hi L Hq
                  |i ib e d f Hi L Hc Hl|i ib e d f Hi Hc Hl|i wb Hi L
                  |i wbo ib wb0 e d f Hi L Hw Hc Hl|i wbo ib wb0 e d f Hi Hw Hc Hl|i wb Hi L
                  |i wb Hi L|i wb Hi L|i wb Hi L
                  |m Hr Hs|Hr Hin|d rest Hr Hin Hl L|Hr L|wb q Hw Hq|Hw Hq Hf|wb Hw L|Hall Hf Hr].
    all: unfold NL; simp; intros Lk Pr; try discriminate Lk.
    (* A: the mutex stays with its holder *)
    all: try solve [ rewrite L in Lk; discriminate Lk ].
    (* D/F: events that end with sched_unlock() *)
    all: try solve [
      match goal with |- 0 < unlock_wakeups _ _ ?X \/ _ =>
        let U := fresh "U" in
        assert (U : 0 < unlock_wakeups Data Enc X \/ 0 < sumf awake_of (workers X) \/
                    (sumf wait_of (workers X) = 0 /\ sumf awake_of (workers X) = 0));
        [ apply unlock_nl;
          [ simp; first [ match goal with Hw : nth_error (workers ?s0) ?j = Some _ |- context [upd (workers ?s0) ?j ?p'] =>
                            sums Hw p'; cbn [wait_of b2n is_wait] in *; lia end | lia ]
          | destruct Pr as [Pr|[Pr _]]; [left; exact Pr|right];
            match type of Pr with finished ?S' = true => rewrite (@finished_view Data Enc S' X eq_refl) in Pr end; exact Pr ]
        | destruct U as [U|[U|[U1 U2]]]; [left; exact U|right; simp_in U; exact U|exfalso] ]
      end;
      (* no waiter and nobody awake: impossible *)
      simp_in U1; simp_in U2;
      first [ match goal with Hw : nth_error (workers ?s0) ?j = Some _ |- _ =>
                match type of U2 with context [upd (workers ?s1) j ?p'] =>
                  pose proof (sumf_ge_nth awake_of _ _ _ (nth_error_upd_eq _ _ p' _ Hw)) as Z; cbn [awake_of] in Z; lia end end
            | (* reader / writer event with every worker exited *)
              rewrite L in Ih; cbn [is_some b2n] in Ih;
              assert (Hex : sumf exited_of (workers s) = nw s) by lia;
              destruct (sumf_pos_ex exited_of (workers s) ltac:(lia)) as (j & pj & Hj & Hp);
              destruct pj; try (cbn in Hp; lia);
              pose proof (j_exit J _ Hj) as Fin;
              destruct (finished_facts _ _ _ I Fin) as (Fe & _ & _ & _ & _ & _ & _ & _ & Fw & _);
              first [ rewrite (j_eof J), Hr in Fe; discriminate Fe | rewrite Hw in Fw; discriminate Fw ] ] ].
    - (* X: broadcast *)
      sums Hi (@PExit cont). pose proof (sum_classes (upd (workers s) i PExit)) as Cl'.
      rewrite upd_length in *. rewrite L in Ih. cbn [is_some b2n hold_of wait_of awake_of exited_of is_wait] in *.
      rewrite (broadcast_eq Data Enc). fold wait_of.
      destruct Pr as [Pr|[_ Pr]]; [rewrite Hn in Pr; discriminate Pr|]. lia.
    - (* W *)
      exfalso. destruct Pr as [Pr|[Pr _]]; [rewrite Hn in Pr; discriminate Pr|].
      match type of Pr with finished ?S' = true => rewrite (@finished_view Data Enc S' s eq_refl) in Pr end. congruence.
    - (* release *)
      match goal with |- context [upd (workers s) i ?p'] => sums Hi p' end.
      cbn [awake_of exited_of] in *. rewrite upd_length in Pr.
      destruct (Hnl Lk) as [U|U]; [|left; exact U|right; lia].
      destruct Pr as [Pr|[Pr1 Pr2]]; [left; exact Pr|right; split; [|lia]].
      match type of Pr1 with finished ?S' = true => rewrite (@finished_view Data Enc S' s eq_refl) in Pr1 end. exact Pr1.
    - match goal with |- context [upd (workers s) i ?p'] => sums Hi p' end.
      cbn [awake_of exited_of] in *. rewrite upd_length in Pr.
      destruct (Hnl Lk) as [U|U]; [|left; exact U|right; lia].
      destruct Pr as [Pr|[Pr1 Pr2]]; [left; exact Pr|right; split; [|lia]].
      match type of Pr1 with finished ?S' = true => rewrite (@finished_view Data Enc S' s eq_refl) in Pr1 end. exact Pr1.
    - apply (Hnl Lk). destruct Pr as [Pr|[Pr1 Pr2]]; [left; exact Pr|right; split; [|exact Pr2]].
      match type of Pr1 with finished ?S' = true => rewrite (@finished_view Data Enc S' s eq_refl) in Pr1 end. exact Pr1.
    - apply (Hnl Lk). destruct Pr as [Pr|[Pr1 Pr2]]; [left; exact Pr|right; split; [|exact Pr2]].
      match type of Pr1 with finished ?S' = true => rewrite (@finished_view Data Enc S' s eq_refl) in Pr1 end. exact Pr1.
    - apply (Hnl Lk). destruct Pr as [Pr|[Pr1 Pr2]]; [left; exact Pr|right; split; [|exact Pr2]].
      match type of Pr1 with finished ?S' = true => rewrite (@finished_view Data Enc S' s eq_refl) in Pr1 end. exact Pr1.
    - apply (Hnl Lk). destruct Pr as [Pr|[Pr1 Pr2]]; [left; exact Pr|right; split; [|exact Pr2]].
      match type of Pr1 with finished ?S' = true => rewrite (@finished_view Data Enc S' s eq_refl) in Pr1 end. exact Pr1.
    - apply (Hnl Lk). destruct Pr as [Pr|[Pr1 Pr2]]; [left; exact Pr|right; split; [|exact Pr2]].
      match type of Pr1 with finished ?S' = true => rewrite (@finished_view Data Enc S' s eq_refl) in Pr1 end. exact Pr1.
  Qed.

  Lemma nl_init n u l inp : 1 <= n -> NL (@init Data Enc n u l inp).
  Proof.
    intros N. unfold NL. intros _ _. right.
    change (workers (@init Data Enc n u l inp)) with (repeat (@PNew cont) n).
    rewrite sumf_repeat. cbn [awake_of]. lia.
  Qed.

  Theorem c11_no_lost_wakeup n u l inp s : 1 <= n -> reachable n u l inp s -> NL s.
  Proof.
    intros N R. unfold SchedCInv.reachable in R.
    assert (H : Inv s /\ Inv2 s /\ nw s = n /\ NL s); [|tauto].
    induction R as [|s e s' R IH H].
    - split; [apply inv_init|split; [apply inv2_init|split; [reflexivity|apply nl_init; auto]]].
    - destruct IH as (I & J & En & Hn). split; [eapply inv_step; eauto|]. split; [eapply inv2_step; eauto|].
      split.
      + rewrite <- En. apply step_Step in H. destruct H; simp; reflexivity.
      + eapply nl_step; eauto. lia.
  Qed.

  (* ================= deadlock freedom (default mode) ================= *)
  Notation OInv := (@OInv Data Enc).
  Notation out_of := (@out_of Data Enc).
  Notation in_of := (@in_of Data Enc).
  Notation wr_out := (@wr_out Data Enc).
  Notation rd_in := (@rd_in Data Enc).
  Notation iv_wb := (@iv_wb Enc).
  Notation iv_ib := (@iv_ib Data).
  Notation items := (@items Data Enc).
  Notation items_pc := (@items_pc Data Enc).

  (* slot holders that are not ahead of [order] *)
  Definition le_order_pc (o : pos) (p : wpcs) : nat :=
    match p with PRun (KTransmit wb) => b2n (pos_le (wb_pos wb) o) | _ => 0 end.
  Definition le_order_q (o : pos) (q : list (wblk Enc)) : nat :=
    length (filter (fun wb => pos_le (wb_pos wb) o) q).
  Definition reserve (s : state) : nat :=
    out_slots s + length (output_q s) + wr_out (wr s) +
    sumf (le_order_pc (order s)) (workers s) + le_order_q (order s) (reord_q s).

  (* position of the block a work-unit holder is working on *)
  Definition unit_pos (p : wpcs) : option pos :=
    match p with
    | PRun (KCollect ib) => Some (ib_pos ib)
    | PRun (KEncode wb) | PRun (KTransmit wb) => Some (wb_pos wb)
    | _ => None
    end.
  Definition holder_pos (s : state) (p : pos) : Prop :=
    (exists wb, In wb (trans_q s) /\ wb_pos wb = p) \/
    (exists i pc, nth_error (workers s) i = Some pc /\ unit_pos pc = Some p).

  Record PInv (s : state) : Prop := {
    p_sc : ksorted (@ib_pos Data) (coll_q s);
    p_st : ksorted (@wb_pos Enc) (trans_q s);
    p_sr : ksorted (@wb_pos Enc) (reord_q s);
    p_res : TRANSM_THRESH <= reserve s;
    p_unit : work_units s = 0 -> coll_q s <> [] ->
             exists p, holder_pos s p /\ forall ib, In ib (coll_q s) -> plt p (ib_pos ib)
  }.

  (* side conditions on the regenerated constants *)
  Lemma thresh_le_total n : TRANSM_THRESH <= total_out n.
  Proof. unfold TRANSM_THRESH, total_out, total_out_slots_compress. lia. Qed.
  Lemma thresh_pos : 1 <= TRANSM_THRESH.
  Proof. unfold TRANSM_THRESH. lia. Qed.
  Lemma total_in_pos n : 1 <= n -> 0 < total_in n.
  Proof. unfold total_in, total_in_slots_compress. lia. Qed.

  Lemma pos_le_spec a b : pos_le a b = true <-> ple a b.
  Proof.
    unfold pos_le. rewrite negb_true_iff, pos_lt_false. split.
    - apply not_plt_ple.
    - intros [->|H] C; [eapply plt_irrefl; eauto|eapply plt_asym; eauto].
  Qed.

  Lemma pos_le_mono a o o' : pos_le a o = true -> plt o o' -> pos_le a o' = true.
  Proof. rewrite !pos_le_spec. intros H L. right. eapply ple_plt_trans; eauto. Qed.

  Lemma le_order_q_mono o o' q : plt o o' -> le_order_q o q <= le_order_q o' q.
  Proof.
    intros L. unfold le_order_q. induction q as [|wb q IH]; cbn; [lia|].
    destruct (pos_le (wb_pos wb) o) eqn:E.
    - rewrite (pos_le_mono _ _ _ E L). cbn. lia.
    - destruct (pos_le (wb_pos wb) o'); cbn; lia.
  Qed.

  Lemma le_order_pc_mono o o' (ws : list wpcs) : plt o o' -> sumf (le_order_pc o) ws <= sumf (le_order_pc o') ws.
  Proof.
    intros L. induction ws as [|p ws IH]; [unfold sumf; cbn; lia|]. rewrite !sumf_cons.
    assert (le_order_pc o p <= le_order_pc o' p); [|lia].
    destruct p as [| | | |[]]; cbn; try lia.
    destruct (pos_le (wb_pos wb) o) eqn:E; [rewrite (pos_le_mono _ _ _ E L); cbn; lia|cbn; lia].
  Qed.

  Lemma filter_perm_length {A} (f : A -> bool) l l' : Permutation l l' -> length (filter f l) = length (filter f l').
  Proof.
    induction 1; cbn; auto.
    - destruct (f x); cbn; lia.
    - destruct (f x); destruct (f y); cbn; lia.
    - lia.
  Qed.

  Lemma le_order_q_insert o wb q :
    le_order_q o (pq_insert (@wb_pos Enc) wb q) = b2n (pos_le (wb_pos wb) o) + le_order_q o q.
  Proof.
    unfold le_order_q. rewrite (filter_perm_length _ _ _ (pq_insert_perm (@wb_pos Enc) wb q)). cbn.
    destruct (pos_le (wb_pos wb) o); reflexivity.
  Qed.


  Lemma tiling_insert_fresh {A} (f : A -> ival) (key : A -> pos) x q p l e :
    (forall z, fst (f z) = key z) -> Tiling p l e ->
    (forall z, cnt z (map f (pq_insert key x q)) <= cnt z l) ->
    forall y, In y q -> key y <> key x.
  Proof.
    intros K T C y Hy E.
    assert (Ix : In (f x) l).
    { apply cnt_pos_in. specialize (C (f x)). rewrite cnt_map_insert, cnt_self in C. lia. }
    assert (Iy : In (f y) l).
    { apply cnt_pos_in. specialize (C (f y)). rewrite cnt_map_insert in C.
      assert (0 < cnt (f y) (map f q)) by (apply cnt_pos_in; apply in_map; auto). lia. }
    assert (Ef : f y = f x).
    { destruct (f x) as [a b] eqn:Ex; destruct (f y) as [a' b'] eqn:Ey.
      pose proof (K x) as Kx. pose proof (K y) as Ky. rewrite Ex in Kx. rewrite Ey in Ky. cbn in Kx, Ky.
      assert (a' = a) by congruence. subst. rewrite H in Iy.
      pose proof (tiling_distinct _ _ _ _ _ _ T Iy Ix). congruence. }
    specialize (C (f x)). rewrite cnt_map_insert, cnt_self in C.
    assert (0 < cnt (f x) (map f q)) by (apply cnt_pos_in; rewrite <- Ef; apply in_map; auto).
    pose proof (tiling_once _ _ _ (f x) T). lia.
  Qed.


  Arguments p_sc {s} _. Arguments p_st {s} _. Arguments p_sr {s} _. Arguments p_res {s} _. Arguments p_unit {s} _.

  Lemma ready_transmit_res (s : state) wb q : ready s T_transmit = true -> trans_q s = wb :: q ->
    TRANSM_THRESH < out_slots s \/ (0 < out_slots s /\ wb_pos wb = order s).
  Proof.
    unfold ready, task_guard, can_transmit. cbn [view g_trans_q g_out_slots g_order]. intros H E. rewrite E in H.
    cbn [map peek_pos hd] in H. rewrite !andb_true_iff, orb_true_iff, andb_true_iff, !Nat.ltb_lt in H.
    destruct H as [_ [H|[H1 H2]]]; [left; auto|right; split; auto; apply pos_eq_spec; auto].
  Qed.

End Live.
