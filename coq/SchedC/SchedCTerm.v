(* Termination measure of the compression scheduler (default mode): every event
   except an idle (spurious) wake-up strictly decreases a lexicographic measure. *)
From Coq Require Import List NArith Arith Bool Lia.
From LBZ Require Import SchedC.SchedCIface Gen.SchedCTab SchedC.Pool SchedC.PoolLemmas SchedC.SchedC SchedC.SchedCInv
  SchedC.Tiling SchedC.SchedCOrder SchedC.SchedCLive SchedC.SchedCProg.
Import ListNotations.

Section Term.
  Variable Data : Type.
  Variable Enc : Type.
  Variable data_len : Data -> N.
  Variable enc_empty : Enc.
  Variable collect : Enc -> Data -> Enc * Data * bool.
  (* collect() on a non-empty input consumes at least one byte (it is only called on
     encoders that are not full) *)
  Hypothesis collect_shrinks : forall e d, (0 < data_len d)%N ->
    (data_len (snd (fst (collect e d))) < data_len d)%N.

  Notation state := (state Data Enc).
  Notation cont := (cont Data Enc).
  Notation wpcs := (wpc cont).
  Notation step := (step data_len enc_empty collect).
  Notation Inv := (@Inv Data Enc).
  Notation OInv := (@OInv Data Enc).
  Notation reachable := (reachable data_len enc_empty collect).
  Notation productive := (@productive Data Enc).

  Definition dl (d : Data) : nat := N.to_nat (data_len d).

  (* A: work that remains to be done *)
  Definition w_ib (ib : iblk Data) : nat := 40 * dl (ib_data ib) + 2.
  Definition w_pc (p : wpcs) : nat :=
    match p with
    | PRun (KCollect ib) => 40 * dl (ib_data ib)
    | PRun (KSeq wbo ibo) => (match wbo with Some _ => 15 | None => 0 end) +
                             (match ibo with Some ib => 40 * dl (ib_data ib) | None => 0 end)
    | PRun (KSeqFin _ _) => 18
    | PRun (KEncode _) => 14
    | PRun (KTransmit _) => 10
    | _ => 0
    end.
  Definition w_rd (r : rpc cont) : nat := match r with RIdle => 3 | RRead => 2 | REof => 1 | _ => 0 end.
  Definition w_wr (w : spc cont (wblk Enc)) : nat := match w with SHold _ => 4 | SIdle => 1 | _ => 0 end.

  Definition work (s : state) : nat :=
    sumf (fun d => 40 * dl d + 6) (input s) + w_rd (rd s) +
    sumf w_ib (coll_q s) + 12 * length (trans_q s) + 8 * length (reord_q s) + 6 * length (output_q s) +
    (match unfinished s with Some _ => 16 | None => 0 end) +
    w_wr (wr s) + sumf w_pc (workers s) + (if finish s then 0 else 1).

  (* B: workers that have not exited;  C: scheduling noise *)
  Definition alive (s : state) : nat := sumf (fun p : wpcs => match p with PExit => 0 | _ => 1 end) (workers s).
  Definition n_pc (p : wpcs) : nat := match p with PNew => 3 | PTop => 2 | PRun (KStart _) => 1 | _ => 0 end.
  Definition noise (s : state) : nat := sumf n_pc (workers s) + 3 * wakeups s.

  Definition lt3 (a b : nat * nat * nat) : Prop :=
    let '(a1, a2, a3) := a in let '(b1, b2, b3) := b in
    a1 < b1 \/ (a1 = b1 /\ (a2 < b2 \/ (a2 = b2 /\ a3 < b3))).

  Definition measure (s : state) : nat * nat * nat := (work s, alive s, noise s).

  (* every input block in the system is non-empty *)
  Definition NE (s : state) : Prop :=
    Forall (fun ib => 0 < dl (ib_data ib)) (coll_q s) /\
    (forall i ib, nth_error (workers s) i = Some (PRun (KCollect ib)) -> 0 < dl (ib_data ib)) /\
    (forall i wbo ib, nth_error (workers s) i = Some (PRun (KSeq wbo (Some ib))) -> 0 < dl (ib_data ib)).

  Lemma sumf_insert {A} (f : A -> nat) key x q : sumf f (pq_insert key x q) = f x + sumf f q.
  Proof.
    induction q as [|y q IH]; [reflexivity|]. cbn [pq_insert].
    destruct (pos_lt (key x) (key y)); [reflexivity|]. rewrite !sumf_cons, IH. lia.
  Qed.

  Local Arguments select : simpl never.
  Local Arguments finished : simpl never.
  Local Arguments ready : simpl never.
  Local Arguments unlock_wakeups : simpl never.
  Local Arguments signal : simpl never.
  Local Arguments broadcast : simpl never.
  Local Arguments pq_insert : simpl never.
  Local Arguments upd : simpl never.
  Local Arguments sumf : simpl never.
  Local Arguments cap_output : simpl never.
  Local Arguments Nat.mul : simpl never.

  Ltac simp :=
    rewrite ?sched_unlock_eq, ?task_return_eq; unfold set_pc;
    cbn [nw ultra lvl lock next_task wakeups eof work_units in_slots out_slots coll_q trans_q reord_q order
         next_id collect_token unfinished workers rd input wr output_q written finish bad
         set_lock set_next_task set_wakeups set_eof set_work_units set_in_slots set_out_slots set_coll_q
         set_trans_q set_reord_q set_order set_next_id set_collect_token set_unfinished set_workers set_rd
         set_input set_wr set_output_q set_written set_finish set_bad].

  Lemma measure_decreases s e s' : Inv s -> NE s -> step s e = Some s' -> productive s e = true ->
    lt3 (measure s') (measure s).
  Proof.
    intros I (Nq & Nw & Ns) H Pr.
    apply step_Step in H.
    destruct H as [i Hi L|i Hi L|i t Hi L Hn|i Hi L Hn Hf|i Hi L Hn Hf
                  |i Hi L Hq|i ib q wu b Hi L Hq Hd|i wub b2 Hi L Hw Hb|i Hi L Hq|i wb q os b Hi L Hq Hd
                  |i Hi L Hq|i wb q Hi L Hq
                  |i ib e d f Hi L Hc Hl|i ib e d f Hi Hc Hl|i wb Hi L
                  |i wbo ib wb0 e d f Hi L Hw Hc Hl|i wbo ib wb0 e d f Hi Hw Hc Hl|i wb Hi L
                  |i wb Hi L|i wb Hi L|i wb Hi L
                  |m Hr Hs|Hr Hin|d rest Hr Hin Hl L|Hr L|wb q Hw Hq|Hw Hq Hf|wb Hw L|Hall Hf Hr].
    (* dequeue from an empty queue: excluded by the guards *)
    6: { exfalso. pose proof (i_ready I _ _ Hi) as R. apply ready_collect in R. tauto. }
    8: { exfalso. pose proof (i_ready I _ _ Hi) as R. apply ready_transmit in R. tauto. }
    9: { exfalso. pose proof (i_ready I _ _ Hi) as R. apply ready_reorder in R. tauto. }
    (* a waiter only wakes productively if a signal is pending *)
    2: { unfold SchedCProg.productive in Pr. rewrite Hi in Pr. apply Nat.ltb_lt in Pr.
         unfold measure, lt3, work, alive, noise; simp.
         pose proof (sumf_upd w_pc _ _ _ (@PTop cont) Hi).
         pose proof (sumf_upd (fun p : wpcs => match p with PExit => 0 | _ => 1 end) _ _ _ (@PTop cont) Hi).
         pose proof (sumf_upd n_pc _ _ _ (@PTop cont) Hi). cbn [w_pc n_pc] in *. lia. }
    (* collect_seq starts: something is taken (the guard) *)
    6: { pose proof (i_ready I _ _ Hi) as R. apply ready_collect_seq in R. destruct R as [R1 _].
         unfold measure, lt3, work, alive, noise; simp.
         pose proof (sumf_upd w_pc _ _ _ (PRun (KSeq (unfinished s) (match coll_q s with [] => None | ib :: _ => Some ib end))) Hi) as Su.
         cbn [w_pc] in Su. left.
         destruct (coll_q s) as [|y q0]; destruct (unfinished s) as [u|];
           cbn [tl] in *; rewrite ?sumf_cons in *; unfold w_ib in *; try lia.
         destruct R1; congruence. }
    all: unfold measure, lt3, work, alive, noise; simp.
    all: try (match goal with Hw : nth_error (workers ?s0) ?j = Some _ |- context [upd (workers ?s0) ?j ?p'] =>
                pose proof (sumf_upd w_pc _ _ _ p' Hw);
                pose proof (sumf_upd (fun p : wpcs => match p with PExit => 0 | _ => 1 end) _ _ _ p' Hw);
                pose proof (sumf_upd n_pc _ _ _ p' Hw) end).
    all: rewrite ?sumf_insert, ?pq_insert_length, ?app_length; rewrite ?Hq, ?Hr, ?Hw, ?Hin in *;
         cbn [w_pc n_pc w_rd w_wr length ib_data] in *; rewrite ?sumf_cons in *; unfold w_ib in *; cbn [ib_data] in *.
    all: try lia.
    (* collect(): the remainder is strictly shorter, the chunk was not empty *)
    all: try solve [
      pose proof (Nw _ _ Hi) as Npos; pose proof (collect_shrinks enc_empty (ib_data ib)) as Sh; rewrite Hc in Sh; cbn [fst snd] in Sh;
      unfold dl in *; lia ].
    all: try solve [
      pose proof (Ns _ _ _ Hi) as Npos;
      match type of Hc with collect ?e0 ?d0 = _ => pose proof (collect_shrinks e0 d0) as Sh end; rewrite Hc in Sh;
      cbn [fst snd] in Sh; destruct wbo; unfold dl in *; lia ].
    - destruct (data_len d <? in_granul (lvl s))%N; cbn [w_rd]; lia.
    - rewrite Hf. lia.
  Qed.

  (* the non-emptiness invariant *)
  Lemma ne_step s e s' : Inv s -> NE s -> step s e = Some s' -> NE s'.
  Proof.
    intros I (Nq & Nw & Ns) H. apply step_Step in H.
    destruct H as [i Hi L|i Hi L|i t Hi L Hn|i Hi L Hn Hf|i Hi L Hn Hf
                  |i Hi L Hq|i ib q wu b Hi L Hq Hd|i wub b2 Hi L Hw Hb|i Hi L Hq|i wb q os b Hi L Hq Hd
                  |i Hi L Hq|i wb q Hi L Hq
                  |i ib e d f Hi L Hc Hl|i ib e d f Hi Hc Hl|i wb Hi L
                  |i wbo ib wb0 e d f Hi L Hw Hc Hl|i wbo ib wb0 e d f Hi Hw Hc Hl|i wb Hi L
                  |i wb Hi L|i wb Hi L|i wb Hi L
                  |m Hr Hs|Hr Hin|d rest Hr Hin Hl L|Hr L|wb q Hw Hq|Hw Hq Hf|wb Hw L|Hall Hf Hr].
    all: split; [|split]; simp; auto.
    all: try solve [ intros j ib0 Hj; apply nth_upd_cases in Hj; destruct Hj as [[-> Hj]|[? Hj]]; [discriminate Hj|eauto] ].
    all: try solve [ intros j wbo0 ib0 Hj; apply nth_upd_cases in Hj; destruct Hj as [[-> Hj]|[? Hj]]; [discriminate Hj|eauto] ].
    all: try solve [ rewrite Hq in Nq; inversion Nq; auto ].
    all: try solve [ apply Forall_forall; intros y Hy; apply pq_insert_in in Hy; destruct Hy as [->|Hy];
                     [cbn; unfold dl; lia|rewrite Forall_forall in Nq; auto] ].
    - intros j ib0 Hj. apply nth_upd_cases in Hj. destruct Hj as [[-> Hj]|[? Hj]]; [|eauto].
      injection Hj as <-. rewrite Hq in Nq. inversion Nq; auto.
    - destruct (coll_q s); cbn [tl]; [constructor|inversion Nq; auto].
    - intros j wbo0 ib0 Hj. apply nth_upd_cases in Hj. destruct Hj as [[-> Hj]|[? Hj]]; [|eauto].
      injection Hj as _ Hc0. destruct (coll_q s) as [|y q0]; [discriminate Hc0|]. injection Hc0 as <-. inversion Nq; auto.
  Qed.

  Lemma ne_init n u l inp : NE (@init Data Enc n u l inp).
  Proof.
    split; [|split]; cbn; [constructor| |]; intros; match goal with H : nth_error _ _ = _ |- _ =>
      apply nth_error_In in H; apply repeat_spec in H; discriminate end.
  Qed.

  (* C11_terminates (both modes): every productive event strictly decreases the
     measure (work left, workers alive, scheduling noise), lexicographically *)
  Theorem c11_terminates n u l inp s e s' : reachable n u l inp s ->
    step s e = Some s' -> productive s e = true -> lt3 (measure s') (measure s).
  Proof.
    intros R H Pr.
    assert (X : Inv s /\ NE s).
    { clear H Pr. unfold SchedCInv.reachable in R. induction R as [|s0 e0 s1 R IH H0].
      - split; [apply inv_init|apply ne_init].
      - destruct IH as (I & Ne). split; [eapply inv_step; eauto|eapply ne_step; eauto]. }
    destruct X as (I & Ne). eapply measure_decreases; eauto.
  Qed.

  Lemma lt3_wf : well_founded lt3.
  Proof.
    assert (A : forall a b c, Acc lt3 (a, b, c)).
    { induction a as [a IHa] using lt_wf_ind. induction b as [b IHb] using lt_wf_ind.
      induction c as [c IHc] using lt_wf_ind. constructor. intros [[a' b'] c'] H. cbn in H.
      destruct H as [H|[-> [H|[-> H]]]]; auto. }
    intros [[a b] c]. apply A.
  Qed.
End Term.
