(* Lemmas about the Pool building blocks: worker-list updates, counting over the
   worker list, ordered insertion, positions. *)
From Coq Require Import List NArith Arith Bool Lia Permutation Sorted.
From LBZ Require Import SchedC.SchedCIface SchedC.Pool.
Import ListNotations.

(* ---- positions ---- *)
Definition plt (a b : pos) : Prop :=
  (major a < major b)%N \/ (major a = major b /\ (minor a < minor b)%N).
Definition ple (a b : pos) : Prop := a = b \/ plt a b.

Lemma pos_lt_spec a b : pos_lt a b = true <-> plt a b.
Proof.
  unfold pos_lt, plt. rewrite orb_true_iff, andb_true_iff, !N.ltb_lt, N.eqb_eq. tauto.
Qed.

Lemma pos_lt_false a b : pos_lt a b = false <-> ~ plt a b.
Proof. rewrite <- pos_lt_spec. destruct (pos_lt a b); intuition congruence. Qed.

Lemma pos_eq_spec a b : pos_eq a b = true <-> a = b.
Proof.
  unfold pos_eq. rewrite andb_true_iff, !N.eqb_eq. destruct a, b; cbn. split.
  - intros [-> ->]; reflexivity.
  - intros H; inversion H; auto.
Qed.

Lemma plt_irrefl a : ~ plt a a.
Proof. unfold plt. lia. Qed.

Lemma plt_trans a b c : plt a b -> plt b c -> plt a c.
Proof. unfold plt. lia. Qed.

Lemma plt_asym a b : plt a b -> ~ plt b a.
Proof. unfold plt. lia. Qed.

Lemma plt_total a b : plt a b \/ a = b \/ plt b a.
Proof.
  destruct a as [a1 a2], b as [b1 b2]. unfold plt; cbn.
  destruct (N.lt_trichotomy a1 b1) as [|[|]]; destruct (N.lt_trichotomy a2 b2) as [|[|]]; subst; auto; lia.
Qed.

Lemma ple_refl a : ple a a. Proof. left; reflexivity. Qed.
Lemma ple_trans a b c : ple a b -> ple b c -> ple a c.
Proof. unfold ple. intros [->|H1] [->|H2]; auto. right. eapply plt_trans; eauto. Qed.
Lemma plt_ple_trans a b c : plt a b -> ple b c -> plt a c.
Proof. intros H [->|H2]; auto. eapply plt_trans; eauto. Qed.
Lemma ple_plt_trans a b c : ple a b -> plt b c -> plt a c.
Proof. intros [->|H1] H; auto. eapply plt_trans; eauto. Qed.
Lemma not_plt_ple a b : ~ plt a b -> ple b a.
Proof. intros H. destruct (plt_total a b) as [|[->|]]; [tauto|left; auto|right; auto]. Qed.

Lemma plt_minor_succ p : plt p (mkpos (major p) (minor p + 1)).
Proof. unfold plt; cbn. lia. Qed.
Lemma plt_major_succ p : plt p (mkpos (major p + 1) 0).
Proof. unfold plt; cbn. lia. Qed.

(* ---- upd / nth_error ---- *)
Section Upd.
  Context {A : Type}.

  Lemma upd_length (l : list A) i x : length (upd l i x) = length l.
  Proof. revert i; induction l; destruct i; cbn; auto. Qed.

  Lemma nth_error_upd_eq (l : list A) i x y : nth_error l i = Some y -> nth_error (upd l i x) i = Some x.
  Proof. revert i; induction l; destruct i; cbn; intros; try discriminate; auto. Qed.

  Lemma nth_error_upd_neq (l : list A) i j x : i <> j -> nth_error (upd l i x) j = nth_error l j.
  Proof. revert i j; induction l; destruct i, j; cbn; intros; auto; try congruence. Qed.

  Lemma nth_error_split_upd (l : list A) i y :
    nth_error l i = Some y ->
    exists l1 l2, l = l1 ++ y :: l2 /\ length l1 = i /\ forall x, upd l i x = l1 ++ x :: l2.
  Proof.
    revert i; induction l as [|a l IH]; destruct i; cbn; intros H; try discriminate.
    - inversion H; subst. exists [], l. auto.
    - destruct (IH _ H) as (l1 & l2 & -> & <- & U). exists (a :: l1), l2. cbn.
      repeat split; auto. intros x. rewrite U. reflexivity.
  Qed.

  Lemma nth_error_upd (l : list A) i j x :
    nth_error (upd l i x) j = if Nat.eqb i j then (match nth_error l i with Some _ => Some x | None => None end)
                              else nth_error l j.
  Proof.
    destruct (Nat.eqb_spec i j) as [->|N].
    - destruct (nth_error l j) eqn:E.
      + eapply nth_error_upd_eq; eauto.
      + apply nth_error_None. rewrite upd_length. apply nth_error_None; auto.
    - apply nth_error_upd_neq; auto.
  Qed.
End Upd.

(* ---- counting over the worker list ---- *)
Definition sumf {A} (f : A -> nat) (l : list A) : nat := list_sum (map f l).

Lemma sumf_app {A} (f : A -> nat) l1 l2 : sumf f (l1 ++ l2) = sumf f l1 + sumf f l2.
Proof. unfold sumf. rewrite map_app, list_sum_app. reflexivity. Qed.

Lemma sumf_cons {A} (f : A -> nat) x l : sumf f (x :: l) = f x + sumf f l.
Proof. reflexivity. Qed.

Lemma sumf_upd {A} (f : A -> nat) l i y x :
  nth_error l i = Some y -> sumf f (upd l i x) + f y = sumf f l + f x.
Proof.
  intros H. destruct (nth_error_split_upd _ _ _ H) as (l1 & l2 & -> & _ & U).
  rewrite U, !sumf_app, !sumf_cons. lia.
Qed.

Lemma sumf_repeat {A} (f : A -> nat) x n : sumf f (repeat x n) = n * f x.
Proof. induction n; cbn [repeat]; [reflexivity|]. rewrite sumf_cons, IHn. lia. Qed.

Lemma sumf_zero_all {A} (f : A -> nat) l : sumf f l = 0 -> forall x, In x l -> f x = 0.
Proof.
  induction l as [|a l IHl]; intros H x I; [destruct I|]. rewrite sumf_cons in H. destruct I as [->|I]; [lia|]. apply IHl; auto; lia.
Qed.

Lemma sumf_all_zero {A} (f : A -> nat) l : (forall x, In x l -> f x = 0) -> sumf f l = 0.
Proof.
  induction l as [|a l IHl]; intros H; [reflexivity|]. rewrite sumf_cons, H, IHl; [reflexivity| |left; reflexivity].
  intros; apply H; right; auto.
Qed.

Lemma sumf_pos_ex {A} (f : A -> nat) l : 0 < sumf f l -> exists i x, nth_error l i = Some x /\ 0 < f x.
Proof.
  induction l as [|a l IHl]; [unfold sumf; cbn; lia|]. rewrite sumf_cons. intros H.
  destruct (f a) eqn:E.
  - destruct IHl as (i & x & H1 & H2); [lia|]. exists (S i), x. auto.
  - exists 0, a. cbn. split; auto. lia.
Qed.

Lemma sumf_ge_nth {A} (f : A -> nat) l i x : nth_error l i = Some x -> f x <= sumf f l.
Proof.
  intros H. destruct (nth_error_split_upd _ _ _ H) as (l1 & l2 & -> & _ & _).
  rewrite sumf_app, sumf_cons. lia.
Qed.

Definition b2n (b : bool) : nat := if b then 1 else 0.

Lemma n_waiting_sumf {K} (ws : list (wpc K)) : n_waiting ws = sumf (fun p => b2n (is_wait p)) ws.
Proof.
  unfold n_waiting, sumf. induction ws as [|p ws IH]; cbn; auto.
  destruct (is_wait p); cbn; rewrite IH; reflexivity.
Qed.

Lemma forallb_nth {A} (f : A -> bool) l : forallb f l = true <-> forall i x, nth_error l i = Some x -> f x = true.
Proof.
  rewrite forallb_forall. split; intros H.
  - intros i x E. apply H. eapply nth_error_In; eauto.
  - intros x I. destruct (In_nth_error _ _ I) as [i E]. eauto.
Qed.

(* ---- ordered insertion ---- *)
Section PQ.
  Context {A : Type} (key : A -> pos).

  Lemma pq_insert_perm x q : Permutation (pq_insert key x q) (x :: q).
  Proof.
    induction q as [|y q IH]; cbn; auto. destruct (pos_lt (key x) (key y)); auto.
    rewrite IH. apply perm_swap.
  Qed.

  Lemma pq_insert_length x q : length (pq_insert key x q) = S (length q).
  Proof. rewrite (Permutation_length (pq_insert_perm x q)). reflexivity. Qed.

  Lemma pq_insert_in x q y : In y (pq_insert key x q) <-> y = x \/ In y q.
  Proof.
    split; intros H.
    - apply (Permutation_in _ (pq_insert_perm x q)) in H. destruct H; auto.
    - apply (Permutation_in _ (Permutation_sym (pq_insert_perm x q))). destruct H; [left|right]; auto.
  Qed.

  (* sorted by key, strictly: keys are distinct *)
  Definition ksorted (q : list A) : Prop := StronglySorted (fun a b => plt (key a) (key b)) q.

  Lemma ksorted_insert x q :
    ksorted q -> (forall y, In y q -> key y <> key x) -> ksorted (pq_insert key x q).
  Proof.
    unfold ksorted. induction q as [|y q IH]; cbn; intros S D.
    - repeat constructor.
    - inversion S as [|? ? S1 S2]; subst.
      destruct (pos_lt (key x) (key y)) eqn:E.
      + constructor; auto. constructor.
        * apply pos_lt_spec; auto.
        * rewrite Forall_forall in *. intros z Hz. eapply plt_trans; [apply pos_lt_spec; eauto|auto].
      + constructor.
        * apply IH; auto.
        * rewrite Forall_forall in *. intros z Hz. apply pq_insert_in in Hz. destruct Hz as [->|Hz]; auto.
          apply pos_lt_false in E. destruct (plt_total (key y) (key x)) as [|[Q|]]; auto; [|tauto].
          exfalso. eapply D; eauto.
    Qed.

  Lemma ksorted_tail x q : ksorted (x :: q) -> ksorted q.
  Proof. intros S; inversion S; auto. Qed.

  Lemma ksorted_head_min x q y : ksorted (x :: q) -> In y q -> plt (key x) (key y).
  Proof. intros S I; inversion S as [|? ? _ F]; subst. rewrite Forall_forall in F; auto. Qed.

  Lemma ksorted_nodup_keys q : ksorted q -> NoDup (map key q).
  Proof.
    induction q as [|x q IH]; cbn; intros S; constructor.
    - intros I. apply in_map_iff in I. destruct I as (y & E & I).
      pose proof (ksorted_head_min _ _ _ S I) as L. rewrite E in L. eapply plt_irrefl; eauto.
    - apply IH. eapply ksorted_tail; eauto.
  Qed.
End PQ.
