(* SchedC: the compression scheduler (compress.c on the runtime of process.c)
   as an executable labelled transition system, for any number of workers, both
   modes (default / --sequential, "ultra"), any input.

   Guards, thresholds, task order, capacities, slot formulas, start values and the
   signalling condition come ONLY from Gen/SchedCTab.v (regenerated from the
   source on every run).  The unlocked computations -- what collect() does to an
   input chunk -- are parameters of the Section.

   C undefined behaviour / assertion failures (dequeue from an empty queue,
   counter underflow, push on a full deque, the assert in do_collect_seq) set
   the ghost flag [bad]; the theorems show it stays false. *)
From Coq Require Import List NArith Arith Bool Lia.
From LBZ Require Import SchedC.SchedCIface Gen.SchedCTab SchedC.Pool.
Import ListNotations.
Set Implicit Arguments.

Section SchedC.
  Variable Data : Type.                 (* unread remainder of an input chunk *)
  Variable Enc : Type.                  (* what an encoder has collected so far *)
  Variable data_len : Data -> N.        (* iblk->left *)
  Variable enc_empty : Enc.             (* encoder_init() *)
  (* collect(enc, next, &left): new encoder contents, remainder, "block is full" *)
  Variable collect : Enc -> Data -> Enc * Data * bool.

  Record iblk := mkiblk { ib_pos : pos; ib_data : Data }.
  Record wblk := mkwblk { wb_pos : pos; wb_next : pos; wb_enc : Enc }.

  Definition ib_left (b : iblk) : N := data_len (ib_data b).

  (* continuations of process code (between two shared actions) *)
  Inductive cont :=
  | KStart (t : task)                         (* S written, mutex held, body not yet entered *)
  | KCollect (ib : iblk)                      (* do_collect after its first sched_unlock() *)
  | KEncode (wb : wblk)                       (* before encode(); then lock, enqueue(trans_q) *)
  | KSeq (wbo : option wblk) (ibo : option iblk)   (* do_collect_seq after its first unlock *)
  | KSeqFin (wb : wblk) (done : bool)         (* before the second sched_lock() of do_collect_seq *)
  | KTransmit (wb : wblk).                    (* do_transmit after its unlock *)

  Record state := mkstate {
    nw : nat;                 (* num_worker *)
    ultra : bool;             (* --sequential *)
    lvl : N;                  (* bs100k *)
    lock : option tid;        (* owner of sched_mutex *)
    next_task : option task;
    wakeups : nat;
    eof : bool;
    work_units : nat;
    in_slots : nat;
    out_slots : nat;
    coll_q : list iblk;
    trans_q : list wblk;
    reord_q : list wblk;
    order : pos;
    next_id : N;
    collect_token : bool;
    unfinished : option wblk;
    workers : list (wpc cont);
    rd : rpc cont;
    input : list Data;        (* what the remaining xread(in_granul) calls will return *)
    wr : spc cont wblk;
    output_q : list wblk;
    written : list wblk;      (* blocks passed to xwrite(), in order *)
    finish : bool;
    bad : bool
  }.

  (* ---- field updates (boilerplate) ---- *)
  Definition set_lock x s := mkstate (nw s) (ultra s) (lvl s) x (next_task s) (wakeups s) (eof s) (work_units s) (in_slots s) (out_slots s) (coll_q s) (trans_q s) (reord_q s) (order s) (next_id s) (collect_token s) (unfinished s) (workers s) (rd s) (input s) (wr s) (output_q s) (written s) (finish s) (bad s).
  Definition set_next_task x s := mkstate (nw s) (ultra s) (lvl s) (lock s) x (wakeups s) (eof s) (work_units s) (in_slots s) (out_slots s) (coll_q s) (trans_q s) (reord_q s) (order s) (next_id s) (collect_token s) (unfinished s) (workers s) (rd s) (input s) (wr s) (output_q s) (written s) (finish s) (bad s).
  Definition set_wakeups x s := mkstate (nw s) (ultra s) (lvl s) (lock s) (next_task s) x (eof s) (work_units s) (in_slots s) (out_slots s) (coll_q s) (trans_q s) (reord_q s) (order s) (next_id s) (collect_token s) (unfinished s) (workers s) (rd s) (input s) (wr s) (output_q s) (written s) (finish s) (bad s).
  Definition set_eof x s := mkstate (nw s) (ultra s) (lvl s) (lock s) (next_task s) (wakeups s) x (work_units s) (in_slots s) (out_slots s) (coll_q s) (trans_q s) (reord_q s) (order s) (next_id s) (collect_token s) (unfinished s) (workers s) (rd s) (input s) (wr s) (output_q s) (written s) (finish s) (bad s).
  Definition set_work_units x s := mkstate (nw s) (ultra s) (lvl s) (lock s) (next_task s) (wakeups s) (eof s) x (in_slots s) (out_slots s) (coll_q s) (trans_q s) (reord_q s) (order s) (next_id s) (collect_token s) (unfinished s) (workers s) (rd s) (input s) (wr s) (output_q s) (written s) (finish s) (bad s).
  Definition set_in_slots x s := mkstate (nw s) (ultra s) (lvl s) (lock s) (next_task s) (wakeups s) (eof s) (work_units s) x (out_slots s) (coll_q s) (trans_q s) (reord_q s) (order s) (next_id s) (collect_token s) (unfinished s) (workers s) (rd s) (input s) (wr s) (output_q s) (written s) (finish s) (bad s).
  Definition set_out_slots x s := mkstate (nw s) (ultra s) (lvl s) (lock s) (next_task s) (wakeups s) (eof s) (work_units s) (in_slots s) x (coll_q s) (trans_q s) (reord_q s) (order s) (next_id s) (collect_token s) (unfinished s) (workers s) (rd s) (input s) (wr s) (output_q s) (written s) (finish s) (bad s).
  Definition set_coll_q x s := mkstate (nw s) (ultra s) (lvl s) (lock s) (next_task s) (wakeups s) (eof s) (work_units s) (in_slots s) (out_slots s) x (trans_q s) (reord_q s) (order s) (next_id s) (collect_token s) (unfinished s) (workers s) (rd s) (input s) (wr s) (output_q s) (written s) (finish s) (bad s).
  Definition set_trans_q x s := mkstate (nw s) (ultra s) (lvl s) (lock s) (next_task s) (wakeups s) (eof s) (work_units s) (in_slots s) (out_slots s) (coll_q s) x (reord_q s) (order s) (next_id s) (collect_token s) (unfinished s) (workers s) (rd s) (input s) (wr s) (output_q s) (written s) (finish s) (bad s).
  Definition set_reord_q x s := mkstate (nw s) (ultra s) (lvl s) (lock s) (next_task s) (wakeups s) (eof s) (work_units s) (in_slots s) (out_slots s) (coll_q s) (trans_q s) x (order s) (next_id s) (collect_token s) (unfinished s) (workers s) (rd s) (input s) (wr s) (output_q s) (written s) (finish s) (bad s).
  Definition set_order x s := mkstate (nw s) (ultra s) (lvl s) (lock s) (next_task s) (wakeups s) (eof s) (work_units s) (in_slots s) (out_slots s) (coll_q s) (trans_q s) (reord_q s) x (next_id s) (collect_token s) (unfinished s) (workers s) (rd s) (input s) (wr s) (output_q s) (written s) (finish s) (bad s).
  Definition set_next_id x s := mkstate (nw s) (ultra s) (lvl s) (lock s) (next_task s) (wakeups s) (eof s) (work_units s) (in_slots s) (out_slots s) (coll_q s) (trans_q s) (reord_q s) (order s) x (collect_token s) (unfinished s) (workers s) (rd s) (input s) (wr s) (output_q s) (written s) (finish s) (bad s).
  Definition set_collect_token x s := mkstate (nw s) (ultra s) (lvl s) (lock s) (next_task s) (wakeups s) (eof s) (work_units s) (in_slots s) (out_slots s) (coll_q s) (trans_q s) (reord_q s) (order s) (next_id s) x (unfinished s) (workers s) (rd s) (input s) (wr s) (output_q s) (written s) (finish s) (bad s).
  Definition set_unfinished x s := mkstate (nw s) (ultra s) (lvl s) (lock s) (next_task s) (wakeups s) (eof s) (work_units s) (in_slots s) (out_slots s) (coll_q s) (trans_q s) (reord_q s) (order s) (next_id s) (collect_token s) x (workers s) (rd s) (input s) (wr s) (output_q s) (written s) (finish s) (bad s).
  Definition set_workers x s := mkstate (nw s) (ultra s) (lvl s) (lock s) (next_task s) (wakeups s) (eof s) (work_units s) (in_slots s) (out_slots s) (coll_q s) (trans_q s) (reord_q s) (order s) (next_id s) (collect_token s) (unfinished s) x (rd s) (input s) (wr s) (output_q s) (written s) (finish s) (bad s).
  Definition set_rd x s := mkstate (nw s) (ultra s) (lvl s) (lock s) (next_task s) (wakeups s) (eof s) (work_units s) (in_slots s) (out_slots s) (coll_q s) (trans_q s) (reord_q s) (order s) (next_id s) (collect_token s) (unfinished s) (workers s) x (input s) (wr s) (output_q s) (written s) (finish s) (bad s).
  Definition set_input x s := mkstate (nw s) (ultra s) (lvl s) (lock s) (next_task s) (wakeups s) (eof s) (work_units s) (in_slots s) (out_slots s) (coll_q s) (trans_q s) (reord_q s) (order s) (next_id s) (collect_token s) (unfinished s) (workers s) (rd s) x (wr s) (output_q s) (written s) (finish s) (bad s).
  Definition set_wr x s := mkstate (nw s) (ultra s) (lvl s) (lock s) (next_task s) (wakeups s) (eof s) (work_units s) (in_slots s) (out_slots s) (coll_q s) (trans_q s) (reord_q s) (order s) (next_id s) (collect_token s) (unfinished s) (workers s) (rd s) (input s) x (output_q s) (written s) (finish s) (bad s).
  Definition set_output_q x s := mkstate (nw s) (ultra s) (lvl s) (lock s) (next_task s) (wakeups s) (eof s) (work_units s) (in_slots s) (out_slots s) (coll_q s) (trans_q s) (reord_q s) (order s) (next_id s) (collect_token s) (unfinished s) (workers s) (rd s) (input s) (wr s) x (written s) (finish s) (bad s).
  Definition set_written x s := mkstate (nw s) (ultra s) (lvl s) (lock s) (next_task s) (wakeups s) (eof s) (work_units s) (in_slots s) (out_slots s) (coll_q s) (trans_q s) (reord_q s) (order s) (next_id s) (collect_token s) (unfinished s) (workers s) (rd s) (input s) (wr s) (output_q s) x (finish s) (bad s).
  Definition set_finish x s := mkstate (nw s) (ultra s) (lvl s) (lock s) (next_task s) (wakeups s) (eof s) (work_units s) (in_slots s) (out_slots s) (coll_q s) (trans_q s) (reord_q s) (order s) (next_id s) (collect_token s) (unfinished s) (workers s) (rd s) (input s) (wr s) (output_q s) (written s) x (bad s).
  Definition set_bad x s := mkstate (nw s) (ultra s) (lvl s) (lock s) (next_task s) (wakeups s) (eof s) (work_units s) (in_slots s) (out_slots s) (coll_q s) (trans_q s) (reord_q s) (order s) (next_id s) (collect_token s) (unfinished s) (workers s) (rd s) (input s) (wr s) (output_q s) (written s) (finish s) x.

  (* ---- regenerated constants specialised to compression ---- *)
  Definition total_in (n : nat) : nat := total_in_slots_compress n.
  Definition total_out (n : nat) : nat := total_out_slots_compress n.
  Definition in_granul (level : N) : N := in_granul_compress level.

  Definition cap_coll (n : nat) : nat :=
    cap_coll_q (init_in_slots (total_in n) (total_out n) n) (init_work_units (total_in n) (total_out n) n)
               (init_out_slots (total_in n) (total_out n) n) n.
  Definition cap_trans (n : nat) : nat :=
    cap_trans_q (init_in_slots (total_in n) (total_out n) n) (init_work_units (total_in n) (total_out n) n)
                (init_out_slots (total_in n) (total_out n) n) n.
  Definition cap_reord (n : nat) : nat :=
    cap_reord_q (init_in_slots (total_in n) (total_out n) n) (init_work_units (total_in n) (total_out n) n)
                (init_out_slots (total_in n) (total_out n) n) n.
  (* deque_init(output_q, out_slots) in init_io() *)
  Definition cap_output (n : nat) : nat := init_out_slots (total_in n) (total_out n) n.

  (* ---- what the guards see ---- *)
  Definition view (s : state) : gview :=
    mkgview (ultra s) (eof s) (map ib_pos (coll_q s)) (map wb_pos (trans_q s)) (map wb_pos (reord_q s))
            (order s) (work_units s) (out_slots s) (nw s) (total_out (nw s))
            (collect_token s) (is_some (unfinished s)).

  Definition ready (s : state) (t : task) : bool := task_guard t (view s).
  Definition select (s : state) : option task := select_first task_order (ready s).
  Definition finished (s : state) : bool := can_terminate (view s).

  (* sched_unlock(): select_task(); if (next_task != NULL || finished()) xsignal(); xunlock() *)
  Definition sched_unlock (s : state) : state :=
    let nt := select s in
    let s1 := set_next_task nt s in
    let s2 := if unlock_signal (is_some nt) (finished s)
              then set_wakeups (signal (wakeups s) (workers s)) s1 else s1 in
    set_lock None s2.

  (* a task body returns to the worker loop: select_task(), mutex still held *)
  Definition task_return (s : state) (i : nat) : state :=
    let s1 := set_workers (upd (workers s) i PTop) s in
    set_next_task (select s1) s1.

  Definition set_pc (i : nat) (p : wpc cont) (s : state) : state :=
    set_workers (upd (workers s) i p) s.

  Definition lock_free (s : state) : bool := negb (is_some (lock s)).
  Definition holds (s : state) (t : tid) : bool :=
    match lock s with Some u => tid_eqb u t | None => false end.

  Definition dec_or_bad (x : nat) : nat * bool :=
    match x with O => (O, true) | S y => (y, false) end.

  Definition pos_minor_succ (p : pos) : pos := mkpos (major p) (minor p + 1).
  Definition pos_major_succ (p : pos) : pos := mkpos (major p + 1) 0.

  (* ---- the segments of the four tasks ---- *)

  (* first segment: runs with the mutex held, right after the S record *)
  Definition seg_start (s : state) (i : nat) (t : task) : state * reckind :=
    match t with
    | T_collect =>
        match coll_q s with
        | [] => (set_bad true s, OU)
        | ib :: q =>
            let (wu, b) := dec_or_bad (work_units s) in
            let s1 := set_work_units wu (set_coll_q q s) in
            let s2 := set_bad (bad s1 || b) s1 in
            (sched_unlock (set_pc i (PRun (KCollect ib)) s2), OU)
        end
    | T_collect_seq =>
        let wbo := unfinished s in
        let wub := match wbo with Some _ => (work_units s, false) | None => dec_or_bad (work_units s) end in
        let ibo := match coll_q s with [] => None | ib :: _ => Some ib end in
        (* assert(iblk != NULL) when a new block has to be started *)
        let b2 := match wbo, ibo with None, None => true | _, _ => false end in
        let s1 := set_collect_token false (set_coll_q (tl (coll_q s)) (set_work_units (fst wub) (set_unfinished None s))) in
        let s2 := set_bad (bad s1 || (snd wub || b2)) s1 in
        (sched_unlock (set_pc i (PRun (KSeq wbo ibo)) s2), OU)
    | T_transmit =>
        match trans_q s with
        | [] => (set_bad true s, OU)
        | wb :: q =>
            let (os, b) := dec_or_bad (out_slots s) in
            let s1 := set_out_slots os (set_trans_q q s) in
            let s2 := set_bad (bad s1 || b) s1 in
            (sched_unlock (set_pc i (PRun (KTransmit wb)) s2), OU)
        end
    | T_reorder =>
        match reord_q s with
        | [] => (set_bad true s, OR)
        | wb :: q =>
            let s1 := set_order (wb_next wb) (set_reord_q q s) in
            (* sink_write_buffer(): push(output_q), asserts size < modulus *)
            let b := cap_output (nw s) <=? length (output_q s) in
            let s2 := set_output_q (output_q s ++ [wb]) s1 in
            let s3 := set_bad (bad s2 || b) s2 in
            (task_return s3 i, OR)
        end
    end.

  Definition new_wblk (ib : iblk) : wblk := mkwblk (ib_pos ib) (ib_pos ib) enc_empty.

  (* one shared action of worker i whose continuation is k; None = blocked *)
  Definition seg_step (s : state) (i : nat) (k : cont) : option (state * option reckind) :=
    match k with
    | KStart t =>
        if holds s (TW i) then let (s', r) := seg_start s i t in Some (s', Some r) else None
    | KCollect ib =>
        let wb0 := new_wblk ib in
        let '(e, d, _) := collect (wb_enc wb0) (ib_data ib) in
        if (0 <? data_len d)%N then
          (* ++wblk->next.minor; ++iblk->pos.minor; lock; enqueue(coll_q, iblk); unlock *)
          if lock_free s then
            let wb := mkwblk (wb_pos wb0) (pos_minor_succ (wb_next wb0)) e in
            let ib' := mkiblk (pos_minor_succ (ib_pos ib)) d in
            let s1 := set_coll_q (pq_insert ib_pos ib' (coll_q s)) s in
            Some (sched_unlock (set_pc i (PRun (KEncode wb)) s1), Some OU)
          else None
        else
          (* ++wblk->next.major; minor = 0; source_release_buffer() *)
          let wb := mkwblk (wb_pos wb0) (pos_major_succ (wb_next wb0)) e in
          Some (set_pc i (PRun (KEncode wb)) (set_in_slots (S (in_slots s)) s), None)
    | KEncode wb =>
        if lock_free s then
          let s1 := set_lock (Some (TW i)) (set_trans_q (pq_insert wb_pos wb (trans_q s)) s) in
          Some (task_return s1 i, Some OR)
        else None
    | KSeq wbo ibo =>
        let wb0 := match wbo, ibo with
                   | Some wb, _ => Some wb
                   | None, Some ib => Some (new_wblk ib)
                   | None, None => None
                   end in
        match wb0, ibo with
        | Some wb0, Some ib =>
            let '(e, d, full) := collect (wb_enc wb0) (ib_data ib) in
            if (0 <? data_len d)%N then
              if lock_free s then
                let wb := mkwblk (wb_pos wb0) (pos_minor_succ (wb_next wb0)) e in
                let ib' := mkiblk (pos_minor_succ (ib_pos ib)) d in
                let s1 := set_coll_q (pq_insert ib_pos ib' (coll_q s)) s in
                Some (sched_unlock (set_pc i (PRun (KSeqFin wb full)) s1), Some OU)
              else None
            else
              let wb := mkwblk (wb_pos wb0) (pos_major_succ (wb_next wb0)) e in
              Some (set_pc i (PRun (KSeqFin wb full)) (set_in_slots (S (in_slots s)) s), None)
        | Some wb0, None =>
            (* nothing to collect (flush at end of input): done stays true *)
            if lock_free s then
              let s1 := set_collect_token true s in
              Some (sched_unlock (set_pc i (PRun (KEncode wb0)) s1), Some OU)
            else None
        | None, _ => None       (* the assert has fired; the thread is dead *)
        end
    | KSeqFin wb done =>
        if lock_free s then
          let s1 := set_collect_token true s in
          if done then Some (sched_unlock (set_pc i (PRun (KEncode wb)) s1), Some OU)
          else
            let s2 := set_lock (Some (TW i)) (set_unfinished (Some wb) s1) in
            Some (task_return s2 i, Some OR)
        else None
    | KTransmit wb =>
        if lock_free s then
          let s1 := set_work_units (S (work_units s)) s in
          let s2 := set_lock (Some (TW i)) (set_reord_q (pq_insert wb_pos wb (reord_q s1)) s1) in
          Some (task_return s2 i, Some OR)
        else None
    end.

  (* worker_thread_proc() *)
  Definition worker_step (s : state) (i : nat) : option (state * option reckind) :=
    match nth_error (workers s) i with
    | None => None
    | Some PNew =>
        if lock_free s then Some (set_lock (Some (TW i)) (set_pc i PTop s), None) else None
    | Some PWait =>
        if lock_free s
        then Some (set_wakeups (pred (wakeups s)) (set_lock (Some (TW i)) (set_pc i PTop s)), None)
        else None
    | Some PTop =>
        if holds s (TW i) then
          match next_task s with
          | Some t => Some (set_pc i (PRun (KStart t)) s, Some (OS t))
          | None =>
              if finished s
              then let s1 := set_pc i PExit s in
                   Some (set_lock None (set_wakeups (broadcast (workers s1)) s1), Some OX)
              else Some (set_lock None (set_pc i PWait s), Some OW)
          end
        else None
    | Some PExit => None
    | Some (PRun k) => seg_step s i k
    end.

  (* source_thread_proc() with compress.c:on_input_avail() *)
  Definition reader_step (s : state) : option (state * option reckind) :=
    match rd s with
    | RIdle =>
        match in_slots s with
        | O => None
        | S m => Some (set_rd RRead (set_in_slots m s), None)
        end
    | RRead =>
        match input s with
        | [] => Some (set_rd REof (set_in_slots (S (in_slots s)) s), None)
        | d :: rest =>
            if (data_len d =? 0)%N
            then Some (set_rd REof (set_in_slots (S (in_slots s)) s), None)
            else if lock_free s then
              let ib := mkiblk (mkpos (next_id s) 0) d in
              let s1 := set_next_id (next_id s + 1) (set_coll_q (pq_insert ib_pos ib (coll_q s)) s) in
              let s2 := set_input rest (set_rd (if (data_len d <? in_granul (lvl s))%N then REof else RIdle) s1) in
              Some (sched_unlock s2, Some OU)
            else None
        end
    | RRun _ => None
    | REof =>
        if lock_free s then Some (sched_unlock (set_rd RDone (set_eof true s)), Some OU) else None
    | RDone => None
    end.

  (* sink_thread_proc() with compress.c:on_write_complete() *)
  Definition writer_step (s : state) : option (state * option reckind) :=
    match wr s with
    | SIdle =>
        match output_q s with
        | wb :: q => Some (set_wr (SHold wb) (set_written (written s ++ [wb]) (set_output_q q s)), None)
        | [] => if finish s then Some (set_wr SDone s, None) else None
        end
    | SHold _ =>
        if lock_free s
        then Some (sched_unlock (set_wr SIdle (set_out_slots (S (out_slots s)) s)), Some OU)
        else None
    | SRun _ => None
    | SDone => None
    end.

  (* primary thread after its own worker loop: join the workers, join the reader,
     finish = true *)
  Definition main_step (s : state) : option (state * option reckind) :=
    if forallb is_exit (workers s) && negb (finish s) &&
       match rd s with RDone => true | _ => false end
    then Some (set_finish true s, None) else None.

  Definition step_obs (s : state) (e : tid) : option (state * option reckind) :=
    match e with
    | TW i => worker_step s i
    | TR => reader_step s
    | TS => writer_step s
    | TM => main_step s
    end.

  Definition step (s : state) (e : tid) : option state := option_map fst (step_obs s e).

  (* primary_thread(): resets, process->init(), select_task() *)
  Definition init0 (n : nat) (u : bool) (level : N) (inp : list Data) : state :=
    mkstate n u level None None 0 init_eof
            (init_work_units (total_in n) (total_out n) n)
            (init_in_slots (total_in n) (total_out n) n)
            (init_out_slots (total_in n) (total_out n) n)
            [] [] [] pos0 0%N true None
            (repeat PNew n) RIdle inp SIdle [] [] false false.

  Definition init (n : nat) (u : bool) (level : N) (inp : list Data) : state :=
    let s := init0 n u level inp in set_next_task (select s) s.

  Definition final (s : state) : bool :=
    forallb is_exit (workers s) &&
    match rd s with RDone => true | _ => false end &&
    match wr s with SDone => true | _ => false end.

  Fixpoint run (s : state) (es : list tid) : option state :=
    match es with
    | [] => Some s
    | e :: r => match step s e with Some s' => run s' r | None => None end
    end.

  (* a deterministic round-robin scheduler, used for examples and by drivers *)
  Definition rr_round (order : list tid) (s : state) : state :=
    fold_left (fun st e => match step st e with Some st' => st' | None => st end) order s.
  Fixpoint rr (fuel : nat) (order : list tid) (s : state) : state :=
    match fuel with O => s | S f => rr f order (rr_round order s) end.

  Inductive Reach (s0 : state) : state -> Prop :=
  | Reach_init : Reach s0 s0
  | Reach_step : forall s e s', Reach s0 s -> step s e = Some s' -> Reach s0 s'.

End SchedC.

Arguments KStart {Data Enc} t.
Arguments KCollect {Data Enc} ib.
Arguments KEncode {Data Enc} wb.
Arguments KSeq {Data Enc} wbo ibo.
Arguments KSeqFin {Data Enc} wb done.
Arguments KTransmit {Data Enc} wb.
