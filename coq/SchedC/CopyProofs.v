(* Proofs about the -cdf pipeline model (Copy.v). *)
From Coq Require Import List NArith ZArith Arith Bool Lia.
From LBZ Require Import SchedC.SchedCIface Gen.SchedCTab SchedC.Pool SchedC.PoolLemmas SchedC.Copy.
Import ListNotations.

(* ---- xread / xwrite ---- *)
Section XReadProofs.
  Variable A : Type.

  Lemma firstn_skipn_app (k v : nat) (l : list A) : k <= v ->
    firstn k l ++ firstn (v - k) (skipn k l) = firstn v l.
  Proof.
    revert v l; induction k as [|k IH]; intros v l H; cbn.
    - rewrite Nat.sub_0_r. reflexivity.
    - destruct l as [|a l]; cbn.
      + rewrite !firstn_nil. reflexivity.
      + destruct v as [|v]; [lia|]. cbn. f_equal. apply IH. lia.
  Qed.

  Lemma skipn_skipn' (k v : nat) (l : list A) : k <= v -> skipn (v - k) (skipn k l) = skipn v l.
  Proof.
    revert v l; induction k as [|k IH]; intros v l H; cbn.
    - rewrite Nat.sub_0_r. reflexivity.
    - destruct l as [|a l]; cbn.
      + rewrite !skipn_nil. reflexivity.
      + destruct v as [|v]; [lia|]. cbn. apply IH. lia.
  Qed.

  (* xread() stores exactly the next min(vacant, remaining) bytes, whatever the
     fragmentation of read() *)
  Theorem xread_fills (vacant : nat) (frag : list nat) (rest acc : list A) :
    exists frag',
      xread vacant frag rest acc =
      (acc ++ firstn vacant rest, vacant - length (firstn vacant rest), frag', skipn vacant rest).
  Proof.
    revert vacant rest acc. induction frag as [|f fr IH]; intros vacant rest acc.
    - destruct vacant; cbn [xread].
      + exists []. rewrite app_nil_r. reflexivity.
      + exists []. reflexivity.
    - destruct vacant as [|v].
      + cbn. exists (f :: fr). rewrite app_nil_r. reflexivity.
      + cbn [xread]. destruct rest as [|a rest].
        * exists fr. rewrite firstn_nil, app_nil_r. cbn. reflexivity.
        * set (k := Nat.min (Nat.min (S v) (Nat.max 1 f)) (length (a :: rest))).
          assert (Hk : 1 <= k /\ k <= S v /\ k <= length (a :: rest)) by (unfold k; cbn [length]; lia).
          destruct Hk as (Hk1 & Hk2 & Hk3). clearbody k.
          destruct (IH (S v - k) (skipn k (a :: rest)) (acc ++ firstn k (a :: rest))) as [fr' E].
          exists fr'. rewrite E. rewrite <- app_assoc.
          rewrite (firstn_skipn_app k (S v) (a :: rest) Hk2), (skipn_skipn' k (S v) (a :: rest) Hk2).
          f_equal. f_equal. f_equal.
          rewrite <- (firstn_skipn_app k (S v) (a :: rest) Hk2). rewrite app_length.
          rewrite (firstn_length_le _ Hk3). lia.
  Qed.

  Lemma xread_got vacant frag (rest : list A) :
    fst (fst (fst (xread vacant frag rest []))) = firstn vacant rest /\
    snd (xread vacant frag rest []) = skipn vacant rest /\
    snd (fst (fst (xread vacant frag rest []))) = vacant - length (firstn vacant rest).
  Proof. destruct (xread_fills vacant frag rest []) as [fr ->]. cbn. auto. Qed.

  (* the reader's chunk sequence does not depend on how read() fragments the input *)
  Theorem reader_chunks_cut (fuel gran : nat) (frag : list nat) (x : list A) : 0 < gran ->
    reader_chunks fuel gran frag x = cut fuel gran x.
  Proof.
    intros G. revert frag x. induction fuel as [|fu IH]; intros frag x; cbn [reader_chunks cut]; auto.
    destruct (xread_fills gran frag x []) as [fr ->]. cbn [app].
    destruct x as [|a x].
    - rewrite firstn_nil. reflexivity.
    - destruct gran as [|g]; [lia|]. cbn [firstn]. f_equal.
      change (a :: firstn g x) with (firstn (S g) (a :: x)).
      destruct (Nat.ltb_spec (length (a :: x)) (S g)) as [L|L].
      + rewrite firstn_all2 by lia.
        destruct (Nat.eqb_spec (S g - length (a :: x)) 0); [lia|reflexivity].
      + rewrite firstn_length_le by lia.
        destruct (Nat.eqb_spec (S g - S g) 0); [|lia]. apply IH.
  Qed.

  (* short writes do not change what reaches the file *)
  Theorem xwrite_all (frag : list nat) (buf file : list A) : xwrite frag buf file = file ++ buf.
  Proof.
    revert buf file. induction frag as [|f fr IH]; intros buf file.
    - destruct buf; cbn; [rewrite app_nil_r|]; reflexivity.
    - destruct buf as [|a buf]; [cbn; rewrite app_nil_r; reflexivity|].
      cbn [xwrite]. set (k := Nat.min (length (a :: buf)) (Nat.max 1 f)).
      destruct (skipn k (a :: buf)) eqn:E.
      + rewrite <- (firstn_skipn k (a :: buf)) at 2. rewrite E, app_nil_r. reflexivity.
      + rewrite IH, <- app_assoc. f_equal. rewrite <- E. apply firstn_skipn.
  Qed.
End XReadProofs.
