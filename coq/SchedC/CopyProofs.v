(* Proofs about the -cdf pipeline model (Copy.v). *)
From Coq Require Import List NArith ZArith Arith Bool Lia.
From LBZ Require Import SchedC.SchedCIface Gen.SchedCTab SchedC.Pool SchedC.PoolLemmas SchedC.Copy.
Import ListNotations.

(* ---- xread / xwrite ---- *)
Section XReadProofs.
  Variable A : Type.

  Lemma firstn_skipn_app (k v : nat) (l : list A) : k <= v ->
    firstn k l ++ firstn (v - k) (skipn k l) = firstn v l.
  Proof.
    revert v l; induction k as [|k IH]; intros v l H; cbn.
    - rewrite Nat.sub_0_r. reflexivity.
    - destruct l as [|a l]; cbn.
      + rewrite !firstn_nil. reflexivity.
      + destruct v as [|v]; [lia|]. cbn. f_equal. apply IH. lia.
  Qed.

  Lemma skipn_skipn' (k v : nat) (l : list A) : k <= v -> skipn (v - k) (skipn k l) = skipn v l.
  Proof.
    revert v l; induction k as [|k IH]; intros v l H; cbn.
    - rewrite Nat.sub_0_r. reflexivity.
    - destruct l as [|a l]; cbn.
      + rewrite !skipn_nil. reflexivity.
      + destruct v as [|v]; [lia|]. cbn. apply IH. lia.
  Qed.

  (* xread() stores exactly the next min(vacant, remaining) bytes, whatever the
     fragmentation of read() *)
  Theorem xread_fills (vacant : nat) (frag : list nat) (rest acc : list A) :
    exists frag',
      xread vacant frag rest acc =
      (acc ++ firstn vacant rest, vacant - length (firstn vacant rest), frag', skipn vacant rest).
  Proof.
    revert vacant rest acc. induction frag as [|f fr IH]; intros vacant rest acc.
    - destruct vacant; cbn [xread].
      + exists []. rewrite app_nil_r. reflexivity.
      + exists []. reflexivity.
    - destruct vacant as [|v].
      + cbn. exists (f :: fr). rewrite app_nil_r. reflexivity.
      + cbn [xread]. destruct rest as [|a rest].
        * exists fr. rewrite firstn_nil, app_nil_r. cbn. reflexivity.
        * set (k := Nat.min (Nat.min (S v) (Nat.max 1 f)) (length (a :: rest))).
          assert (Hk : 1 <= k /\ k <= S v /\ k <= length (a :: rest)) by (unfold k; cbn [length]; lia).
          destruct Hk as (Hk1 & Hk2 & Hk3). clearbody k.
          destruct (IH (S v - k) (skipn k (a :: rest)) (acc ++ firstn k (a :: rest))) as [fr' E].
          exists fr'. rewrite E. rewrite <- app_assoc.
          rewrite (firstn_skipn_app k (S v) (a :: rest) Hk2), (skipn_skipn' k (S v) (a :: rest) Hk2).
          f_equal. f_equal. f_equal.
          rewrite <- (firstn_skipn_app k (S v) (a :: rest) Hk2). rewrite app_length.
          rewrite (firstn_length_le _ Hk3). lia.
  Qed.

  Lemma xread_got vacant frag (rest : list A) :
    fst (fst (fst (xread vacant frag rest []))) = firstn vacant rest /\
    snd (xread vacant frag rest []) = skipn vacant rest /\
    snd (fst (fst (xread vacant frag rest []))) = vacant - length (firstn vacant rest).
  Proof. destruct (xread_fills vacant frag rest []) as [fr ->]. cbn. auto. Qed.

  (* the reader's chunk sequence does not depend on how read() fragments the input *)
  Theorem reader_chunks_cut (fuel gran : nat) (frag : list nat) (x : list A) : 0 < gran ->
    reader_chunks fuel gran frag x = cut fuel gran x.
  Proof.
    intros G. revert frag x. induction fuel as [|fu IH]; intros frag x; cbn [reader_chunks cut]; auto.
    destruct (xread_fills gran frag x []) as [fr ->]. cbn [app].
    destruct x as [|a x].
    - rewrite firstn_nil. reflexivity.
    - destruct gran as [|g]; [lia|]. cbn [firstn]. f_equal.
      change (a :: firstn g x) with (firstn (S g) (a :: x)).
      destruct (Nat.ltb_spec (length (a :: x)) (S g)) as [L|L].
      + rewrite firstn_all2 by lia.
        destruct (Nat.eqb_spec (S g - length (a :: x)) 0); [lia|reflexivity].
      + rewrite firstn_length_le by lia.
        destruct (Nat.eqb_spec (S g - S g) 0); [|lia]. apply IH.
  Qed.

  (* short writes do not change what reaches the file *)
  Theorem xwrite_all (frag : list nat) (buf file : list A) : xwrite frag buf file = file ++ buf.
  Proof.
    revert buf file. induction frag as [|f fr IH]; intros buf file.
    - destruct buf; cbn; [rewrite app_nil_r|]; reflexivity.
    - destruct buf as [|a buf]; [cbn; rewrite app_nil_r; reflexivity|].
      cbn [xwrite]. set (k := Nat.min (length (a :: buf)) (Nat.max 1 f)).
      destruct (skipn k (a :: buf)) eqn:E.
      + rewrite <- (firstn_skipn k (a :: buf)) at 2. rewrite E, app_nil_r. reflexivity.
      + rewrite IH, <- app_assoc. f_equal. rewrite <- E. apply firstn_skipn.
  Qed.
End XReadProofs.

(* ---- the pipeline ---- *)
Definition rdbuf (r : crpc) : list N := match r with CRDeliver b _ | CRPush b _ => b | _ => [] end.
Definition crd_in (r : crpc) : nat := match r with CRRead | CRDeliver _ _ | CRPush _ _ => 1 | _ => 0 end.
Definition crd_outh (r : crpc) : nat := match r with CRPush _ _ => 1 | _ => 0 end.
Definition cwr_in (w : cwpc) : nat := match w with CWHold _ => 1 | _ => 0 end.
Definition cwr_outh (w : cwpc) : nat := match w with CWHold _ | CWRel => 1 | _ => 0 end.
Definition holders (s : cstate) : nat := crd_outh (k_rd s) + length (k_outq s) + cwr_outh (k_wr s).
Definition rd_is_done (r : crpc) : bool := match r with CRDone => true | _ => false end.
Definition started_pc (m : mpc) : bool := match m with MHalt | MJoinR | MJoinW | MDone => true | _ => false end.
Definition copying_pc (m : mpc) : bool := match m with MSniff | MDecompress | MFail => false | _ => true end.

Record CI (x : list N) (s : cstate) : Prop := {
  ci_data : copying_pc (k_main s) = true ->
            k_written s ++ concat (k_outq s) ++ rdbuf (k_rd s) ++ k_rest s = x;
  ci_pre : k_started s = false ->
           k_rd s = CRIdle /\ k_outq s = [] /\ k_wr s = CWIdle /\ k_raised s = 0 /\
           (k_main s = MSniff -> k_rest s = x /\ k_written s = []);
  ci_started : k_started s = started_pc (k_main s);
  ci_in : k_started s = true -> k_in s + crd_in (k_rd s) + length (k_outq s) + cwr_in (k_wr s) = copy_in_slots;
  ci_out : k_started s = true -> (k_out s + Z.of_nat (holders s) = Z.of_nat copy_out_slots)%Z;
  ci_eof : k_started s = true -> k_eof s = rd_is_done (k_rd s);
  ci_raised : k_started s = true -> k_raised s = b2n (k_eof s && (holders s =? 0));
  ci_taken : k_taken s = match k_main s with MJoinR | MJoinW | MDone => 1 | _ => 0 end;
  ci_le : k_taken s <= k_raised s;
  ci_finish : k_finish s = match k_main s with MJoinW | MDone => true | _ => false end;
  ci_joinr : (k_main s = MJoinW \/ k_main s = MDone) -> k_rd s = CRDone;
  ci_done : k_main s = MDone -> k_wr s = CWDone;
  ci_wdone : k_wr s = CWDone -> k_finish s = true /\ k_outq s = [];
  ci_short : forall b sh, (k_rd s = CRDeliver b sh \/ k_rd s = CRPush b sh) -> b <> [] /\ (sh = true -> k_rest s = []);
  ci_reof : (k_rd s = CREof \/ k_rd s = CRDone) -> k_rest s = []
}.

(* side conditions on the regenerated constants *)
Lemma gran_pos : 0 < gran.
Proof. unfold gran. change 0 with (N.to_nat 0). apply Nat.compare_lt_iff. rewrite <- N2Nat.inj_compare. reflexivity. Qed.
Global Opaque gran.
Lemma copy_slots_eq : copy_out_slots = copy_total_out_slots.
Proof. reflexivity. Qed.
Lemma copy_in_pos : 0 < copy_in_slots.
Proof. unfold copy_in_slots. lia. Qed.
Lemma hdr_len_ok : forall v, v <= sniff_size -> copy_hdr_len v = sniff_size - v.
Proof. intros v H. reflexivity. Qed.

Lemma raise_cond_spec (s : cstate) :
  (k_out s + Z.of_nat (holders s) = Z.of_nat copy_out_slots)%Z ->
  copy_raise_cond (cview s) = k_eof s && (holders s =? 0).
Proof.
  intros H. unfold copy_raise_cond, cview. cbn [g_eof g_out_slots g_total_out_slots]. f_equal.
  unfold view_out. rewrite <- copy_slots_eq.
  destruct (Z.leb_spec 0 (k_out s)); destruct (Nat.eqb_spec (holders s) 0) as [E|E];
    try (apply Nat.eqb_eq; lia); try (apply Nat.eqb_neq; lia).
Qed.

Arguments ci_data {x s} _.
Arguments ci_pre {x s} _.
Arguments ci_started {x s} _.
Arguments ci_in {x s} _.
Arguments ci_out {x s} _.
Arguments ci_eof {x s} _.
Arguments ci_raised {x s} _.
Arguments ci_taken {x s} _.
Arguments ci_le {x s} _.
Arguments ci_finish {x s} _.
Arguments ci_joinr {x s} _.
Arguments ci_done {x s} _.
Arguments ci_wdone {x s} _.
Arguments ci_short {x s} _.
Arguments ci_reof {x s} _.

Ltac csimp :=
  cbn [k_force k_stdout k_main k_started k_eof k_in k_out k_rest k_frag k_rd k_outq k_wr k_written k_finish k_raised k_taken
       set_main set_started set_keof set_in set_out set_rest set_frag set_krd set_outq set_kwr set_kwritten set_kfinish
       set_raised set_taken] in *.

Lemma copy_unlock_fields (s : cstate) :
  (k_out s + Z.of_nat (holders s) = Z.of_nat copy_out_slots)%Z ->
  copy_unlock s = set_raised (k_raised s + b2n (k_eof s && (holders s =? 0))) s.
Proof.
  intros H. unfold copy_unlock. rewrite (raise_cond_spec s H).
  destruct (k_eof s && (holders s =? 0)); cbn [b2n].
  - f_equal. lia.
  - rewrite Nat.add_0_r. destruct s; reflexivity.
Qed.

Ltac cfin := intros; try discriminate; try congruence; try lia; try solve [eauto];
  try solve [intuition (try discriminate; try congruence; try lia; eauto)].

Ltac cprep :=
  unfold holders in *; csimp;
  repeat match goal with
         | E : k_rd _ = _ |- _ => rewrite E in *; clear E
         | E : k_wr _ = _ |- _ => rewrite E in *; clear E
         | E : k_main _ = _ |- _ => rewrite E in *; clear E
         | E : k_started _ = _ |- _ => rewrite E in *; clear E
         end;
  cbn [rdbuf crd_in crd_outh cwr_in cwr_outh rd_is_done started_pc copying_pc length app concat b2n] in *.

Opaque sniff_size copy_hdr_len.
Lemma ci_step x s e s' : CI x s -> cstep s e = Some s' -> CI x s'.
Proof.
  intros I H.
  pose proof (ci_data I) as Idata. pose proof (ci_pre I) as Ipre. pose proof (ci_started I) as Ist.
  pose proof (ci_in I) as Iin. pose proof (ci_out I) as Iout. pose proof (ci_eof I) as Ieof.
  pose proof (ci_raised I) as Irai. pose proof (ci_taken I) as Itak. pose proof (ci_le I) as Ile.
  pose proof (ci_finish I) as Ifin. pose proof (ci_joinr I) as Ijr. pose proof (ci_done I) as Idn.
  pose proof (ci_wdone I) as Iwd. pose proof (ci_short I) as Ish. pose proof (ci_reof I) as Ire.
  clear I.
  destruct e as [i| | |]; cbn [cstep] in H; [discriminate| | |].
  - (* reader *)
    unfold creader_step in H. destruct (k_started s) eqn:St; [|discriminate]. cbn [negb] in H.
    specialize (Iin eq_refl). specialize (Iout eq_refl). specialize (Ieof eq_refl). specialize (Irai eq_refl).
    destruct (k_rd s) as [| |buf short|buf short| |] eqn:Er.
    + (* idle *) destruct (k_in s) eqn:Ein; [discriminate|]. injection H as <-.
      constructor; cprep; cfin.
    + (* read *)
      destruct (xread_fills _ gran (k_frag s) (k_rest s) []) as [fr E]. rewrite E in H. cbn [app] in H.
      destruct (firstn gran (k_rest s)) as [|a got] eqn:Eg; injection H as <-.
      * assert (k_rest s = []).
        { destruct (k_rest s); auto. pose proof gran_pos. destruct gran; [lia|discriminate]. }
        assert (Hs : skipn gran (k_rest s) = []) by (rewrite H; apply skipn_nil).
        rewrite Hs.
        constructor; cprep; rewrite ?H in *; rewrite ?app_nil_r in *; cfin.
      * assert (Hnz : a :: got <> []) by discriminate.
        assert (Hsh : negb (gran - length (a :: got) =? 0) = true -> skipn gran (k_rest s) = []).
        { intros Hs. apply negb_true_iff, Nat.eqb_neq in Hs. apply skipn_all2.
          destruct (Nat.le_gt_cases (length (k_rest s)) gran); auto.
          assert (length (firstn gran (k_rest s)) = gran) by (apply firstn_length_le; lia).
          rewrite Eg in H0. lia. }
        assert (Hd : (a :: got) ++ skipn gran (k_rest s) = k_rest s) by (rewrite <- Eg; apply firstn_skipn).
        constructor; cprep; cfin.
        all: try solve [ rewrite <- Idata by auto; rewrite <- Hd at 2; rewrite <- !app_assoc; reflexivity ].
        all: try solve [ destruct H as [H|H]; [injection H as <- <-; split; auto|discriminate H] ].
    + (* deliver: out_slots--, unlock *)
      injection H as <-.
      rewrite copy_unlock_fields.
      2:{ unfold holders in *. csimp. rewrite Er in Iout. cbn [crd_outh] in *. lia. }
      constructor; cprep; cfin.
      all: try solve [ destruct (Ish _ _ (or_introl eq_refl)); cfin ].
      all: try solve [ destruct H as [H|H]; [discriminate|injection H as <- <-]; apply (Ish _ _ (or_introl eq_refl)) ].
      all: try solve [ rewrite Irai, Ieof; cbn; lia ].
    + (* push *)
      injection H as <-.
      destruct (Ish _ _ (or_intror eq_refl)) as [Hb Hs].
      assert (Hnd : k_wr s <> CWDone).
      { intros Hw. destruct (Iwd Hw) as [F _]. rewrite Ifin in F.
        destruct (k_main s); try discriminate F; [assert (Z : CRPush buf short = CRDone) by (apply Ijr; auto)
                                                 |assert (Z : CRPush buf short = CRDone) by (apply Ijr; auto)]; discriminate Z. }
      destruct short; constructor; cprep; rewrite ?app_length, ?concat_app in *; cbn [length concat app] in *; cfin.
      all: try solve [ rewrite <- Idata by auto; rewrite app_nil_r, <- !app_assoc; reflexivity ].
      all: try solve [ rewrite Irai; do 3 f_equal; lia ].
    + (* eof *)
      injection H as <-.
      rewrite copy_unlock_fields.
      2:{ unfold holders in *. csimp. rewrite Er in Iout. cbn [crd_outh] in *. lia. }
      constructor; cprep; cfin.
      all: try solve [ rewrite Irai, Ieof; cbn; lia ].
    + discriminate.
  - (* writer *)
    unfold cwriter_step in H. destruct (k_started s) eqn:St; [|discriminate]. cbn [negb] in H.
    specialize (Iin eq_refl). specialize (Iout eq_refl). specialize (Ieof eq_refl). specialize (Irai eq_refl).
    destruct (k_wr s) as [|buf| |] eqn:Ew.
    + destruct (k_outq s) as [|buf q] eqn:Eq.
      * destruct (k_finish s) eqn:Ef; [|discriminate]. injection H as <-.
        constructor; cprep; rewrite ?Eq in *; cbn [length concat app] in *; cfin.
        all: try solve [ rewrite Irai; do 3 f_equal; lia ].
      * injection H as <-.
        constructor; cprep; rewrite ?Eq in *; cbn [length concat app] in *; cfin.
        all: try solve [ rewrite Irai; do 3 f_equal; lia ].
        all: try solve [ rewrite <- Idata by auto; rewrite <- !app_assoc; reflexivity ].
    + injection H as <-.
      constructor; cprep; cfin.
      all: try solve [ rewrite Irai; do 3 f_equal; lia ].
    + injection H as <-.
      rewrite copy_unlock_fields.
      2:{ unfold holders in *. csimp. rewrite Ew in Iout. cbn [cwr_outh] in *. lia. }
      constructor; cprep; cfin.
      all: try solve [ rewrite Irai; do 3 f_equal; lia ].
      all: try solve [ rewrite Irai;
                       replace (crd_outh (k_rd s) + length (k_outq s) + 1 =? 0) with false
                         by (symmetry; apply Nat.eqb_neq; lia);
                       rewrite andb_false_r; reflexivity ].
    + discriminate.
  - (* main *)
    unfold main_step in H. destruct (k_main s) eqn:Em.
    + (* sniff *)
      assert (St : k_started s = false) by (rewrite Ist; rewrite ?Em; reflexivity).
      destruct (Ipre St) as (P1 & P2 & P3 & P4 & P5). destruct (P5 eq_refl) as [P6 P7].
      destruct (xread_fills _ sniff_size (k_frag s) (k_rest s) []) as [fr E]. rewrite E in H. cbn [app] in H.
      destruct (is_magic _ _); [|destruct (fallback_cond _ _)]; injection H as <-.
      * constructor; cprep; cfin.
      * assert (Hh : firstn (copy_hdr_len (sniff_size - length (firstn sniff_size (k_rest s))))
                            (firstn sniff_size (k_rest s) ++ repeat garbage sniff_size) = firstn sniff_size (k_rest s)).
        { rewrite hdr_len_ok by lia.
          pose proof (firstn_le_length sniff_size (k_rest s)) as Hl.
          replace (sniff_size - (sniff_size - length (firstn sniff_size (k_rest s))))
            with (length (firstn sniff_size (k_rest s)) + 0) by lia.
          rewrite firstn_app_2. cbn. apply app_nil_r. }
        rewrite Hh.
        constructor; cprep; rewrite ?P2, ?P7 in *; cbn [app concat] in *; cfin.
        all: try solve [ rewrite <- P6; apply firstn_skipn ].
      * constructor; cprep; cfin.
    + discriminate.
    + discriminate.
    + (* copy(): init_io *)
      injection H as <-.
      assert (St : k_started s = false) by (rewrite Ist; rewrite ?Em; reflexivity).
      destruct (Ipre St) as (P1 & P2 & P3 & P4 & P5).
      constructor; cprep; rewrite ?P2, ?P4 in *; cbn [length app concat] in *; cfin.
    + (* halt *)
      destruct (k_taken s <? k_raised s) eqn:Lt; [|discriminate]. injection H as <-. apply Nat.ltb_lt in Lt.
      constructor; cprep; cfin.
    + (* join reader *)
      destruct (k_rd s) eqn:Er; try discriminate. injection H as <-.
      constructor; cprep; cfin.
    + (* join writer *)
      destruct (k_wr s) eqn:Ew; try discriminate. injection H as <-.
      constructor; cprep; cfin.
    + discriminate.
Qed.

Transparent sniff_size copy_hdr_len.
Lemma ci_init f o x frag : CI x (cinit f o x frag).
Proof. constructor; cbn; cfin. Qed.

Lemma creach_ci f o x frag s : CReach (cinit f o x frag) s -> CI x s.
Proof. intros R; induction R; [apply ci_init|eapply ci_step; eauto]. Qed.
Arguments creach_ci {f o x frag s} _.

(* the test work() makes on the first (up to) four bytes *)
Definition is_magic_input (x : list N) : bool :=
  is_magic (sniff_size - length (firstn sniff_size x)) (be32 (firstn sniff_size x)).

Lemma short_not_magic x : length x < sniff_size -> is_magic_input x = false.
Proof.
  intros H. unfold is_magic_input, is_magic. rewrite firstn_all2 by lia.
  destruct (N.eqb_spec (N.of_nat (sniff_size - length x)) 0); [lia|reflexivity].
Qed.

(* "BZh" followed by a digit 1-9 *)
Lemma magic_input_spec x : Forall (fun b => (b < 256)%N) x ->
  (is_magic_input x = true <->
   exists d rest, x = 66%N :: 90%N :: 104%N :: d :: rest /\ (49 <= d <= 57)%N).
Proof.
  intros B. unfold is_magic_input, is_magic, MAGIC, sniff_size.
  destruct x as [|a [|b [|c [|d rest]]]]; cbn [firstn length be32 Nat.sub].
  1-4: split; [intros H; cbn in H; discriminate|intros (d' & r & E & _); discriminate].
  inversion B as [|? ? Ba B1]; subst. inversion B1 as [|? ? Bb B2]; subst.
  inversion B2 as [|? ? Bc B3]; subst. inversion B3 as [|? ? Bd B4]; subst.
  cbn [N.of_nat N.eqb andb]. rewrite andb_true_iff, !N.leb_le. split.
  - intros [H1 H2]. exists d, rest.
    assert (a = 66 /\ b = 90 /\ c = 104 /\ 49 <= d <= 57)%N by lia.
    destruct H as (-> & -> & -> & H). auto.
  - intros (d' & r & E & H). injection E as -> -> -> -> ->. lia.
Qed.

(* with -f and standard output, a non-magic input takes the copy path *)
Lemma copy_path x frag s : is_magic_input x = false -> fallback_cond true true = true ->
  CReach (cinit true true x frag) s -> k_main s <> MDecompress /\ k_main s <> MFail /\ k_force s = true /\ k_stdout s = true.
Proof.
  intros NM FB R. induction R as [|s e s' R IH H].
  - cbn. repeat split; discriminate.
  - destruct IH as (I1 & I2 & I3 & I4). pose proof (creach_ci R) as I.
    destruct e as [i| | |]; cbn [cstep] in H; [discriminate| | |].
    + unfold creader_step in H. destruct (negb (k_started s)); [discriminate|].
      destruct (k_rd s); try discriminate.
      * destruct (k_in s); [discriminate|]. injection H as <-. cbn. auto.
      * destruct (xread gran (k_frag s) (k_rest s) []) as [[[g v] fr] r]. destruct g; injection H as <-; cbn; auto.
      * injection H as <-. unfold copy_unlock. destruct (copy_raise_cond _); cbn; auto.
      * injection H as <-. cbn; auto.
      * injection H as <-. unfold copy_unlock. destruct (copy_raise_cond _); cbn; auto.
    + unfold cwriter_step in H. destruct (negb (k_started s)); [discriminate|].
      destruct (k_wr s); try discriminate.
      * destruct (k_outq s); [destruct (k_finish s); [|discriminate]|]; injection H as <-; cbn; auto.
      * injection H as <-. cbn; auto.
      * injection H as <-. unfold copy_unlock. destruct (copy_raise_cond _); cbn; auto.
    + unfold main_step in H. destruct (k_main s) eqn:Em; try discriminate.
      * assert (St : k_started s = false) by (rewrite (ci_started I), Em; reflexivity).
        destruct (ci_pre I St) as (_ & _ & _ & _ & P5). destruct (P5 Em) as [P6 _].
        destruct (xread_fills _ sniff_size (k_frag s) (k_rest s) []) as [fr E]. rewrite E in H. cbn [app] in H.
        rewrite P6 in H. unfold is_magic_input in NM. rewrite NM in H. rewrite I3, I4, FB in H.
        injection H as <-. cbn. repeat split; auto; discriminate.
      * injection H as <-. cbn. repeat split; auto; discriminate.
      * destruct (k_taken s <? k_raised s); [|discriminate]. injection H as <-. cbn. repeat split; auto; discriminate.
      * destruct (k_rd s); try discriminate. injection H as <-. cbn. repeat split; auto; discriminate.
      * destruct (k_wr s); try discriminate. injection H as <-. cbn. repeat split; auto; discriminate.
Qed.

(* C19_copy / C19_usr2_once *)
Theorem copy_correct f o x frag s : CReach (cinit f o x frag) s -> k_main s = MDone ->
  k_written s = x /\ exit_of s = Exit0 /\ k_raised s = 1.
Proof.
  intros R D. pose proof (creach_ci R) as I.
  assert (St : k_started s = true) by (rewrite (ci_started I), D; reflexivity).
  pose proof (ci_joinr I (or_intror D)) as Er. pose proof (ci_done I D) as Ew.
  destruct (ci_wdone I Ew) as [_ Eq]. pose proof (ci_reof I (or_intror Er)) as Erest.
  pose proof (ci_data I) as Hd. rewrite D in Hd. specialize (Hd eq_refl).
  rewrite Eq, Er, Erest in Hd. cbn in Hd. rewrite app_nil_r in Hd.
  pose proof (ci_raised I St) as Hr. rewrite (ci_eof I St), Er in Hr. unfold holders in Hr.
  rewrite Er, Ew, Eq in Hr. cbn in Hr.
  pose proof (ci_taken I) as Ht. rewrite D in Ht.
  unfold exit_of. rewrite D, Hr, Ht. auto.
Qed.

Theorem usr2_at_most_once f o x frag s : CReach (cinit f o x frag) s -> k_raised s <= 1.
Proof.
  intros R. pose proof (creach_ci R) as I. destruct (k_started s) eqn:St.
  - rewrite (ci_raised I St). destruct (_ && _); cbn; lia.
  - destruct (ci_pre I St) as (_ & _ & _ & -> & _). lia.
Qed.

(* C19_progress: no reachable state is stuck before the exit *)
Theorem copy_progress f o x frag s : CReach (cinit f o x frag) s -> cfinal s = false ->
  exists e s', cstep s e = Some s'.
Proof.
  intros R NF. pose proof (creach_ci R) as I.
  pose proof (ci_started I) as Ist. pose proof (ci_taken I) as Itak. pose proof (ci_finish I) as Ifin.
  assert (Rd : k_started s = true -> k_rd s <> CRDone -> (k_rd s = CRIdle -> 0 < k_in s) -> exists s', cstep s TR = Some s').
  { intros St N Hin. cbn [cstep]. unfold creader_step. rewrite St. cbn [negb].
    destruct (k_rd s) eqn:Er; try congruence; try (eexists; reflexivity).
    - destruct (k_in s); [specialize (Hin eq_refl); lia|eexists; reflexivity].
    - destruct (xread gran (k_frag s) (k_rest s) []) as [[[g v] fr] r]. destruct g; eexists; reflexivity. }
  destruct (k_main s) eqn:Em; unfold cfinal in NF; rewrite Em in NF; try discriminate.
  - (* sniff *) exists TM. cbn [cstep]. unfold main_step. rewrite Em.
    destruct (xread sniff_size (k_frag s) (k_rest s) []) as [[[g v] fr] r].
    destruct (is_magic v (be32 g)); [|destruct (fallback_cond _ _)]; eexists; reflexivity.
  - exists TM. cbn [cstep]. unfold main_step. rewrite Em. eexists; reflexivity.
  - (* halt *)
    assert (St : k_started s = true) by (rewrite Ist; rewrite ?Em; reflexivity).
    pose proof (ci_raised I St) as Hr. pose proof (ci_eof I St) as He. pose proof (ci_in I St) as Hin.
    try rewrite Em in Itak; try rewrite Em in Ifin.
    destruct (k_taken s <? k_raised s) eqn:Lt.
    + exists TM. cbn [cstep]. unfold main_step. rewrite Em, Lt. eexists; reflexivity.
    + apply Nat.ltb_ge in Lt. assert (Hr0 : k_raised s = 0) by lia. rewrite Hr0 in Hr.
      assert (Wr : (k_outq s <> [] \/ (exists b, k_wr s = CWHold b) \/ k_wr s = CWRel) -> exists s', cstep s TS = Some s').
      { intros Hw. cbn [cstep]. unfold cwriter_step. rewrite St. cbn [negb].
        destruct (k_wr s) eqn:Ew.
        - destruct (k_outq s) eqn:Eq; [|eexists; reflexivity].
          destruct Hw as [Hw|[[b Hw]|Hw]]; congruence.
        - eexists; reflexivity.
        - eexists; reflexivity.
        - exfalso. destruct (ci_wdone I Ew) as [F _]. congruence. }
      destruct (k_rd s) eqn:Er.
      * (* idle *)
        destruct (k_in s) eqn:Ein.
        -- exists TS. apply Wr. cbn [crd_in] in Hin. pose proof copy_in_pos.
           destruct (k_outq s); [|left; discriminate]. right.
           destruct (k_wr s); cbn in Hin; try lia. left; eexists; reflexivity.
        -- exists TR. apply Rd; auto; try congruence. intros _. lia.
      * exists TR. apply Rd; auto; congruence.
      * exists TR. apply Rd; auto; congruence.
      * exists TR. apply Rd; auto; congruence.
      * exists TR. apply Rd; auto; congruence.
      * (* reader done: something is still on its way to the writer *)
        rewrite He in Hr. cbn [rd_is_done andb] in Hr. unfold holders in Hr. rewrite Er in Hr. cbn [crd_outh] in Hr.
        exists TS. apply Wr.
        destruct (k_outq s); [|left; discriminate]. right.
        destruct (k_wr s) eqn:Ew; cbn in Hr; try discriminate.
        -- left; eexists; reflexivity.
        -- right; reflexivity.
  - (* join reader *)
    assert (St : k_started s = true) by (rewrite Ist; rewrite ?Em; reflexivity).
    pose proof (ci_raised I St) as Hr. pose proof (ci_eof I St) as He. pose proof (ci_le I) as Hle.
    try rewrite Em in Itak. rewrite Itak in Hle.
    destruct (k_eof s) eqn:Ee; [|cbn in Hr; lia].
    exists TM. cbn [cstep]. unfold main_step. rewrite Em.
    destruct (k_rd s); cbn in He; try discriminate. eexists; reflexivity.
  - (* join writer *)
    assert (St : k_started s = true) by (rewrite Ist; rewrite ?Em; reflexivity).
    pose proof (ci_raised I St) as Hr. pose proof (ci_le I) as Hle.
    try rewrite Em in Itak; try rewrite Em in Ifin. rewrite Itak in Hle.
    destruct (k_eof s && (holders s =? 0)) eqn:Eh; [|cbn in Hr; lia].
    apply andb_true_iff in Eh. destruct Eh as [_ Eh]. apply Nat.eqb_eq in Eh. unfold holders in Eh.
    destruct (k_wr s) eqn:Ew; cbn in Eh; try lia.
    + exists TS. cbn [cstep]. unfold cwriter_step. rewrite St, Ew. cbn [negb].
      destruct (k_outq s); [|cbn in Eh; lia]. rewrite Ifin. eexists; reflexivity.
    + exists TM. cbn [cstep]. unfold main_step. rewrite Em, Ew. eexists; reflexivity.
Qed.

(* an input that starts with a bzip2 header is handed to the decompressor whatever
   -f and the output are: same bytes consumed, nothing written *)
Theorem magic_path f o x frag : is_magic_input x = true ->
  exists s', cstep (cinit f o x frag) TM = Some s' /\ k_main s' = MDecompress /\
             k_rest s' = skipn sniff_size x /\ k_written s' = [].
Proof.
  intros M. cbn [cstep]. unfold main_step. cbn [k_main cinit k_frag k_rest].
  destruct (xread_fills _ sniff_size frag x []) as [fr E]. rewrite E. cbn [app].
  unfold is_magic_input in M. rewrite M. eexists. split; [reflexivity|]. cbn. auto.
Qed.

Theorem nonmagic_without_force o x frag : is_magic_input x = false ->
  exists s', cstep (cinit false o x frag) TM = Some s' /\ k_main s' = MFail.
Proof.
  intros M. cbn [cstep]. unfold main_step. cbn [k_main cinit k_frag k_rest k_force k_stdout].
  destruct (xread_fills _ sniff_size frag x []) as [fr E]. rewrite E. cbn [app].
  unfold is_magic_input in M. rewrite M. cbn. eexists. split; reflexivity.
Qed.
