(* Proofs about the -cdf pipeline model (Copy.v). *)
From Coq Require Import List NArith ZArith Arith Bool Lia.
From LBZ Require Import SchedC.SchedCIface Gen.SchedCTab SchedC.Pool SchedC.PoolLemmas SchedC.Copy.
Import ListNotations.

(* ---- xread / xwrite ---- *)
Section XReadProofs.
  Variable A : Type.

  Lemma firstn_skipn_app (k v : nat) (l : list A) : k <= v ->
    firstn k l ++ firstn (v - k) (skipn k l) = firstn v l.
  Proof.
    revert v l; induction k as [|k IH]; intros v l H; cbn.
    - rewrite Nat.sub_0_r. reflexivity.
    - destruct l as [|a l]; cbn.
      + rewrite !firstn_nil. reflexivity.
      + destruct v as [|v]; [lia|]. cbn. f_equal. apply IH. lia.
  Qed.

  Lemma skipn_skipn' (k v : nat) (l : list A) : k <= v -> skipn (v - k) (skipn k l) = skipn v l.
  Proof.
    revert v l; induction k as [|k IH]; intros v l H; cbn.
    - rewrite Nat.sub_0_r. reflexivity.
    - destruct l as [|a l]; cbn.
      + rewrite !skipn_nil. reflexivity.
      + destruct v as [|v]; [lia|]. cbn. apply IH. lia.
  Qed.

  (* xread() stores exactly the next min(vacant, remaining) bytes, whatever the
     fragmentation of read() *)
  Theorem xread_fills (vacant : nat) (frag : list nat) (rest acc : list A) :
    exists frag',
      xread vacant frag rest acc =
      (acc ++ firstn vacant rest, vacant - length (firstn vacant rest), frag', skipn vacant rest).
  Proof.
    revert vacant rest acc. induction frag as [|f fr IH]; intros vacant rest acc.
    - destruct vacant; cbn [xread].
      + exists []. rewrite app_nil_r. reflexivity.
      + exists []. reflexivity.
    - destruct vacant as [|v].
      + cbn. exists (f :: fr). rewrite app_nil_r. reflexivity.
      + cbn [xread]. destruct rest as [|a rest].
        * exists fr. rewrite firstn_nil, app_nil_r. cbn. reflexivity.
        * set (k := Nat.min (Nat.min (S v) (Nat.max 1 f)) (length (a :: rest))).
          assert (Hk : 1 <= k /\ k <= S v /\ k <= length (a :: rest)) by (unfold k; cbn [length]; lia).
          destruct Hk as (Hk1 & Hk2 & Hk3). clearbody k.
          destruct (IH (S v - k) (skipn k (a :: rest)) (acc ++ firstn k (a :: rest))) as [fr' E].
          exists fr'. rewrite E. rewrite <- app_assoc.
          rewrite (firstn_skipn_app k (S v) (a :: rest) Hk2), (skipn_skipn' k (S v) (a :: rest) Hk2).
          f_equal. f_equal. f_equal.
          rewrite <- (firstn_skipn_app k (S v) (a :: rest) Hk2). rewrite app_length.
          rewrite (firstn_length_le _ Hk3). lia.
  Qed.

  Lemma xread_got vacant frag (rest : list A) :
    fst (fst (fst (xread vacant frag rest []))) = firstn vacant rest /\
    snd (xread vacant frag rest []) = skipn vacant rest /\
    snd (fst (fst (xread vacant frag rest []))) = vacant - length (firstn vacant rest).
  Proof. destruct (xread_fills vacant frag rest []) as [fr ->]. cbn. auto. Qed.

  (* the reader's chunk sequence does not depend on how read() fragments the input *)
  Theorem reader_chunks_cut (fuel gran : nat) (frag : list nat) (x : list A) : 0 < gran ->
    reader_chunks fuel gran frag x = cut fuel gran x.
  Proof.
    intros G. revert frag x. induction fuel as [|fu IH]; intros frag x; cbn [reader_chunks cut]; auto.
    destruct (xread_fills gran frag x []) as [fr ->]. cbn [app].
    destruct x as [|a x].
    - rewrite firstn_nil. reflexivity.
    - destruct gran as [|g]; [lia|]. cbn [firstn]. f_equal.
      change (a :: firstn g x) with (firstn (S g) (a :: x)).
      destruct (Nat.ltb_spec (length (a :: x)) (S g)) as [L|L].
      + rewrite firstn_all2 by lia.
        destruct (Nat.eqb_spec (S g - length (a :: x)) 0); [lia|reflexivity].
      + rewrite firstn_length_le by lia.
        destruct (Nat.eqb_spec (S g - S g) 0); [|lia]. apply IH.
  Qed.

  (* short writes do not change what reaches the file *)
  Theorem xwrite_all (frag : list nat) (buf file : list A) : xwrite frag buf file = file ++ buf.
  Proof.
    revert buf file. induction frag as [|f fr IH]; intros buf file.
    - destruct buf; cbn; [rewrite app_nil_r|]; reflexivity.
    - destruct buf as [|a buf]; [cbn; rewrite app_nil_r; reflexivity|].
      cbn [xwrite]. set (k := Nat.min (length (a :: buf)) (Nat.max 1 f)).
      destruct (skipn k (a :: buf)) eqn:E.
      + rewrite <- (firstn_skipn k (a :: buf)) at 2. rewrite E, app_nil_r. reflexivity.
      + rewrite IH, <- app_assoc. f_equal. rewrite <- E. apply firstn_skipn.
  Qed.
End XReadProofs.

(* ---- the pipeline ---- *)
Definition rdbuf (r : crpc) : list N := match r with CRDeliver b _ | CRPush b _ => b | _ => [] end.
Definition crd_in (r : crpc) : nat := match r with CRRead | CRDeliver _ _ | CRPush _ _ => 1 | _ => 0 end.
Definition crd_outh (r : crpc) : nat := match r with CRPush _ _ => 1 | _ => 0 end.
Definition cwr_in (w : cwpc) : nat := match w with CWHold _ => 1 | _ => 0 end.
Definition cwr_outh (w : cwpc) : nat := match w with CWHold _ | CWRel => 1 | _ => 0 end.
Definition holders (s : cstate) : nat := crd_outh (k_rd s) + length (k_outq s) + cwr_outh (k_wr s).
Definition rd_is_done (r : crpc) : bool := match r with CRDone => true | _ => false end.
Definition started_pc (m : mpc) : bool := match m with MHalt | MJoinR | MJoinW | MDone => true | _ => false end.
Definition copying_pc (m : mpc) : bool := match m with MSniff | MDecompress | MFail => false | _ => true end.

Record CI (x : list N) (s : cstate) : Prop := {
  ci_data : copying_pc (k_main s) = true ->
            k_written s ++ concat (k_outq s) ++ rdbuf (k_rd s) ++ k_rest s = x;
  ci_pre : k_started s = false ->
           k_rd s = CRIdle /\ k_outq s = [] /\ k_wr s = CWIdle /\ k_raised s = 0 /\
           (k_main s = MSniff -> k_rest s = x /\ k_written s = []);
  ci_started : k_started s = started_pc (k_main s);
  ci_in : k_started s = true -> k_in s + crd_in (k_rd s) + length (k_outq s) + cwr_in (k_wr s) = copy_in_slots;
  ci_out : k_started s = true -> (k_out s + Z.of_nat (holders s) = Z.of_nat copy_out_slots)%Z;
  ci_eof : k_started s = true -> k_eof s = rd_is_done (k_rd s);
  ci_raised : k_started s = true -> k_raised s = b2n (k_eof s && (holders s =? 0));
  ci_taken : k_taken s = match k_main s with MJoinR | MJoinW | MDone => 1 | _ => 0 end;
  ci_le : k_taken s <= k_raised s;
  ci_finish : k_finish s = match k_main s with MJoinW | MDone => true | _ => false end;
  ci_joinr : (k_main s = MJoinW \/ k_main s = MDone) -> k_rd s = CRDone;
  ci_done : k_main s = MDone -> k_wr s = CWDone;
  ci_wdone : k_wr s = CWDone -> k_finish s = true /\ k_outq s = [];
  ci_short : forall b sh, (k_rd s = CRDeliver b sh \/ k_rd s = CRPush b sh) -> b <> [] /\ (sh = true -> k_rest s = []);
  ci_reof : (k_rd s = CREof \/ k_rd s = CRDone) -> k_rest s = []
}.

(* side conditions on the regenerated constants *)
Lemma gran_pos : 0 < gran.
Proof. unfold gran. change 0 with (N.to_nat 0). apply Nat.compare_lt_iff. rewrite <- N2Nat.inj_compare. reflexivity. Qed.
Lemma copy_slots_eq : copy_out_slots = copy_total_out_slots.
Proof. reflexivity. Qed.
Lemma copy_in_pos : 0 < copy_in_slots.
Proof. unfold copy_in_slots. lia. Qed.
Lemma hdr_len_ok : forall v, v <= sniff_size -> copy_hdr_len v = sniff_size - v.
Proof. intros v H. reflexivity. Qed.

Lemma raise_cond_spec (s : cstate) :
  (k_out s + Z.of_nat (holders s) = Z.of_nat copy_out_slots)%Z ->
  copy_raise_cond (cview s) = k_eof s && (holders s =? 0).
Proof.
  intros H. unfold copy_raise_cond, cview. cbn [g_eof g_out_slots g_total_out_slots]. f_equal.
  unfold view_out. rewrite <- copy_slots_eq.
  destruct (Z.leb_spec 0 (k_out s)); destruct (Nat.eqb_spec (holders s) 0) as [E|E];
    try (apply Nat.eqb_eq; lia); try (apply Nat.eqb_neq; lia).
Qed.

Arguments ci_data {x s} _.
Arguments ci_pre {x s} _.
Arguments ci_started {x s} _.
Arguments ci_in {x s} _.
Arguments ci_out {x s} _.
Arguments ci_eof {x s} _.
Arguments ci_raised {x s} _.
Arguments ci_taken {x s} _.
Arguments ci_le {x s} _.
Arguments ci_finish {x s} _.
Arguments ci_joinr {x s} _.
Arguments ci_done {x s} _.
Arguments ci_wdone {x s} _.
Arguments ci_short {x s} _.
Arguments ci_reof {x s} _.
