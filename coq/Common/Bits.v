(* Bit-level basics shared by the codec models. *)
From Coq Require Import List NArith Arith Bool Lia.
Import ListNotations.

(* [n] bits of [x], most significant first *)
Fixpoint bits_msb (n : nat) (x : N) : list bool :=
  match n with
  | 0 => []
  | S n' => N.testbit x (N.of_nat n') :: bits_msb n' x
  end.

Definition bits8 (x : N) : list bool := bits_msb 8 x.

Lemma bits_msb_length n x : length (bits_msb n x) = n.
Proof. induction n; simpl; auto. Qed.

(* value of a bit list read msb first *)
Fixpoint N_of_bits_acc (acc : N) (bs : list bool) : N :=
  match bs with
  | [] => acc
  | b :: r => N_of_bits_acc (2 * acc + (if b then 1 else 0))%N r
  end.
Definition N_of_bits (bs : list bool) : N := N_of_bits_acc 0 bs.

(* boolean equality on bit lists *)
Fixpoint bl_eqb (a b : list bool) : bool :=
  match a, b with
  | [], [] => true
  | x :: a', y :: b' => Bool.eqb x y && bl_eqb a' b'
  | _, _ => false
  end.

Lemma bl_eqb_spec a b : bl_eqb a b = true <-> a = b.
Proof.
  revert b; induction a as [|x a IH]; intros [|y b]; simpl; split; intro H; try congruence; auto.
  - apply andb_true_iff in H as [H1 H2]. apply eqb_prop in H1. apply IH in H2. congruence.
  - inversion H; subst. rewrite eqb_reflx. simpl. apply IH. reflexivity.
Qed.

(* a 32-bit big-endian word as it lies in memory: four bytes *)
Definition word := (N * N * N * N)%type.
Definition bits_of_word (w : word) : list bool :=
  let '(a, b, c, d) := w in bits8 a ++ bits8 b ++ bits8 c ++ bits8 d.

Lemma bits_of_word_length w : length (bits_of_word w) = 32.
Proof. destruct w as [[[a b] c] d]. unfold bits_of_word, bits8. rewrite !app_length, !bits_msb_length. reflexivity. Qed.

Definition is_suffix {A} (u w : list A) : Prop := exists t, w = t ++ u.
Definition is_prefix {A} (u w : list A) : Prop := exists t, w = u ++ t.

Lemma is_suffix_refl {A} (u : list A) : is_suffix u u.
Proof. exists []. reflexivity. Qed.

Lemma is_suffix_nil {A} (w : list A) : is_suffix [] w.
Proof. exists w. rewrite app_nil_r. reflexivity. Qed.

Lemma is_suffix_trans {A} (u v w : list A) : is_suffix u v -> is_suffix v w -> is_suffix u w.
Proof. intros [t1 ->] [t2 ->]. exists (t2 ++ t1). rewrite app_assoc. reflexivity. Qed.

Lemma is_suffix_length {A} (u w : list A) : is_suffix u w -> length u <= length w.
Proof. intros [t ->]. rewrite app_length. lia. Qed.

Lemma is_suffix_app_l {A} (u w t : list A) : is_suffix u w -> is_suffix u (t ++ w).
Proof. intros [s ->]. exists (t ++ s). rewrite app_assoc. reflexivity. Qed.

Lemma is_suffix_snoc {A} (u w : list A) b : is_suffix u w -> is_suffix (u ++ [b]) (w ++ [b]).
Proof. intros [t ->]. exists t. rewrite app_assoc. reflexivity. Qed.

Lemma app_snoc_inj {A} (a b : list A) x y : a ++ [x] = b ++ [y] -> a = b /\ x = y.
Proof. intro H. apply app_inj_tail in H. exact H. Qed.

Lemma exists_last_or_nil {A} (u : list A) : u = [] \/ exists u' c, u = u' ++ [c].
Proof.
  destruct u as [|x u]; [left; reflexivity|right].
  destruct (@exists_last A (x :: u)) as [u' [c H]]; [discriminate|]. exists u', c. exact H.
Qed.

Lemma is_suffix_snoc_inv {A} (u w : list A) b :
  is_suffix u (w ++ [b]) -> u = [] \/ exists u', u = u' ++ [b] /\ is_suffix u' w.
Proof.
  intros [t H]. destruct (exists_last_or_nil u) as [->|[u' [c ->]]]; [left; reflexivity|right].
  rewrite app_assoc in H. apply app_snoc_inj in H as [H1 H2]. subst c.
  exists u'. split; [reflexivity|]. exists t. exact H1.
Qed.

Lemma app_inj_len {A} (a b x y : list A) : length a = length b -> a ++ x = b ++ y -> a = b /\ x = y.
Proof.
  revert b; induction a as [|h a IH]; intros [|k b] Hl H; simpl in *; try discriminate; auto.
  inversion H; subst. destruct (IH b) as [-> ->]; auto.
Qed.

Lemma is_suffix_common {A} (u v w : list A) :
  is_suffix u w -> is_suffix v w -> length u <= length v -> is_suffix u v.
Proof.
  intros [t1 H1] [t2 H2] Hl. subst w.
  assert (Hlen : length t2 <= length t1).
  { apply (f_equal (@length A)) in H2. rewrite !app_length in H2. lia. }
  exists (skipn (length t2) t1).
  assert (E : t1 = firstn (length t2) t1 ++ skipn (length t2) t1) by (symmetry; apply firstn_skipn).
  rewrite E in H2. rewrite <- app_assoc in H2.
  assert (F : firstn (length t2) t1 = t2 /\ skipn (length t2) t1 ++ u = v).
  { symmetry in H2. apply app_inj_len in H2; [destruct H2; split; congruence|]. rewrite firstn_length. lia. }
  destruct F as [_ F]. symmetry. exact F.
Qed.
