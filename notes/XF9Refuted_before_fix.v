(* KEPT OUT OF coq/: by design this file compiles only against the UNREPAIRED source:
   /repo at any commit before eaee3ab (do_scan() records a candidate without testing
   size(unord_q), regenerated boolean scan_checks_unord_cap = false).
   To replay: check out such a commit into a scratch tree T, then
     VERIF_REPO=T python3 -c "import sys; sys.path[:0]=['/verif/lib','/verif/checks']; import schedx_part as sp; print(sp.model_exhibits('XF9Refuted'))"
   (regenerates Gen/ for T in the alt tree and compiles this file against it). *)
(* Finding F9 (unord_q overflow), for the source without the capacity test:
   the capacity pqueue_init(unord_q, work_units + out_slots - UNORD_THRESH) is NOT an
   invariant.  A speculative retrieve job that the master overtakes is dropped (advance():
   curr_pos.offset < head_offs; do_retrieve() on MORE with curr_pos.offset < head_offs);
   drop_unord_link() only marks its unord_blk complete, the block stays in unord_q, owning
   neither a work unit nor an output slot, until the parser pushes the next header (or
   FINISH).  While ONE block is being retrieved by the master (parse_token = 0: the parser
   does not run, nothing is discarded) scanners can record candidates ahead of parser_bs
   again and again; each is overtaken and leaves its block behind.

   Witness, real configuration of `lbzip2 -d -n 2` (init_dec 2 false false: 8 input slots,
   32 output slots, capacity 2 + 32 - 3 = 31), input blocks of 2 words: the parser confirms
   a block at bit 10; per round r (o = 2 + 4r): the master retrieves from word o; a scanner
   reports a candidate at bit 32o+20 (word o+1, ahead of parser_bs) and its retriever
   starts; the master returns MORE at word o+2 and again at word o+4 (head_offs = o+4);
   the candidate's retriever returns MORE at word o+2 < head_offs and is dropped.  After
   32 rounds unord_q holds 32 blocks. *)
From Coq Require Import List NArith Bool.
From LBZ Require Import Gen.Consts SchedX.XState Gen.SchedXTab SchedX.XSet SchedX.XModel.
Import ListNotations.
Local Open Scope N_scope.

Definition f9_master (o : N) : rjob := mkrjob (10, 0) (mkdbs (32 * o) o) None.
Definition f9_spec (o id : N) : rjob := mkrjob (32 * o + 20, 0) (mkdbs (32 * o + 20) (o + 1)) (Some id).

Definition f9_round (r : N) : list event :=
  let o := 2 + 4 * r in
  [ EvInput 2 0; EvInput 2 0;
    EvRetr0 (f9_master o);
    EvScan0; EvScan1 (mkdbs (32 * o) o) (Some o) true (mkdbs (32 * o + 20) (o + 1)) true;
    EvRetr0 (f9_spec o r);
    EvRetr1 (f9_master o) (Some o) MORE (mkdbs (32 * (o + 2)) (o + 2));
    EvRetr0 (f9_master (o + 2));
    EvRetr1 (f9_master (o + 2)) (Some (o + 2)) MORE (mkdbs (32 * (o + 4)) (o + 4));
    EvRetr1 (f9_spec o r) (Some o) MORE (mkdbs (32 * (o + 2)) (o + 2)) ].

Definition f9_prologue : list event :=
  [ EvInput 2 0; EvInput 2 0; EvInput 2 0;
    EvParse0; EvParse1 (Some 0) (POk (mkdbs 10 1) 0 9 0);
    EvRetr0 (mkrjob (10, 0) (mkdbs 10 1) None);
    EvRetr1 (mkrjob (10, 0) (mkdbs 10 1) None) (Some 0) MORE (mkdbs 64 2) ].

Fixpoint f9_rounds (k : nat) : list event :=
  match k with O => [] | S k' => f9_rounds k' ++ f9_round (N.of_nat k') end.

Definition f9_events (k : nat) : list event := f9_prologue ++ f9_rounds k.

Theorem C11x_unord_capacity_refuted :
  exists evs st, run gen_cfg (init_dec 2 false false) evs = Some st /\ x_failed st = None /\ x_bad_attach st = false /\
    cap_unord_q (x_total_in st) (x_num_worker st) (x_total_out st) < N.of_nat (length (unord_q st)).
Proof.
  exists (f9_events 32). eexists. split; [vm_compute; reflexivity|].
  split; [reflexivity|]. split; [reflexivity|]. vm_compute. reflexivity.
Qed.

(* the number of unord_blk records alive is not bounded by any function of the worker
   count either: 100 rounds leave 100 records (2 workers) *)
Theorem C13x_unord_count_refuted :
  exists evs st, run gen_cfg (init_dec 2 false false) evs = Some st /\ x_failed st = None /\
    length (x_unords st) = 100%nat.
Proof.
  exists (f9_events 100). eexists. split; [vm_compute; reflexivity|]. split; reflexivity.
Qed.
