(* MOVED OUT OF coq/: by design this file compiles only against the UNREPAIRED source
   (requeue_retr_checks_head = false): /repo at 3f4ec0c..e84bd86 (any commit before 8baf351 `fix: drop a speculative retrieve job ...`).
   To replay: check out such a commit into a scratch tree T, then
     VERIF_REPO=T python3 -c "import sys; sys.path[:0]=['/verif/lib','/verif/checks']; import schedx_part as sp; print(sp.model_exhibits('XF4Refuted'))"
   (regenerates Gen/ for T in the alt tree and compiles this file against it). *)
(* Finding F4, refutation for the source as it is NOW: compiles only while
   do_retrieve() re-queues on MORE without the test `offset >= head_offs`
   (Gen.SchedXTab.requeue_retr_checks_head = false).  The event list is the witness. *)
From Coq Require Import List NArith Bool.
From LBZ Require Import Gen.Consts SchedX.XState Gen.SchedXTab SchedX.XSet SchedX.XModel SchedX.XF4.
Import ListNotations.
Local Open Scope N_scope.

Lemma requeue_retr_unguarded : requeue_retr_checks_head = false.
Proof. reflexivity. Qed.

Theorem SchedX_retr_inv_refuted :
  exists evs st, run gen_cfg f4_init evs = Some st /\ retr_inv st = false.
Proof. exists f4_events. eexists. split; [vm_compute; reflexivity | vm_compute; reflexivity]. Qed.

(* ... and the next scheduling decision attaches a bit stream below head_offs:
   the assert of can_attach()/attach() fails (asserts on) or freed memory is read (NDEBUG). *)
Theorem SchedX_bad_attach_reachable :
  exists evs st, run gen_cfg f4_init evs = Some st /\ x_bad_attach st = true.
Proof. exists f4_events_attach. eexists. split; [vm_compute; reflexivity | vm_compute; reflexivity]. Qed.
