
(* ---- after the repair of the -f data loss is in the source (append to coq/Front/FrontC16.v) ---- *)
(* side condition on the regenerated flag: output_init() stat()s the output name and skips the operand when it
   leads to the file being read *)
Lemma sc_same_file_check :
  output_init_checks_same_file = true /\ same_file_under = ["if:force"]%string.
Proof. split; reflexivity. Qed.

Lemma every_started_operand_final codec cf f ops pl h :
  In h (m_hist (fst (run_full codec cf f ops pl))) ->
  h_cleanfail h = false ->
  match h_disp h with
  | DAborted WKill => kill_safe codec cf (h_before h) (h_after h) (h_op h)
  | DAborted y => safe codec cf (h_before h) (h_after h) (h_op h) (h_rmfail h) /\
                  (strict_first y = true -> first_or_kept cf (h_before h) (h_after h) (h_op h))
  | _ => safe codec cf (h_before h) (h_after h) (h_op h) (h_rmfail h)
  end.
Proof. exact (every_started_operand_checked codec cf f ops pl h (proj1 sc_same_file_check)). Qed.

(* the scenario of the former finding: the operand is skipped with a warning, nothing changes *)
Lemma force_symlink_fixed :
  let cf := {| c_decompress := true; c_force := true; c_keep := false; c_outmode := OmRegf; c_uid := 0; c_gid := 0; c_now := 99 |} in
  let f := {| f_names := [("x"%string, DLink 1); ("x.bz2"%string, DSym "x"%string)];
              f_inodes := [(1, ex16_node [104; 101; 108; 108; 111])]; f_stdout := [] |} in
  run ex16_codec cf f ["x.bz2"%string] [] = (f, Exit 4).
Proof. vm_compute. reflexivity. Qed.
