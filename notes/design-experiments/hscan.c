#include "/repo/src/common.h"
#include <stdio.h>
#include <string.h>
#include <arpa/inet.h>
#include "/repo/src/decode.h"
/* stdin: nwords live buffhex skip then words hex ; prints result and consumed bit position */
int main(void){
  unsigned n, live, skip; unsigned long long buff;
  while (scanf("%u %u %llx %u",&n,&live,&buff,&skip)==4){
    static uint32_t w[4096]; for(unsigned i=0;i<n;i++){unsigned x; scanf("%x",&x); w[i]=htonl(x);}
    struct bitstream bs; memset(&bs,0,sizeof bs); bs.live=live; bs.buff=buff; bs.data=w; bs.limit=w+n; bs.eof=0;
    int r=scan(&bs,skip);
    /* position in bits relative to the start of the (live bits ++ words) string */
    long pos=(long)live + 32L*(bs.data-w) - (long)bs.live;
    printf("%d %ld %u\n", r, pos, bs.live);
  }
  return 0;
}
