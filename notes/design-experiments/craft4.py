import random,sys
from mkbz import *
def block_custom(w,data,nt,extra_bits_tokens):
    blk=rle1(data); L,idx=bwt(blk); mv,used,asz=mtfzrle(L)
    lens=lengths_for(asz); codes=canon(lens)
    w.put(24,0x314159); w.put(24,0x265359)
    crc=crc32_bz(data)^0xFFFFFFFF
    w.put(32,crc); w.put(1,0); w.put(24,idx)
    big=0; small=[0]*16
    for c in used: big|=0x8000>>(c>>4); small[c>>4]|=0x8000>>(c&15)
    w.put(16,big)
    for i in range(16):
        if small[i]: w.put(16,small[i])
    ns_needed=(len(mv)+49)//50
    toks=extra_bits_tokens
    ns=ns_needed+len(toks)
    assert ns<=32767,ns
    w.put(3,nt); w.put(15,ns)
    for _ in range(ns_needed): w.put(1,0)
    for t in toks:
        for b in t: w.put(1,b)
    for t in range(nt):
        cur=lens[0]; w.put(5,cur)
        for l in lens:
            while cur<l: w.put(2,2); cur+=1
            while cur>l: w.put(2,3); cur-=1
            w.put(1,0)
    for m in mv: w.put(lens[m],codes[m])
    return crc
def fake_header_bits():
    b=[]
    def put(n,v):
        for i in range(n-1,-1,-1): b.append((v>>i)&1)
    put(24,0x314159); put(24,0x265359); put(32,0); put(1,0); put(24,0)
    put(16,0x8000); put(16,0x8000); put(3,2); put(15,0b011111011111011)
    return b
def tokenize(bits,nt):
    toks=[];cur=[]
    for x in bits:
        cur.append(x)
        if x==0: toks.append(cur); cur=[]
        else: assert len(cur)<nt, 'too many ones'
    if cur: cur.append(0); toks.append(cur)
    return toks
if __name__=='__main__':
    data=bytes(random.Random(3).randrange(256) for _ in range(400))
    pre=int(sys.argv[1]) if len(sys.argv)>1 else 200     # zero tokens before fake header
    post=int(sys.argv[2]) if len(sys.argv)>2 else 30000
    toks=[[0]]*pre+tokenize(fake_header_bits(),6)+[[0]]*post
    w=BW(); w.put(24,0x425A68); w.put(8,0x39)
    c=block_custom(w,data,6,toks)
    w.put(24,0x177245); w.put(24,0x385090); w.put(32,c)
    sys.stdout.buffer.write(w.bytes())
