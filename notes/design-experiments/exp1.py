import random,sys
from mkbz import *
data=bytes(random.Random(1).randrange(256) for _ in range(300))
def path_start(start):
    def p(w,lens):
        cur=start; w.put(5,cur)
        for l in lens:
            while cur<l: w.put(2,2); cur+=1
            while cur>l: w.put(2,3); cur-=1
            w.put(1,0)
    return p
def path_zigzag_low(w,lens):
    # go to 1 then 0 then back: need value at 1: walk first symbol down to 1, then -1,+1, then up to l
    cur=lens[0]; w.put(5,cur)
    first=True
    for l in lens:
        if first:
            while cur>1: w.put(2,3); cur-=1
            w.put(2,3); w.put(2,2)  # 1 -> 0 -> 1
            first=False
        while cur<l: w.put(2,2); cur+=1
        while cur>l: w.put(2,3); cur-=1
        w.put(1,0)
def path_zigzag_high(w,lens):
    cur=lens[0]; w.put(5,cur)
    first=True
    for l in lens:
        if first:
            while cur<20: w.put(2,2); cur+=1
            w.put(2,2); w.put(2,3)  # 20 -> 21 -> 20
            first=False
        while cur<l: w.put(2,2); cur+=1
        while cur>l: w.put(2,3); cur-=1
        w.put(1,0)
for name,p in [('start0',path_start(0)),('start21',path_start(21)),('start31',path_start(31)),('ziglow',path_zigzag_low),('zighigh',path_zigzag_high),('ok',path_start(5))]:
    open(name+'.bz2','wb').write(stream(data,delta_path=p))
