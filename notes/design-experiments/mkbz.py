#!/usr/bin/env python3
"""Crafting bzip2 encoder for experiments: lets the caller choose delta-code paths etc."""
import sys, struct
def crc32_bz(data, crc=0xFFFFFFFF):
    for b in data:
        crc ^= b << 24
        for _ in range(8):
            crc = ((crc << 1) ^ 0x04C11DB7) & 0xFFFFFFFF if crc & 0x80000000 else (crc << 1) & 0xFFFFFFFF
    return crc
class BW:
    def __init__(s): s.bits=[]
    def put(s,n,v):
        for i in range(n-1,-1,-1): s.bits.append((v>>i)&1)
    def bytes(s):
        b=s.bits+[0]*((-len(s.bits))%8)
        return bytes(int(''.join(map(str,b[i:i+8])),2) for i in range(0,len(b),8))
def rle1(data):
    out=[];i=0
    while i<len(data):
        j=i
        while j<len(data) and data[j]==data[i] and j-i<259: j+=1
        n=j-i
        if n>=4: out+= [data[i]]*4+[n-4]
        else: out+=[data[i]]*n
        i=j
    return out
def bwt(blk):
    n=len(blk); rots=sorted(range(n),key=lambda i: blk[i:]+blk[:i])
    return [blk[(i-1)%n] for i in rots], rots.index(0)
def mtfzrle(L):
    used=sorted(set(L)); order=list(used); out=[]; run=0
    def flush():
        nonlocal run
        while run>0:
            run-=1; out.append(run&1); run>>=1
    for c in L:
        i=order.index(c)
        if i==0: run+=1; continue
        flush(); out.append(i+1); order.pop(i); order.insert(0,c)
    flush(); eob=len(used)+1; out.append(eob); return out,used,eob+1
def lengths_for(asz):
    # complete code: lengths k or k+1
    k=asz.bit_length()-1
    nshort=(2<<k)-asz
    return [k]*nshort+[k+1]*(asz-nshort) if nshort<asz else [k]*asz
def canon(lens):
    codes=[0]*len(lens); code=0
    for l in range(1,21):
        for s,ls in enumerate(lens):
            if ls==l: codes[s]=code; code+=1
        code<<=1
    return codes
def block(w,data,level,delta_path=None,start_override=None,rand=0,nsel_extra=0,crc_override=None,idx_override=None):
    blk=rle1(data); L,idx=bwt(blk); mv,used,asz=mtfzrle(L)
    lens=lengths_for(asz); codes=canon(lens)
    w.put(24,0x314159); w.put(24,0x265359)
    crc=crc32_bz(data)^0xFFFFFFFF
    w.put(32,crc if crc_override is None else crc_override); w.put(1,rand); w.put(24,idx if idx_override is None else idx_override)
    big=0; small=[0]*16
    for c in used: big|=0x8000>>(c>>4); small[c>>4]|=0x8000>>(c&15)
    w.put(16,big)
    for i in range(16):
        if small[i]: w.put(16,small[i])
    w.put(3,2); ns=(len(mv)+49)//50; w.put(15,ns+nsel_extra)
    for _ in range(ns+nsel_extra): w.put(1,0)
    for t in range(2):
        if t==0 and delta_path is not None:
            delta_path(w,lens)
        else:
            cur=lens[0]; w.put(5,cur)
            for l in lens:
                while cur<l: w.put(2,2); cur+=1
                while cur>l: w.put(2,3); cur-=1
                w.put(1,0)
    for m in mv: w.put(lens[m],codes[m])
    return crc
def stream(data,level=9,**kw):
    w=BW(); w.put(24,0x425A68); w.put(8,0x30+level)
    c=block(w,data,level,**kw)
    w.put(24,0x177245); w.put(24,0x385090); w.put(32,c)
    return w.bytes()
if __name__=='__main__':
    import random
    data=bytes(random.Random(1).randrange(256) for _ in range(300))
    sys.stdout.buffer.write(stream(data))
