#include "/repo/src/encode.c"
#include <stdio.h>
/* stdin lines: M nchunks len1 bytes... ; runs collect sequentially like do_collect_seq: new encoder when full; prints blocks */
int32_t divbwt(uint8_t *T, int32_t *SA, int32_t *bucket, int32_t n){(void)T;(void)SA;(void)bucket;(void)n;return 0;}
uint32_t crc_table[256];
int main(void){
  unsigned M,nc;
  while(scanf("%u %u",&M,&nc)==2){
    struct encoder_state *s=malloc(encoder_alloc_size(M)); encoder_init(s,M,8);
    for(unsigned c=0;c<nc;c++){
      unsigned len; scanf("%u",&len); static uint8_t buf[100000]; for(unsigned i=0;i<len;i++){unsigned x;scanf("%u",&x);buf[i]=x;}
      size_t left=len; const uint8_t*p=buf;
      while(left>0){
        size_t before=left; int full=collect(s,p,&left); p+=before-left;
        if(full){
          uint8_t *block=(void*)(s->SA+s->max_block_size+GROUP_SIZE);
          if (s->rle_state>=4) {printf("BUG ");}
          printf("[");for(unsigned i=0;i<s->nblock;i++)printf("%u ",block[i]);printf("] ");
          encoder_init(s,M,8);
        }
      }
    }
    /* final flush like encode() */
    { uint8_t *block=(void*)(s->SA+s->max_block_size+GROUP_SIZE);
      if(s->rle_state>=4) block[s->nblock++]=s->rle_state-4;
      if(s->nblock){printf("[");for(unsigned i=0;i<s->nblock;i++)printf("%u ",block[i]);printf("] ");}}
    printf("\n"); free(s);
  }
}
