import random,subprocess
def rle1(x):
    out=[];i=0
    while i<len(x):
        j=i
        while j<len(x) and x[j]==x[i] and j-i<259: j+=1
        n=j-i
        out+= [x[i]]*4+[n-4] if n>=4 else [x[i]]*n
        i=j
    return out
def greedy(M,x):
    blocks=[];i=0
    while i<len(x):
        # longest prefix p of x[i:] with |rle1 p|<=M
        k=0
        while i+k<len(x) and len(rle1(x[i:i+k+1]))<=M: k+=1
        # extend while adding zero (already by loop since <=M)
        blocks.append(rle1(x[i:i+k])); i+=k
    return blocks
rnd=random.Random(7); cases=[];exp=[]
for t in range(4000):
    M=rnd.randrange(1,14); n=rnd.randrange(0,40)
    x=[]
    while len(x)<n:
        x+=[rnd.randrange(2)]*rnd.choice([1,1,2,3,4,5,6,7,8])
    if rnd.random()<0.05: x=[0]*rnd.randrange(250,540); M=rnd.randrange(3,12)
    # random chunking
    chunks=[];i=0
    while i<len(x):
        k=rnd.randrange(1,6); chunks.append(x[i:i+k]); i+=k
    cases.append("%d %d %s"%(M,len(chunks),' '.join("%d %s"%(len(c),' '.join(map(str,c))) for c in chunks)))
    exp.append(greedy(M,x))
out=subprocess.run(['./hcollect'],input='\n'.join(cases)+'\n',capture_output=True,text=True).stdout.split('\n')
bad=0
for c,e,o in zip(cases,exp,out):
    got=[[int(v) for v in b.split()] for b in o.replace(']','').split('[')[1:]]
    if 'BUG' in o or got!=e:
        bad+=1
        if bad<5: print('DIFF',c,'\n exp',e,'\n got',got)
print(len(cases),'bad',bad)
