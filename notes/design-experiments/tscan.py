import random,subprocess
P=[int(c) for c in format(0x314159265359,'048b')]
def spec(bits,live,skip):
    # effective start
    if skip>live:
        start=live+32*((skip-live+31)//32)
        if start>len(bits): start=len(bits)
    else: start=0
    # first match at/after start: pattern occupying [p-48,p) with p-48>=start
    n=len(bits)
    for p in range(start+48,n+1):
        if bits[p-48:p]==P:
            if p+32<=n: return ('OK',p+32)
            return ('MORE',n)
    return ('MORE',n)
rnd=random.Random(5)
cases=[];exp=[]
for t in range(3000):
    n=rnd.randrange(0,8); live=rnd.randrange(0,64); skip=rnd.choice([0,0,rnd.randrange(0,300)])
    bits=[rnd.randrange(2) for _ in range(live+32*n)]
    # plant
    for _ in range(rnd.randrange(0,3)):
        if len(bits)>=48:
            o=rnd.randrange(0,len(bits)-47); bits[o:o+48]=P
    buff=int(''.join(map(str,bits[:live]+[0]*(64-live))),2) if live else 0
    words=[int(''.join(map(str,bits[live+32*i:live+32*i+32])),2) for i in range(n)]
    cases.append("%d %d %x %d %s"%(n,live,buff,skip,' '.join('%x'%w for w in words))); exp.append(spec(bits,live,skip))
out=subprocess.run(['./hscan'],input='\n'.join(cases)+'\n',capture_output=True,text=True).stdout.split('\n')
bad=0
for c,e,o in zip(cases,exp,out):
    r,pos,l=o.split(); got=('OK' if r=='0' else 'MORE',int(pos))
    if got!=e:
        bad+=1
        if bad<6: print('DIFF',c,e,got)
print('cases',len(cases),'bad',bad, 'OKs',sum(1 for e in exp if e[0]=='OK'))
