(* MOVED OUT OF coq/: by design this file compiles only against the UNREPAIRED source
   (can_emit uses pos_eq): /repo at any commit before 4f41bab (pos_eq in the second disjunct of can_emit()).
   To replay: check out such a commit into a scratch tree T, then
     VERIF_REPO=T python3 -c "import sys; sys.path[:0]=['/verif/lib','/verif/checks']; import schedx_part as sp; print(sp.model_exhibits('XF8Refuted'))"
   (regenerates Gen/ for T in the alt tree and compiles this file against it). *)
(* Finding F8 (deadlock with spurious candidates), for the source as it is NOW:
   C11x_progress is refuted.  Compiles only while can_emit() lets the reserved output
   slots be used solely by a job whose base EQUALS the head of order_q (pos_eq): a
   rejected candidate with a smaller base then sits at the minimum of emit_q for ever.

   Witness (3 workers, 3 output slots, one input block): the parser confirms a block at
   bit 10; scanners report a spurious candidate at bit 40 (inside it) and a real block at
   bit 100; the block at 100 is retrieved and emitted first and occupies the only
   unreserved output slot; the candidate at 40 fails and waits in emit_q; the parser
   confirms the blocks at 70 and 100 and reaches the end of the input.  Now emit_q =
   {70, 40}: its minimum (40) is not the head of order_q (70), out_slots = 2 = EMIT_THRESH,
   reord_q = {100} is ahead of the head: no task is ready, nothing is running, the reader
   and the writer have nothing to do, and the state is not final. *)
From Coq Require Import List NArith Bool.
From LBZ Require Import Gen.Consts SchedX.XState Gen.SchedXTab SchedX.XSet SchedX.XModel.
Import ListNotations.
Local Open Scope N_scope.

Definition f8_m10 : rjob := mkrjob (10, 0) (mkdbs 10 1) None.
Definition f8_s40 : rjob := mkrjob (40, 0) (mkdbs 40 2) (Some 0).
Definition f8_s100 : rjob := mkrjob (100, 0) (mkdbs 100 4) (Some 1).
Definition f8_m70 : rjob := mkrjob (70, 0) (mkdbs 70 3) None.
Definition f8_e10 := mkejob (10, 0) 0 2.
Definition f8_e40 := mkejob (40, 0) 5 2.
Definition f8_e100 := mkejob (100, 0) 0 5.
Definition f8_e70 := mkejob (70, 0) 0 3.

Definition f8_events : list event :=
  [ EvInput 8 0; EvEof;
    EvParse0; EvParse1 (Some 0) (POk (mkdbs 10 1) 0 9 0);
    EvRetr0 f8_m10;
    EvScan0; EvScan1 (mkdbs 0 0) (Some 0) true (mkdbs 40 2) true;
    EvRetr0 f8_s40;
    EvScan0; EvScan1 (mkdbs 40 2) (Some 0) true (mkdbs 100 4) true;
    EvRetr0 f8_s100;
    EvRetr1 f8_s100 (Some 0) 0 (mkdbs 150 5); EvRetr2 f8_e100;
    EvEmit0; EvEmit1 f8_e100 0 30 7 30;
    EvRetr1 f8_s40 (Some 0) 5 (mkdbs 45 2); EvRetr2 f8_e40;
    EvRetr1 f8_m10 (Some 0) 0 (mkdbs 60 2); EvRetr2 f8_e10;
    EvParse0; EvParse1 (Some 0) (POk (mkdbs 70 3) 0 9 0);
    EvEmit0; EvEmit1 f8_e10 0 30 0 30;
    EvReorder; EvWritten;
    EvRetr0 f8_m70; EvRetr1 f8_m70 (Some 0) 0 (mkdbs 95 3); EvRetr2 f8_e70;
    EvParse0; EvParse1 (Some 0) (POk (mkdbs 100 4) 0 9 0);
    EvParse0; EvParse1 (Some 0) (PFinish (mkdbs 256 8) 0) ].

Theorem C11x_progress_refuted :
  exists evs st, run gen_cfg (init_state 3 8 3 false) evs = Some st /\
    x_failed st = None /\ final st = false /\ forall e, step gen_cfg st e = None.
Proof.
  exists f8_events. eexists. split; [vm_compute; reflexivity|].
  split; [reflexivity|]. split; [vm_compute; reflexivity|].
  intro e. destruct e; vm_compute; reflexivity.
Qed.
