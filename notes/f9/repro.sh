#!/bin/bash
# F9: heap buffer overflow of unord_q (src/expand.c) on a valid bzip2 file.
# Usage: repro.sh [source tree, default /repo] [scratch dir, default /tmp/f9-repro]
# Builds the program WITHOUT the verification hooks, generates the input and runs it.
set -u
SRC=${1:-/repo}; W=${2:-/tmp/f9-repro}; HERE=$(cd "$(dirname "$0")" && pwd)
mkdir -p "$W"
S="$SRC/src"
SRCS="$S/compress.c $S/crctab.c $S/decode.c $S/divbwt.c $S/encode.c $S/expand.c $S/main.c $S/parse.c $S/process.c $S/signals.c $S/timespec.c"
DEFS=(-D_XOPEN_SOURCE=700 -D_FILE_OFFSET_BITS=64 '-DPACKAGE_NAME="lbzip2"' '-DPACKAGE_VERSION="devel"' -std=c99 -w)
gcc -O2 -g -DNDEBUG "${DEFS[@]}" -o "$W/lbzip2-rel" $SRCS -lpthread || exit 2
gcc -O1 -g -DNDEBUG -DKJN_LBZIP2_VERIF "${DEFS[@]}" -o "$W/lbzip2-hook" $SRCS -lpthread || exit 2

python3 "$HERE/gen_f9.py" "$W/f9.bz2" --plain "$W/f9.plain" || exit 2
# sha256 f9.bz2   6a6ed57d7781494f8da56c95246bf1671125d6cd54d2383fb3315fb892220adc
# sha256 f9.plain e7b4b7e87029096c149907941ddb3f0421632f0ad18c779706b66494d5341a93

echo "== the file is valid"
bzip2 -dc "$W/f9.bz2" | cmp - "$W/f9.plain" && echo "bzip2 -dc: ok"
"$W/lbzip2-rel" -dc -n1 "$W/f9.bz2" | cmp - "$W/f9.plain" && echo "lbzip2 -dc -n1: ok"

echo "== no hooks, -O2 -DNDEBUG build: lbzip2 -dc -n2 (10 runs)"
for i in 1 2 3 4 5 6 7 8 9 10; do
  ( "$W/lbzip2-rel" -dc -n2 "$W/f9.bz2" 2>"$W/err" | cmp -s - "$W/f9.plain"; st=("${PIPESTATUS[@]}"); echo "run $i: rc=${st[0]} output-differs=${st[1]} $(head -c 100 "$W/err")" ) 2>/dev/null
done
# unrepaired: rc=134 "double free or corruption (out)" (glibc heap check; n=3 overflows
# silently into malloc padding, use valgrind); repaired: rc=0, output identical.

echo "== no hooks, same binary under valgrind (threads time-sliced fairly)"
valgrind -q --fair-sched=yes --error-exitcode=99 "$W/lbzip2-rel" -dc -n2 "$W/f9.bz2" 2>"$W/vg.err" | cmp - "$W/f9.plain"
echo "valgrind rc=${PIPESTATUS[0]}"; head -16 "$W/vg.err"
# unrepaired: Invalid write of size 8 at do_scan (expand.c:886) ... 0 bytes after a block
# of size 248 alloc'd ... by init (expand.c:976); repaired: rc=0, no report.

echo "== hook build (H3 capacity assertion, no environment variables set)"
( "$W/lbzip2-hook" -dc -n2 "$W/f9.bz2" >/dev/null 2>&1; echo "rc=$?" ) 2>/dev/null
# unrepaired: rc=134 (abort() in expand_verif_dump: size(unord_q)=32 > verif_cap_unord=31)
