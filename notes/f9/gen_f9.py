#!/usr/bin/env python3
"""F9 reproducer generator (lbzip2 heap buffer overflow of unord_q in src/expand.c).

Writes a VALID single-block bzip2 file (bzip2, lbzip2 -n1 decode it; the
expected plaintext can be written with --plain) whose Huffman-coded symbol
stream spells false block magics (0x314159265359).  `lbzip2 -d -n2` (or any
-n >= 2, or no -n on a multi-core machine) overflows unord_q on it.

Offsets below are file offsets minus 4, i.e. offsets in the data lbzip2 hands
to its 256 KiB input blocks: input block j = bytes [G*j, G*(j+1)), G = 262144.

  * master block: all 256 byte values used, alphabet 258, two identical coding
    tables with lengths RUNA=RUNB=9, MTF1..MTF254=8, MTF255=9, EOB=9.  The code
    is complete, codeword 00000000 is MTF1 and the codewords of RUNA, RUNB,
    MTF255 and EOB are the only ones that start with seven 1 bits.  So ANY bit
    string without seven consecutive ones parses as plain MTF symbols of 8 bits
    each, and zero bytes are the cheapest symbols (MTF index 1).

  * input blocks 0 and 1 are zero bits (master: ~3 us per KiB), except for ONE
    "slow" candidate at --slow-off (default 160 KiB) in block 0: block magic
    + a syntactically valid header of a block with alphabet {RUNA,RUNB,MTF1,
    EOB}, code lengths 3,3,1,2 (so MTF1 = "0"), 18001 selectors "0".  The
    speculative retrieve job that do_scan() starts there decodes ONE BIT per
    symbol, 8 times as many decoding steps per byte as the master, and does not
    fail before the end of block 0 (768k of at most 900k symbols).  Meanwhile
    the master finishes block 0 AND block 1, so input block 1 is released.
    When the speculative job returns MORE, curr_pos.offset (= start of block 1)
    < head_offs: do_retrieve() drops it, gives its work unit back, and its
    unord_blk stays in unord_q (drop_unord_link only marks it) until the
    parser pushes the next block -- which is after the end of this block.

  * input blocks 2.. (--fast-from): filler byte 0xBD (master: MTF index 190,
    the slow path of mtf_one(), so the master stays in this block long enough)
    with a "fast" candidate every --fstep bytes: block magic followed by 80
    zero bits (empty bitmap: retrieve() fails at once).  Every one of them is
    backed by an output slot in reord_q (or a work unit in emit_q) as designed:
    16n-2 + n-1 = 17n-3 of them fit = the capacity of unord_q.  With the ONE
    stale entry above the next enqueue(unord_q, ub) in do_scan() writes past
    the array (capacity work_units + out_slots - 3 = 17n-3 pointers).

The block ends with EOB; block and stream CRC are computed by decoding the
symbol stream (inverse MTF, inverse BWT with origin pointer 0, inverse RLE1).
"""
import sys

MAGIC = 0x314159265359
EOS = 0x177245385090


def bits(n, v):
    return format(v, "0%db" % n)


def delta_bits(lens):
    out = bits(5, lens[0])
    cur = lens[0]
    for l in lens:
        while cur < l:
            out += "10"
            cur += 1
        while cur > l:
            out += "11"
            cur -= 1
        out += "0"
    return out


def canon(lens):
    codes = {}
    code = 0
    for l in range(1, 21):
        for s, ls in enumerate(lens):
            if ls == l:
                codes[s] = bits(l, code)
                code += 1
        code <<= 1
    return codes


CRC_TAB = []
for i in range(256):
    c = i << 24
    for _ in range(8):
        c = ((c << 1) ^ 0x04C11DB7) & 0xFFFFFFFF if c & 0x80000000 else (c << 1) & 0xFFFFFFFF
    CRC_TAB.append(c)


def crc_bz(data):
    crc = 0xFFFFFFFF
    for b in data:
        crc = ((crc << 8) & 0xFFFFFFFF) ^ CRC_TAB[(crc >> 24) ^ b]
    return crc ^ 0xFFFFFFFF


def slow_candidate(nsel):
    s = bits(48, MAGIC) + bits(32, 0) + "0" + bits(24, 0)
    s += bits(16, 0x8000) + bits(16, 0xC000)        # bytes 0 and 1 used -> alphabet 4
    s += bits(3, 2) + bits(15, nsel) + "0" * nsel
    s += delta_bits([3, 3, 1, 2]) * 2
    return s


def fast_candidate():
    return bits(48, MAGIC)                         # followed by zeros: empty bitmap


def build(G=262144, slow_off=163840, nsel=18001, fast_from=2, total_bytes=890000, fstep=1024,
          filler=0xBD):
    mlens = [9, 9] + [8] * 254 + [9, 9]             # RUNA RUNB MTF1..MTF255 EOB
    mcodes = canon(mlens)
    dec = {c: s for s, c in mcodes.items()}
    NSELM = 18002
    hdr = bits(48, MAGIC) + "C" * 32 + "0" + bits(24, 0)
    hdr += bits(16, 0xFFFF) * 17
    hdr += bits(3, 2) + bits(15, NSELM) + "0" * NSELM
    hdr += delta_bits(mlens) * 2
    assert len(hdr) < 8 * slow_off

    total = 8 * total_bytes
    buf = ["0"] * total                             # everything after the master header
    def plant(p, s):
        assert p >= len(hdr) and p + len(s) <= total
        buf[p:p + len(s)] = list(s)
    # input blocks fast_from.. : filler (slow for the master: high MTF indices)
    fb = bits(8, filler)
    for p in range(8 * G * fast_from, total - 8, 8):
        buf[p:p + 8] = fb
    plant(8 * slow_off, slow_candidate(nsel))
    fc = fast_candidate() + "0" * 80
    for o in range(G * fast_from + fstep, total_bytes - fstep, fstep):
        plant(8 * o + 3, fc)                        # odd bit offset, for variety
    body = "".join(buf[len(hdr):total - 8 * 64])    # leave room for EOB + trailer
    assert "1111111" not in body

    # parse the body with the master code -> MTF symbols
    syms = []
    i = 0
    n = len(body)
    body += "0" * 16
    while i < n:
        c = body[i:i + 8]
        if c in dec:
            syms.append(dec[c])
            i += 8
        else:
            syms.append(dec[body[i:i + 9]])
            i += 9
    body = body[:i]
    assert all(2 <= s <= 256 for s in syms)
    assert len(syms) <= 900000, len(syms)
    body += mcodes[257]

    # decode: inverse MTF (no runs) -> BWT column
    order = list(range(256))
    col = bytearray()
    for s in syms:
        j = s - 1
        c = order.pop(j)
        order.insert(0, c)
        col.append(c)
    # inverse BWT, origin pointer 0
    cnt = [0] * 256
    for c in col:
        cnt[c] += 1
    base = [0] * 256
    t = 0
    for c in range(256):
        base[c] = t
        t += cnt[c]
    nxt = [0] * len(col)
    for i, c in enumerate(col):
        nxt[base[c]] = i
        base[c] += 1
    out = bytearray()
    j = nxt[0]
    for _ in range(len(col)):
        out.append(col[j])
        j = nxt[j]
    # inverse RLE1
    plain = bytearray()
    prev = -1
    run = 0
    for c in out:
        if run == 4:
            plain += bytes([prev]) * c
            run = 0
            prev = -1
        else:
            run = run + 1 if c == prev else 1
            prev = c
            plain.append(c)
    if run == 4:
        sys.stderr.write("warning: block ends in an incomplete run (lbzip2 says 'missing run length')\n")
    crc = crc_bz(plain)
    allbits = hdr.replace("C" * 32, bits(32, crc)) + body + bits(48, EOS) + bits(32, crc)
    allbits += "0" * (-len(allbits) % 8)
    data = b"BZh9" + int(allbits, 2).to_bytes(len(allbits) // 8, "big")
    return data, bytes(plain), len(syms)


if __name__ == "__main__":
    import argparse
    ap = argparse.ArgumentParser()
    ap.add_argument("out")
    ap.add_argument("--granul", type=int, default=262144)
    ap.add_argument("--slow-off", type=int, default=163840)
    ap.add_argument("--nsel", type=int, default=18001)
    ap.add_argument("--fast-from", type=int, default=2)
    ap.add_argument("--total", type=int, default=890000)
    ap.add_argument("--fstep", type=int, default=1024)
    ap.add_argument("--filler", type=lambda x: int(x, 0), default=0xBD)
    ap.add_argument("--plain", default=None, help="also write the expected plaintext here")
    a = ap.parse_args()
    data, plain, ns = build(a.granul, a.slow_off, a.nsel, a.fast_from, a.total, a.fstep, a.filler)
    open(a.out, "wb").write(data)
    if a.plain:
        open(a.plain, "wb").write(plain)
    sys.stderr.write("%s: %d bytes, %d master symbols, %d plaintext bytes\n" % (a.out, len(data), ns, len(plain)))
