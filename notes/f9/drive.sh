#!/bin/bash
exec 2>/dev/null
# usage: drive.sh <binary> <file> <plain> <runs> [lbzip2 args...]
# runs the decompressor <runs> times, classifies each run.
bin=$1; f=$2; plain=$3; runs=$4; shift 4
ok=0; asan=0; abrt=0; segv=0; other=0; bad=0
for i in $(seq $runs); do
  { timeout 60 "$bin" -dc "$@" "$f" 2>${TMPDIR:-/tmp}/drv.err >${TMPDIR:-/tmp}/drv.out; } 2>/dev/null; rc=$?
  if grep -q "AddressSanitizer" ${TMPDIR:-/tmp}/drv.err; then asan=$((asan+1)); cp ${TMPDIR:-/tmp}/drv.err ${TMPDIR:-/tmp}/last_asan.err
  elif [ $rc = 134 ]; then abrt=$((abrt+1)); cp ${TMPDIR:-/tmp}/drv.err ${TMPDIR:-/tmp}/last_abrt.err
  elif [ $rc = 139 ]; then segv=$((segv+1))
  elif [ $rc = 0 ]; then if cmp -s ${TMPDIR:-/tmp}/drv.out "$plain"; then ok=$((ok+1)); else bad=$((bad+1)); fi
  else other=$((other+1)); cp ${TMPDIR:-/tmp}/drv.err ${TMPDIR:-/tmp}/last_other.err; fi
done
echo "$(basename $bin) $* : ok=$ok asan=$asan abort=$abrt segv=$segv wrong-output=$bad other=$other"
