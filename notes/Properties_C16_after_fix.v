(* C16 - Interrupted or failed runs never lose data.
   Only statements; every proof is [exact <lemma>].

   [run_full codec cfg fs operands plan] is the operand loop of main() over the abstract
   file system; [plan] says which occurrence of which system call fails with which errno,
   or at which call SIGINT / SIGTERM / SIGKILL is raised (Front/MainLoop.v explains what
   is modelled about asynchrony: signals arrive at counted system calls).  The final state
   carries a ghost history with one entry per operand that was started: the file system
   before and after it, how it ended, and two ghost flags (unlink(input) failed; the
   unlink() inside cleanup() failed).

   One declared restriction appears as hypothesis of the statements:
   - [h_cleanfail h = false]: the unlink() inside cleanup() did not itself fail (see
     C16_cleanup_failure_refuted for what happens otherwise: a partial output remains,
     the input is intact); *)
From Coq Require Import List NArith Arith Bool String Ascii Lia.
From LBZ Require Import Gen.FrontTab Front.FsModel Front.MainLoop Front.FrontSpec Front.FrontLemmas
     Front.FrontNoFault Front.FrontProofs Front.FrontHoare Front.FrontSafety Front.FrontC16.
Import ListNotations.
Local Open Scope N_scope.

(* Under EVERY plan, every operand that was started ends in one of the two states
   ([safe]: input intact and no new output, or output complete + closed and input removed
   unless -k / unlink failed); after SIGKILL the input is intact or the output complete;
   and when the run was stopped by a fatal error other than close(input), by a handled
   signal, or hangs, it is the FIRST state. *)
Theorem C16_every_started_operand :
  forall codec cf f ops pl h,
    In h (m_hist (fst (run_full codec cf f ops pl))) ->
    h_cleanfail h = false ->
    match h_disp h with
    | DAborted WKill => kill_safe codec cf (h_before h) (h_after h) (h_op h)
    | DAborted y => safe codec cf (h_before h) (h_after h) (h_op h) (h_rmfail h) /\
                    (strict_first y = true -> first_or_kept cf (h_before h) (h_after h) (h_op h))
    | _ => safe codec cf (h_before h) (h_after h) (h_op h) (h_rmfail h)
    end.
Proof. exact every_started_operand_final. Qed.

(* The same, per operand and from any state at an operand boundary (this is what the
   whole-run statement is folded from). *)
Theorem C16_one_operand :
  forall codec cf pl op s, boundary_ok s ->
    match run_op codec cf pl op s with
    | Ret _ s' => boundary_ok s' /\ exists h, m_hist s' = h :: m_hist s /\ entry_ok codec cf h
    | Stop o y s' => exists h, m_hist s' = h :: m_hist s /\ entry_ok codec cf h
    end.
Proof. exact run_op_ok. Qed.

(* The status/state pairing of the property text does not hold literally: exit status 1
   and death by SIGTERM also occur with the SECOND state (output complete, input removed):
   when close() of the input fails, and when a signal that became pending after halt()
   returned is taken at sti().  Nothing is lost in either case. *)
Theorem C16_status_pairing_refuted :
  exists codec cf f op pl1 pl2,
    (let '(s, o) := run_full codec cf f [op] pl1 in
     o = Exit 1 /\ exists h, m_hist s = [h] /\ second_state codec cf (h_before h) (h_after h) op (h_rmfail h)) /\
    (let '(s, o) := run_full codec cf f [op] pl2 in
     o = Killed SIGTERM /\ exists h, m_hist s = [h] /\ second_state codec cf (h_before h) (h_after h) op (h_rmfail h)).
Proof. exact status_pairing_witness. Qed.

(* With -f a symbolic link operand is followed; output_init() refuses an output name that leads to the file being
   read (the former data loss `echo data > x; ln -s x x.bz2; lbzip2 -df x.bz2`): the operand is skipped with a
   warning (exit status 4) and nothing changes. *)
Example C16_force_symlink_fixed :
  let cf := {| c_decompress := true; c_force := true; c_keep := false; c_outmode := OmRegf; c_uid := 0; c_gid := 0; c_now := 99 |} in
  let f := {| f_names := [("x"%string, DLink 1); ("x.bz2"%string, DSym "x"%string)];
              f_inodes := [(1, ex16_node [104; 101; 108; 108; 111])]; f_stdout := [] |} in
  run ex16_codec cf f ["x.bz2"%string] [] = (f, Exit 4).
Proof. exact force_symlink_fixed. Qed.

(* If the unlink() inside cleanup() fails as well (double fault), a partial output file
   remains although the exit status is 1; the input is intact. *)
Theorem C16_cleanup_failure_refuted :
  exists codec cf f op pl,
    let '(s, o) := run_full codec cf f [op] pl in
    o = Exit 1 /\ exists h, m_hist s = [h] /\ h_cleanfail h = true /\
      ~ first_state cf (h_before h) (h_after h) op /\ input_intact (h_before h) (h_after h) op.
Proof. exact cleanup_failure_witness. Qed.

(* non-vacuity: SIGINT raised at the second write() of a compression: the handler removes
   the partial output and the process dies by SIGINT; the input is untouched *)
Example C16_example_sigint :
  let '(s, o) := run_full ex16_codec ex16_cfg ex16_fs ["a"%string] [(KWrite, 2%nat, Raise SIGINT)] in
  o = Killed SIGINT /\
  exists h, m_hist s = [h] /\ h_disp h = DAborted WSigHandled /\ h_cleanfail h = false /\
            nlook (m_fs s) "a"%string = Some (DLink 1) /\ nlook (m_fs s) "a.bz2"%string = None /\
            ilook (m_fs s) 1 = ilook ex16_fs 1.
Proof. vm_compute. split; [reflexivity|]. eexists. repeat split. Qed.

(* ... and SIGKILL one call later, after close(output): both files are there *)
Example C16_example_sigkill :
  let '(s, o) := run_full ex16_codec ex16_cfg ex16_fs ["a"%string] [(KUnlink, 1%nat, Raise SIGKILL)] in
  o = Killed SIGKILL /\
  exists j nd, nlook (m_fs s) "a"%string = Some (DLink 1) /\ nlook (m_fs s) "a.bz2"%string = Some (DLink j) /\
               ilook (m_fs s) j = Some nd /\ i_committed nd = true /\ i_data nd = [66; 90; 104; 57; 3; 2; 1].
Proof. vm_compute. split; [reflexivity|]. eexists. eexists. repeat split. Qed.
