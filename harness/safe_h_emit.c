/* In-process harness for decode() and emit() of src/decode.c, same line protocol as
   safe_emit_driver.ml (the extracted model Safe/EmitModel.v).

   input line :  <rand 0|1> <bwt_idx> <hex bytes of the BWT column> <b1,b2,...>   (buffer sizes, cycled)
   output line:  t:<tt words after decode(), 8 hex digits each>
                 f:<ftab after decode() as value*count runs>
                 i:<rle_index>,<rle_avail>
                 e:<return code>,<bytes written hex or ->,<rle_state>     one per emit() call
                 c:<ds.crc hex>
   decode.c is included textually (struct layouts, static tables); crctab.c is linked.
   tt and the output buffer are malloc'ed with their exact sizes so that the sanitizer
   flavour sees any out-of-bounds access.  On ERR_RUNLEN emit() does not report how much
   it wrote; the call is repeated on a copy of the state with a differently filled buffer
   and the common prefix of the two buffers is taken. */
#include "decode.c"
#include <stdio.h>
#include <stdlib.h>

void *xmalloc(size_t n)
{
  void *p = malloc(n ? n : 1);
  if (!p) abort();
  return p;
}

static char line[1 << 23];

static int hexv(int c)
{
  if (c >= '0' && c <= '9') return c - '0';
  if (c >= 'a' && c <= 'f') return c - 'a' + 10;
  if (c >= 'A' && c <= 'F') return c - 'A' + 10;
  return -1;
}

int main(void)
{
  while (fgets(line, sizeof line, stdin)) {
    struct decoder_state ds;
    unsigned long sizes[4096];
    unsigned nsizes = 0, rnd, idx, n = 0, i, calls = 0;
    unsigned long long total = 0;
    char *p = line, *q;
    uint32_t *tt;
    int rv;

    memset(&ds, 0, sizeof ds);
    rnd = strtoul(p, &p, 10);
    idx = strtoul(p, &p, 10);
    while (*p == ' ') p++;
    q = p;
    while (hexv(*q) >= 0) q++;
    n = (unsigned)(q - p) / 2;
    tt = malloc((n ? n : 1) * sizeof(uint32_t));
    for (i = 0; i < n; i++) {
      tt[i] = (uint32_t)(hexv(p[2 * i]) * 16 + hexv(p[2 * i + 1]));
      ds.ftab[tt[i]]++;
    }
    p = q;
    while (*p == ' ') p++;
    while (*p && *p != '\n' && nsizes < 4096) {
      sizes[nsizes++] = strtoul(p, &p, 10);
      if (*p == ',') p++;
    }
    if (n == 0 || idx >= n || nsizes == 0) { puts("BADLINE"); free(tt); continue; }

    ds.tt = tt;
    ds.block_size = n;
    ds.bwt_idx = idx;
    ds.rand = rnd != 0;
    ds.crc = 0;
    decode(&ds);

    printf("t:");
    for (i = 0; i < n; i++) printf("%08x", (unsigned)tt[i]);
    printf(" f:");
    for (i = 0; i < 256; ) {
      unsigned j = i;
      while (j < 256 && ds.ftab[j] == ds.ftab[i]) j++;
      printf("%s%u*%u", i ? "," : "", (unsigned)ds.ftab[i], j - i);
      i = j;
    }
    printf(" i:%u,%u", (unsigned)ds.rle_index, (unsigned)ds.rle_avail);

    do {
      size_t bsz = sizes[calls % nsizes], left = bsz, wrote;
      uint8_t *buf = malloc(bsz), *buf2 = NULL;
      struct decoder_state copy = ds;
      if (bsz == 0 || !buf) { printf(" BADSIZE"); free(buf); break; }
      memset(buf, 0xAA, bsz);
      rv = emit(&ds, buf, &left);
      if (rv == ERR_RUNLEN) {
        size_t left2 = bsz;
        buf2 = malloc(bsz);
        memset(buf2, 0x55, bsz);
        (void)emit(&copy, buf2, &left2);
        for (wrote = 0; wrote < bsz && buf[wrote] == buf2[wrote]; wrote++)
          ;
      }
      else
        wrote = bsz - left;
      printf(" e:%d,", rv);
      if (wrote == 0) putchar('-');
      for (i = 0; i < wrote; i++) printf("%02x", buf[i]);
      printf(",%d", ds.rle_state);
      total += wrote;
      free(buf);
      free(buf2);
      calls++;
      if (rv == MORE && wrote == 0) { printf(" NOPROGRESS"); break; }
      if (total > 300ull * n + 1024) { printf(" RUNAWAY"); break; }
    } while (rv == MORE);
    printf(" c:%08x\n", (unsigned)ds.crc);
    free(tt);
  }
  return 0;
}
