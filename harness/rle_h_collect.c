/* In-process harness for collect() / encoder_init() / the final RLE flush of
   encode() (src/encode.c), same line protocol as rle_driver.ml.

   input line :  <mode> <M> <buf> <buf> ...      mode = S | D | R, buf = hex bytes or "-" (empty)
     S  drive collect() the way do_collect_seq() does (encoder carried over until full)
     D  drive collect() the way do_collect() does (fresh encoder per call, leftover re-queued)
     R  raw: one encoder, one collect() call per buffer (empty buffers included) until full
   output line:  tokens  c:<ret>,<consumed>,<nblock>,<rle_state>,<rle_char or ->   per call
                         b:<weight>,<crc hex>,<block hex or ->                    per finished block
                         m:<0|1>   cmap equals the set of byte values in the block (after flush)
   encode.c is included textually so that the static layout of struct encoder_state
   is visible; divbwt.c and crctab.c are linked.  Blocks are finished by the real encode(). */
#include "encode.c"
#include <stdio.h>

static char line[1 << 22];
static uint8_t *bufs[1 << 16];
static size_t lens[1 << 16];

static uint8_t *blockof(struct encoder_state *s)
{
  return (uint8_t *)(s->SA + s->max_block_size + GROUP_SIZE);
}

static void report_call(struct encoder_state *s, int ret, size_t consumed)
{
  printf("c:%d,%zu,%u,%d,", ret, consumed, (unsigned)s->nblock, s->rle_state);
  if (s->rle_state > 0) printf("%u ", s->rle_character); else printf("- ");
}

/* "Finalize initial RLE" is done by the real encode() (encode.c:442-447); the rest of
   encode() (BWT, MTF, prefix codes) runs too and leaves block[0..nblock-1] alone.
   An encoder that consumed nothing is not passed on (encode() needs nblock > 0). */
static void final_flush(struct encoder_state *s)
{
  uint32_t crc;
  if (s->nblock > 0 || s->rle_state >= 4)
    (void)encode(s, &crc);
}

static void report_block(struct encoder_state *s, size_t weight)
{
  uint8_t *block;
  unsigned i;
  bool seen[256];
  int ok = 1;
  final_flush(s);
  block = blockof(s);
  printf("b:%zu,%08x,", weight, (unsigned)s->block_crc);
  if (s->nblock == 0) putchar('-');
  memset(seen, 0, sizeof seen);
  for (i = 0; i < s->nblock; i++) { printf("%02x", block[i]); seen[block[i]] = true; }
  for (i = 0; i < 256; i++) if (seen[i] != s->cmap[i]) ok = 0;
  printf(" m:%d ", ok);
}

static struct encoder_state *fresh(unsigned long M)
{
  struct encoder_state *s = malloc(encoder_alloc_size(M));
  encoder_init(s, M, CLUSTER_FACTOR);
  return s;
}

int main(void)
{
  while (fgets(line, sizeof line, stdin)) {
    char *mode = strtok(line, " \n"), *ms = strtok(NULL, " \n"), *t;
    unsigned long M;
    size_t nb = 0, i, k;
    struct encoder_state *s = NULL;
    size_t weight = 0;

    if (!mode || !ms) { puts("BADLINE"); continue; }
    M = strtoul(ms, NULL, 10);
    while ((t = strtok(NULL, " \n")) != NULL && nb < (1 << 16)) {
      size_t n = strcmp(t, "-") ? strlen(t) / 2 : 0;
      bufs[nb] = malloc(n + 1);
      for (k = 0; k < n; k++) { unsigned v; sscanf(t + 2 * k, "%2x", &v); bufs[nb][k] = v; }
      lens[nb++] = n;
    }
    if (mode[0] == 'R') {
      s = fresh(M);
      for (i = 0; i < nb; i++) {
        size_t left = lens[i];
        int ret = collect(s, bufs[i], &left);
        report_call(s, ret, lens[i] - left);
        weight += lens[i] - left;
        if (ret) break;
      }
      report_block(s, weight);
      free(s);
    }
    else if (mode[0] == 'D') {
      for (i = 0; i < nb; i++) {
        const uint8_t *next = bufs[i];
        size_t left = lens[i];
        while (left > 0) {                       /* do_collect: one call, re-queue the rest */
          size_t before = left;
          int ret;
          s = fresh(M);
          ret = collect(s, next, &left);
          report_call(s, ret, before - left);
          next += before - left;
          report_block(s, before - left);
          free(s);
          if (before == left) { printf("STUCK "); break; }   /* no progress: do_collect would spin */
        }
      }
    }
    else {                                         /* do_collect_seq */
      for (i = 0; i < nb; i++) {
        const uint8_t *next = bufs[i];
        size_t left = lens[i];
        unsigned guard = 0;
        while (left > 0) {
          size_t before = left;
          int ret;
          if (s == NULL) { s = fresh(M); weight = 0; }
          ret = collect(s, next, &left);
          report_call(s, ret, before - left);
          weight += before - left;
          next += before - left;
          if (ret) { report_block(s, weight); free(s); s = NULL; }
          if (before == left && ++guard > 2) { printf("STUCK "); break; }
        }
      }
      if (s != NULL) { report_block(s, weight); free(s); }
    }
    putchar('\n');
    fflush(stdout);
    for (i = 0; i < nb; i++) free(bufs[i]);
  }
  return 0;
}
