(* Driver for the extracted command-line model (Cli/CliModel.v): one case per line.

   input :  <argv0> <var> <var> <var> <tty_in 0/1> <tty_out 0/1> <arg>*
            every field hex-encoded ("-" = empty string); <var> is "~" (nothing set) or
            <name>=<value> (both hex): the environment maps that name to that value.
   output:  RUN d=<0|1> om=<S|D|R> bs=<dec> f= k= v= S= s= u= n=<dec> m=<dec> ops=<hex,hex..|->
            USAGE | VERSION | FATAL <class> <detail>
   Prefix "T " on the input line: print the model's env token list instead. *)

module M = Cli_model

let ascii_of_int k =
  let b i = (k lsr i) land 1 = 1 in
  M.Ascii (b 0, b 1, b 2, b 3, b 4, b 5, b 6, b 7)

let int_of_ascii (M.Ascii (b0, b1, b2, b3, b4, b5, b6, b7)) =
  let v b i = if b then 1 lsl i else 0 in
  v b0 0 + v b1 1 + v b2 2 + v b3 3 + v b4 4 + v b5 5 + v b6 6 + v b7 7

let rec cstr_of_list = function
  | [] -> M.EmptyString
  | k :: r -> M.String (ascii_of_int k, cstr_of_list r)

let rec list_of_cstr = function
  | M.EmptyString -> []
  | M.String (c, r) -> int_of_ascii c :: list_of_cstr r

let unhex s =
  if s = "-" then []
  else List.init (String.length s / 2) (fun i -> int_of_string ("0x" ^ String.sub s (2 * i) 2))

let hex l = if l = [] then "-" else String.concat "" (List.map (Printf.sprintf "%02x") l)

let cstr s = cstr_of_list (unhex s)
let hexc c = hex (list_of_cstr c)

(* decimal rendering of a binary N without machine-integer overflow: via a digit list *)
let rec pos_bits = function
  | M.XH -> [true]
  | M.XO p -> false :: pos_bits p
  | M.XI p -> true :: pos_bits p            (* least significant first *)

let dec_of_bits bits =
  (* digits little-endian base 10 *)
  let double_add ds carry =
    let rec go ds c = match ds with
      | [] -> if c = 0 then [] else [c]
      | d :: r -> let v = 2 * d + c in (v mod 10) :: go r (v / 10) in
    go ds carry in
  let ds = List.fold_left (fun acc b -> double_add acc (if b then 1 else 0)) [] (List.rev bits) in
  if ds = [] then "0" else String.concat "" (List.rev_map string_of_int ds)

let dec_n = function
  | M.N0 -> "0"
  | M.Npos p -> dec_of_bits (pos_bits p)

let b x = if x then "1" else "0"

let show_outcome = function
  | M.Usage -> "USAGE"
  | M.Version -> "VERSION"
  | M.Fatal e ->
    (match e with
     | M.EIncompat -> "FATAL incompat -"
     | M.EUnknownShort k -> "FATAL unknown-short " ^ dec_n k
     | M.EUnknownLong a -> "FATAL unknown-long " ^ hexc a
     | M.EMissingArg k -> "FATAL missing-arg " ^ dec_n k
     | M.EBadArg (k, v) -> "FATAL bad-arg " ^ dec_n k ^ ":" ^ hexc v
     | M.ETtyIn -> "FATAL tty-in -"
     | M.ETtyOut -> "FATAL tty-out -"
     | M.EModelGap -> "FATAL MODEL-GAP -")
  | M.Run (c, ops) ->
    Printf.sprintf "RUN d=%s om=%s bs=%s f=%s k=%s v=%s S=%s s=%s u=%s n=%s m=%s ops=%s"
      (b c.M.c_decompress)
      (match c.M.c_outmode with M.OM_STDOUT -> "S" | M.OM_DISCARD -> "D" | M.OM_REGF -> "R")
      (dec_n c.M.c_bs100k) (b c.M.c_force) (b c.M.c_keep) (b c.M.c_verbose) (b c.M.c_cctrs)
      (b c.M.c_small) (b c.M.c_ultra) (dec_n c.M.c_num_worker) (dec_n c.M.c_max_mem)
      (if ops = [] then "-" else String.concat "," (List.map hexc ops))

let rec cstr_eq a b = match a, b with
  | M.EmptyString, M.EmptyString -> true
  | M.String (x, r), M.String (y, s) -> x = y && cstr_eq r s
  | _ -> false

let make_env vals =
  let tbl = List.filter_map (fun f ->
      if f = "~" then None
      else match String.split_on_char '=' f with
        | [n; v] -> Some (cstr n, cstr v)
        | _ -> None) vals in
  fun nm ->
    let rec look = function
      | [] -> None
      | (n, v) :: r -> if cstr_eq n nm then Some v else look r in
    look tbl

let () =
  try
    while true do
      let line = String.trim (input_line stdin) in
      let fields = List.filter (fun s -> s <> "") (String.split_on_char ' ' line) in
      match fields with
      | "T" :: e1 :: e2 :: e3 :: _ ->
        let env = make_env [e1; e2; e3] in
        let toks = M.env_tokens env in
        print_endline ("TOK " ^ (if toks = [] then "" else String.concat " " (List.map hexc toks)))
      | argv0 :: e1 :: e2 :: e3 :: ti :: tout :: args ->
        let env = make_env [e1; e2; e3] in
        let o = M.main_model (cstr argv0) env (List.map cstr args) (ti = "1") (tout = "1") in
        print_endline (show_outcome o)
      | _ -> print_endline "BADLINE"
    done
  with End_of_file -> ()
