(* Driver for the extracted statement-level model of retrieve() (Safe/RetrModel.v): one case per line,
   same protocol as retr_h.c.  The calls are made one by one with [retrieve] (so that the state after every
   call can be printed); the final result is cross-checked against [retr_chunks], the function the theorems
   of Safe/RetrProofs.v are about (token RC_MISMATCH if they differ), when the line carries a fifth field `x`. *)
open Retr_model

let rec pos_of_int n = if n = 1 then XH else if n land 1 = 0 then XO (pos_of_int (n lsr 1)) else XI (pos_of_int (n lsr 1))
let n_of_int n = if n = 0 then N0 else Npos (pos_of_int n)
let rec int_of_pos = function XH -> 1 | XO p -> 2 * int_of_pos p | XI p -> 2 * int_of_pos p + 1
let int_of_n = function N0 -> 0 | Npos p -> int_of_pos p

(* N <-> hex strings of any length *)
let n_double = function N0 -> N0 | Npos p -> Npos (XO p)
let n_succ_double = function N0 -> Npos XH | Npos p -> Npos (XI p)
let n_of_hex s =
  let r = ref N0 in
  String.iter (fun ch ->
    let d = int_of_string ("0x" ^ String.make 1 ch) in
    for k = 3 downto 0 do
      r := if (d lsr k) land 1 = 1 then n_succ_double !r else n_double !r
    done) s;
  !r
let rec bits_of_pos = function XH -> [1] | XO p -> 0 :: bits_of_pos p | XI p -> 1 :: bits_of_pos p   (* lsb first *)
let hex_of_n width x =
  let bits = Array.make (4 * width) 0 in
  (match x with N0 -> () | Npos p -> List.iteri (fun i b -> if i < 4 * width then bits.(i) <- b) (bits_of_pos p));
  String.init width (fun i ->
    let k = 4 * (width - 1 - i) in
    "0123456789abcdef".[bits.(k) + 2 * bits.(k + 1) + 4 * bits.(k + 2) + 8 * bits.(k + 3)])

let arr_name = function AStart -> "start" | ABase -> "base" | ACount -> "count" | APerm -> "perm" | ALen -> "len"
let ub_name = function
  | OobRead a -> "OobRead-" ^ arr_name a | OobWrite a -> "OobWrite-" ^ arr_name a | UninitRead a -> "UninitRead-" ^ arr_name a
  | BadShift -> "BadShift" | IntOverflow -> "IntOverflow" | AssertFail i -> "AssertFail" ^ string_of_int (int_of_n i)
  | OutOfFuel -> "OutOfFuel"
let rarr_name = function
  | RSelector -> "selector" | RCodeLen -> "code_len" | RMtf -> "mtf" | RTree -> "tree" | RFtab -> "ftab" | RTt -> "tt" | RConst -> "const"
let fault_name = function
  | FUb u -> "Ub-" ^ ub_name u | FSlideOob -> "SlideOob" | FSlideAbort -> "SlideAbort" | FRead a -> "Read-" ^ rarr_name a
  | FWrite a -> "Write-" ^ rarr_name a | FInput -> "Input" | FAssert i -> "Assert" ^ string_of_int (int_of_n i)
  | FAbort -> "Abort" | FFuel -> "Fuel"

let runs tag (l : int list) b =
  Buffer.add_string b (" " ^ tag ^ ":");
  if l = [] then Buffer.add_char b '-';
  let rec go first = function
    | [] -> ()
    | x :: r ->
      let rec cnt n = function y :: r' when y = x -> cnt (n + 1) r' | r' -> (n, r') in
      let (n, r') = cnt 1 r in
      Buffer.add_string b (Printf.sprintf "%s%d*%d" (if first then "" else ",") x n);
      go false r' in
  go true l

let token b rv (st : rstate) chunk_len =
  let c = st.s_core in
  let ok = rv = 0 in
  Buffer.add_string b (Printf.sprintf " c:%d,%d,%d,%s,%d,%d,%d,%d" rv (if ok then 0 else int_of_n st.s_state)
                         (int_of_n st.b_live) (hex_of_n 16 st.b_buff) (chunk_len - List.length st.b_data)
                         (int_of_n st.d_block_size) (int_of_n c.d_rand) (int_of_n c.d_bwt_idx));
  if not ok then
    Buffer.add_string b (Printf.sprintf ";%d,%d,%d,%d,%d,%d,%d,%d,%d,%d,%d" (int_of_n c.r_j) (int_of_n c.r_t) (int_of_n c.r_g)
                           (int_of_n c.r_num_trees) (int_of_n c.r_num_selectors) (int_of_n c.r_alpha_size) (int_of_n c.r_run)
                           (int_of_n c.r_runChar) (int_of_n c.r_shift) (int_of_n c.r_big) (int_of_n c.r_small))

let summary = function
  | RMore st -> "M" | RFault f -> "F" ^ fault_name f
  | RErr (code, st) -> Printf.sprintf "E%d" (int_of_n code)
  | ROk st ->
    let c = st.s_core in
    Printf.sprintf "O%d,%d,%d,%d,%s,%d" (int_of_n st.d_block_size) (int_of_n c.d_rand) (int_of_n c.d_bwt_idx)
      (int_of_n st.b_live) (hex_of_n 16 st.b_buff) (Hashtbl.hash (List.map int_of_n c.c_tt))

let split_on c s = List.filter (fun x -> x <> "") (String.split_on_char c s)

let () =
  try
    while true do
      let line = input_line stdin in
      match split_on ' ' (String.trim line) with
      | live :: buff :: words :: chunking :: flag when flag = [] || flag = ["x"] ->
        let nwords = if words = "-" then 0 else String.length words / 8 in
        let warr = Array.init nwords (fun i -> n_of_hex (String.sub words (8 * i) 8)) in
        let sizes = List.map int_of_string (split_on ',' chunking) in
        let st0 = init_state junk_core (n_of_hex buff) (n_of_int (int_of_string live)) in
        (* the chunks that can be cut from the words *)
        let rec cut pos = function
          | n :: r when n > 0 && pos + n <= nwords -> Array.to_list (Array.sub warr pos n) :: cut (pos + n) r
          | _ -> [] in
        let chunks = cut 0 sizes in
        let b = Buffer.create 4096 in
        let final = ref (RMore st0) in
        let rec loop st chunks eofcalls =
          let (arg, clen, rest, eofcalls) =
            match chunks with
            | ch :: rest -> (attach st ch, List.length ch, rest, eofcalls)
            | [] -> (attach_eof st, 0, [], eofcalls + 1) in
          if eofcalls > 2 then () else begin
            let r = retrieve arg in
            final := r;
            match r with
            | RMore st' -> token b 1 st' clen; loop st' rest eofcalls
            | ROk st' ->
              token b 0 st' clen;
              runs "T" (List.rev_map int_of_n st'.s_core.c_tt) b;
              runs "f" (List.map int_of_n st'.s_core.d_ftab) b
            | RErr (code, st') -> token b (int_of_n code) st' clen
            | RFault f -> Buffer.add_string b (" FAULT " ^ fault_name f)
          end in
        loop st0 chunks 0;
        if flag <> [] then begin
          let (whole, _) = retr_chunks st0 chunks in
          if summary whole <> summary !final then Buffer.add_string b (" RC_MISMATCH " ^ summary whole ^ " vs " ^ summary !final)
        end;
        print_endline (Buffer.contents b)
      | _ -> print_endline "BADLINE"
    done
  with End_of_file -> ()
