(* Trace replayer for the compression scheduler model (extracted SchedC.step_obs).

   stdin:  any number of traces
     TRACE <id> <n> <ultra 0|1> <level>
     CHUNK <L0> <left1>:<full1> <left2>:<full2> ...     one per input chunk, in order
     C coll=... k=... t=...                             hook H3 records, in order
     END
   stdout: one line per trace: `OK <id> records=.. hidden=.. maxrun=..` or
           `FAIL <id> rec=<index> <reason>`.

   For every record the replayer looks for a model thread e (the thread already
   bound to the record's t=, or an unbound one of a compatible kind) such that
   running e's pending hidden steps and then one visible step produces exactly the
   recorded kind and the recorded scheduler state:  exists label, step s label = s'.
   The input-dependent results of collect() are taken from the CHUNK lines (the
   `left` values the trace itself shows), so the model is run on the same "input
   shape" as the implementation. *)
open Schedc_model

let rec pos_of_int n = if n = 1 then XH else if n land 1 = 0 then XO (pos_of_int (n lsr 1)) else XI (pos_of_int (n lsr 1))
let n_of_int n = if n = 0 then N0 else Npos (pos_of_int n)
let rec nat_of_int n = if n = 0 then O else S (nat_of_int (n - 1))
let rec int_of_nat = function O -> 0 | S m -> 1 + int_of_nat m
let rec int_of_pos = function XH -> 1 | XO p -> 2 * int_of_pos p | XI p -> 2 * int_of_pos p + 1
let int_of_n = function N0 -> 0 | Npos p -> int_of_pos p

(* Data := (current left, results of the future collect() calls on this chunk) *)
type data = int * (int * bool) list
let data_len (d : data) = n_of_int (fst d)
let collect (e : unit) (d : data) : (unit * data) * bool =
  match snd d with
  | (l, f) :: r -> ((e, (l, r)), f)
  | [] -> ((e, (0, [])), true)

let step s e = step_obs data_len () collect s e

type record = {
  coll : (int * int * int) list; trans : (int * int * int * int) list; reord : (int * int * int * int) list;
  order : int * int; nid : int; tok : bool; unf : bool; ultra_r : bool; caps : int list;
  kind : string; t : int; eof_r : bool; wu : int; os : int; tos : int; nwr : int; raw : string }

let split_on c s = if s = "" then [] else String.split_on_char c s

let parse_pos s = match String.split_on_char '.' s with
  | [a; b] -> (int_of_string a, int_of_string b) | _ -> failwith ("bad pos " ^ s)

let parse_record line =
  let fields = Hashtbl.create 17 in
  List.iter (fun tok ->
      match String.index_opt tok '=' with
      | Some i -> Hashtbl.replace fields (String.sub tok 0 i) (String.sub tok (i + 1) (String.length tok - i - 1))
      | None -> ()) (String.split_on_char ' ' line);
  let g k = try Hashtbl.find fields k with Not_found -> failwith ("missing field " ^ k) in
  let coll = List.map (fun it -> match String.split_on_char '/' it with
      | [p; l] -> let (a, b) = parse_pos p in (a, b, int_of_string l) | _ -> failwith "bad coll") (split_on ',' (g "coll")) in
  let wb it = match String.split_on_char '>' it with
    | [p; q] -> let (a, b) = parse_pos p and (c, d) = parse_pos q in (a, b, c, d) | _ -> failwith "bad wblk" in
  { coll = List.sort compare coll; trans = List.sort compare (List.map wb (split_on ',' (g "trans")));
    reord = List.sort compare (List.map wb (split_on ',' (g "reord")));
    order = parse_pos (g "order"); nid = int_of_string (g "nid"); tok = g "tok" = "1"; unf = g "unf" = "1";
    ultra_r = g "ultra" = "1"; caps = List.map int_of_string (split_on ',' (g "caps"));
    kind = g "k"; t = int_of_string (g "t"); eof_r = g "eof" = "1"; wu = int_of_string (g "wu");
    os = int_of_string (g "os"); tos = int_of_string (g "tos"); nwr = int_of_string (g "nw"); raw = line }

let ipos p = (int_of_n p.major, int_of_n p.minor)

let kind_string = function
  | OS T_collect -> "S:collect" | OS T_collect_seq -> "S:collect_seq"
  | OS T_transmit -> "S:transmit" | OS T_reorder -> "S:reorder"
  | OR -> "R" | OU -> "U" | OW -> "W" | OX -> "X"

(* compare the model state with a record; returns None if equal, Some reason otherwise *)
let diff s (r : record) ~strict_nid =
  let coll = List.map (fun ib -> let (a, b) = ipos ib.ib_pos in (a, b, fst ib.ib_data)) s.coll_q in
  let wbs l = List.map (fun wb -> let (a, b) = ipos wb.wb_pos and (c, d) = ipos wb.wb_next in (a, b, c, d)) l in
  let n = int_of_nat s.nw in
  let nid = int_of_n s.next_id in
  if coll <> r.coll then Some "coll_q differs"
  else if wbs s.trans_q <> r.trans then Some "trans_q differs"
  else if wbs s.reord_q <> r.reord then Some "reord_q differs"
  else if ipos s.order <> r.order then Some "order differs"
  else if (if strict_nid then nid <> r.nid else (r.nid <> nid && r.nid <> nid + 1)) then Some "next_id differs"
  else if s.collect_token <> r.tok then Some "collect_token differs"
  else if (s.unfinished <> None) <> r.unf then Some "unfinished_work differs"
  else if s.ultra <> r.ultra_r then Some "ultra differs"
  else if s.eof <> r.eof_r then Some "eof differs"
  else if int_of_nat s.work_units <> r.wu then Some "work_units differs"
  else if int_of_nat s.out_slots <> r.os then Some "out_slots differs"
  else if int_of_nat (total_out s.nw) <> r.tos then Some "total_out_slots differs from the regenerated formula"
  else if n <> r.nwr then Some "num_worker differs"
  else if r.caps <> [int_of_nat (cap_coll s.nw); int_of_nat (cap_trans s.nw); int_of_nat (cap_reord s.nw)]
  then Some "queue capacities differ from the regenerated ones"
  else if s.bad then Some "model reached an undefined-behaviour / assertion state"
  else None

let show_state s =
  let p x = let (a, b) = ipos x in Printf.sprintf "%d.%d" a b in
  Printf.sprintf "coll=%s trans=%s reord=%s order=%s nid=%d tok=%b unf=%b eof=%b wu=%d is=%d os=%d outq=%d bad=%b"
    (String.concat "," (List.map (fun ib -> Printf.sprintf "%s/%d" (p ib.ib_pos) (fst ib.ib_data)) s.coll_q))
    (String.concat "," (List.map (fun wb -> p wb.wb_pos ^ ">" ^ p wb.wb_next) s.trans_q))
    (String.concat "," (List.map (fun wb -> p wb.wb_pos ^ ">" ^ p wb.wb_next) s.reord_q))
    (p s.order) (int_of_n s.next_id) s.collect_token (s.unfinished <> None) s.eof
    (int_of_nat s.work_units) (int_of_nat s.in_slots) (int_of_nat s.out_slots) (List.length s.output_q) s.bad

let hidden = ref 0

(* workers whose next step is a hidden one inside a task (source_release_buffer) *)
let flush_releases s =
  let n = int_of_nat s.nw in
  let s = ref s in
  for j = 0 to n - 1 do
    match nth_error !s.workers (nat_of_int j) with
    | Some (PRun _) ->
      (match step !s (TW (nat_of_int j)) with
       | Some (s1, None) -> incr hidden; s := s1
       | _ -> ())
    | _ -> ()
  done;
  !s

(* run thread e up to and including its next visible step *)
let advance s e =
  let rec go s fuel flushed =
    if fuel = 0 then Error "too many hidden steps" else
      match step s e with
      | Some (s1, None) -> incr hidden; go s1 (fuel - 1) flushed
      | Some (s1, Some k) -> Ok (s1, k)
      | None ->
        if (e = TR) && not flushed then go (flush_releases s) fuel true
        else Error "thread is blocked in the model"
  in go s 6 false

let running s =
  List.length (List.filter (function PRun (KStart _) -> false | PRun _ -> true | _ -> false) s.workers)

let replay_trace id n ultra lvl chunks (recs : record list) =
  let input = List.map (fun (l0, fut) -> (l0, fut)) chunks in
  let s = ref (init (nat_of_int n) ultra (n_of_int lvl) input) in
  let bind : (int, tid) Hashtbl.t = Hashtbl.create 16 in
  let next_worker = ref 0 in
  let maxrun = ref 0 in
  let result = ref None in
  let idx = ref 0 in
  (try
     List.iter (fun (r : record) ->
         let cands =
           match Hashtbl.find_opt bind r.t with
           | Some e -> [e]
           | None ->
             let used e = Hashtbl.fold (fun _ v acc -> acc || v = e) bind false in
             if r.kind = "U" then List.filter (fun e -> not (used e)) [TR; TS]
             else if !next_worker < n then [TW (nat_of_int !next_worker)] else [] in
         let errs = ref [] in
         let ok = List.exists (fun e ->
             match advance !s e with
             | Error m -> errs := (m ^ " [" ^ show_state !s ^ "]") :: !errs; false
             | Ok (s1, k) ->
               if kind_string k <> r.kind then begin
                 errs := Printf.sprintf "model thread would write %s" (kind_string k) :: !errs; false end
               else (match diff s1 r ~strict_nid:(e = TR) with
                   | Some m -> errs := (m ^ " [model: " ^ show_state s1 ^ "]") :: !errs; false
                   | None ->
                     if not (Hashtbl.mem bind r.t) then begin
                       Hashtbl.replace bind r.t e;
                       (match e with TW _ -> incr next_worker | _ -> ()) end;
                     s := s1; true)) cands in
         if not ok then begin
           result := Some (Printf.sprintf "FAIL %s rec=%d no model step matches record `%s`: %s" id !idx r.raw
                             (if cands = [] then "no thread can be bound" else String.concat " | " !errs));
           raise Exit end;
         maxrun := max !maxrun (running !s);
         incr idx) recs
   with Exit -> ());
  match !result with
  | Some m -> m
  | None ->
    (* drain: remaining hidden steps (joins, finish, writer exit) *)
    let progress = ref true in
    let fuel = ref (10 * (n + 4)) in
    while !progress && !fuel > 0 do
      progress := false; decr fuel;
      List.iter (fun e -> match step !s e with
          | Some (s1, None) -> incr hidden; s := s1; progress := true
          | _ -> ()) ([TM; TS; TR] @ List.init n (fun j -> TW (nat_of_int j)))
    done;
    let s = !s in
    if not (final s) then Printf.sprintf "FAIL %s rec=%d trace ends in a non-final model state [%s]" id !idx (show_state s)
    else if s.bad then Printf.sprintf "FAIL %s rec=%d bad state" id !idx
    else if int_of_nat s.work_units <> n || s.in_slots <> total_in s.nw || s.out_slots <> total_out s.nw
            || s.coll_q <> [] || s.trans_q <> [] || s.reord_q <> [] || s.output_q <> [] || s.unfinished <> None
            || not s.collect_token
    then Printf.sprintf "FAIL %s rec=%d final state does not return every resource [%s]" id !idx (show_state s)
    else begin
      (* written blocks: chain from 0.0 to order *)
      let rec chain p = function
        | [] -> p = ipos s.order
        | wb :: r -> ipos wb.wb_pos = p && chain (ipos wb.wb_next) r in
      if not (chain (0, 0) s.written) then Printf.sprintf "FAIL %s rec=%d written blocks are not the stream chain" id !idx
      else Printf.sprintf "OK %s records=%d hidden=%d maxrun=%d blocks=%d" id !idx !hidden !maxrun (List.length s.written)
    end

let () =
  let cur = ref None in
  let chunks = ref [] and recs = ref [] in
  (try
     while true do
       let line = input_line stdin in
       let line = String.trim line in
       if String.length line >= 6 && String.sub line 0 6 = "TRACE " then begin
         (match String.split_on_char ' ' line with
          | [_; id; n; u; l] -> cur := Some (id, int_of_string n, u = "1", int_of_string l)
          | _ -> failwith "bad TRACE line");
         chunks := []; recs := []; hidden := 0
       end else if String.length line >= 5 && String.sub line 0 5 = "CHUNK" then begin
         match List.filter (fun x -> x <> "") (String.split_on_char ' ' line) with
         | _ :: l0 :: rest ->
           let fut = List.map (fun it -> match String.split_on_char ':' it with
               | [l; f] -> (int_of_string l, f = "1") | _ -> failwith "bad CHUNK item") rest in
           chunks := (int_of_string l0, fut) :: !chunks
         | _ -> failwith "bad CHUNK line"
       end else if String.length line >= 6 && String.sub line 0 6 = "BOUND " then begin
         (* BOUND <OB> <n> <level>: value of the proved heap bound B *)
         (match String.split_on_char ' ' line with
          | [_; ob; n; l] ->
            Printf.printf "BOUND %s %s %s %d\n" ob n l
              (int_of_n (b (n_of_int (int_of_string ob)) (nat_of_int (int_of_string n)) (n_of_int (int_of_string l))))
          | _ -> failwith "bad BOUND line")
       end else if line = "END" then begin
         (match !cur with
          | Some (id, n, u, l) ->
            let out = (try replay_trace id n u l (List.rev !chunks) (List.rev !recs)
                       with Failure m -> Printf.sprintf "FAIL %s rec=-1 replayer error: %s" id m) in
            print_endline out
          | None -> ());
         cur := None
       end else if String.length line >= 2 && String.sub line 0 2 = "C " then begin
         (try recs := parse_record line :: !recs
          with Failure m | Invalid_argument m -> recs := { coll = []; trans = []; reord = []; order = (-1, -1); nid = -1; tok = false; unf = false;
                                      ultra_r = false; caps = []; kind = "?" ^ m; t = -1; eof_r = false; wu = -1; os = -1; tos = -1; nwr = -1; raw = line } :: !recs)
       end
     done
   with End_of_file -> ())
