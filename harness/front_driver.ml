(* Driver for the extracted operand-loop model (Front/MainLoop.v).

   Input: cases, one item per line, binary strings in hex ("-" = empty):
     CASE <id>
     CFG <decompress> <force> <keep> <c|t|r> <uid> <gid> <now>
     INODE <ino> <r|d|p> <mode> <uid> <gid> <atime> <mtime> <hexdata>
     NAME <hexpath> L <ino>
     NAME <hexpath> S <hextarget>
     OP <hexpath>
     PLAN <kind> <n> F <errno>          | PLAN <kind> <n> R <INT|TERM|KILL>
     CODEC <C|X|P> <hexinput> <ok> <ev>*        ev = R | W<hexchunk>
     END
   Output per case:
     RESULT <id> <E<n>|KINT|KTERM|KKILL|HANG>
     MSG <info|warn|fail> <tag>            (chronological)
     HIST <hexop> <disp> <rmfail> <cleanfail>
     STDOUT <hex>
     CODECMISS <C|X|P> <hexinput>        (the codec table had no entry: result invalid)
     L <hexpath> F <r|d|p> <mode> <nlink> <uid> <gid> <atime> <mtime> <hexdata>
     L <hexpath> S <hextarget>
     END *)
module F = Front_model

let rec pos_of_int n = if n = 1 then F.XH else if n land 1 = 0 then F.XO (pos_of_int (n lsr 1)) else F.XI (pos_of_int (n lsr 1))
let n_of_int n = if n = 0 then F.N0 else F.Npos (pos_of_int n)
let rec int_of_pos = function F.XH -> 1 | F.XO p -> 2 * int_of_pos p | F.XI p -> 2 * int_of_pos p + 1
let int_of_n = function F.N0 -> 0 | F.Npos p -> int_of_pos p
let rec nat_of_int n = if n <= 0 then F.O else F.S (nat_of_int (n - 1))

let ascii_of_char c =
  let k = Char.code c in
  let b i = (k lsr i) land 1 = 1 in
  F.Ascii (b 0, b 1, b 2, b 3, b 4, b 5, b 6, b 7)
let char_of_ascii (F.Ascii (a, b, c, d, e, f, g, h)) =
  let v x i = if x then 1 lsl i else 0 in
  Char.chr (v a 0 + v b 1 + v c 2 + v d 3 + v e 4 + v f 5 + v g 6 + v h 7)
let cstr_of_string (s : string) : F.string =
  let r = ref F.EmptyString in
  for i = String.length s - 1 downto 0 do r := F.String (ascii_of_char s.[i], !r) done;
  !r
let string_of_cstr (s : F.string) : string =
  let b = Buffer.create 16 in
  let rec go = function F.EmptyString -> () | F.String (c, r) -> Buffer.add_char b (char_of_ascii c); go r in
  go s; Buffer.contents b

let unhex (h : string) : string =
  if h = "-" then "" else
    String.init (String.length h / 2) (fun i -> Char.chr (int_of_string ("0x" ^ String.sub h (2 * i) 2)))
let hex (s : string) : string =
  if s = "" then "-" else begin
    let b = Buffer.create (2 * String.length s) in
    String.iter (fun c -> Buffer.add_string b (Printf.sprintf "%02x" (Char.code c))) s;
    Buffer.contents b
  end
let bytes_of_string (s : string) : F.n list = List.init (String.length s) (fun i -> n_of_int (Char.code s.[i]))
let string_of_bytes (l : F.n list) : string =
  let b = Buffer.create 64 in
  List.iter (fun x -> Buffer.add_char b (Char.chr (int_of_n x))) l;
  Buffer.contents b

let kind_of_string = function
  | "lstat" -> F.KLstat | "open" -> F.KOpen | "fstat" -> F.KFstat | "close" -> F.KClose
  | "unlink" -> F.KUnlink | "read" -> F.KRead | "write" -> F.KWrite | "fchown" -> F.KFchown
  | "fchmod" -> F.KFchmod | "futimens" -> F.KFutimens | "write-stdout" -> F.KWriteStdout
  | "close-stdout" -> F.KCloseStdout | s -> failwith ("bad kind " ^ s)

let why_str = function
  | F.WFatal t -> "fatal:" ^ string_of_cstr t | F.WSigHandled -> "sig-handled" | F.WSigDefault -> "sig-default"
  | F.WSigSti -> "sig-sti" | F.WKill -> "kill" | F.WHang -> "hang"
let disp_str = function
  | F.DSkipped t -> "skipped:" ^ string_of_cstr t | F.DDone -> "done" | F.DAborted w -> "aborted:" ^ why_str w
let kchar = function F.KReg -> "r" | F.KDir -> "d" | F.KFifo -> "p"
let skchar = function F.SReg -> "r" | F.SDir -> "d" | F.SFifo -> "p" | F.SLnk -> "l"

type case = {
  mutable id : string; mutable cfg : F.cfg option;
  mutable inodes : (F.n * F.inode) list; mutable names : (F.path * F.dentry) list;
  mutable ops : F.path list; mutable plan : ((F.kindc * F.nat) * F.action) list;
  mutable codec : ((string * string) * F.cres) list; mutable miss : (string * string) list;
}
let fresh () = { id = ""; cfg = None; inodes = []; names = []; ops = []; plan = []; codec = []; miss = [] }

let run_case (c : case) =
  let cfg = match c.cfg with Some x -> x | None -> failwith "no CFG" in
  let fs = { F.f_names = List.rev c.names; F.f_inodes = List.rev c.inodes; F.f_stdout = [] } in
  let codec (m : F.cmode) (d : F.n list) : F.cres =
    let ms = match m with F.CCompress -> "C" | F.CExpand -> "X" | F.CCopy -> "P" in
    let ds = string_of_bytes d in
    match List.assoc_opt (ms, ds) c.codec with
    | Some r -> r
    | None -> (if not (List.mem (ms, ds) c.miss) then c.miss <- (ms, ds) :: c.miss); { F.c_io = []; F.c_ok = false } in
  let (st, o) = F.run_full codec cfg fs (List.rev c.ops) (List.rev c.plan) in
  let os = match o with
    | F.Exit n -> "E" ^ string_of_int (int_of_n n)
    | F.Killed F.SIGINT -> "KINT" | F.Killed F.SIGTERM -> "KTERM" | F.Killed F.SIGKILL -> "KKILL"
    | F.Killed F.SIGXFSZ -> "KXFSZ" | F.Killed F.SIGPIPE -> "KPIPE"
    | F.Hang -> "HANG" in
  Printf.printf "RESULT %s %s\n" c.id os;
  List.iter (fun (cl, t) ->
      Printf.printf "MSG %s %s\n" (match cl with F.MInfo -> "info" | F.MWarn -> "warn" | F.MFail -> "fail") (string_of_cstr t))
    (List.rev st.F.m_msgs);
  List.iter (fun h ->
      Printf.printf "HIST %s %s %d %d\n" (hex (string_of_cstr h.F.h_op)) (disp_str h.F.h_disp)
        (if h.F.h_rmfail then 1 else 0) (if h.F.h_cleanfail then 1 else 0))
    (List.rev st.F.m_hist);
  Printf.printf "STDOUT %s\n" (hex (string_of_bytes st.F.m_fs.F.f_stdout));
  List.iter (fun (m, d) -> Printf.printf "CODECMISS %s %s\n" m (hex d)) (List.rev c.miss);
  List.iter (function
      | F.LFile (p, k, mode, nl, u, g, at, mt, d) ->
        Printf.printf "L %s F %s %d %d %d %d %d %d %s\n" (hex (string_of_cstr p)) (skchar k) (int_of_n mode) (int_of_n nl)
          (int_of_n u) (int_of_n g) (int_of_n at) (int_of_n mt) (hex (string_of_bytes d))
      | F.LSym (p, t) -> Printf.printf "L %s S %s\n" (hex (string_of_cstr p)) (hex (string_of_cstr t))
      | F.LDangling p -> Printf.printf "L %s X\n" (hex (string_of_cstr p)))
    (F.listing st.F.m_fs);
  print_endline "END"

let () =
  let cur = ref (fresh ()) in
  let b s = s = "1" in
  try
    while true do
      let line = String.trim (input_line stdin) in
      match String.split_on_char ' ' line with
      | ["CASE"; id] -> cur := fresh (); !cur.id <- id
      | ["CFG"; d; f; k; om; uid; gid; now] ->
        !cur.cfg <- Some { F.c_decompress = b d; F.c_force = b f; F.c_keep = b k;
                           F.c_outmode = (match om with "c" -> F.OmStdout | "t" -> F.OmDiscard | _ -> F.OmRegf);
                           F.c_uid = n_of_int (int_of_string uid); F.c_gid = n_of_int (int_of_string gid);
                           F.c_now = n_of_int (int_of_string now) }
      | ["INODE"; ino; k; mode; uid; gid; at; mt; data] ->
        let nd = { F.i_kind = (match k with "d" -> F.KDir | "p" -> F.KFifo | _ -> F.KReg);
                   F.i_mode = n_of_int (int_of_string mode); F.i_uid = n_of_int (int_of_string uid);
                   F.i_gid = n_of_int (int_of_string gid); F.i_atime = n_of_int (int_of_string at);
                   F.i_mtime = n_of_int (int_of_string mt); F.i_data = bytes_of_string (unhex data);
                   F.i_committed = true } in
        !cur.inodes <- (n_of_int (int_of_string ino), nd) :: !cur.inodes
      | ["NAME"; p; "L"; ino] -> !cur.names <- (cstr_of_string (unhex p), F.DLink (n_of_int (int_of_string ino))) :: !cur.names
      | ["NAME"; p; "S"; t] -> !cur.names <- (cstr_of_string (unhex p), F.DSym (cstr_of_string (unhex t))) :: !cur.names
      | ["OP"; p] -> !cur.ops <- cstr_of_string (unhex p) :: !cur.ops
      | ["PLAN"; k; n; "F"; e] ->
        !cur.plan <- ((kind_of_string k, nat_of_int (int_of_string n)), F.Fail (n_of_int (int_of_string e))) :: !cur.plan
      | ["PLAN"; k; n; "R"; sg] ->
        let s = match sg with "INT" -> F.SIGINT | "TERM" -> F.SIGTERM | _ -> F.SIGKILL in
        !cur.plan <- ((kind_of_string k, nat_of_int (int_of_string n)), F.Raise s) :: !cur.plan
      | "CODEC" :: m :: inp :: ok :: evs ->
        let io = List.map (fun e -> if e = "R" then F.IoRead
                            else F.IoWrite (bytes_of_string (unhex (String.sub e 1 (String.length e - 1))))) evs in
        !cur.codec <- ((m, unhex inp), { F.c_io = io; F.c_ok = b ok }) :: !cur.codec
      | ["END"] -> run_case !cur
      | [""] -> ()
      | _ -> Printf.printf "BADLINE %s\n" line
    done
  with End_of_file -> ()
