(* Driver for the extracted data-error roles of the fatal-exit state machine (C07, process
   level; coq/IoFail/DataFail.v).  One request per line:

   SITES    -> one line per row of the regenerated table [data_sites]:
               SITE <i> file=<..> func=<..> logfn=<..> main=<0|1> bail=<0|1> warn=<0|1> lock=<0|1>
                    arg=<none|const:NAME|var:EXPR> fmt=<hex of the format string>
               followed by END
   CHECK    -> CHECK dcheck_all=<b> structure_ok=<b> no_warning_site=<b> no_warn_call=<b>
                     exit_clean=<n> exit_warned=<n>
   TASKS    -> TASKS <name>=<run function>,...        (task_list[] of `expansion`)
   CODE <enumerator>  -> CODE <n> | CODE none        (value in `enum error`)
   RUN <site> <code> <susp 0|1> <nothers> <schedule> <pname hex> <sep hex> <fsname hex>
            schedule = comma separated: F M O D C (failing thread step, main step, others done,
                       F done, complete) or x<i>:<r|c|i|e>; "-" = empty.  A fair completion
                       suffix (F and M alternating, 2*64 steps) is appended unless the schedule
                       ends with "!".
            -> RES=<EXIT n|KILL s|NONE> PRINTED=<n> PRED=<..> PREDPRINTED=<n> ADMITS=<0|1>
               F=<..> M=<..> COMPLETED=<0|1> MU0=<n> LINE=<hex of the predicted stderr line|none> *)
open Datafail_model

let rec pos_of_int n = if n = 1 then XH else if n land 1 = 0 then XO (pos_of_int (n lsr 1)) else XI (pos_of_int (n lsr 1))
let n_of_int n = if n = 0 then N0 else Npos (pos_of_int n)
let rec int_of_pos = function XH -> 1 | XO p -> 2 * int_of_pos p | XI p -> 2 * int_of_pos p + 1
let int_of_n = function N0 -> 0 | Npos p -> int_of_pos p
let rec nat_of_int n = if n = 0 then O else S (nat_of_int (n - 1))
let rec int_of_nat = function O -> 0 | S n -> 1 + int_of_nat n

let ascii_of_int k =
  let b i = (k lsr i) land 1 = 1 in
  Ascii (b 0, b 1, b 2, b 3, b 4, b 5, b 6, b 7)
let int_of_ascii (Ascii (b0, b1, b2, b3, b4, b5, b6, b7)) =
  List.fold_left (fun a (i, b) -> if b then a lor (1 lsl i) else a) 0
    [ (0, b0); (1, b1); (2, b2); (3, b3); (4, b4); (5, b5); (6, b6); (7, b7) ]
let rec cstr_of_list = function [] -> EmptyString | k :: r -> String (ascii_of_int k, cstr_of_list r)
let rec list_of_cstr = function EmptyString -> [] | String (c, r) -> int_of_ascii c :: list_of_cstr r
let cstr_of_string s = cstr_of_list (List.init (String.length s) (fun i -> Char.code s.[i]))
let string_of_cstr c = String.concat "" (List.map (fun k -> String.make 1 (Char.chr k)) (list_of_cstr c))
let hex_of_cstr c = match list_of_cstr c with [] -> "-" | l -> String.concat "" (List.map (Printf.sprintf "%02x") l)
let cstr_of_hex s =
  if s = "-" then EmptyString
  else cstr_of_list (List.init (String.length s / 2) (fun i -> int_of_string ("0x" ^ String.sub s (2 * i) 2)))

let ostate_of = function
  | 'r' -> ORunning | 'c' -> OBlockedCond | 'i' -> OBlockedIO | 'e' -> OExited
  | _ -> failwith "ostate"

let event_of tok =
  match tok with
  | "F" -> EvCore EvF | "M" -> EvCore EvMain | "O" -> EvCore EvOthersDone
  | "D" -> EvCore EvFDone | "C" -> EvCore EvComplete
  | _ ->
    if String.length tok >= 4 && tok.[0] = 'x' then begin
      match String.split_on_char ':' (String.sub tok 1 (String.length tok - 1)) with
      | [i; s] -> EvOther (nat_of_int (int_of_string i), ostate_of s.[0])
      | _ -> failwith ("event " ^ tok)
    end else failwith ("event " ^ tok)

let show_outcome = function
  | None -> "NONE"
  | Some (Exited n) -> Printf.sprintf "EXIT %d" (int_of_n n)
  | Some (Killed s) -> Printf.sprintf "KILL %d" (int_of_n s)

let show_f = function FNone -> "none" | FOps l -> Printf.sprintf "ops%d" (List.length l) | FLive -> "live" | FDead -> "dead"
let show_m = function
  | MPre -> "pre" | MSusp -> "susp" | MOps (_, l) -> Printf.sprintf "ops%d" (List.length l)
  | MReturned -> "returned" | MDead -> "dead"

let b01 b = if b then 1 else 0

let () =
  try
    while true do
      let line = String.trim (input_line stdin) in
      match String.split_on_char ' ' line with
      | ["SITES"] ->
        List.iteri (fun i s ->
            Printf.printf "SITE %d file=%s func=%s logfn=%s main=%d bail=%d warn=%d lock=%d arg=%s fmt=%s\n" i
              (string_of_cstr s.ds_file) (string_of_cstr s.ds_func) (string_of_cstr s.ds_logfn)
              (b01 (on_main s)) (b01 s.ds_bail) (b01 s.ds_warn) (b01 (lock_held_at s))
              (match s.ds_arg with
               | ArgNone -> "none"
               | ArgConst n -> "const:" ^ string_of_cstr n
               | ArgVar e -> "var:" ^ string_of_cstr e)
              (hex_of_cstr s.ds_fmt)) data_sites;
        print_endline "END"
      | ["CHECK"] ->
        Printf.printf "CHECK dcheck_all=%b structure_ok=%b no_warning_site=%b no_warn_call=%b exit_clean=%d exit_warned=%d\n"
          gen_dcheck_all data_structure_ok no_warning_site no_warn_call_in_decompression
          (int_of_n (final_status false)) (int_of_n (final_status true))
      | ["TASKS"] ->
        Printf.printf "TASKS %s\n" (String.concat "," (List.map (fun ((n, _), r) ->
            string_of_cstr n ^ "=" ^ string_of_cstr r) expansion_tasks))
      | ["CODE"; name] ->
        (match code_of_name (cstr_of_string name) with
         | Some n -> Printf.printf "CODE %d\n" (int_of_n n)
         | None -> print_endline "CODE none")
      | ["RUN"; si; code; sp; no; sch; pname; sep; fsname] ->
        let si = int_of_string si in
        (match List.nth_opt data_sites si with
         | None -> print_endline "BADSITE"
         | Some s ->
           let code = n_of_int (int_of_string code) in
           let sp = sp = "1" in
           let others = List.init (int_of_string no) (fun _ -> ORunning) in
           let fair = not (String.length sch > 0 && sch.[String.length sch - 1] = '!') in
           let sch = if fair then sch else String.sub sch 0 (String.length sch - 1) in
           let toks = if sch = "-" || sch = "" then [] else List.filter (fun s -> s <> "") (String.split_on_char ',' sch) in
           let evs = List.map event_of toks in
           let suffix = if fair then List.concat (List.init 64 (fun _ -> [EvCore EvF; EvCore EvMain])) else [] in
           let st = run_data s sp others (evs @ suffix) in
           let (po, pp) = data_predict s in
           let k = st.s_core in
           let ln = match render_line (cstr_of_hex pname) (cstr_of_hex sep) (cstr_of_hex fsname) s code with
             | Some l -> hex_of_cstr l | None -> "none" in
           Printf.printf "RES=%s PRINTED=%d PRED=%s PREDPRINTED=%d ADMITS=%d F=%s M=%s COMPLETED=%d MU0=%d LINE=%s\n"
             (show_outcome k.k_res) (int_of_n k.k_printed) (show_outcome po) (int_of_n pp)
             (b01 (site_admits s code)) (show_f k.k_f) (show_m k.k_m) (b01 k.k_completed)
             (int_of_nat (mu gen_cfg (data_init s sp))) ln)
      | _ -> print_endline "BADLINE"
    done
  with End_of_file -> ()
