(* Driver for the extracted decoder models.  Input lines: "<mode> <hex bytes or ->"
   mode: lbz | ref | noexc | info (lbz policy, also prints CRC field offsets) *)
open Dec_model

let rec pos_of_int n = if n = 1 then XH else if n land 1 = 0 then XO (pos_of_int (n lsr 1)) else XI (pos_of_int (n lsr 1))
let n_of_int n = if n = 0 then N0 else Npos (pos_of_int n)
let rec int_of_pos = function XH -> 1 | XO p -> 2 * int_of_pos p | XI p -> 2 * int_of_pos p + 1
let int_of_n = function N0 -> 0 | Npos p -> int_of_pos p
let rec int_of_nat = function O -> 0 | S n -> 1 + int_of_nat n

let bytes_of_hex s =
  if s = "-" then [] else
  List.init (String.length s / 2) (fun i -> n_of_int (int_of_string ("0x" ^ String.sub s (2 * i) 2)))

let err_name = function
  | EOF -> "EOF" | ErrNotBzip2 -> "NotBzip2" | ErrHeader -> "Header" | ErrBitmap -> "Bitmap" | ErrTrees -> "Trees"
  | ErrGroups -> "Groups" | ErrSelector -> "Selector" | ErrDelta -> "Delta" | ErrPrefix -> "Prefix"
  | ErrIncomplete -> "Incomplete" | ErrEmpty -> "Empty" | ErrUnterm -> "Unterm" | ErrRunlen -> "Runlen"
  | ErrBlkCrc -> "BlkCrc" | ErrStrmCrc -> "StrmCrc" | ErrOverflow -> "Overflow" | ErrBwtIdx -> "BwtIdx"
  | ErrFuel -> "Fuel" | ErrTable -> "Table"

let show_out o =
  let b = Buffer.create 256 in
  List.iter (fun x -> Buffer.add_char b (Char.chr (int_of_n x))) o;
  let s = Buffer.contents b in
  Printf.sprintf "OK %d %s" (String.length s) (Digest.to_hex (Digest.string s))

let () =
  try
    while true do
      let line = input_line stdin in
      match String.split_on_char ' ' (String.trim line) with
      | [mode; hex] ->
        let file = bytes_of_hex hex in
        (match mode with
         | "lbz" | "ref" | "noexc" | "lenient" ->
           let r = (match mode with "lbz" -> lbz_decode file | "ref" -> ref_decode file | "lenient" -> ref_lenient_decode file | _ -> ref_noexc_decode file) in
           (match r with Ok o -> print_endline (show_out o) | Err e -> print_endline ("ERR " ^ err_name e))
         | "info" ->
           (match decode_file_info lbz_policy file with
            | Ok (o, ps) -> Printf.printf "%s %s\n" (show_out o) (String.concat "," (List.map (fun p -> string_of_int (int_of_nat p)) ps))
            | Err e -> print_endline ("ERR " ^ err_name e))
         | "inspect" ->
           (match inspect_file file with
            | Ok l -> print_endline ("OK " ^ String.concat ";" (List.map (fun b ->
                Printf.sprintf "level=%d,rand=%b,idx=%d,size=%d,nt=%d,nsel=%d,crc=%b,tables=%s" (int_of_n b.bi_level) b.bi_rand
                  (int_of_n b.bi_idx) (int_of_n b.bi_size) (int_of_n b.bi_ntrees) (int_of_n b.bi_nsel) b.bi_crc_ok
                  (String.concat "|" (List.map (fun t -> String.concat "." (List.map (fun x -> string_of_int (int_of_n x)) t)) b.bi_tables))) l))
            | Err e -> print_endline ("ERR " ^ err_name e))
         | "tabs" -> Printf.printf "prefix_consistent=%b sel_table_ok=%b\n" tables_prefix_consistent sel_table_ok
         | _ -> print_endline "BADMODE")
      | _ -> print_endline "BADLINE"
    done
  with End_of_file -> ()
