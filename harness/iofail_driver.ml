(* Driver for the extracted I/O-failure state machine (C21): one case per line.
   input : <role> <errno> <gen 0|1> <dfl 0|1> <susp 0|1> <nothers> <schedule>
           role     = sniff | copyhdr | reader | writer | prihdr | pritrl
           schedule = comma separated: F M O D C (failing thread step, main step, others done,
                      F done, complete) or x<i>:<r|c|i|e> (other thread i -> running/blocked on
                      condvar/blocked in I/O/exited); "-" for the empty schedule.  The driver
                      appends a fair completion suffix (F and M alternating, 2*64 steps) unless
                      the schedule ends with "!".
   output: RES=<EXIT n|KILL s|NONE> PRINTED=<n> PRED=<EXIT n|KILL s> PREDPRINTED=<n> F=<..> M=<..> COMPLETED=<0|1> MU0=<n>
   The single line "CHECK" prints the value of the finite check and of structure_ok
   evaluated by the extracted code. *)
open Iofail_model

let rec pos_of_int n = if n = 1 then XH else if n land 1 = 0 then XO (pos_of_int (n lsr 1)) else XI (pos_of_int (n lsr 1))
let n_of_int n = if n = 0 then N0 else Npos (pos_of_int n)
let rec int_of_pos = function XH -> 1 | XO p -> 2 * int_of_pos p | XI p -> 2 * int_of_pos p + 1
let int_of_n = function N0 -> 0 | Npos p -> int_of_pos p
let rec nat_of_int n = if n = 0 then O else S (nat_of_int (n - 1))
let rec int_of_nat = function O -> 0 | S n -> 1 + int_of_nat n

let role_of = function
  | "sniff" -> RSniffRead | "copyhdr" -> RCopyHdrWrite | "reader" -> RReader
  | "writer" -> RWriter | "prihdr" -> RPrimaryHdr | "pritrl" -> RPrimaryTrl
  | s -> failwith ("role " ^ s)

let ostate_of = function
  | 'r' -> ORunning | 'c' -> OBlockedCond | 'i' -> OBlockedIO | 'e' -> OExited
  | _ -> failwith "ostate"

let event_of tok =
  match tok with
  | "F" -> EvCore EvF | "M" -> EvCore EvMain | "O" -> EvCore EvOthersDone
  | "D" -> EvCore EvFDone | "C" -> EvCore EvComplete
  | _ ->
    if String.length tok >= 4 && tok.[0] = 'x' then begin
      match String.split_on_char ':' (String.sub tok 1 (String.length tok - 1)) with
      | [i; s] -> EvOther (nat_of_int (int_of_string i), ostate_of s.[0])
      | _ -> failwith ("event " ^ tok)
    end else failwith ("event " ^ tok)

let show_outcome = function
  | None -> "NONE"
  | Some (Exited n) -> Printf.sprintf "EXIT %d" (int_of_n n)
  | Some (Killed s) -> Printf.sprintf "KILL %d" (int_of_n s)

let show_f = function FNone -> "none" | FOps l -> Printf.sprintf "ops%d" (List.length l) | FLive -> "live" | FDead -> "dead"
let show_m = function
  | MPre -> "pre" | MSusp -> "susp" | MOps (_, l) -> Printf.sprintf "ops%d" (List.length l)
  | MReturned -> "returned" | MDead -> "dead"

let () =
  try
    while true do
      let line = String.trim (input_line stdin) in
      if line = "CHECK" then
        Printf.printf "CHECK check_all=%b structure_ok=%b\n" gen_check_all structure_ok
      else
      match String.split_on_char ' ' line with
      | [r; x; g; d; sp; no; sch] ->
        let r = role_of r and x = n_of_int (int_of_string x) in
        let g = g = "1" and d = d = "1" and sp = sp = "1" in
        let others = List.init (int_of_string no) (fun _ -> ORunning) in
        let fair = not (String.length sch > 0 && sch.[String.length sch - 1] = '!') in
        let sch = if fair then sch else String.sub sch 0 (String.length sch - 1) in
        let toks = if sch = "-" || sch = "" then [] else List.filter (fun s -> s <> "") (String.split_on_char ',' sch) in
        let evs = List.map event_of toks in
        let suffix = if fair then List.concat (List.init 64 (fun _ -> [EvCore EvF; EvCore EvMain])) else [] in
        let st = run_fault r x g d sp others (evs @ suffix) in
        let (po, pp) = predict r x g d in
        let k = st.s_core in
        Printf.printf "RES=%s PRINTED=%d PRED=%s PREDPRINTED=%d F=%s M=%s COMPLETED=%d MU0=%d\n"
          (show_outcome k.k_res) (int_of_n k.k_printed) (show_outcome po) (int_of_n pp)
          (show_f k.k_f) (show_m k.k_m) (if k.k_completed then 1 else 0)
          (int_of_nat (gen_mu_bound r x g d sp))
      | _ -> print_endline "BADLINE"
    done
  with End_of_file -> ()
