/* In-process harness for the sliding-list inverse MTF of src/decode.c (mtf_one and its
   initialisation in retrieve()): same line protocol as safe_slide_driver.ml.
   input line : "<ninuse> <comma separated positions>"      ("-" = no positions)
   output line: "alpha=<n>" then for each call " <byte>@<r0>,...,<r15>" (row offsets
                imtf_row[i] - imtf_slide after the call); " ABORT" if mtf_one called abort();
                then " | " and the 256 bytes of the concatenated rows in hex.
   decode.c is #included so that the static mtf_one and struct retriever_internal_state are
   the real ones. */
#include <stdlib.h>
#include <stdio.h>
#include <setjmp.h>

/* mtf_one() calls abort() in the `default:' arm of its switch (position 0).  glibc's abort() can be
   caught only once per process, so inside decode.c the name is redirected to a function that
   leaves the call by siglongjmp; nothing else of decode.c is changed. */
static sigjmp_buf jb;
static void harness_abort(void) __attribute__((noreturn));
static void harness_abort(void) { siglongjmp(jb, 1); }
#define abort harness_abort
#include "decode.c"
#undef abort

void *xmalloc(size_t n)
{
  void *p = malloc(n);
  if (!p) { fputs("out of memory\n", stderr); exit(2); }
  return p;
}

static char *line;
#define LINE_MAX_LEN (16u << 20)

int main(void)
{
  struct retriever_internal_state *rs = xmalloc(sizeof *rs);
  static char obuf[1 << 16];

  line = xmalloc(LINE_MAX_LEN);
  setvbuf(stdout, obuf, _IOFBF, sizeof obuf);

  while (fgets(line, LINE_MAX_LEN, stdin)) {
    char *nu = strtok(line, " \n"), *ps = strtok(NULL, " \n");
    unsigned ninuse, i;
    volatile int aborted = 0;

    if (!nu || !ps) { puts("BADLINE"); continue; }
    ninuse = (unsigned)strtoul(nu, NULL, 10);

    /* what the slide held before this block (stale bytes): same pattern as the model driver */
    for (i = 0; i < SLIDE_LENGTH; i++)
      rs->imtf_slide[i] = (uint8_t)(i * 7 + 3);

    /* retrieve(): bitmap loop, for the bitmap "bytes 0..ninuse-1 in use" */
    rs->alpha_size = 0u;
    rs->j = 0;
    do {
      do {
        unsigned bit = rs->j < ninuse;
        rs->imtf_slide[CMAP_BASE + rs->alpha_size] = rs->j++;
        rs->alpha_size += bit;
      }
      while (rs->j & 0xF);
    }
    while (rs->j < 256u);
    printf("alpha=%u", rs->alpha_size);

    /* retrieve(): Initialize IMTF decoding structure. */
    for (i = 0; i < NUM_ROWS; i++)
      rs->imtf_row[i] = rs->imtf_slide + CMAP_BASE + i * ROW_WIDTH;

    if (strcmp(ps, "-")) {
      char *p = ps;
      while (*p && !aborted) {
        unsigned c = (unsigned)strtoul(p, &p, 10);
        unsigned x;
        if (*p == ',') p++;
        if (sigsetjmp(jb, 1)) {
          aborted = 1;
          fputs(" ABORT", stdout);
          break;
        }
        x = mtf_one(rs->imtf_row, rs->imtf_slide, (uint8_t)c);
        printf(" %u@", x);
        for (i = 0; i < NUM_ROWS; i++)
          printf(i ? ",%ld" : "%ld", (long)(rs->imtf_row[i] - rs->imtf_slide));
      }
    }
    fputs(" | ", stdout);
    for (i = 0; i < NUM_ROWS; i++) {
      unsigned k;
      for (k = 0; k < ROW_WIDTH; k++)
        printf("%02x", rs->imtf_row[i][k]);
    }
    putchar('\n');
  }
  return 0;
}
