/* C08 / prefix-code tables: runs the real make_tree() of src/decode.c and the real
   decode sequence of retrieve() (its source text is cut out of decode.c by
   checks/safe_tree.py into safe_tree_seq.inc, which is compiled here).

   stdin, one case per line:   <alpha> <len,len,...> [<hex v> ...]
   stdout: first a line with the declared array sizes and constants, then per case
     V <mtf[t]> S <start[]> B <base[]> C <count[]> P <perm[]> D <s>:<k>:<v after DUMP> ...
   (numbers in decimal, arrays comma separated).  The whole retriever state is filled
   with 0xAA before make_tree() so that entries make_tree() leaves alone are visible. */
#include "decode.c"
#include <stdio.h>
#include <stdlib.h>
#include <string.h>

void *
xmalloc(size_t n)
{
  void *p = malloc(n);
  if (!p)
    abort();
  return p;
}

#define TREE_NO 2u
#define NELEM(a) (sizeof(a) / sizeof((a)[0]))

static struct retriever_internal_state RS;

/* the decode sequence, exactly as in retrieve() */
static void
decode_one(struct tree *T, uint64_t v0, unsigned *sp, unsigned *kp, uint64_t *vp)
{
  uint64_t v = v0;
  unsigned w = 63;
  unsigned s, x, k;
#include "safe_tree_seq.inc"
  (void)w;
  *sp = s;
  *kp = k;
  *vp = v;
}

int
main(void)
{
  static char line[1 << 16];
  struct retriever_internal_state *rs = &RS;

  printf("SIZES %u %u %u %u %u CONST %u %u %u %u %u %u %u\n",
         (unsigned)NELEM(rs->tree[0].start), (unsigned)NELEM(rs->tree[0].base),
         (unsigned)NELEM(rs->tree[0].count), (unsigned)NELEM(rs->tree[0].perm),
         (unsigned)NELEM(rs->code_len),
         (unsigned)RUN_A, (unsigned)RUN_B, (unsigned)EOB, (unsigned)HUFF_START_WIDTH,
         (unsigned)ERR_INCOMPLT, (unsigned)ERR_PREFIX, (unsigned)MAX_TREES);

  while (fgets(line, sizeof line, stdin)) {
    char *p = line, *q;
    unsigned long alpha = strtoul(p, &q, 10);
    unsigned i, nl = 0;
    struct tree *T;

    if (q == p) {
      puts("BADLINE");
      continue;
    }
    p = q;
    memset(rs, 0xAA, sizeof *rs);
    while (*p == ' ')
      p++;
    for (;;) {
      unsigned long l = strtoul(p, &q, 10);
      if (q == p)
        break;
      if (nl < MAX_ALPHA_SIZE)
        rs->code_len[nl] = (uint8_t)l;
      nl++;
      p = q;
      if (*p != ',')
        break;
      p++;
    }
    if (alpha < 3 || alpha > MAX_ALPHA_SIZE || nl != alpha) {
      puts("BADLINE");
      continue;
    }
    rs->alpha_size = alpha;
    rs->t = TREE_NO;
    make_tree(rs);
    T = &rs->tree[TREE_NO];

    printf("V %u S ", rs->mtf[TREE_NO]);
    for (i = 0; i < NELEM(T->start); i++)
      printf("%s%u", i ? "," : "", (unsigned)T->start[i]);
    printf(" B ");
    for (i = 0; i < NELEM(T->base); i++)
      printf("%s%llu", i ? "," : "", (unsigned long long)T->base[i]);
    printf(" C ");
    for (i = 0; i < NELEM(T->count); i++)
      printf("%s%u", i ? "," : "", (unsigned)T->count[i]);
    printf(" P ");
    for (i = 0; i < NELEM(T->perm); i++)
      printf("%s%u", i ? "," : "", (unsigned)T->perm[i]);
    printf(" D");
    if (rs->mtf[TREE_NO] == TREE_NO) {
      for (;;) {
        unsigned long long v;
        unsigned s, k;
        uint64_t v1;
        while (*p == ' ')
          p++;
        v = strtoull(p, &q, 16);
        if (q == p)
          break;
        p = q;
        decode_one(T, (uint64_t)v, &s, &k, &v1);
        printf(" %u:%u:%llu", s, k, (unsigned long long)v1);
      }
    }
    putchar('\n');
  }
  return 0;
}
