(* Driver for the extracted decode()/emit() model (Safe/EmitModel.v): one case per line,
   same protocol as safe_h_emit.c. *)
open Safe_emit_model

let rec pos_of_int n = if n = 1 then XH else if n land 1 = 0 then XO (pos_of_int (n lsr 1)) else XI (pos_of_int (n lsr 1))
let n_of_int n = if n = 0 then N0 else Npos (pos_of_int n)
let rec int_of_pos = function XH -> 1 | XO p -> 2 * int_of_pos p | XI p -> 2 * int_of_pos p + 1
let int_of_n = function N0 -> 0 | Npos p -> int_of_pos p

let fault_name = function
  | Oob -> "Oob" | Wrap -> "Wrap" | BadState -> "BadState" | AssertFail -> "AssertFail" | Fuel -> "Fuel"

let is_hex c = (c >= '0' && c <= '9') || (c >= 'a' && c <= 'f') || (c >= 'A' && c <= 'F')

let () =
  try
    while true do
      let line = input_line stdin in
      match List.filter (fun s -> s <> "") (String.split_on_char ' ' (String.trim line)) with
      | [rnd; idx; col; szs] when String.length col >= 2 && String.length col mod 2 = 0
                                  && (let ok = ref true in String.iter (fun c -> if not (is_hex c) then ok := false) col; !ok) ->
        let n = String.length col / 2 in
        let bytes = List.init n (fun i -> n_of_int (int_of_string ("0x" ^ String.sub col (2 * i) 2))) in
        let sizes = Array.of_list (List.map int_of_string (List.filter (fun s -> s <> "") (String.split_on_char ',' szs))) in
        let idx = int_of_string idx in
        if idx >= n || Array.length sizes = 0 then print_endline "BADLINE" else begin
          let b = Buffer.create 4096 in
          (match decode_model bytes (ftab_of bytes) (n_of_int n) (n_of_int idx) (rnd <> "0") N0 with
           | Bad f -> Buffer.add_string b ("FAULT decode " ^ fault_name f)
           | Good ((tt, ftab), st) ->
             Buffer.add_string b "t:";
             List.iter (fun w -> Buffer.add_string b (Printf.sprintf "%08x" (int_of_n w))) tt;
             Buffer.add_string b " f:";
             let fa = Array.of_list (List.map int_of_n ftab) in
             let i = ref 0 in
             while !i < 256 do
               let j = ref !i in
               while !j < 256 && fa.(!j) = fa.(!i) do incr j done;
               Buffer.add_string b (Printf.sprintf "%s%d*%d" (if !i > 0 then "," else "") fa.(!i) (!j - !i));
               i := !j
             done;
             Buffer.add_string b (Printf.sprintf " i:%d,%d" (int_of_n st.rle_index) (int_of_n st.rle_avail));
             let st = ref st and calls = ref 0 and total = ref 0 and go = ref true in
             while !go do
               let bsz = sizes.(!calls mod Array.length sizes) in
               if bsz = 0 then (Buffer.add_string b " BADSIZE"; go := false) else
               (match emit_model tt !st (n_of_int bsz) with
                | Bad f -> Buffer.add_string b (" FAULT emit " ^ fault_name f); go := false
                | Good (((status, out), st'), _) ->
                  let rv = int_of_n status in
                  Buffer.add_string b (Printf.sprintf " e:%d," rv);
                  if out = [] then Buffer.add_char b '-';
                  List.iter (fun c -> Buffer.add_string b (Printf.sprintf "%02x" (int_of_n c))) out;
                  Buffer.add_string b (Printf.sprintf ",%d" (int_of_n st'.rle_state));
                  total := !total + List.length out;
                  st := st';
                  incr calls;
                  if rv <> 1 then go := false
                  else if out = [] then (Buffer.add_string b " NOPROGRESS"; go := false)
                  else if !total > 300 * n + 1024 then (Buffer.add_string b " RUNAWAY"; go := false))
             done;
             Buffer.add_string b (Printf.sprintf " c:%08x" (int_of_n !st.ds_crc)));
          print_endline (Buffer.contents b)
        end
      | _ -> print_endline "BADLINE"
    done
  with End_of_file -> ()
