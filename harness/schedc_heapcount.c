/* LD_PRELOAD shim used by the SchedC checks (C03, C13).

   1. Heap accounting: every malloc/calloc/realloc/free of the process is
      counted with malloc_usable_size(); the current and the peak number of
      live heap bytes (and the number of live blocks at the peak) are kept in a
      small file mapped MAP_SHARED, named by SCHEDC_HEAP_OUT, so that the result
      survives _exit() and signals.  Layout: 3 x int64 {live, peak, blocks_at_peak}.
   2. Short writes: if SCHEDC_SHORTWRITE=<seed> is set, write() on fd 1 transfers
      only a pseudo-random prefix (1..4096 bytes) of what was asked for.
   3. Short reads: if SCHEDC_SHORTREAD=<seed> is set, read() on fd 0 returns at
      most a pseudo-random 1..SCHEDC_SHORTREAD_MAX (default 4096) bytes; likewise
      SCHEDC_SHORTWRITE_MAX.

   Build: gcc -O2 -shared -fPIC -o schedc_heapcount.so schedc_heapcount.c -ldl */
#define _GNU_SOURCE
#include <dlfcn.h>
#include <fcntl.h>
#include <malloc.h>
#include <stdatomic.h>
#include <stdint.h>
#include <stdlib.h>
#include <string.h>
#include <sys/mman.h>
#include <unistd.h>

static void *(*real_malloc)(size_t);
static void *(*real_calloc)(size_t, size_t);
static void *(*real_realloc)(void *, size_t);
static void (*real_free)(void *);
static ssize_t (*real_write)(int, const void *, size_t);
static ssize_t (*real_read)(int, void *, size_t);

static char boot[1 << 16];
static size_t boot_used;
static int initializing, initialized;

static _Atomic int64_t live, peak, blocks;
static volatile int64_t *shared;          /* {live, peak, blocks_at_peak} */
static int short_write = -1, short_read = -1;
static uint64_t short_read_max = 4096, short_write_max = 4096;
static _Atomic uint64_t rng_w = 88172645463325252ull, rng_r = 1442695040888963407ull;

static int in_boot(void *p) { return (char *)p >= boot && (char *)p < boot + sizeof boot; }

static void *boot_alloc(size_t n)
{
  size_t a = (boot_used + 15) & ~(size_t)15;
  if (a + n > sizeof boot)
    abort();
  boot_used = a + n;
  return boot + a;
}

static void init(void)
{
  const char *e;

  initializing = 1;
  real_malloc = dlsym(RTLD_NEXT, "malloc");
  real_calloc = dlsym(RTLD_NEXT, "calloc");
  real_realloc = dlsym(RTLD_NEXT, "realloc");
  real_free = dlsym(RTLD_NEXT, "free");
  real_write = dlsym(RTLD_NEXT, "write");
  real_read = dlsym(RTLD_NEXT, "read");
  e = getenv("SCHEDC_HEAP_OUT");
  if (e) {
    int fd = open(e, O_RDWR | O_CREAT, 0600);
    if (fd >= 0 && ftruncate(fd, 24) == 0) {
      void *m = mmap(NULL, 24, PROT_READ | PROT_WRITE, MAP_SHARED, fd, 0);
      if (m != MAP_FAILED)
        shared = m;
    }
    if (fd >= 0)
      close(fd);
  }
  e = getenv("SCHEDC_SHORTWRITE");
  short_write = e != NULL;
  if (e)
    rng_w ^= strtoull(e, NULL, 10) * 0x9E3779B97F4A7C15ull;
  e = getenv("SCHEDC_SHORTREAD");
  short_read = e != NULL;
  if (e)
    rng_r ^= strtoull(e, NULL, 10) * 0x9E3779B97F4A7C15ull;
  e = getenv("SCHEDC_SHORTREAD_MAX");
  if (e && strtoull(e, NULL, 10) >= 1)
    short_read_max = strtoull(e, NULL, 10);
  e = getenv("SCHEDC_SHORTWRITE_MAX");
  if (e && strtoull(e, NULL, 10) >= 1)
    short_write_max = strtoull(e, NULL, 10);
  initializing = 0;
  initialized = 1;
}

static void account(int64_t d, int64_t nb)
{
  int64_t l = atomic_fetch_add(&live, d) + d;
  int64_t b = atomic_fetch_add(&blocks, nb) + nb;
  int64_t p = atomic_load(&peak);

  while (l > p) {
    if (atomic_compare_exchange_weak(&peak, &p, l)) {
      if (shared) {
        shared[1] = l;
        shared[2] = b;
      }
      break;
    }
  }
  if (shared)
    shared[0] = l;
}

void *malloc(size_t n)
{
  void *p;

  if (!initialized) {
    if (initializing)
      return boot_alloc(n);
    init();
  }
  p = real_malloc(n);
  if (p)
    account((int64_t)malloc_usable_size(p), 1);
  return p;
}

void *calloc(size_t a, size_t b)
{
  void *p;

  if (!initialized) {
    if (initializing) {
      p = boot_alloc(a * b);
      memset(p, 0, a * b);
      return p;
    }
    init();
  }
  p = real_calloc(a, b);
  if (p)
    account((int64_t)malloc_usable_size(p), 1);
  return p;
}

void *realloc(void *q, size_t n)
{
  void *p;
  int64_t old;

  if (!initialized)
    init();
  if (q && in_boot(q)) {
    p = malloc(n);
    if (p)
      memcpy(p, q, n);            /* boot blocks are tiny and never shrink below n here */
    return p;
  }
  old = q ? (int64_t)malloc_usable_size(q) : 0;
  p = real_realloc(q, n);
  if (p)
    account((int64_t)malloc_usable_size(p) - old, q ? 0 : 1);
  else if (n == 0 && q)
    account(-old, -1);
  return p;
}

void free(void *p)
{
  if (!p || in_boot(p))
    return;
  if (!initialized)
    init();
  account(-(int64_t)malloc_usable_size(p), -1);
  real_free(p);
}

static uint64_t next_rand(_Atomic uint64_t *s)
{
  uint64_t x = atomic_load(s);

  x ^= x << 13;
  x ^= x >> 7;
  x ^= x << 17;
  atomic_store(s, x);
  return x;
}

ssize_t write(int fd, const void *buf, size_t n)
{
  if (!initialized && !initializing)
    init();
  if (!real_write)
    real_write = dlsym(RTLD_NEXT, "write");
  if (short_write == 1 && fd == 1 && n > 1) {
    size_t k = 1 + next_rand(&rng_w) % short_write_max;
    if (k < n)
      n = k;
  }
  return real_write(fd, buf, n);
}

ssize_t read(int fd, void *buf, size_t n)
{
  if (!initialized && !initializing)
    init();
  if (!real_read)
    real_read = dlsym(RTLD_NEXT, "read");
  if (short_read == 1 && fd == 0 && n > 1) {
    size_t k = 1 + next_rand(&rng_r) % short_read_max;
    if (k < n)
      n = k;
  }
  return real_read(fd, buf, n);
}
