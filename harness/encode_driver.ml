(* Driver for the extracted model of encode() + transmit() (coq/Enc/EncodeModel.v, coq/Enc/EncModel.v).
   Input, one block per line (fields as printed by harness/enc_h_block.c):
     E <cluster_factor> <M> blk=<hex> idx=<n> crc=<n>
   Output:
     OK nt= pad= extra= nsel= size= bits= outbits= ok= walk= sels= selmtf= len0= ... out=<hex of write_block>
       pad     tree_pad chosen by the model of encode()
       extra   1 when the model adds the surplus selector
       nsel    s->u.s.num_selectors after the padding
       size    out_expect_len (return value of encode())
       bits    cost in bits before cost >>= 3
       outbits length of write_block on the computed witness (must be bits = 8 * size)
       ok      witness_ok M on the computed witness
       walk    true when every value of `a` transmit() sends / steps through for every table is within 1..20
     ERR <what>      an error value of the model *)
open Encode_model

let rec pos_of_int n = if n = 1 then XH else if n land 1 = 0 then XO (pos_of_int (n lsr 1)) else XI (pos_of_int (n lsr 1))
let n_of_int n = if n = 0 then N0 else Npos (pos_of_int n)
let rec int_of_pos = function XH -> 1 | XO p -> 2 * int_of_pos p | XI p -> 2 * int_of_pos p + 1
let int_of_n = function N0 -> 0 | Npos p -> int_of_pos p

let arr_name = function
  | ALeaf -> "leaf_weight" | ATree -> "tree" | ARow -> "tree-row" | APkg -> "pkg_weight" | APrev -> "prev_weight"
  | ACurr -> "curr_weight" | ACount -> "count" | ALength -> "length" | AFreq -> "frequency"
let pm_err_name = function
  | OobRead a -> "oob-read-" ^ arr_name a
  | OobWrite a -> "oob-write-" ^ arr_name a
  | Underflow id -> "underflow-" ^ string_of_int (int_of_n id)
  | AssertFail id -> "assert-" ^ string_of_int (int_of_n id)
  | OutOfFuel -> "out-of-fuel"
let mcl_err_name = function
  | MOob id -> "oob-" ^ string_of_int (int_of_n id)
  | MUnderflow id -> "underflow-" ^ string_of_int (int_of_n id)
  | MAssert id -> "assert-" ^ string_of_int (int_of_n id)
let gen_err_name = function
  | GOob id -> "oob-" ^ string_of_int (int_of_n id)
  | GAssert id -> "assert-" ^ string_of_int (int_of_n id)
  | GUnset id -> "unset-" ^ string_of_int (int_of_n id)
  | GPm e -> "assign_codes-" ^ pm_err_name e
  | GMcl e -> "make_code_lengths-" ^ mcl_err_name e
let enc_err_name = function
  | EGen e -> "generate_prefix_code-" ^ gen_err_name e
  | EAssert id -> "encode-assert-" ^ string_of_int (int_of_n id)
  | EOob id -> "encode-oob-" ^ string_of_int (int_of_n id)

let csv l =
  let b = Buffer.create 1024 in
  List.iteri (fun i x -> if i > 0 then Buffer.add_char b ','; Buffer.add_string b (string_of_int (int_of_n x))) l;
  if l = [] then "-" else Buffer.contents b

let field kvs k = try List.assoc k kvs with Not_found -> ""
let bytes_of_hex s = if s = "-" || s = "" then [] else
  List.init (String.length s / 2) (fun i -> n_of_int (int_of_string ("0x" ^ String.sub s (2 * i) 2)))

let hex_of_bits bits =
  let b = Buffer.create 64 in
  let rec go l = match l with
    | b7 :: b6 :: b5 :: b4 :: b3 :: b2 :: b1 :: b0 :: r ->
      let v = List.fold_left (fun a x -> 2 * a + (if x then 1 else 0)) 0 [b7; b6; b5; b4; b3; b2; b1; b0] in
      Buffer.add_string b (Printf.sprintf "%02x" v); go r
    | [] -> ()
    | r -> let v = List.fold_left (fun a x -> 2 * a + (if x then 1 else 0)) 0 (r @ List.init (8 - List.length r) (fun _ -> false)) in
      Buffer.add_string b (Printf.sprintf "%02x!" v) in
  go bits; Buffer.contents b

let () =
  try
    while true do
      let line = input_line stdin in
      let toks = List.filter (fun s -> s <> "") (String.split_on_char ' ' (String.trim line)) in
      (match toks with
       | "E" :: cf :: m :: rest ->
         let kvs = List.filter_map (fun t -> match String.index_opt t '=' with
             | Some i -> Some (String.sub t 0 i, String.sub t (i + 1) (String.length t - i - 1)) | None -> None) rest in
         let blk = bytes_of_hex (field kvs "blk") in
         let idx = n_of_int (int_of_string (field kvs "idx")) in
         let crc = n_of_int (int_of_string (field kvs "crc")) in
         (match encode_block_full (n_of_int (int_of_string cf)) blk idx crc with
          | EErr e -> Printf.printf "ERR %s\n" (enc_err_name e)
          | EOk r ->
            let w = r.e_wit in
            let bits = write_block w in
            let in_range a = let v = int_of_n a in 1 <= v && v <= 20 in
            let walk_ok = List.for_all (fun x -> x)
                (List.mapi (fun i lens -> List.for_all in_range (table_walk (if i = 0 then w.w_pad else N0) lens)) w.w_tables) in
            Printf.printf "OK nt=%d pad=%d extra=%d nsel=%d size=%d bits=%d outbits=%d ok=%b walk=%b sels=%s selmtf=%s"
              (List.length w.w_tables) (int_of_n w.w_pad) (if w.w_extra_sel then 1 else 0) (int_of_n r.e_nsel)
              (int_of_n r.e_expect_len) (int_of_n r.e_cost_bits) (List.length bits)
              (witness_ok (n_of_int (int_of_string m)) w) walk_ok (csv w.w_sels) (csv r.e_selmtf);
            List.iteri (fun i t -> Printf.printf " len%d=%s" i (csv t)) w.w_tables;
            Printf.printf " out=%s\n" (hex_of_bits bits))
       | _ -> print_endline "BADLINE");
      flush stdout
    done
  with End_of_file -> ()
