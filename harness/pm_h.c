/* C20 correspondence harness for the prefix-code construction of src/encode.c
   (sort_alphabet / package_merge / assign_codes are static: including the .c file gives access).

   Input: one case per line,  "<mode> <f0,f1,...>"  (as = number of frequencies, 2 <= as <= 258)
     mode L: run the REAL assign_codes() on the vector and print its return value and length[0..as-1];
             then rebuild leaf_weight[] exactly as assign_codes does (labelling loop replicated here,
             the real sort_alphabet() and package_merge() are called) and print leaf_weight[0..as] and the
             whole tree[21][21] matrix.
     mode T: only the second part (used for vectors on which assign_codes would trip its assert()s).
   Output: one line per case:  [cost=<u> len=<csv>] lw=<hex csv> tree=<row;row;...>  */
#include "encode.c"
#include <stdio.h>

static char line[1 << 16];

int main(void)
{
  printf("CONST MCL=%d MAS=%d MHCL=%d\n", MAX_CODE_LENGTH, MAX_ALPHA_SIZE, MAX_HUFF_CODE_LENGTH);
  fflush(stdout);
  while (fgets(line, sizeof line, stdin)) {
    static uint32_t freq[MAX_ALPHA_SIZE + 1], code[MAX_ALPHA_SIZE + 1];
    static uint8_t length[MAX_ALPHA_SIZE + 1];
    uint64_t leaf_weight[MAX_ALPHA_SIZE + 1];
    uint32_t count[MAX_HUFF_CODE_LENGTH + 2];
    uint16_t tree[MAX_CODE_LENGTH + 1][MAX_CODE_LENGTH + 1];
    char *ms = strtok(line, " \n"), *fs = strtok(NULL, " \n"), *q;
    uint32_t as = 0, leaf, d, k;

    if (!ms || !fs) { puts("BADLINE"); continue; }
    for (q = strtok(fs, ","); q && as < MAX_ALPHA_SIZE; q = strtok(NULL, ","))
      freq[as++] = (uint32_t)strtoul(q, NULL, 10);
    if (as < 2) { puts("BADLINE"); continue; }

    if (ms[0] == 'L') {
      uint32_t cost;
      memset(length, 0, sizeof length);
      cost = assign_codes(code, length, freq, as);
      printf("cost=%u len=", (unsigned)cost);
      for (k = 0; k < as; k++) printf("%s%u", k ? "," : "", (unsigned)length[k]);
      putchar(' ');
    }

    for (leaf = 0; leaf < as; leaf++)
      leaf_weight[leaf + 1] = (((uint64_t)freq[leaf] << 32) | 0x10000 | (MAX_ALPHA_SIZE - leaf));
    sort_alphabet(leaf_weight + 1, leaf_weight + as + 1);
    leaf_weight[0] = -1;
    memset(tree, 0, sizeof(tree));
    package_merge(tree, count, leaf_weight, as);

    printf("lw=");
    for (k = 0; k <= as; k++) printf("%s%llx", k ? "," : "", (unsigned long long)leaf_weight[k]);
    printf(" tree=");
    for (d = 0; d <= MAX_CODE_LENGTH; d++) {
      if (d) putchar(';');
      for (k = 0; k <= MAX_CODE_LENGTH; k++) printf("%s%u", k ? "," : "", (unsigned)tree[d][k]);
    }
    putchar('\n');
    fflush(stdout);   /* keep the lines already produced if a later case aborts */
  }
  return 0;
}
