(* Driver for the extracted lockset checker (area Lock, property C12): prints the
   verdict of the verified checker on the regenerated program, the tracked variable
   ids, every recorded fact and every failing pair.  No input. *)
open Lock_model

let rec int_of_pos = function XH -> 1 | XO p -> 2 * int_of_pos p | XI p -> 2 * int_of_pos p + 1
let rec int_of_nat = function O -> 0 | S n -> 1 + int_of_nat n
let char_of_ascii (Ascii (b0, b1, b2, b3, b4, b5, b6, b7)) =
  let v b k = if b then 1 lsl k else 0 in
  Char.chr (v b0 0 + v b1 1 + v b2 2 + v b3 3 + v b4 4 + v b5 5 + v b6 6 + v b7 7)
let rec str = function EmptyString -> "" | String (c, s) -> String.make 1 (char_of_ascii c) ^ str s

let fact f =
  Printf.sprintf "%d %d %d %d %d [%s]" (int_of_nat f.f_spec) (int_of_pos f.f_var)
    (if f.f_write then 1 else 0) (if f.f_conc then 1 else 0) (int_of_pos f.f_site)
    (String.concat "," (List.map (fun m -> string_of_int (int_of_pos m)) f.f_locks))

let () =
  Printf.printf "VERDICT %s\n" (if lock_verdict then "true" else "false");
  Printf.printf "TRACKED %s\n" (String.concat " " (List.map (fun v -> string_of_int (int_of_pos v)) lock_tracked));
  List.iter (fun d ->
    match d with
    | DiagFlowFailed (name, i) -> Printf.printf "FLOWFAILED %s %d\n" (str name) (int_of_nat i)
    | DiagFacts (name, facts, bad) ->
      Printf.printf "SCENARIO %s\n" (str name);
      List.iter (fun f -> Printf.printf "FACT %s\n" (fact f)) facts;
      List.iter (fun (f, g) -> Printf.printf "BAD %s | %s\n" (fact f) (fact g)) bad)
    lock_diagnosis
