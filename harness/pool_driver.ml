(* Driver for the extracted array-level deque / heap model (coq/Safe/PoolModel.v interpreting
   coq/Gen/PoolTab.v).  Same input and output format as harness/pool_h.c:
     D <capacity> <op>...    p<v> u<v> s o g<i> t<i>:<v> z e
     H <capacity> <op>...    q<major>.<minor>.<id> d k z e
   per op:  <result>@<head>,<size>   resp.  <result>@<size>[<ids of root[0..size-1]>]
   An error value of the model ends the sequence with  ERR:<fault>. *)
open Pool_model

let rec pos_of_int n = if n = 1 then XH else if n land 1 = 0 then XO (pos_of_int (n lsr 1)) else XI (pos_of_int (n lsr 1))
let n_of_int n = if n = 0 then N0 else Npos (pos_of_int n)
let rec int_of_pos = function XH -> 1 | XO p -> 2 * int_of_pos p | XI p -> 2 * int_of_pos p + 1
let int_of_n = function N0 -> 0 | Npos p -> int_of_pos p
(* 64-bit keys: decimal strings up to 2^64-1 do not fit OCaml's int; go through Int64 bits *)
let n_of_u64_string s =
  let v = Int64.of_string ("0u" ^ s) in
  let rec go acc i =
    if i < 0 then acc
    else
      let bit = Int64.logand (Int64.shift_right_logical v i) 1L = 1L in
      let acc' = match acc with
        | N0 -> if bit then Npos XH else N0
        | Npos p -> if bit then Npos (XI p) else Npos (XO p) in
      go acc' (i - 1) in
  go N0 63

let fault_name = function
  | Oob -> "oob" | Uninit -> "uninit" | AssertFail -> "assert" | Fuel -> "fuel" | BadOp -> "badop"

exception Stop of string

let get = function Good x -> x | Bad f -> raise (Stop ("ERR:" ^ fault_name f))

let dkey (_ : n) = (N0, N0)

let run_deque cap ops buf =
  let s = ref (get (dq_init dkey (n_of_int cap))) in
  List.iter (fun tok ->
      let arg = String.sub tok 1 (String.length tok - 1) in
      (match tok.[0] with
       | 'p' -> s := get (dq_push dkey !s (n_of_int (int_of_string arg))); Buffer.add_string buf "-"
       | 'u' -> s := get (dq_unshift dkey !s (n_of_int (int_of_string arg))); Buffer.add_string buf "-"
       | 's' -> let (x, s') = get (dq_shift dkey !s) in s := s'; Buffer.add_string buf (Printf.sprintf "v%d" (int_of_n x))
       | 'o' -> let (x, s') = get (dq_pop dkey !s) in s := s'; Buffer.add_string buf (Printf.sprintf "v%d" (int_of_n x))
       | 'g' -> let x = get (dq_get dkey !s (n_of_int (int_of_string arg))) in
         Buffer.add_string buf (Printf.sprintf "v%d" (int_of_n x))
       | 't' ->
         (match String.split_on_char ':' arg with
          | [i; v] -> s := get (dq_set dkey !s (n_of_int (int_of_string i)) (n_of_int (int_of_string v)));
            Buffer.add_string buf "-"
          | _ -> Buffer.add_string buf "?")
       | 'z' -> Buffer.add_string buf (Printf.sprintf "n%d" (int_of_n (get (q_size dkey !s))))
       | 'e' -> Buffer.add_string buf (Printf.sprintf "b%d" (if get (q_empty dkey !s) then 1 else 0))
       | _ -> Buffer.add_string buf "?");
      Buffer.add_string buf (Printf.sprintf "@%d,%d " (int_of_n !s.q_f.f_head) (int_of_n !s.q_f.f_size)))
    ops

let hkey (x : (n * n) * n) = fst x

let rec take n l = if n = 0 then [] else match l with [] -> [] | x :: r -> x :: take (n - 1) r

let run_heap cap ops buf =
  let s = ref (get (pq_init hkey (n_of_int cap))) in
  List.iter (fun tok ->
      let arg = String.sub tok 1 (String.length tok - 1) in
      (match tok.[0] with
       | 'q' ->
         (match String.split_on_char '.' arg with
          | [ma; mi; id] ->
            s := get (pq_enqueue hkey !s ((n_of_u64_string ma, n_of_u64_string mi), n_of_int (int_of_string id)));
            Buffer.add_string buf "-"
          | _ -> Buffer.add_string buf "?")
       | 'd' -> let (x, s') = get (pq_dequeue hkey !s) in s := s'; Buffer.add_string buf (Printf.sprintf "i%d" (int_of_n (snd x)))
       | 'k' -> let x = get (pq_peek hkey !s) in Buffer.add_string buf (Printf.sprintf "i%d" (int_of_n (snd x)))
       | 'z' -> Buffer.add_string buf (Printf.sprintf "n%d" (int_of_n (get (q_size hkey !s))))
       | 'e' -> Buffer.add_string buf (Printf.sprintf "b%d" (if get (q_empty hkey !s) then 1 else 0))
       | _ -> Buffer.add_string buf "?");
      let sz = int_of_n !s.q_f.f_size in
      let ids = List.map (function Some x -> string_of_int (int_of_n (snd x)) | None -> "U") (take sz !s.q_arr) in
      Buffer.add_string buf (Printf.sprintf "@%d[%s] " sz (String.concat "," ids)))
    ops

let () =
  Printf.printf "CONST UMOD=%d\n" (int_of_n uMOD);
  try
    while true do
      let line = input_line stdin in
      let toks = List.filter (fun s -> s <> "") (String.split_on_char ' ' (String.trim line)) in
      let buf = Buffer.create 4096 in
      (match toks with
       | kind :: cap :: ops when kind = "D" || kind = "H" ->
         (try (if kind = "D" then run_deque else run_heap) (int_of_string cap) ops buf
          with Stop msg -> Buffer.add_string buf msg)
       | _ -> Buffer.add_string buf "BADLINE");
      print_endline (Buffer.contents buf)
    done
  with End_of_file -> ()
