/*
  faultinj.c -- LD_PRELOAD fault / signal injection shim (verification harness)

  Build:  gcc -O2 -shared -fPIC -o faultinj.so faultinj.c -ldl -lpthread
          (lib/faultlib.py: build_faultinj() does this with caching into
          /verif/.work/bin/faultinj.so)
  Use:    LD_PRELOAD=/verif/.work/bin/faultinj.so FI_...=... program args

  Wrapped calls ("names"):
      read write close open open64 openat openat64 unlink fchown fchmod futimens
  For matching purposes open/open64/openat/openat64 all count as name "open".

  fd classes:
      stdin  = fd 0        stdout = fd 1        stderr = fd 2
      file   = fd >= 3 (and every path-based call: open*, unlink)
      any    = every class including stderr
  The shim's own log descriptor is never counted, matched or logged.
  stderr is never matched unless FI_FDCLASS=any, so the program's diagnostics
  are not disturbed.

  Environment (all optional; without FI_CALL nothing is injected):
      FI_CALL=<name>        which wrapped call to hit
      FI_FDCLASS=<class>    stdin|stdout|stderr|file|any    (default any)
      FI_NTH=<n>            hit the n-th matching call, 1-based (default 1);
                            the count is over calls that match FI_CALL+FI_FDCLASS,
                            over all threads, in the order they enter the wrapper
      FI_STICKY=1           hit the n-th and every later matching call
    exactly one action:
      FI_ERRNO=<number>     the call is NOT performed; it returns -1 with this errno
        FI_SIGNAL_TOO=1     and, like the kernel, for EPIPE raise SIGPIPE / for EFBIG
                            raise SIGXFSZ for the *calling thread*
                            (pthread_kill(pthread_self(), sig)) before returning -1
      FI_RAISE=<signo>      kill(getpid(), signo) at that point, then perform the call
      FI_KILL=1             kill(getpid(), SIGKILL) at that point (call not performed)
    independent of FI_CALL:
      FI_SHORT=<k>          every read/write on stdin, stdout and file descriptors
                            (never stderr) is cut to at most k bytes (k >= 1)
      FI_LOG=<file>         append one line per wrapped call (O_APPEND, one write()
                            per line, hence atomic):
          <name> <class> fd=<fd> n=<k> t=<main|sub>:<tid> req=<bytes|-> ret=<r> errno=<e> [INJ:<what>]
        n is the 1-based occurrence of this (name, class) pair; with
        FI_FDCLASS=any the matching count is the per-name total, logged as all=<k>.
        An injected call is logged *before* the action is taken (so the line
        exists even if the action kills the process); the line then carries
        ret=-1 errno=<injected> INJ:errno[+sig] | ret=? INJ:raise<signo> | INJ:kill.

  Thread/async-signal safety: configuration is parsed once (constructor, or
  lazily on the first wrapped call); afterwards only C11 atomics, raw
  write() to the log descriptor and snprintf into a stack buffer are used.
  Real functions are resolved with dlsym(RTLD_NEXT).
*/
#define _GNU_SOURCE
#include <dlfcn.h>
#include <errno.h>
#include <fcntl.h>
#include <pthread.h>
#include <signal.h>
#include <stdarg.h>
#include <stdatomic.h>
#include <stdio.h>
#include <stdlib.h>
#include <string.h>
#include <sys/stat.h>
#include <sys/syscall.h>
#include <sys/types.h>
#include <time.h>
#include <unistd.h>

enum { C_READ, C_WRITE, C_CLOSE, C_OPEN, C_UNLINK, C_FCHOWN, C_FCHMOD, C_FUTIMENS, NCALLS };
static const char *const call_names[NCALLS] = {
  "read", "write", "close", "open", "unlink", "fchown", "fchmod", "futimens"
};
enum { K_STDIN, K_STDOUT, K_STDERR, K_FILE, NCLASSES, K_ANY = NCLASSES };
static const char *const class_names[NCLASSES + 1] = { "stdin", "stdout", "stderr", "file", "any" };

static ssize_t (*real_read)(int, void *, size_t);
static ssize_t (*real_write)(int, const void *, size_t);
static int (*real_close)(int);
static int (*real_open)(const char *, int, ...);
static int (*real_open64)(const char *, int, ...);
static int (*real_openat)(int, const char *, int, ...);
static int (*real_openat64)(int, const char *, int, ...);
static int (*real_unlink)(const char *);
static int (*real_fchown)(int, uid_t, gid_t);
static int (*real_fchmod)(int, mode_t);
static int (*real_futimens)(int, const struct timespec[2]);

static atomic_int fi_state;     /* 0 = not initialised, 1 = initialising, 2 = ready */
static int cfg_call = -1;       /* index into call_names or -1 */
static int cfg_class = K_ANY;
static long cfg_nth = 1;
static int cfg_sticky;
static int cfg_errno;           /* 0 = no errno action */
static int cfg_signal_too;
static int cfg_raise;           /* 0 = none */
static int cfg_kill;
static long cfg_short;          /* 0 = off */
static int log_fd = -1;

static atomic_long match_count;
static atomic_long cnt[NCALLS][NCLASSES];
static atomic_long cnt_all[NCALLS];

static void
resolve(void)
{
  real_read = dlsym(RTLD_NEXT, "read");
  real_write = dlsym(RTLD_NEXT, "write");
  real_close = dlsym(RTLD_NEXT, "close");
  real_open = dlsym(RTLD_NEXT, "open");
  real_open64 = dlsym(RTLD_NEXT, "open64");
  real_openat = dlsym(RTLD_NEXT, "openat");
  real_openat64 = dlsym(RTLD_NEXT, "openat64");
  real_unlink = dlsym(RTLD_NEXT, "unlink");
  real_fchown = dlsym(RTLD_NEXT, "fchown");
  real_fchmod = dlsym(RTLD_NEXT, "fchmod");
  real_futimens = dlsym(RTLD_NEXT, "futimens");
  if (!real_open64)
    real_open64 = real_open;
  if (!real_openat64)
    real_openat64 = real_openat;
}

static void
fi_init(void)
{
  int expected = 0;
  const char *e;
  int i;

  if (atomic_load(&fi_state) == 2)
    return;
  if (!atomic_compare_exchange_strong(&fi_state, &expected, 1)) {
    /* another thread initialises (cannot happen before main() in practice) */
    while (atomic_load(&fi_state) != 2)
      ;
    return;
  }
  resolve();
  if ((e = getenv("FI_CALL")) != NULL) {
    const char *nm = e;
    if (!strcmp(nm, "open64") || !strcmp(nm, "openat") || !strcmp(nm, "openat64"))
      nm = "open";
    for (i = 0; i < NCALLS; i++)
      if (!strcmp(nm, call_names[i]))
        cfg_call = i;
    if (cfg_call < 0) {
      static const char msg[] = "faultinj: unknown FI_CALL\n";
      (void)syscall(SYS_write, 2, msg, sizeof msg - 1);
      _exit(99);
    }
  }
  if ((e = getenv("FI_FDCLASS")) != NULL) {
    cfg_class = -1;
    for (i = 0; i <= NCLASSES; i++)
      if (!strcmp(e, class_names[i]))
        cfg_class = i;
    if (cfg_class < 0) {
      static const char msg[] = "faultinj: unknown FI_FDCLASS\n";
      (void)syscall(SYS_write, 2, msg, sizeof msg - 1);
      _exit(99);
    }
  }
  if ((e = getenv("FI_NTH")) != NULL)
    cfg_nth = strtol(e, NULL, 10);
  if ((e = getenv("FI_STICKY")) != NULL)
    cfg_sticky = atoi(e) != 0;
  if ((e = getenv("FI_ERRNO")) != NULL)
    cfg_errno = atoi(e);
  if ((e = getenv("FI_SIGNAL_TOO")) != NULL)
    cfg_signal_too = atoi(e) != 0;
  if ((e = getenv("FI_RAISE")) != NULL)
    cfg_raise = atoi(e);
  if ((e = getenv("FI_KILL")) != NULL)
    cfg_kill = atoi(e) != 0;
  if ((e = getenv("FI_SHORT")) != NULL)
    cfg_short = strtol(e, NULL, 10);
  if ((e = getenv("FI_LOG")) != NULL && *e) {
    int fd = (real_open64 ? real_open64 : real_open)(e, O_WRONLY | O_CREAT | O_APPEND | O_CLOEXEC, 0644);
    if (fd >= 0) {
      /* move out of the way so that the program's own descriptors keep their numbers */
      int hi = fcntl(fd, F_DUPFD_CLOEXEC, 200);
      if (hi >= 0) {
        real_close(fd);
        fd = hi;
      }
      log_fd = fd;
    }
  }
  atomic_store(&fi_state, 2);
}

__attribute__((constructor)) static void
fi_ctor(void)
{
  fi_init();
}

static int
fd_class(int fd)
{
  return fd == 0 ? K_STDIN : fd == 1 ? K_STDOUT : fd == 2 ? K_STDERR : K_FILE;
}

static void
fi_log(int call, int cls, int fd, long n, long all, long req, int has_req,
       long ret, int has_ret, int err, const char *inj)
{
  char buf[256];
  char reqs[24], rets[24];
  int len;
  long tid;
  int saved = errno;

  if (log_fd < 0)
    return;
  tid = syscall(SYS_gettid);
  if (has_req)
    snprintf(reqs, sizeof reqs, "%ld", req);
  else
    strcpy(reqs, "-");
  if (has_ret)
    snprintf(rets, sizeof rets, "%ld", ret);
  else
    strcpy(rets, "?");
  len = snprintf(buf, sizeof buf, "%s %s fd=%d n=%ld all=%ld t=%s:%ld req=%s ret=%s errno=%d%s%s\n",
                 call_names[call], class_names[cls], fd, n, all,
                 tid == (long)getpid() ? "main" : "sub", tid, reqs, rets, err,
                 inj ? " INJ:" : "", inj ? inj : "");
  if (len > 0)
    (void)real_write(log_fd, buf, (size_t)(len < (int)sizeof buf ? len : (int)sizeof buf - 1));
  errno = saved;
}

struct hit {
  int cls;
  long n, all;
  int inject;                   /* 0 none, 1 errno, 2 raise, 3 kill */
};

/* Count the call; decide whether it is the one to hit. */
static struct hit
account(int call, int fd, int pathbased)
{
  struct hit h;

  h.cls = pathbased ? K_FILE : fd_class(fd);
  h.n = atomic_fetch_add(&cnt[call][h.cls], 1) + 1;
  h.all = atomic_fetch_add(&cnt_all[call], 1) + 1;
  h.inject = 0;
  if (cfg_call == call && (cfg_class == K_ANY || cfg_class == h.cls)) {
    long m = atomic_fetch_add(&match_count, 1) + 1;
    if (m == cfg_nth || (cfg_sticky && m > cfg_nth)) {
      if (cfg_kill)
        h.inject = 3;
      else if (cfg_raise)
        h.inject = 2;
      else if (cfg_errno)
        h.inject = 1;
    }
  }
  return h;
}

/* Perform the pre-call part of an injection.  Returns 1 if the call must not
   be performed (errno set, caller returns -1). */
static int
act(int call, int fd, const struct hit *h, long req, int has_req)
{
  char what[32];

  switch (h->inject) {
  case 1: {
    int sig = 0;
    if (cfg_signal_too)
      sig = cfg_errno == EPIPE ? SIGPIPE : cfg_errno == EFBIG ? SIGXFSZ : 0;
    snprintf(what, sizeof what, sig ? "errno+sig%d" : "errno", sig);
    fi_log(call, h->cls, fd, h->n, h->all, req, has_req, -1, 1, cfg_errno, what);
    if (sig)
      pthread_kill(pthread_self(), sig);
    errno = cfg_errno;
    return 1;
  }
  case 2:
    snprintf(what, sizeof what, "raise%d", cfg_raise);
    fi_log(call, h->cls, fd, h->n, h->all, req, has_req, 0, 0, 0, what);
    kill(getpid(), cfg_raise);
    return 0;
  case 3:
    fi_log(call, h->cls, fd, h->n, h->all, req, has_req, 0, 0, 0, "kill");
    kill(getpid(), SIGKILL);
    for (;;)
      pause();
  default:
    return 0;
  }
}

#define SKIP(fd) ((fd) >= 0 && (fd) == log_fd)

ssize_t
read(int fd, void *buf, size_t count)
{
  struct hit h;
  ssize_t r;

  fi_init();
  if (SKIP(fd))
    return real_read(fd, buf, count);
  h = account(C_READ, fd, 0);
  if (act(C_READ, fd, &h, (long)count, 1))
    return -1;
  if (cfg_short > 0 && fd != 2 && count > (size_t)cfg_short)
    count = (size_t)cfg_short;
  r = real_read(fd, buf, count);
  if (h.inject != 1)
    fi_log(C_READ, h.cls, fd, h.n, h.all, (long)count, 1, (long)r, 1, r < 0 ? errno : 0, NULL);
  return r;
}

ssize_t
write(int fd, const void *buf, size_t count)
{
  struct hit h;
  ssize_t r;

  fi_init();
  if (SKIP(fd))
    return real_write(fd, buf, count);
  h = account(C_WRITE, fd, 0);
  if (act(C_WRITE, fd, &h, (long)count, 1))
    return -1;
  if (cfg_short > 0 && fd != 2 && count > (size_t)cfg_short)
    count = (size_t)cfg_short;
  r = real_write(fd, buf, count);
  fi_log(C_WRITE, h.cls, fd, h.n, h.all, (long)count, 1, (long)r, 1, r < 0 ? errno : 0, NULL);
  return r;
}

int
close(int fd)
{
  struct hit h;
  int r;

  fi_init();
  if (SKIP(fd)) {
    /* the program closes "our" descriptor number: pretend it was not open */
    errno = EBADF;
    return -1;
  }
  h = account(C_CLOSE, fd, 0);
  if (act(C_CLOSE, fd, &h, 0, 0))
    return -1;
  r = real_close(fd);
  fi_log(C_CLOSE, h.cls, fd, h.n, h.all, 0, 0, r, 1, r < 0 ? errno : 0, NULL);
  return r;
}

static int
needs_mode(int flags)
{
#ifdef O_TMPFILE
  if ((flags & O_TMPFILE) == O_TMPFILE)
    return 1;
#endif
  return (flags & O_CREAT) != 0;
}

#define OPEN_BODY(REAL, ...)                                                   \
  struct hit h;                                                                \
  mode_t mode = 0;                                                             \
  int r;                                                                       \
  fi_init();                                                                   \
  if (needs_mode(flags)) {                                                     \
    va_list ap;                                                                \
    va_start(ap, flags);                                                       \
    mode = (mode_t)va_arg(ap, int);                                            \
    va_end(ap);                                                                \
  }                                                                            \
  h = account(C_OPEN, -1, 1);                                                  \
  if (act(C_OPEN, -1, &h, 0, 0))                                               \
    return -1;                                                                 \
  r = REAL(__VA_ARGS__, flags, mode);                                          \
  fi_log(C_OPEN, h.cls, r, h.n, h.all, 0, 0, r, 1, r < 0 ? errno : 0, NULL);   \
  return r;

int
open(const char *path, int flags, ...)
{
  OPEN_BODY(real_open, path)
}

int
open64(const char *path, int flags, ...)
{
  OPEN_BODY(real_open64, path)
}

int
openat(int dirfd, const char *path, int flags, ...)
{
  OPEN_BODY(real_openat, dirfd, path)
}

int
openat64(int dirfd, const char *path, int flags, ...)
{
  OPEN_BODY(real_openat64, dirfd, path)
}

int
unlink(const char *path)
{
  struct hit h;
  int r;

  fi_init();
  h = account(C_UNLINK, -1, 1);
  if (act(C_UNLINK, -1, &h, 0, 0))
    return -1;
  r = real_unlink(path);
  fi_log(C_UNLINK, h.cls, -1, h.n, h.all, 0, 0, r, 1, r < 0 ? errno : 0, NULL);
  return r;
}

int
fchown(int fd, uid_t uid, gid_t gid)
{
  struct hit h;
  int r;

  fi_init();
  h = account(C_FCHOWN, fd, 0);
  if (act(C_FCHOWN, fd, &h, 0, 0))
    return -1;
  r = real_fchown(fd, uid, gid);
  fi_log(C_FCHOWN, h.cls, fd, h.n, h.all, 0, 0, r, 1, r < 0 ? errno : 0, NULL);
  return r;
}

int
fchmod(int fd, mode_t mode)
{
  struct hit h;
  int r;

  fi_init();
  h = account(C_FCHMOD, fd, 0);
  if (act(C_FCHMOD, fd, &h, 0, 0))
    return -1;
  r = real_fchmod(fd, mode);
  fi_log(C_FCHMOD, h.cls, fd, h.n, h.all, 0, 0, r, 1, r < 0 ? errno : 0, NULL);
  return r;
}

int
futimens(int fd, const struct timespec ts[2])
{
  struct hit h;
  int r;

  fi_init();
  h = account(C_FUTIMENS, fd, 0);
  if (act(C_FUTIMENS, fd, &h, 0, 0))
    return -1;
  r = real_futimens(fd, ts);
  fi_log(C_FUTIMENS, h.cls, fd, h.n, h.all, 0, 0, r, 1, r < 0 ? errno : 0, NULL);
  return r;
}
