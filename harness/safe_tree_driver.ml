(* Driver for the extracted array-level model of make_tree() and the decode sequence
   (coq/Safe/TreeModel.v).  Same input and output format as harness/safe_h_tree.c:
     <alpha> <len,len,...> [<hex v> ...]
   An undefined-behaviour outcome of the model is printed as "UB <what>". *)
open Safe_tree_model

let rec pos_of_int n = if n = 1 then XH else if n land 1 = 0 then XO (pos_of_int (n lsr 1)) else XI (pos_of_int (n lsr 1))
let n_of_int n = if n = 0 then N0 else Npos (pos_of_int n)
let rec nat_of_int n = if n = 0 then O else S (nat_of_int (n - 1))

(* N -> Int64 (values below 2^64, printed unsigned) *)
let rec i64_of_pos = function
  | XH -> 1L
  | XO p -> Int64.shift_left (i64_of_pos p) 1
  | XI p -> Int64.logor (Int64.shift_left (i64_of_pos p) 1) 1L
let i64_of_n = function N0 -> 0L | Npos p -> i64_of_pos p
let rec bits_of_pos = function XH -> 1 | XO p | XI p -> 1 + bits_of_pos p
let str_of_n x =
  match x with
  | N0 -> "0"
  | Npos p -> if bits_of_pos p > 64 then "TOOBIG" else Printf.sprintf "%Lu" (i64_of_n x)

(* hex string -> N, any length *)
let n_of_hex s =
  let bits = ref [] in                      (* most significant first *)
  String.iter (fun c ->
    let d = int_of_string ("0x" ^ String.make 1 c) in
    for i = 3 downto 0 do bits := ((d lsr i) land 1 = 1) :: !bits done) s;
  (* !bits is least significant first now *)
  let rec build = function                  (* lsb first list -> N *)
    | [] -> N0
    | b :: r ->
      (match build r with
       | N0 -> if b then Npos XH else N0
       | Npos p -> Npos (if b then XI p else XO p)) in
  build !bits

let arr_name = function AStart -> "start" | ABase -> "base" | ACount -> "count" | APerm -> "perm" | ALen -> "code_len"
let ub_name = function
  | OobRead a -> "oob-read-" ^ arr_name a
  | OobWrite a -> "oob-write-" ^ arr_name a
  | UninitRead a -> "uninit-read-" ^ arr_name a
  | BadShift -> "bad-shift"
  | IntOverflow -> "int-overflow"
  | AssertFail id -> "assert-" ^ str_of_n id
  | OutOfFuel -> "out-of-fuel"

let show_arr l = String.concat "," (List.map str_of_n l)

let tree_no = n_of_int 2

let () =
  Printf.printf "SIZES %s %s %s %s %s CONST %s %s %s %s %s %s %s\n"
    (str_of_n sTART_SIZE) (str_of_n bASE_SIZE) (str_of_n cOUNT_SIZE) (str_of_n pERM_SIZE) (str_of_n lEN_SIZE)
    (str_of_n rUN_A) (str_of_n rUN_B) (str_of_n eOB) (str_of_n hUFF_START_WIDTH)
    (str_of_n e_ERR_INCOMPLT) (str_of_n e_ERR_PREFIX) (str_of_n mAX_TREES);
  try
    while true do
      let line = input_line stdin in
      match List.filter (fun s -> s <> "") (String.split_on_char ' ' (String.trim line)) with
      | alpha :: lens :: vs ->
        (try
          let alpha = int_of_string alpha in
          let lens = List.map (fun s -> n_of_int (int_of_string s)) (String.split_on_char ',' lens) in
          if alpha < 3 || alpha > 258 || List.length lens <> alpha then print_endline "BADLINE"
          else begin
            let n = n_of_int alpha in
            match make_tree n (pad_len lens) garbage_tree with
            | Undef u -> print_endline ("UB make_tree " ^ ub_name u)
            | Done (vd, t) ->
              let b = Buffer.create 8192 in
              Buffer.add_string b (Printf.sprintf "V %s S %s B %s C %s P %s D" (str_of_n (verdict_code tree_no vd))
                (show_arr t.t_start) (show_arr t.t_base) (show_arr t.t_count) (show_arr t.t_perm));
              (match vd with
               | VBuilt ->
                 List.iter (fun hv ->
                   match tree_decode n t (n_of_hex hv) with
                   | Done ((s, k), v') -> Buffer.add_string b (Printf.sprintf " %s:%s:%s" (str_of_n s) (str_of_n k) (str_of_n v'))
                   | Undef u -> Buffer.add_string b (" UB-" ^ ub_name u)) vs
               | _ -> ());
              print_endline (Buffer.contents b)
          end
        with Failure _ -> print_endline "BADLINE")
      | _ -> print_endline "BADLINE"
    done
  with End_of_file -> ()
