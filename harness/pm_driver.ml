(* Driver for the extracted model of sort_alphabet/package_merge/assign_codes (coq/Enc/PmModel.v).
   Same input and output format as harness/pm_h.c:
     <mode L|T> <f0,f1,...>   ->   [cost=<u> len=<csv>] lw=<hex csv> tree=<row;row;...>
   An error value of the model is printed as "ERR <what>" in place of the cost/len fields. *)
open Pm_model

let rec pos_of_int n = if n = 1 then XH else if n land 1 = 0 then XO (pos_of_int (n lsr 1)) else XI (pos_of_int (n lsr 1))
let n_of_int n = if n = 0 then N0 else Npos (pos_of_int n)
let rec nat_of_int n = if n = 0 then O else S (nat_of_int (n - 1))
let rec int_of_nat = function O -> 0 | S m -> 1 + int_of_nat m

let rec i64_of_pos = function
  | XH -> 1L
  | XO p -> Int64.shift_left (i64_of_pos p) 1
  | XI p -> Int64.logor (Int64.shift_left (i64_of_pos p) 1) 1L
let i64_of_n = function N0 -> 0L | Npos p -> i64_of_pos p
let rec bits_of_pos = function XH -> 1 | XO p | XI p -> 1 + bits_of_pos p
let dec_of_n x = match x with
  | N0 -> "0"
  | Npos p -> if bits_of_pos p > 64 then "TOOBIG" else Printf.sprintf "%Lu" (i64_of_n x)
let hex_of_n x = match x with
  | N0 -> "0"
  | Npos p -> if bits_of_pos p > 64 then "TOOBIG" else Printf.sprintf "%Lx" (i64_of_n x)

let arr_name = function
  | ALeaf -> "leaf_weight" | ATree -> "tree" | ARow -> "tree-row" | APkg -> "pkg_weight" | APrev -> "prev_weight"
  | ACurr -> "curr_weight" | ACount -> "count" | ALength -> "length" | AFreq -> "frequency"
let err_name = function
  | OobRead a -> "oob-read-" ^ arr_name a
  | OobWrite a -> "oob-write-" ^ arr_name a
  | Underflow id -> "underflow-" ^ dec_of_n id
  | AssertFail id -> "assert-" ^ dec_of_n id
  | OutOfFuel -> "out-of-fuel"

let csv f l = String.concat "," (List.map f l)
let show_tree t = String.concat ";" (List.map (csv dec_of_n) t)

let () =
  Printf.printf "CONST MCL=%s MAS=%s MHCL=%s\n" (dec_of_n mAX_CODE_LENGTH) (dec_of_n mAX_ALPHA_SIZE) (dec_of_n mAX_HUFF_CODE_LENGTH);
  try
    while true do
      let line = input_line stdin in
      match List.filter (fun s -> s <> "") (String.split_on_char ' ' (String.trim line)) with
      | [mode; fs] ->
        let f = List.map (fun s -> n_of_int (int_of_string s)) (String.split_on_char ',' fs) in
        let n = List.length f in
        if n < 2 then print_endline "BADLINE" else begin
          let tail () =
            let lw = make_leaf_weight f in
            (match package_merge lw (nat_of_int n) with
             | Ok s -> Printf.printf "lw=%s tree=%s\n" (csv hex_of_n lw) (show_tree s.tree)
             | Err e -> Printf.printf "lw=%s tree=ERR %s\n" (csv hex_of_n lw) (err_name e)) in
          if mode = "L" then
            (match pm_lengths_res f with
             | Ok r ->
               Printf.printf "cost=%s len=%s lw=%s tree=%s\n" (dec_of_n r.r_cost) (csv dec_of_n r.r_lengths)
                 (csv hex_of_n r.r_lw) (show_tree r.r_tree)
             | Err e -> Printf.printf "ERR %s " (err_name e); tail ())
          else tail ()
        end
      | _ -> print_endline "BADLINE"
    done
  with End_of_file -> ()
